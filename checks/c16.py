"""C16: go:embed delivers exactly the files and bytes the go tool would embed (E2 internal/goembed + small E1 leg)."""
import os, sys
sys.path.insert(0, os.path.join(os.path.dirname(os.path.abspath(__file__)), "..", "rig"))
import core, inpkg

chk = core.Check("C16", level="exploration")
# probe + avoid: constructs covered by OPEN findings are not produced by the random generator (fixed probes keep them covered)
avoid = sorted(a for f in chk.open_findings() for a in f.get("avoid", []))
if os.environ.get("VERIF_C16_NOAVOID"):
    avoid = []
inj = {"internal/goembed/zz_verif_c16_test.go": os.path.join(core.V, "inpkg", "c16_embed_test.go")}
for rx, label in (("^TestVerifC16Probes$", "probes"), ("^TestVerifC16Trees$", "trees")):
    rc, out, rep, races, _ = inpkg.run_inpkg(chk, inj, "./internal/goembed", rx, tags="verif", extra_env={"VERIF_C16_AVOID": ",".join(avoid)})
    if os.environ.get("VERIF_C16_DEBUG"): print(out[-3000:])
    inpkg.absorb(chk, rep, out, rc, label)
chk.finish(floor_eval=100, floor_distinct=20)

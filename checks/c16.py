"""C16: go:embed delivers exactly the files and bytes the go tool would embed; patterns Go rejects are rejected.

Leg A (E2, decides most): inpkg/c16_embed_test.go inside internal/goembed - random package trees x pattern lists,
      oracle `go list -e -json ./...` (200 packages per call) + gc for directive syntax, vs the real ParsePatterns /
      LoadDirectives / ResolvePatterns / BuildFSEntries.
Leg B (E1, small): compiled programs (string, []byte, embed.FS variables; ReadDir/WalkDir/Open/ReadFile dump with a
      hand-rolled hash, println only) built by llgo from the working tree and by go1.24.0, outputs compared; plus
      negative programs that go rejects and llgo must reject.  The negatives rejected by `go list` double as the
      GUARD of leg A: llgo loads packages through go list with embed resolution on, so whatever go list rejects
      never reaches goembed.  Only if every such negative is rejected by the llgo build does leg A treat
      "go list rejects, goembed alone would accept" as advisory instead of a violation.
"""
import os
import random
import sys
import threading
import time

sys.path.insert(0, os.path.join(os.path.dirname(os.path.abspath(__file__)), "..", "rig"))
sys.path.insert(0, os.path.join(os.path.dirname(os.path.abspath(__file__)), "..", "gen"))
import core
import inpkg
import c16_prog

chk = core.Check("C16", level="exploration")
chk.assumptions = [
    "reference = go1.24.0: `go list -e -json` (EmbedPatterns/EmbedFiles/Error) for resolution, gc (go build) for //go:embed directive syntax, because go/build silently drops directive lines it cannot parse",
    "E2 drives LoadDirectives with files parsed by go/parser+ParseComments, as internal/build does through x/tools/go/packages",
    "packages rejected by go list never reach goembed inside llgo (verified on every run by compiled negative programs); a goembed function that alone would accept them is advisory",
    "embed.FS laid over BuildFSEntries with unsafe relies on embed.file = {name string; data string; hash [16]byte} (checked by reflection at start)",
]
w = chk.work
QUICK = chk.tier != "thorough"
DEBUG = os.environ.get("VERIF_C16_DEBUG")

# probe + avoid: constructs covered by OPEN findings are not produced by the random generator (fixed probes keep them covered)
avoid = sorted(a for f in chk.open_findings() for a in f.get("avoid", []))
if os.environ.get("VERIF_C16_NOAVOID"):
    avoid = []

llgo = core.build_llgo(w)
chk.cov["programs"] = 0
chk.cov["invalid_generated"] = 0


def build_pair(name, d):
    """builds the module in d with llgo and with go; returns {"llgo": (rc, text), "go": (rc, text)}"""
    r = {}
    b = w.sub("bin", name)  # never inside the source tree: `//go:embed *` would pick the binaries up
    rc, so, se = core.llgo_build(w, llgo, d, os.path.join(b, "out-llgo"), timeout=1800)
    r["llgo"] = (rc, (so + se)[-3000:])
    rc, so, se = core.go_build(w, d, os.path.join(b, "out-go"))
    r["go"] = (rc, (so + se)[-3000:])
    return r


def run_pos(a):
    (name, mod), d = a
    r = build_pair(name, d)
    env = w.env()
    for tag in ("llgo", "go"):
        if r[tag][0] == 0:
            r["run-" + tag] = core.run_prog([os.path.join(w.dir, "bin", name, "out-" + tag)], env=env, timeout=300,
                                            interposer=(tag == "llgo"))
    return r


def tree_listing(d):
    out = []
    for root, dirs, files in os.walk(d):
        dirs.sort()
        for fn in sorted(files + [x for x in dirs if os.path.islink(os.path.join(root, x))]):
            p = os.path.join(root, fn)
            rel = os.path.relpath(p, d)
            if os.path.islink(p):
                out.append("%s -> %s" % (rel, os.readlink(p)))
            else:
                st = os.lstat(p)
                out.append("%s mode=%o size=%d" % (rel, st.st_mode, st.st_size))
    return "\n".join(out) + "\n"


def replay_files(d, extra=None):
    files = {"tree.txt": tree_listing(d)}
    for root, _, fs in os.walk(d):
        for fn in fs:
            if fn.endswith(".go") or fn == "go.mod":
                p = os.path.join(root, fn)
                files[os.path.join("src", os.path.relpath(p, d)) + ".txt"] = open(p, errors="replace").read()
    files.update(extra or {})
    return files


def go_accepts(d):
    rc, so, se = core.sh(["go", "vet", "./..."], env=w.env(), cwd=d, timeout=600)
    return rc == 0, (so + se)[-2000:]


# ---------------------------------------------------------------- leg B1: negative programs (also the go-list guard)
negs = c16_prog.negative_programs()
negdirs = []
for kind, name, mod, links, fifos in negs:
    d = w.sub("neg", name)
    c16_prog.write_tree(d, mod, links, fifos)
    negdirs.append(d)

# the first successful llgo build of a run compiles the runtime into the run's private cache (~60 s): the fixed positive
# program starts now, next to the negatives (which fail before any code is generated)
fixed_mod = c16_prog.fixed_program()
fixed_dir = w.sub("pos", "fixed")
c16_prog.write_tree(fixed_dir, fixed_mod)
ok, txt = go_accepts(fixed_dir)
if not ok:
    core.broken("C16: fixed positive program rejected by go:\n" + txt)
fixed_res = {}


def run_fixed():
    fixed_res["r"] = run_pos((("fixed", fixed_mod), fixed_dir))


thf = threading.Thread(target=run_fixed)
thf.start()
negres = core.pmap(lambda a: build_pair("neg-" + a[0][1], a[1]), list(zip(negs, negdirs)), workers=8)
guard_ok = True
for (kind, name, mod, links, fifos), d, r in zip(negs, negdirs, negres):
    chk.cov["evaluations"] += 1
    chk.cov["programs"] += 1
    chk.sig("neg:" + name)
    if r["go"][0] == 0:
        core.broken("C16: negative program %s is accepted by go: generator/oracle error" % name)
    if r["llgo"][0] == 0:
        if kind == "golist":
            guard_ok = False
        last = (r["go"][1].strip().splitlines() or [""])[-1][:200]
        chk.violation("neg-" + name, replay_files(d, {"go-build.txt": r["go"][1], "llgo-build.txt": r["llgo"][1]}),
                      "[e1:llgo-accepts-what-go-rejects:%s] go build fails (%s) but llgo build succeeds" % (name, last))
    elif kind == "golist":
        # rejected - by go's own verdict surfacing through llgo's package loading (the guard), or by something else?
        want = [ln for ln in r["go"][1].splitlines() if ln.strip() and not ln.startswith("#")]
        key = want[-1].split(": ", 1)[-1] if want else ""
        if key and key not in r["llgo"][1]:
            chk.cov.setdefault("neg_rejected_with_other_message", []).append(name)
chk.cov["go_list_guard_verified"] = guard_ok
if DEBUG:
    print("negatives done %.0fs" % (time.time() - chk.t0), flush=True)

# ---------------------------------------------------------------- leg A in the background
inj = {"internal/goembed/zz_verif_c16_test.go": os.path.join(core.V, "inpkg", "c16_embed_test.go")}
e2 = {}


def run_e2():
    env = {"VERIF_C16_AVOID": ",".join(avoid), "VERIF_C16_GOLIST_GUARD": "1" if guard_ok else "0"}
    for rx, label in (("^TestVerifC16Probes$", "probes"), ("^TestVerifC16Trees$", "trees")):
        e2[label] = inpkg.run_inpkg(chk, inj, "./internal/goembed", rx, tags="verif", extra_env=env, timeout=2700)
        if DEBUG:
            print("e2 %s done %.0fs" % (label, time.time() - chk.t0), flush=True)


th = threading.Thread(target=run_e2)
th.start()

# ---------------------------------------------------------------- leg B2: positive programs
progs = []
nrand = 2 if QUICK else 10
if os.environ.get("VERIF_C16_PROGS"):
    nrand = int(os.environ["VERIF_C16_PROGS"])
for i in range(nrand):
    # a candidate the reference go tool rejects is a generator miss: re-draw (deterministic sequence)
    for attempt in range(8):
        rng = random.Random(chk.seed * 7919 + i * 131 + attempt)
        mod = c16_prog.random_program(rng)
        d = w.sub("pos", "cand-%d-%d" % (i, attempt))
        c16_prog.write_tree(d, mod)
        ok, txt = go_accepts(d)
        if ok:
            progs.append(("rand%d" % i, mod))
            break
        chk.cov["invalid_generated"] += 1
posdirs = []
for name, mod in progs:
    d = w.sub("pos", name)
    c16_prog.write_tree(d, mod)
    posdirs.append(d)

thf.join()
posres = [fixed_res["r"]] + core.pmap(run_pos, list(zip(progs, posdirs)), workers=4)
progs = [("fixed", fixed_mod)] + progs
posdirs = [fixed_dir] + posdirs
if DEBUG:
    print("positives done %.0fs" % (time.time() - chk.t0), flush=True)
lines = 0
for (name, mod), d, r in zip(progs, posdirs, posres):
    chk.cov["programs"] += 1
    if r["go"][0] != 0:
        core.broken("C16: positive program %s rejected by go build:\n%s" % (name, r["go"][1]))
    files = replay_files(d, {"go-build.txt": r["go"][1], "llgo-build.txt": r["llgo"][1]})
    if r["llgo"][0] != 0:
        chk.violation("pos-" + name, files, "[e1:llgo-build-fails] go builds the program, llgo does not:\n" + r["llgo"][1][-800:])
        continue
    a, b = r["run-llgo"], r["run-go"]
    if a.kind == "timeout" or b.kind == "timeout":
        chk.inconclusive += 1
        continue
    files.update({"llgo.out": a.out + a.err, "go.out": b.out + b.err})
    n = len(b.err.splitlines())
    chk.cov["evaluations"] += n
    lines += n
    for ln in b.err.splitlines():
        f = ln.split()
        if len(f) >= 2:
            hidden = "/." in ln or "/_" in ln or (len(f) > 2 and f[2].startswith((".", "_")))
            chk.sig("e1:" + f[1] + ":" + ("hidden" if hidden else "plain") + ":" + str(min(ln.count("/"), 4)))
    if (a.kind, a.rc, a.out, a.err) != (b.kind, b.rc, b.out, b.err):
        fd = core.first_diff(a.err, b.err) or core.first_diff(a.out, b.out)
        chk.violation("pos-" + name, files, "[e1:output-differs] program %s: llgo (%s rc=%s) vs go (%s rc=%s); first difference %s" % (
            name, a.kind, a.rc, b.kind, b.rc, fd))
    elif name == "fixed":
        chk.sample({"program": "fixed kitchen-sink (E1)", "first_lines": b.err.splitlines()[:6]})
chk.cov["e1_output_lines_compared"] = lines

th.join()
for label in ("probes", "trees"):
    rc, out, rep, races, _ = e2[label]
    if DEBUG:
        print(out[-3000:])
    inpkg.absorb(chk, rep, out, rc, label)
chk.cov["avoided_constructs"] = avoid
chk.finish(floor_eval=300 if QUICK else 10000, floor_distinct=100)

"""C18: every target description resolves to one well-defined configuration (E2, internal/targets)."""
import os, sys
sys.path.insert(0, os.path.join(os.path.dirname(os.path.abspath(__file__)), "..", "rig"))
import core, inpkg

chk = core.Check("C18", level="fault_enumeration")
chk.assumptions = ["the reference resolver (40 lines over raw JSON) states the law of the property: scalar = nearest definition, list = parents' resolved lists in inherits order then own",
                   "zero values ('' / false / []) count as 'not defined', as in the JSON schema of the targets"]
inj = {"internal/targets/zz_verif_c18_test.go": os.path.join(core.V, "inpkg", "c18_targets_test.go")}
env = {"VERIF_TARGETS": os.path.join(core.REPO, "targets")}
for rx, label in (("^TestVerifC18Shipped$", "shipped"), ("^TestVerifC18Forests$", "forests")):
    rc, out, rep, races, _ = inpkg.run_inpkg(chk, inj, "./internal/targets", rx, extra_env=env)
    inpkg.absorb(chk, rep, out, rc, label)
chk.finish(floor_eval=1000, floor_distinct=50)

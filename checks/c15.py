"""C15: reflect and fmt describe values and types as Go does (engine E1, differential execution).

Generated multi-package programs walk their own types/values with reflect and print them with fmt; the text is
compared unit by unit with what the same program prints under the reference go toolchain(s).  Fixed probes of
the known findings run first; the random generator avoids exactly the constructs of the findings that are open.
"""
import os
import re
import sys

sys.path.insert(0, os.path.join(os.path.dirname(os.path.abspath(__file__)), "..", "rig"))
sys.path.insert(0, os.path.join(os.path.dirname(os.path.abspath(__file__)), "..", "gen"))
import core
import c15_reflectfmt as gen

chk = core.Check("C15")
w = chk.work
llgo = core.build_llgo(w)
THOROUGH = chk.tier == "thorough"
NPROG = int(os.environ.get("VERIF_C15_NPROG") or (150 if THOROUGH else 6))  # env override: development aid only
WORKERS = 6
PROBE_DIR = os.path.join(core.V, "progs", "c15_probe")
PROBE_COMPILE_DIR = os.path.join(core.V, "progs", "c15_probe_compile")
PROBE_LINK_DIR = os.path.join(core.V, "progs", "c15_probe_link")
BUILD_PROBES = {"probe_compile": (PROBE_COMPILE_DIR, "C15-embedded-generic-compile"), "probe_link": (PROBE_LINK_DIR, "C15-alias-struct-methods-link"),
                "probe_link2": (os.path.join(core.V, "progs", "c15_probe_link2"), "C15-alias-generic-link")}

# probe unit -> finding id (units not listed are controls: they must agree with go)
PROBE_MAP = {
    "mainpkg": "C15-main-pkg-path", "ifacepkg": "C15-named-iface-pkgpath", "structstr": "C15-structstr-tags",
    "functags": "C15-func-struct-tags", "tagcollide": "C15-tag-collision", "ptrptr": "C15-ptrto-extra-star",
    "namedptr": "C15-named-ptr-string", "namedfunc": "C15-named-func-type", "meth-func": "C15-named-func-type",
    "convwrap": "C15-convert-int-narrow", "chanparen": "C15-chan-paren", "funcof": "C15-funcof-func-identity",
    "funcelem": "C15-func-elem-size", "ptrfunc": "C15-ptr-func-addr", "trailingzero": "C15-trailing-zero-size",
    "call-bool": "C15-call-pointer-args", "call-map": "C15-call-pointer-args", "call-map2": "C15-call-pointer-args",
    "call-chan": "C15-call-pointer-args", "call-func": "C15-call-pointer-args", "call-func2": "C15-call-pointer-args",
    "call-zeroarray": "C15-call-zero-size", "call-empty": "C15-call-zero-size", "call-hasempty": "C15-call-zero-size",
    "meth-empty": "C15-call-zero-size", "meth-hasempty": "C15-call-zero-size",
    "meth-map-addr": "C15-method-direct-addressable", "meth-chan-addr": "C15-method-direct-addressable", "meth-oneptr-addr": "C15-method-direct-addressable",
    "bigelem-map": "C15-map-indirect-slot-size",
    "methorder": "C15-method-order-pkgpath", "meth-map-mixed": "C15-method-order-pkgpath", "meth-struct-mixed": "C15-method-order-pkgpath",
    "convf32": "C15-convert-float32", "emptystr": "C15-empty-string-to-slice", "typearg": "C15-typearg-struct-string",
    "aliasid": "C15-alias-typelist", "recfunc2": "C15-recursive-func-struct-offsets", "call-ret-overflow": "C15-call-return-overflow",
    "derived-gc": "C15-ptrto-extra-star",
}

open_ids = [f["id"] for f in chk.open_findings()]
no_avoid = [x for x in os.environ.get("VERIF_C15_NOAVOID", "").split(",") if x]
avoid = tuple(a for a in gen.ALL_AVOID + gen.EXTRA_AVOID if a in open_ids and a not in no_avoid)
chk.cov["avoided_constructs"] = list(avoid)


def read_tree(d):
    files = {}
    for root, _, names in os.walk(d):
        for n in names:
            if n.endswith(".go") or n == "go.mod":
                p = os.path.join(root, n)
                with open(p) as f:
                    files[os.path.relpath(p, d)] = f.read()
    return files


def build_both(tag, files):
    """returns {"dir", "llgo": (binary|None, log), "go124": ..., "go126": ...}"""
    d = w.sub(tag)
    for rel, txt in files.items():
        p = os.path.join(d, rel)
        os.makedirs(os.path.dirname(p), exist_ok=True)
        with open(p, "w") as f:
            f.write(txt)
    res = {"dir": d}
    out = os.path.join(d, "p_llgo.bin")
    rc, so, se = core.llgo_build(w, llgo, d, out, timeout=3600)
    res["llgo"] = (out if rc == 0 else None, (so + se)[-6000:], rc)
    for name, go in [("go124", core.GO124)] + ([("go126", core.GO126)] if THOROUGH else []):
        out = os.path.join(d, "p_%s.bin" % name)
        rc, so, se = core.go_build(w, d, out, go=go, timeout=1200)
        res[name] = (out if rc == 0 else None, (so + se)[-6000:], rc)
    return res


def split_units(text):
    units, order, cur = {}, [], None
    for ln in text.split("\n"):
        if ln.startswith("U "):
            cur = ln.split(" ")[1]
            order.append(cur)
            units[cur] = [ln]
        elif cur is not None:
            units[cur].append(ln)
    for u in units:
        while units[u] and units[u][-1] == "":
            units[u].pop()
    return units, order


def first_line_diff(a, b):
    for i in range(max(len(a), len(b))):
        x = a[i] if i < len(a) else "<missing>"
        y = b[i] if i < len(b) else "<missing>"
        if x != y:
            return i, x, y
    return None


REPLAY_SH = "#!/bin/sh\n# builds this module with llgo (-O0, from $VERIF_REPO or /repo) and with go1.24, prints the first differing line\ncd \"$(dirname \"$0\")\" && exec python3 %s/rig/replay_diff.py .\n" % core.V

# ---------------------------------------------------------------- jobs


def job_probe(_):
    return "probe", build_both("probe", read_tree(PROBE_DIR))


def job_probe_nogc(_):
    """the probe program built with -tags nogc (malloc instead of the collector) for a valgrind memcheck leg"""
    d = w.sub("probe_nogc")
    for rel, txt in read_tree(PROBE_DIR).items():
        p = os.path.join(d, rel)
        os.makedirs(os.path.dirname(p), exist_ok=True)
        with open(p, "w") as f:
            f.write(txt)
    out = os.path.join(d, "p_llgo_nogc.bin")
    rc, so, se = core.llgo_build(w, llgo, d, out, tags="nogc", timeout=3600)
    return "probe_nogc", (out if rc == 0 else None, (so + se)[-3000:], rc)


def job_probe_build(name):
    return name, build_both(name, read_tree(BUILD_PROBES[name][0]))


def run_units_from(binary, order, interposer):
    """runs the whole program; after a crash continues behind the crashed unit. returns (units, crashes, stderr, inconclusive)"""
    units, crashes, errs, inconc = {}, [], "", 0
    start = 0
    while start < len(order):
        r = core.run_prog([binary, str(start)], timeout=600, interposer=interposer)
        errs += r.err[-4000:]
        u, got = split_units(r.out)
        ended = any(l.startswith("END ") for l in r.out.split("\n")[-3:])
        if r.kind == "exit" and r.rc == 0 and ended:
            units.update(u)
            break
        # died in the last unit it started (or before printing any header)
        last = got[-1] if got else order[start]
        for x in got[:-1]:
            units[x] = u[x]
        if r.kind == "timeout":
            inconc += 1
        crashes.append((last, r.kind, r.rc, (u.get(last) or [""])[-1][:300]))
        if last not in order:
            break
        start = order.index(last) + 1
        if len(crashes) > 40:
            break
    return units, crashes, errs, inconc


def job_prog(i):
    files, meta = gen.generate(chk.seed, i, chk.tier, avoid=avoid)
    b = build_both("prog%d" % i, files)
    res = {"index": i, "meta": meta, "files": files, "build": b}
    if b["go124"][0] is None or (THOROUGH and b["go126"][0] is None):
        res["invalid"] = True
        return "prog", res
    order = meta["order"]
    ref = core.run_prog([b["go124"][0]], timeout=600)
    res["ref"] = ref
    if THOROUGH:
        res["ref2"] = core.run_prog([b["go126"][0]], timeout=600)
    if b["llgo"][0] is not None:
        res["got"] = run_units_from(b["llgo"][0], order, True)
    return "prog", res


jobs = [(job_prog, i) for i in range(NPROG)] + [(job_probe, 0), (job_probe_nogc, 0)] + [(job_probe_build, n) for n in sorted(BUILD_PROBES)]
results = core.pmap(lambda j: j[0](j[1]), jobs, workers=WORKERS)

# ---------------------------------------------------------------- probes

probe_state = {}


def finding_status(fid):
    for f in chk.findings:
        if f["id"] == fid:
            return f.get("status")
    return None


for kind, b in results:
    if kind != "probe":
        continue
    if b["go124"][0] is None:
        core.broken("reference toolchain rejects the probe program:\n" + b["go124"][1])
    if b["llgo"][0] is None and b["llgo"][2] == -999:
        core.broken("llgo build of the probe program hit the build watchdog (overloaded machine)")
    if b["llgo"][0] is None:
        chk.violation("probe-build-failure", {"build.log": b["llgo"][1]}, "llgo cannot build the fixed probe program progs/c15_probe:\n" + b["llgo"][1][-1200:])
        continue
    names = re.findall(r'^\t\{"([a-z0-9-]+)", func', read_tree(PROBE_DIR)["main.go"], re.M)
    differing = {}
    for n in names:
        a = core.run_prog([b["go124"][0], n], timeout=120)
        g = core.run_prog([b["llgo"][0], n], timeout=120, interposer=True)
        if a.kind != "exit" or a.rc != 0:
            core.broken("probe unit %s fails under go: %s" % (n, a.err[-500:]))
        chk.cov["evaluations"] += 1
        if g.kind == "timeout":
            chk.inconclusive += 1
            continue
        if (g.kind, g.rc, g.out) != (a.kind, a.rc, a.out):
            fd = first_line_diff(a.out.split("\n"), g.out.split("\n"))
            differing[n] = "go `%s` vs llgo `%s` (%s rc=%s)" % (fd[1][:160] if fd else "", fd[2][:160] if fd else "", g.kind, g.rc)
    chk.cov["probe_units"] = len(names)
    chk.cov["probe_units_differing"] = sorted(differing)
    for n in sorted(differing):
        fid = PROBE_MAP.get(n)
        if fid and finding_status(fid) == "open":
            chk.known(fid, "")
            probe_state[fid] = "fails"
        else:
            chk.violation("probe-" + n, dict(read_tree(PROBE_DIR), **{"replay.sh": "#!/bin/sh\n# build with llgo and go, run `<binary> %s` with both\n" % n}),
                          "probe unit %s (%s) differs from go: %s" % (n, "regression of fixed finding " + fid if fid else "control unit, no finding", differing[n]))

for kind, b in results:
    if kind not in BUILD_PROBES:
        continue
    pdir, fid = BUILD_PROBES[kind]
    if b["go124"][0] is None:
        core.broken("reference toolchain rejects the build probe %s:\n%s" % (kind, b["go124"][1]))
    chk.cov["evaluations"] += 1
    bad = None
    if b["llgo"][0] is None and b["llgo"][2] == -999:
        chk.inconclusive += 1
        continue
    if b["llgo"][0] is None:
        msg = re.findall(r"panic: [^\n]*|undefined reference[^\n]*", b["llgo"][1]) or [b["llgo"][1][-300:]]
        bad = "llgo fails to build %s: %s" % (os.path.relpath(pdir, core.V), msg[0][:300])
    else:
        a = core.run_prog([b["go124"][0]], timeout=60)
        g = core.run_prog([b["llgo"][0]], timeout=60, interposer=True)
        if (a.out, a.rc) != (g.out, g.rc):
            bad = "output differs: go `%s` llgo `%s`" % (a.out[:200], g.out[:200])
    if bad:
        if finding_status(fid) == "open":
            chk.known(fid, "")
        else:
            chk.violation(kind, dict(read_tree(pdir), **{"build.log": b["llgo"][1]}), bad)

# valgrind leg: the result buffer of reflect.Value.Call (finding C15-call-return-overflow) overflows an 8-byte cell;
# whether a neighbour is hit depends on the heap state, so the deterministic witness is memcheck on a nogc build
for kind, b in results:
    if kind != "probe_nogc":
        continue
    fid = "C15-call-return-overflow"
    if b[0] is None or not os.path.exists("/usr/bin/valgrind"):
        chk.inconclusive += 1
        chk.cov["valgrind_leg"] = "not run (%s)" % ("build rc=%s" % b[2] if b[0] is None else "valgrind missing")
        continue
    r = core.run_prog(["/usr/bin/valgrind", "--error-limit=no", "--num-callers=14", b[0], "call-ret-overflow"], timeout=900, quiesce=False)
    chk.cov["evaluations"] += 1
    if r.kind == "timeout":
        chk.inconclusive += 1
        continue
    reports = [x for x in r.err.split("\n\n") if ("Invalid write" in x or "Invalid read" in x) and "reflect.Value.call" in x]
    chk.cov["valgrind_leg"] = "%d invalid accesses below reflect.Value.call" % len(reports)
    if reports:
        if finding_status(fid) == "open":
            chk.known(fid, "")
        else:
            chk.violation("probe-call-ret-overflow", {"valgrind.txt": r.err[-20000:]},
                          "valgrind memcheck (nogc build of progs/c15_probe, unit call-ret-overflow): %d invalid accesses below reflect.Value.call, first:\n%s" % (len(reports), reports[0][:1500]))

# ---------------------------------------------------------------- generated programs

invalid = 0
build_timeouts = 0
units_total = 0
units_compared = 0
gen_panics = 0
ref_disagree = 0
lines_compared = 0
overlap_reports = 0
nviol_units = 0
MAX_VIOL_PER_PROG = 4
for kind, res in results:
    if kind != "prog":
        continue
    i = res["index"]
    meta = res["meta"]
    b = res["build"]
    units_total += len(meta["order"])
    if res.get("invalid"):
        invalid += 1
        chk.sample({"invalid_generated_program": i, "log": (b["go124"][1] + (b.get("go126") or ("", ""))[1])[-600:]}, limit=5)
        continue
    if b["llgo"][0] is None and b["llgo"][2] == -999:
        chk.inconclusive += 1      # build watchdog (overloaded machine): no verdict
        build_timeouts += 1
        continue
    if b["llgo"][0] is None:
        msg = (re.findall(r"panic: [^\n]*", b["llgo"][1]) or [b["llgo"][1][-400:]])[0]
        chk.violation("compile-failure-p%d" % i, dict(res["files"], **{"build.log": b["llgo"][1], "replay.sh": REPLAY_SH}),
                      "llgo cannot build generated program %d (go builds it): %s" % (i, msg[:400]))
        continue
    ref = res["ref"]
    if ref.kind != "exit" or ref.rc != 0:
        core.broken("generated program %d fails under go: %s rc=%s %s" % (i, ref.kind, ref.rc, ref.err[-800:]))
    ru, rorder = split_units(ref.out)
    if rorder != meta["order"]:
        core.broken("generated program %d: reference run printed units %d, expected %d" % (i, len(rorder), len(meta["order"])))
    skip = set()
    for u in rorder:
        if any(l.startswith("PANIC ") for l in ru[u]):
            gen_panics += 1
            skip.add(u)
    if "ref2" in res:
        r2 = res["ref2"]
        ru2, _ = split_units(r2.out)
        for u in rorder:
            if ru2.get(u) != ru[u] and u not in skip:
                ref_disagree += 1
                skip.add(u)
    gu, crashes, errs, inconc = res["got"]
    chk.inconclusive += inconc
    overlap_reports += errs.count("VERIF-MEMCPY-OVERLAP")
    crashed = {c[0]: c for c in crashes}
    nv = 0
    for u in rorder:
        if u in skip:
            continue
        mu = meta["units"][u]
        if u in crashed:
            c = crashed[u]
            if c[1] == "timeout":
                continue
            nv += 1
            nviol_units += 1
            if nv <= MAX_VIOL_PER_PROG:
                files1, _ = gen.generate(chk.seed, i, chk.tier, only=[u], avoid=avoid)
                chk.violation("p%d-u%s-crash" % (i, u), dict(files1, **{"replay.sh": REPLAY_SH}),
                              "program %d unit %s [%s] root type %s: llgo run ended with %s rc=%s after line `%s`; go completes the unit" % (
                                  i, u, mu["sig"][:120], mu["root"][:160], c[1], c[2], c[3]))
            continue
        if u not in gu:
            continue  # not reached (run gave up after many crashes)
        units_compared += 1
        lines_compared += len(ru[u])
        chk.sig(mu["sig"])
        if gu[u] != ru[u]:
            nv += 1
            nviol_units += 1
            if nv <= MAX_VIOL_PER_PROG:
                fd = first_line_diff(ru[u], gu[u])
                ndiff = sum(1 for k in range(max(len(ru[u]), len(gu[u]))) if (ru[u][k] if k < len(ru[u]) else None) != (gu[u][k] if k < len(gu[u]) else None))
                files1, _ = gen.generate(chk.seed, i, chk.tier, only=[u], avoid=avoid)
                chk.violation("p%d-u%s" % (i, u), dict(files1, **{"replay.sh": REPLAY_SH, "unit_go.txt": "\n".join(ru[u]), "unit_llgo.txt": "\n".join(gu[u])}),
                              "program %d (%s mode, module %s) unit %s [%s] root type %s: %d differing lines; first at line %d:\n go:   %s\n llgo: %s" % (
                                  i, meta["mode"], meta["module"], u, mu["sig"][:120], mu["root"][:160], ndiff, fd[0], fd[1][:500], fd[2][:500]))
    if units_compared and len(chk.cov["samples"]) < 3 and rorder:
        u = rorder[len(rorder) // 2]
        chk.sample({"program": i, "unit": u, "root_type": meta["units"][u]["root"][:200], "lines": len(ru[u]), "first_lines": ru[u][:3]})

chk.cov["evaluations"] += lines_compared
chk.cov["programs"] = NPROG
chk.cov["units_generated"] = units_total
chk.cov["units_compared"] = units_compared
chk.cov["units_differing"] = nviol_units
chk.cov["invalid_generated"] = invalid
chk.cov["build_timeouts"] = build_timeouts
chk.cov["generator_panic_units"] = gen_panics
chk.cov["reference_disagreement_units"] = ref_disagree
chk.cov["advisory_memcpy_overlap_reports"] = overlap_reports
chk.cov["rule"] = ("each generated module (3 type packages + fixed generic package + fixed walker; %d programs, about 114 units each; half with "
                   "only constant-name Value.MethodByName/Method calls, half with computed names; module paths vmod/example.com/9mod/Zmod) is built by llgo "
                   "from the working tree (-O0) and by go1.24%s; every output line of a unit is one reflect query or fmt rendering "
                   "(Kind/Name/String/PkgPath/Comparable/fields/tags/methods/derived types/Implements-AssignableTo-ConvertibleTo rows/"
                   "Interface round trip/Set*/Convert/DeepEqual laws/Zero-New-MakeSlice-MakeMap-Append/Call/59 fmt verbs); units are compared line by line; "
                   "evaluations = compared lines + probe units, distinct = structural signatures of unit root types; Size/Align/Offset only for func-free types") % (
                       NPROG, " and go1.26 (units on which the two references differ are dropped)" if THOROUGH else "")
chk.assumptions += ["go1.24.0 (and go1.26.0 in thorough) is the executable reference model", "O0 only, amd64 only",
                    "constructs of open findings are not generated (listed in avoided_constructs); each is covered by its fixed probe only"]
if units_total and invalid * 50 > NPROG:
    core.broken("%d of %d generated programs rejected by go" % (invalid, NPROG))
if units_total and gen_panics * 50 > units_total:
    core.broken("%d of %d generated units panic under go (generator bug)" % (gen_panics, units_total))
chk.finish(floor_eval=50000 if not THOROUGH else 1000000, floor_distinct=100)

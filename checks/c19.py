"""C19: Go and Python exchange values and calls without loss; each Python module is imported once, before first use (E1).

Generated Go programs over github.com/goplus/lib/py (+py/std, py/math and generated pure-Python modules bound with
`LLGoPackage = "py.<mod>"` / `//go:linkname F py.<name>`) are compiled by llgo built from the working tree (-O0), linked
against the system libpython3.11 and run with a sitecustomize.py that wraps builtins.__import__.
Monitor, per unit: text printed by Go (typed read-back of the returned *py.Object + Python's own ascii() of it)
== the generator's value table == what the same calls print under the system python3 (driver.py).
Trace checker over the log written by the import hook and by every generated Python callable: exactly one import request
and one module-body execution per module, both before the module's first call record; the call records of every batch equal
the python3 driver's; init batches once each, dependencies first.
The go reference toolchain cannot build py programs, so the references are the table and python3."""
import json
import os
import sys

sys.path.insert(0, os.path.join(os.path.dirname(os.path.abspath(__file__)), "..", "rig"))
sys.path.insert(0, os.path.join(os.path.dirname(os.path.abspath(__file__)), "..", "gen"))
import core
import c19_py as gen
import c19_run as run

chk = core.Check("C19")
w = chk.work
llgo = core.build_llgo(w)
quick = chk.tier == "quick"
NPROG = int(os.environ.get("C19_NPROG", "12" if quick else "300"))
NUNITS = int(os.environ.get("C19_NUNITS", "40"))
WORKERS = int(os.environ.get("C19_WORKERS", "6" if quick else "12"))
MAXVIOL = 6

# finding id -> construct the random generator avoids while the finding is open
F = {"C19-pyval-narrow-int-retypes-cache": "narrow-int", "C19-alias-arity-drops-args": "alias-arity",
     "C19-pyfunc-as-call-arg": "fnref-arg", "C19-pystr-const-nul": "pystr-nul", "C19-binding-pkg-own-use": "binding-own-use"}
PROBE_OF = {"p1": "C19-pystr-const-nul", "p2": "C19-alias-arity-drops-args", "p3": "C19-pyfunc-as-call-arg",
            "p4": "C19-binding-pkg-own-use", "p5": "C19-pyval-narrow-int-retypes-cache"}
# validation aid: C19_ASSUME_FIXED=id,id treats open findings as fixed (no avoidance, probe must pass) without editing findings/C19.json
for _f in chk.findings:
    if _f["id"] in os.environ.get("C19_ASSUME_FIXED", "").split(","):
        _f["status"] = "fixed"
avoid = tuple(tag for fid, tag in sorted(F.items()) if chk.is_open(fid) and tag != "binding-own-use")
chk.cov["avoided_constructs"] = list(avoid) + ["binding-own-use (probe only)"]

REPLAY_SH = ("#!/bin/sh\n# rebuilds this module with llgo (-O0) from $VERIF_REPO (default /repo), runs it and driver.py, re-checks values and traces\n"
             "exec python3 %s/gen/c19_run.py \"$(dirname \"$0\")\"\n" % core.V)


def violate(name, files, summary):
    chk.violation(name, files, summary)
    os.chmod(os.path.join(chk.violations[-1]["replay"], "replay.sh"), 0o755)


def build(d, exe, private_cache=None):
    env = {"GOMAXPROCS": "2"}
    if private_cache:
        # the probe of C19-pyval-narrow-int-retypes-cache corrupts every package compiled after it in the same llgo process,
        # including the runtime packages, whose archives would then be stored in (and served from) the run's shared llgo cache
        env["XDG_CACHE_HOME"] = w.sub(private_cache)
    rc, so, se = core.llgo_build(w, llgo, d, exe, extra_env=env, timeout=2400)
    return rc, so + se


def replay_files(files, meta, extra=None):
    out = dict(files)
    out["meta.json"] = json.dumps(meta, indent=0, sort_keys=True)
    out["replay.sh"] = REPLAY_SH
    if extra:
        out.update(extra)
    return out


# ------------------------------------------------------------------ probes of the findings (first two jobs of every run)

PROBE_JOBS = [("probe-a", gen.probe_program(), ["p1", "p2", "p3", "p4"]), ("probe-b", gen.probe_typecache_program(), ["p5"])]


def probe_job(j):
    tag, prog, units = j
    d = w.sub(tag)
    meta = {"probe": True, "probe_units": units, "expected": prog["expected"]}
    run.write_program(d, prog["files"], meta)
    exe = os.path.join(d, "p_llgo.bin")
    rc, log = build(d, exe, private_cache="xdg-" + tag if tag == "probe-b" else None)
    res = {}
    if rc == 0:
        for u in units:
            r, _ = run.run_llgo(d, exe, tag=u, extra={"C19_PROBE": u})
            got = dict(run.parse_R(r.err)).get(u)
            ok = r.kind == "exit" and r.rc == 0 and got == prog["expected"][u]
            res[u] = (ok, "%s rc=%s, printed %s, expected %s%s" % (
                r.kind, r.rc, run.undump(got) if got is not None else "<nothing>", run.undump(prog["expected"][u]),
                "" if r.kind == "exit" and r.rc == 0 else "\n" + "\n".join(l for l in r.err.split("\n") if not l.startswith("R "))[-600:]),
                r.kind == "timeout")
    return tag, prog, units, meta, rc, log, res


def absorb_probe(tag, prog, units, meta, rc, log, res):
    for u in units:
        fid = PROBE_OF[u]
        chk.cov["evaluations"] += 1
        if rc == -999:
            chk.inconclusive += 1
            continue
        if rc != 0:
            ok, why, tmo = False, "llgo cannot build the probe program:\n" + log[-1200:], False
        else:
            ok, why, tmo = res[u]
        if tmo:
            chk.inconclusive += 1
            continue
        if ok:
            continue
        if chk.is_open(fid):
            chk.known(fid, "")
        else:
            violate("probe-" + u, replay_files(prog["files"], meta, {"build.log": log}),
                    "fixed probe %s of finding %s fails: %s" % (u, fid, why))


# ------------------------------------------------------------------ random programs

def one_program(idx):
    prog = gen.generate(chk.seed, idx, NUNITS, avoid=avoid, maxlong=5000 if quick else 60000)
    d = w.sub("p%03d" % idx)
    meta = dict((k, prog[k]) for k in ("expected", "batches", "run_order", "init_order", "mods", "sigs", "bound", "pb_needs_pa", "npkgs"))
    meta.update({"seed": chk.seed, "index": idx, "avoid": list(avoid)})
    run.write_program(d, prog["files"], meta)
    exe = os.path.join(d, "p_llgo.bin")
    dres, dlog = run.run_driver(d)
    rc, log = build(d, exe)
    if rc != 0:
        return idx, prog, meta, ("build", rc, log), None
    res, plog = run.run_llgo(d, exe)
    probs, stats = run.check_program(meta, res, plog, dres, dlog)
    return idx, prog, meta, None, (probs, stats, res, plog, dlog)


def reduce_to_unit(idx, uid, kind):
    """replay aid: the same program with only the offending unit emitted; used if it still shows a problem of the same kind"""
    prog = gen.generate(chk.seed, idx, NUNITS, avoid=avoid, maxlong=5000 if quick else 60000, only=set([uid]))
    d = w.sub("r%03d" % idx)
    meta = dict((k, prog[k]) for k in ("expected", "batches", "run_order", "init_order", "mods", "sigs", "bound", "pb_needs_pa", "npkgs"))
    meta["expected"] = {uid: prog["expected"][uid]}
    meta["batches"] = [[pk, lb, [u for u in us if u == uid]] for pk, lb, us in prog["batches"]]
    meta.update({"seed": chk.seed, "index": idx, "avoid": list(avoid), "reduced_to": uid})
    run.write_program(d, prog["files"], meta)
    exe = os.path.join(d, "p_llgo.bin")
    rc, log = build(d, exe)
    if rc != 0:
        return None
    dres, dlog = run.run_driver(d)
    res, plog = run.run_llgo(d, exe)
    probs, _ = run.check_program(meta, res, plog, dres, dlog)
    if any(k == kind for k, _, _ in probs):
        return prog, meta
    return None


tot = {"units_compared": 0, "call_records_compared": 0, "import_records": 0, "explicit_imports": 0, "modules_used": 0}
shape = {}
nviol = 0
build_timeouts = 0
def job(j):
    return probe_job(j) if isinstance(j, tuple) else one_program(j)


results = core.pmap(job, PROBE_JOBS + list(range(NPROG)), workers=WORKERS)
for pr in results[:len(PROBE_JOBS)]:
    absorb_probe(*pr)
for idx, prog, meta, berr, out in results[len(PROBE_JOBS):]:
    key = "%dmod/%dpkg" % (len(meta["mods"]), meta["npkgs"])
    shape[key] = shape.get(key, 0) + 1
    if berr:
        _, rc, log = berr
        if rc == -999:
            chk.inconclusive += 1
            build_timeouts += 1
            continue
        if "cannot build SSA for package" in log:      # Go type errors: the generator wrote an invalid program
            core.broken("generated program %d is not valid Go:\n%s" % (idx, log[-1500:]))
        if nviol < MAXVIOL:
            nviol += 1
            violate("p%03d-build" % idx, replay_files(prog["files"], meta, {"build.log": log}),
                          "llgo cannot build generated program %d (python3 runs driver.py fine):\n%s" % (idx, log[-1500:]))
        continue
    probs, stats, res, plog, dlog = out
    for k in tot:
        tot[k] += stats.get(k, 0)
    gb = [p for p in probs if p[0] == "generator"]
    if gb:
        core.broken("program %d: %s" % (idx, gb[0][2]))
    if any(p[0] == "timeout" for p in probs):
        chk.inconclusive += 1
        continue
    for u, s in meta["sigs"].items():
        chk.sig(s[:200])
    if len(chk.cov["samples"]) < 2:
        # one executed unit of this program, written out (whatever the verdict on the program)
        recs = dict(run.parse_R(res.err))
        units = [x for bt in meta["batches"] for x in bt[2] if x in meta["sigs"]] or sorted(meta["sigs"])
        u = next((x for x in units if x in recs), units[0] if units else None)
        if u is not None:
            chk.sample({"program": idx, "unit": u, "shape": meta["sigs"][u], "printed_by_go": run.undump(recs.get(u, "")),
                        "modules": meta["mods"], "bound_by": meta["bound"], "import_log_head": [l for l in plog.split("\n") if l[:2] in ("I ", "X ")][:6]})
    if not probs:
        continue
    # one violation per program: the first problem, with the program reduced to the offending unit when that still shows it
    k, uid, text = probs[0]
    files, m2 = prog["files"], meta
    if uid and k in ("value", "died", "unit-missing"):
        red = reduce_to_unit(idx, uid, k)
        if red:
            files, m2 = red[0]["files"], red[1]
            text += "\n(replay reduced to unit %s; %d problems in the full program)" % (uid, len(probs))
    if nviol < MAXVIOL:
        nviol += 1
        violate("p%03d-%s%s" % (idx, k, "-" + uid if uid else ""),
                      replay_files(files, m2, {"stderr.llgo.txt": res.err[-200000:], "log.llgo.txt": plog[-200000:], "log.python3.txt": dlog[-200000:],
                                               "problems.txt": "\n\n".join("[%s] %s" % (a, c) for a, b, c in probs[:40])}),
                      "program %d (%s, modules %s): %s" % (idx, key, ",".join(meta["mods"]), text))

chk.cov["evaluations"] += tot["units_compared"]
chk.cov["programs"] = NPROG
chk.cov["program_shapes"] = shape
chk.cov["units_per_program"] = NUNITS
chk.cov["call_records_compared"] = tot["call_records_compared"]
chk.cov["import_requests_checked"] = tot["import_records"]
chk.cov["explicit_imports"] = tot["explicit_imports"]
chk.cov["module_uses_checked"] = tot["modules_used"]
chk.cov["build_timeouts"] = build_timeouts
chk.cov["rule"] = ("seeded generator -> Go module (1-3 Go packages using Python, 1-4 generated Python modules, one possibly in a Python package, "
                   "each bound by one or two Go binding packages) -> llgo -O0 from the working tree -> run with an import hook; per unit: typed read-back "
                   "printed by Go + ascii() taken by Python == generator's table == python3 driver; per program: import/exec/call trace checker. "
                   "distinct = structural skeleton of a unit (call form, arity, conversion path of every argument, constant/variable), not its values")
chk.assumptions += ["CPython 3.11 (system libpython3.11 and python3) defines the expected behaviour of the Python side",
                    "-O0, amd64 only", "constructs of open findings are covered by fixed probes only: " + ", ".join(avoid or ("none",))]
chk.finish(floor_eval=int(NPROG * NUNITS * 0.8), floor_distinct=min(150, NPROG * 12))

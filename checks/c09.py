"""C09: values cross the Go/C boundary intact in both directions (E1).

Generated Go<->C programs; the C side is compiled by gcc -O1 (not by the clang that llgo drives) and linked through
`LLGoPackage = "link: -L<dir> -lcallee"`.  Monitor: every leaf echoed by the receiver == the generator's expected table
== what a C->C run of the same calls prints (stdout of C and stderr of Go compared as separate streams).  Strings and
buffers go through c.Str / AllocaCStr / AllocCStr / AllocaCStrs / GoString(p[,n]) and, in a cgo program that the
reference go toolchain also builds, C.CString / C.CBytes / C.GoString / C.GoStringN / C.GoBytes; a `-tags nogc`
build of both string programs runs under valgrind memcheck."""
import os
import re
import sys

sys.path.insert(0, os.path.join(os.path.dirname(os.path.abspath(__file__)), "..", "rig"))
sys.path.insert(0, os.path.join(os.path.dirname(os.path.abspath(__file__)), "..", "gen"))
import core
import c09_cabi as gen
import c09_str as sgen
import c09_run as run

chk = core.Check("C09")
w = chk.work
llgo = core.build_llgo(w)
ENV = w.env()
quick = chk.tier == "quick"
NPROG = int(os.environ.get("C09_NPROG", "8" if quick else "300"))
NUNITS = 50
WORKERS = int(os.environ.get("C09_WORKERS", "8" if quick else "12"))
MAXVIOL = 6

F_REGSPLIT, F_NESTED, F_CAPT = "C09-struct-split-reg-stack", "C09-amd64-nested-padding", "C09-capturing-closure-callback"
F_GOBYTES, F_CBYTES0 = "C09-gobytes-aliases-c-memory", "C09-cbytes-empty-slice"
# validation aid: C09_ASSUME_FIXED=id,id treats open findings as fixed (no avoidance, probe must pass) without editing findings/C09.json
for _f in chk.findings:
    if _f["id"] in os.environ.get("C09_ASSUME_FIXED", "").split(","):
        _f["status"] = "fixed"
avoid = tuple(a for a, f in (("regsplit", F_REGSPLIT), ("nestedpad", F_NESTED)) if chk.is_open(f))

REPLAY_SH = "#!/bin/sh\n# rebuilds the C side with gcc -O1, the Go side with llgo (-O0) from $VERIF_REPO (default /repo), compares with expected.*.txt\nexec python3 %s/gen/c09_run.py \"$(dirname \"$0\")\"\n" % core.V


def prepare(tag, prog):
    d = w.sub(tag)
    run.write_module(d, prog["files"], prog["exp_out"], prog["exp_err"])
    return d


def build_run(tag, prog, tags=None, want_go=False):
    """-> dict(d, cerr, rc, log, res, cref, gores)"""
    d = prepare(tag, prog)
    o = {"d": d, "cerr": run.build_c(d, ENV), "res": None, "cref": None, "gores": None, "log": ""}
    if o["cerr"]:
        return o
    exe = os.path.join(d, "p_llgo.bin")
    rc, so, se = core.llgo_build(w, llgo, d, exe, tags=tags, extra_env={"GOMAXPROCS": "1"}, timeout=2400)
    o["rc"], o["log"] = rc, so + se
    o["build_timeout"] = rc == -999      # watchdog, not a verdict
    if rc == 0:
        o["res"] = core.run_prog([exe], timeout=120, interposer=True)
    if os.path.exists(os.path.join(d, "cref.bin")):
        o["cref"] = core.run_prog([os.path.join(d, "cref.bin")], timeout=60)
    if want_go:
        gexe = os.path.join(d, "p_go.bin")
        grc, gso, gse = core.go_build(w, d, gexe)
        if grc != 0:
            o["gobuild"] = gso + gse
        else:
            o["gores"] = core.run_prog([gexe], timeout=120)
    o["exe"] = exe
    return o


def replay_files(prog, extra=None):
    f = dict(prog["files"])
    f["expected.stdout.txt"] = prog["exp_out"]
    f["expected.stderr.txt"] = prog["exp_err"]
    f["replay.sh"] = REPLAY_SH
    if extra:
        f.update(extra)
    return f


def make_replay_exec(name):
    p = os.path.join(core.V, "replays", "%s-%s-s%d-%s" % (chk.pid, chk.tier, chk.seed, name), "replay.sh")
    if os.path.exists(p):
        os.chmod(p, 0o755)


def check_reference(tag, prog, o):
    """the generator's table must equal the C->C run (and real cgo); otherwise the check itself is broken"""
    if o["cerr"]:
        core.broken("%s: C side does not compile: %s" % (tag, o["cerr"]))
    for name, r in (("C->C reference", o["cref"]), ("go (cgo) reference", o["gores"])):
        if r is None:
            continue
        if r.kind != "exit" or r.rc != 0:
            core.broken("%s: %s run failed: %s rc=%s %s" % (tag, name, r.kind, r.rc, r.err[-500:]))
        st = run.streams_diff(r.out, r.err, prog["exp_out"], prog["exp_err"])
        if st:
            core.broken("%s: %s disagrees with the generator's expected table (%s line %d: `%s` vs `%s`)" % (
                tag, name, st[0][0], st[0][1] + 1, st[0][2][:200], st[0][3][:200]))
    if o.get("gobuild"):
        core.broken("%s: reference go toolchain rejects the cgo program: %s" % (tag, o["gobuild"][-1500:]))


def failing_units(prog, o):
    """None if the llgo program agrees with the table; else (units, summary)"""
    if o["res"] is None:
        return [], "llgo cannot build the program (gcc and the C->C reference accept it):\n" + o["log"][-1500:]
    r = o["res"]
    bad = run.bad_units(r.out, r.err, prog["exp_out"], prog["exp_err"])
    st = run.streams_diff(r.out, r.err, prog["exp_out"], prog["exp_err"])
    if not st and r.kind == "exit" and r.rc == 0 and "VERIF-MEMCPY-OVERLAP" not in r.err:
        return None
    s = []
    for x in st:
        s.append("%s line %d: got `%s` expected `%s`" % (x[0], x[1] + 1, x[2][:300], x[3][:300]))
    if r.kind != "exit" or r.rc != 0:
        s.append("program ended with %s rc=%s; stderr tail: %s" % (r.kind, r.rc, r.err[-300:].replace("\n", " | ")))
    return bad, "\n".join(s)


# =============================================================== 1. probes of recorded findings (always first)
PROBE_OF = {"regsplit": F_REGSPLIT, "nestedpad": F_NESTED, "capture": F_CAPT, "gobytes_alias": F_GOBYTES, "cbytes_empty": F_CBYTES0}
cgo_probe_kinds = {F_GOBYTES: "gobytes_alias", F_CBYTES0: "cbytes_empty"}
probe_jobs = [("probe-abi", gen.probe_program("abi"), "probe"), ("probe-capture", gen.probe_program("capture"), "probe"),
              ("probe-cgo", sgen.gen_cgo(1, "quick", modname="c09probecgo", kinds=["gobytes_alias", "cbytes_empty"], n_each=6), "probe")]

# =============================================================== 2. programs of this run
cabi_jobs = []
for i in range(NPROG):
    cabi_jobs.append(("p%03d" % i, gen.gen_program(chk.seed, chk.tier, i, avoid=avoid, nunits=NUNITS), None))
cgo_kinds = ["cstring", "cbytes", "gostring", "gostringn", "gobytes", "edge"]
for fid, kind in cgo_probe_kinds.items():
    if not chk.is_open(fid):
        cgo_kinds.append(kind)
str_native = sgen.gen_native(chk.seed, chk.tier)
str_cgo = sgen.gen_cgo(chk.seed, chk.tier, kinds=cgo_kinds)
str_jobs = [("strn", str_native, None), ("strc", str_cgo, None)]


def do_job(j):
    tag, prog, fid = j
    return j, build_run(tag, prog, want_go=bool(prog.get("cgo")))


jobs = probe_jobs + str_jobs + cabi_jobs
# the first build warms the run's private llgo cache (runtime packages); the others then share it
results = [do_job(jobs[0])] + core.pmap(do_job, jobs[1:], workers=WORKERS)

evals = 0
units_by_kind = {}
nviol = 0
for (tag, prog, fid), o in results:
    check_reference(tag, prog, o)
    if o.get("build_timeout"):
        chk.inconclusive += 1
        print("inconclusive: llgo build of %s hit the wall-clock watchdog" % tag, flush=True)
        continue
    fu = failing_units(prog, o)
    if fid is not None:          # probe program: attribute every failing unit to the finding it reproduces
        if fu is None:
            continue
        bad, summary = fu
        fids = []
        for u in bad:
            m = prog["meta"].get(u, {})
            f = PROBE_OF.get(m.get("probe") or m.get("kind"))
            if f and f not in fids:
                fids.append(f)
        if not fids:             # died before/without a unit line: first unit's finding
            m = prog["meta"][min(prog["meta"])]
            fids = [PROBE_OF[m.get("probe") or m.get("kind")]]
        for f in fids:
            if not chk.known(f, ""):
                chk.violation(tag + "-" + f, replay_files(prog), "regression probe of a finding recorded as fixed fails again [%s]:\n%s" % (f, summary))
                make_replay_exec(tag + "-" + f)
        continue
    for u, m in prog["meta"].items():
        units_by_kind[m["kind"]] = units_by_kind.get(m["kind"], 0) + 1
        if "sig" in m:
            chk.sig(m["sig"])
        else:
            chk.sig("str:" + tag + ":" + m["kind"])
    if fu is None:
        evals += prog["nunits"]
        continue
    bad, summary = fu
    evals += max(0, prog["nunits"] - len(bad))
    if o["res"] is not None and o["res"].kind == "timeout":
        chk.inconclusive += 1
        continue
    if nviol >= MAXVIOL:
        continue
    nviol += 1
    if bad and "_units" in prog:
        first = bad[0]
        sub = gen.subset(prog, [first])
        sig = prog["meta"][first]["sig"]
        lines = [l for l in (o["res"].out + o["res"].err).split("\n") if l.startswith(("C %d " % first, "G %d " % first))]
        exp = [l for l in (prog["exp_out"] + prog["exp_err"]).split("\n") if l.startswith(("C %d " % first, "G %d " % first))]
        chk.violation("%s-u%d" % (tag, first), replay_files(sub, {"got.txt": "\n".join(lines) + "\n", "want.txt": "\n".join(exp) + "\n"}),
                      "unit %d of %s [%s]: a value changed while crossing the Go/C boundary (%d unit(s) of this program differ: %s)\n%s" % (
                          first, tag, sig, len(bad), bad[:12], summary))
        make_replay_exec("%s-u%d" % (tag, first))
    else:
        kinds = sorted(set(prog["meta"][u]["kind"] for u in bad if u in prog["meta"]))
        chk.violation(tag, replay_files(prog, {"llgo-build.log": o["log"][-20000:]}),
                      "%s: units %s (kinds %s) differ\n%s" % (tag, bad[:12], kinds, summary))
        make_replay_exec(tag)

# =============================================================== 3. memcheck on the string programs (-tags nogc)
vg_reports = 0
vg_runs = 0
vg_suppressed = 0
if nviol == 0:
    vg_jobs = [("vg-strn", sgen.gen_native(chk.seed + 7000, "quick", modname="c09vgn")),
               ("vg-strc", sgen.gen_cgo(chk.seed + 7000, "quick", modname="c09vgc", kinds=cgo_kinds))]

    def do_vg(j):
        tag, prog = j
        d = prepare(tag, prog)
        cerr = run.build_c(d, ENV)
        if cerr:
            return j, None, cerr
        exe = os.path.join(d, "p_nogc.bin")
        rc, so, se = core.llgo_build(w, llgo, d, exe, tags="nogc", timeout=2400)
        if rc == -999:
            return j, "timeout", ""
        if rc != 0:
            return j, None, so + se
        r = core.run_prog(["valgrind", "-q", "--error-exitcode=0", "--num-callers=30", "--undef-value-errors=no", exe], timeout=900, quiesce=False)
        return j, r, ""

    for (tag, prog), r, err in core.pmap(do_vg, vg_jobs, workers=2):
        if r == "timeout":
            chk.inconclusive += 1
            continue
        if r is None:
            chk.violation(tag, replay_files(prog, {"tags.txt": "nogc\n", "build.log": err[-20000:]}), "%s: -tags nogc build of the string program failed:\n%s" % (tag, err[-1200:]))
            continue
        if r.kind == "timeout":
            chk.inconclusive += 1
            continue
        vg_runs += 1
        blocks, cur = [], []
        for ln in r.err.split("\n"):
            m = re.match(r"==\d+== ?(.*)$", ln)
            if not m:
                continue
            if m.group(1).strip() == "":
                if cur:
                    blocks.append("\n".join(cur))
                cur = []
            else:
                cur.append(m.group(1))
        if cur:
            blocks.append("\n".join(cur))
        reports = [b for b in blocks if re.match(r"(Invalid (read|write|free)|Mismatched free|Source and destination overlap|Syscall param|Jump to the invalid address|Process terminating)", b)]
        # known start-up noise (DESIGN 7-16): clite/signal.Signal hands libc a 24-byte darwin-layout sigaction; suppressed by stack signature only
        noise = [b for b in reports if "clite/signal.Signal" in b]
        vg_suppressed += len(noise)
        inval = [b for b in reports if "clite/signal.Signal" not in b]
        vg_reports += len(inval)
        plain_err = "\n".join(l for l in r.err.split("\n") if not l.startswith("=="))
        st = run.streams_diff(r.out, plain_err.rstrip("\n") + "\n", prog["exp_out"], prog["exp_err"])
        if inval:
            chk.violation(tag, replay_files(prog, {"tags.txt": "nogc\n", "valgrind.txt": r.err[-60000:]}),
                          "%s: valgrind memcheck reports %d invalid access(es) in the string/buffer program (nogc build); first:\n%s" % (tag, len(inval), inval[0][:1500]))
        elif st or r.rc != 0:
            chk.violation(tag, replay_files(prog, {"tags.txt": "nogc\n"}), "%s: nogc build under valgrind disagrees with the expected table: %s (rc=%s)" % (tag, st[:1], r.rc))
        else:
            evals += prog["nunits"]
        make_replay_exec(tag)

chk.cov["evaluations"] = evals
chk.cov["programs"] = len(cabi_jobs) + len(str_jobs)
chk.cov["units_by_kind"] = units_by_kind
chk.cov["valgrind_runs"] = vg_runs
chk.cov["valgrind_invalid_reports"] = vg_reports
chk.cov["valgrind_suppressed_startup_reports"] = vg_suppressed
AVOID_TEXT = {"regsplit": "9..16-byte struct argument placed where the remaining argument registers cover only part of its eightbytes",
              "nestedpad": "9..16-byte aggregate whose leaves, packed by their own alignment, are not at their real offsets (nested-aggregate padding)",
              "gobytes_alias": "reading a C.GoBytes result after C modified the buffer", "cbytes_empty": "C.CBytes of an empty slice"}
chk.cov["avoided_constructs"] = [AVOID_TEXT[a] for a in avoid] + [AVOID_TEXT[k] for f, k in cgo_probe_kinds.items() if chk.is_open(f)] + (["capturing closure as C callback"] if chk.is_open(F_CAPT) else [])
chk.cov["rule"] = ("every scalar leaf echoed by the receiving side (C callee compiled by gcc -O1 / Go callback compiled by llgo) and every leaf of the returned, "
                   "leaf-wise transformed value must equal the generator's table, which must equal a C->C run of the same calls (gcc only); strings/buffers: byte-for-byte "
                   "equality incl. terminator, copy semantics (mutating one side after the conversion must not change the other), cgo program also vs the reference go toolchain; "
                   "memcheck: no invalid read/write/free in nogc builds of the string programs. evaluations = units (one call signature / one string conversion each); "
                   "distinct = structural signatures (kind, callback form, eightbyte classes, leaf types, register/stack placement of every parameter)")
chk.assumptions += ["amd64 SysV only: the other per-architecture classifiers of internal/cabi are not reached by execution here",
                    "-O0 only (LLVM 14 optimisation pipelines crash in this sandbox); llgo's own cabi 'optimize' rewriting is on, as in default builds",
                    "the host gcc 12 -O1 is the reference implementation of the platform C ABI",
                    "default -abi mode 2 (all functions follow the C ABI); mode 1 wrappers (transformCallbackFunc) are not reached by default builds"]
for (tag, prog, fid), o in results[len(probe_jobs) + len(str_jobs):][:2]:
    m = prog["meta"]
    k = sorted(m)[len(m) // 2]
    exp = [l for l in (prog["exp_out"] + prog["exp_err"]).split("\n") if l.startswith(("C %d " % k, "G %d " % k))]
    chk.sample({"program": tag, "unit": k, "signature": m[k]["sig"], "expected_lines": [e[:160] for e in exp[:3]]})
chk.sample({"program": "strc", "units": str_cgo["nunits"], "kinds": cgo_kinds})
scale = min(1.0, NPROG / (8.0 if quick else 300.0))      # C09_NPROG scales a run down (mutant / fix validation); floors scale with it
chk.finish(floor_eval=int((900 if quick else 14000) * scale), floor_distinct=int((250 if quick else 2000) * scale) + 5)

"""C03: every run-time panic Go mandates is raised, recoverable, and raised only then (engine E1).

Generated fault programs (gen/c03_faults.py, ~500 units each) are compiled by llgo built from the working tree
(-O0) and by go1.24; per unit the before/operand/after trace and the class of the recovered panic are compared.
The fixed probe program progs/c03_probes runs first: an open finding whose probe still fails prints KNOWN-FINDING
and switches the random generator away from exactly that construct; a finding whose probe passes is exercised
by the random units again."""
import json
import os
import sys

sys.path.insert(0, os.path.join(os.path.dirname(os.path.abspath(__file__)), "..", "rig"))
sys.path.insert(0, os.path.join(os.path.dirname(os.path.abspath(__file__)), "..", "gen"))
import core
import c03_faults as gen
import c03_trace as tr

chk = core.Check("C03")
w = chk.work
llgo = core.build_llgo(w)

QUICK = chk.tier == "quick"
# an llgo build costs ~25 CPU-s whatever the program size and ~8 ms per unit on top: few large programs
NPROG = int(os.environ.get("VERIF_C03_PROGRAMS", "6" if QUICK else "100"))
NUNITS = int(os.environ.get("VERIF_C03_UNITS", "1000" if QUICK else "1500"))
WORKERS = int(os.environ.get("VERIF_C03_WORKERS", "4" if QUICK else "8"))
MAX_REPORTS = 8

# finding id -> generator constructs avoided while its probe fails
AVOID_TAGS = {
    "C03-sigsegv-twice": ["sigsegv-twice"],
    "C03-chan-misuse": ["chan-misuse", "makechan-range"],
    "C03-makechan-narrow-size": ["makechan-narrow"],
    "C03-nil-large-offset": ["nil-large-offset"],
    "C03-nil-array-slice": ["nil-array-slice"],
    "C03-panic-value-string": [],          # random units never type-test the recovered value
    "C03-typeassert-value-string": [],
}
REPLAY_SH = "#!/bin/sh\n# rebuilds main.go with llgo (-O0, from VERIF_REPO or /repo) and go1.24 and compares the unit traces\nexec python3 %s/gen/c03_replay.py \"$(dirname \"$0\")\"\n" % core.V


def build_pair(d, go126=False):
    """-> {name: (binary or None, log)}"""
    res = {}
    out = os.path.join(d, "p_go.bin")
    rc, so, se = core.go_build(w, d, out)
    res["go"] = (out if rc == 0 else None, so + se)
    if go126:
        out = os.path.join(d, "p_go126.bin")
        rc, so, se = core.go_build(w, d, out, go=core.GO126)
        res["go126"] = (out if rc == 0 else None, so + se)
    out = os.path.join(d, "p_llgo.bin")
    rc, so, se = core.llgo_build(w, llgo, d, out, timeout=1800)
    res["llgo"] = (out if rc == 0 else None, so + se)
    if rc == -999:
        res["llgo_timeout"] = True       # build watchdog on an overloaded machine: inconclusive, never a verdict
    return res


def violation(name, files, summary):
    chk.violation(name, files, summary)
    rs = os.path.join(chk.violations[-1]["replay"], "replay.sh")
    if os.path.exists(rs):
        os.chmod(rs, 0o755)


# ------------------------------------------------------------------ 1. probes

def probe_sections(text):
    sec = {}
    cur = None
    for ln in text.split("\n"):
        if ln.startswith("PROBE "):
            cur = ln[6:].strip()
            sec[cur] = []
        elif cur is not None and ln and ln != "END":
            sec[cur].append(("P " + tr.pclass(ln[2:])) if ln.startswith("P ") else ln)
    return sec


def in_known_class(fid, ref, got):
    """second line of defence: is the probe's failure the one the open finding describes?"""
    if fid in ("C03-panic-value-string", "C03-typeassert-value-string"):
        # known: the panic IS raised but its value is not a runtime.Error ("RE kind false true" for "RE kind true true")
        if got is None or len(got) != len(ref):
            return False
        for a, b in zip(ref, got):
            if a != b and not (a.startswith("RE ") and a.endswith(" true true") and b == a[:-len("true true")] + "false true"):
                return False
        return True
    return True


def run_probes():
    d = w.sub("probes")
    src = os.path.join(core.V, "progs", "c03_probes")
    files = {}
    for fn in ("main.go", "go.mod"):
        with open(os.path.join(src, fn)) as f:
            files[fn] = f.read()
        with open(os.path.join(d, fn), "w") as f:
            f.write(files[fn])
    res = build_pair(d)
    if res["go"][0] is None:
        core.broken("reference toolchain rejects the probe program:\n" + res["go"][1][-2000:])
    ref = core.run_prog([res["go"][0]], timeout=120)
    if ref.kind != "exit" or ref.rc != 0 or "END" not in ref.err:
        core.broken("probe program failed under the reference toolchain: %s rc=%s\n%s" % (ref.kind, ref.rc, ref.err[-1500:]))
    rsec = probe_sections(ref.err)
    if res.get("llgo_timeout"):
        core.broken("llgo build of the probe program hit the build watchdog (overloaded machine?)")
    if res["llgo"][0] is None:
        files["build.log"] = res["llgo"][1]
        violation("probes-llgo-build-failure", files, "llgo cannot build the probe program that go accepts:\n" + res["llgo"][1][-1500:])
        return [], rsec, {}
    got = core.run_prog([res["llgo"][0]], timeout=300, interposer=True)
    gsec = probe_sections(got.err)
    avoid = []
    status = {}
    known_ids = [f["id"] for f in chk.findings]
    for fid in rsec:
        same = gsec.get(fid) == rsec[fid]
        status[fid] = "pass" if same else "fail"
        if same:
            continue
        detail = "probe %s: go `%s` vs llgo `%s`%s" % (fid, " | ".join(rsec[fid]), " | ".join(gsec.get(fid, ["<not reached>"])),
                                                      "" if got.kind == "exit" else " (llgo probe process ended with %s rc=%s)" % (got.kind, got.rc))
        if chk.is_open(fid) and in_known_class(fid, rsec[fid], gsec.get(fid)):
            chk.known(fid, detail)
            for t in AVOID_TAGS.get(fid, []):
                if t not in avoid:
                    avoid.append(t)
        else:
            violation("probe-" + fid, dict(files, **{"go.stderr.txt": ref.err, "llgo.stderr.txt": got.err, "replay.sh": REPLAY_SH}),
                          ("probe fails in a way the open finding does not describe: " if chk.is_open(fid) else
                           "regression of a FIXED finding: " if fid in known_ids else "") + detail)
            # keep the random part meaningful: avoid what is now known to be broken
            for t in AVOID_TAGS.get(fid, []):
                if t not in avoid:
                    avoid.append(t)
    return avoid, rsec, status


avoid, probe_ref, probe_status = run_probes()
chk.cov["probes"] = probe_status
chk.cov["avoided_constructs"] = list(avoid)
chk.cov["evaluations"] += sum(len(v) for v in probe_ref.values())

# ------------------------------------------------------------------ 2. generated programs


def apply_alt(lines, alt):
    if not alt:
        return lines
    return [("P " + alt.get(l[2:], l[2:])) if l.startswith("P ") else l for l in lines]


def one_program(pi):
    units = gen.generate(chk.seed, pi, NUNITS, avoid)
    d = w.sub("p%d" % pi)
    src = gen.render_program(units)
    core.write_module(d, {"main.go": src}, modname="c03faults")
    use126 = (not QUICK) and pi % 10 == 0
    res = build_pair(d, go126=use126)
    out = {"pi": pi, "units": units, "src": src, "res": res}
    if res["go"][0] is None:
        return out
    out["ref"] = core.run_prog([res["go"][0]], timeout=300)
    if use126 and res["go126"][0] is not None:
        out["ref126"] = core.run_prog([res["go126"][0]], timeout=300)
    if res["llgo"][0] is not None:
        out["got"] = core.run_prog([res["llgo"][0]], timeout=600, interposer=True)
    for k in ("go", "go126", "llgo"):
        if k in res and res[k][0]:
            try:
                os.remove(res[k][0])
            except OSError:
                pass
    return out


reports = {}          # group key -> (name, files, summary)
nviol_units = 0
stats = {"programs": 0, "units": 0, "reps": 0, "reps_in_range": 0, "reps_panicking": 0, "invalid_generated": 0,
         "oracle_agree_reps": 0, "reference_disagreement_units": 0, "llgo_deaths": 0, "overlap_reports": 0, "foreign_stderr_lines": 0}
fam_counts = {}
oracle_bad = []


def report(key, name, files, summary):
    global nviol_units
    nviol_units += 1
    if key not in reports:
        reports[key] = (name, files, summary)


def unit_files(units, ids, extra=None):
    f = {"main.go": gen.render_program(units, ids), "go.mod": "module c03faults\n\ngo 1.24\n", "replay.sh": REPLAY_SH,
         "meta.json": json.dumps({"alt": {str(i): units[i].alt for i in ids if units[i].alt},
                                  "desc": {str(i): units[i].desc for i in ids}}, indent=1)}
    if extra:
        f.update(extra)
    return f


def digest(o):
    pi, units = o["pi"], o["units"]
    stats["programs"] += 1
    res = o["res"]
    if res["go"][0] is None:
        stats["invalid_generated"] += 1
        core.broken("generator bug: go rejects program %d of seed %d:\n%s" % (pi, chk.seed, res["go"][1][-2500:]))
    ref = o["ref"]
    ru, rorder, rend, rjunk = tr.parse(ref.err)
    if ref.kind != "exit" or ref.rc != 0 or not rend or len(ru) != len(units):
        core.broken("program %d failed under the reference toolchain: %s rc=%s units=%d/%d\n%s" % (pi, ref.kind, ref.rc, len(ru), len(units), ref.err[-1500:]))
    skip = set()
    if "ref126" in o:
        r6, _, _, _ = tr.parse(o["ref126"].err)
        for i in range(len(units)):
            if r6.get(i) != ru[i]:
                skip.add(i)
        stats["reference_disagreement_units"] += len(skip)
    # the generator's own expectation vs the reference (oracle self-check, "dual run")
    for i, u in enumerate(units):
        exp = [e for _, e in u.reps]
        if tr.outcomes(ru[i]) != exp:
            oracle_bad.append("program %d unit %d [%s] %s: go %s, generator expects %s" % (pi, i, u.sig, u.desc, tr.outcomes(ru[i]), exp))
        else:
            stats["oracle_agree_reps"] += len(exp)
    if res.get("llgo_timeout"):
        chk.inconclusive += 1
        return
    if res["llgo"][0] is None:
        report("compile-failure", "llgo-build-failure-p%d" % pi, {"main.go": o["src"], "go.mod": "module c03faults\n\ngo 1.24\n", "build.log": res["llgo"][1]},
               "llgo cannot build generated program %d that go accepts:\n%s" % (pi, res["llgo"][1][-1500:]))
        return
    got = o["got"]
    gu, gorder, gend, gjunk = tr.parse(got.err)
    if "VERIF-MEMCPY-OVERLAP" in got.err:
        stats["overlap_reports"] += 1
    stats["foreign_stderr_lines"] += len(gjunk)
    complete = got.kind == "exit" and got.rc == 0 and gend
    last = gorder[-1] if gorder else None
    for i, u in enumerate(units):
        if i in skip or i not in gu:
            continue
        if not complete and i == last:
            continue                     # the unit in progress when the process ended: reported below
        stats["units"] += 1
        fam_counts[u.fam] = fam_counts.get(u.fam, 0) + 1
        n = len(u.reps)
        stats["reps"] += n
        ninr = sum(1 for _, e in u.reps if e == "-")
        stats["reps_in_range"] += ninr
        stats["reps_panicking"] += n - ninr
        chk.sig(u.sig)
        if len(chk.cov["samples"]) < 3 and i % 97 == 5:
            chk.sample({"program": pi, "unit": i, "sig": u.sig, "desc": u.desc, "trace_go": ru[i], "trace_llgo": gu[i]})
        g = apply_alt(gu[i], u.alt)
        if g != ru[i]:
            fd = None
            for k in range(max(len(g), len(ru[i]))):
                a = ru[i][k] if k < len(ru[i]) else "<end>"
                b = g[k] if k < len(g) else "<end>"
                if a != b:
                    fd = (k, a, b)
                    break
            key = u.sig.rsplit("/", 1)[0]
            report(key, "p%d-u%d" % (pi, i), unit_files(units, [i], {"trace.go.txt": "\n".join(ru[i]), "trace.llgo.txt": "\n".join(gu[i])}),
                   "unit %d of program %d [%s] %s\n  first difference at event %d: go `%s`, llgo `%s`\n  go:   %s\n  llgo: %s\n  (events: B rep = before, T k = operand/consumer side effect k, A v = after with result, P class = recovered panic or -)"
                   % (i, pi, u.sig, u.desc, fd[0], fd[1], fd[2], " ".join(ru[i]), " ".join(gu[i])))
    if not complete:
        if got.kind == "timeout":
            chk.inconclusive += 1
            return
        stats["llgo_deaths"] += 1
        u = units[last] if last is not None else None
        ids = list(range(0, (last if last is not None else 0) + 1))
        how = {"signal": "was killed by signal %s" % (-got.rc), "deadlock": "hung (all threads asleep: logical deadlock)", "exit": "exited with status %s" % got.rc}.get(got.kind, got.kind)
        report("died/" + (u.sig.rsplit("/", 1)[0] if u else "start"), "p%d-died-u%s" % (pi, last),
               unit_files(units, ids, {"llgo.stderr.tail.txt": got.err[-6000:], "trace.go.txt": "\n".join(ru.get(last, []))}),
               "llgo program %d %s instead of raising a recoverable panic, in unit %s [%s] %s (go completes all %d units)\n  go trace of the unit:   %s\n  llgo trace so far:      %s\n  replay program = units 0..%s (the death may depend on earlier faults in the same thread)"
               % (pi, how, last, u.sig if u else "-", u.desc if u else "-", len(units), " ".join(ru.get(last, [])), " ".join(gu.get(last, [])), last))


BATCH = 24
for b0 in range(0, NPROG, BATCH):
    for o in core.pmap(one_program, list(range(b0, min(NPROG, b0 + BATCH))), workers=WORKERS):
        digest(o)
        o.clear()

if oracle_bad:
    core.broken("the generator's expectation disagrees with the reference toolchain on %d unit(s) (oracle bug, not a verdict):\n%s" % (len(oracle_bad), "\n".join(oracle_bad[:10])))

for key in sorted(reports)[:MAX_REPORTS]:
    name, files, summary = reports[key]
    violation(name, files, summary)
if len(reports) > MAX_REPORTS:
    print("  (%d further distinct failing unit shapes not written out)" % (len(reports) - MAX_REPORTS))

chk.cov["evaluations"] += stats["reps"]
chk.cov.update(stats)
chk.cov["violating_units"] = nviol_units
chk.cov["units_by_family"] = fam_counts
chk.cov["rule"] = ("generated fault units (op x indexable kind x index type x constant/variable operands x tuples around every bound, 1-5 repetitions, "
                   "placed in plain code / loops / closures / deferred functions / fresh goroutines), ~half of the repetitions in range; per unit the "
                   "before / operand side effects / after trace and the CLASS of the recovered panic under llgo (-O0, built from the tree) are compared with go1.24"
                   + ("" if QUICK else " (every 10th program also with go1.26; units on which the references disagree are discarded)")
                   + "; process death or hang instead of a panic is a violation; the generator's own spec model must agree with the reference on every repetition "
                   "(else the run is a broken check). evaluations = repetitions compared (+ probe events); distinct = unit signatures (family/kind/form/types/const-var/placement) observed under llgo")
chk.assumptions += ["-O0 only, linux/amd64 only", "panic message text is not compared, only its class; unit-specific aliases: make with constant cap may report a slice-bounds error, "
                    "a method value of a nil interface may report a failed type assertion (go/ssa lowering)", "reference = go1.24.0 toolchain + generator spec model"]
small = NPROG * NUNITS < 5000      # reduced development runs
chk.finish(floor_eval=100 if small else (8000 if QUICK else 200000), floor_distinct=20 if small else (1000 if QUICK else 4000))

"""C01: compiled programs behave as the Go language specifies - core language (engine E1, differential execution).

Random typed core-language programs (gen/c01_core.py + gen/c01_units.py; 1-4 packages per module, ~25 units per program)
are compiled by llgo built from the working tree of $VERIF_REPO in two configurations {gc, -tags nogc} (-O0, see BUILDING.md)
and by the reference toolchain go1.24.0 (also go1.26.0 in the thorough tier and for programs that combine range-over-func with
panics; units on which the two references disagree are discarded as reference_disagreement).  Monitor: per unit, line-by-line
comparison of the trace (stderr, built on println of ints/strings only) + termination kind (exit status; for an uncaught panic
the class / text of the first `panic:` line, never goroutine dumps) + stdout + the memcpy-overlap interposer.  An llgo build
failure on a program go accepts is a violation (class compile-failure).  Fixed probes of open findings run first on every run.
"""
import os
import re
import shutil
import sys
import time

sys.path.insert(0, os.path.join(os.path.dirname(os.path.abspath(__file__)), "..", "rig"))
sys.path.insert(0, os.path.join(os.path.dirname(os.path.abspath(__file__)), "..", "gen"))
import core
import c01_core as gen
import c01_probes as probes

chk = core.Check("C01")
w = chk.work
QUICK = chk.tier == "quick"
NPROG = int(os.environ.get("VERIF_C01_PROGS", "40" if QUICK else "1200"))
NUNITS = int(os.environ.get("VERIF_C01_UNITS", "25"))
WORKERS = min(core.NCPU, int(os.environ.get("VERIF_C01_WORKERS", "6" if QUICK else "8")))
KINDS = os.environ.get("VERIF_C01_KINDS")
KINDS = KINDS.split(",") if KINDS else None
CONFIGS = [("gc", None), ("nogc", "nogc")]
TERM_UID = 9000
REPLAY = os.path.join(core.V, "rig", "replay_diff.py")
MAX_VIOLATIONS = 12

t0 = time.time()
if os.environ.get("VERIF_C01_LLGO"):          # development shortcut only: reuse a prebuilt llgo (never set by ./run)
    llgo = os.environ["VERIF_C01_LLGO"]
else:
    llgo = core.build_llgo(w)
t_llgo = time.time() - t0

OPEN = {f["id"] for f in chk.open_findings()}
AVOID = tuple(sorted(a for a in gen.AVOIDABLE if gen.AVOIDABLE[a] in OPEN))
if os.environ.get("VERIF_C01_NOAVOID"):       # fix validation: generate the avoided constructs too (used with VERIF_REPO=<tree with the fixes>)
    AVOID = ()


# ---------------------------------------------------------------------------------------------- helpers

def write_prog(d, p):
    core.write_module(d, p["files"], modname=p["mod"])


def norm_panic_line(err):
    """first `panic:` / `fatal error:` line of stderr mapped to a class (runtime errors) or kept verbatim (user values)"""
    for ln in err.split("\n"):
        if ln.startswith("panic: ") or ln.startswith("fatal error: "):
            s = ln.strip()
            s = re.sub(r"\s*\[recovered\].*$", "", s)
            if "interface conversion" in s or "type assertion" in s:
                return "panic-class:typeassert"
            if "runtime error" in s:
                return "panic-class:" + core.panic_class(s)
            s = re.sub(r"^panic: main\.", "panic: ", s)
            return s
    return None


def split_units(err):
    """stderr -> ({uid: [lines]}, order, tail) ; a unit's lines run from its `B` line to its `E` line (inclusive) or to the end."""
    units = {}
    order = []
    cur = None
    tail = []
    for ln in err.split("\n"):
        if ln.startswith("B "):
            try:
                cur = int(ln.split(" ")[1])
            except (ValueError, IndexError):
                cur = -1
            units[cur] = [ln]
            order.append(cur)
            continue
        if cur is None:
            if ln:
                tail.append(ln)
            continue
        if ln.startswith("panic: ") or ln.startswith("fatal error: ") or ln.startswith("goroutine ") or ln.startswith("[0x"):
            cur = None      # termination text: handled by norm_panic_line
            continue
        units[cur].append(ln)
        if ln.startswith("E "):
            cur = None
    return units, order, tail


class Obs:
    def __init__(self, r):
        self.kind, self.rc = r.kind, r.rc
        self.units, self.order, self.tail = split_units(r.err)
        self.panic = norm_panic_line(r.err)
        self.out = r.out
        self.overlap = "VERIF-MEMCPY-OVERLAP" in r.err
        self.err = r.err

    def term(self):
        return (self.kind, self.rc, self.panic)


def build_all(d, p, thorough_ref):
    """returns {name: (rc, log, bin)}"""
    res = {}
    out = os.path.join(d, "ref124.bin")
    rc, so, se = core.go_build(w, d, out, go=core.GO124)
    res["go124"] = (rc, so + se, out)
    if rc != 0:
        return res
    if thorough_ref:
        out = os.path.join(d, "ref126.bin")
        rc, so, se = core.go_build(w, d, out, go=core.GO126)
        res["go126"] = (rc, so + se, out)
    for name, tags in CONFIGS:
        out = os.path.join(d, "llgo_%s.bin" % name)
        rc, so, se = core.llgo_build(w, llgo, d, out, tags=tags, extra_env={"GOMAXPROCS": "1"})
        res[name] = (rc, so + se, out)
    return res


def run_all(builds):
    obs = {}
    for name, (rc, log, binp) in builds.items():
        if rc != 0:
            continue
        r = core.run_prog([binp], timeout=120, interposer=(name in ("gc", "nogc")))
        obs[name] = (r, Obs(r))
    return obs


def compare(ref, got, skip_units):
    """list of (uid or 'term'/'stdout', description)"""
    bad = []
    for uid in ref.order:
        if uid in skip_units:
            continue
        a = ref.units[uid]
        b = got.units.get(uid)
        if b is None:
            bad.append((uid, "unit %d never started under llgo (go: %d lines)" % (uid, len(a))))
            break
        if a != b:
            for i in range(max(len(a), len(b))):
                x = a[i] if i < len(a) else "<missing>"
                y = b[i] if i < len(b) else "<missing>"
                if x != y:
                    bad.append((uid, "line %d of unit %d: go `%s` vs llgo `%s`" % (i + 1, uid, x[:200], y[:200])))
                    break
    for uid in got.order:
        if uid not in ref.units and uid not in skip_units:
            bad.append((uid, "unit %d ran under llgo but not under go" % uid))
    if ref.term() != got.term() and not (ref.order and ref.order[-1] in skip_units):
        bad.append(("term", "termination: go %s vs llgo %s" % (ref.term(), got.term())))
    if ref.out != got.out:
        bad.append(("stdout", "stdout differs: go %r vs llgo %r" % (ref.out[:100], got.out[:100])))
    if got.overlap:
        bad.append(("overlap", "overlapping memcpy reported by the interposer"))
    return bad


def replay_sh(tags):
    return ("#!/bin/sh\n# builds this module with llgo (-O0%s, from $VERIF_REPO or /repo) and go1.24, runs both, prints the first differing line\n"
            "cd \"$(dirname \"$0\")\" && exec python3 %s .\n" % (" -tags " + tags if tags else "", REPLAY))


def module_files(p, prefix=""):
    f = {prefix + "go.mod": "module %s\n\ngo 1.24\n" % p["mod"]}
    for rel, txt in p["files"].items():
        f[prefix + rel] = txt
    return f


# ---------------------------------------------------------------------------------------------- one program

def do_program(idx):
    p = gen.generate(chk.seed, idx, nunits=NUNITS, kinds=KINDS, avoid=AVOID)
    d = w.sub("p%d" % idx)
    write_prog(d, p)
    res = {"idx": idx, "p": p, "status": "ok", "bad": [], "events": 0, "skip": [], "wall": 0.0}
    t = time.time()
    builds = build_all(d, p, thorough_ref=(not QUICK) or p["needs_go126"])
    if any(v[0] == -999 for v in builds.values()):      # a build hit the wall-clock watchdog (overloaded machine): no verdict
        res["status"] = "inconclusive"
        return res
    if builds["go124"][0] != 0:
        res["status"] = "invalid"
        res["log"] = builds["go124"][1]
        return res
    obs = run_all(builds)
    ref_r, ref = obs["go124"]
    if ref_r.kind == "timeout":
        res["status"] = "inconclusive"
        return res
    skip = set()
    if "go126" in obs:
        o26 = obs["go126"][1]
        for uid in ref.order:
            if ref.units.get(uid) != o26.units.get(uid):
                skip.add(uid)
        if ref.term() != o26.term() and ref.order:
            skip.add(ref.order[-1])
    elif "go126" in builds:          # go1.26 rejects what go1.24 accepts: treat the whole program as a reference disagreement
        res["status"] = "refdis"
        return res
    res["skip"] = sorted(skip)
    res["events"] = sum(len(v) for k, v in ref.units.items() if k not in skip)
    res["ref_term"] = ref.term()
    for name, tags in CONFIGS:
        rc, log, binp = builds[name]
        if rc != 0:
            res["bad"].append((name, tags, [("build", "llgo build failure (%s):\n%s" % (name, log[-1500:]))]))
            continue
        r, got = obs[name]
        if r.kind == "timeout":
            res["status"] = "inconclusive"
            continue
        bad = compare(ref, got, skip)
        if bad:
            res["bad"].append((name, tags, bad))
    res["obs"] = obs if res["bad"] else None
    res["wall"] = time.time() - t
    if not res["bad"] and not os.environ.get("VERIF_KEEP_WORK"):
        shutil.rmtree(d, ignore_errors=True)
    if not res["bad"]:
        # keep memory flat over 1200 programs: sources are a pure function of (seed, idx) and are regenerated on demand
        if idx < 2 and p["units"]:
            m = p["units"][0]
            res["sample"] = p["files"][[k for k in p["files"] if k.endswith("_u%d.go" % m["uid"])][0]][:600]
        res["p"] = {k: p[k] for k in ("units", "npk", "term", "mod", "needs_go126")}
    return res


def confirm_reduced(idx, uids, tags, cfg):
    """regenerate with only=uids, rebuild, rerun: does the reduced program still differ?  -> (program, still_differs, description)"""
    p = gen.generate(chk.seed, idx, nunits=NUNITS, kinds=KINDS, only=uids, avoid=AVOID)
    d = w.sub("red-%d-%s-%s" % (idx, cfg, "_".join(str(x) for x in uids)))
    write_prog(d, p)
    o1 = os.path.join(d, "ref.bin")
    o2 = os.path.join(d, "llgo.bin")
    rc, so, se = core.go_build(w, d, o1)
    if rc != 0:
        return p, False, "reduced program rejected by go"
    rc, so, se = core.llgo_build(w, llgo, d, o2, tags=tags)
    if rc == -999:
        return p, False, "reduced build hit the watchdog"
    if rc != 0:
        return p, True, "llgo build failure:\n" + (so + se)[-1500:]
    a = Obs(core.run_prog([o1], timeout=120))
    b = Obs(core.run_prog([o2], timeout=120, interposer=True))
    bad = compare(a, b, set())
    return p, bool(bad), "; ".join(x[1] for x in bad[:3])


# ---------------------------------------------------------------------------------------------- probes of findings (always first)

probe_report = probes.run(chk, w, llgo, Obs, compare)

# ---------------------------------------------------------------------------------------------- random programs

prog_ids = list(range(NPROG))
if os.environ.get("VERIF_C01_ONLY_PROGS"):      # development: rerun selected program indices of this seed
    prog_ids = [int(x) for x in os.environ["VERIF_C01_ONLY_PROGS"].split(",")]
results = core.pmap(do_program, prog_ids, workers=WORKERS)

invalid = 0
refdis_units = 0
refdis_progs = 0
events = 0
units_done = 0
by_kind = {}
term_kinds = {}
npk_hist = {}
nviol = 0
unplanned = 0
for res in results:
    p = res["p"]
    if res["status"] == "invalid":
        invalid += 1
        if invalid <= 3:
            print("INVALID-GENERATED program %d: %s" % (res["idx"], res["log"][-600:]), flush=True)
        continue
    if res["status"] == "refdis":
        refdis_progs += 1
        continue
    if res["status"] == "inconclusive":
        chk.inconclusive += 1
        continue
    events += res["events"]
    refdis_units += len(res["skip"])
    npk_hist[str(p["npk"])] = npk_hist.get(str(p["npk"]), 0) + 1
    tk = "%s/%s" % (p["term"], res["ref_term"][1])
    term_kinds[tk] = term_kinds.get(tk, 0) + 1
    if p["term"] == "normal" and res["ref_term"][:2] != ("exit", 0):
        unplanned += 1          # a unit ended the program under the reference toolchain: generator bug (coverage loss), not a verdict
        if unplanned <= 3:
            print("UNPLANNED-TERMINATION program %d: reference ended with %s" % (res["idx"], res["ref_term"]), flush=True)
    failed_units = set()
    for name, tags, bad in res["bad"]:
        for uid, desc in bad:
            failed_units.add(uid)
    for m in p["units"]:
        if m["uid"] in res["skip"]:
            continue
        units_done += 1
        by_kind[m["kind"]] = by_kind.get(m["kind"], 0) + 1
        chk.sig(m["sig"] + "|" + ("split" if m["lib_pkg"] != m["body_pkg"] else "same"))
    if len(chk.cov["samples"]) < 2 and p["units"] and res.get("sample"):
        m = p["units"][0]
        chk.sample({"program": res["idx"], "npk": p["npk"], "unit": m["uid"], "kind": m["kind"], "signature": m["sig"],
                    "source_head": res["sample"]})
    seen = set()
    for name, tags, bad in res["bad"]:
        for uid, desc in bad:
            key = uid
            if key in seen or nviol >= MAX_VIOLATIONS:
                continue
            seen.add(key)
            kind = next((m["kind"] for m in p["units"] if m["uid"] == uid), str(uid))
            files = {}
            summary = "program %d (seed %d, %d packages, config %s) %s" % (res["idx"], chk.seed, p["npk"], name, desc)
            if uid == "build":
                # find the smallest failing unit subset: try each unit alone (bounded)
                culprit = None
                for m in p["units"][:NUNITS]:
                    rp, still, d2 = confirm_reduced(res["idx"], [m["uid"]], tags, name)
                    if still and d2.startswith("llgo build failure"):
                        culprit = (m, rp, d2)
                        break
                if culprit:
                    m, rp, d2 = culprit
                    files.update(module_files(rp))
                    files.update(module_files(p, "full/"))
                    summary += "\nreduced to unit %d (kind %s, %s): %s" % (m["uid"], m["kind"], m["sig"], d2[-800:])
                    kind = m["kind"]
                else:
                    files.update(module_files(p))
                vname = "p%d-%s-compile-failure-%s" % (res["idx"], name, kind)
            elif isinstance(uid, int) and uid != TERM_UID:
                rp, still, d2 = confirm_reduced(res["idx"], [uid], tags, name)
                if still:
                    files.update(module_files(rp))
                    files.update(module_files(p, "full/"))
                    summary += "\nreduced single-unit program (only=[%d]) still differs: %s" % (uid, d2)
                else:
                    files.update(module_files(p))
                    summary += "\nthe single-unit reduction does not reproduce (%s): the replay dir holds the full module" % d2
                m = next(m for m in p["units"] if m["uid"] == uid)
                summary += "\nunit kind %s, signature %s, lib in %s, body in %s" % (m["kind"], m["sig"], m["lib_pkg"], m["body_pkg"])
                vname = "p%d-%s-u%d-%s" % (res["idx"], name, uid, kind)
            else:
                files.update(module_files(p))
                vname = "p%d-%s-%s" % (res["idx"], name, uid)
                summary += "\n(termination / whole-program observation: replay.sh prints raw differences, goroutine dumps differ by design; compare the `panic:` line and exit status)"
            if tags:
                files["tags.txt"] = tags + "\n"
            files["replay.sh"] = replay_sh(tags)
            obs = res.get("obs") or {}
            if "go124" in obs:
                files["trace.go.txt"] = obs["go124"][0].err[-200000:]
            if name in obs:
                files["trace.llgo.txt"] = obs[name][0].err[-200000:]
            chk.violation(vname, files, summary)
            try:
                os.chmod(os.path.join(chk.violations[-1]["replay"], "replay.sh"), 0o755)
            except OSError:
                pass
            nviol += 1

nprog_ok = len(results) - invalid - refdis_progs
chk.cov["evaluations"] = units_done * len(CONFIGS)
chk.cov["programs"] = nprog_ok
chk.cov["units_compared"] = units_done
chk.cov["events_compared"] = events * len(CONFIGS)
chk.cov["configs"] = [c[0] for c in CONFIGS]
chk.cov["units_by_kind"] = dict(sorted(by_kind.items()))
chk.cov["packages_per_program"] = dict(sorted(npk_hist.items()))
chk.cov["termination_kinds"] = dict(sorted(term_kinds.items()))
chk.cov["invalid_generated"] = invalid
chk.cov["reference_disagreement_units"] = refdis_units
chk.cov["reference_disagreement_programs"] = refdis_progs
chk.cov["second_reference"] = "go1.26.0 on every program" if not QUICK else "go1.26.0 only for programs with range-over-func + panic units"
chk.cov["avoided_constructs"] = list(AVOID) + ["print/println of float values (probe only)"]
chk.cov["probes"] = probe_report
chk.cov["llgo_build_s"] = round(t_llgo, 1)
chk.cov["rule"] = ("seeded typed random programs (feature skeletons x typed fillers, %d units/program, 1-4 packages) built by llgo -O0 {gc, nogc} and go1.24 "
                   "(+go1.26 as second reference); per-unit line-by-line trace equality + termination kind (exit status, class of an uncaught panic) + stdout + "
                   "memcpy-overlap interposer; llgo build failure of a go-accepted program = violation; distinct = structural unit signatures "
                   "(kind + feature/type kinds + package split), constants ignored" % NUNITS)
chk.assumptions.append("advisory_o2: not executed (LLVM 14 optimisation pipelines crash on opaque pointers, BUILDING.md) - every deciding execution is -O0")
chk.assumptions.append("amd64 only; go1.24.0 (and go1.26.0) are the executable reference for the language spec; generator rules keep programs free of "
                       "unspecified evaluation order, map order, addresses, goroutines")
chk.cov["unplanned_termination"] = unplanned
if unplanned > max(1, len(results) // 50):
    core.broken("%d programs planned to end normally were ended by a unit under the reference toolchain (> 2%%): generator bug" % unplanned)
if invalid > max(1, len(results) // 50):
    core.broken("generator produced %d programs rejected by go (> 2%%)" % invalid)
dev = bool(KINDS or os.environ.get("VERIF_C01_ONLY_PROGS"))
chk.finish(floor_eval=1 if dev else (NPROG * NUNITS * 2 * 8) // 10, floor_distinct=2 if dev else min(60, NPROG * 3))

import os, sys
sys.path.insert(0, os.path.join(os.path.dirname(os.path.abspath(__file__)), "..", "rig"))
import core, legb


def run(chk):
    legb.run(chk, os.path.join(core.V, "progs", "c10_legb"), "C10")

"""C11: goroutines, sync primitives and atomics keep their guarantees under contention.

Leg A (E3): the real sema_llgo.go (semaphores + notify list) under the controllable scheduler with
            atomics as yield points (sched/cmd/semarun), and Go's own sync sources (Mutex, RWMutex,
            WaitGroup, Once, Cond - what llgo compiles unchanged) composed on top of it (sched/cmd/syncrun).
Leg B (E1): compiled llgo stress programs (checks/c11_legb.py).
"""
import json
import os
import re
import sys

sys.path.insert(0, os.path.join(os.path.dirname(os.path.abspath(__file__)), "..", "rig"))
import core
import sched

SEMA = "runtime/internal/lib/runtime/sema_llgo.go"
AVALUE = "runtime/internal/lib/sync/atomic/value.go"
IMPORTS = [("github.com/goplus/llgo/runtime/internal/clite/pthread/sync", 'psync "schedharness/psync"'),
           ("github.com/goplus/llgo/runtime/internal/lib/sync/atomic", 'latomic "schedharness/latomic"')]


def prepare(chk, name):
    d = os.path.join(chk.work.dir, name)
    sched.copy_module(d)
    dst = os.path.join(d, "rtl", "sema_llgo.go")
    sched.rewrite_imports(os.path.join(core.REPO, SEMA), dst, "rtl", IMPORTS)
    s = open(dst).read()
    s = re.sub(r"^//go:(linkname|build).*\n", "", s, flags=re.M)  # directives only; no code line is touched
    open(dst, "w").write(s)
    sched.instantiate_gosync(d)
    # llgo's own atomic.Value: package clause rewritten, nothing else (its pointer atomics resolve to yielding stand-ins)
    sched.rewrite_imports(os.path.join(core.REPO, AVALUE), os.path.join(d, "aval", "value.go"), "aval", [])
    bins = {}
    for cmd in ("semarun", "syncrun", "avalrun"):
        out = os.path.join(chk.work.dir, "%s-%s.bin" % (name, cmd))
        rc, log = sched.go_build(chk.work, d, "./cmd/" + cmd, out)
        if rc != 0:
            return rc, log, None
        bins[cmd] = out
    return 0, "", bins


def replay(path):
    chk = core.Check("C11")
    rc, log, bins = prepare(chk, "replay")
    if rc != 0:
        print(log)
        sys.exit(2)
    f = os.path.join(path, "failure.json") if os.path.isdir(path) else path
    kind = json.load(open(f)).get("kind")
    binary = bins["semarun"] if kind in ("sema", "notify") else (bins["avalrun"] if kind == "aval" else bins["syncrun"])
    r = core.sh([binary, "-replay", f], timeout=300)
    print(r[1] + r[2])
    chk.work.close()
    sys.exit(1 if r[0] == 1 else 0)


def main():
    chk = core.Check("C11")
    thorough = chk.tier == "thorough"
    rc, log, bins = prepare(chk, "real")
    if rc != 0:
        chk.violation("harness-build", {"build.log": log},
                      "sema_llgo.go (or Go's sync sources on top of it) no longer compiles against the scheduler stand-ins:\n" + log[-1500:])
        chk.cov["evaluations"] = 1
        chk.finish(floor_eval=1, floor_distinct=0)
    plan = [("semarun", 6000000 if thorough else 160000), ("syncrun", 4000000 if thorough else 120000),
            ("avalrun", 2000000 if thorough else 64000)]
    total_runs = 0
    distinct = 0
    classes = {}
    sites = {}
    # systematic leg: small workloads, EVERY schedule with <= 1 pre-emption and then every schedule with <= bound pre-emptions
    # (up to a per-workload cap; capped workloads are counted as truncated, not as enumerated)
    sys_bound = 3 if thorough else 2
    sys_plan = {"semarun": 1600 if thorough else 96, "syncrun": 1600 if thorough else 96, "avalrun": 800 if thorough else 48}
    sys_args = ["-sys", str(sys_bound), "-maxruns", "60000" if thorough else "3000"]
    sysagg = {"sys_workloads": 0, "sys_workloads_enumerated_completely": 0, "sys_workloads_truncated": 0, "sys_diverged_runs": 0, "runs": 0}
    for cmd, total in plan:
        reps = sched.fanout(bins[cmd], total, 16, os.path.join(chk.work.dir, cmd + "-out"), start=chk.seed * 10000019, timeout=7200)
        sreps = sched.fanout(bins[cmd], sys_plan[cmd], 16, os.path.join(chk.work.dir, cmd + "-sys-out"), extra_args=sys_args,
                             start=chk.seed * 10000019, timeout=7200)
        for r in sreps:
            if "_crash" not in r:
                for k in sysagg:
                    sysagg[k] += r.get(k, 0)
        reps = reps + sreps
        bykind = {}
        for r in reps:
            if "_crash" in r:
                chk.violation("%s-crash-%d" % (cmd, r["_from"]), {"output.txt": r["_out"]},
                              "%s died (%s) on seeds %d..%d: the code under test panicked (throw/fatal, unlock of unlocked mutex, ...):\n%s" % (
                                  cmd, r["_crash"], r["_from"], r["_from"] + r["_n"], r["_out"][-1500:]))
                continue
            total_runs += r["runs"]
            distinct += r["distinct_schedules"]
            chk.cov[cmd + "_operations"] = chk.cov.get(cmd + "_operations", 0) + r["operations"]
            chk.cov[cmd + "_scheduler_steps"] = chk.cov.get(cmd + "_scheduler_steps", 0) + r["scheduler_steps"]
            chk.inconclusive += r["step_limit_inconclusive"]
            sched.merge_counts(bykind, r["runs_by_kind"])
            sched.merge_counts(classes, r["failure_class_counts"])
            sched.merge_counts(sites, r["yield_sites"])
            if r.get("sample_log") and len(chk.cov["samples"]) < 2:
                chk.sample({cmd + " log (step: event)": r["sample_log"][:40]})
            for f in (r.get("failures") or []):
                cls = f["class"]
                n = sum(1 for v in chk.violations if v["name"].startswith(core.h(cls)))
                if n >= 2:
                    continue
                chk.violation("%s-seed%d" % (core.h(cls), f["seed"]),
                              {"failure.json": json.dumps(f, indent=1), "log.txt": "\n".join(f["log"]),
                               "replay.sh": "#!/bin/sh\nexec python3 %s/checks/c11.py --replay \"$(dirname \"$0\")\"\n" % core.V},
                              "[%s/%s] %s\n%s" % (cmd, cls, f["detail"], "\n".join(f["log"][-25:])))
        chk.cov[cmd + "_runs_by_kind"] = bykind
    for fn in os.listdir(core.V + "/replays"):
        p = os.path.join(core.V, "replays", fn, "replay.sh")
        if fn.startswith("C11-") and os.path.exists(p):
            os.chmod(p, 0o755)
    if sysagg["sys_diverged_runs"]:
        core.broken("systematic leg: %d runs did not follow their decision prefix (harness non-determinism)" % sysagg["sys_diverged_runs"])
    chk.cov["systematic_leg"] = dict(sysagg, preemption_bound=sys_bound,
                                     subspace="per small workload (<=3 threads x <=2 ops, <=2 waiters/workers/readers): every schedule with at most one pre-emption, then every "
                                              "schedule with at most the stated number of pre-emptions in depth-first order up to the per-workload cap (decisions: which thread runs at "
                                              "each lock/unlock/wait/signal/atomic, which waiter a Signal wakes); exhaustive is true only if no workload hit the cap",
                                     exhaustive=(sysagg["sys_workloads_truncated"] == 0))
    chk.cov["evaluations"] = total_runs
    chk.cov["distinct_nontrivial"] = distinct
    chk.cov["failure_class_counts"] = classes
    chk.cov["yield_sites_in_sema_llgo"] = {k: v for k, v in sorted(sites.items()) if k.startswith("sema_llgo.go")}
    chk.cov["yield_sites_total"] = len(sites)
    chk.cov["rule"] = ("semarun: 2-5 threads x 1-4 acquire/release ops on 1-2 semaphores (initial 0-2; 1/3 of runs use a count-1 semaphore as a lock), and 1-4 waiters x 1-2 rounds + "
                       "1-2 notifier threads on a notify list (NotifyOne / NotifyAll / mixed, 1/4 of runs start at ticket 0xfffffffe); syncrun: Go's Mutex/RWMutex/WaitGroup/Once/Cond sources "
                       "on top of the copied semaphores; avalrun: llgo's atomic.Value (value.go) with 1-2 writers (Store/Swap/CompareAndSwap(nil,x), pointer and boxed values) and 1-3 readers, "
                       "every pointer atomic a scheduling point, Load must return nil or exactly a value whose store had started; seeded scheduler (uniform / PCT / round-robin, arbitrary-waiter Signal, spurious wake-ups in 1/3 of runs), atomics and lock operations "
                       "are scheduling points. Monitors: semaphore conservation at every step, final count, mutual exclusion, lost wake-up at quiescence, Wait(t) returns only when notify>t, "
                       "notify<=wait, notified waiter asleep at quiescence, occupancy counters for Mutex/RWMutex, admission at quiescence, WaitGroup/Once/Cond laws. "
                       "distinct = distinct (scenario, decision list, log) hashes summed over 16 processes")
    try:
        import c11_legb
        c11_legb.run(chk)
    except ImportError:
        pass
    chk.finish(floor_eval=100000, floor_distinct=30000)


if __name__ == "__main__":
    if len(sys.argv) > 2 and sys.argv[1] == "--replay":
        replay(sys.argv[2])
    main()

"""C04: defer, panic, recover and Goexit follow Go's ordering rules (engine E1, runtime monitoring).

Generated programs (gen/c04_defers.py) are compiled by llgo built from the working tree (-O0) and by BOTH reference
toolchains (go1.24.0 and go1.26.0); every unit (one call of one generated function with one input) on which the two
references disagree is discarded as reference_disagreement (go1.24.0 mishandles recover() of a panic raised in a
range-over-func body).  Monitors: (1) the in-program shadow stack (lines starting with MONITOR:, must never appear under
the references), (2) the whole println trace of the unit and the termination of the program vs the reference pair.
"""
import os
import re
import shutil
import sys

sys.path.insert(0, os.path.join(os.path.dirname(os.path.abspath(__file__)), "..", "rig"))
sys.path.insert(0, os.path.join(os.path.dirname(os.path.abspath(__file__)), "..", "gen"))
import core
import c04_defers as gen

# finding id -> (construct the random generator avoids while the probe fails, probe units of the battery)
PROBE_FINDINGS = [
    ("C04-recover-not-direct", "recover-indirect", [1, 2, 3, 4, 24]),
    ("C04-rangefunc-named-results", "rangefunc-named", [5]),
    ("C04-unregistered-always-defer-runs", "always-unregistered", [6, 7, 8]),
    ("C04-nested-recovered-panic-swallows-outer", "nested-recovered", [9]),
    ("C04-goexit-during-panic", "goexit-in-deferred", [15]),
    ("C04-panic-nil", "panic-nil", [22]),
    ("C04-block-order-replay", "loop-branch-then-defer", [26, 27]),
    ("C04-frame-stays-linked", "first-defer-panics", [29]),
    ("C04-panic-value-not-gc-visible", "boxed-panic-value", [30]),
]

# The exact trace llgo produces today for the probe units of the open findings ("CRASH" = the binary dies inside the
# unit after printing these lines).  A probe unit that fails in any OTHER way is not covered by the finding -> VIOLATION.
KNOWN_BAD = {
    1: ["helper.rec int:1", "top.res 0"],
    2: ["nested.rec int:1", "top.res 0"],
    3: ["top.res 0"],
    4: ["g4.rec int:1", "top.res 0"],
    24: ["p24.rec int:1", "top.res 0"],
    5: ["top.res 1"],
    6: ["MONITOR: deferred call 61 0 0 ran but is not pending (duplicate, never deferred, or arguments differ from those at the defer statement)",
        "vd 61 0 0", "top.rec int:1", "MONITOR: 1 registered deferred calls never ran; last site 61"],
    7: ["p7.b", "p7.a", "top.rec int:1"],
    8: ["p8.b", "p8.a", "top.rec int:2"],
    9: ["p9.inner.rec int:2", "top.res 0"],
    15: ["p15.outer", "top.rec int:1"],
    22: ["p22.rec false", "top.res 0"],
    26: ["top.rec rt:nilderef", "MONITOR: 1 registered deferred calls never ran; last site 262"],
    27: ["d 273 1 0", "d 272 1 0", "top.res 1", "MONITOR: 2 registered deferred calls never ran; last site 272"],
    29: ["CRASH", "p29.rec int:29", "p29.inner.d"],
    30: ["p30.corrupted true", "top.res 0"],
}


def is_known_bad(u, why, got):
    kb = KNOWN_BAD.get(u)
    if kb is None:
        return False
    g = [l for l in got if l.strip()]
    if kb[0] == "CRASH":
        return "inside this unit" in why and "signal" in why and g == kb[1:]
    return g == kb


PANIC_RE = re.compile(r"^\s*panic: (.*)$")


def norm_panic_value(v):
    v = re.sub(r"\s*\[recovered[^\]]*\]\s*$", "", v.strip())
    if "runtime error" in v or "interface conversion" in v or "type assertion" in v or "invalid memory address" in v:
        return core.panic_class(v) if not v.startswith("type assertion") else "typeassert"
    m = re.match(r"^main\.myErr\{.*\}$", v)
    if m:
        return "myErr"
    return v


def parse(text):
    """-> (units {u: [lines]}, order [u], open_unit or None, tail [lines after the last complete unit], done)"""
    units, order = {}, []
    cur, curu = None, None
    tail = []
    done = False
    for ln in text.split("\n"):
        if cur is None:
            if ln.startswith("U ") and ln[2:].isdigit():
                curu, cur = int(ln[2:]), []
                tail = []
            elif ln == "DONE":
                done = True
            elif ln:
                tail.append(ln)
        else:
            if ln.startswith("E ") and ln[2:].isdigit() and int(ln[2:]) == curu:
                units[curu] = cur
                order.append(curu)
                cur, curu = None, None
            else:
                cur.append(ln)
    return units, order, (curu, cur) if cur is not None else None, tail, done


def uncaught(open_unit):
    """normalises an unterminated unit that ended in an escaping panic: trace up to the panic header + value class"""
    u, lines = open_unit
    out = []
    val = None
    i = 0
    while i < len(lines):
        ln = lines[i]
        if PANIC_RE.match(ln) or ln.startswith("fatal error:"):
            # header = consecutive panic lines up to the first blank line / goroutine dump
            j = i
            while j < len(lines) and lines[j].strip() and not lines[j].startswith("goroutine ") and not lines[j].startswith("[signal"):
                m = PANIC_RE.match(lines[j])
                if m:
                    val = m.group(1)
                elif lines[j].startswith("fatal error:"):
                    val = lines[j]
                j += 1
            break
        out.append(ln)
        i += 1
    if val is None:
        return u, None
    return u, out + ["UNCAUGHT " + norm_panic_value(val)]


VALUE_LINE = re.compile(r"^(rec2? \d+|recov \d+|rh \d+|top\.rec|go\.rec \d+|hrec \d+|ri \d+) ")


def only_recovered_values_differ(ref, got):
    """classifier of finding C04-panic-value-not-gc-visible: same trace shape, differences only in lines that print a recovered value"""
    if len(ref) != len(got) or ref == got:
        return False
    for a, b in zip(ref, got):
        if a != b and not (VALUE_LINE.match(a) and VALUE_LINE.match(b) and a.split(" ")[0] == b.split(" ")[0]):
            return False
    return True


class Built:
    def __init__(self):
        self.res = {}     # name -> RunResult or None
        self.err = {}     # name -> build log


TOOLS = [("llgo", None), ("go124", core.GO124), ("go126", core.GO126)]


def build_run(w, llgo, d, src, which=("llgo", "go124", "go126"), timeout=120):
    core.write_module(d, {"main.go": src}, modname="c04p")
    b = Built()
    for name, go in TOOLS:
        if name not in which:
            continue
        out = os.path.join(d, name + ".bin")
        if name == "llgo":
            rc, so, se = core.llgo_build(w, llgo, d, out, extra_env={"GOMAXPROCS": "1"})
        else:
            rc, so, se = core.go_build(w, d, out, go=go, extra_env={"GOMAXPROCS": "1"})
        if rc != 0:
            b.res[name] = None
            b.err[name] = (so + se)[-4000:]
            continue
        b.res[name] = core.run_prog([out], timeout=timeout, interposer=(name == "llgo"))
        try:
            os.unlink(out)
        except OSError:
            pass
    return b


def term(r):
    return "%s rc=%s" % (r.kind, r.rc)


def compare(chk, tag, make_src, w, llgo, d, stats, unit_desc, attempts=4):
    """Builds/runs one program with the three toolchains; returns list of failures
    [(unit, why, ref_lines, got_lines)] and updates stats.  make_src(skip) -> source text.
    A crash of the llgo binary is blamed on the unit in flight; the program is re-run without that unit (<= 3 times)."""
    fails = []
    skip = []
    refs = None
    for attempt in range(attempts):
        src = make_src(tuple(skip))
        b = build_run(w, llgo, os.path.join(d, "a%d" % attempt), src, which=("llgo",) if refs else ("llgo", "go124", "go126"))
        if refs is None:
            for name in ("go124", "go126"):
                if b.res.get(name) is None:
                    stats["invalid_generated"] += 1
                    stats["invalid_log"] = (tag + " " + name + ": " + b.err.get(name, ""))[:1500]
                    return fails, src
            for name in ("go124", "go126"):
                r = b.res[name]
                if r.kind == "timeout":
                    chk.inconclusive += 1
                    return fails, src
            p124 = parse(b.res["go124"].err)
            p126 = parse(b.res["go126"].err)
            r124 = b.res["go124"]
            # go1.24.0's range-over-func/recover bug can kill the reference process itself (nil dereference while it
            # prints the panic): the units after that point would all be lost as disagreements.  Re-run go1.24.0 without
            # the unit it died in (that unit stays a disagreement), at most 3 times.
            skip124 = []
            while p124[2] is not None and (p126[2] is None or p124[2][0] != p126[2][0]) and len(skip124) < 3:
                skip124.append(p124[2][0])
                b2 = build_run(w, llgo, os.path.join(d, "g%d" % len(skip124)), make_src(tuple(skip124)), which=("go124",))
                if b2.res.get("go124") is None or b2.res["go124"].kind == "timeout":
                    break
                q = parse(b2.res["go124"].err)
                merged = dict(q[0])
                merged.update(p124[0])
                for u in skip124:
                    merged.pop(u, None)
                p124 = (merged, q[1], q[2], q[3], q[4])
                r124 = b2.res["go124"]
                stats["go124_reruns"] += 1
            refs = {}
            for u in p126[1]:
                if p124[0].get(u) == p126[0][u]:
                    refs[u] = p126[0][u]
                    # dual run: the monitor must be silent wherever the two references agree (go1.24.0 alone does trip
                    # it: its range-over-func/recover bug loses deferred calls; those units are disagreements)
                    mon = [l for l in refs[u] if "MONITOR:" in l]
                    if mon:
                        core.broken("the in-program monitor fired under both reference toolchains on %s unit %d (monitor unsound): %s" % (tag, u, mon[0]))
                else:
                    stats["reference_disagreement"] += 1
                    if any("MONITOR:" in l for l in p126[0][u]):
                        core.broken("the in-program monitor fired under go1.26.0 on %s unit %d (monitor unsound)" % (tag, u))
            # last unit may end in an escaping panic
            ref_unc = None
            if p126[2] is not None:
                u6, l6 = uncaught(p126[2])
                if p124[2] is not None and uncaught(p124[2]) == (u6, l6) and l6 is not None and \
                        (r124.kind, r124.rc) == (b.res["go126"].kind, b.res["go126"].rc):
                    ref_unc = (u6, l6, b.res["go126"].kind, b.res["go126"].rc)
                else:
                    stats["reference_disagreement"] += 1
            elif not p126[4] or b.res["go126"].rc != 0:
                core.broken("reference run of %s ended unexpectedly: %s\n%s" % (tag, term(b.res["go126"]), b.res["go126"].err[-800:]))
        r = b.res.get("llgo")
        if r is None:
            fails.append((-1, "compile-failure: llgo cannot build a program both reference toolchains accept:\n" + b.err.get("llgo", "")[-1500:], [], []))
            return fails, src
        if r.kind == "timeout":
            chk.inconclusive += 1
            return fails, src
        if "VERIF-MEMCPY-OVERLAP" in r.err:
            fails.append((-2, "overlapping memcpy reported by the interposer", [], [l for l in r.err.split("\n") if "VERIF-MEMCPY" in l][:3]))
        got, gorder, gopen, gtail, gdone = parse(r.err)
        for u in gorder:
            if u in skip or u not in refs or u in stats["_seen"].get(tag, ()):
                continue
            stats["_seen"].setdefault(tag, set()).add(u)
            stats["evaluations"] += 1
            stats["lines"] += len(refs[u])
            unit_desc(u, refs[u])
            if got[u] != refs[u]:
                fd = core.first_diff("\n".join(refs[u]), "\n".join(got[u]))
                mon = [l for l in got[u] if l.startswith("MONITOR:")]
                why = "trace differs at line %d: go `%s` vs llgo `%s`" % (fd[0] + 1, fd[1], fd[2])
                if mon:
                    why = mon[0] + "; " + why
                fails.append((u, why, refs[u], got[u]))
        if gopen is None and gdone and r.kind == "exit" and r.rc == 0:
            if ref_unc is not None and ref_unc[0] not in skip:
                fails.append((ref_unc[0], "go ends with an escaping panic (%s, rc=%s); llgo completed the program normally" % (ref_unc[1][-1], ref_unc[3]), ref_unc[1], got.get(ref_unc[0], [])))
                stats["evaluations"] += 1
            return fails, src
        # llgo did not complete: either the legitimate escaping panic of the last unit or a crash
        if gopen is not None:
            u, lines = uncaught(gopen)
            if ref_unc is not None and u == ref_unc[0]:
                stats["evaluations"] += 1
                stats["uncaught_compared"] += 1
                if lines != ref_unc[1] or (r.kind, r.rc) != (ref_unc[2], ref_unc[3]):
                    fd = core.first_diff("\n".join(ref_unc[1]), "\n".join(lines or gopen[1][-5:]))
                    fails.append((u, "escaping panic differs: go %s rc=%s, llgo %s; first difference: %s" % (ref_unc[2], ref_unc[3], term(r), fd), ref_unc[1], lines or gopen[1]))
                return fails, src
            # crash / hang inside unit u
            u = gopen[0]
            if u in refs or (ref_unc and u == ref_unc[0]):
                stats["evaluations"] += 1
                fails.append((u, "llgo program ended with %s inside this unit (go: unit completes); last lines: %s" % (term(r), " | ".join(gopen[1][-4:])),
                              refs.get(u, ref_unc[1] if ref_unc else []), gopen[1][-200:]))
            else:
                stats["crash_in_discarded_unit"] += 1
            skip.append(u)
            continue
        fails.append((-3, "llgo program ended with %s outside any unit; tail: %s" % (term(r), " | ".join(gtail[-4:])), [], gtail[-50:]))
        return fails, src
    return fails, src


def new_stats():
    return {"evaluations": 0, "lines": 0, "reference_disagreement": 0, "invalid_generated": 0, "uncaught_compared": 0,
            "crash_in_discarded_unit": 0, "go124_reruns": 0, "_seen": {}}


def violate(chk, name, files, summary):
    chk.violation(name, files, summary)
    try:
        os.chmod(os.path.join(chk.violations[-1]["replay"], "replay.sh"), 0o755)
    except OSError:
        pass


def main():
    chk = core.Check("C04")
    w = chk.work
    llgo = core.build_llgo(w)
    workers = int(os.environ.get("VERIF_C04_WORKERS", "4" if chk.tier == "quick" else "8"))
    nprog = int(os.environ.get("VERIF_C04_PROGS", "30" if chk.tier == "quick" else "800"))
    nfuncs = 20
    stats = new_stats()
    outcome = {}

    # ------------------------------------------------------------------ fixed probes first
    pstats = dict(stats, _seen={})
    pdesc = {}

    def punit(u, lines):
        pdesc[u] = lines
    fails, psrc = compare(chk, "probe", lambda skip: gen.probe_program(skip_units=skip), w, llgo, w.sub("probe"), pstats, punit)
    if pstats["invalid_generated"]:
        core.broken("reference toolchain rejects the probe battery:\n" + pstats.get("invalid_log", ""))
    failed_units = {}
    for (u, why, ref, got) in fails:
        failed_units[u] = (why, ref, got)
    avoid = []
    covered = set()
    for fid, construct, units in PROBE_FINDINGS:
        hit = [u for u in units if u in failed_units and is_known_bad(u, failed_units[u][0], failed_units[u][2])]
        covered.update(hit)
        if hit:
            if chk.is_open(fid):
                chk.known(fid, "")
                avoid.append(construct)
            else:
                u = hit[0]
                violate(chk, "probe-%d" % u, {"main.go": gen.probe_program(only_units=[u]), "go.mod": "module c04p\n\ngo 1.24\n",
                                                 "expected.txt": "\n".join(failed_units[u][1]), "got.txt": "\n".join(failed_units[u][2]),
                                                 "replay.sh": REPLAY_SH},
                              "probe unit %d (finding %s is not listed as open): %s" % (u, fid, failed_units[u][0]))
                avoid.append(construct)
    nprobe_viol = 0
    for u in sorted(failed_units):
        if u not in covered:
            nprobe_viol += 1
            if nprobe_viol > 8:
                continue
            why, ref, got = failed_units[u]
            src = gen.probe_program(only_units=[u]) if u >= 0 else psrc
            violate(chk, "probe-%d" % u, {"main.go": src, "go.mod": "module c04p\n\ngo 1.24\n", "expected.txt": "\n".join(ref), "got.txt": "\n".join(got),
                                             "replay.sh": REPLAY_SH},
                          "probe unit %d: %s" % (u, why))
    chk.cov["probe_units_failing_outside_findings"] = nprobe_viol
    chk.cov["probe_units_compared"] = pstats["evaluations"]
    chk.cov["probe_reference_disagreement_units"] = pstats["reference_disagreement"]
    chk.cov["avoided_constructs"] = avoid
    if pstats["evaluations"] < 30:
        if chk.violations:
            chk.cov["evaluations"] = pstats["evaluations"]
            chk.finish()
        core.broken("probe battery compared only %d units" % pstats["evaluations"])

    # ------------------------------------------------------------------ random programs
    feats = {}

    def job(idx):
        d = os.path.join(w.dir, "p%d" % idx)
        _, units, meta = gen.generate(chk.seed, idx, avoid, nfuncs)
        st = new_stats()
        umap = {u: (mode, fid, x) for (u, mode, fid, x) in units}
        sigs = []

        def desc(u, lines):
            mode, fid, x = umap[u]
            kinds = [l.split(" ")[0] for l in lines]
            oc = "res" if "top.res" in kinds else ("rec" if "top.rec" in kinds else "goexit")
            nd = sum(1 for k in kinds if k in ("d", "d2", "vm", "pm", "vd", "vs", "id", "dq", "recov", "bp") or k[:2] in ("cl", "ca", "li"))
            sigs.append((core.h(meta[fid]), mode, oc, min(nd, 40) // 4, "rec" in kinds or "rh" in kinds or "recov" in kinds, "goexit" in kinds))
        fails, src = compare(chk, "p%d" % idx, lambda skip: gen.generate(chk.seed, idx, avoid, nfuncs, skip_units=skip)[0], w, llgo, d, st, desc, attempts=2)
        shutil.rmtree(d, ignore_errors=True)
        return idx, fails, st, sigs, meta, umap

    nviol = 0
    suppressed = 0
    classified = 0
    results = core.pmap(job, list(range(nprog)), workers=workers)
    deferred_calls = 0
    for idx, fails, st, sigs, meta, umap in results:
        for k in ("evaluations", "lines", "reference_disagreement", "invalid_generated", "uncaught_compared", "crash_in_discarded_unit", "go124_reruns"):
            stats[k] += st[k]
        if st.get("invalid_log"):
            stats["invalid_log"] = st["invalid_log"]
        for s in sigs:
            chk.sig(s)
            outcome[s[2]] = outcome.get(s[2], 0) + 1
            deferred_calls += s[3] * 4
        for fid, sk in meta.items():
            for tok in re.findall(r"[A-Z][a-z]*\d?", sk):
                feats[tok] = feats.get(tok, 0) + 1
        byfunc = {}
        for (u, why, ref, got) in fails:
            key = umap[u][1] if u in umap else u
            byfunc.setdefault(key, []).append((u, why, ref, got))
        for key in sorted(byfunc, key=lambda k: (isinstance(k, int) and k < 0, k)):
            u, why, ref, got = byfunc[key][0]
            if u in umap and chk.is_open("C04-panic-value-not-gc-visible") and all(only_recovered_values_differ(r_, g_) for (_, _, r_, g_) in byfunc[key]):
                # second line of defence for the open finding C04-panic-value-not-gc-visible (run-time fault values cannot be
                # kept reachable by the program): the corruption needs a collection during unwinding, so it depends on the
                # heap history; suppressed only if the unit alone, in a fresh process, matches the references
                solo = gen.generate(chk.seed, idx, avoid, nfuncs, only_units=[u])[0]
                sb = build_run(w, llgo, w.sub("solo-p%d-u%d" % (idx, u)), solo, which=("llgo",))
                sr = sb.res.get("llgo")
                if sr is not None and parse(sr.err)[0].get(u) == ref:
                    chk.known("C04-panic-value-not-gc-visible", "")
                    classified += 1
                    continue
            if nviol >= 8:
                suppressed += 1
                continue
            nviol += 1
            if u in umap:
                mode, fid, x = umap[u]
                src = gen.generate(chk.seed, idx, avoid, nfuncs, only_units=[u])[0]
                title = "program %d unit %d = %s(f%d, %d) [%d failing units of this function; skeleton %s]: %s" % (idx, u, mode, fid, x, len(byfunc[key]), meta[fid][:160], why)
            else:
                src = gen.generate(chk.seed, idx, avoid, nfuncs)[0]
                title = "program %d: %s" % (idx, why)
            violate(chk, "p%d-u%d" % (idx, u), {"main.go": src, "go.mod": "module c04p\n\ngo 1.24\n", "expected.txt": "\n".join(ref) + "\n",
                                                   "got.txt": "\n".join(got) + "\n", "replay.sh": REPLAY_SH,
                                                   "GENERATOR.txt": "python3 %s/gen/c04_defers.py %d %d %s  (unit %s only in main)\n" % (core.V, chk.seed, idx, ",".join(avoid), u)},
                          title)
    if results:
        idx, fails, st, sigs, meta, umap = results[0]
        chk.sample({"program": 0, "function_skeletons": {("f%d" % k): v[:200] for k, v in list(meta.items())[:2]}, "units": len(umap)})
    if pdesc:
        chk.sample({"probe_unit": 20 if 200 in pdesc else sorted(pdesc)[0], "trace": pdesc.get(200, pdesc[sorted(pdesc)[0]])[:12]})
    if stats["invalid_generated"] > max(1, nprog // 50):
        core.broken("%d of %d generated programs rejected by a reference toolchain:\n%s" % (stats["invalid_generated"], nprog, stats.get("invalid_log", "")))
    chk.cov["evaluations"] = stats["evaluations"] + pstats["evaluations"]
    chk.cov["programs"] = nprog
    chk.cov["functions_per_program"] = nfuncs
    chk.cov["trace_lines_compared"] = stats["lines"]
    chk.cov["deferred_calls_observed_approx"] = deferred_calls
    chk.cov["reference_disagreement"] = stats["reference_disagreement"]
    chk.cov["invalid_generated"] = stats["invalid_generated"]
    chk.cov["go124_reference_reruns_after_its_own_crash"] = stats["go124_reruns"]
    chk.cov["uncaught_panic_terminations_compared"] = stats["uncaught_compared"]
    chk.cov["unit_outcomes"] = outcome
    chk.cov["construct_counts"] = dict(sorted(feats.items()))
    chk.cov["violations_suppressed_after_first_8"] = suppressed
    chk.cov["failing_units_classified_as_gc_finding"] = classified
    chk.cov["rule"] = ("each unit = one call of a generated function (20 per program, 6 inputs each, 2 of them in a fresh goroutine with Goexit / one nil "
                       "dereference enabled, plus one final unit without a top-level recover); llgo (-O0, built from the working tree) vs go1.24.0 AND "
                       "go1.26.0: units on which the two references differ are discarded (reference_disagreement); a unit fails if its println trace "
                       "(deferred calls with the arguments they received, named results, recovered values by class) differs from the references, if the "
                       "in-program shadow stack prints MONITOR: (LIFO, exactly once, arguments as at the defer statement; silent under both references = "
                       "dual run), or if the program terminates differently. distinct = (function skeleton, call mode, outcome, #deferred calls bucket, recovered?, goexit?)")
    chk.assumptions += [
        "at most 40 defer statements per function literal; the compiler limit is 64 conditional defers per function (ssa/eh.go Defer: `too many conditional defers` when nextBit >= 64), never approached",
        "-O0 only; linux/amd64 only; goroutine = pthread",
        "nil dereference faults at most once per goroutine and never on the main thread (second recovered SIGSEGV in one thread is property C03's finding)",
        "panic message texts are reduced to classes; values compared exactly for int/string/error-struct panic values",
        "constructs of open findings are exercised by the fixed probe battery only while their probe fails: " + (", ".join(avoid) if avoid else "none avoided in this run"),
    ]
    chk.finish(floor_eval=(nprog * 60 + 30) if nprog >= 5 else 30, floor_distinct=min(200, nprog * 15) if nprog >= 5 else 2)


REPLAY_SH = "#!/bin/sh\n# builds main.go with llgo (-O0, from $VERIF_REPO or /repo), go1.24.0 and go1.26.0 and compares the unit traces\nexec python3 %s/gen/c04_replay.py \"$(dirname \"$0\")\"\n" % core.V

if __name__ == "__main__":
    main()

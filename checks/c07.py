"""C07: dynamic type identity and interface satisfaction coincide with Go's rules.

leg (a)  E2, ssa/abi:  types.Identical(T,U) <=> Builder.TypeName(T)==TypeName(U) on generated go/types pairs
leg (b)  E1: generated multi-package programs print the matrices of x.(T) ok-bits, type-switch arms,
         interface ==, map[any] hits, reflect.Type ==, and the (concrete type, interface) table with the ids
         returned through the interface and by direct calls; llgo output vs go output, line by line.
"""
import os, sys, shutil, time
sys.path.insert(0, os.path.join(os.path.dirname(os.path.abspath(__file__)), "..", "rig"))
sys.path.insert(0, os.path.join(os.path.dirname(os.path.abspath(__file__)), "..", "gen"))
import core, inpkg
import c07_progs

chk = core.Check("C07")
chk.assumptions = [
    "go/types' Identical is the statement of Go's type identity (leg a); the reference toolchain go1.24.0 is the statement of run-time behaviour (leg b)",
    "all executions at -O0, amd64; one fresh llgo cache per run (a descriptor name that depended on which packages came from the cache would not be seen)",
    "type grammar depth <= 4 (leg a), <= 3 (leg b); values are zero values, so == / map results depend on the dynamic type only",
]
THOROUGH = chk.tier == "thorough"
WORKERS = 8
LEGS = os.environ.get("VERIF_C07_LEGS", "ab")  # debugging / mutant attribution only: run one leg

# constructs left to the fixed probes while the corresponding finding is open ("probe + avoid")
AVOID = [w for w, fid in (("tags", "C07-structtag"), ("targs", "C07-typearg-rendering"), ("emb", "C07-embedded-name"),
                          ("mixed", "C07-iface-mixed-pkgs"), ("genclosure", "C07-generic-local-closure"),
                          ("unexpdup", "C07-unexported-method-symbol"))
         if chk.is_open(fid) and fid not in os.environ.get("VERIF_C07_ASSUME_FIXED", "").split(",")]
# VERIF_C07_ASSUME_FIXED (validation of a proposed fix in a scratch worktree only): generate the constructs of these
# findings again although findings/C07.json still lists them as open.
chk.cov["avoided_constructs"] = AVOID

# ---------------------------------------------------------------- leg (a)
inj = {"ssa/abi/zz_verif_c07_test.go": os.path.join(core.V, "inpkg", "c07_identity_test.go")}
env = {"VERIF_C07_AVOID": ",".join(AVOID)}
for rx, label in (("^TestVerifC07Probes$", "a_probes"), ("^TestVerifC07Identity$", "a_identity")):
    if "a" not in LEGS:
        break
    rc, out, rep, races, _ = inpkg.run_inpkg(chk, inj, "./ssa/abi", rx, extra_env=env)
    inpkg.absorb(chk, rep, out, rc, label)
if "b" not in LEGS:
    chk.cov["legs"] = LEGS
    chk.finish(floor_eval=20000, floor_distinct=200)

# ---------------------------------------------------------------- leg (b)
llgo = core.build_llgo(chk.work)
REPLAY_SH = "#!/bin/bash\nexec python3 %s \"$(dirname \"$0\")/src\"\n" % os.path.join(core.V, "rig", "replay_diff.py")
stats = {"programs": 0, "invalid_generated": 0, "lines_compared": 0, "compile_failures": 0, "b_evaluations": 0,
         "iface_pairs": 0, "iface_pairs_satisfied": 0, "method_calls_through_iface": 0, "expected_identical_pairs": 0,
         "model_disagreements": 0}


def build_run(name, files=None, srcdir=None):
    """Builds with go and llgo, runs both. Returns dict(kind=invalid|compile-failure|ran, ...)."""
    d = chk.work.sub("b", name)
    if srcdir:
        shutil.rmtree(d)
        shutil.copytree(srcdir, d)
    else:
        core.write_module(d, files)
    rc2, so2, se2 = core.go_build(chk.work, d, os.path.join(d, "p_go.bin"))
    if rc2 != 0:
        return {"kind": "invalid", "msg": (so2 + se2)[-2000:], "dir": d}
    rc, so, se = core.llgo_build(chk.work, llgo, d, os.path.join(d, "p_llgo.bin"))
    if rc != 0:
        return {"kind": "compile-failure", "msg": (so + se)[-3000:], "dir": d}
    a = core.run_prog([os.path.join(d, "p_go.bin")], timeout=120)
    b = core.run_prog([os.path.join(d, "p_llgo.bin")], timeout=300, interposer=True)
    return {"kind": "ran", "go": a, "llgo": b, "dir": d}


def src_files(d):
    out = {}
    for root, _, fns in os.walk(d):
        for fn in sorted(fns):
            if fn.endswith(".go") or fn == "go.mod":
                p = os.path.join(root, fn)
                out["src/" + os.path.relpath(p, d)] = open(p).read()
    return out


def text(r):
    return r.out + r.err


def report(name, res, summary, extra=None):
    files = src_files(res["dir"])
    files["replay.sh"] = REPLAY_SH
    if res["kind"] == "ran":
        files["go.out"] = text(res["go"])
        files["llgo.out"] = text(res["llgo"])
    else:
        files["build.log"] = res.get("msg", "")
    if extra:
        files.update(extra)
    chk.violation(name, files, summary)
    try:
        os.chmod(os.path.join(core.V, "replays", "%s-%s-s%d-%s" % (chk.pid, chk.tier, chk.seed, name), "replay.sh"), 0o755)
    except OSError:
        pass


def ended(res):
    """None if both runs exited normally and printed END; else who did not"""
    a, b = res["go"], res["llgo"]
    if a.kind != "exit" or a.rc != 0 or "END" not in text(a):
        return "reference"
    if b.kind == "timeout":
        return "timeout"
    if b.kind != "exit" or b.rc != 0 or "END" not in text(b):
        return "llgo"
    return None


# ---- (b0) fixed probe program, first
def probe():
    res = build_run("probe", srcdir=os.path.join(core.V, "progs", "c07_probe"))
    stats["programs"] += 1
    if res["kind"] != "ran":
        if res["kind"] == "invalid":
            core.broken("C07: the reference toolchain rejects progs/c07_probe:\n" + res["msg"])
        report("probe-compile", res, "llgo cannot build the fixed probe program progs/c07_probe:\n" + res["msg"][-1500:])
        return
    e = ended(res)
    if e == "reference":
        core.broken("C07: probe program misbehaves under go: %s" % text(res["go"])[-500:])
    if e == "timeout":
        chk.inconclusive += 1
        return
    if e == "llgo":
        report("probe-crash", res, "fixed probe program: llgo binary ended with %s rc=%s\n%s" % (res["llgo"].kind, res["llgo"].rc, text(res["llgo"])[-800:]))
        return
    ga = [l for l in text(res["go"]).split("\n") if l.startswith("P ")]
    la = [l for l in text(res["llgo"]).split("\n") if l.startswith("P ")]
    if len(ga) != len(la):
        report("probe-lines", res, "fixed probe program: %d lines under go, %d under llgo" % (len(ga), len(la)))
        return
    open_classes = {}
    for f in chk.open_findings():
        for c in f.get("classes", []):
            open_classes[c] = f
    for x, y in zip(ga, la):
        stats["lines_compared"] += 1
        stats["b_evaluations"] += 1
        cls = x.split()[1]
        chk.sig("probe|" + x.split()[2])
        if x == y:
            continue
        f = open_classes.get(cls)
        if f is not None and x.split()[:3] == y.split()[:3]:
            chk.known(f["id"], f["what"])
        else:
            report("probe-" + core.h(x), res, "fixed probe line differs (class %s):\n  go:   %s\n  llgo: %s" % (cls, x, y))


probe()

# ---- (b1..b3) generated programs
N_ID, N_IF, N_RF = (100, 40, 10) if THOROUGH else (4, 2, 1)
# reflect programs build slowest: start them first
jobs = [("rf", i) for i in range(N_RF)] + [("id", i) for i in range(N_ID)] + [("if", i) for i in range(N_IF)]


def gen(kind, i):
    if kind == "id":
        return c07_progs.gen_identity(chk.seed, i, AVOID)
    if kind == "rf":
        return c07_progs.gen_identity(chk.seed, i, AVOID, reflect=True, families=4)
    return c07_progs.gen_iface(chk.seed, i, AVOID)


def work(job):
    kind, i = job
    t0 = time.time()
    p = gen(kind, i)
    res = build_run("%s%03d" % (kind, i), files=p["files"])
    res["wall"] = round(time.time() - t0, 1)  # evidence only
    for fn in ("p_go.bin", "p_llgo.bin"):  # binaries are large; keep sources and outputs only
        try:
            os.remove(os.path.join(res["dir"], fn))
        except OSError:
            pass
    return job, p, res


def cells(lines, prefix):
    out = {}
    for l in lines:
        if l.startswith(prefix + " "):
            f = l.split()
            out[int(f[1])] = f[2:] if len(f) > 3 else (f[2] if len(f) > 2 else "")
    return out


def diff_identity(name, p, res, reflect):
    g, l = text(res["go"]).split("\n"), text(res["llgo"]).split("\n")
    lab = p["labels"]
    msgs = []
    legs = ((("R", "reflect.TypeOf(a)==reflect.TypeOf(b)"), ("L", "reflect.TypeOf(a).Elem()==reflect.TypeOf(b)")) if reflect else
            (("A", "x.(T) ok"), ("S", "type switch arm in (pa,pb,pc)"), ("E", "a==b as interfaces (2 = panic)"), ("M", "map[any] first equal key")))
    for prefix, what in legs:
        cg, cl = cells(g, prefix), cells(l, prefix)
        for i in sorted(cg):
            x, y = cg[i], cl.get(i)
            if x == y:
                continue
            if isinstance(x, str) and isinstance(y, str) and len(x) == len(y) and len(x) == p["nvals"]:
                for j in range(len(x)):
                    if x[j] != y[j] and len(msgs) < 6:
                        msgs.append("%s: go=%s llgo=%s\n    value/left : #%d %s\n    type/right : #%d %s" % (what, x[j], y[j], i, lab[i], j, lab[j]))
            elif len(msgs) < 6:
                msgs.append("%s: go=%s llgo=%s\n    value: #%d %s" % (what, x, y, i, lab[i]))
    if not msgs:
        fd = core.first_diff(text(res["go"]), text(res["llgo"]))
        msgs.append("outputs differ at line %d:\n  go:   %s\n  llgo: %s" % (fd[0] + 1, fd[1][:300], fd[2][:300]))
    report(name, res, "generated program %s: run-time type identity differs from Go\n" % name + "\n".join(msgs),
           {"labels.txt": "\n".join("%d %s" % (i, s) for i, s in enumerate(lab)) + "\n"})


def check_iface_consistency(name, p, res, which):
    """ids through the interface == ids of direct calls, inside ONE output (in-program law, also under go)."""
    lines = text(res[which]).split("\n")
    direct = {}
    for l in lines:
        if l.startswith("D "):
            f = l.split()
            direct[(f[1], f[2], f[3])] = f[4]
    cur = None
    curname = ""
    bad = []
    for l in lines:
        if l.startswith("C "):
            f = l.split()
            cur = (f[1].replace("[string]", ""), f[2])
            curname = l[2:]
        elif l.startswith(" ") and " + " in l and cur:
            f = l.split()
            iface = f[0]
            if which == "go":
                stats["iface_pairs_satisfied"] += 1
            for tok in f[2:]:
                if "=" in tok:
                    mn, mid = tok.split("=")
                    if which == "go":
                        stats["method_calls_through_iface"] += 1
                    d = direct.get((cur[0], cur[1], mn))
                    if d is not None and d != mid:
                        bad.append("%s via %s: method %s returns id %s through the interface, %s by direct call" % (curname, iface, mn, mid, d))
            if which == "go":
                key = "%s|%s" % (curname, iface)
                if key in p["expect"] and not p["expect"][key]:
                    stats["model_disagreements"] += 1
        elif l.startswith(" ") and l.rstrip().endswith(" -") and cur and which == "go":
            key = "%s|%s" % (curname, l.split()[0])
            if key in p["expect"] and p["expect"][key]:
                stats["model_disagreements"] += 1
    return bad


walls = {}
results = core.pmap(work, jobs, workers=WORKERS)
for (kind, i), p, res in results:
    name = "%s%03d" % (kind, i)
    stats["programs"] += 1
    walls.setdefault(kind, []).append(res.get("wall", 0))
    if res["kind"] == "invalid":
        stats["invalid_generated"] += 1
        print("C07: generator produced a program go rejects (%s): %s" % (name, res["msg"][-400:].replace("\n", " | ")), flush=True)
        continue
    if res["kind"] == "compile-failure":
        stats["compile_failures"] += 1
        report(name + "-compile", res, "llgo fails to build a program that go accepts (%s):\n%s" % (name, res["msg"][-1500:]))
        continue
    e = ended(res)
    if e == "reference":
        stats["invalid_generated"] += 1
        print("C07: generated program misbehaves under go (%s): %s" % (name, text(res["go"])[-300:]), flush=True)
        continue
    if e == "timeout":
        chk.inconclusive += 1
        continue
    if e == "llgo":
        report(name + "-crash", res, "generated program %s: llgo binary ended with %s rc=%s (go: normal exit)\n%s" % (
            name, res["llgo"].kind, res["llgo"].rc, text(res["llgo"])[-800:]))
        continue
    tg, tl = text(res["go"]), text(res["llgo"])
    stats["lines_compared"] += tg.count("\n")
    for s in p["sigs"]:
        chk.sig(kind + "|" + s)
    if kind in ("id", "rf"):
        n = p["nvals"]
        stats["b_evaluations"] += (2 * n * n + 4 * n) if kind == "id" else (n * n + sum(1 for l in tg.split("\n") if l.startswith("L ")) * n)
        stats["expected_identical_pairs"] += p["expected_identical_pairs"]
        if tg != tl:
            diff_identity(name, p, res, kind == "rf")
        if len(chk.cov["samples"]) < 2 and kind == "id":
            a_line = [l for l in tg.split("\n") if l.startswith("A 0 ")]
            chk.sample({"program": name, "values": n, "value_0": p["labels"][0], "assert_row_0_go": a_line[0] if a_line else "",
                        "same_under_llgo": tg == tl})
    else:
        stats["iface_pairs"] += p["nvals"] * p["nifaces"]
        stats["b_evaluations"] += p["nvals"] * p["nifaces"] + sum(1 for l in tg.split("\n") if l.startswith("D "))
        bad = []
        for which in ("go", "llgo"):
            b = check_iface_consistency(name, p, res, which)
            if b and which == "go":
                core.broken("C07: in-program law (iface id == direct id) fails under the reference toolchain: %s" % b[:2])
            bad += b
        if tg != tl:
            fd = core.first_diff(tg, tl)
            ctx = ""
            ls = tg.split("\n")
            for k in range(min(fd[0], len(ls) - 1), -1, -1):
                if ls[k].startswith("C "):
                    ctx = ls[k]
                    break
            report(name, res, "generated program %s: interface satisfaction / dispatch differs from Go at line %d (value %s)\n  go:   %s\n  llgo: %s\n%s" % (
                name, fd[0] + 1, ctx, fd[1][:300], fd[2][:300], "\n".join(bad[:4])))
        elif bad:
            report(name, res, "generated program %s: a method reached through an interface is not the one a direct call reaches\n%s" % (name, "\n".join(bad[:6])))
        if len(chk.cov["samples"]) < 3:
            sat = [l for l in tg.split("\n") if " + " in l][:2]
            chk.sample({"program": name, "concrete_values": p["nvals"], "interfaces": p["nifaces"], "first_satisfied_lines_go": sat, "same_under_llgo": tg == tl})

chk.cov["b_build_and_run_wall_s"] = {k: [min(v), max(v)] for k, v in walls.items()}
chk.cov["evaluations"] += stats["b_evaluations"]
for k, v in stats.items():
    chk.cov[k if k.startswith("b_") else "b_" + k] = v
chk.cov["rule"] += (" | leg b: %d generated programs (identity matrix: x.(T), type switch, ==, map[any]; reflect.Type == incl. Elem(); "
                    "(concrete, interface) table with ids through the interface vs direct calls) + fixed probe program; llgo -O0 vs go1.24.0, line by line"
                    % (stats["programs"] - 1))
if stats["model_disagreements"]:
    core.broken("C07: the generator's own method-set model disagrees with go in %d (type, interface) pairs" % stats["model_disagreements"])
ngen = len(jobs)
if stats["invalid_generated"] > max(1, ngen // 50) or (not THOROUGH and stats["invalid_generated"] > 0):
    core.broken("C07: %d of %d generated programs are rejected by / misbehave under the reference toolchain" % (stats["invalid_generated"], ngen))
if chk.inconclusive > ngen // 4:
    core.broken("C07: %d of %d programs inconclusive" % (chk.inconclusive, ngen))
if LEGS != "ab":
    chk.cov["legs"] = LEGS
chk.finish(floor_eval=30000, floor_distinct=200)

"""C07: dynamic type identity and interface satisfaction coincide with Go's rules."""
import os, sys
sys.path.insert(0, os.path.join(os.path.dirname(os.path.abspath(__file__)), "..", "rig"))
import core, inpkg

chk = core.Check("C07")
inj = {"ssa/abi/zz_verif_c07_test.go": os.path.join(core.V, "inpkg", "c07_identity_test.go")}
avoid = [w for w, fid in (("tags", "C07-structtag"), ("targs", "C07-typearg-rendering"), ("emb", "C07-embedded-name"), ("mixed", "C07-iface-mixed-pkgs")) if chk.is_open(fid)]
env = {"VERIF_C07_AVOID": ",".join(avoid)}
for rx, label in (("^TestVerifC07Probes$", "probes"), ("^TestVerifC07Identity$", "identity")):
    rc, out, rep, races, _ = inpkg.run_inpkg(chk, inj, "./ssa/abi", rx, extra_env=env)
    inpkg.absorb(chk, rep, out, rc, label)
chk.finish(floor_eval=1000, floor_distinct=50)

"""C20: SDK archive extraction stays inside its destination and preserves contents (E2, internal/crosscompile, -race)."""
import os, re, sys
sys.path.insert(0, os.path.join(os.path.dirname(os.path.abspath(__file__)), "..", "rig"))
import core, inpkg

chk = core.Check("C20", level="fault_enumeration")
chk.assumptions = [
    "archives are produced by archive/tar, archive/zip, compress/gzip and the installed xz; GNU tar 1.34 is the extractor behind extractTarXz and is part of what is observed",
    "an absolute entry name that the extractor re-roots below dest (filepath.Join, GNU tar's leading-/ stripping) does not escape, so no error is demanded for it; names with '..' that stay inside (a/../b) are not counted as well-formed",
    "for duplicate entries either archived version of the file is accepted, a mixture of the two is not",
    "a request 'leaves a complete copy' when the destination is complete at the moment it returns success and at the end; a request may fail only if a faulty response was served",
    "timing (stalls, waits on /proc/locks) only steers which interleavings are exposed; no verdict reads a clock",
]
inj = {"internal/crosscompile/zz_verif_c20_test.go": os.path.join(core.V, "inpkg", "c20_extract_test.go")}
extra = {}
for k in ("VERIF_C20_ONLY", "VERIF_C20_WORKERS", "VERIF_C20_STAGES", "VERIF_C20_NOAVOID", "VERIF_C20_TIMING"):
    if os.environ.get(k):
        extra[k] = os.environ[k]
thorough = chk.tier == "thorough"


def monitor_trouble(rep):
    """failures of the monitor's own plumbing (cannot create its layout, cannot build an archive) are not verdicts"""
    bad = [f for f in (rep or {}).get("failures") or [] if f.get("class", "").startswith("monitor:")]
    if bad:
        core.broken("C20: monitor could not set up a case: %s %s" % (bad[0].get("class"), bad[0].get("summary", "")[:500]))


# Part 1 (fixed probes = complete class x format x content matrix first, then random archives); no -race:
# the extract functions are sequential and the race runtime makes archive building ~30x slower.
rc, out, rep, _, _ = inpkg.run_inpkg(chk, inj, "./internal/crosscompile", "^TestVerifC20Extract$", race=False,
                                     timeout=2700 if thorough else 900, extra_env=extra)
monitor_trouble(rep)
inpkg.absorb(chk, rep, out, rc, "extract")

# Part 2: lock hand-over probe + concurrent requests, under the race detector.
if not os.environ.get("VERIF_C20_ONLY"):
    rc, out, rep, races, race_text = inpkg.run_inpkg(chk, inj, "./internal/crosscompile", "^TestVerifC20Conc$", race=True,
                                                     timeout=2700 if thorough else 900, extra_env=extra)
    # the race detector makes the test binary exit 66 even when the monitor recorded nothing; races are judged below
    if rep is not None and rc != 0 and not rep.get("failures") and races > 0:
        rc = 0
    monitor_trouble(rep)
    inpkg.absorb(chk, rep, out, rc, "conc")
    # a report with a frame in a non-test source file of internal/crosscompile is a violation
    chk.cov["race_reports"] = races
    if races:
        reports = [r for r in race_text.split("==================") if "WARNING: DATA RACE" in r]
        mine, theirs = [], []
        for r in reports:
            frames = re.findall(r"^\s+(/\S+\.go):\d+", r, re.M)
            inrepo = [f for f in frames if "/internal/crosscompile/" in f and not f.endswith("_test.go")]
            (theirs if inrepo else mine).append(r)
        for i, r in enumerate(theirs[:4]):
            chk.violation("race-%d" % i, {"race.txt": r}, "[race:crosscompile] Go race detector: DATA RACE with a frame inside internal/crosscompile\n" + r[:1200])
        if mine and not theirs:
            core.broken("C20: the race detector reported a race that has no frame in internal/crosscompile sources (monitor bug):\n" + mine[0][:3000])
if os.environ.get("VERIF_C20_ONLY") or os.environ.get("VERIF_C20_STAGES"):
    chk.finish(floor_eval=1, floor_distinct=1)  # single-case replay / debugging run
chk.finish(floor_eval=900, floor_distinct=300)

"""C17: command lines, flags and directives are split and re-assembled without loss; build tags are evaluated as
the go tool does; $VAR / $(command) / {key} expansion substitutes exactly the referenced values.

Engine E2: one Go monitor per anchored package, injected with `go test -overlay`, run on the real functions.
The monitors run their fixed probes first (probe + avoid, DESIGN 3.5): a probe that still fails is reported under
its narrow class (=> KNOWN-FINDING while the finding is open, VIOLATION once it is marked fixed) and switches the
random generator of that monitor away from exactly that construct; a probe that passes switches the construct on.
"""
import os, sys
sys.path.insert(0, os.path.join(os.path.dirname(os.path.abspath(__file__)), "..", "rig"))
import core, inpkg

chk = core.Check("C17", level="exploration")
chk.assumptions = [
    "the quoters are written in the monitors from each parser's documented grammar (there is no quoting function in the repository); the exact domain is in coverage.rule",
    "references: go/build/constraint Parse+Eval over go/build.Default's tag truth (build tags), a single-pass left-to-right substitution (expansions), plain list concatenation (flag merging)",
    "fake pkg-config / llvm-config are symlinks to the test binary placed first on PATH inside the run's work dir; they print a table entry selected by their exact argv",
]

I = lambda name: os.path.join(core.V, "inpkg", name)
LEGS = [
    # label, package, injected file, test regex
    ("shellparse", "./internal/shellparse", "c17_shellparse_test.go", "^TestVerifC17Shellparse$"),
    ("safesplit", "./xtool/safesplit", "c17_safesplit_test.go", "^TestVerifC17Safesplit$"),
    ("buildtags", "./internal/buildtags", "c17_buildtags_test.go", "^TestVerifC17Buildtags$"),
    ("ienv", "./internal/env", "c17_ienv_test.go", "^TestVerifC17IEnv$"),
    ("xenv", "./xtool/env", "c17_xenv_test.go", "^TestVerifC17XEnv$"),
    ("clang", "./internal/clang", "c17_clang_test.go", "^TestVerifC17Clang$"),
    ("xflag", "./internal/build", "c17_build_test.go", "^TestVerifC17XFlag$"),
]
only = [x for x in os.environ.get("VERIF_C17_LEGS", "").split(",") if x]

core.protect_gomod(chk.work)


def run(leg):
    label, pkg, src, rx = leg
    inj = {os.path.join(pkg[2:], "zz_verif_" + src): I(src)}
    return leg, inpkg.run_inpkg(chk, inj, pkg, rx, timeout=3000)


legs = [l for l in LEGS if not only or l[0] in only]
# internal/build links LLVM (tens of seconds): overlap it with the light legs, which run as two sequential
# groups (the two packages called `env` share the name of the generated helper file and stay in one group).
groups = [[l for l in legs if l[0] == "xflag"],
          [l for l in legs if l[0] in ("shellparse", "safesplit", "buildtags")],
          [l for l in legs if l[0] in ("ienv", "xenv", "clang")]]
results = core.pmap(lambda grp: [run(l) for l in grp], [g for g in groups if g], workers=3)
for grp in results:
    for leg, (rc, out, rep, races, _) in grp:
        inpkg.absorb(chk, rep, out, rc, leg[0])
chk.cov["legs"] = [l[0] for l in legs]
if only:
    chk.finish(floor_eval=1, floor_distinct=1)
chk.finish(floor_eval=100000, floor_distinct=2000)

"""C06: maps behave as finite maps under every operation history and key type (E1).

One fixed generic map VM (progs/c06_mapvm, 10 key types x 5 value types) is compiled once per run
by llgo built from the working tree (-O0; a second `-tags nogc` build gives a tight malloc heap for a
sub-sample) and by the reference go toolchain.  Every history (spec) is executed by both binaries:
  * in-program monitor: sorted-slice shadow map checks every lookup/len/dump result, per-loop records
    check the range laws (present-throughout => produced, produced => live, no ENTRY twice, bounded
    number of yields); a disagreement prints `MONITOR:`;
  * the spec-determined output (checkpoint hashes, recovered panic classes, final hash/len) is
    compared with the go run; `MONITOR:` under go means the oracle itself is wrong (exit 2);
  * crash / `fatal error` / deadlock / runaway of the llgo VM where go finishes is a violation.
`python3 checks/c06.py --replay <dir>` re-runs a recorded case."""
import os
import re
import shutil
import sys

sys.path.insert(0, os.path.join(os.path.dirname(os.path.abspath(__file__)), "..", "rig"))
sys.path.insert(0, os.path.join(os.path.dirname(os.path.abspath(__file__)), "..", "gen"))
import core
import c06_hist as gen

SRC = os.path.join(core.V, "progs", "c06_mapvm")
CHK = None


def broken(msg):
    """oracle / reference problem: not a verdict about llgo"""
    if CHK is not None and not os.environ.get("VERIF_KEEP_WORK"):
        CHK.work.close()
    core.broken(msg)

WORKERS = max(2, min(8, core.NCPU // 2))          # quick: the machine is shared
WORKERS_THOROUGH = max(2, min(14, core.NCPU - 2))  # each job is two single-threaded processes run one after the other
IGNORED = ("STAT ", "MONITOR:", "T ")


# ----------------------------------------------------------------- output parsing

def parse_out(err):
    """{spec: {"lines": [...compared lines...], "monitor": [...], "stat": {..}, "end": text or None}}, order"""
    blocks, order, cur = {}, [], None
    for ln in err.split("\n"):
        if ln.startswith("BEGIN "):
            cur = {"lines": [], "monitor": [], "stat": {}, "end": None, "extra": []}
            blocks[ln[6:].strip()] = cur
            order.append(ln[6:].strip())
            continue
        if ln.startswith("STAT "):
            p = ln.split(" ")
            b = blocks.get(p[1])
            if b is not None:
                for kv in p[2:]:
                    if "=" in kv:
                        k, v = kv.split("=", 1)
                        b["stat"][k] = v
            continue
        if cur is None or not ln:
            continue
        if ln.startswith("MONITOR:"):
            cur["monitor"].append(ln)
        elif ln.startswith("T "):
            pass
        else:
            if cur["end"] is None:
                cur["lines"].append(ln)
            else:
                cur["extra"].append(ln)
            if ln.startswith("END "):
                cur["end"] = ln
    return blocks, order


def run_vm(binary, specs, timeout, interposer=False, trace=False):
    env = dict(os.environ)
    env.pop("C06_TRACE", None)
    if trace:
        env["C06_TRACE"] = "1"
    return core.run_prog([binary] + list(specs), env=env, timeout=timeout, interposer=interposer, max_out=256 << 20)


def first_monitor_op(mon):
    m = re.search(r" op (\d+) ", mon + " ")
    return int(m.group(1)) if m else None


# ----------------------------------------------------------------- judging one spec

def judge(spec, gb, lb, lres, whole_err):
    """compare the llgo block with the go block of one spec. Returns None (held) or (class, summary)."""
    if lb is None:
        return ("not-run", "llgo VM never reached this history (process ended earlier: %s rc=%s)" % (lres.kind, lres.rc))
    if lb["monitor"]:
        cls = "monitor"
        m0 = lb["monitor"][0]
        if "runaway" in m0 or any("runaway" in m for m in lb["monitor"]):
            cls = "runaway"
        return (cls, "in-program monitor fired under llgo (silent under go):\n" + "\n".join(lb["monitor"][:6]))
    if lb["end"] is None:
        tail = "\n".join(lb["lines"][-6:])
        if lres.kind == "deadlock":
            return ("deadlock", "llgo VM is quiescent (all threads asleep) in the middle of the history; go finished. last lines:\n" + tail)
        if lres.kind == "timeout":
            return ("timeout", "llgo VM still running at the watchdog; last lines:\n" + tail)
        return ("died", "llgo VM ended with %s rc=%s in the middle of the history; go finished. last lines:\n%s" % (lres.kind, lres.rc, tail))
    if lb["lines"] != gb["lines"]:
        fd = core.first_diff("\n".join(gb["lines"]), "\n".join(lb["lines"]))
        return ("diff", "spec-determined output differs from the go run at line %d:\n  go:   %s\n  llgo: %s" % (fd[0] + 1, fd[1], fd[2]))
    if lb["extra"]:
        return ("extra-output", "unexpected output after END: " + " | ".join(lb["extra"][:4]))
    return None


def go_block_ok(spec, gb, gres):
    if gb is None or gb["end"] is None:
        return "reference run did not finish history %s (%s rc=%s)" % (spec, gres.kind, gres.rc)
    if gb["monitor"]:
        return "MONITOR fired under the reference go build for %s - the oracle is wrong:\n%s" % (spec, "\n".join(gb["monitor"][:5]))
    if " bad 0" not in gb["end"]:
        return "reference run reports bad != 0 for %s: %s" % (spec, gb["end"])
    return None


class Runner:
    def __init__(self, chk, bins):
        self.chk = chk
        self.bins = bins  # {"go":..., "llgo":..., "nogc":... (optional), "go126": optional}

    def run_batch(self, specs, leg="llgo"):
        """-> list of (spec, verdict or None, info) ; raises SystemExit via core.broken on oracle problems"""
        g = run_vm(self.bins["go"], specs, timeout=1800)
        gblocks, _ = parse_out(g.err)
        for s in specs:
            bad = go_block_ok(s, gblocks.get(s), g)
            if bad:
                return [("__oracle__", bad, None)]
        tmo = max(60.0, 50.0 * g.wall)
        l = run_vm(self.bins[leg], specs, timeout=tmo, interposer=True)
        lblocks, _ = parse_out(l.err)
        out = []
        anomalies = ("fatal error" in l.err) or ("VERIF-MEMCPY-OVERLAP" in l.err) or l.kind != "exit" or l.rc != 0 or l.out.strip() != ""
        for s in specs:
            v = judge(s, gblocks[s], lblocks.get(s), l, l.err)
            out.append([s, v, {"go": gblocks[s], "llgo": lblocks.get(s), "gwall": g.wall, "lwall": l.wall, "leg": leg}])
        if anomalies and all(v is None for _, v, _ in out):
            # something odd at process level that no block explains
            what = "fatal error text" if "fatal error" in l.err else ("memcpy overlap" if "VERIF-MEMCPY-OVERLAP" in l.err else "termination %s rc=%s stdout=%r" % (l.kind, l.rc, l.out[:80]))
            out[-1][1] = ("process", "llgo VM process anomaly (%s) although every history block matches; stderr tail:\n%s" % (what, l.err[-1500:]))
        if "fatal error" in l.err:
            for o in out:
                if o[1] is not None and o[1][0] != "not-run":
                    o[1] = (o[1][0] + "+fatal", o[1][1] + "\n(runtime printed `fatal error:` and kept running: " +
                            "; ".join(sorted({x for x in l.err.split("\n") if x.startswith("fatal error")}))[:300] + ")")
        return [tuple(o) for o in out]

    def isolate(self, spec, leg, gwall_hint):
        """re-run one spec alone; returns (verdict, llgo RunResult, go RunResult)"""
        g = run_vm(self.bins["go"], [spec], timeout=1800)
        gb, _ = parse_out(g.err)
        tmo = max(60.0, 50.0 * g.wall)
        l = run_vm(self.bins[leg], [spec], timeout=tmo, interposer=True)
        lb, _ = parse_out(l.err)
        v = judge(spec, gb.get(spec), lb.get(spec), l, l.err)
        if v is None and "fatal error" in l.err:
            v = ("fatal", "runtime printed `fatal error:` and kept running")
        if v is not None and v[0] == "timeout":
            # slowness or a runaway inside one operation? same history, doubled watchdog: no new checkpoint => stuck
            l2 = run_vm(self.bins[leg], [spec], timeout=2 * tmo, interposer=True)
            lb2, _ = parse_out(l2.err)
            b1, b2 = lb.get(spec), lb2.get(spec)
            if l2.kind == "timeout" and b1 and b2 and len(b2["lines"]) == len(b1["lines"]):
                v = ("hang", "llgo VM makes no progress inside one 500-operation window (same last checkpoint after %.0fs and %.0fs; go needs %.2fs for the whole history); last lines:\n%s"
                     % (tmo, 2 * tmo, g.wall, "\n".join(b1["lines"][-4:])))
            elif l2.kind == "timeout":
                v = ("slow", "still progressing at the watchdog")
            else:
                v = judge(spec, gb.get(spec), b2, l2, l2.err)
                l = l2
        return v, l, g


# ----------------------------------------------------------------- building

def build_all(chk, legs):
    w = chk.work
    llgo = core.build_llgo(w)
    bins, logs = {}, {}

    def one(leg):
        d = w.sub("src-" + leg)
        for fn in os.listdir(SRC):
            shutil.copy(os.path.join(SRC, fn), os.path.join(d, fn))
        out = os.path.join(w.dir, "mapvm-%s.bin" % leg)
        if leg == "go":
            rc, so, se = core.go_build(w, d, out)
        elif leg == "go126":
            rc, so, se = core.go_build(w, d, out, go=core.GO126)
        elif leg == "nogc":
            rc, so, se = core.llgo_build(w, llgo, d, out, tags="nogc", timeout=1800)
        else:
            rc, so, se = core.llgo_build(w, llgo, d, out, timeout=1800)
        return leg, (out if rc == 0 else None), so + se

    for leg, out, log in core.pmap(one, legs, workers=len(legs)):
        bins[leg], logs[leg] = out, log
    return bins, logs


def sources():
    return {fn: open(os.path.join(SRC, fn)).read() for fn in sorted(os.listdir(SRC))}


REPLAY_SH = "#!/bin/sh\n# rebuilds the VM with llgo (from $VERIF_REPO or /repo) and go and re-runs the recorded history 5 times (hash seeds are random)\nexec python3 %s/checks/c06.py --replay \"$(dirname \"$0\")\"\n" % core.V


def replay(d):
    spec = open(os.path.join(d, "spec.txt")).read().split()[0]
    leg = open(os.path.join(d, "leg.txt")).read().strip() if os.path.exists(os.path.join(d, "leg.txt")) else "llgo"
    chk = core.Check("C06")
    bins, logs = build_all(chk, ["go", leg])
    if not bins["go"] or not bins[leg]:
        print("build failed:\n" + logs["go"][-1500:] + logs[leg][-1500:])
        chk.work.close()
        sys.exit(2)
    r = Runner(chk, bins)
    bad = 0
    for i in range(5):
        v, l, g = r.isolate(spec, leg, 0)
        print("run %d: %s" % (i + 1, "held" if v is None else "%s: %s" % v))
        bad += v is not None
    print("REPLAY: %s (%d of 5 runs fail) spec=%s leg=%s" % ("still fails" if bad else "no failure", bad, spec, leg))
    chk.work.close()
    sys.exit(1 if bad else 0)


# ----------------------------------------------------------------- main

def main():
    global CHK
    chk = CHK = core.Check("C06")
    if os.environ.get("C06_ASSUME_FIXED"):
        # validation of proposed fixes in a scratch worktree before the coordinator flips the findings:
        # treat every finding as fixed (probes become regression guards, nothing is avoided) - only ever stricter
        for f in chk.findings:
            f["status"] = "fixed"
    open_memclr = chk.is_open("C06-memclr-stub")
    open_indirect = chk.is_open("C06-indirect-slot-size")
    open_nan = chk.is_open("C06-iter-samesize-nan")
    thorough = chk.tier == "thorough"
    legs = ["go", "llgo", "nogc"] + (["go126"] if thorough else [])
    bins, logs = build_all(chk, legs)
    if not bins["go"]:
        broken("reference toolchain rejects the map VM:\n" + logs["go"][-2000:])
    for leg in ("llgo", "nogc"):
        if not bins[leg]:
            chk.violation("compile-failure-" + leg, dict(sources(), **{"build.log": logs[leg]}),
                          "llgo (%s build) cannot build the map VM that go accepts:\n%s" % (leg, logs[leg][-1500:]))
            chk.finish()
    if thorough and not bins.get("go126"):
        bins.pop("go126", None)
    R = Runner(chk, bins)
    stats = {}
    reported = set()

    def add_stats(b):
        for k, v in (b or {}).get("stat", {}).items():
            if k in ("impl", "flav", "ops") or not v.lstrip("-").isdigit():
                continue
            if k.startswith("max"):
                stats[k] = max(stats.get(k, 0), int(v))
            else:
                stats[k] = stats.get(k, 0) + int(v)

    def classify_known(spec, verdict, info):
        """second line of defence: does a failing history fall into the class of an open finding?"""
        p = gen.parse(spec)
        gstat = (info or {}).get("go", {}).get("stat", {}) if info else {}
        if open_indirect and (p["k"] == "bk" or p["v"] == "a17"):
            return "C06-indirect-slot-size"
        if open_memclr and (p["flags"] & gen.F_PROBE or int(gstat.get("clearsGrown", "0")) > 0):
            return "C06-memclr-stub"
        lb = (info or {}).get("llgo") or {}
        if open_nan and verdict[0] == "monitor" and lb.get("monitor") and all("missed a NaN-keyed entry" in m for m in lb["monitor"]) \
                and int(lb.get("stat", {}).get("samesize", "1") or 1) > 0:
            return "C06-iter-samesize-nan"
        return None

    def report(spec, verdict, info, leg):
        """isolate, minimise by prefix truncation, write the replay dir"""
        cls, summary = verdict
        v1, l1, g1 = R.isolate(spec, leg, 0)
        use_spec, l, g = spec, l1, g1
        note = ""
        if v1 is None:
            note = "\n(not reproduced when the history runs alone: hash seeds are random per process; batch output kept)"
        elif v1[0] == "slow":
            chk.inconclusive += 1
            return
        else:
            cls, summary = v1
            lb, _ = parse_out(l1.err)
            mons = (lb.get(spec) or {}).get("monitor") or []
            n = first_monitor_op(mons[0]) if mons else None
            if n is not None and n + 1 < gen.parse(spec)["ops"] and not gen.parse(spec)["flags"] & gen.F_PROBE:
                short = gen.truncate(spec, n + 1)
                for _ in range(3):
                    v2, l2, g2 = R.isolate(short, leg, 0)
                    if v2 is not None and v2[0] not in ("slow",):
                        use_spec, l, g, cls, summary = short, l2, g2, v2[0], v2[1]
                        note = "\n(minimised by truncating the history to %d operations)" % (n + 1)
                        break
        name = "%s-%s" % (cls.split("+")[0], core.h(spec))
        if name in reported:
            return
        reported.add(name)
        files = dict(sources())
        files.update({"spec.txt": use_spec + "\n", "leg.txt": leg + "\n", "original-spec.txt": spec + "\n",
                      "llgo.stderr.txt": l.err[-200000:], "go.stderr.txt": g.err[-200000:], "replay.sh": REPLAY_SH})
        t = run_vm(bins[leg], [use_spec], timeout=120, trace=True)
        tl = t.err.split("\n")
        cut = next((i for i, x in enumerate(tl) if x.startswith("MONITOR:") or x.startswith("panic:") or x.startswith("fatal error")), len(tl))
        files["llgo.trace-tail.txt"] = "\n".join(tl[max(0, cut - 300):cut + 12])
        chk.violation(name, files, "history %s [%s build]: %s%s\n  spec = K:V:profile:pool:lo:hi:ops:seed:flags; replay: %s/run replay <dir>" % (use_spec, leg, summary, note, core.V))
        os.chmod(os.path.join(core.V, "replays", "%s-%s-s%d-%s" % (chk.pid, chk.tier, chk.seed, name), "replay.sh"), 0o755)

    # ---- 1. probes of the findings (fixed cases, always first)
    pjobs = [(f, leg) for f in chk.findings for leg in ("llgo", "nogc") if gen.PROBES.get(f["id"])]

    def do_probe(j):
        return j, R.run_batch(gen.PROBES[j[0]["id"]], j[1])

    pres = {}
    for (f, leg), res in core.pmap(do_probe, pjobs, workers=WORKERS):
        if res and res[0][0] == "__oracle__":
            broken(res[0][1])
        chk.cov["evaluations"] += sum(1 for r in res if r[1] is None or r[1][0] != "not-run")
        for spec, verdict, info in res:
            if verdict is not None and verdict[0] != "not-run":
                pres.setdefault(f["id"], (spec, verdict, info, leg))
    for f in chk.findings:
        hit = pres.get(f["id"])
        if hit is None:
            continue
        if f.get("status") == "open":
            chk.known(f["id"], "")
        else:
            report(*hit)

    # ---- 2. random histories
    specs = gen.histories(chk.seed, chk.tier, avoid_clear_grown=open_memclr, avoid_indirect=open_indirect, avoid_nan_churn=open_nan)
    bsz = 10 if thorough else 6
    jobs = []
    for i in range(0, len(specs), bsz):
        leg = "nogc" if (i // bsz) % 4 == 3 else "llgo"
        jobs.append((specs[i:i + bsz], leg))

    def do(job):
        return job, R.run_batch(job[0], job[1])

    failures = []
    ops_total = 0
    for (bspecs, leg), res in core.pmap(do, jobs, workers=(WORKERS_THOROUGH if thorough else WORKERS)):
        if res and res[0][0] == "__oracle__":
            broken(res[0][1])
        for spec, verdict, info in res:
            if verdict is not None and verdict[0] == "not-run":
                # the process died in an earlier history of the batch: run this one alone
                r1 = R.run_batch([spec], leg)
                if r1[0][0] == "__oracle__":
                    broken(r1[0][1])
                spec, verdict, info = r1[0]
            chk.cov["evaluations"] += 1
            chk.sig(gen.signature(spec))
            add_stats(info["llgo"])
            ops_total += gen.parse(spec)["ops"]
            stats["legs_" + leg] = stats.get("legs_" + leg, 0) + 1
            if verdict is not None:
                failures.append((spec, verdict, info, leg))
        if len(failures) > 40:
            break
    for spec, verdict, info, leg in failures[:25]:
        fid = classify_known(spec, verdict, info)
        if fid:
            chk.known(fid, "")
            continue
        if verdict[0] == "timeout":
            v1, _, _ = R.isolate(spec, leg, 0)
            if v1 is None or v1[0] == "slow":
                chk.inconclusive += 1
                continue
        report(spec, verdict, info, leg)

    # ---- 3. thorough: second reference toolchain on a sub-sample (reference disagreement => discard, not a verdict)
    if bins.get("go126"):
        sub = specs[::25][:400]
        dis = 0

        def ref2(s):
            a = run_vm(bins["go"], [s], timeout=1800)
            b = run_vm(bins["go126"], [s], timeout=1800)
            ba, _ = parse_out(a.err)
            bb, _ = parse_out(b.err)
            return (ba.get(s) or {}).get("lines") != (bb.get(s) or {}).get("lines") or bool((bb.get(s) or {}).get("monitor"))
        for d in core.pmap(ref2, sub, workers=WORKERS):
            dis += bool(d)
        chk.cov["reference_go126_histories"] = len(sub)
        chk.cov["reference_disagreement"] = dis
        if dis:
            broken("go1.24 and go1.26 disagree (or the monitor fires under go1.26) on %d of %d histories: the VM output is not spec-determined" % (dis, len(sub)))

    # ---- evidence
    chk.cov["histories"] = len(specs)
    chk.cov["operations_executed_per_build"] = ops_total
    chk.cov["llgo_map_internals_reached"] = stats
    chk.cov["avoided_constructs"] = ([("clear() on a map object that ever held > 52 entries (finding C06-memclr-stub open): probe only")] if open_memclr else []) + \
        ([("key or elem types larger than 128 bytes (finding C06-indirect-slot-size open): probe only")] if open_indirect else []) + \
        ([("NaN keys in the same-size-grow churn profiles (finding C06-iter-samesize-nan open): probe only")] if open_nan else [])
    chk.cov["rule"] = ("fixed generic map VM (10 key types incl. float64 with +-0/NaN, interface{} with 14 dynamic types and unhashable values, padded/indirect structs x 5 value types incl. zero-size and >128-byte "
                       "elems) compiled once by llgo (gc and nogc builds) and go1.24; per history (seeded, up to 50k ops: insert/update/delete/lookup/comma-ok/len/clear/make(hint)/nil-map ops/unhashable keys/"
                       "range-collect/break/delete-current/delete-other/insert/bounce/nested/clear-in-loop/sorted dump; profiles oscillate around every load-factor threshold 8..6656 and churn below thresholds "
                       "to force same-size grows) an in-program sorted-slice shadow map checks every result and per-loop records check the range laws on entries (not keys); checkpoint hashes, recovered panic "
                       "classes and final state are compared with the go run; MONITOR under go = broken oracle. evaluations = histories; distinct = (K,V,profile,size class) signatures")
    for s in specs[:2]:
        chk.sample({"spec": s, "signature": gen.signature(s)})
    need = ("grows", "samesize", "loopsInGrow", "loopsGrew", "panics")
    if not chk.violations and any(stats.get(k, 0) == 0 for k in need):
        broken("histories did not reach required map internals (llgo STAT): %s" % {k: stats.get(k, 0) for k in need})
    chk.finish(floor_eval=(20000 if thorough else 400), floor_distinct=(800 if thorough else 150))


if __name__ == "__main__":
    if len(sys.argv) > 2 and sys.argv[1] == "--replay":
        replay(os.path.abspath(sys.argv[2]))
    main()

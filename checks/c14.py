"""C14: link names are unique per entity and consistent across packages; mergeable definitions are equivalent;
linkname/export bind exactly the declared symbol.

Three monitors (DESIGN section 4, C14):
  (1) E1 output monitor. gen/c14_names.py emits println-only multi-package naming-stress programs in which every entity
      (function, method, closure, generic instance, wrapper target ...) prints its own id and every call site prints the id it
      expects: the trace must be a sequence of `W n` / `H n` pairs (+ OK/EQ value checks, END counters).  Programs without C files
      are also built by the reference toolchain go1.24.0 and the complete output must be equal (dual run: the oracle must be
      silent on the reference output, otherwise the check is broken).  Programs with a C file (LLGoFiles) / body-less linkname
      declarations are llgo-only; their oracle is the expected-id trace.
  (2) symbol-table monitor (gen/c14_irtab.py) over the textual IR of ALL modules (program packages, C files, runtime) of a second
      build of the same program with -gen-llfiles (private GOCACHE + own llgo cache per run): one strong definition per name,
      mergeable definitions of one name have equal canonical bodies, every referenced declaration is resolved by a definition of
      the same kind and signature or by a C library symbol, //export names are defined exactly as declared and the C module
      refers to them, //go:linkname bodies bind the declared C / Go symbol and leave no symbol under the Go name, and every entity
      id of the generator (visible as the constant argument of t.Hit in the IR) has a body under exactly ONE name.
  (3) E2 in package cl (inpkg/c14_funcname_test.go): go/ssa programs built in the test from generated multi-package source;
      cl.funcName over all functions: distinct functions => distinct names, and the name of a function does not depend on the
      package that refers to it.

usage: ./run C14 quick|thorough        python3 checks/c14.py replay <replay-dir>
"""
import json
import os
import re
import shutil
import sys
import time

sys.path.insert(0, os.path.join(os.path.dirname(os.path.abspath(__file__)), "..", "rig"))
sys.path.insert(0, os.path.join(os.path.dirname(os.path.abspath(__file__)), "..", "gen"))
import core
import inpkg
import c14_names as gen
import c14_irtab as irtab
import c14_probes as probes

REPLAY = len(sys.argv) > 2 and sys.argv[1] == "replay"
if REPLAY:
    sys.argv = [sys.argv[0], "C14", "quick"] + sys.argv[2:]
chk = core.Check("C14")
w = chk.work
WORKERS = int(os.environ.get("VERIF_C14_WORKERS", "6"))
ASSUME_FIXED = [x for x in os.environ.get("VERIF_C14_ASSUME_FIXED", "").split(",") if x]
chk.assumptions = [
    "-O0, amd64; GNU ld instead of lld (no ICF); the IR of the -gen-llfiles build is what the second binary is linked from, the first binary uses in-memory code generation",
    "attribute groups and metadata are ignored when comparing mergeable bodies; references to private symbols and to per-package synthetic wrappers ($bound/$thunk/_llgo_routine$N) are compared by content",
    "every named type of a generated program has its own size, so the id BASE+Sizeof(T)*1000 identifies a generic instance; instances whose ids would coincide are not generated",
]
OPEN = {f["id"]: f for f in chk.open_findings() if f["id"] not in ASSUME_FIXED}
AVOID = tuple(i for i in gen.ALL_AVOIDABLE if i in OPEN)

llgo = core.build_llgo(w)
GOCACHE_LL = w.sub("gocache-ll")
XDG_LL = w.sub("xdg-ll")
SYSLIB = irtab.system_symbols()
if len(SYSLIB) < 1000:
    core.broken("cannot read the dynamic symbols of the C libraries (nm): %d symbols" % len(SYSLIB))
_src_cache = {}


def ll_source(path):
    """source_filename of an .ll file (cached)"""
    st = os.stat(path)
    k = (path, st.st_mtime_ns, st.st_size)
    if k not in _src_cache:
        src = ""
        with open(path, encoding="utf-8", errors="replace") as f:
            for _ in range(5):
                ln = f.readline()
                if ln.startswith("source_filename"):
                    src = ln.split('"')[1] if '"' in ln else ""
                    break
        _src_cache[k] = src
    return _src_cache[k]


def collect_ll(mod, srcdir):
    """all .ll files of the private GOCACHE that belong to this program: its own packages (module name is unique per program),
    its C files, and every non-program module (runtime packages and their C files, shared by all programs of the run)"""
    mine, shared = [], []
    for sub in sorted(os.listdir(GOCACHE_LL)):
        d = os.path.join(GOCACHE_LL, sub)
        if not os.path.isdir(d):
            continue
        for fn in sorted(os.listdir(d)):
            if not fn.endswith(".ll"):
                continue
            p = os.path.join(d, fn)
            src = ll_source(p)
            if src == mod or src.startswith(mod + "/") or src.startswith(mod + "."):
                mine.append(p)
            elif src.startswith(srcdir + "/"):
                mine.append(p)
            elif re.match(r"vm(\d+x\d+|probe|dot)([/.]|$)", src) or "/work/C14-" in src or "/replay" in src:
                continue        # another program of this run
            else:
                shared.append(p)
    return mine, shared


RE_HIT = None


def ir_monitor(meta, srcdir, files):
    """-> (problems [(class, name, text, extra-files)], stats)"""
    mine, shared = collect_ll(meta["mod"], srcdir)
    probs = []
    if not mine:
        return [("no-ir", "", "the -gen-llfiles build left no .ll file for module %s" % meta["mod"], {})], {}
    mods = irtab.load_dir(mine + shared)
    srcs = {}
    for m in mods:
        srcs.setdefault(m.src, []).append(m)
    dup = [s for s, v in srcs.items() if len(v) > 1]
    if dup:
        return [("ir-attribution", "", "two .ll files claim the same module: %s" % dup[:3], {})], {}
    if "github.com/goplus/llgo/runtime/internal/runtime" not in srcs:
        return [("no-runtime-ir", "", "runtime module missing from the IR dump (%d modules)" % len(mods), {})], {}
    missing = [p for p in meta["packages"] if p not in srcs]
    if missing:
        probs.append(("no-ir", "", "no IR module for package(s) %s" % missing, {}))
    tab = irtab.Table(mods)
    ps, stats = tab.check(SYSLIB)
    for p in ps:
        extra = {}
        if len(p) > 3:
            a, b = p[3]
            extra = {"ir/a-%s.ll" % core.h(a.module.src): "; module %s linkage %s\n%s\n" % (a.module.src, a.linkage, a.text),
                     "ir/b-%s.ll" % core.h(b.module.src): "; module %s linkage %s\n%s\n" % (b.module.src, b.linkage, b.text)}
        probs.append((p[0], p[1], p[2], extra))
    # entity ids -> names
    hit = re.compile(r'call void @"?%s/t\.Hit"?\(i64 (\d+)\)' % re.escape(meta["mod"]))
    id_names = {}
    for m in mods:
        if m.is_c or not (m.src == meta["mod"] or m.src.startswith(meta["mod"] + "/")):
            continue
        for d in m.defs.values():
            if d.kind != "func":
                continue
            for i in hit.findall(d.text):
                ns = id_names.setdefault(i, [])
                if d.name not in ns:
                    ns.append(d.name)
    shared_ids = set(meta.get("shared_ids", []))
    nent = 0
    for i, desc in meta["expected_ids"].items():
        nent += 1
        ns = id_names.get(i)
        if not ns:
            probs.append(("entity-without-body", i, "entity %s (%s) has no body in any module: its symbol name is taken by another entity of the same module" % (i, desc), {}))
        elif len(ns) > 1 and i not in shared_ids:
            probs.append(("entity-two-names", i, "entity %s (%s) is emitted under %d names: %s" % (i, desc, len(ns), ns[:4]), {}))
    stats["entities_expected"] = nent
    stats["entity_ids_in_ir"] = len(id_names)
    # exports / linknames
    defs_by_mod = {m.src: m for m in mods}
    cmods = [m for m in mods if m.is_c and m.src.startswith(srcdir + "/")]
    nbind = 0
    for e in meta["exports"]:
        nbind += 1
        ds = [d for d in tab.by_name.get(e, []) if d.linkage not in irtab.LOCAL]
        if len(ds) != 1 or ds[0].kind != "func" or ds[0].linkage != "external":
            probs.append(("export", e, "//export %s: expected exactly one external function @%s, found %s" % (
                e, e, [(d.module.src, d.kind, d.linkage) for d in ds]), {}))
        if not any(e in m.decls for m in cmods):
            probs.append(("export", e, "//export %s: the C module does not refer to @%s" % (e, e), {}))
    for pkg, gosym, csym in meta["cbinds"]:
        nbind += 1
        m = defs_by_mod.get(pkg)
        if m is None:
            continue
        if gosym in m.defs or gosym in m.decls or gosym in tab.by_name:
            probs.append(("linkname", gosym, "//go:linkname to C.%s: a symbol @%s exists although the declaration is bound to the C symbol" % (csym, gosym), {}))
        if csym not in m.decls:
            probs.append(("linkname", gosym, "//go:linkname %s C.%s: module %s does not declare @%s" % (gosym, csym, pkg, csym), {}))
        cd = [d for d in tab.by_name.get(csym, []) if d.module.is_c and d.linkage not in irtab.LOCAL]
        if len(cd) != 1:
            probs.append(("linkname", csym, "C symbol @%s: expected one definition in the C module, found %d" % (csym, len(cd)), {}))
    for pkg, local, target in meta["gopulls"]:
        nbind += 1
        m = defs_by_mod.get(pkg)
        if m is None:
            continue
        if local in m.defs or local in m.decls or local in tab.by_name:
            probs.append(("linkname", local, "//go:linkname %s %s: a symbol @%s exists" % (local, target, local), {}))
        if target not in m.decls:
            probs.append(("linkname", local, "//go:linkname %s %s: module %s does not declare @%s" % (local, target, pkg, target), {}))
        td = [d for d in tab.by_name.get(target, []) if d.linkage not in irtab.LOCAL]
        if len(td) != 1 or td[0].module.src != target.rsplit(".", 1)[0]:
            probs.append(("linkname", target, "target @%s of a Go linkname: expected one definition in its own package, found %s" % (
                target, [(d.module.src, d.linkage) for d in td]), {}))
    stats["bindings_checked"] = nbind
    stats["program_modules"] = len(mine)
    return probs, stats


def build_all(name, files, meta, want_go, want_ir=True):
    """builds (llgo plain, go, llgo -gen-llfiles), runs, returns dict"""
    d = w.sub("p", name)
    src = os.path.join(d, "src")
    shutil.rmtree(src, ignore_errors=True)
    core.write_module(src, {k: v for k, v in files.items() if k != "go.mod"}, modname=meta["mod"])
    res = {"dir": src}
    out = os.path.join(d, "p_llgo.bin")
    rc, so, se = core.llgo_build(w, llgo, src, out)
    res["llgo_build"] = (rc, so + se)
    if rc == 0:
        res["llgo"] = core.run_prog([out], timeout=120, interposer=True)
    if want_go:
        out = os.path.join(d, "p_go.bin")
        rc, so, se = core.go_build(w, src, out)
        res["go_build"] = (rc, so + se)
        if rc == 0:
            res["go"] = core.run_prog([out], timeout=120)
    if want_ir:
        out = os.path.join(d, "p_ll.bin")
        rc, so, se = core.llgo_build(w, llgo, src, out, flags=["-gen-llfiles"], timeout=3000,
                                     extra_env={"GOCACHE": GOCACHE_LL, "XDG_CACHE_HOME": XDG_LL})
        res["ll_build"] = (rc, so + se)
        if rc == 0:
            res["ll"] = core.run_prog([out], timeout=120, interposer=True)
    return res


def replay_files(files, meta, extra=None):
    out = {"src/" + k: v for k, v in files.items()}
    out["meta.json"] = json.dumps(meta, indent=1)
    out["replay.sh"] = "#!/bin/sh\n# rebuilds src/ with llgo (and go), re-runs the trace oracle and the IR symbol-table monitor\nexec python3 %s/checks/c14.py replay \"$(dirname \"$0\")\"\n" % core.V
    if extra:
        out.update(extra)
    return out


def vio(name, files, meta, summary, extra=None):
    chk.violation(name, replay_files(files, meta, extra), summary)
    d = os.path.join(core.V, "replays", "%s-%s-s%d-%s" % (chk.pid, chk.tier, chk.seed, name))
    try:
        os.chmod(os.path.join(d, "replay.sh"), 0o755)
    except OSError:
        pass


def report(name, files, meta, cls, summary, extra=None):
    """violation unless the class belongs to an open finding"""
    for f in OPEN.values():
        if cls in f.get("classes", []):
            chk.known(f["id"], f["what"])
            return
    vio(name, files, meta, summary, extra)


def report_ir(name, files, meta, iprobs, outs):
    seen_cls = {}
    for cls, nm, txt, extra in iprobs:
        if cls in ("no-ir", "ir-attribution", "no-runtime-ir"):
            core.broken("IR leg of %s: %s" % (name, txt))
        seen_cls.setdefault(cls, []).append((nm, txt, extra))
    for cls, lst in seen_cls.items():
        extra = {}
        for nm, txt, ex in lst[:3]:
            extra.update(ex)
        extra.update(outs)
        extra["ir-problems.txt"] = "\n".join(t for _, t, _ in lst)
        report("%s-ir-%s" % (name, cls), files, meta, "ir:" + cls, "[ir:%s] %d symbol(s); first: %s" % (cls, len(lst), lst[0][1]), extra)


def run_case(name, files, meta, probe=False):
    want_go = not meta["with_c"]
    res = build_all(name, files, meta, want_go)
    ev = 0
    if want_go:
        rc, log = res["go_build"]
        if rc != 0:
            return {"invalid": "go rejects the generated program:\n" + log[-1500:], "ev": 0}
        g = res["go"]
        gp, gst = gen.check_trace(g.err)
        if probe:
            pb, pby = probe_filter(g.err)
            gp = pb + [m for v in pby.values() for m in v]
        if g.kind != "exit" or g.rc != 0 or gp:
            return {"invalid": "the oracle fires on the REFERENCE output (generator/oracle bug): %s %s %s" % (g.kind, g.rc, gp[:3]), "ev": 0}
    rc, log = res["llgo_build"]
    if rc == -999:
        chk.inconclusive += 1
        return {"ev": 0}
    if rc != 0:
        report(name + "-build", files, meta, "compile-failure", "llgo cannot build a program %s:\n%s" % (
            "that go accepts" if want_go else "(llgo-only: C file / linkname)", log[-1500:]), {"build.log": log})
        return {"ev": 0}
    r = res["llgo"]
    if r.kind == "timeout":
        chk.inconclusive += 1
        return {"ev": 0}
    if "VERIF-MEMCPY-OVERLAP" in r.err:
        report(name + "-overlap", files, meta, "memcpy-overlap", "overlapping memcpy", {"stderr.txt": r.err[-20000:]})
    text = "\n".join(l for l in r.err.split("\n") if not l.startswith("VERIF-"))
    if probe:
        return {"trace": text, "res": res, "ev": 0}
    probs, st = gen.check_trace(text)
    ev += st["want"] + st["checks"]
    outs = {"out.llgo.txt": r.err}
    if want_go:
        outs["out.go.txt"] = res["go"].err
    if r.kind != "exit" or r.rc != 0:
        probs.insert(0, "program ended with %s rc=%s" % (r.kind, r.rc))
    if want_go and not probs:
        fd = core.first_diff(res["go"].err, text)
        if fd:
            probs.append("output differs from go at line %d: go `%s` llgo `%s`" % (fd[0] + 1, fd[1], fd[2]))
    if probs:
        report(name + "-output", files, meta, "output", "[output] %d problem(s); first: %s" % (len(probs), "; ".join(probs[:3])), outs)
    # IR leg
    stats = {}
    rc, log = res["ll_build"]
    if rc == -999:
        chk.inconclusive += 1
    elif rc != 0:
        report(name + "-llbuild", files, meta, "compile-failure", "llgo -gen-llfiles cannot build the program:\n" + log[-1500:], {"build.log": log})
    else:
        l2 = res["ll"]
        t2 = "\n".join(l for l in l2.err.split("\n") if not l.startswith("VERIF-"))
        if l2.kind == "exit" and l2.rc == 0 and r.kind == "exit" and r.rc == 0 and t2 != text:
            fd = core.first_diff(text, t2)
            report(name + "-ll-output", files, meta, "output", "[output] the binary linked from the dumped IR prints something else than the in-memory build: line %d `%s` vs `%s`" % (
                fd[0] + 1, fd[1], fd[2]), {"out.llgo.txt": r.err, "out.ll.txt": l2.err})
        iprobs, stats = ir_monitor(meta, res["dir"], files)
        ev += stats.get("defined_names", 0) + stats.get("declarations", 0) + stats.get("entities_expected", 0) + stats.get("bindings_checked", 0)
        report_ir(name, files, meta, iprobs, outs)
    return {"ev": ev, "stats": stats, "trace_stats": st}


def probe_filter(text):
    """oracle for the probe program: -> (problems not covered by a finding class, {finding id: [problems]})"""
    pend = None
    bad, by = [], {}
    for ln in text.split("\n"):
        p = ln.split(" ")
        if p[0] == "W" and len(p) == 2:
            pend = int(p[1])
        elif p[0] == "H" and len(p) == 2:
            if pend is None:
                bad.append("H %s without W" % p[1])
                continue
            exp = probes.ALIAS.get(pend, pend)
            if exp != int(p[1]):
                fid = probes.classify(pend)
                msg = "call site %d expects entity %d, entity %s ran" % (pend, exp, p[1])
                if fid:
                    by.setdefault(fid, []).append(msg)
                else:
                    bad.append(msg)
            pend = None
    if "END" not in text:
        bad.append("probe program did not reach END")
    return bad, by


# ---------------------------------------------------------------------------------------------------- replay mode
if REPLAY:
    rd = os.path.abspath(sys.argv[3])
    meta = json.load(open(os.path.join(rd, "meta.json")))
    files = {}
    for root, _, fns in os.walk(os.path.join(rd, "src")):
        for fn in fns:
            p = os.path.join(root, fn)
            files[os.path.relpath(p, os.path.join(rd, "src"))] = open(p).read()
    OPEN = {}
    n0 = len(chk.violations)
    chk.violation = lambda name, fl, summary: (chk.violations.append(name), print("STILL-FAILS %s\n  %s" % (name, summary.replace("\n", "\n  ")[:3000])))
    report = lambda name, fl, m, cls, summary, extra=None: chk.violation(name, None, summary)
    if meta["mod"] == probes.MOD:
        out = run_case("replay", files, meta, probe=True)
        if "trace" in out:
            bad, by = probe_filter(out["trace"])
            for fid, msgs in by.items():
                chk.violation("probe-" + fid, None, "; ".join(msgs[:4]))
            if bad:
                chk.violation("probe-control", None, "; ".join(bad[:4]))
            if out["res"]["ll_build"][0] == 0:
                ip, _ = ir_monitor(dict(meta, packages=[]), out["res"]["dir"], files)
                report_ir("replay", files, meta, ip, {})
    else:
        out = run_case("replay", files, meta)
    print("REPLAY: %s" % ("still fails" if len(chk.violations) > n0 or out.get("invalid") else "no problem found"), out.get("invalid", ""))
    w.close()
    sys.exit(1 if len(chk.violations) > n0 else 0)

# ---------------------------------------------------------------------------------------------------- probes (run first)
pmeta = {"mod": probes.MOD, "with_c": False, "expected_ids": {}, "exports": [], "cbinds": [], "gopulls": [], "packages": []}
pr = run_case("probe", probes.files(), pmeta, probe=True)
if pr.get("invalid"):
    core.broken("probe program: " + pr["invalid"])
probe_seen = {}
if "trace" in pr:
    bad, by = probe_filter(pr["trace"])
    for fid, msgs in by.items():
        probe_seen[fid] = msgs
        if fid in OPEN:
            chk.known(fid, OPEN[fid]["what"])
        else:
            vio("probe-" + fid, probes.files(), pmeta, "[probe] %s: %s" % (fid, "; ".join(msgs[:3])), {"out.llgo.txt": pr["trace"]})
    if bad:
        vio("probe-control", probes.files(), pmeta, "[probe] control lines of the probe program fail: " + "; ".join(bad[:3]), {"out.llgo.txt": pr["trace"]})
    chk.cov["evaluations"] += pr["trace"].count("\nW ")
    # the -gen-llfiles build of the probe program warmed the private caches; its IR is checked like any other
    rc, log = pr["res"]["ll_build"]
    if rc == -999:
        core.broken("-gen-llfiles build of the probe program timed out (cold private caches on an overloaded machine)")
    if rc != 0:
        vio("probe-llbuild", probes.files(), pmeta, "[probe] llgo -gen-llfiles cannot build the probe program that the in-memory path builds:\n" + log[-1500:], {"build.log": log})
        chk.finish()
    iprobs, istats = ir_monitor(dict(pmeta, packages=[probes.MOD + x for x in ("", "/t", "/pa", "/pb", "/g", "/sub/g")]), pr["res"]["dir"], probes.files())
    report_ir("probe", probes.files(), pmeta, iprobs, {})
    chk.cov["evaluations"] += istats.get("defined_names", 0) + istats.get("declarations", 0)
    chk.cov["ir_stats_probe"] = istats

# dotted import path probe (own program: two strong symbols collide, the link fails)
dmeta = dict(pmeta, mod=probes.DOT_MOD)
dres = build_all("dot", probes.DOT_FILES, dmeta, want_go=True, want_ir=False)
if dres["go_build"][0] != 0:
    core.broken("go rejects the dotted-path probe:\n" + dres["go_build"][1][-1500:])
rc, log = dres["llgo_build"]
dot_bad = None
if rc != 0:
    dot_bad = "llgo cannot link a program with package %s/pa.x and method %s/pa.x.F: %s" % (probes.DOT_MOD, probes.DOT_MOD, log[-400:])
elif dres["llgo"].err != dres["go"].err:
    dot_bad = "output differs from go: %r" % dres["llgo"].err[:200]
if dot_bad:
    if "C14-dotted-path" in OPEN:
        chk.known("C14-dotted-path", OPEN["C14-dotted-path"]["what"])
    else:
        vio("probe-C14-dotted-path", probes.DOT_FILES, dmeta, "[probe] " + dot_bad, {"build.log": log})
chk.cov["evaluations"] += 2

# ---------------------------------------------------------------------------------------------------- random programs
N = 10 if chk.tier == "quick" else 250
if os.environ.get("VERIF_C14_N"):       # development aid only (evidence records the real number of programs)
    N = int(os.environ["VERIF_C14_N"])
cases = []
for i in range(N):
    with_c = (i % 3 == 2)
    files, meta = gen.generate(chk.seed, i, chk.tier, avoid=AVOID, with_c=with_c, size=0.8)
    cases.append(("s%dp%d" % (chk.seed, i), files, meta))


def one(c):
    try:
        return run_case(*c)
    except Exception as ex:      # noqa
        import traceback
        return {"crash": traceback.format_exc()}


results = core.pmap(one, cases, workers=WORKERS)
invalid = 0
agg = {}
tagg = {"want": 0, "hit": 0, "checks": 0}
feats = {}
for (name, files, meta), r in zip(cases, results):
    if r.get("crash"):
        core.broken("internal error in case %s:\n%s" % (name, r["crash"]))
    if r.get("invalid"):
        invalid += 1
        print("INVALID-GENERATED %s: %s" % (name, r["invalid"][:600]), flush=True)
        continue
    chk.cov["evaluations"] += r["ev"]
    for k, v in (r.get("stats") or {}).items():
        agg[k] = agg.get(k, 0) + v
    for k, v in (r.get("trace_stats") or {}).items():
        tagg[k] += v
    for k, v in meta["features"].items():
        feats[k] = feats.get(k, 0) + v
        chk.sig("feature:" + k)
    chk.sample({"program": name, "with_c": meta["with_c"], "entities": len(meta["expected_ids"]), "features": len(meta["features"]),
                "ir": {k: (r.get("stats") or {}).get(k) for k in ("modules", "defined_names", "mergeable_groups", "declarations")}})
chk.cov["programs"] = N
chk.cov["invalid_generated"] = invalid
chk.cov["trace_events"] = tagg
chk.cov["ir_stats_sum"] = agg
chk.cov["features"] = feats
chk.cov["avoided_constructs"] = list(AVOID)
chk.cov["assume_fixed"] = ASSUME_FIXED
if invalid > max(1, N // 50):
    core.broken("%d of %d generated programs are invalid" % (invalid, N))

# ---------------------------------------------------------------------------------------------------- E2 leg in package cl
if os.path.exists(os.path.join(core.V, "inpkg", "c14_funcname_test.go")) and not os.environ.get("VERIF_C14_NO_E2"):
    inj = {"cl/zz_verif_c14_test.go": os.path.join(core.V, "inpkg", "c14_funcname_test.go")}
    rc, out, rep, races, _ = inpkg.run_inpkg(chk, inj, "./cl", "^TestVerifC14", extra_env={"VERIF_C14_AVOID": ",".join(AVOID)})
    inpkg.absorb(chk, rep, out, rc, "e2")

chk.cov["rule"] = ("E1: generated naming-stress programs (6-7 packages, same names everywhere; see gen/c14_names.py) compiled by llgo -O0: trace must be W n/H n pairs, "
                   "OK/EQ checks true, END counters consistent, and equal to the go1.24 output for programs without C files; IR: symbol table over all modules of the "
                   "-gen-llfiles build (one strong def per name, mergeable defs equal after canonicalisation, referenced declarations resolved with equal kind+signature, "
                   "exports/linknames bound exactly, each entity id under exactly one name); evaluations = W/H pairs + value checks + names/declarations/entities/bindings checked in IR"
                   + (" | " + chk.cov["rule"] if chk.cov["rule"] else ""))
chk.finish(floor_eval=3000 if chk.tier == "quick" else 50000, floor_distinct=40)

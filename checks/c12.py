"""C12: packages initialise once, dependencies first, variables in dependency order (E1).

Generated multi-package modules (gen/c12_initgraph.py) are compiled by llgo built from the working tree (-O0) and by the
reference toolchain go1.24.0 (thorough: also go1.26.0; a graph on which the two references disagree is discarded).
Every variable initialiser and init function prints one event; the monitor is a partial-order checker over the event
trace, not a textual diff:
  (1) every expected event exactly once (expected = what the generator emitted; conditional events: as in the reference);
      packages nobody imports stay silent
  (2) for every import edge a -> b (transitively): last event of b  <  first event of a
  (3) the subsequence of each package (labels and logged values) equals the reference subsequence
  (4) main.main comes after every init event; what main.main logs afterwards equals the reference
The interleaving of independent packages is NOT compared (llgo: import order, go: import-path order; both allowed).
The same monitor runs over the reference trace (dual run): if it fires there the generator/monitor is wrong -> broken check.

usage: ./run C12 quick|thorough        python3 checks/c12.py replay <replay-dir>
"""
import json
import os
import sys
import time

sys.path.insert(0, os.path.join(os.path.dirname(os.path.abspath(__file__)), "..", "rig"))
sys.path.insert(0, os.path.join(os.path.dirname(os.path.abspath(__file__)), "..", "gen"))
import core
import c12_initgraph as gen
import c12_fixed as fixed

RUN_ENV = {"VERIF_C12_ENV": "hello"}


# ---------------------------------------------------------------------------------------------------- monitor
def parse_trace(text):
    """-> [(pkg, label, value)]; other stderr lines are returned separately"""
    ev, other = [], []
    for ln in text.split("\n"):
        if ln.startswith("@ "):
            p = ln.split(" ")
            if len(p) == 4:
                ev.append((p[1], p[2], p[3]))
                continue
        if ln.strip():
            other.append(ln)
    return ev, other


def monitor(meta, ev, ref=None):
    """partial-order monitor; returns a list of (rule, message). ref = reference events (None when checking the reference itself)."""
    out = []
    pk = {p["id"]: p for p in meta["pkgs"]}
    seen = {}
    for i, (p, l, v) in enumerate(ev):
        seen.setdefault((p, l), []).append(i)
    # (1) exactly once
    for key, idx in seen.items():
        if len(idx) > 1:
            out.append(("once", "event %s %s occurs %d times (positions %s)" % (key[0], key[1], len(idx), idx[:4])))
    for p in meta["pkgs"]:
        known = set(p["labels"]) | set(p["cond_labels"])
        mine = [l for (q, l) in seen if q == p["id"]]
        if not p["live"]:
            if mine:
                out.append(("orphan", "package %s (%s) is not imported by the program but logged %s" % (p["id"], p["dir"], mine[:3])))
            continue
        for l in p["labels"]:
            if (p["id"], l) not in seen:
                out.append(("missing", "event %s %s never happened" % (p["id"], l)))
        for l in mine:
            if l not in known:
                out.append(("unknown", "event %s %s is not an event of the generated program" % (p["id"], l)))
    for l in meta["main_labels"]:
        if ("M", l) not in seen:
            out.append(("missing", "main.main event %s never happened" % l))
    # (2) dependencies first
    first, last = {}, {}
    for i, (p, l, v) in enumerate(ev):
        first.setdefault(p, i)
        last[p] = i
    for p in meta["pkgs"]:
        if not p["live"] or p["id"] not in first:
            continue
        for j in p["closure"]:
            b = meta["pkgs"][j]["id"]
            if b in last and last[b] > first[p["id"]]:
                out.append(("deps-first", "%s (%s) imports %s (%s) but its event #%d `%s` precedes #%d `%s` of the imported package" % (
                    p["id"], p["dir"] or "main", b, meta["pkgs"][j]["dir"], first[p["id"]], ev[first[p["id"]]][1], last[b], ev[last[b]][1])))
    # (4) main.main last
    if "M" in first:
        for q in first:
            if q != "M" and last[q] > first["M"]:
                out.append(("main-last", "event #%d %s %s after main.main started (#%d)" % (last[q], q, ev[last[q]][1], first["M"])))
    # (3) per-package sequence = reference
    if ref is not None:
        for q in sorted(set([e[0] for e in ref] + [e[0] for e in ev])):
            a = [(l, v) for (p, l, v) in ref if p == q]
            b = [(l, v) for (p, l, v) in ev if p == q]
            if a != b:
                k = 0
                while k < len(a) and k < len(b) and a[k] == b[k]:
                    k += 1
                ra = "%s %s" % a[k] if k < len(a) else "<end>"
                rb = "%s %s" % b[k] if k < len(b) else "<end>"
                name = "main.main" if q == "M" else "%s (%s)" % (q, pk[q]["dir"] or "main" if q in pk else "?")
                out.append(("pkg-seq", "package %s: event %d of its own sequence is `%s`, reference has `%s`" % (name, k, rb, ra)))
    return out


# ---------------------------------------------------------------------------------------------------- build + run
def write_tree(d, files):
    for rel, txt in files.items():
        p = os.path.join(d, rel)
        os.makedirs(os.path.dirname(p), exist_ok=True)
        with open(p, "w") as f:
            f.write(txt)


def run_case(w, llgo, name, files, meta, go126, procs="2"):
    """builds with llgo / go1.24 (/ go1.26), runs, returns dict"""
    d = w.sub("src", name)
    b = w.sub("bin", name)
    write_tree(d, files)
    res = {"name": name, "files": files, "meta": meta}
    jobs = [("go124", core.GO124)]
    if go126:
        jobs.append(("go126", core.GO126))
    for tag, go in jobs:
        out = os.path.join(b, tag + ".bin")
        rc, so, se = core.go_build(w, d, out, go=go, pkg=meta["main_pkg"])
        if rc != 0:
            res[tag] = ("build-failed", (so + se)[-3000:])
            continue
        r = core.run_prog([out], env=w.env(extra=RUN_ENV), timeout=120)
        res[tag] = ("ran", r)
    out = os.path.join(b, "llgo.bin")
    t0 = time.time()
    rc, so, se = core.llgo_build(w, llgo, d, out, pkg=meta["main_pkg"], timeout=2400, extra_env={"GOMAXPROCS": procs})
    res["llgo_build_s"] = round(time.time() - t0, 1)
    if os.environ.get("VERIF_C12_DEBUG"):
        print("  %s: llgo build %.1fs rc=%d (t=%.0fs)" % (name, res["llgo_build_s"], rc, time.time() - core.T0), flush=True)
    if rc != 0:
        res["llgo"] = ("build-failed", (so + se)[-4000:])
    else:
        res["llgo"] = ("ran", core.run_prog([out], env=w.env(extra=RUN_ENV), timeout=300, interposer=True))
    return res


REPLAY_SH = "#!/bin/sh\n# rebuilds this module with llgo (from $VERIF_REPO or /repo, -O0) and go, re-runs the C12 trace monitor\nexec python3 %s/checks/c12.py replay \"$(cd \"$(dirname \"$0\")\" && pwd)\"\n" % core.V


def report(chk, name, rf, summary):
    chk.violation(name, rf, summary)
    os.chmod(os.path.join(chk.violations[-1]["replay"], "replay.sh"), 0o755)


def judge(chk, res, stats):
    """turns one run_case result into violations / evidence"""
    name, files, meta = res["name"], res["files"], res["meta"]
    rf = dict(("src/" + k, v) for k, v in files.items())
    rf["meta.json"] = json.dumps(meta, indent=1)
    rf["replay.sh"] = REPLAY_SH
    ref = res["go124"]
    if ref[0] != "ran":
        stats["invalid_generated"] += 1
        stats["invalid_detail"].append("%s: %s" % (name, ref[1][-400:]))
        return
    r = ref[1]
    if r.kind != "exit" or r.rc != 0:
        core.broken("C12: reference run of %s ended with %s rc=%s\n%s" % (name, r.kind, r.rc, r.err[-1500:]))
    rev, rother = parse_trace(r.err)
    selfcheck = monitor(meta, rev)
    if selfcheck:
        core.broken("C12: the monitor fires on the REFERENCE trace of %s (generator or monitor is wrong): %s" % (name, selfcheck[:3]))
    if "go126" in res:
        r6 = res["go126"]
        if r6[0] != "ran" or parse_trace(r6[1].err)[0] != rev and monitor(meta, parse_trace(r6[1].err)[0], rev):
            stats["reference_disagreement"] += 1
            stats["reference_disagreement_cases"].append(name)
            return
    got = res["llgo"]
    rf["trace.go.txt"] = r.err
    if got[0] != "ran":
        rf["llgo-build.log"] = got[1]
        report(chk, name + "-llgo-build", rf, "[compile-failure] llgo cannot build %s which go accepts:\n%s" % (name, got[1][-1200:]))
        return
    g = got[1]
    rf["trace.llgo.txt"] = g.err
    if g.kind == "timeout":
        chk.inconclusive += 1
        return
    gev, gother = parse_trace(g.err)
    stats["programs"] += 1
    stats["events_compared"] += len(rev)
    stats["packages"] += sum(1 for p in meta["pkgs"] if p["live"])
    stats["edges_checked"] += sum(len(p["closure"]) for p in meta["pkgs"] if p["live"])
    chk.cov["evaluations"] += 1
    chk.sig(meta["sig"])
    for f in meta["features"]:
        stats["features"][f] = stats["features"].get(f, 0) + 1
    stats["shapes"][meta["shape"]] = stats["shapes"].get(meta["shape"], 0) + 1
    stats["npkgs"][str(meta["npkgs"])] = stats["npkgs"].get(str(meta["npkgs"]), 0) + 1
    if meta["diamond_pairs"]:
        stats["graphs_with_diamond"] += 1
    problems = monitor(meta, gev, rev)
    if g.kind != "exit" or g.rc != 0:
        problems.insert(0, ("termination", "llgo program ended with %s rc=%s (go: exit 0); last stderr: %s" % (g.kind, g.rc, " | ".join(gother[-3:]))))
    if "VERIF-MEMCPY-OVERLAP" in g.err:
        problems.append(("memcpy-overlap", "overlapping memcpy during initialisation"))
    if problems:
        rules = sorted(set(p[0] for p in problems))
        summary = "[%s] %s (%d packages, shape %s): %d monitor reports; first: %s" % (
            ",".join(rules), name, meta["npkgs"], meta["shape"], len(problems), problems[0][1])
        rf["monitor.txt"] = "\n".join("%s: %s" % p for p in problems)
        report(chk, name, rf, summary + "\n" + "\n".join("%s: %s" % p for p in problems[1:6]))
    return rev


def judge_probe(chk, res, stats):
    """fixed probe of a finding: the oracle is meta["spec_seq"] (what the language specification requires), not the reference"""
    name, files, meta = res["name"], res["files"], res["meta"]
    fid = meta["finding"]
    rf = dict(("src/" + k, v) for k, v in files.items())
    rf["meta.json"] = json.dumps(meta, indent=1)
    rf["replay.sh"] = REPLAY_SH
    ref, got = res["go124"], res["llgo"]
    if ref[0] != "ran" or ref[1].kind != "exit" or ref[1].rc != 0:
        core.broken("C12: probe %s does not build/run with the reference toolchain" % name)
    rev, _ = parse_trace(ref[1].err)
    want = meta["spec_seq"]

    def deviates(ev):
        return any([[l, v] for (p, l, v) in ev if p == q] != want[q] for q in want)
    stats["probe_" + fid] = {"reference_deviates_from_spec_too": deviates(rev)}
    chk.cov["evaluations"] += 1
    chk.sig(meta["sig"])
    if got[0] != "ran":
        rf["llgo-build.log"] = got[1]
        report(chk, name + "-llgo-build", rf, "[compile-failure] llgo cannot build probe %s:\n%s" % (name, got[1][-1200:]))
        return
    g = got[1]
    gev, gother = parse_trace(g.err)
    rf["trace.go.txt"] = ref[1].err
    rf["trace.llgo.txt"] = g.err
    structural = monitor(meta, gev)          # once / dependencies first / main last still have to hold
    if g.kind != "exit" or g.rc != 0:
        structural.insert(0, ("termination", "llgo program ended with %s rc=%s; %s" % (g.kind, g.rc, " | ".join(gother[-3:]))))
    if structural:
        report(chk, name, rf, "[%s] probe %s: %s" % (",".join(sorted(set(p[0] for p in structural))), name, structural[0][1]))
        return
    bad = deviates(gev)
    stats["probe_" + fid]["llgo_deviates_from_spec"] = bad
    if bad:
        mine = ["%s %s" % (l, v) for (p, l, v) in gev if p == "p0"]
        if not chk.known(fid, ""):
            report(chk, name, rf, "[var-order] probe %s: package variables are not initialised in dependency order: got `%s`, the spec requires `%s`" % (
                name, ", ".join(mine), ", ".join("%s %s" % tuple(x) for x in want["p0"])))


def new_stats():
    return {"programs": 0, "events_compared": 0, "packages": 0, "edges_checked": 0, "invalid_generated": 0, "invalid_detail": [],
            "reference_disagreement": 0, "reference_disagreement_cases": [], "features": {}, "shapes": {}, "npkgs": {},
            "graphs_with_diamond": 0}


# ---------------------------------------------------------------------------------------------------- replay
def replay(d):
    d = os.path.abspath(d)
    meta = json.load(open(os.path.join(d, "meta.json")))
    files = {}
    for root, _, fs in os.walk(os.path.join(d, "src")):
        for fn in fs:
            p = os.path.join(root, fn)
            files[os.path.relpath(p, os.path.join(d, "src"))] = open(p).read()
    w = core.Work("C12replay")
    llgo = core.build_llgo(w)
    res = run_case(w, llgo, "replay", files, meta, False)
    bad = 1
    if res["go124"][0] != "ran":
        print("go build failed:\n" + res["go124"][1])
    elif res["llgo"][0] != "ran":
        print("llgo build failed:\n" + res["llgo"][1])
    else:
        rev, _ = parse_trace(res["go124"][1].err)
        gev, other = parse_trace(res["llgo"][1].err)
        g = res["llgo"][1]
        probs = monitor(meta, gev, rev)
        if g.kind != "exit" or g.rc != 0:
            probs.insert(0, ("termination", "%s rc=%s %s" % (g.kind, g.rc, other[-3:])))
        for p in probs:
            print("%s: %s" % p)
        bad = 1 if probs else 0
    w.close()
    print("REPLAY: %s" % ("still violates" if bad else "monitor silent"))
    sys.exit(bad)


if len(sys.argv) > 2 and sys.argv[1] == "replay":
    replay(sys.argv[2])

# ---------------------------------------------------------------------------------------------------- main
chk = core.Check("C12", level="exploration")
w = chk.work
QUICK = chk.tier != "thorough"
chk.assumptions = [
    "reference = go1.24.0 (thorough: go1.26.0 as second reference, disagreeing graphs discarded); per-package order and logged values are compared, "
    "the interleaving of independent packages is not (llgo: import order, go: import-path order - both satisfy the property)",
    "build mode exe only. On this tree `llgo build -buildmode c-archive|c-shared` of a println-only module succeeds but yields nothing executable: "
    "the .a is an archive of per-package archives (linkers do not search nested archives), the .so has no text symbols (package archives are not "
    "whole-archived), and neither mode generates an entry that initialises packages (the header only declares every <pkg>.init for the C host); "
    "programs that pull in more of std die in the header writer (unsupported type clite.Int). The `every build mode` part of the quantifier is not reached",
    "-O0 only (LLVM 14 optimisation pipelines crash on opaque pointers in this sandbox); linux/amd64 only",
    "initialisation of overlaid std packages is observed through their state (tables, sentinels, handles) read by the importers' initialisers, and "
    "through identity of values allocated by their init (a re-initialisation in between changes them); a repeated but idempotent std init is invisible",
    "hidden (interface-dispatched) reads only target variables with side-effecting initialisers, because gc initialises side-effect-free initialisers "
    "statically (earlier than the spec order), which is a known, accepted deviation of the reference",
]
avoid = sorted(a for f in chk.open_findings() for a in f.get("avoid", []))
llgo = core.build_llgo(w)
stats = new_stats()
go126 = not QUICK

# fixed probes first (deterministic, independent of the seed).  The first one imports every std package the generator
# can use: it fills the run's private llgo cache (runtime + std packages, the expensive part) before the parallel phase,
# otherwise eight cold builds would each compile the same std packages.
cases = []
for name, files, meta in fixed.programs(heavy=2):
    cases.append(("fixed-" + name, files, meta))
first = run_case(w, llgo, cases[0][0], cases[0][1], cases[0][2], go126, procs="8")
for name, files, meta in fixed.probes():
    cases.append(("probe-" + name, files, meta))
N = int(os.environ.get("VERIF_C12_GRAPHS", "25" if QUICK else "600"))
heavy = 1
for i in range(N):
    # std packages that are expensive to compile with llgo (os, time, ...) only on a fraction of the graphs
    hv = 2 if (i % 8 == 7) else (1 if i % 2 == 0 else 0)
    files, meta = gen.generate(chk.seed, i, hv, avoid)
    cases.append(("g%03d" % i, files, meta))


def overlay_leg():
    """Additive overlay of a std package with observable original init state (none of the shipped additive overlays has
    any): scratch copy of the working tree + synthetic overlay of encoding/hex registered in runtime/build.go, llgo built
    from that copy, program importing encoding/hex. The original package's variables must be initialised exactly once,
    after the overlay's guard is set and before any importer's initialiser reads them."""
    import shutil, subprocess
    copy = os.path.join(w.dir, "ovltree")
    subprocess.run(["rsync", "-a", "--exclude", ".git", core.REPO + "/", copy + "/"], check=True)
    d = os.path.join(copy, "runtime", "internal", "lib", "encoding", "hex")
    os.makedirs(d, exist_ok=True)
    shutil.copy(os.path.join(core.V, "progs", "c12_overlay", "pkg", "hex_llgo.go"), d)
    bp = os.path.join(copy, "runtime", "build.go")
    src = open(bp).read()
    key = '"internal/runtime/sys":'
    if key not in src or "altPkgAdditive" not in src:
        return ("inconclusive", "runtime/build.go no longer has the additive overlay table the leg hooks into")
    i = src.index(key)
    j = src.index("\n", i)
    src = src[:j + 1] + '\t"encoding/hex": altPkgAdditive,\n' + src[j + 1:]
    open(bp, "w").write(src)
    # llgo itself is built from the working tree with the one registration line overlaid (go build -overlay): only the
    # packages depending on runtime/build.go are recompiled. The copy serves as LLGO_ROOT (it carries the overlay package).
    ollgo = core.build_llgo(w, extra_overlay={os.path.join("runtime", "build.go"): bp})
    pd = os.path.join(w.dir, "ovlprog")
    shutil.copytree(os.path.join(core.V, "progs", "c12_overlay", "prog"), pd)
    exe = os.path.join(pd, "p_llgo.bin")
    rc, so, se = core.llgo_build(w, ollgo, pd, exe, extra_env={"LLGO_ROOT": copy})
    if rc != 0:
        return ("build", (so + se)[-1500:])
    r = core.run_prog([exe], timeout=120)
    want = ["@ overlay-hex var overlayReady",
            "@ main var initialiser ErrLength-initialised true",
            "@ main.main ErrLength-initialised true",
            "@ main.main DecodeString-fails true is-ErrLength true",
            "@ main.main EncodedLen(4) 8"]
    got = [l for l in r.err.split("\n") if l.startswith("@")]
    shutil.rmtree(copy, ignore_errors=True)
    if r.kind != "exit" or r.rc != 0 or got != want:
        return ("mismatch", "expected trace:\n%s\ngot (%s rc=%s):\n%s" % ("\n".join(want), r.kind, r.rc, r.err[-1200:]))
    return ("ok", "")


import threading
ovl_result = {}
ovl_thread = threading.Thread(target=lambda: ovl_result.update(r=overlay_leg()))
ovl_thread.start()
workers = int(os.environ.get("VERIF_C12_WORKERS", "8"))
results = [first] + core.pmap(lambda c: run_case(w, llgo, c[0], c[1], c[2], go126), cases[1:], workers=min(workers, 8))
sampled = 0
for res in results:
    if "spec_seq" in res["meta"]:
        judge_probe(chk, res, stats)
        continue
    rev = judge(chk, res, stats)
    if rev and sampled < 2 and res["name"].startswith("g"):
        sampled += 1
        m = res["meta"]
        chk.sample({"graph": res["name"], "shape": m["shape"], "packages": [[p["id"], p["dir"], [j for j, _ in p["imports"]]] for p in m["pkgs"]],
                    "reference_trace_head": ["@ %s %s %s" % e for e in rev[:12]], "events": len(rev)})
ovl_thread.join()
kind, detail = ovl_result.get("r", ("inconclusive", "overlay leg did not finish"))
chk.cov["additive_overlay_leg"] = kind
if kind == "ok":
    chk.cov["evaluations"] += 1
    chk.sig("additive-overlay:encoding/hex")
elif kind == "inconclusive":
    chk.inconclusive += 1
else:
    chk.violation("additive-overlay", {"hex_llgo.go": open(os.path.join(core.V, "progs", "c12_overlay", "pkg", "hex_llgo.go")).read(),
                                       "main.go": open(os.path.join(core.V, "progs", "c12_overlay", "prog", "main.go")).read(), "detail.txt": detail},
                  "a std package overlaid additively (synthetic overlay of encoding/hex registered as altPkgAdditive) is not initialised as Go requires: "
                  "the original package's variables must be initialised once, before its importers (%s)\n%s" % (kind, detail[:1200]))
for k, v in stats.items():
    chk.cov[k] = v
chk.cov["avoided_constructs"] = avoid
chk.cov["rule"] = ("seeded random import DAGs of 2-8 packages (shapes chain/diamond/fan/layers/dense/random; blank, aliased, dot imports; 1-4 files per "
                   "package; variables whose declaration order differs from dependency order with dependencies through functions, methods, method "
                   "values, closures, generics, pointers; hidden interface reads; multi-block initialisers; several init functions per file; "
                   "probes of overlaid std packages) + fixed probe programs; each compiled by llgo (working tree, -O0) and go; "
                   "partial-order monitor: exactly-once, dependencies-first on the transitive import relation, per-package sequence and values = "
                   "reference, main.main last. evaluations = programs whose llgo trace was monitored; distinct = structural signatures "
                   "(size, edge count, shape, diamond count, feature set)")
if stats["invalid_generated"] * 50 > max(1, len(cases)):
    core.broken("C12: %d of %d generated programs are rejected by the reference toolchain: %s" % (
        stats["invalid_generated"], len(cases), stats["invalid_detail"][:2]))
chk.finish(floor_eval=(15 if QUICK else 300), floor_distinct=(10 if QUICK else 150))

"""C02: numeric operators and conversions are exact for every operand value (E1)."""
import os
import sys

sys.path.insert(0, os.path.join(os.path.dirname(os.path.abspath(__file__)), "..", "rig"))
sys.path.insert(0, os.path.join(os.path.dirname(os.path.abspath(__file__)), "..", "gen"))
import core
import c02_numeval as gen

chk = core.Check("C02")
w = chk.work
llgo = core.build_llgo(w)


def build_and_run(tag, src, go_too=True):
    d = w.sub(tag)
    core.write_module(d, {"main.go": src}, modname="numeval")
    res = {}
    jobs = [("llgo", None)] + ([("go124", core.GO124)] if go_too else [])
    if chk.tier == "thorough" and go_too:
        jobs.append(("go126", core.GO126))

    def one(j):
        name, go = j
        out = os.path.join(d, name + ".bin")
        if name == "llgo":
            rc, so, se = core.llgo_build(w, llgo, d, out)
        else:
            rc, so, se = core.go_build(w, d, out, go=go)
        if rc != 0:
            return name, None, so + se
        r = core.run_prog([out], timeout=1200, interposer=(name == "llgo"))
        return name, r, ""
    for name, r, err in core.pmap(one, jobs, workers=3):
        res[name] = (r, err)
    return res


def parse_blocks(text):
    """{unit: [(blk, n, hash)]}, END count"""
    units = {}
    end = None
    for ln in text.split("\n"):
        p = ln.split(" ")
        if p[0] == "B" and len(p) == 5:
            units.setdefault(p[1], []).append((p[2], p[3], p[4]))
        elif p[0] == "END":
            end = p[1]
    return units, end


src, meta, unit_names = gen.generate(chk.seed, chk.tier)
res = build_and_run("full", src)
for name, (r, err) in res.items():
    if r is None:
        if name == "llgo":
            chk.violation("llgo-build-failure", {"main.go": src, "build.log": err},
                          "llgo cannot build the evaluator program that go accepts:\n" + err[-1500:])
            chk.finish()
        core.broken("reference toolchain %s rejects the generated evaluator:\n%s" % (name, err[-2000:]))
ref = res["go124"][0]
got = res["llgo"][0]
if ref.kind != "exit" or ref.rc != 0:
    core.broken("reference run failed: %s rc=%s\n%s" % (ref.kind, ref.rc, ref.err[-1000:]))
ref_units, ref_end = parse_blocks(ref.err)
if "go126" in res:
    u26, _ = parse_blocks(res["go126"][0].err)
    disagree = [u for u in ref_units if u26.get(u) != ref_units[u]]
    chk.cov["reference_disagreement_units"] = disagree
    for u in disagree:
        ref_units.pop(u)
got_units, got_end = parse_blocks(got.err)
if "VERIF-MEMCPY-OVERLAP" in got.err:
    chk.violation("memcpy-overlap", {"main.go": src, "stderr.txt": got.err[-20000:]}, "overlapping memcpy while evaluating numeric operators")

bad = []
evals = 0
for u, blocks in ref_units.items():
    n = sum(int(b[1]) for b in blocks)
    evals += n
    chk.sig(u)
    if u not in got_units and (got.kind != "exit" or got.rc != 0):
        evals -= n      # never reached: the llgo evaluator died earlier (reported below)
        continue
    if got_units.get(u) != blocks:
        bad.append(u)
chk.cov["evaluations"] = evals
chk.cov["units"] = len(ref_units)
chk.cov["units_by_kind"] = {}
for u in ref_units:
    k = meta[u]["kind"]
    chk.cov["units_by_kind"][k] = chk.cov["units_by_kind"].get(k, 0) + 1
chk.cov["exhaustive_subspaces"] = {"exhaustive": True, "what": "all 2^16 operand pairs of every binary/compare operator on int8 and uint8; all 2^16 (2^8) operands of unary operators, constant-operand variants and conversions on 16-bit (8-bit) integer types; shift counts 0..2w+2 for every (operand type, count type) pair"}
chk.cov["rule"] = ("one generated program evaluates every operator/conversion unit over operand tables it enumerates itself (8-bit pairs exhaustive; "
                   "wider types: boundary x boundary cross product + seeded PRNG operands biased to boundaries; floats: special values x special values + random bit patterns; "
                   "float->int only where representable; complex division with non-finite operands compared by finiteness class); per-unit block checksums under llgo vs go1.24"
                   + (" and go1.26" if "go126" in res else "") + "; a differing unit is rebuilt in record-dump mode to extract the exact (op, operands, result) witness. distinct = operator/type units")
chk.sample({"unit": unit_names[0], "desc": meta[unit_names[0]]["desc"], "blocks": ref_units.get(unit_names[0])})
chk.sample({"unit": "s_shl_uint8_uint16", "desc": meta["s_shl_uint8_uint16"]["desc"], "blocks": ref_units.get("s_shl_uint8_uint16")})

if got.kind != "exit" or got.rc != 0 or got_end != ref_end:
    # program died: the unit after the last complete one is the culprit
    done = list(got_units.keys())
    nxt = None
    for i, u in enumerate(unit_names):
        if u not in got_units:
            nxt = u
            break
    if got.kind == "timeout":
        chk.inconclusive += 1
    else:
        chk.violation("evaluator-died", {"main.go": src, "stderr.tail.txt": got.err[-5000:]},
                      "llgo evaluator ended with %s rc=%s during/after unit %s (%s); go completes normally" % (got.kind, got.rc, nxt, meta.get(nxt, {}).get("desc")))

# ---- witnesses: dump mode for differing units
if bad:
    wit = {}
    for bi in range(0, min(len(bad), 240), 40):
        dsrc, _, _ = gen.generate(chk.seed, chk.tier, only=bad[bi:bi + 40], dump=True)
        dres = build_and_run("dump%d" % bi, dsrc)
        if dres["llgo"][0] is None or dres["go124"][0] is None:
            core.broken("dump program failed to build")
        rl = [l for l in dres["go124"][0].err.split("\n") if l.startswith("R ")]
        gl = [l for l in dres["llgo"][0].err.split("\n") if l.startswith("R ")]
        for a, b in zip(rl, gl):
            if a != b:
                u = a.split(" ")[1]
                wit.setdefault(u, []).append((a, b))
    open_f = {f["id"]: f for f in chk.open_findings()}
    for u in bad:
        ws = wit.get(u, [])
        desc = meta[u]["desc"]
        # classifier for the (formerly open) wide-count shift finding
        if "C02-shift-wide-count" in open_f and meta[u]["kind"] == "shift":
            parts = u.split("_")
            t, ct = parts[2], parts[3]
            if gen.BITS[ct] > gen.BITS[t] and ws and all(int(a.split(" ")[3]) >= (1 << gen.BITS[t]) for a, _ in ws):
                chk.known("C02-shift-wide-count", "")
                continue
        first = ws[0] if ws else ("(no differing record in dump: checksum-only difference)", "")
        only_src, _, _ = gen.generate(chk.seed, chk.tier, only=[u], dump=True)
        chk.violation("unit-" + u, {"main.go": only_src, "go.mod": "module numeval\n\ngo 1.24\n",
                                    "witness.txt": "\n".join("go:   %s\nllgo: %s" % p for p in ws[:50]),
                                    "replay.sh": "#!/bin/sh\n# build main.go with llgo (-O0) and with go; compare the R lines on stderr\ncd \"$(dirname \"$0\")\" && exec python3 %s/rig/replay_diff.py .\n" % core.V},
                      "%s [%s]: %d differing records; first: go `%s` vs llgo `%s` (record = R unit a b result, as uint64 bits)" % (u, desc, len(ws), first[0], first[1]))
chk.finish(floor_eval=1000000, floor_distinct=1000)

"""C05: slices and strings - append / copy / slicing / iteration / conversion semantics (engine E1).

One FIXED slice/string VM (progs/c05_slicevm) is compiled once by llgo built from the working tree (gc build and a
`-tags nogc` build for memcheck) and by the reference go toolchain, then fed thousands of seeded random scripts
(gen/c05_slices.py).  Monitors: per-step output equality with the reference run; in-program MONITOR lines (append
length / cap>=len / shares-storage-iff-capacity-sufficed, also compiled by go = dual run); the LD_PRELOAD memcpy-overlap
interposer on every llgo run (report inside runtime slice/string code = violation); valgrind memcheck on ~1 % of the
scripts (invalid access = violation); a crash of the llgo VM where go completes = violation.  Failing scripts are
minimised by delta debugging on steps (re-validated by the spec model) before the replay dir is written."""
import bisect
import os
import re
import shutil
import subprocess
import sys

sys.path.insert(0, os.path.join(os.path.dirname(os.path.abspath(__file__)), "..", "rig"))
sys.path.insert(0, os.path.join(os.path.dirname(os.path.abspath(__file__)), "..", "gen"))
import core
import c05_slices as gen

import time
chk = core.Check("C05")
w = chk.work
phase = {}
_t = [time.time()]


def lap(name):
    phase[name] = round(time.time() - _t[0], 1)
    _t[0] = time.time()


SRC = os.path.join(core.V, "progs", "c05_slicevm")
GENPY = os.path.join(core.V, "gen", "c05_slices.py")
QUICK = chk.tier == "quick"
NSCRIPTS = int(os.environ.get("VERIF_C05_SCRIPTS", "4096" if QUICK else "400000"))
PER_BATCH = 64 if QUICK else 500
VG_EVERY = 100          # every 100th script also runs under valgrind memcheck (nogc build)
VG_BATCH = 48
ISOLATE_MAX = 2         # scripts blamed per process for interposer / memcheck reports (stderr is not interleaved with the trace)
WORKERS = min(core.NCPU, int(os.environ.get("VERIF_C05_WORKERS", "16")))
RT = "github.com/goplus/llgo/runtime/internal/runtime."
RT_SLICE_STRING = re.compile(r"runtime/internal/runtime\.(Slice\w*|GrowSlice|NewSlice3|MakeSlice|nextslicecap|String\w*|NewStringIter|decoderune|encoderune)\b")

# ------------------------------------------------------------------ builds
llgo = core.build_llgo(w)
lap("build_llgo")
bd = w.sub("bin")
srcs = {}
for name in ("llgo", "nogc", "go124", "go126"):
    d = w.sub("src-" + name)
    for fn in sorted(os.listdir(SRC)):
        shutil.copy(os.path.join(SRC, fn), os.path.join(d, fn))
    srcs[name] = d
BIN = {n: os.path.join(bd, "vm-" + n + ".bin") for n in srcs}


def build(name):
    if name == "llgo":
        return name, core.llgo_build(w, llgo, srcs[name], BIN[name])
    if name == "nogc":
        return name, core.llgo_build(w, llgo, srcs[name], BIN[name], tags="nogc")
    return name, core.go_build(w, srcs[name], BIN[name], go=core.GO124 if name == "go124" else core.GO126)


jobs = ["llgo", "nogc", "go124"] + ([] if QUICK else ["go126"])
for name, (rc, so, se) in core.pmap(build, jobs, workers=4):
    if rc != 0:
        if name in ("llgo", "nogc"):
            chk.violation("llgo-build-failure-" + name, {"build.log": so + se, "replay.sh": "#!/bin/sh\ncd %s && echo 'build progs/c05_slicevm with llgo build -O0%s'\n" % (SRC, " -tags nogc" if name == "nogc" else "")},
                          "llgo cannot build the slice/string VM (progs/c05_slicevm%s) that go accepts:\n%s" % (", -tags nogc" if name == "nogc" else "", (so + se)[-1500:]))
            chk.finish()
        core.broken("reference toolchain %s rejects the VM:\n%s" % (name, (so + se)[-2000:]))


lap("build_vms")


def symtab(path):
    rc, so, se = core.sh(["nm", "-n", "--defined-only", path])
    addrs, names = [], []
    for ln in so.split("\n"):
        p = ln.split(" ", 2)
        if len(p) == 3 and p[1] in "TtWw":
            addrs.append(int(p[0], 16))
            names.append(p[2])
    return addrs, names


SYM = symtab(BIN["llgo"])


def symbolise(addr):
    i = bisect.bisect_right(SYM[0], addr) - 1
    return SYM[1][i] if i >= 0 else "?"


# ------------------------------------------------------------------ running and comparing

def run_vm(which, text, vg=False):
    if vg:
        cmd = ["valgrind", "-q", "--num-callers=16", "--error-exitcode=0", "--error-limit=no", BIN[which]]
        return core.run_prog(cmd, stdin=text, timeout=1800, quiesce=False)
    return core.run_prog([BIN[which]], stdin=text, timeout=300, interposer=(which in ("llgo", "nogc")))


def blocks(out):
    """stdout -> ({script id: [lines]}, [ids in order], ended)"""
    res, order, cur = {}, [], None
    ended = False
    for ln in out.split("\n"):
        if ln.startswith("# "):
            try:
                cur = int(ln[2:])
            except ValueError:
                cur = -1
            order.append(cur)
            res[cur] = []
        elif ln == "END":
            ended = True
        elif ln and cur is not None:
            res[cur].append(ln)
    return res, order, ended


def overlap_reports(err):
    """interposer reports -> list of symbolised frame lists"""
    reps = []
    cur = None
    for ln in err.split("\n"):
        if ln.startswith("VERIF-MEMCPY-OVERLAP"):
            cur = []
            reps.append(cur)
        elif cur is not None:
            m = re.search(r"\[0x([0-9a-f]+)\]\s*$", ln)
            if m and "memcpy_overlap.so" not in ln and "libc.so" not in ln:
                cur.append(symbolise(int(m.group(1), 16)))
            elif not m:
                cur = None
    return reps


VG_NOISE = "clite/signal.Signal"      # start-up: 24-byte darwin-layout sigaction passed to sigaction(2) (DESIGN 7-16)


def vg_errors(err):
    """valgrind text -> list of (headline, [frames]) for Invalid read/write/free, minus the known start-up noise"""
    out = []
    blk = []
    for ln in err.split("\n") + ["==0== "]:
        m = re.match(r"==\d+== ?(.*)$", ln)
        if not m:
            continue
        t = m.group(1)
        if t.strip() == "":
            if blk:
                head = blk[0]
                if (head.startswith("Invalid ") or "overlap" in head) and not any(VG_NOISE in x for x in blk):
                    frames = [x.strip() for x in blk[1:] if x.strip().startswith(("at ", "by "))]
                    out.append((head, frames))
            blk = []
        else:
            blk.append(t)
    return out


def sid_of(script):
    return int(script[0].split()[1])


def text_of(scripts):
    return "".join("\n".join(sc) + "\n" for sc in scripts)


def evaluate(scripts, ref, mode):
    """Runs the llgo VM (mode 'llgo' = gc build + interposer, 'vg' = nogc build under memcheck) over the scripts and
    compares with the reference blocks.  Returns (fails, stats): fails = [(sid, kind, detail)], kind in
    diff | crash | hang | overlap | overlap-other | memcheck ; a crash only blames the script that was running."""
    fails = []
    stats = {"steps": 0, "scripts": 0, "procs": 0, "inconclusive": 0, "overlap_other": 0}
    todo = list(scripts)
    while todo:
        r = run_vm("nogc" if mode == "vg" else "llgo", text_of(todo), vg=(mode == "vg"))
        stats["procs"] += 1
        if r.kind == "timeout":
            stats["inconclusive"] += 1
            return fails, stats
        got, order, ended = blocks(r.out)
        died = not (r.kind == "exit" and r.rc == 0 and ended)
        culprit = order[-1] if (died and order) else None
        if died and not order:
            culprit = sid_of(todo[0])
        nxt = []
        for k, sc in enumerate(todo):
            sid = sid_of(sc)
            if sid == culprit:
                what = "hang (all threads asleep)" if r.kind == "deadlock" else "%s rc=%s" % (r.kind, r.rc)
                fails.append((sid, "hang" if r.kind == "deadlock" else "crash", "llgo VM ended with %s in script %d after %d of %d reference lines; stderr tail: %s" % (
                    what, sid, len(got.get(sid, [])), len(ref.get(sid, [])), r.err[-600:].strip())))
                nxt = todo[k + 1:]
                break
            a, b = ref.get(sid), got.get(sid)
            if a is None:
                continue        # discarded (reference disagreement)
            stats["scripts"] += 1
            stats["steps"] += len(a)
            if a != b:
                b = b or []
                i = 0
                while i < len(a) and i < len(b) and a[i] == b[i]:
                    i += 1
                x = a[i] if i < len(a) else "<missing>"
                y = b[i] if i < len(b) else "<missing>"
                fails.append((sid, "diff", "step %d: go `%s` vs llgo `%s`" % (i + 1, x, y)))
        if mode == "llgo":
            reps = overlap_reports(r.err)
            rt = [fr for fr in reps if any(RT_SLICE_STRING.search(f) for f in fr)]
            stats["overlap_other"] += len(reps) - len(rt)
            if rt:
                # which script? stderr is not interleaved with stdout: re-run the scripts of this process one by one
                if len(todo) == 1:
                    fails.append((sid_of(todo[0]), "overlap", "memcpy with overlapping ranges in %s" % " <- ".join(f.replace(RT, "runtime.") for f in rt[0][:4])))
                else:
                    upto = todo if not died else todo[:len(todo) - len(nxt)]
                    found = 0
                    for sc in upto:
                        r1 = run_vm("llgo", text_of([sc]))
                        stats["procs"] += 1
                        rp = [fr for fr in overlap_reports(r1.err) if any(RT_SLICE_STRING.search(f) for f in fr)]
                        if rp:
                            fails.append((sid_of(sc), "overlap", "memcpy with overlapping ranges in %s" % " <- ".join(f.replace(RT, "runtime.") for f in rp[0][:4])))
                            found += 1
                            if found >= ISOLATE_MAX:
                                break       # enough witnesses from this process; the rest would be the same report
        else:
            errs = vg_errors(r.err)
            if errs:
                upto = todo if not died else todo[:len(todo) - len(nxt)]
                if len(upto) == 1:
                    h, fr = errs[0]
                    fails.append((sid_of(upto[0]), "memcheck", "%s; %s" % (h, " | ".join(fr[:5]))))
                else:
                    found = 0
                    for sc in upto:
                        r1 = run_vm("nogc", text_of([sc]), vg=True)
                        stats["procs"] += 1
                        e1 = vg_errors(r1.err)
                        if e1:
                            h, fr = e1[0]
                            fails.append((sid_of(sc), "memcheck", "%s; %s" % (h, " | ".join(fr[:5]))))
                            found += 1
                            if found >= ISOLATE_MAX:
                                break
        todo = nxt
    return fails, stats


def reference(scripts):
    """reference blocks {sid: lines}; scripts on which go1.24 and go1.26 disagree are dropped (thorough only)"""
    r = run_vm("go124", text_of(scripts))
    ref, order, ended = blocks(r.out)
    if r.kind != "exit" or r.rc != 0 or not ended:
        return None, "reference VM (go1.24) failed: %s rc=%s stderr=%s" % (r.kind, r.rc, r.err[-800:]), 0
    for sid, lines in ref.items():
        for ln in lines:
            if "MONITOR" in ln or " BAD" in ln:
                return None, "in-program monitor / VM self-check fired under the reference toolchain (check bug): script %d: %s" % (sid, ln), 0
    dis = 0
    if not QUICK:
        r2 = run_vm("go126", text_of(scripts))
        ref2, _, e2 = blocks(r2.out)
        if r2.kind != "exit" or r2.rc != 0 or not e2:
            return None, "reference VM (go1.26) failed: %s rc=%s" % (r2.kind, r2.rc), 0
        for sid in list(ref):
            if ref2.get(sid) != ref[sid]:
                del ref[sid]
                dis += 1
    return ref, None, dis


REPLAY_SH = """#!/bin/sh
# builds the VM sources in this directory with llgo (-O0, from $VERIF_REPO or /repo) and with go, feeds stdin.txt to both
# and prints the first differing line (stdout = VM trace, stderr = interposer reports)
cd "$(dirname "$0")" && exec python3 %s/rig/replay_diff.py .
""" % core.V


def replay_files(stdin_text, extra=None):
    files = {"stdin.txt": stdin_text, "replay.sh": REPLAY_SH}
    for fn in sorted(os.listdir(SRC)):
        with open(os.path.join(SRC, fn)) as f:
            files[fn] = f.read()
    if extra:
        files.update(extra)
    return files


def report(name, files, summary):
    chk.violation(name, files, summary)
    try:
        os.chmod(os.path.join(chk.violations[-1]["replay"], "replay.sh"), 0o755)
    except OSError:
        pass


# ------------------------------------------------------------------ probes of known findings (run first, fixed scripts)

def norm(lines, avoid=()):
    n = gen.revalidate(lines, avoid)
    if n is None:
        core.broken("fixed probe script rejected by the spec model: %r" % (lines,))
    return n


PROBES = [
    ("C05-append-zero-size", "zs-append", "append to a slice of zero-size elements (struct{}) must grow len", [
        "1 0 0 0 0 0", "3 0 0 0 1 5 0", "4 0 0 5 1 0", "3 0 1 1 2 7 0", "1 0 2 3 8 0", "5 0 2 2 -1 0 -1 0 0", "15 0 2 0", "12 0 0 0", "12 0 1 0"]),
    ("C05-append-overlap-memcpy", "overlap-append", "append(s[:i], s[j:]...) in place must not memcpy over overlapping ranges", [
        "2 4 0 9 1000 0", "5 4 0 0 2 0 3 9 0", "1 4 1 4 16 0", "10 4 1 0 11", "10 4 1 3 44", "5 4 1 1 1 1 0 4 0",
        "2 5 2 9 7 0", "5 5 2 2 1 2 2 9 0", "2 1 3 9 65 0", "5 1 3 3 6 3 0 3 0", "12 4 0 0", "12 4 1 0", "12 5 2 0", "12 1 3 0"]),
    ("C05-empty-string-conv-nil", "empty-conv", "[]byte(\"\") and []rune(\"\") must be empty non-nil slices", [
        "30 0 x", "37 0 0", "39 0 0", "49 0", "57 1 0", "37 1 1", "39 1 1"]),
]

avoid = []
probe_state = {}
for fid, construct, what, lines in PROBES:
    sc = ["0 %d" % (900000 + len(probe_state))] + norm(lines)
    ref, err, _ = reference([sc])
    if ref is None:
        core.broken("probe %s: %s" % (fid, err))
    fails, _ = evaluate([sc], ref, "llgo")
    probe_state[fid] = bool(fails)
    if fails:
        avoid.append(construct)
        if not chk.known(fid, what):
            report("probe-" + fid, replay_files(text_of([sc])),
                   "fixed probe for %s fails (not listed as an open finding): %s\n%s" % (fid, what, fails[0][2]))
lap("probes")
avoid = sorted(avoid)
AVOID_ARG = ",".join(avoid)
chk.cov["avoided_constructs"] = avoid
chk.cov["probes_failing"] = sorted(k for k, v in probe_state.items() if v)

# ------------------------------------------------------------------ the random scripts


def gen_text(args):
    rc, so, se = core.sh([sys.executable, GENPY, str(chk.seed)] + args + ([AVOID_ARG] if AVOID_ARG else []), timeout=1800)
    if rc != 0:
        core.broken("generator failed: " + se[-1500:])
    scripts = []
    for ln in so.split("\n"):
        if ln.startswith("0 "):
            scripts.append([ln])
        elif ln:
            scripts[-1].append(ln)
    return scripts


def do_batch(job):
    mode, arg = job
    if mode == "llgo":
        scripts = gen_text([str(arg), str(min(PER_BATCH, NSCRIPTS - arg))])
    else:
        scripts = gen_text(["ids", ",".join(str(i) for i in arg)])
    ref, err, dis = reference(scripts)
    if ref is None:
        return {"broken": err}
    fails, stats = evaluate(scripts, ref, mode)
    classes = {}
    ops = {}
    for sc in scripts:
        if sid_of(sc) not in ref:
            continue
        for ln in sc[1:]:
            c = ln.partition("#")[2].strip()
            classes[c] = classes.get(c, 0) + 1
            o = c.split(" ")[0]
            ops[o] = ops.get(o, 0) + 1
    byid = {sid_of(sc): sc for sc in scripts}
    sample = None
    if mode == "llgo" and arg in (0, PER_BATCH, 2 * PER_BATCH) and scripts:
        sc = scripts[-1]
        sample = {"script": sc[:7], "reference_output": ref.get(sid_of(sc), [])[:6]}
    return {"mode": mode, "fails": [(sid, kind, det, byid[sid]) for sid, kind, det in fails if sid in byid], "stats": stats,
            "classes": classes, "ops": ops, "ref_disagree": dis, "sample": sample}


jobs = [("llgo", first) for first in range(0, NSCRIPTS, PER_BATCH)]
vg_ids = [i for i in range(NSCRIPTS) if i % VG_EVERY == 7]
jobs += [("vg", vg_ids[k:k + VG_BATCH]) for k in range(0, len(vg_ids), VG_BATCH)]
# memcheck batches are the slow ones: start them first
jobs.sort(key=lambda j: 0 if j[0] == "vg" else 1)
results = core.pmap(do_batch, jobs, workers=WORKERS)
lap("scripts")

tot = {"llgo": {"steps": 0, "scripts": 0, "procs": 0}, "vg": {"steps": 0, "scripts": 0, "procs": 0}}
classes, ops = {}, {}
allfails = []
ref_dis = 0
overlap_other = 0
for res in results:
    if "broken" in res:
        core.broken(res["broken"])
    m = res["mode"]
    for k in ("steps", "scripts", "procs"):
        tot[m][k] += res["stats"][k]
    chk.inconclusive += res["stats"]["inconclusive"]
    overlap_other += res["stats"]["overlap_other"]
    ref_dis += res["ref_disagree"]
    for c, n in res["classes"].items():
        classes[c] = classes.get(c, 0) + n
    for c, n in res["ops"].items():
        ops[c] = ops.get(c, 0) + n
    for f in res["fails"]:
        allfails.append((m,) + f)
    if res["sample"]:
        chk.sample(res["sample"])

for c in classes:
    chk.sig(c)
chk.cov["evaluations"] = tot["llgo"]["steps"] + tot["vg"]["steps"]
chk.cov["scripts"] = tot["llgo"]["scripts"]
chk.cov["steps_compared"] = tot["llgo"]["steps"]
chk.cov["memcheck_scripts"] = tot["vg"]["scripts"]
chk.cov["memcheck_steps"] = tot["vg"]["steps"]
chk.cov["vm_processes"] = tot["llgo"]["procs"] + tot["vg"]["procs"]
chk.cov["steps_by_op"] = {k: ops[k] for k in sorted(ops)}
chk.cov["reference_disagreement_scripts"] = ref_dis
chk.cov["overlap_reports_outside_runtime_slice_string"] = overlap_other
chk.cov["failing_scripts"] = len(allfails)
chk.cov["rule"] = ("fixed slice/string VM compiled once by llgo (working tree, -O0; gc build under the memcpy-overlap interposer, nogc build under valgrind memcheck for every %dth script) "
                   "and by go1.24%s; seeded random scripts (pools of 8 slices per element size 0/1/2/3/4/8/24 bytes + 8 strings; make/literal/append-values/append-slice incl. self-overlap/"
                   "copy/2-,3-index reslice/array window/unsafe.Slice/clear/store/alias probe/slice->array conversions; string concat/compare/index/slice/range/[]byte/[]rune/string(int) conversions/"
                   "map key on valid and invalid UTF-8; lengths around 0,1,2,255..257,1024...) generated only where the spec model determines the outcome; per-step output equality with the reference; "
                   "cap compared only where the spec fixes it; in-program monitors append-len / cap>=len / shares-iff-capacity-sufficed. distinct = (operation, element type, structural class) triples reached"
                   % (VG_EVERY, "" if QUICK else " and go1.26"))

# ------------------------------------------------------------------ minimise + report failures


def first_kind(sc, mode, ref):
    fails, _ = evaluate([sc], ref, mode)
    for sid, kind, det in fails:
        return kind, det
    return None, None


def opcode_of(det):
    m = re.search(r"go `\d+ (\d+)", det or "")
    return m.group(1) if m else None


def minimise(sc, mode, kind, det):
    """delta debugging on the steps of one script; candidates must stay valid under the spec model"""
    head, lines = sc[0], sc[1:]
    want_op = opcode_of(det) if kind == "diff" else None
    budget = [220]

    def test(cand):
        if budget[0] <= 0:
            return False
        n = gen.revalidate(cand, avoid)
        if n is None:
            return False
        budget[0] -= 1
        s2 = [head] + n
        ref, err, _ = reference([s2])
        if ref is None:
            return False
        k, d = first_kind(s2, mode, ref)
        return k == kind and (want_op is None or opcode_of(d) == want_op)

    n = 2
    while len(lines) >= 2:
        chunk = max(1, len(lines) // n)
        subsets = [lines[i:i + chunk] for i in range(0, len(lines), chunk)]
        reduced = False
        for i in range(len(subsets)):
            cand = [x for j, sub in enumerate(subsets) if j != i for x in sub]
            if cand and test(cand):
                lines = cand
                n = max(n - 1, 2)
                reduced = True
                break
        if not reduced:
            if n >= len(lines):
                break
            n = min(len(lines), n * 2)
    out = gen.revalidate(lines, avoid) or lines
    return [head] + out


def classify(kind, det, stepcls):
    if kind == "overlap" and re.search(r"in runtime\.SliceAppend\b", det):
        return "C05-append-overlap-memcpy"
    if kind == "diff" and re.match(r"app[vns] Z ", stepcls + " ") and ("MONITOR:append-len" in det):
        return "C05-append-zero-size"
    if kind == "diff" and re.match(r"(s2b|s2r|s2rp) ", stepcls + " "):
        m = re.search(r"go `(.*)` vs llgo `(.*)`$", det)
        if m and m.group(1) == m.group(2).replace(" nil", "") and "l=0" in m.group(1):
            return "C05-empty-string-conv-nil"
    return None


seen_names = {}
allfails.sort(key=lambda f: (f[1], f[0]))
def step_class(kind, det, script):
    """structural class of the failing step (diff), or the runtime frame (interposer / memcheck reports)"""
    m = re.search(r"step (\d+):", det or "")
    fr = re.search(r"runtime\.(\w+)", det or "")
    if kind in ("crash", "hang"):
        c = re.search(r"after (\d+) of \d+ reference lines", det or "")
        if c and int(c.group(1)) == 0:
            return "before-first-step"
        if c and int(c.group(1)) + 1 < len(script):
            return script[int(c.group(1)) + 1].partition("#")[2].strip()
    if m and int(m.group(1)) < len(script):
        return script[int(m.group(1))].partition("#")[2].strip()
    if kind in ("overlap", "memcheck") and fr:
        return fr.group(1)
    return script[-1].partition("#")[2].strip() if len(script) > 1 else ""


budget_min = 6
pre_seen = {}
for mode, sid, kind, det, sc in allfails:
    if len(chk.violations) >= 8:
        break
    # second line of defence for OPEN findings (the generator already avoids their constructs): a failure that
    # matches the narrow class of an open finding is reported as that finding, anything else is a violation
    pre = step_class(kind, det, sc)
    fid = classify(kind, det or "", pre)
    if fid and chk.known(fid, ""):
        chk.cov.setdefault("slipped_through_avoid", []).append({"finding": fid, "script": sid})
        continue
    prekey = (kind, pre)
    pre_seen[prekey] = pre_seen.get(prekey, 0) + 1
    if pre_seen[prekey] > 1:
        continue        # same failing step class as an already reported script
    small, d2 = sc, det
    if budget_min > 0:
        budget_min -= 1
        cand = minimise(sc, mode, kind, det)
        ref, _, _ = reference([cand])
        k2, dd = first_kind(cand, mode, ref) if ref is not None else (None, None)
        if k2 == kind:
            small, d2 = cand, dd
    stepcls = step_class(kind, d2, small)
    name = re.sub(r"[^A-Za-z0-9]+", "-", "%s-%s" % (kind, stepcls)).strip("-")[:70]
    if name in seen_names:
        seen_names[name] += 1
        continue
    seen_names[name] = 1
    files = replay_files(text_of([small]), {"full-script.txt": text_of([sc])})
    if mode == "vg":
        files["tags.txt"] = "nogc\n"
        files["MEMCHECK.txt"] = "found under valgrind memcheck on the -tags nogc build: llgo build -O0 -tags nogc -o vm . && valgrind -q ./vm < stdin.txt\n"
    summary = ("%s in script %d (seed %d, %s leg), minimised to %d steps:\n%s\n%s" % (
        kind, sid, chk.seed, "memcheck/nogc" if mode == "vg" else "gc+interposer", len(small) - 1, d2 or det, "\n".join(small[1:][:25])))
    report(name, files, summary)
chk.cov["failure_classes"] = seen_names
lap("minimise_report")
chk.cov["phase_s"] = phase

chk.finish(floor_eval=100000 if NSCRIPTS >= 4096 else 1000, floor_distinct=150)

"""C10: channels and select obey Go channel semantics under every schedule.

Leg A (E3): the real z_chan.go from the working tree, compiled against the controllable scheduler,
            driven by generated workloads; history monitors + stuck-state oracle (sched/cmd/chanrun).
            Null-hypothesis run of the same monitors on a textbook-correct channel first.
Leg B (E1): compiled llgo programs with schedule-independent results, run repeatedly natively and
            pinned to few CPUs; quiescence deadlock detector (checks/c10_legb.py).
"""
import json
import os
import sys

sys.path.insert(0, os.path.join(os.path.dirname(os.path.abspath(__file__)), "..", "rig"))
import core
import sched

ZCHAN = "runtime/internal/runtime/z_chan.go"
IMPORTS = [("github.com/goplus/llgo/runtime/internal/clite", 'c "schedharness/c"'),
           ("github.com/goplus/llgo/runtime/internal/clite/pthread/sync", 'sync "schedharness/psync"')]


def known_class(cls):
    """maps a failure class of chanrun to the id of the finding that covers it (or None)"""
    if cls == "default-while-ready":
        return "C10-try-fails-while-peer-waits-its-turn"
    if "parked-in-unbuf-recv" in cls and cls.startswith("stuck:"):
        return "C10-select-sleeps-inside-unbuffered-recv"
    if cls == "stuck:unbuf-select-recv-vs-select-send/recv-select-has-send-case":
        return "C10-select-with-send-case-refuses-select-senders"
    return None


def prepare(chk, name, real=True):
    d = os.path.join(chk.work.dir, name)
    sched.copy_module(d)
    rt = os.path.join(d, "rt")
    if real:
        sched.rewrite_imports(os.path.join(core.REPO, ZCHAN), os.path.join(rt, "z_chan.go"), "rt", IMPORTS)
    else:
        for fn in os.listdir(rt):
            os.remove(os.path.join(rt, fn))
        os.rename(os.path.join(d, "rtref", "refchan.go"), os.path.join(rt, "refchan.go"))
    if os.path.isdir(os.path.join(d, "rtref")):
        import shutil
        shutil.rmtree(os.path.join(d, "rtref"))
    out = os.path.join(chk.work.dir, name + ".bin")
    rc, log = sched.go_build(chk.work, d, "./cmd/chanrun", out)
    return rc, log, out, d


def replay(path):
    chk = core.Check("C10")
    rc, log, binary, _ = prepare(chk, "replay")
    if rc != 0:
        print(log)
        sys.exit(2)
    f = os.path.join(path, "failure.json") if os.path.isdir(path) else path
    r = core.sh([binary, "-replay", f], timeout=300)
    print(r[1] + r[2])
    chk.work.close()
    sys.exit(1 if r[0] == 1 else 0)


def main():
    chk = core.Check("C10")
    thorough = chk.tier == "thorough"
    # ---- null hypothesis: monitors must be silent on the textbook implementation
    rc, log, refbin, _ = prepare(chk, "ref", real=False)
    if rc != 0:
        core.broken("reference harness does not build:\n" + log[-3000:])
    nref = 300000 if thorough else 32000
    reps = sched.fanout(refbin, nref, 16, os.path.join(chk.work.dir, "ref-out"), start=chk.seed * 10000019)
    ref_runs = 0
    for r in reps:
        if "_crash" in r:
            core.broken("null-hypothesis run crashed: %s\n%s" % (r["_crash"], r["_out"]))
        ref_runs += r["runs"]
        if r["failure_class_counts"]:
            core.broken("MONITOR UNSOUND: the monitors fired on the textbook-correct channel: %s\n%s" % (
                r["failure_class_counts"], json.dumps(r["failures"][:1], indent=1)[:3000]))
    chk.cov["null_hypothesis_runs_silent"] = ref_runs
    # systematic leg on the textbook channel (same monitors, every schedule within the bound)
    sys_n = 1200 if thorough else 128
    sys_args = ["-sys", "3" if thorough else "2", "-spur", "0", "-maxruns", "60000" if thorough else "8000"]
    reps = sched.fanout(refbin, sys_n // 4, 16, os.path.join(chk.work.dir, "ref-sys-out"), extra_args=sys_args, start=chk.seed * 10000019)
    for r in reps:
        if "_crash" in r:
            core.broken("null-hypothesis systematic run crashed: %s\n%s" % (r["_crash"], r["_out"]))
        ref_runs += r["runs"]
        if r["failure_class_counts"] or r.get("sys_diverged_runs"):
            core.broken("MONITOR UNSOUND: the monitors fired on the textbook-correct channel (systematic leg, diverged=%s): %s\n%s" % (
                r.get("sys_diverged_runs"), r["failure_class_counts"], json.dumps(r["failures"][:1], indent=1)[:3000]))
    chk.cov["null_hypothesis_runs_silent"] = ref_runs

    # ---- the real z_chan.go
    rc, log, binary, moddir = prepare(chk, "real")
    if rc != 0:
        chk.violation("harness-build", {"build.log": log},
                      "the real z_chan.go no longer compiles against the scheduler stand-ins (API used by generated code changed?):\n" + log[-1500:])
        chk.cov["evaluations"] = ref_runs
        chk.finish(floor_eval=1, floor_distinct=0)

    # probes of open findings first
    pdir = os.path.join(sched.SCHED, "probes")
    for f in chk.open_findings():
        p = os.path.join(pdir, f["id"] + ".json")
        if os.path.exists(p):
            r = core.sh([binary, "-replay", p], timeout=120)
            if r[0] == 1:
                chk.known(f["id"], f["what"])

    total = 20000000 if thorough else 320000
    reps = sched.fanout(binary, total, 16, os.path.join(chk.work.dir, "real-out"), start=chk.seed * 10000019, timeout=7200)
    # systematic leg: for each small workload EVERY schedule with at most `bound` pre-emptions (and `spur` spurious wake-ups)
    sreps = sched.fanout(binary, sys_n, 16, os.path.join(chk.work.dir, "real-sys-out"), extra_args=sys_args, start=chk.seed * 10000019, timeout=7200)
    sysagg = {"sys_workloads": 0, "sys_workloads_enumerated_completely": 0, "sys_workloads_truncated": 0, "sys_diverged_runs": 0, "runs": 0}
    for r in sreps:
        if "_crash" not in r:
            for k in sysagg:
                sysagg[k] += r.get(k, 0)
            sysagg["sys_max_schedules_of_one_workload"] = max(sysagg.get("sys_max_schedules_of_one_workload", 0), r.get("sys_max_schedules_of_one_workload", 0))
    chk.cov["systematic_leg"] = dict(sysagg, preemption_bound=int(sys_args[1]), spurious_bound=int(sys_args[3]),
                                     subspace="every schedule (decision at each lock/unlock/wait/signal/broadcast, Signal victim included) with at most the "
                                              "stated number of pre-emptions and spurious wake-ups, for each of the small workloads (2-3 threads x 1-3 ops, 1-2 channels); "
                                              "every schedule with <= 1 pre-emption is always completed first; workloads whose schedule count exceeds the per-workload cap are counted as truncated, not as enumerated",
                                     exhaustive=(sysagg["sys_workloads_truncated"] == 0 and sysagg["sys_diverged_runs"] == 0))
    if sysagg["sys_diverged_runs"]:
        core.broken("systematic leg: %d runs did not follow their decision prefix (harness non-determinism)" % sysagg["sys_diverged_runs"])
    reps = reps + sreps
    agg = {"runs": 0, "distinct_schedules": 0, "distinct_workloads": 0, "events": 0, "scheduler_steps": 0,
           "quiescent_deadlocks_allowed_by_model": 0, "step_limit_inconclusive": 0, "porcupine_histories": 0,
           "porcupine_operations": 0, "porcupine_timeouts": 0, "address_order_unreachable": 0}
    pairs, sites, classes = {}, {}, {}
    fails = []
    for r in reps:
        if "_crash" in r:
            # the harness process died: real code panicked (e.g. nil rdone) or deadlocked the scheduler itself
            chk.violation("harness-crash-%d" % r["_from"], {"output.txt": r["_out"]},
                          "chanrun died (%s) on workloads %d..%d: the channel code panicked or broke a lock-discipline assertion:\n%s" % (
                              r["_crash"], r["_from"], r["_from"] + r["_n"], r["_out"][-1200:]))
            continue
        for k in agg:
            agg[k] += r.get(k, 0)
        sched.merge_counts(pairs, r["op_state_pairs"])
        sched.merge_counts(sites, r["yield_sites"])
        sched.merge_counts(classes, r["failure_class_counts"])
        fails += r.get("failures") or []
        if r.get("sample_history") and not chk.cov["samples"]:
            chk.sample({"history (thread#op [call step, return step] operation)": r["sample_history"]})
    chk.cov.update(agg)
    chk.cov["evaluations"] = agg["runs"]
    chk.cov["distinct_nontrivial"] = agg["distinct_schedules"]
    chk.cov["inconclusive"] = agg["step_limit_inconclusive"] + agg["porcupine_timeouts"]
    chk.inconclusive = chk.cov["inconclusive"]
    chk.cov["op_state_pairs_reached"] = len(pairs)
    chk.cov["op_state_pairs"] = pairs
    chk.cov["yield_sites_in_z_chan"] = {k: v for k, v in sorted(sites.items()) if k.startswith("z_chan.go")}
    chk.cov["failure_class_counts"] = classes
    chk.cov["rule"] = ("workload = 2-4 threads x 1-4 ops (1 in 12: 3-8 threads x 4-20 ops) of send/recv/close/len/try-send/try-recv/select/non-blocking select "
                       "on 1-3 channels of capacity 0-2 with unique values, executed on the real z_chan.go under a seeded scheduler (uniform / PCT d<=3 / round-robin with "
                       "pre-emption; arbitrary-waiter Signal; spurious wake-ups in 1/3 of runs); monitors: exactly-once+conservation, unbuffered rendezvous overlap, porcupine "
                       "linearizability of buffered channels vs bounded-FIFO-with-close, stuck-state oracle at quiescence, len<=cap at every step, failed try/default while a "
                       "counterpart was parked throughout. distinct = distinct (workload, decision list) hashes, summed over 16 processes")
    seen = {}
    for f in fails:
        cls = f["class"]
        fid = known_class(cls)
        if fid and chk.is_open(fid):
            chk.known(fid, "")
            continue
        seen[cls] = seen.get(cls, 0) + 1
        if seen[cls] > 2:
            continue
        name = "%s-seed%d" % (core.h(cls), f["config"]["seed"])
        chk.violation(name, {"failure.json": json.dumps(f, indent=1),
                             "history.txt": "\n".join(f["events"]),
                             "replay.sh": "#!/bin/sh\nexec python3 %s/checks/c10.py --replay \"$(dirname \"$0\")\"\n" % core.V},
                      "[%s] %s (seen %d times in this run)\n%s" % (cls, f["detail"], classes.get(cls, 0), "\n".join(f["events"][:25])))
    for fn in os.listdir(core.V + "/replays"):
        p = os.path.join(core.V, "replays", fn, "replay.sh")
        if fn.startswith("C10-") and os.path.exists(p):
            os.chmod(p, 0o755)

    # ---- leg B
    try:
        import c10_legb
        c10_legb.run(chk)
    except ImportError:
        pass
    chk.finish(floor_eval=100000, floor_distinct=50000)


if __name__ == "__main__":
    if len(sys.argv) > 2 and sys.argv[1] == "--replay":
        replay(sys.argv[2])
    main()

"""C08: type size, alignment and field offsets agree wherever they are computed.

(a) E2 in ./ssa (inpkg/c08_sizes_test.go): generated types x {amd64, arm64, 386, arm, wasm}; go/types Sizes as wrapped by
    Program.TypeSizes vs LLVM data layout vs abi.Builder + emitted descriptor constants.
(b) C-compatible shapes: the host gcc's sizeof/_Alignof/offsetof vs (a)'s amd64 numbers for the same shape list.
(c) E1: llgo-compiled programs print folded unsafe.* constants, measured pointer differences, reflect sizes and canaries;
    checked for internal equality; the same programs must be silent under `go` (dual run).
Replay of a leg-(c) case: ./run replay <dir>  (re-builds llgo and the single-unit program in <dir>/prog).
"""
import json
import os
import sys

sys.path.insert(0, os.path.join(os.path.dirname(os.path.abspath(__file__)), "..", "rig"))
sys.path.insert(0, os.path.join(os.path.dirname(os.path.abspath(__file__)), "..", "gen"))
import core, inpkg
import c08_shapes, c08_progs

K_TRAIL = "known:trailing-zero-size-field"
K_FUNC = "known:func-descriptor-one-word"
K_MAP = "known:map-indirect-slot-size"
K_RECUR = "known:recursive-named-func-lowered-raw"
K_ALIAS = "known:alias-func-extra-size-lost"

BUILD_TIMEOUT = 2700   # watchdog only (a build needs 2-20 s on an idle machine); expiry = inconclusive, never a verdict

UFIELDS = ["S", "A", "RS", "RA", "RFA", "AS", "SA", "RSA", "SS", "WO", "WM", "WR", "RI", "RAI"]


def finding_of(chk, cls):
    for f in chk.open_findings():
        if cls in f.get("classes", []):
            return f
    return None


def report(chk, cls, name, files, summary):
    """class listed in an open finding -> KNOWN-FINDING, else VIOLATION"""
    f = finding_of(chk, cls)
    if f is not None:
        chk.known(f["id"], f["what"])
        chk.cov["known_class_hits"][cls] = chk.cov["known_class_hits"].get(cls, 0) + 1
        return
    chk.cov["violation_classes"][cls] = chk.cov["violation_classes"].get(cls, 0) + 1
    if chk.cov["violation_classes"][cls] <= 4:
        chk.violation(name, files, "[%s] %s" % (cls, summary))
        rs = os.path.join(chk.violations[-1]["replay"], "replay.sh")
        if os.path.exists(rs):
            os.chmod(rs, 0o755)


# ---------------------------------------------------------------- legs (a) + (b)

def leg_ab(chk):
    w = chk.work
    nshapes = 400 if chk.tier == "quick" else 5000
    shapes = c08_shapes.gen_shapes(chk.seed, nshapes)
    d = w.sub("shapes")
    sj, so, sc, sx = (os.path.join(d, n) for n in ("shapes.json", "shapes_out.json", "table.c", "table"))
    with open(sj, "w") as f:
        f.write(c08_shapes.shapes_json(shapes))
    csrc = c08_shapes.c_source(shapes)
    with open(sc, "w") as f:
        f.write(csrc)
    rc, out, err = core.sh(["gcc", "-std=gnu11", "-O0", "-w", "-o", sx, sc], env=w.env(), timeout=600)
    if rc != 0:
        core.broken("C08: gcc could not compile the shape table:\n" + err[-2000:])
    rc, out, err = core.sh([sx], timeout=120)
    if rc != 0:
        core.broken("C08: shape table program failed")
    gcc = {}
    for ln in out.splitlines():
        r = json.loads(ln)
        gcc[r["id"]] = r

    inj = {"ssa/zz_verif_c08_test.go": os.path.join(core.V, "inpkg", "c08_sizes_test.go"),
           "ssa/zz_verif_llvm14.go": os.path.join(core.TC, "ovl", "zz_verif_llvm14.go")}
    env = {"VERIF_C08_SHAPES": sj, "VERIF_C08_SHAPES_OUT": so}
    rc, out, rep, races, _ = inpkg.run_inpkg(chk, inj, "./ssa", "^TestVerifC08$", extra_env=env, timeout=2400)
    inpkg.absorb(chk, rep, out, rc, "a")

    # (b) gcc vs the three amd64 computations
    if not os.path.exists(so):
        core.broken("C08: in-package monitor wrote no shape numbers")
    with open(so) as f:
        mine = json.load(f)
    compared = 0
    for s, m in zip(shapes, mine):
        g = gcc.get(s["id"])
        if m is None or g is None:
            continue
        compared += 1
        chk.sig("shape:" + json.dumps(s["t"], sort_keys=True))
        offs = g["offs"]
        for comp, sz, al, of in (("gotypes", m["gsize"], m["galign"], m["goffs"]), ("llvm", m["lsize"], m["lalign"], m["loffs"]),
                                 ("descriptor", m["dsize"], m["dalign"], m["doffs"])):
            if of is None:
                of = []
            if (sz, al, list(of)) == (g["size"], g["align"], list(offs)):
                continue
            cls = "cabi:%s-vs-gcc" % comp
            # trailing zero-size member: gcc = llvm (no padding), go/types and the descriptor size add the gc padding
            if comp != "llvm" and m.get("trailing_zs") and (m["lsize"], m["lalign"], list(m["loffs"] or [])) == (g["size"], g["align"], list(offs)) \
                    and al == g["align"] and sz > g["size"] and all(a >= b for a, b in zip(of, offs)):
                cls = K_TRAIL
            summary = "%s (%s): gcc size/align/offsets = %d/%d/%s, %s = %s/%s/%s" % (s["id"], m["type"], g["size"], g["align"], offs, comp, sz, al, of)
            report(chk, cls, core.h(cls + s["id"]), {"shape.json": json.dumps(s, indent=1), "numbers.json": json.dumps({"gcc": g, "llgo_amd64": m}, indent=1),
                                                       "table.c": c08_shapes.c_source([s]),
                                                       "replay.sh": "#!/bin/bash\ncd %s && VERIF_SEED=%d VERIF_C08_LEGS=ab exec ./run C08 %s\n" % (core.V, chk.seed, chk.tier)}, summary)
    chk.cov["evaluations"] += compared
    chk.cov["b_shapes_compared_with_gcc"] = compared
    if compared < len(shapes) * 0.9:
        core.broken("C08: only %d of %d C shapes were compared" % (compared, len(shapes)))


# ---------------------------------------------------------------- leg (c)

def parse_units(out):
    U, F, C, done = {}, {}, {}, None
    for ln in out.splitlines():
        p = ln.split()
        if not p:
            continue
        try:
            if p[0] == "U" and len(p) == 2 + len(UFIELDS):
                U[int(p[1])] = dict(zip(UFIELDS, [int(x) for x in p[2:]]))
            elif p[0] == "F" and len(p) == 8:
                F.setdefault(int(p[1]), []).append((p[2],) + tuple(int(x) for x in p[3:]))
            elif p[0] == "C" and len(p) == 6:
                C[int(p[1])] = [x == "true" for x in p[2:]]
            elif p[0] == "DONE":
                done = int(p[1])
        except ValueError:
            continue
    return U, F, C, done


def field_type(t, path):
    for j in path.split("."):
        t = t[1][int(j)]
    return t


def unit_failures(u, U, F, C):
    """list of (check, detail, class-if-known-pattern or None) for one unit"""
    i = u["id"]
    if i not in U or i not in C:
        return [("unit:no-output", "unit printed nothing", None)]
    x = U[i]
    t = u["t"]
    out = []
    is_func = t[0] == "func"
    # size
    if not (x["S"] == x["AS"] == x["SS"] == x["RS"] and x["SA"] == 2 * x["AS"] and x["RSA"] == x["SA"] and x["RI"] == x["SS"] and x["RAI"] == x["AS"]):
        cls = None
        base_ok = x["AS"] == x["SS"] and x["RAI"] == x["RS"] and x["RI"] == x["RS"]
        real_ok = base_ok and x["RSA"] == 2 * x["RS"]
        if u["recursive_func"] and x["AS"] == x["SS"]:
            cls = K_RECUR
        elif is_func and base_ok and x["RS"] * 2 == x["AS"] and x["RSA"] == 2 * x["AS"]:
            if x["S"] == x["AS"] and x["SA"] == 2 * x["AS"]:
                cls = K_FUNC      # descriptor of the func type says one word
            elif u["alias_func"] and x["S"] == x["RS"]:
                cls = K_ALIAS     # and the constant folded through the alias says one word too
        elif u["alias_func"] and real_ok and x["S"] != x["RS"] and (x["RS"] == x["AS"] or (u["trailing_zs"] and x["RS"] > x["AS"])):
            cls = K_ALIAS         # constant folded through an alias lost the second word of the func fields
        elif u["trailing_zs"] and real_ok and x["S"] == x["RS"] and x["RS"] > x["AS"] and x["SA"] == 2 * x["S"]:
            cls = K_TRAIL         # folded constant and descriptor carry the gc padding, generated code does not
        out.append(("size", "Sizeof=%(S)d array-stride=%(AS)d slice-stride=%(SS)d reflect.Size=%(RS)d Sizeof([2]T)=%(SA)d reflect([2]T).Size=%(RSA)d reflect slice Index stride=%(RI)d reflect array Index stride=%(RAI)d" % x, cls))
    # alignment
    if not (x["A"] == x["RA"] == x["RFA"] == x["WO"] == x["WM"] == x["WR"]):
        cls = K_RECUR if u["recursive_func"] and x["A"] == x["RA"] else None
        out.append(("align", "Alignof=%(A)d reflect Align/FieldAlign=%(RA)d/%(RFA)d offset in struct{byte;T}: Offsetof=%(WO)d measured=%(WM)d reflect=%(WR)d" % x, cls))
    # fields
    for (path, O, M, R, S, RS) in F.get(i, []):
        if not (O == M == R):
            cls = None
            if u["recursive_func"]:
                cls = K_RECUR
            elif u["trailing_zs"] and O > M and M == R:
                cls = K_TRAIL     # folded offset counts the gc padding of an earlier nested struct, generated code does not
            out.append(("offset", "field %s: Offsetof=%d measured=%d reflect=%d" % (path, O, M, R), cls))
        if S != RS:
            ft = field_type(t, path)
            cls = None
            if ft[0] == "func" and RS * 2 == S:
                cls = K_FUNC
            elif u["recursive_func"] and RS < S:
                cls = K_RECUR     # descriptor built from the unconverted named type: func members one word
            out.append(("fieldsize", "field %s: Sizeof=%d reflect Field.Type.Size=%d" % (path, S, RS), cls))
    # canaries
    names = ["chan", "map", "interface", "reflect.Set"]
    for k, ok in enumerate(C[i]):
        if not ok:
            cls = None
            if names[k] == "reflect.Set" and x["RS"] > x["AS"]:
                if u["recursive_func"]:
                    cls = K_RECUR
                elif u["trailing_zs"]:
                    cls = K_TRAIL
            out.append(("canary", "canary smashed by round trip through %s" % names[k], cls))
    return out


def build_and_run(chk, llgo, d, tag):
    """returns dict(kind -> (rc_build, RunResult|None, build_err))"""
    res = {}
    exe_l, exe_g = os.path.join(d, "prog.llgo.out"), os.path.join(d, "prog.go.out")
    rc, so, se = core.llgo_build(chk.work, llgo, d, exe_l, timeout=BUILD_TIMEOUT)
    res["llgo"] = (rc, core.run_prog([exe_l], timeout=120, interposer=True) if rc == 0 else None, (so + se)[-3000:])
    rc, so, se = core.go_build(chk.work, d, exe_g, timeout=BUILD_TIMEOUT)
    res["go"] = (rc, core.run_prog([exe_g], timeout=120) if rc == 0 else None, (so + se)[-3000:])
    return res


def leg_c(chk):
    w = chk.work
    core.protect_gomod(w)     # created once, before two threads use it
    llgo_box = {}
    nprog, nunits = (3, 150) if chk.tier == "quick" else (16, 200)
    progs = []
    for k in range(nprog):
        src, units = c08_progs.program(chk.seed * 1009 + k * 31 + 5, nunits, first_id=k * 1000)
        d = w.sub("c-prog-%d" % k)
        core.write_module(d, {"main.go": src}, modname="c08p%d" % k)
        progs.append((k, d, units, src))

    def job(p):
        llgo = llgo_box["llgo"]
        if p == "probe":
            d = w.sub("c-probe")
            for fn in ("main.go", "go.mod"):
                with open(os.path.join(core.V, "progs", "c08_probe", fn)) as f:
                    txt = f.read()
                with open(os.path.join(d, fn), "w") as f:
                    f.write(txt)
            exe = os.path.join(d, "probe.out")
            rc, so, se = core.llgo_build(w, llgo, d, exe, timeout=BUILD_TIMEOUT)
            if rc != 0:
                return ("probe", rc, (so + se)[-2000:], {})
            runs = {}
            for name in ("trailing", "func", "map", "recursive", "alias"):
                runs[name] = core.run_prog([exe, name], timeout=60)
            return ("probe", 0, "", runs)
        k, d, units, src = p
        return (p, build_and_run(chk, llgo, d, "p%d" % k))

    import threading
    box = {}

    def bg():
        try:
            import time as _t
            t1 = _t.time()
            llgo_box["llgo"] = core.build_llgo(w)
            box["t_llgo_and_probe_s"] = round(_t.time() - t1, 1)      # llgo itself
            box["results"] = core.pmap(job, ["probe"] + progs, workers=4)
            box["t_c_builds_s"] = round(_t.time() - t1, 1)
        except BaseException as ex:      # surfaced by the caller
            box["error"] = ex

    th = threading.Thread(target=bg)
    th.start()
    return lambda: leg_c_finish(chk, th, box, progs, nprog, nunits)


def leg_c_finish(chk, th, box, progs, nprog, nunits):
    th.join()
    if "error" in box:
        raise box["error"]
    results = box["results"]
    chk.cov["wall_c_llgo_build_s"] = box.get("t_llgo_and_probe_s")
    chk.cov["wall_c_builds_s"] = box.get("t_c_builds_s")

    # ---- fixed probes first
    _, prc, perr, runs = results[0]
    if prc == -999:
        chk.inconclusive += 1      # build watchdog expired (overloaded machine): no observation
        runs = {}
    elif prc != 0:
        core.broken("C08: probe program does not build with llgo:\n" + perr)
    probe_cls = {"trailing": K_TRAIL, "func": K_FUNC, "map": K_MAP, "recursive": K_RECUR, "alias": K_ALIAS}
    chk.cov["c_probe_results"] = {}
    for name, r in runs.items():
        if r.kind == "timeout":
            chk.inconclusive += 1
            continue
        ok = r.kind == "exit" and r.rc == 0 and any(ln.startswith("PROBE") and ln.endswith(" ok") for ln in (r.out + r.err).splitlines())
        chk.cov["c_probe_results"][name] = "ok" if ok else "bad"
        chk.cov["evaluations"] += 1
        if not ok:
            report(chk, probe_cls[name], "probe-" + name, {"output.txt": r.out + r.err, "main.go": open(os.path.join(core.V, "progs", "c08_probe", "main.go")).read()},
                   "compiled probe '%s' fails (kind=%s rc=%s): %s" % (name, r.kind, r.rc, (r.out + r.err).strip()[-300:]))

    # ---- generated programs
    monitor_bad = 0
    invalid = 0
    for (p, res) in results[1:]:
        k, d, units, src = p
        grc, grun, gerr = res["go"]
        lrc, lrun, lerr = res["llgo"]
        if grc == -999 or lrc == -999:
            chk.inconclusive += 1  # build watchdog expired
            continue
        if grc != 0:
            invalid += 1
            chk.cov.setdefault("invalid_generated_detail", gerr[-400:])
            continue
        if lrc != 0:
            report(chk, "compile-failure", "c-compile-p%d" % k, {"prog/main.go": src, "prog/go.mod": "module c08p\n\ngo 1.24\n", "llgo-build.txt": lerr},
                   "llgo cannot build generated program %d that go accepts: %s" % (k, lerr.strip()[-300:]))
            continue
        # dual run: the monitor must be silent under go
        gU, gF, gC, gdone = parse_units(grun.out + grun.err)
        for u in units:
            if unit_failures(u, gU, gF, gC):
                monitor_bad += 1
                if monitor_bad <= 3:
                    print("MONITOR-SELF-CHECK: unit %d fires under the reference toolchain: %s :: %s" % (u["id"], u["type"], unit_failures(u, gU, gF, gC)), flush=True)
        if lrun.kind == "timeout":
            chk.inconclusive += 1
            continue
        lU, lF, lC, ldone = parse_units(lrun.out + lrun.err)
        if "VERIF-MEMCPY-OVERLAP" in lrun.err:
            chk.cov["memcpy_overlap_reports"] = chk.cov.get("memcpy_overlap_reports", 0) + 1
        crashed = lrun.kind != "exit" or lrun.rc != 0 or ldone != len(units)
        for u in units:
            if crashed and u["id"] not in lC:
                continue      # units after the crash point did not run; the crash itself is reported below
            chk.cov["evaluations"] += 1
            chk.sig("c:" + u["skeleton"])
            fails = unit_failures(u, lU, lF, lC)
            for (check, detail, cls) in fails:
                c = cls or ("c:" + check)
                one = c08_progs.single_unit_program(u)
                files = {"prog/main.go": one, "prog/go.mod": "module c08p\n\ngo 1.24\n", "unit.json": json.dumps({k2: v for k2, v in u.items() if k2 != "t"}, indent=1),
                         "llgo-lines.txt": "\n".join(ln for ln in (lrun.out + lrun.err).splitlines() if ln.split()[1:2] == [str(u["id"])]),
                         "replay.sh": "#!/bin/bash\nexec python3 %s C08 replay \"$(cd \"$(dirname \"$0\")\" && pwd)\"\n" % os.path.abspath(__file__)}
                report(chk, c, "c-u%d-%s" % (u["id"], check), files, "unit %d type %s: %s" % (u["id"], u["type"], detail))
        if crashed:
            last = max(lC.keys()) if lC else None
            nxt = [u for u in units if last is None or u["id"] > last][:1]
            nu = nxt[0] if nxt else None
            files = {"prog/main.go": c08_progs.single_unit_program(nu) if nu else src, "prog/go.mod": "module c08p\n\ngo 1.24\n", "stderr.txt": lrun.err[-4000:],
                     "replay.sh": "#!/bin/bash\nexec python3 %s C08 replay \"$(cd \"$(dirname \"$0\")\" && pwd)\"\n" % os.path.abspath(__file__)}
            report(chk, "c:crash", "c-crash-p%d" % k, files, "generated program %d ends with kind=%s rc=%s in unit %s (%s): %s" % (
                k, lrun.kind, lrun.rc, nu["id"] if nu else "?", nu["type"] if nu else "?", lrun.err.strip()[-300:]))
        chk.sample({"unit_type": units[0]["type"], "llgo_line": " ".join("%s=%s" % kv for kv in sorted(lU.get(units[0]["id"], {}).items()))}, limit=6)
    chk.cov["c_programs"] = nprog
    chk.cov["c_units_per_program"] = nunits
    chk.cov["invalid_generated"] = invalid
    chk.cov["monitor_self_check_failures_under_go"] = monitor_bad
    if monitor_bad:
        core.broken("C08: the leg-(c) monitor fires under the reference toolchain on %d units: the monitor is wrong" % monitor_bad)
    if invalid > max(1, nprog // 50):
        core.broken("C08: %d generated programs are rejected by go: %s" % (invalid, chk.cov.get("invalid_generated_detail")))


def replay(d):
    chk = core.Check("C08")
    llgo = core.build_llgo(chk.work)
    pd = os.path.join(d, "prog")
    exe = os.path.join(chk.work.dir, "replay.out")
    rc, so, se = core.llgo_build(chk.work, llgo, pd, exe)
    print(so + se)
    if rc == 0:
        r = core.run_prog([exe], timeout=120, interposer=True)
        print(r.out + r.err)
        print("kind=%s rc=%s" % (r.kind, r.rc))
        print("columns of U lines: id " + " ".join(UFIELDS) + " | F lines: id path Offsetof measured reflect Sizeof reflectFieldTypeSize | C lines: chan map iface reflect.Set canaries")
    chk.work.close()
    sys.exit(0 if rc == 0 else 2)


def main():
    if len(sys.argv) > 3 and sys.argv[2] == "replay":
        replay(sys.argv[3])
    chk = core.Check("C08")
    chk.cov["known_class_hits"] = {}
    chk.cov["violation_classes"] = {}
    chk.assumptions = [
        "the Program is set up as internal/build.Do does (types.SizesFor(\"gc\", arch), StdSizes{4,4} for wasm, Program.TypeSizes); the test repeats those three lines, it cannot import internal/build",
        "reference PtrBytes = length of the prefix up to the last pointer word of the type under the layout in question (Go's definition)",
        "leg (b): Go int/uint = C long/unsigned long, bool = _Bool, complexN = _Complex on the x86-64 SysV host; zero-length arrays and empty structs are GNU C extensions",
        "leg (c) executes on amd64 only at -O0; other targets are computed in (a), not executed",
        "a disagreement is suppressed as KNOWN only if the type matches the finding's predicate AND every computation equals the model of its recorded present behaviour",
    ]
    legs = os.environ.get("VERIF_C08_LEGS", "abc")
    import time
    t0 = time.time()
    fin = None
    if "c" in legs:
        fin = leg_c(chk)          # llgo + program builds run in the background while (a)/(b) link and run
    if "a" in legs or "b" in legs:
        leg_ab(chk)
    chk.cov["wall_ab_s"] = round(time.time() - t0, 1)
    if fin:
        fin()
    chk.cov["wall_total_s"] = round(time.time() - t0, 1)
    if legs == "abc":
        chk.finish(floor_eval=20000 if chk.tier == "quick" else 500000, floor_distinct=1000)
    else:
        chk.finish(floor_eval=1, floor_distinct=1)


main()

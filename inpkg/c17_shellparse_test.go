//go:build verif

// C17 monitor for internal/shellparse, compiled into the package by `go test -overlay` (E2).
//
// The repository has no quoting function, so the quoter below is written from the grammar the
// parser documents (doc comment + comments in Parse + the package's own table test):
//   - arguments are separated by white space (unicode.IsSpace) outside quotes;
//   - "..."  : \" and \\ are escapes, every other character (incl. a backslash before any other
//     character, white space and ') is literal;
//   - '...'  : everything up to the next ' is literal (cannot contain ');
//   - a bare word stands for itself (used here only for non-empty arguments without white
//     space, quote characters and backslashes - the documented examples);
//   - "" and ” are empty arguments; an unterminated quote is an error.
//
// Laws (all follow from "quoted in the documented way => split back into exactly the original
// list; malformed input is reported instead of being silently altered"):
//
//	L1 Parse(quote(args)) == args, nil           for every style choice and separator choice
//	L2 Parse(quote'(Parse(quote(args)))) == args  (stability under re-quoting, other styles)
//	L3 every prefix of a well-formed line that ends inside a quoted part (incl. a dangling
//	   escape) yields an error
//	L4 arbitrary strings over the alphabet: no panic; if accepted, re-quoting the result and
//	   parsing again gives the same list; a string without quote characters and backslashes
//	   splits exactly like strings.FieldsFunc(s, unicode.IsSpace)
package shellparse

import (
	"encoding/json"
	"fmt"
	"math/rand"
	"reflect"
	"runtime/debug"
	"sort"
	"strings"
	"sync"
	"testing"
	"unicode"
)

var c17spAlpha = []string{" ", " ", "\t", "\n", "\"", "'", "\\", "\\", "-", "$", "(", ")", "{", "}", "a", "b", "=", "/",
	"\u00e9", "\u4e16", "\U0001F600", "\u00a0", "\u3000"}

func c17spArg(r *rand.Rand) string {
	n := r.Intn(7)
	if r.Intn(12) == 0 {
		n = 0
	}
	var sb strings.Builder
	for i := 0; i < n; i++ {
		sb.WriteString(c17spAlpha[r.Intn(len(c17spAlpha))])
	}
	return sb.String()
}

func c17spBareOK(a string) bool {
	if a == "" {
		return false
	}
	for _, c := range a {
		if unicode.IsSpace(c) || c == '"' || c == '\'' || c == '\\' {
			return false
		}
	}
	return true
}

// style: 0 = double quotes, 1 = single quotes, 2 = bare. Falls back to double quotes.
func c17spQuote(a string, style int) (string, int) {
	switch style {
	case 1:
		if !strings.Contains(a, "'") {
			return "'" + a + "'", 1
		}
	case 2:
		if c17spBareOK(a) {
			return a, 2
		}
	}
	a = strings.ReplaceAll(a, `\`, `\\`)
	a = strings.ReplaceAll(a, `"`, `\"`)
	return `"` + a + `"`, 0
}

var c17spSeps = []string{" ", " ", "  ", "\t", " \t ", "\n", " \n", "\u00a0", "\u3000 "}

type c17spLine struct {
	text   string
	styles []int
	starts []int // byte offset of each part
	ends   []int // byte offset just past each part
}

func c17spBuild(r *rand.Rand, args []string) c17spLine {
	var l c17spLine
	var sb strings.Builder
	if r.Intn(5) == 0 {
		sb.WriteString(c17spSeps[r.Intn(len(c17spSeps))])
	}
	for j, a := range args {
		if j > 0 {
			sb.WriteString(c17spSeps[r.Intn(len(c17spSeps))])
		}
		q, st := c17spQuote(a, r.Intn(3))
		l.starts = append(l.starts, sb.Len())
		sb.WriteString(q)
		l.ends = append(l.ends, sb.Len())
		l.styles = append(l.styles, st)
	}
	if r.Intn(5) == 0 {
		sb.WriteString(c17spSeps[r.Intn(len(c17spSeps))])
	}
	l.text = sb.String()
	return l
}

func c17spClassOf(a string) string {
	set := map[string]bool{}
	for _, c := range a {
		switch {
		case c == ' ' || c == '\t':
			set["b"] = true
		case c == '\n':
			set["n"] = true
		case unicode.IsSpace(c):
			set["U"] = true
		case c == '"':
			set["d"] = true
		case c == '\'':
			set["s"] = true
		case c == '\\':
			set["\\"] = true
		case c == '$' || c == '(' || c == ')' || c == '{' || c == '}' || c == '-':
			set["p"] = true
		case c > 127:
			set["m"] = true
		default:
			set["a"] = true
		}
	}
	if a == "" {
		return "0"
	}
	var ks []string
	for k := range set {
		ks = append(ks, k)
	}
	sort.Strings(ks)
	return strings.Join(ks, "")
}

func c17spParse(s string) (got []string, err error, panicked any) {
	defer func() {
		if p := recover(); p != nil {
			panicked = p
		}
	}()
	got, err = Parse(s)
	return
}

func c17spEq(a, b []string) bool {
	if len(a) == 0 && len(b) == 0 {
		return true
	}
	return reflect.DeepEqual(a, b)
}

func c17spCase(v map[string]any) map[string]string {
	b, _ := json.MarshalIndent(v, "", " ")
	return map[string]string{"case.json": string(b),
		"HOWTO.txt": "Feed the string in case.json (\"line\") to shellparse.Parse from a test in /repo/internal/shellparse, or re-run the check with the same VERIF_SEED and tier.\n"}
}

func c17spShards(total, shards int, salt int64, fn func(r *rand.Rand, n int)) {
	var wg sync.WaitGroup
	for s := 0; s < shards; s++ {
		n := total / shards
		if s == 0 {
			n += total % shards
		}
		wg.Add(1)
		go func(s, n int) {
			defer wg.Done()
			fn(rand.New(rand.NewSource(vSeed()*1000003+int64(s)*7919+salt)), n)
		}(s, n)
	}
	wg.Wait()
}

func TestVerifC17Shellparse(t *testing.T) {
	rep := vNewReport("shellparse.Parse: argument lists (0-5 args, 0-6 symbols each) over {space, tab, newline, NBSP, U+3000, \", ', \\, -, $, (, ), {, }, =, /, ASCII letters, 2/3/4-byte runes, empty string}, each argument quoted by a quoter written from the documented grammar (double quotes with \\\" and \\\\ only; single quotes when the argument has no '; bare word when non-empty and free of white space, quotes and backslashes), parts separated by any Unicode white space: L1 split(quote(args))==args; L2 stable under re-quoting with other styles; L3 every prefix ending inside a quoted part (incl. dangling escape) is an error; L4 arbitrary strings: no panic, accepted input re-quotes to the same list, quote- and backslash-free input splits like FieldsFunc(IsSpace). distinct = distinct (style, character-class set) sequences")
	defer rep.Write()
	defer func() { // a panic of the code under test outside a guarded call is an observation, not a broken check
		if p := recover(); p != nil {
			rep.Fail("shellparse:panic", "monitor", fmt.Sprintf("panic escaped the monitor: %v\n%s", p, debug.Stack()), nil)
		}
	}()

	// fixed cases first (one per clause of the grammar)
	fixed := []struct {
		line string
		want []string
		err  bool
	}{
		{`"a\b"`, []string{`a\b`}, false},     // backslash before a non-quote inside quotes stays
		{`"a\\b"`, []string{`a\b`}, false},    // escaped backslash
		{`"a\\\"b"`, []string{`a\"b`}, false}, // escaped backslash then escaped quote
		{`'a\'`, []string{`a\`}, false},       // backslash literal in single quotes
		{`"" ''`, []string{"", ""}, false},    // empty arguments
		{"\"a\nb\"", []string{"a\nb"}, false}, // newline inside quotes
		{`"$(x) {y}" '-'`, []string{"$(x) {y}", "-"}, false},
		{`"abc\`, nil, true},  // dangling escape
		{`"abc\"`, nil, true}, // escaped closing quote -> unterminated
		{`'abc`, nil, true},
		{`a "b`, nil, true},
	}
	for i, f := range fixed {
		got, err, p := c17spParse(f.line)
		rep.Eval(1)
		switch {
		case p != nil:
			rep.Fail("shellparse:panic", fmt.Sprintf("fixed%d", i), fmt.Sprintf("Parse(%q) panicked: %v", f.line, p), c17spCase(map[string]any{"line": f.line}))
		case f.err && err == nil:
			rep.Fail("shellparse:malformed-accepted", fmt.Sprintf("fixed%d", i), fmt.Sprintf("Parse(%q) = %q, want an error", f.line, got), c17spCase(map[string]any{"line": f.line, "got": got}))
		case !f.err && (err != nil || !c17spEq(got, f.want)):
			rep.Fail("shellparse:roundtrip", fmt.Sprintf("fixed%d", i), fmt.Sprintf("Parse(%q) = %q, %v; want %q", f.line, got, err, f.want), c17spCase(map[string]any{"line": f.line, "got": got, "want": f.want}))
		}
	}

	total := vN(32000, 3200000)
	c17spShards(total, 8, 171, func(r *rand.Rand, n int) {
		for i := 0; i < n; i++ {
			if i%4 == 3 {
				c17spArbitrary(rep, r)
				continue
			}
			na := r.Intn(6)
			args := make([]string, na)
			for j := range args {
				args[j] = c17spArg(r)
			}
			l := c17spBuild(r, args)
			got, err, p := c17spParse(l.text)
			rep.Eval(1)
			var sig strings.Builder
			for j, a := range args {
				fmt.Fprintf(&sig, "%d%s,", l.styles[j], c17spClassOf(a))
			}
			rep.Sig(sig.String())
			if i == 5 {
				rep.Sample(map[string]any{"args": args, "line": l.text, "parsed": got})
			}
			if p != nil {
				rep.Fail("shellparse:panic", "L1", fmt.Sprintf("Parse(%q) panicked: %v", l.text, p), c17spCase(map[string]any{"args": args, "line": l.text}))
				continue
			}
			if err != nil || !c17spEq(got, args) {
				rep.Fail("shellparse:roundtrip", "L1", fmt.Sprintf("args=%q quoted as %q parsed to %q err=%v", args, l.text, got, err),
					c17spCase(map[string]any{"args": args, "line": l.text, "got": got, "err": fmt.Sprint(err)}))
				continue
			}
			// L2: re-quote what came back with fresh style choices
			l2 := c17spBuild(r, got)
			got2, err2, p2 := c17spParse(l2.text)
			rep.Eval(1)
			if p2 != nil || err2 != nil || !c17spEq(got2, args) {
				rep.Fail("shellparse:requote", "L2", fmt.Sprintf("args=%q first line %q, re-quoted as %q parsed to %q err=%v panic=%v", args, l.text, l2.text, got2, err2, p2),
					c17spCase(map[string]any{"args": args, "line": l2.text, "got": got2}))
			}
			// L3: cut inside a quoted part
			var quoted []int
			for j, st := range l.styles {
				if st != 2 {
					quoted = append(quoted, j)
				}
			}
			if len(quoted) > 0 {
				j := quoted[r.Intn(len(quoted))]
				// candidate cut offsets: after the opening quote .. before the closing quote, on rune boundaries
				var cuts []int
				for off := l.starts[j] + 1; off <= l.ends[j]-1; off++ {
					if off == len(l.text) || (l.text[off]&0xC0) != 0x80 {
						cuts = append(cuts, off)
					}
				}
				cut := cuts[r.Intn(len(cuts))]
				pre := l.text[:cut]
				g3, e3, p3 := c17spParse(pre)
				rep.Eval(1)
				rep.Count("truncated_inputs", 1)
				if p3 != nil {
					rep.Fail("shellparse:panic", "L3", fmt.Sprintf("Parse(%q) panicked: %v", pre, p3), c17spCase(map[string]any{"line": pre}))
				} else if e3 == nil {
					rep.Fail("shellparse:malformed-accepted", "L3", fmt.Sprintf("prefix %q of %q ends inside a quoted part but was accepted as %q", pre, l.text, g3),
						c17spCase(map[string]any{"line": pre, "full": l.text, "got": g3}))
				}
			}
		}
	})
}

func c17spArbitrary(rep *vReport, r *rand.Rand) {
	n := r.Intn(13)
	var sb strings.Builder
	for i := 0; i < n; i++ {
		sb.WriteString(c17spAlpha[r.Intn(len(c17spAlpha))])
	}
	s := sb.String()
	got, err, p := c17spParse(s)
	rep.Eval(1)
	rep.Count("arbitrary_inputs", 1)
	if p != nil {
		rep.Fail("shellparse:panic", "L4", fmt.Sprintf("Parse(%q) panicked: %v", s, p), c17spCase(map[string]any{"line": s}))
		return
	}
	if !strings.ContainsAny(s, "\"'\\") {
		want := strings.FieldsFunc(s, unicode.IsSpace)
		if err != nil || !c17spEq(got, want) {
			rep.Fail("shellparse:bare-words", "L4", fmt.Sprintf("quote-free %q parsed to %q err=%v, want %q", s, got, err, want), c17spCase(map[string]any{"line": s, "got": got, "want": want}))
		}
		return
	}
	if err != nil {
		rep.Count("arbitrary_rejected", 1)
		// an error is only legitimate when some quote character is present
		if !strings.ContainsAny(s, "\"'") {
			rep.Fail("shellparse:spurious-error", "L4", fmt.Sprintf("Parse(%q) failed without any quote character: %v", s, err), c17spCase(map[string]any{"line": s}))
		}
		return
	}
	l := c17spBuild(r, got)
	got2, err2, p2 := c17spParse(l.text)
	rep.Eval(1)
	if p2 != nil || err2 != nil || !c17spEq(got2, got) {
		rep.Fail("shellparse:requote", "L4", fmt.Sprintf("%q parsed to %q; re-quoted as %q parsed to %q err=%v", s, got, l.text, got2, err2),
			c17spCase(map[string]any{"line": l.text, "orig": s, "first": got, "second": got2}))
	}
}

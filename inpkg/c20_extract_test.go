//go:build verif

// C20 monitor, compiled into internal/crosscompile by `go test -overlay -race` (E2).
//
// Part 1 (hostile archives): archives are built here for tar.gz, tar.xz (tar writer + the
// installed `xz`) and zip and handed to the REAL extractTarGz / extractTarXz / extractZip.
// Every case gets its own root:  <case>/1/../7/{outside/victim.txt, sentinel/dest}.  The whole
// <case> tree except dest is snapshotted before and after: any difference is a path created or
// changed outside dest.  Name classes that leave dest must end in an error; benign archives
// must be reproduced exactly (set of dirs, set of files, bytes).  The class x format x content
// matrix is enumerated completely on every run; random trees / hostile combinations by seed.
//
// Part 2 (concurrency): 2-4 goroutines (and processes) call the real
// checkDownloadAndExtractLib / ...WasiSDK / ...ESPClang for one destination against a loopback
// httptest server that fails, truncates, stalls or slows responses.  Oracle: every successful
// return sees a complete copy at that moment; the final state is exactly one complete copy; no
// more requests fail than faulty responses were served; no temp copies are left.
package crosscompile

import (
	"archive/tar"
	"archive/zip"
	"bytes"
	"compress/gzip"
	"crypto/sha256"
	"encoding/base64"
	"encoding/hex"
	"encoding/json"
	"fmt"
	"hash/crc32"
	"io"
	"math/rand"
	"net/http"
	"net/http/httptest"
	"os"
	"os/exec"
	"path"
	"path/filepath"
	"sort"
	"strconv"
	"strings"
	"runtime"
	"sync"
	"sync/atomic"
	"syscall"
	"testing"
	"time"
)

// ---------------------------------------------------------------- archive model

type c20ent struct {
	Name string
	Kind byte // 'f' regular, 'd' directory, 's' symlink, 'h' hard link
	Data []byte
	Link string
}

func (e c20ent) String() string {
	n := e.Name
	if len(n) > 80 {
		n = n[:40] + fmt.Sprintf("...(%d bytes)...", len(n)) + n[len(n)-20:]
	}
	switch e.Kind {
	case 'f':
		h := sha256.Sum256(e.Data)
		return fmt.Sprintf("file %q len=%d sha=%s", n, len(e.Data), hex.EncodeToString(h[:6]))
	case 'd':
		return fmt.Sprintf("dir  %q", n)
	case 's':
		return fmt.Sprintf("syml %q -> %q", n, e.Link)
	}
	return fmt.Sprintf("hard %q -> %q", n, e.Link)
}

func c20tarBytes(ents []c20ent) ([]byte, error) {
	var buf bytes.Buffer
	tw := tar.NewWriter(&buf)
	for _, e := range ents {
		h := &tar.Header{Name: e.Name, ModTime: time.Unix(1700000000, 0)}
		switch e.Kind {
		case 'd':
			h.Typeflag, h.Mode = tar.TypeDir, 0o755
		case 's':
			h.Typeflag, h.Mode, h.Linkname = tar.TypeSymlink, 0o777, e.Link
		case 'h':
			h.Typeflag, h.Mode, h.Linkname = tar.TypeLink, 0o644, e.Link
		default:
			h.Typeflag, h.Mode, h.Size = tar.TypeReg, 0o644, int64(len(e.Data))
		}
		if err := tw.WriteHeader(h); err != nil {
			return nil, err
		}
		if e.Kind == 'f' {
			if _, err := tw.Write(e.Data); err != nil {
				return nil, err
			}
		}
	}
	if err := tw.Close(); err != nil {
		return nil, err
	}
	return buf.Bytes(), nil
}

func c20zipBytes(ents []c20ent, rng *rand.Rand) ([]byte, error) {
	var buf bytes.Buffer
	zw := zip.NewWriter(&buf)
	for _, e := range ents {
		fh := &zip.FileHeader{Name: e.Name, Method: zip.Deflate}
		if rng != nil && rng.Intn(3) == 0 {
			fh.Method = zip.Store
		}
		switch e.Kind {
		case 'd':
			if !strings.HasSuffix(fh.Name, "/") {
				fh.Name += "/"
			}
			fh.Method = zip.Store
			fh.SetMode(os.ModeDir | 0o755)
			if _, err := zw.CreateHeader(fh); err != nil {
				return nil, err
			}
			continue
		case 's':
			fh.SetMode(os.ModeSymlink | 0o777)
			w, err := zw.CreateHeader(fh)
			if err != nil {
				return nil, err
			}
			w.Write([]byte(e.Link))
			continue
		case 'h':
			return nil, fmt.Errorf("zip has no hard links")
		}
		fh.SetMode(0o644)
		w, err := zw.CreateHeader(fh)
		if err != nil {
			return nil, err
		}
		if _, err := w.Write(e.Data); err != nil {
			return nil, err
		}
	}
	if err := zw.Close(); err != nil {
		return nil, err
	}
	return buf.Bytes(), nil
}

// c20slashMark stands for a '/' that archive/tar and archive/zip would refuse to write
// (regular file whose name ends in a slash); it is patched into the finished archive.
const c20slashMark = "\x01"

func c20patchTar(b []byte) []byte {
	if !bytes.Contains(b, []byte(c20slashMark)) {
		return b
	}
	for off := 0; off+512 <= len(b); {
		h := b[off : off+512]
		if bytes.Equal(h, make([]byte, 512)) {
			break
		}
		size, _ := strconv.ParseInt(strings.Trim(string(h[124:136]), " \x00"), 8, 64)
		patched := false
		for i := 0; i < 100; i++ {
			if h[i] == c20slashMark[0] {
				h[i] = '/'
				patched = true
			}
		}
		if patched {
			copy(h[148:156], "        ")
			sum := 0
			for _, c := range h {
				sum += int(c)
			}
			copy(h[148:156], fmt.Sprintf("%06o\x00 ", sum))
		}
		off += 512 + int((size+511)/512*512)
	}
	return b
}

func c20patchZip(b []byte, ents []c20ent) []byte {
	for _, e := range ents {
		if strings.Contains(e.Name, c20slashMark) {
			b = bytes.ReplaceAll(b, []byte(e.Name), []byte(strings.ReplaceAll(e.Name, c20slashMark, "/")))
		}
	}
	return b
}

func c20gz(b []byte) []byte {
	var buf bytes.Buffer
	gz := gzip.NewWriter(&buf)
	gz.Write(b)
	gz.Close()
	return buf.Bytes()
}

// c20gzStored writes a valid gzip stream made of stored (uncompressed) deflate blocks.  Used under the
// race detector, where initialising a compress/flate writer costs ~0.4 s (zip: one writer per file).
func c20gzStored(b []byte) []byte {
	var out bytes.Buffer
	out.Write([]byte{0x1f, 0x8b, 8, 0, 0, 0, 0, 0, 0, 255})
	for off := 0; ; {
		n := len(b) - off
		if n > 65535 {
			n = 65535
		}
		final := byte(0)
		if off+n == len(b) {
			final = 1
		}
		out.Write([]byte{final, byte(n), byte(n >> 8), byte(^n), byte(^n >> 8)})
		out.Write(b[off : off+n])
		off += n
		if final == 1 {
			break
		}
	}
	crc := crc32.ChecksumIEEE(b)
	l := uint32(len(b))
	out.Write([]byte{byte(crc), byte(crc >> 8), byte(crc >> 16), byte(crc >> 24), byte(l), byte(l >> 8), byte(l >> 16), byte(l >> 24)})
	return out.Bytes()
}

// c20buildFast: same archive formats without compress/flate writers (zip Store, gzip stored blocks, external xz).
func c20buildFast(format string, ents []c20ent) ([]byte, error) {
	switch format {
	case "zip":
		return c20zipBytes(ents, rand.New(c20constSource{}))
	case "tgz":
		b, err := c20tarBytes(ents)
		if err != nil {
			return nil, err
		}
		return c20gzStored(b), nil
	}
	b, err := c20tarBytes(ents)
	if err != nil {
		return nil, err
	}
	return c20xz(b)
}

// c20constSource makes rng.Intn(3)==0 always true: c20zipBytes then stores every member.
type c20constSource struct{}

func (c20constSource) Int63() int64 { return 0 }
func (c20constSource) Seed(int64)   {}

func c20xz(b []byte) ([]byte, error) {
	cmd := exec.Command("xz", "-0", "-T1", "-c")
	cmd.Stdin = bytes.NewReader(b)
	var out, errb bytes.Buffer
	cmd.Stdout, cmd.Stderr = &out, &errb
	if err := cmd.Run(); err != nil {
		return nil, fmt.Errorf("xz: %v %s", err, errb.String())
	}
	return out.Bytes(), nil
}

var c20formats = []string{"tgz", "txz", "zip"}

func c20ext(format string) string {
	switch format {
	case "tgz":
		return ".tar.gz"
	case "txz":
		return ".tar.xz"
	}
	return ".zip"
}

func c20build(format string, ents []c20ent, rng *rand.Rand) ([]byte, error) {
	switch format {
	case "zip":
		b, err := c20zipBytes(ents, rng)
		if err != nil {
			return nil, err
		}
		return c20patchZip(b, ents), nil
	case "tgz":
		b, err := c20tarBytes(ents)
		if err != nil {
			return nil, err
		}
		return c20gz(c20patchTar(b)), nil
	}
	b, err := c20tarBytes(ents)
	if err != nil {
		return nil, err
	}
	return c20xz(c20patchTar(b))
}

func c20extract(format, arc, dest string) (err error) {
	defer func() {
		if r := recover(); r != nil {
			err = fmt.Errorf("PANIC: %v", r)
		}
	}()
	switch format {
	case "tgz":
		return extractTarGz(arc, dest)
	case "txz":
		return extractTarXz(arc, dest)
	}
	return extractZip(arc, dest)
}

// ---------------------------------------------------------------- file-system observation

type c20node struct {
	Kind string // d f l o
	Sum  string
	Size int64
	Link string
}

func c20sum(p string) (string, int64) {
	f, err := os.Open(p)
	if err != nil {
		return "unreadable:" + err.Error(), -1
	}
	defer f.Close()
	h := sha256.New()
	n, _ := io.Copy(h, f)
	return hex.EncodeToString(h.Sum(nil)[:8]), n
}

// c20snap walks root without following links; the subtree `skip` is left out.
func c20snap(root, skip string) map[string]c20node {
	out := map[string]c20node{}
	filepath.Walk(root, func(p string, info os.FileInfo, err error) error {
		if err != nil {
			return nil
		}
		if skip != "" && p == skip {
			out[p] = c20node{Kind: "d"}
			return filepath.SkipDir
		}
		switch {
		case info.Mode()&os.ModeSymlink != 0:
			l, _ := os.Readlink(p)
			out[p] = c20node{Kind: "l", Link: l}
		case info.IsDir():
			out[p] = c20node{Kind: "d"}
		case info.Mode().IsRegular():
			s, n := c20sum(p)
			out[p] = c20node{Kind: "f", Sum: s, Size: n}
		default:
			out[p] = c20node{Kind: "o"}
		}
		return nil
	})
	return out
}

func c20snapDiff(pre, post map[string]c20node, root string) []string {
	var d []string
	for p, n := range post {
		o, ok := pre[p]
		rel, _ := filepath.Rel(root, p)
		if !ok {
			d = append(d, fmt.Sprintf("created outside dest: %s (%s)", rel, n.Kind))
		} else if o != n {
			d = append(d, fmt.Sprintf("changed outside dest: %s (%+v -> %+v)", rel, o, n))
		}
	}
	for p := range pre {
		if _, ok := post[p]; !ok {
			rel, _ := filepath.Rel(root, p)
			d = append(d, "removed outside dest: "+rel)
		}
	}
	sort.Strings(d)
	return d
}

// expected tree of a benign archive: files (with the acceptable contents) and directories
type c20tree struct {
	files map[string][][]byte
	dirs  map[string]bool
	links map[string]bool
}

func c20expect(ents []c20ent, strip string) c20tree {
	t := c20tree{map[string][][]byte{}, map[string]bool{}, map[string]bool{}}
	addParents := func(rel string) {
		for d := path.Dir(rel); d != "." && d != "/"; d = path.Dir(d) {
			t.dirs[d] = true
		}
	}
	for _, e := range ents {
		rel := path.Clean(e.Name)
		if strip != "" {
			if rel == strip {
				continue
			}
			if !strings.HasPrefix(rel, strip+"/") {
				continue
			}
			rel = rel[len(strip)+1:]
		}
		if rel == "." {
			continue
		}
		switch e.Kind {
		case 'd':
			t.dirs[rel] = true
			addParents(rel)
		case 'f':
			t.files[rel] = append(t.files[rel], e.Data)
			addParents(rel)
		case 's', 'h':
			t.links[rel] = true
			addParents(rel)
		}
	}
	return t
}

// c20treeProblems compares what is on disk under dir with the expected tree.
func c20treeProblems(dir string, exp c20tree, ignoreTop string) []string {
	var probs []string
	seenF := map[string]bool{}
	seenD := map[string]bool{}
	if _, err := os.Lstat(dir); err != nil {
		return []string{"destination missing: " + err.Error()}
	}
	filepath.Walk(dir, func(p string, info os.FileInfo, err error) error {
		if p == dir {
			return nil
		}
		rel, _ := filepath.Rel(dir, p)
		if err != nil {
			probs = append(probs, "walk error at "+rel+": "+err.Error())
			return nil
		}
		if ignoreTop != "" && rel == ignoreTop {
			return nil
		}
		switch {
		case info.Mode()&os.ModeSymlink != 0:
			if !exp.links[rel] {
				probs = append(probs, "unexpected symlink "+rel)
			}
		case info.IsDir():
			seenD[rel] = true
			if !exp.dirs[rel] {
				probs = append(probs, "extra directory "+rel)
			}
		case info.Mode().IsRegular():
			seenF[rel] = true
			alts, ok := exp.files[rel]
			if !ok {
				if exp.links[rel] {
					return nil // tar hard link materialised as a file
				}
				probs = append(probs, "extra file "+rel)
				return nil
			}
			got, err := os.ReadFile(p)
			if err != nil {
				probs = append(probs, "unreadable file "+rel+": "+err.Error())
				return nil
			}
			match := false
			for _, a := range alts {
				if bytes.Equal(a, got) {
					match = true
				}
			}
			if !match {
				w := alts[len(alts)-1]
				i := 0
				for i < len(w) && i < len(got) && w[i] == got[i] {
					i++
				}
				probs = append(probs, fmt.Sprintf("bytes differ in %s: got %d bytes, archived %d bytes (%d version(s)), first difference at offset %d", rel, len(got), len(w), len(alts), i))
			}
		default:
			probs = append(probs, "special file "+rel)
		}
		return nil
	})
	for f := range exp.files {
		if !seenF[f] {
			probs = append(probs, "missing file "+f)
		}
	}
	for d := range exp.dirs {
		if !seenD[d] {
			probs = append(probs, "missing directory "+d)
		}
	}
	sort.Strings(probs)
	if len(probs) > 12 {
		probs = append(probs[:12], fmt.Sprintf("... %d more", len(probs)-12))
	}
	return probs
}

// ---------------------------------------------------------------- contents

var c20contentKinds = []string{"empty", "1B", "big", "binary"}

func c20content(rng *rand.Rand, kind string) []byte {
	switch kind {
	case "empty":
		return []byte{}
	case "1B":
		return []byte{byte(rng.Intn(256))}
	case "big":
		b := make([]byte, 65537+rng.Intn(140000))
		rng.Read(b)
		if rng.Intn(2) == 0 { // compressible variant
			for i := range b {
				b[i] = b[i] & 3
			}
		}
		return b
	case "binary":
		b := make([]byte, 256+rng.Intn(3000))
		for i := range b {
			b[i] = byte(i)
		}
		for i := 0; i < 40; i++ {
			b[rng.Intn(len(b))] = 0
		}
		return b
	}
	b := make([]byte, 1+rng.Intn(300))
	for i := range b {
		b[i] = "abcdefghijklmnopqrstuvwxyz \n"[rng.Intn(28)]
	}
	return b
}

// ---------------------------------------------------------------- cases

type c20case struct {
	ID      int
	Class   string
	Format  string
	Content string
	Expect  string // benign | reject | confine
	DestVar int    // 0 clean, 1 trailing slash, 2 "/./" inside
	Ents    []c20ent
	Origin  string // matrix | tree | combo
	Shape   string
	arc     []byte // built archive (prepare)
	arcErr  error
}

const c20depth = 7

type c20layout struct{ root, deep, outside, sentinel, dest string }

func c20layoutOf(root string) c20layout {
	l := c20layout{root: root}
	l.deep = root
	for i := 1; i <= c20depth; i++ {
		l.deep = filepath.Join(l.deep, strconv.Itoa(i))
	}
	l.outside = filepath.Join(l.deep, "outside")
	l.sentinel = filepath.Join(l.deep, "sentinel")
	l.dest = filepath.Join(l.sentinel, "dest")
	return l
}

func c20mkLayout(root string) (c20layout, error) {
	l := c20layoutOf(root)
	for _, d := range []string{l.outside, filepath.Join(l.outside, "sub"), l.dest, filepath.Join(root, "arc")} {
		if err := os.MkdirAll(d, 0o755); err != nil {
			return l, err
		}
	}
	err := os.WriteFile(filepath.Join(l.outside, "victim.txt"), []byte("VICTIM: must never change\n"), 0o644)
	return l, err
}

// A class is a function from (layout-independent placeholders, rng, content kind) to entries.
// Placeholders: {OUT} absolute path of the outside directory, {SENT} absolute sentinel path.
type c20class struct {
	name    string
	expect  string
	formats string // which formats can represent it: subset of "tgz txz zip"
	mk      func(rng *rand.Rand, d func() []byte) []c20ent
}

func c20f(name string, data []byte) c20ent { return c20ent{Name: name, Kind: 'f', Data: data} }
func c20d(name string) c20ent              { return c20ent{Name: name, Kind: 'd'} }

func c20classes() []c20class {
	all := "tgz txz zip"
	tarOnly := "tgz txz"
	ups := func(n int) string { return strings.Repeat("../", n) }
	return []c20class{
		// ---- well-formed: must be reproduced exactly
		{"plain", "benign", all, func(r *rand.Rand, d func() []byte) []c20ent { return []c20ent{c20f("a.txt", d())} }},
		{"nested", "benign", all, func(r *rand.Rand, d func() []byte) []c20ent {
			return []c20ent{c20d("d1/"), c20d("d1/d2/"), c20f("d1/d2/f.bin", d()), c20f("d1/g.txt", d()), c20d("d1/empty/")}
		}},
		{"nodirentry", "benign", all, func(r *rand.Rand, d func() []byte) []c20ent { return []c20ent{c20f("x/y/z.txt", d())} }},
		{"dir-after-file", "benign", all, func(r *rand.Rand, d func() []byte) []c20ent {
			return []c20ent{c20f("p/q.txt", d()), c20d("p/")}
		}},
		{"dotslash-prefix", "benign", all, func(r *rand.Rand, d func() []byte) []c20ent {
			return []c20ent{c20f("./a.txt", d()), c20d("./d/"), c20f("./d/b.txt", d())}
		}},
		{"dotslash-dir", "benign", all, func(r *rand.Rand, d func() []byte) []c20ent {
			return []c20ent{c20d("./"), c20f("./a.txt", d()), c20d("./d/"), c20f("./d/b.txt", d())}
		}},
		{"dot-dir", "benign", tarOnly, func(r *rand.Rand, d func() []byte) []c20ent {
			return []c20ent{c20d("."), c20f("a.txt", d())}
		}},
		{"trailing-slash-dir", "benign", all, func(r *rand.Rand, d func() []byte) []c20ent {
			return []c20ent{c20d("e1/"), c20d("e2"), c20f("e2/x", d())}
		}},
		{"duplicate-shrink", "benign", all, func(r *rand.Rand, d func() []byte) []c20ent {
			a := d()
			first := append([]byte("FIRST VERSION (longer) "), a...)
			first = append(first, []byte(" -tail-of-the-first-version")...)
			return []c20ent{c20f("a.txt", first), c20f("a.txt", a)}
		}},
		{"duplicate-grow", "benign", all, func(r *rand.Rand, d func() []byte) []c20ent {
			a := d()
			return []c20ent{c20f("a.txt", a), c20f("a.txt", append([]byte("second version, longer:"), a...))}
		}},
		{"duplicate-dir", "benign", all, func(r *rand.Rand, d func() []byte) []c20ent {
			return []c20ent{c20d("d/"), c20f("d/x", d()), c20d("d/")}
		}},
		{"backslash", "benign", all, func(r *rand.Rand, d func() []byte) []c20ent {
			return []c20ent{c20f(`a\b.txt`, d()), c20f(`..\evil.txt`, d()), c20f(`..\..\evil.txt`, d())}
		}},
		{"long-name-255", "benign", all, func(r *rand.Rand, d func() []byte) []c20ent {
			return []c20ent{c20f(strings.Repeat("L", 255), d())}
		}},
		{"long-path", "benign", all, func(r *rand.Rand, d func() []byte) []c20ent {
			var es []c20ent
			p := ""
			for i := 0; i < 9; i++ {
				p += strings.Repeat(string(rune('A'+i)), 200) + "/"
				es = append(es, c20d(p))
			}
			return append(es, c20f(p+"f", d()))
		}},
		{"dotdot-substring", "benign", all, func(r *rand.Rand, d func() []byte) []c20ent {
			return []c20ent{c20d("..a/"), c20f("..a/b..c", d()), c20f("...", d()), c20f("a..", d())}
		}},
		{"symlink-inside", "benign", tarOnly, func(r *rand.Rand, d func() []byte) []c20ent {
			return []c20ent{c20d("d/"), c20f("d/t.txt", d()), {Name: "d/l", Kind: 's', Link: "t.txt"}}
		}},
		// ---- escaping: must be rejected with an error, nothing outside
		{"dotdot-top", "reject", all, func(r *rand.Rand, d func() []byte) []c20ent {
			return []c20ent{c20f("ok.txt", d()), c20f("../evil.txt", d())}
		}},
		{"dotdot-depth", "reject", all, func(r *rand.Rand, d func() []byte) []c20ent {
			return []c20ent{c20f(ups(2+r.Intn(c20depth))+"evil.txt", d())}
		}},
		{"dotdot-deep", "reject", all, func(r *rand.Rand, d func() []byte) []c20ent {
			return []c20ent{c20d("a/"), c20d("a/b/"), c20f("a/b/"+ups(3+r.Intn(c20depth-1))+"evil.txt", d())}
		}},
		{"dotdot-mid", "reject", all, func(r *rand.Rand, d func() []byte) []c20ent {
			return []c20ent{c20f("a/../../evil.txt", d())}
		}},
		{"dotdot-mid-existing", "reject", all, func(r *rand.Rand, d func() []byte) []c20ent {
			return []c20ent{c20d("a/"), c20f("a/../../evil.txt", d())}
		}},
		{"dotdot-sibling", "reject", all, func(r *rand.Rand, d func() []byte) []c20ent {
			return []c20ent{c20f("../dest-evil.txt", d())}
		}},
		{"dotdot-dir", "reject", all, func(r *rand.Rand, d func() []byte) []c20ent {
			return []c20ent{c20d("../evildir/"), c20f("../evildir/x.txt", d())}
		}},
		{"dotdot-into-outside", "reject", all, func(r *rand.Rand, d func() []byte) []c20ent {
			return []c20ent{c20f("../../outside/victim.txt", d()), c20f("../../outside/sub/new.txt", d())}
		}},
		// ---- not well-formed / sanitisable: only confinement is required
		{"dotdot-inside", "confine", all, func(r *rand.Rand, d func() []byte) []c20ent {
			return []c20ent{c20d("a/"), c20f("a/../b.txt", d())}
		}},
		{"absolute", "confine", all, func(r *rand.Rand, d func() []byte) []c20ent {
			return []c20ent{c20f("{OUT}/abs_evil.txt", d()), c20f("{SENT}/abs_evil2.txt", d()), c20d("{OUT}/absdir/"), c20f("{OUT}/victim.txt", d())}
		}},
		{"absolute-dotdot", "confine", all, func(r *rand.Rand, d func() []byte) []c20ent {
			return []c20ent{c20f("/../../evil.txt", d()), c20f("//{OUT}/abs3.txt", d())}
		}},
		{"empty-name", "confine", all, func(r *rand.Rand, d func() []byte) []c20ent {
			return []c20ent{c20f("", d()), c20f("after.txt", d())}
		}},
		{"clash-file-then-dir", "confine", all, func(r *rand.Rand, d func() []byte) []c20ent {
			return []c20ent{c20f("c", d()), c20d("c/"), c20f("c/x", d())}
		}},
		{"clash-dir-then-file", "confine", all, func(r *rand.Rand, d func() []byte) []c20ent {
			return []c20ent{c20d("c/"), c20f("c/x", d()), c20f("c", d())}
		}},
		{"file-trailing-slash", "confine", all, func(r *rand.Rand, d func() []byte) []c20ent {
			return []c20ent{c20f("f.txt"+c20slashMark, d()), c20f("g"+c20slashMark, d()), c20f("g/inner.txt", d())}
		}},
		{"long-name-300", "confine", all, func(r *rand.Rand, d func() []byte) []c20ent {
			return []c20ent{c20f(strings.Repeat("L", 300), d())}
		}},
		{"symlink-dir-out-rel", "confine", all, func(r *rand.Rand, d func() []byte) []c20ent {
			return []c20ent{{Name: "lnk", Kind: 's', Link: "../../outside"}, c20f("lnk/pwned.txt", d()), c20f("lnk/victim.txt", d())}
		}},
		{"symlink-dir-out-abs", "confine", all, func(r *rand.Rand, d func() []byte) []c20ent {
			return []c20ent{{Name: "lnk", Kind: 's', Link: "{OUT}"}, c20f("lnk/pwned.txt", d()), c20f("lnk/victim.txt", d())}
		}},
		{"symlink-file-out", "confine", all, func(r *rand.Rand, d func() []byte) []c20ent {
			return []c20ent{{Name: "lnk", Kind: 's', Link: "../../outside/victim.txt"}, c20f("lnk", d())}
		}},
		{"symlink-deep-out", "confine", all, func(r *rand.Rand, d func() []byte) []c20ent {
			return []c20ent{c20d("d/"), {Name: "d/lnk", Kind: 's', Link: "../../../outside"}, c20f("d/lnk/pwned.txt", d())}
		}},
		// chains of links that are each textually inside the destination but resolve outside through an earlier link
		{"symlink-chain-up", "confine", all, func(r *rand.Rand, d func() []byte) []c20ent {
			return []c20ent{c20d("a/"), c20d("a/b/"), {Name: "a/b/up", Kind: 's', Link: "../.."}, {Name: "out", Kind: 's', Link: "a/b/up/.."},
				c20f("out/pwned.txt", d())}
		}},
		{"symlink-chain-up-nodirs", "confine", all, func(r *rand.Rand, d func() []byte) []c20ent {
			return []c20ent{{Name: "a/b/up", Kind: 's', Link: "../.."}, {Name: "out", Kind: 's', Link: "a/b/up/.."}, c20f("out/pwned.txt", d())}
		}},
		{"symlink-chain-self-dot", "confine", all, func(r *rand.Rand, d func() []byte) []c20ent {
			return []c20ent{c20d("x/"), {Name: "x/here", Kind: 's', Link: ".."}, {Name: "x/esc", Kind: 's', Link: "here/.."}, c20f("x/esc/pwned.txt", d())}
		}},
		{"symlink-chain-three", "confine", all, func(r *rand.Rand, d func() []byte) []c20ent {
			return []c20ent{c20d("p/"), c20d("p/q/"), c20d("p/q/r/"), {Name: "p/q/r/l1", Kind: 's', Link: "../../.."}, {Name: "p/l2", Kind: 's', Link: "q/r/l1/.."},
				{Name: "l3", Kind: 's', Link: "p/l2/../outside"}, c20f("l3/victim.txt", d()), c20f("p/l2/pwned.txt", d())}
		}},
		{"symlink-parent", "confine", all, func(r *rand.Rand, d func() []byte) []c20ent {
			return []c20ent{{Name: "up", Kind: 's', Link: ".."}, c20f("up/evil.txt", d())}
		}},
		{"hardlink-out-rel", "confine", tarOnly, func(r *rand.Rand, d func() []byte) []c20ent {
			return []c20ent{{Name: "hl", Kind: 'h', Link: "../../outside/victim.txt"}, c20f("hl", d())}
		}},
		{"hardlink-out-abs", "confine", tarOnly, func(r *rand.Rand, d func() []byte) []c20ent {
			return []c20ent{{Name: "hl", Kind: 'h', Link: "{OUT}/victim.txt"}, c20f("hl", d())}
		}},
	}
}

func c20subst(ents []c20ent, l c20layout) []c20ent {
	out := make([]c20ent, len(ents))
	rp := strings.NewReplacer("{OUT}", l.outside, "{SENT}", l.sentinel)
	for i, e := range ents {
		e.Name = rp.Replace(e.Name)
		e.Link = rp.Replace(e.Link)
		out[i] = e
	}
	return out
}

// ---------------------------------------------------------------- environment shared by the stages

type c20concArc struct {
	ents []c20ent
	body []byte
}

type c20env struct {
	concArc map[string]*c20concArc
	t       *testing.T
	rep     *vReport
	work    string
	open    map[string]bool // ids of open findings -> constructs the random generators avoid
	only    int
	workers int
	nextID  int
}

func c20openFindings() map[string]bool {
	open := map[string]bool{}
	if os.Getenv("VERIF_C20_NOAVOID") != "" { // validation aid: generate the avoided constructs as well
		return open
	}
	b, err := os.ReadFile(filepath.Join(os.Getenv("VERIF_DIR"), "findings", "C20.json"))
	if err != nil {
		return open
	}
	var doc struct {
		Findings []struct {
			ID     string `json:"id"`
			Status string `json:"status"`
		} `json:"findings"`
	}
	if json.Unmarshal(b, &doc) == nil {
		for _, f := range doc.Findings {
			if f.Status == "open" {
				open[f.ID] = true
			}
		}
	}
	return open
}

func (env *c20env) describe(c *c20case, l c20layout, err error, extra []string) map[string]string {
	var sb strings.Builder
	fmt.Fprintf(&sb, "case %d  origin=%s class=%s format=%s content=%s expect=%s destvariant=%d\n", c.ID, c.Origin, c.Class, c.Format, c.Content, c.Expect, c.DestVar)
	fmt.Fprintf(&sb, "extract returned: %v\n", err)
	for _, e := range c20subst(c.Ents, l) {
		fmt.Fprintf(&sb, "  %s\n", strings.ReplaceAll(e.String(), l.root, "<case>"))
	}
	for _, x := range extra {
		fmt.Fprintf(&sb, "! %s\n", x)
	}
	fmt.Fprintf(&sb, "\nre-run only this case: VERIF_SEED=%d VERIF_C20_ONLY=%d ./run C20 %s\n", vSeed(), c.ID, os.Getenv("VERIF_TIER"))
	files := map[string]string{"case.txt": sb.String()}
	if len(c.arc) > 0 && len(c.arc) < 400000 {
		files["archive"+c20ext(c.Format)+".b64"] = base64.StdEncoding.EncodeToString(c.arc)
	}
	return files
}

// runCase executes one extraction and applies the oracle.
func (env *c20env) runCase(c *c20case) {
	rep := env.rep
	root := filepath.Join(env.work, fmt.Sprintf("k%06d", c.ID))
	os.RemoveAll(root)
	l, err := c20mkLayout(root)
	if err != nil {
		rep.Fail("monitor:layout", fmt.Sprint(c.ID), err.Error(), nil)
		return
	}
	defer os.RemoveAll(root)
	if os.Getenv("VERIF_C20_TIMING") != "" {
		tStart := time.Now()
		defer func() {
			fmt.Printf("C20TIMING %d %s %s %s %s %dms\n", c.ID, c.Origin, c.Class, c.Format, c.Content, time.Since(tStart).Milliseconds())
		}()
	}
	ents := c20subst(c.Ents, l)
	if c.arcErr != nil {
		rep.Count("unbuildable_"+c.Format+"_"+c.Class, 1)
		rep.Fail("monitor:unbuildable", fmt.Sprint(c.ID), fmt.Sprintf("%s/%s: %v", c.Format, c.Class, c.arcErr), nil)
		return
	}
	arc := filepath.Join(root, "arc", "a"+c20ext(c.Format))
	if err := os.WriteFile(arc, c.arc, 0o644); err != nil {
		rep.Fail("monitor:write", fmt.Sprint(c.ID), err.Error(), nil)
		return
	}
	destArg := l.dest
	switch c.DestVar {
	case 1:
		destArg = l.dest + "/"
	case 2:
		destArg = l.sentinel + "/./dest"
	}
	pre := c20snap(root, l.dest)
	xerr := c20extract(c.Format, arc, destArg)
	post := c20snap(root, l.dest)
	rep.Eval(1)
	rep.Sig(c.Origin + "|" + c.Class + "|" + c.Format + "|" + c.Content + "|" + c.Shape)
	rep.Count("outcome_"+c.Expect+"_"+map[bool]string{true: "error", false: "ok"}[xerr != nil], 1)
	name := fmt.Sprintf("%s-%s-%s-%d", c.Format, c.Class, c.Content, c.ID)
	cls := c.Format + ":" + c.Class
	switch c.Origin {
	case "tree":
		cls = "tree:" + c.Format
	case "combo":
		cls = "combo:" + cls
	}
	if xerr != nil && strings.HasPrefix(xerr.Error(), "PANIC") {
		rep.Fail(cls+":panic", name, xerr.Error(), env.describe(c, l, xerr, nil))
		return
	}
	esc := c20snapDiff(pre, post, root)
	if len(esc) > 0 {
		rep.Fail(cls+":escape", name, fmt.Sprintf("%s archive, name class %s: %s (extract error: %v)", c.Format, c.Class, strings.Join(esc, "; "), xerr), env.describe(c, l, xerr, esc))
		return
	}
	switch c.Expect {
	case "reject":
		if xerr == nil {
			rep.Fail(cls+":accepted", name, fmt.Sprintf("%s archive with an entry leaving the destination (class %s) was extracted without an error", c.Format, c.Class), env.describe(c, l, xerr, nil))
		}
	case "benign":
		if xerr != nil {
			rep.Fail(cls+":benign-rejected", name, fmt.Sprintf("well-formed %s archive (class %s) rejected: %v", c.Format, c.Class, xerr), env.describe(c, l, xerr, nil))
			return
		}
		if probs := c20treeProblems(l.dest, c20expect(ents, ""), ""); len(probs) > 0 {
			rep.Fail(cls+":tree-mismatch", name, fmt.Sprintf("well-formed %s archive (class %s) not reproduced: %s", c.Format, c.Class, strings.Join(probs, "; ")), env.describe(c, l, xerr, probs))
		}
	}
}

func (env *c20env) caseRoot(c *c20case) string {
	return filepath.Join(env.work, fmt.Sprintf("k%06d", c.ID))
}

func (env *c20env) parallel(cases []*c20case, fn func(*c20case)) {
	var wg sync.WaitGroup
	ch := make(chan *c20case)
	for w := 0; w < env.workers; w++ {
		wg.Add(1)
		go func() {
			defer wg.Done()
			for c := range ch {
				fn(c)
			}
		}()
	}
	for _, c := range cases {
		ch <- c
	}
	close(ch)
	wg.Wait()
}

// prepare builds the archives of a batch.  Starting a process is expensive here (~80 ms), so
// all tar.xz archives of the batch are compressed by a few `xz` invocations over many files.
func (env *c20env) prepare(cases []*c20case) {
	xzdir := filepath.Join(env.work, "xzbatch")
	os.MkdirAll(xzdir, 0o755)
	env.parallel(cases, func(c *c20case) {
		ents := c20subst(c.Ents, c20layoutOf(env.caseRoot(c)))
		crng := rand.New(rand.NewSource(int64(c.ID)*7919 + vSeed()))
		if c.Format != "txz" {
			c.arc, c.arcErr = c20build(c.Format, ents, crng)
			return
		}
		b, err := c20tarBytes(ents)
		if err != nil {
			c.arcErr = err
			return
		}
		c.arcErr = os.WriteFile(filepath.Join(xzdir, fmt.Sprintf("%d.tar", c.ID)), c20patchTar(b), 0o644)
	})
	var groups [][]string
	n := 0
	for _, c := range cases {
		if c.Format == "txz" && c.arcErr == nil {
			if n%48 == 0 {
				groups = append(groups, nil)
			}
			groups[len(groups)-1] = append(groups[len(groups)-1], filepath.Join(xzdir, fmt.Sprintf("%d.tar", c.ID)))
			n++
		}
	}
	var wg sync.WaitGroup
	sem := make(chan bool, env.workers)
	for _, g := range groups {
		g := g
		wg.Add(1)
		sem <- true
		go func() {
			defer wg.Done()
			defer func() { <-sem }()
			exec.Command("xz", append([]string{"-0", "-T1", "-q"}, g...)...).Run()
		}()
	}
	wg.Wait()
	for _, c := range cases {
		if c.Format == "txz" && c.arcErr == nil {
			p := filepath.Join(xzdir, fmt.Sprintf("%d.tar.xz", c.ID))
			c.arc, c.arcErr = os.ReadFile(p)
			os.Remove(p)
		}
	}
}

func (env *c20env) runAll(all []*c20case) {
	var cases []*c20case
	for _, c := range all {
		if env.only < 0 || c.ID == env.only {
			cases = append(cases, c)
		}
	}
	env.prepare(cases)
	env.parallel(cases, env.runCase)
	for _, c := range cases {
		c.arc, c.Ents = nil, nil
	}
}

// ---------------------------------------------------------------- stage: complete matrix

func (env *c20env) matrix(rng *rand.Rand) {
	var cases []*c20case
	cells, na := 0, 0
	for _, cl := range c20classes() {
		for _, f := range c20formats {
			if !strings.Contains(cl.formats, f) {
				na++
				continue
			}
			cells++
			for _, ck := range c20contentKinds {
				ck := ck
				c := &c20case{ID: env.nextID, Class: cl.name, Format: f, Content: ck, Expect: cl.expect, Origin: "matrix", DestVar: rng.Intn(3)}
				env.nextID++
				c.Ents = cl.mk(rng, func() []byte { return c20content(rng, ck) })
				cases = append(cases, c)
			}
		}
	}
	env.rep.Extra["matrix_cells_class_x_format"] = cells
	env.rep.Extra["matrix_cells_not_representable"] = na
	env.rep.Extra["matrix_cases"] = len(cases)
	env.rep.Extra["matrix_exhaustive"] = map[string]any{"exhaustive": true, "subspace": "name class x archive format x content kind (every representable cell, once per run)"}
	if len(cases) > 0 {
		c := cases[len(cases)/2]
		var es []string
		for _, e := range c.Ents {
			es = append(es, e.String())
		}
		env.rep.Sample(map[string]any{"stage": "matrix", "class": c.Class, "format": c.Format, "content": c.Content, "expect": c.Expect, "entries": es})
	}
	env.runAll(cases)
}

// ---------------------------------------------------------------- stage: random trees and hostile combinations

var c20nameAlphabet = []string{"a", "b", "c", "lib", "include", "bin", "x-1.0", "with space", "ünï", "..hid", "dots..", "...", "-rf", "@", "a.b.c", "UPPER", "~t", "#h", "q'q", "[br]", "%41", "tab\there"}

func c20randTree(rng *rand.Rand, format string, open map[string]bool) ([]c20ent, string) {
	// directories first
	ndirs := rng.Intn(5)
	dirs := []string{""}
	for i := 0; i < ndirs; i++ {
		p := dirs[rng.Intn(len(dirs))]
		if strings.Count(p, "/") >= 4 {
			continue
		}
		dirs = append(dirs, p+c20nameAlphabet[rng.Intn(len(c20nameAlphabet))]+strconv.Itoa(i)+"/")
	}
	nfiles := 1 + rng.Intn(7)
	type fl struct {
		name string
		data []byte
		ck   string
	}
	var files []fl
	usedNames := map[string]bool{}
	for i := 0; i < nfiles; i++ {
		ck := []string{"empty", "1B", "big", "binary", "text", "text", "text"}[rng.Intn(7)]
		if ck == "big" && rng.Intn(3) != 0 {
			ck = "text"
		}
		n := dirs[rng.Intn(len(dirs))] + c20nameAlphabet[rng.Intn(len(c20nameAlphabet))] + "_" + strconv.Itoa(i)
		if usedNames[n] {
			continue
		}
		usedNames[n] = true
		files = append(files, fl{n, c20content(rng, ck), ck})
	}
	// variant: how directory entries are placed
	variants := []string{"dirs-first", "dirs-first", "no-dir-entries", "dirs-last", "dotslash", "dotslash-root"}
	var allowed []string
	for _, v := range variants {
		if format == "zip" && open["C20-zip-parent-dirs"] && (v == "no-dir-entries" || v == "dirs-last" || v == "dotslash") {
			continue
		}
		if format == "tgz" && open["C20-tar-dot-entry"] && v == "dotslash-root" {
			continue
		}
		allowed = append(allowed, v)
	}
	v := allowed[rng.Intn(len(allowed))]
	pfx := ""
	if v == "dotslash" || v == "dotslash-root" {
		pfx = "./"
	}
	var ents []c20ent
	slash := func(d string) string {
		if format != "zip" && rng.Intn(3) == 0 {
			return strings.TrimSuffix(d, "/")
		}
		return d
	}
	if v == "dotslash-root" {
		ents = append(ents, c20d("./"))
	}
	if v == "dirs-first" || v == "dotslash-root" {
		for _, d := range dirs[1:] {
			ents = append(ents, c20d(pfx+slash(d)))
		}
	}
	for _, f := range files {
		ents = append(ents, c20f(pfx+f.name, f.data))
	}
	if v == "dirs-last" {
		for _, d := range dirs[1:] {
			ents = append(ents, c20d(pfx+slash(d)))
		}
	}
	if v == "no-dir-entries" || v == "dotslash" {
		// directories only exist through the files below them; keep an explicit entry for empty ones
		for _, d := range dirs[1:] {
			has := false
			for _, f := range files {
				if strings.HasPrefix(f.name, d) {
					has = true
				}
			}
			if !has && !(format == "zip" && open["C20-zip-parent-dirs"]) {
				// an empty directory nested in undeclared parents
				ents = append(ents, c20d(pfx+d))
			}
		}
	}
	if format != "zip" && rng.Intn(6) == 0 && len(files) > 0 {
		ents = append(ents, c20ent{Name: pfx + "link_to_first", Kind: 's', Link: files[0].name})
	}
	// duplicates (a later version of an existing file)
	if rng.Intn(5) == 0 && len(files) > 0 && !(format == "tgz" && open["C20-tar-no-truncate"]) {
		f := files[rng.Intn(len(files))]
		ents = append(ents, c20f(pfx+f.name, c20content(rng, "text")))
	}
	var sh []string
	for _, e := range ents {
		sh = append(sh, fmt.Sprintf("%c%d", e.Kind, strings.Count(e.Name, "/")))
	}
	sort.Strings(sh)
	cks := map[string]bool{}
	for _, f := range files {
		cks[f.ck] = true
	}
	var ckl []string
	for k := range cks {
		ckl = append(ckl, k)
	}
	sort.Strings(ckl)
	return ents, v + "|" + strings.Join(sh, "") + "|" + strings.Join(ckl, ",")
}

func (env *c20env) random(rng *rand.Rand) {
	var cases []*c20case
	var sampleCase *c20case
	flush := func(force bool) {
		if len(cases) >= 600 || force {
			if sampleCase == nil && len(cases) > 5 {
				cp := *cases[4]
				sampleCase = &cp
			}
			env.runAll(cases)
			cases = nil
		}
	}
	ntrees := vN(200, 2000)
	for i := 0; i < ntrees; i++ {
		flush(false)
		// one tree per format: the generator depends on the format only where a construct is avoided
		for _, f := range c20formats {
			ents, shape := c20randTree(rng, f, env.open)
			c := &c20case{ID: env.nextID, Class: "tree", Format: f, Content: "mixed", Expect: "benign", Origin: "tree", Ents: ents, Shape: shape, DestVar: rng.Intn(3)}
			env.nextID++
			cases = append(cases, c)
		}
	}
	// hostile combinations: a benign tree with the entries of one hostile class spliced in
	var hostile []c20class
	for _, cl := range c20classes() {
		if cl.expect != "benign" {
			hostile = append(hostile, cl)
		}
	}
	ncombo := vN(180, 2000)
	avoided := 0
	for i := 0; i < ncombo; i++ {
		flush(false)
		f := c20formats[rng.Intn(3)]
		cl := hostile[rng.Intn(len(hostile))]
		if !strings.Contains(cl.formats, f) {
			f = "tgz"
		}
		if f == "zip" && env.open["C20-zip-slip"] && (cl.expect == "reject" || cl.name == "absolute-dotdot") {
			avoided++
			f = []string{"tgz", "txz"}[rng.Intn(2)]
		}
		base, shape := c20randTree(rng, f, map[string]bool{"C20-zip-parent-dirs": true, "C20-tar-dot-entry": true, "C20-tar-no-truncate": true})
		ck := c20contentKinds[rng.Intn(4)]
		if ck == "big" && rng.Intn(2) == 0 {
			ck = "1B"
		}
		h := cl.mk(rng, func() []byte { return c20content(rng, ck) })
		// the base tree must not collide with the hostile names: move it below its own directory
		for j := range base {
			base[j].Name = "base/" + strings.TrimPrefix(base[j].Name, "./")
			if base[j].Kind == 's' {
				base[j].Kind, base[j].Data = 'f', []byte("was a link")
			}
		}
		base = append([]c20ent{c20d("base/")}, base...)
		pos := rng.Intn(len(base) + 1)
		ents := append(append(append([]c20ent{}, base[:pos]...), h...), base[pos:]...)
		c := &c20case{ID: env.nextID, Class: cl.name, Format: f, Content: ck, Expect: cl.expect, Origin: "combo", Ents: ents, Shape: fmt.Sprintf("%s@%d/%d", shape, pos, len(base)), DestVar: rng.Intn(3)}
		env.nextID++
		cases = append(cases, c)
	}
	env.rep.Extra["random_trees"] = ntrees * 3
	env.rep.Extra["random_combos"] = ncombo
	env.rep.Extra["random_combos_moved_off_avoided_construct"] = avoided
	flush(true)
	if sampleCase != nil {
		c := sampleCase
		var es []string
		for _, e := range c.Ents {
			es = append(es, e.String())
		}
		env.rep.Sample(map[string]any{"stage": "random tree", "format": c.Format, "variant": c.Shape, "entries": es})
	}
}

// ---------------------------------------------------------------- lock protocol probe (deterministic)

// c20flockWaiters reports whether /proc/locks shows a blocked FLOCK request of this process
// (on inode ino, or on any inode when ino==0).  Logical state, no timing.
func c20flockWaiters(ino uint64) (bool, error) {
	b, err := os.ReadFile("/proc/locks")
	if err != nil {
		return false, err
	}
	pid := strconv.Itoa(os.Getpid())
	for _, ln := range strings.Split(string(b), "\n") {
		if !strings.Contains(ln, "-> FLOCK") {
			continue
		}
		f := strings.Fields(ln)
		// "1: -> FLOCK ADVISORY WRITE <pid> <maj>:<min>:<ino> 0 EOF"
		if len(f) < 7 || f[5] != pid {
			continue
		}
		if ino == 0 || strings.HasSuffix(f[6], ":"+strconv.FormatUint(ino, 10)) {
			return true, nil
		}
	}
	return false, nil
}

func c20inode(p string) uint64 {
	var st syscall.Stat_t
	if syscall.Stat(p, &st) != nil {
		return 0
	}
	return st.Ino
}

func c20waitWaiter(ino uint64, polls int) bool {
	for i := 0; i < polls; i++ {
		if ok, err := c20flockWaiters(ino); err != nil {
			return false
		} else if ok {
			return true
		}
		time.Sleep(500 * time.Microsecond)
	}
	return false
}

// lockProbe: A holds the lock, B waits for it, A releases, then C asks for the lock while B
// holds it.  Mutual exclusion means C must wait.  Decided from channel state and /proc/locks.
func (env *c20env) lockProbe() {
	rep := env.rep
	n := vN(12, 60)
	broken, incon := 0, 0
	for i := 0; i < n; i++ {
		dir := filepath.Join(env.work, fmt.Sprintf("lockprobe%03d", i))
		os.MkdirAll(dir, 0o755)
		lp := filepath.Join(dir, "dst.lock")
		fA, err := acquireLock(lp)
		if err != nil {
			rep.Fail("lock:probe-acquire-error", fmt.Sprint(i), err.Error(), nil)
			return
		}
		ino := c20inode(lp)
		bHeld := make(chan *os.File, 1)
		go func() { f, _ := acquireLock(lp); bHeld <- f }()
		if !c20waitWaiter(ino, 4000) {
			incon++
			releaseLock(fA)
			releaseLock(<-bHeld)
			os.RemoveAll(dir)
			continue
		}
		releaseLock(fA)
		fB := <-bHeld
		cHeld := make(chan *os.File, 1)
		go func() { f, _ := acquireLock(lp); cHeld <- f }()
		var fC *os.File
		verdict := ""
		for k := 0; k < 8000 && verdict == ""; k++ {
			select {
			case fC = <-cHeld:
				verdict = "both-hold"
			default:
				if ok, _ := c20flockWaiters(0); ok {
					verdict = "c-waits"
				} else {
					time.Sleep(250 * time.Microsecond)
				}
			}
		}
		rep.Eval(1)
		switch verdict {
		case "both-hold":
			broken++
		case "":
			incon++
		}
		releaseLock(fB)
		if fC == nil {
			fC = <-cHeld
		}
		releaseLock(fC)
		os.RemoveAll(dir)
	}
	rep.Extra["lockprobe_rounds"] = n
	rep.Extra["lockprobe_two_holders"] = broken
	rep.Extra["lockprobe_inconclusive"] = incon
	rep.Sig("lockprobe")
	if broken > 0 {
		rep.Fail("lock:identity:two-holders", "lockprobe", fmt.Sprintf("acquireLock/releaseLock: in %d of %d rounds a third request obtained the lock for the same path while the second one was still holding it (A holds, B waits, A releases, C locks a freshly created file because A unlinked the one B holds)", broken, n), map[string]string{"probe.txt": "A:=acquireLock(p); go B:=acquireLock(p) [blocked, seen in /proc/locks]; releaseLock(A); B now holds; C:=acquireLock(p) must block (seen in /proc/locks) but returned\n"})
	}
}

// lockStress: k goroutines loop acquireLock/releaseLock on one path; an occupancy counter inside the critical
// section must never exceed 1 (mutual exclusion with two or more waiters at a release - a single waiter
// cannot expose a weakened "is it still my file" re-check). Verdict by counter, bounded by iterations.
func (env *c20env) lockStress() {
	rep := env.rep
	dir := filepath.Join(env.work, "lockstress")
	os.MkdirAll(dir, 0o755)
	lp := filepath.Join(dir, "dst.lock")
	const workers = 4
	iters := vN(250, 2500)
	var inside, overlaps, acquired int64
	var wg sync.WaitGroup
	for w := 0; w < workers; w++ {
		wg.Add(1)
		go func() {
			defer wg.Done()
			for i := 0; i < iters; i++ {
				f, err := acquireLock(lp)
				if err != nil {
					continue
				}
				atomic.AddInt64(&acquired, 1)
				if atomic.AddInt64(&inside, 1) != 1 {
					atomic.AddInt64(&overlaps, 1)
				}
				runtime.Gosched()
				atomic.AddInt64(&inside, -1)
				releaseLock(f)
			}
		}()
	}
	wg.Wait()
	os.RemoveAll(dir)
	rep.Eval(int(acquired))
	rep.Extra["lockstress_acquisitions"] = acquired
	rep.Extra["lockstress_overlaps"] = overlaps
	rep.Sig("lockstress")
	if overlaps > 0 {
		rep.Fail("lock:exclusion:overlap", "lockstress", fmt.Sprintf("%d of %d critical sections entered through acquireLock overlapped with another holder of the same lock path (%d goroutines looping acquire/release)", overlaps, acquired, workers), nil)
	}
}

// ---------------------------------------------------------------- stage: concurrent requests

type c20round struct {
	ID       int
	Entry    string // lib | libsub | wasi | esp
	Format   string
	N        int
	Starts   []string // per requester: now | req1 | req2 | resp1 | resp2 | visible
	Faults   []string // per request in arrival order: ok | fail500 | truncate | slow | stall | failwait
	Procs    bool
	Scenario string // random | failfirst-latejoiner
	Big      bool
}

type c20roundState struct {
	r        c20round
	body     []byte
	lockPath string
	nreq     int32
	inflight int32
	maxIn    int32
	faulty   int32
	mu       sync.Mutex
	reqCh    [10]chan struct{}
	respCh   [10]chan struct{}
	log      []string
}

func (s *c20roundState) logf(f string, a ...any) {
	s.mu.Lock()
	s.log = append(s.log, fmt.Sprintf(f, a...))
	s.mu.Unlock()
}

func c20closeOnce(ch chan struct{}) {
	defer func() { recover() }()
	close(ch)
}

func c20waitCh(ch chan struct{}, d time.Duration) {
	select {
	case <-ch:
	case <-time.After(d):
	}
}

func (s *c20roundState) serve(w http.ResponseWriter, r *http.Request) {
	k := int(atomic.AddInt32(&s.nreq, 1))
	cur := atomic.AddInt32(&s.inflight, 1)
	for {
		m := atomic.LoadInt32(&s.maxIn)
		if cur <= m || atomic.CompareAndSwapInt32(&s.maxIn, m, cur) {
			break
		}
	}
	defer atomic.AddInt32(&s.inflight, -1)
	if k < len(s.reqCh) {
		c20closeOnce(s.reqCh[k])
		defer c20closeOnce(s.respCh[k])
	}
	fault := "ok"
	if k-1 < len(s.r.Faults) {
		fault = s.r.Faults[k-1]
	}
	s.logf("request %d (%s) arrives, in flight %d, behaviour %s", k, r.URL.Path, cur, fault)
	switch fault {
	case "failwait":
		// exposure only: let a second requester queue up on the lock before this one fails
		c20waitWaiter(c20inode(s.lockPath), 600)
		fallthrough
	case "fail500":
		atomic.AddInt32(&s.faulty, 1)
		w.WriteHeader(http.StatusInternalServerError)
		return
	case "truncate":
		atomic.AddInt32(&s.faulty, 1)
		w.Header().Set("Content-Length", strconv.Itoa(len(s.body)))
		w.Write(s.body[:len(s.body)/2])
		if hj, ok := w.(http.Hijacker); ok {
			if c, _, err := hj.Hijack(); err == nil {
				c.Close()
			}
		}
		return
	case "stall":
		if k+1 < len(s.reqCh) {
			c20waitCh(s.reqCh[k+1], 150*time.Millisecond)
		}
	}
	w.Header().Set("Content-Type", "application/octet-stream")
	if fault == "slow" {
		fl, _ := w.(http.Flusher)
		step := len(s.body)/8 + 1
		for i := 0; i < len(s.body); i += step {
			j := i + step
			if j > len(s.body) {
				j = len(s.body)
			}
			w.Write(s.body[i:j])
			if fl != nil {
				fl.Flush()
			}
			time.Sleep(2 * time.Millisecond)
		}
		return
	}
	w.Write(s.body)
}

type c20server struct {
	srv    *httptest.Server
	mu     sync.Mutex
	rounds map[string]*c20roundState
}

func c20newServer() *c20server {
	s := &c20server{rounds: map[string]*c20roundState{}}
	s.srv = httptest.NewServer(http.HandlerFunc(func(w http.ResponseWriter, r *http.Request) {
		p := strings.SplitN(strings.TrimPrefix(r.URL.Path, "/"), "/", 2)
		s.mu.Lock()
		st := s.rounds[p[0]]
		s.mu.Unlock()
		if st == nil {
			w.WriteHeader(404)
			return
		}
		st.serve(w, r)
	}))
	return s
}

type c20callSpec struct {
	Entry    string
	URL      string // lib: archive URL; wasi: value for wasiSdkUrl; esp: value for espClangBaseUrl
	Dst      string
	Internal string
}

func c20call(sp c20callSpec) error {
	switch sp.Entry {
	case "lib", "libsub":
		return checkDownloadAndExtractLib(sp.URL, sp.Dst, sp.Internal)
	case "wasi":
		_, err := checkDownloadAndExtractWasiSDK(sp.Dst)
		return err
	case "esp":
		return checkDownloadAndExtractESPClang("x86_64-linux-gnu", sp.Dst)
	}
	return fmt.Errorf("bad entry")
}

func c20final(sp c20callSpec) string {
	if sp.Entry == "wasi" {
		return filepath.Join(sp.Dst, wasiMacosSubdir)
	}
	return sp.Dst
}

// conc archive: everything below one top directory
func c20concArchive(rng *rand.Rand, top string, big bool) []c20ent {
	ents := []c20ent{c20d(top + "/")}
	nd := 2 + rng.Intn(4)
	var dirs []string
	for i := 0; i < nd; i++ {
		d := fmt.Sprintf("%s/d%d/", top, i)
		if i > 1 && rng.Intn(2) == 0 {
			d = fmt.Sprintf("%sn%d/", dirs[rng.Intn(len(dirs))], i)
		}
		dirs = append(dirs, d)
		ents = append(ents, c20d(d))
	}
	nf := 20 + rng.Intn(20)
	if big {
		nf = 140 + rng.Intn(60)
	}
	for i := 0; i < nf; i++ {
		ck := "text"
		if i%17 == 3 {
			ck = "binary"
		}
		if i == 5 {
			ck = "big"
		}
		if i == 9 {
			ck = "empty"
		}
		ents = append(ents, c20f(fmt.Sprintf("%sf%d.dat", dirs[rng.Intn(len(dirs))], i), c20content(rng, ck)))
	}
	ents = append(ents, c20f(top+"/LAST", []byte("last entry of the archive\n")))
	return ents
}

func c20digest(dir string, ignoreTop string) string {
	h := sha256.New()
	if _, err := os.Lstat(dir); err != nil {
		return "missing"
	}
	filepath.Walk(dir, func(p string, info os.FileInfo, err error) error {
		if err != nil || p == dir {
			return nil
		}
		rel, _ := filepath.Rel(dir, p)
		if rel == ignoreTop {
			return nil
		}
		if info.IsDir() {
			fmt.Fprintf(h, "d %s\n", rel)
		} else if info.Mode().IsRegular() {
			s, n := c20sum(p)
			fmt.Fprintf(h, "f %s %d %s\n", rel, n, s)
		} else {
			fmt.Fprintf(h, "o %s\n", rel)
		}
		return nil
	})
	return hex.EncodeToString(h.Sum(nil)[:10])
}

func c20expectDigest(exp c20tree) string {
	var lines []string
	for d := range exp.dirs {
		lines = append(lines, fmt.Sprintf("d %s\n", d))
	}
	for f, alts := range exp.files {
		s := sha256.Sum256(alts[0])
		lines = append(lines, fmt.Sprintf("f %s %d %s\n", f, len(alts[0]), hex.EncodeToString(s[:8])))
	}
	// filepath.Walk visits in lexical order of full relative paths component-wise; emulate by sorting on components
	sort.Slice(lines, func(i, j int) bool {
		a := strings.Split(strings.TrimSuffix(strings.SplitN(lines[i], " ", 3)[1], "\n"), "/")
		b := strings.Split(strings.TrimSuffix(strings.SplitN(lines[j], " ", 3)[1], "\n"), "/")
		for k := 0; k < len(a) && k < len(b); k++ {
			if a[k] != b[k] {
				return a[k] < b[k]
			}
		}
		return len(a) < len(b)
	})
	h := sha256.New()
	for _, l := range lines {
		io.WriteString(h, l)
	}
	return hex.EncodeToString(h.Sum(nil)[:10])
}

// Child process: one request, prints outcome and a digest of what it sees at return.
func TestVerifC20Child(t *testing.T) {
	raw := os.Getenv("VERIF_C20_CHILD")
	if raw == "" {
		t.Skip("child only")
	}
	var sp c20callSpec
	if err := json.Unmarshal([]byte(raw), &sp); err != nil {
		t.Fatal(err)
	}
	switch sp.Entry {
	case "wasi":
		wasiSdkUrl = sp.URL
	case "esp":
		espClangBaseUrl = sp.URL
	}
	err := c20call(sp)
	ign := os.Getenv("VERIF_C20_IGNORE")
	if err != nil {
		fmt.Printf("C20CHILD ERR - %s\n", strings.ReplaceAll(err.Error(), "\n", " "))
		return
	}
	fmt.Printf("C20CHILD OK %s\n", c20digest(c20final(sp), ign))
}

func (env *c20env) runRound(srv *c20server, r c20round, rng *rand.Rand) {
	rep := env.rep
	key := fmt.Sprintf("r%d", r.ID)
	if os.Getenv("VERIF_C20_TIMING") != "" {
		t0 := time.Now()
		defer func() {
			fmt.Printf("C20TIMING round %d %s %s %s n=%d procs=%v big=%v starts=%v faults=%v %dms\n", r.ID, r.Scenario, r.Entry, r.Format, r.N, r.Procs, r.Big, r.Starts, r.Faults, time.Since(t0).Milliseconds())
		}()
	}
	parent := filepath.Join(env.work, "conc", key)
	os.MkdirAll(parent, 0o755)
	defer os.RemoveAll(parent)
	top := "pkg-1.0"
	sp := c20callSpec{Entry: r.Entry}
	var arcName, ignoreTop string
	lockPath := ""
	var leftovers []string
	switch r.Entry {
	case "lib":
		top = ""
		arcName = "pkg" + c20ext(r.Format)
		sp.Dst = filepath.Join(parent, "cache", "libdst")
		sp.URL = srv.srv.URL + "/" + key + "/" + arcName
		ignoreTop = arcName
	case "libsub":
		arcName = "pkg" + c20ext(r.Format)
		sp.Dst = filepath.Join(parent, "cache", "libdst")
		sp.URL = srv.srv.URL + "/" + key + "/" + arcName
		sp.Internal = top
	case "wasi":
		top = wasiMacosSubdir
		arcName = "wasi-sdk" + c20ext(r.Format)
		sp.Dst = filepath.Join(parent, "cache", "wasm32-wasip1")
		sp.URL = srv.srv.URL + "/" + key + "/" + arcName
		wasiSdkUrl = sp.URL
	case "esp":
		top = "esp-clang"
		sp.Dst = filepath.Join(parent, "cache", "esp-clang-x")
		sp.URL = srv.srv.URL + "/" + key
		espClangBaseUrl = sp.URL
	}
	lockPath = sp.Dst + ".lock"
	if r.Entry == "wasi" {
		leftovers = []string{sp.Dst + ".temp"}
	} else {
		leftovers = []string{sp.Dst + ".extract", sp.Dst + ".extract.temp"}
	}
	// archives are reused between rounds (building one under the race detector is slow)
	ck := fmt.Sprintf("%s|%s|%v", r.Entry, r.Format, r.Big)
	ca, ok := env.concArc[ck]
	if !ok {
		var ents []c20ent
		if r.Entry == "lib" {
			ents = c20concArchive(rng, "t", r.Big)
			for i := range ents { // no single top directory: strip it
				ents[i].Name = strings.TrimPrefix(ents[i].Name, "t/")
			}
			ents = ents[1:]
		} else {
			ents = c20concArchive(rng, top, r.Big)
		}
		body, err := c20buildFast(r.Format, ents)
		if err != nil {
			rep.Fail("monitor:conc-build", key, err.Error(), nil)
			return
		}
		ca = &c20concArc{ents, body}
		env.concArc[ck] = ca
	}
	ents, body := ca.ents, ca.body
	exp := c20expect(ents, top)
	expDigest := c20expectDigest(exp)
	st := &c20roundState{r: r, body: body, lockPath: lockPath}
	for i := range st.reqCh {
		st.reqCh[i] = make(chan struct{})
		st.respCh[i] = make(chan struct{})
	}
	srv.mu.Lock()
	srv.rounds[key] = st
	srv.mu.Unlock()
	defer func() { srv.mu.Lock(); delete(srv.rounds, key); srv.mu.Unlock() }()

	final := c20final(sp)
	type res struct {
		err   error
		probs []string
		ran   bool
	}
	results := make([]res, r.N)
	var wg sync.WaitGroup
	var active int32 // requesters that are not of kind "visible" and still running
	for i := 0; i < r.N; i++ {
		if r.Starts[i] != "visible" {
			active++
		}
	}
	for i := 0; i < r.N; i++ {
		i := i
		wg.Add(1)
		go func() {
			defer wg.Done()
			start := r.Starts[i]
			switch start {
			case "req1", "req2", "req3":
				c20waitCh(st.reqCh[int(start[3]-'0')], 400*time.Millisecond)
			case "resp1", "resp2":
				c20waitCh(st.respCh[int(start[4]-'0')], 400*time.Millisecond)
			case "visible":
				for atomic.LoadInt32(&active) > 0 {
					if _, err := os.Lstat(final); err == nil {
						break
					}
					time.Sleep(20 * time.Microsecond)
				}
			}
			st.logf("requester %d (%s) calls", i, start)
			var e error
			var probs []string
			if r.Procs {
				js, _ := json.Marshal(sp)
				cmd := exec.Command(os.Args[0], "-test.run", "^TestVerifC20Child$", "-test.v")
				cmd.Env = append(os.Environ(), "VERIF_C20_CHILD="+string(js), "VERIF_C20_IGNORE="+ignoreTop)
				out, _ := cmd.CombinedOutput()
				line := ""
				for _, ln := range strings.Split(string(out), "\n") {
					if strings.HasPrefix(ln, "C20CHILD ") {
						line = ln
					}
				}
				f := strings.SplitN(line, " ", 4)
				switch {
				case len(f) >= 3 && f[1] == "OK":
					if f[2] != expDigest {
						probs = []string{"digest of the destination seen by the child process at return is " + f[2] + ", expected " + expDigest}
					}
				case len(f) >= 4 && f[1] == "ERR":
					e = fmt.Errorf("%s", f[3])
				default:
					tail := string(out)
					if len(tail) > 600 {
						tail = tail[len(tail)-600:]
					}
					e = fmt.Errorf("child process gave no result: %s", tail)
				}
			} else {
				e = c20call(sp)
				if e == nil {
					probs = c20treeProblems(final, exp, ignoreTop)
				}
			}
			if start != "visible" {
				atomic.AddInt32(&active, -1)
			}
			st.logf("requester %d returns err=%v problems=%d", i, e, len(probs))
			results[i] = res{e, probs, true}
		}()
	}
	wg.Wait()
	rep.Eval(r.N)
	rep.Count("requests_served", int(st.nreq))
	if int(st.maxIn) > 1 {
		rep.Count("rounds_with_overlapping_downloads", 1)
	}
	rep.Sig(fmt.Sprintf("conc|%s|%s|%s|%d|%v|%v|%v", r.Scenario, r.Entry, r.Format, r.N, r.Starts, r.Faults, r.Procs))

	cls := "conc:" + r.Scenario
	nerr, nok := 0, 0
	var symptoms []string
	add := func(kind, msg string) { symptoms = append(symptoms, kind+"\x00"+msg) }
	for i, x := range results {
		if x.err != nil {
			nerr++
			st.logf("requester %d error: %v", i, x.err)
		} else {
			nok++
			if len(x.probs) > 0 {
				add("incomplete-at-return", fmt.Sprintf("requester %d returned success but the destination was not a complete copy at that moment: %s", i, strings.Join(x.probs, "; ")))
			}
		}
	}
	if nerr > int(st.faulty) {
		var msgs []string
		for i, x := range results {
			if x.err != nil {
				msgs = append(msgs, fmt.Sprintf("requester %d: %v", i, x.err))
			}
		}
		add("spurious-error", fmt.Sprintf("%d of %d requests failed although only %d response(s) were faulty: %s", nerr, r.N, st.faulty, strings.Join(msgs, " | ")))
	}
	fprobs := c20treeProblems(final, exp, ignoreTop)
	_, statErr := os.Lstat(final)
	if statErr == nil && len(fprobs) > 0 {
		add("partial-final", "final destination is not one complete copy: "+strings.Join(fprobs, "; "))
	}
	if statErr != nil && (nok > 0 || int(st.faulty) < r.N) {
		add("missing-final", fmt.Sprintf("no destination after all requests returned (%d succeeded, %d faulty responses, %d requesters)", nok, st.faulty, r.N))
	}
	for _, lo := range leftovers {
		if _, err := os.Lstat(lo); err == nil {
			add("leftover-copy", "temporary copy left behind after all requests returned: "+filepath.Base(lo))
		}
	}
	// nothing else may appear next to the destination (lock files are not copies and are tolerated)
	if des, err := os.ReadDir(filepath.Dir(sp.Dst)); err == nil {
		for _, de := range des {
			n := de.Name()
			full := filepath.Join(filepath.Dir(sp.Dst), n)
			if full == sp.Dst || full == lockPath {
				continue
			}
			known := false
			for _, lo := range leftovers {
				if full == lo {
					known = true
				}
			}
			if !known {
				add("stray-sibling", "unexpected entry next to the destination: "+n)
			}
		}
	}
	if len(symptoms) == 0 {
		return
	}
	st.mu.Lock()
	logtxt := strings.Join(st.log, "\n")
	st.mu.Unlock()
	js, _ := json.MarshalIndent(r, "", " ")
	for _, s := range symptoms {
		p := strings.SplitN(s, "\x00", 2)
		rep.Fail(cls+":"+p[0], fmt.Sprintf("%s-%s-%s-n%d", key, r.Entry, r.Format, r.N), p[1],
			map[string]string{"round.json": string(js), "events.log": logtxt + "\n", "how.txt": fmt.Sprintf("VERIF_SEED=%d ./run C20 %s   (round %d, scenario %s; interleaving-dependent)\n", vSeed(), os.Getenv("VERIF_TIER"), r.ID, r.Scenario)})
	}
}

func (env *c20env) conc(rng *rand.Rand) {
	if env.only >= 0 {
		return
	}
	srv := c20newServer()
	defer srv.srv.Close()
	origW, origE := wasiSdkUrl, espClangBaseUrl
	defer func() { wasiSdkUrl, espClangBaseUrl = origW, origE }()
	id := 0
	// (a) fixed scenario = probe for the lock-identity defect: first holder fails while a second waits,
	//     a third arrives while the second is downloading (req2) or extracting (resp2).
	nprobe := vN(8, 16)
	for i := 0; i < nprobe; i++ {
		r := c20round{ID: id, Entry: []string{"libsub", "lib", "libsub", "esp"}[i%4], Format: c20formats[i%3], Scenario: "failfirst-latejoiner", Big: true}
		if r.Entry == "esp" {
			r.Format = "txz"
		}
		if i%2 == 0 {
			r.N, r.Starts, r.Faults = 3, []string{"now", "req1", "req2"}, []string{"failwait", "stall", "ok"}
		} else {
			r.N, r.Starts, r.Faults = 4, []string{"now", "req1", "resp2", "resp2"}, []string{"failwait", "ok", "ok"}
		}
		r.Procs = vThorough() && i%5 == 4
		id++
		env.runRound(srv, r, rng)
	}
	// (b) random rounds
	nrand := vN(30, 100)
	lockOpen := env.open["C20-lock-identity"]
	starts := []string{"now", "now", "req1", "resp1", "req2", "visible", "visible"}
	faults := []string{"ok", "ok", "ok", "slow", "stall", "fail500", "truncate"}
	for i := 0; i < nrand; i++ {
		r := c20round{ID: id, Scenario: "random", N: 2 + rng.Intn(3)}
		id++
		r.Entry = []string{"lib", "libsub", "libsub", "wasi", "wasi", "esp"}[rng.Intn(6)]
		r.Format = c20formats[rng.Intn(3)]
		if r.Entry == "esp" {
			r.Format = "txz"
		}
		r.Big = rng.Intn(3) == 0
		r.Procs = rng.Intn(vN(9, 4)) == 0
		nf := 0
		for k := 0; k < r.N; k++ {
			f := faults[rng.Intn(len(faults))]
			if f == "fail500" || f == "truncate" {
				nf++
				if nf > r.N-1 { // keep at least one fault-free response
					f = "ok"
				}
			}
			r.Faults = append(r.Faults, f)
		}
		if lockOpen && nf > 0 {
			// probe + avoid: a failing holder followed by >= 2 more requesters is the known construct
			r.N = 2
			r.Faults = r.Faults[:2]
			if (r.Faults[0] == "fail500" || r.Faults[0] == "truncate") && (r.Faults[1] == "fail500" || r.Faults[1] == "truncate") {
				r.Faults[1] = "ok"
			}
			env.rep.Count("rounds_reduced_to_avoid_open_finding", 1)
		}
		r.Starts = []string{"now"}
		for k := 1; k < r.N; k++ {
			r.Starts = append(r.Starts, starts[rng.Intn(len(starts))])
		}
		env.runRound(srv, r, rng)
		if i == 2 {
			env.rep.Sample(map[string]any{"stage": "concurrent round", "round": r})
		}
	}
	// (c) fixed scenario: requesters that call the instant the destination becomes visible (a destination
	//     published before it is complete shows up here as incomplete-at-return)
	nvis := vN(6, 12)
	for i := 0; i < nvis; i++ {
		r := c20round{ID: id, Scenario: "visible-joiner", N: 3, Big: true, Starts: []string{"now", "visible", "visible"}, Faults: []string{"ok", "ok", "ok"}}
		id++
		r.Entry = []string{"wasi", "wasi", "libsub", "wasi", "esp", "lib"}[i%6]
		r.Format = c20formats[i%3]
		if r.Entry == "esp" {
			r.Format = "txz"
		}
		env.runRound(srv, r, rng)
	}
	env.rep.Extra["probe_rounds"] = nprobe
	env.rep.Extra["random_rounds"] = nrand
	env.rep.Extra["visible_joiner_rounds"] = nvis
}

// ---------------------------------------------------------------- entry points

func c20newEnv(t *testing.T, rep *vReport) *c20env {
	work, err := os.MkdirTemp(os.Getenv("VERIF_WORK"), "c20x")
	if err != nil {
		t.Fatal(err)
	}
	env := &c20env{t: t, rep: rep, work: work, open: c20openFindings(), only: -1, workers: 8, concArc: map[string]*c20concArc{}}
	if v, err := strconv.Atoi(os.Getenv("VERIF_C20_ONLY")); err == nil {
		env.only = v
	}
	if v, err := strconv.Atoi(os.Getenv("VERIF_C20_WORKERS")); err == nil && v > 0 {
		env.workers = v
	}
	var avoided []string
	for id := range env.open {
		avoided = append(avoided, id)
	}
	sort.Strings(avoided)
	rep.Extra["avoided_constructs_for_open_findings"] = avoided
	return env
}

// Part 1: hostile and benign archives through the real extract functions (sequential code: run without -race,
// the race detector makes building the archives 30x slower and has nothing to observe here).
func TestVerifC20Extract(t *testing.T) {
	rep := vNewReport("real extractTarGz/extractTarXz/extractZip on generated archives: every representable cell of (39 entry-name classes x 3 formats x 4 content kinds) on every run + random trees and hostile combinations by seed; oracle = snapshot of the whole case root outside dest unchanged, escaping classes end in an error, well-formed archives reproduced exactly (dirs, files, bytes). distinct = distinct (stage, class, format, content kind, tree shape)")
	defer rep.Write()
	env := c20newEnv(t, rep)
	defer os.RemoveAll(env.work)
	seed := vSeed()
	stages := os.Getenv("VERIF_C20_STAGES") // debugging aid: subset of "matrix,random"
	on := func(s string) bool { return stages == "" || strings.Contains(stages, s) }
	t0 := time.Now()
	if on("matrix") {
		env.matrix(rand.New(rand.NewSource(seed*1000003 + 1)))
	}
	t1 := time.Now()
	if on("random") {
		env.random(rand.New(rand.NewSource(seed*1000003 + 2)))
	}
	rep.Extra["seconds_matrix"] = int(t1.Sub(t0).Seconds())
	rep.Extra["seconds_random"] = int(time.Since(t1).Seconds())
}

// Part 2: lock hand-over probe and concurrent requests, under the race detector.
func TestVerifC20Conc(t *testing.T) {
	rep := vNewReport("real checkDownloadAndExtract{Lib,WasiSDK,ESPClang} called by 2-4 goroutines/processes for one destination against a loopback server that fails/truncates/stalls/slows responses: complete copy at every successful return and at the end, failed requests <= faulty responses, no temporary copies left; deterministic lock hand-over probe decided from /proc/locks; Go race detector on. distinct = distinct round plans (scenario, entry point, format, requesters, start conditions, response faults, goroutines|processes)")
	defer rep.Write()
	env := c20newEnv(t, rep)
	defer os.RemoveAll(env.work)
	seed := vSeed()
	t0 := time.Now()
	env.lockProbe()
	env.lockStress()
	t1 := time.Now()
	env.conc(rand.New(rand.NewSource(seed*1000003 + 3)))
	rep.Extra["seconds_lockprobe"] = int(t1.Sub(t0).Seconds())
	rep.Extra["seconds_rounds"] = int(time.Since(t1).Seconds())
}

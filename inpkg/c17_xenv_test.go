//go:build verif

// C17 monitor for xtool/env (ExpandEnv, ExpandEnvToArgs - the expansion behind `LLGoPackage = "link: ..."`
// directives), compiled into the package by `go test -overlay` (E2).
//
// Law ("$VAR / $(command) expansion substitutes exactly the referenced values"): the result is the
// template with, in ONE pass,
//
//	$NAME / ${NAME}              -> the value of the environment variable ("" when unset)
//	$(pkg-config ARGS...)        -> the line printed by that command for exactly those ARGS
//	$(llvm-config ARGS...)          (blank-separated, as written)
//	$(anything else)             -> nothing, and the command is NOT run (the code's own message:
//	                                "expand cmd only support pkg-config and llvm-config")
//	a "$" that starts no reference -> itself
//
// compared modulo white space around the whole result (callers trim the directive).  Values are
// data: a variable's value or a command's output is not expanded again.
// ExpandEnvToArgs: when a command was expanded the result is split as pkg-config flags, so a
// template made of flag-shaped pieces yields exactly the list of flags; without a command it is one
// argument.
//
// Fake pkg-config / llvm-config / c17-other: one generated sh script under three names, first on
// PATH; it answers from a table keyed by its exact argv and logs every invocation.  Process
// creation dominates the cost of this monitor (35-200 ms per exec in the sandbox), so templates that
// run commands have their own, smaller budget.
//
// Recorded class with probes: the output of $(...) is scanned for $VAR again, and text next to a
// substitution is glued to a preceding $NAME (env.go:52-73 runs os.Expand over the text that
// already contains the command output).
package env

import (
	"encoding/json"
	"fmt"
	"math/rand"
	"os"
	"path/filepath"
	"reflect"
	"runtime/debug"
	"sort"
	"strings"
	"testing"
)

func c17xeShQuote(x string) string { return "'" + strings.ReplaceAll(x, "'", `'\''`) + "'" }

// the fake command: logs its exact argv (US-separated) and prints the table entry selected by
// "<name> <args joined by one blank>"
func c17xeScript(table map[string]string) string {
	var keys []string
	for k := range table {
		keys = append(keys, k)
	}
	sort.Strings(keys)
	var sb strings.Builder
	sb.WriteString("#!/bin/sh\nn=\"${0##*/}\"\nk=\"$n\"; for a in \"$@\"; do k=\"$k $a\"; done\n")
	sb.WriteString("{ printf '%s' \"$n\"; for a in \"$@\"; do printf '\\037%s' \"$a\"; done; printf '\\n'; } >> \"$C17_FAKE_DIR/invocations.log\"\n")
	sb.WriteString("case \"$k\" in\n")
	for _, k := range keys {
		fmt.Fprintf(&sb, "%s) printf '%%s\\n' %s;;\n", c17xeShQuote(k), c17xeShQuote(table[k]))
	}
	sb.WriteString("*) printf '%s\\n' \"C17-NO-SUCH-ENTRY[$k]\";;\nesac\n")
	return sb.String()
}

var c17xeAlpha = []string{" ", " ", "\t", "\"", "'", "\\", "-", "(", ")", "{", "}", "{}", "a", "b", "=", "/", ",", ";", "é", "世", "\U0001F600"}

func c17xeLit(r *rand.Rand, max int) string {
	n := 1 + r.Intn(max)
	var sb strings.Builder
	for i := 0; i < n; i++ {
		sb.WriteString(c17xeAlpha[r.Intn(len(c17xeAlpha))])
	}
	return sb.String()
}

func c17xeNameChar(c byte) bool {
	return c == '_' || c >= '0' && c <= '9' || c >= 'a' && c <= 'z' || c >= 'A' && c <= 'Z'
}

type c17xeTok struct {
	kind string // lit | var | cmd | other | dollar
	name string // variable name / table key
	text string // literal text, or the command text as written inside $( )
}

func c17xeCase(v map[string]any) map[string]string {
	b, _ := json.MarshalIndent(v, "", " ")
	return map[string]string{"case.json": string(b),
		"HOWTO.txt": "Set the environment variables of case.json (\"env\"), put a pkg-config/llvm-config on PATH that prints the line given in \"table\" for the argv, call env.ExpandEnv / env.ExpandEnvToArgs on \"template\". Or re-run the check with the same VERIF_SEED and tier.\n"}
}

func TestVerifC17XEnv(t *testing.T) {
	rep := vNewReport("xtool/env.ExpandEnv/ExpandEnvToArgs: templates of 1-7 tokens: literals over {blank, quotes, \\, -, (, ), {, }, {}, =, /, comma, ;, ASCII, multi-byte runes}, $NAME and ${NAME} of 11 variables (values over the same alphabet plus $OTHER, ${OTHER}, $(pkg-config --libs p1), lone $; one empty) and 2 unset names, $(pkg-config --libs|--cflags <pkg>) and $(llvm-config --ldflags|--libdir) with varied inner blanks, $(c17-other ...) (must not run), a lone $ before blank, / or the end. Fake commands answer from a table keyed by their exact argv and log it. Reference: one left-to-right substitution, compared modulo outer white space; command-free inputs evaluated twice. ExpandEnvToArgs: templates made of flag-shaped pieces (safesplit domain) -> exact flag list; command-free templates -> one argument; empty expansion -> none. Command outputs containing $ (or glued to a preceding $NAME) only when the probes of that class pass")
	defer rep.Write()
	defer func() { // a panic of the code under test outside a guarded call is an observation, not a broken check
		if p := recover(); p != nil {
			rep.Fail("xenv:panic", "monitor", fmt.Sprintf("panic escaped the monitor: %v\n%s", p, debug.Stack()), nil)
		}
	}()

	dir, err := os.MkdirTemp(os.Getenv("VERIF_WORK"), "c17xe")
	if err != nil {
		t.Fatal(err)
	}
	defer os.RemoveAll(dir)
	os.Setenv("PATH", dir+string(os.PathListSeparator)+os.Getenv("PATH"))
	os.Setenv("C17_FAKE_DIR", dir)
	r := rand.New(rand.NewSource(vSeed()*1000003 + 175))

	// ---- environment (fixed for the run)
	vars := map[string]string{
		"C17_PLAIN": "/opt/lib", "C17_EMPTY": "",
		"C17_REF": "$C17_PLAIN", "C17_REFB": "a${C17_PLAIN}b", "C17_CMD": "$(pkg-config --libs p1)",
		"C17_BRACE": "{}{C17_PLAIN}", "C17_DOLLAR": "x$ y$", "C17_SP": "a b\tc", "C17_Q": `"q' \`,
		"C17_R0": c17xeLit(r, 5), "C17_R1": c17xeLit(r, 5) + "$C17_R0",
	}
	unset := []string{"C17_UNSET", "C17_UNSET2"}
	var names []string
	for k, v := range vars {
		os.Setenv(k, v)
		names = append(names, k)
	}
	sort.Strings(names)
	for _, u := range unset {
		os.Unsetenv(u)
	}
	names = append(names, unset...)

	// ---- command table
	table := map[string]string{
		"pkg-config --libs p1":     "-L/p1/lib -lp1",
		"pkg-config --cflags p1":   "-I/p1/include -DP1=1",
		"pkg-config --libs p2":     `-L/opt/my\ libs/p2 -lp2 -lm`,
		"pkg-config --cflags p2":   `-I/opt/my\ inc -D'Q="x"'`,
		"pkg-config --libs p3":     "-lé世 -Wl,-rpath,/p3",
		"pkg-config --libs p1 p2":  "-L/p1/lib -lp1 -lp2",
		"pkg-config --cflags p3":   "-I{p3}/include -D{}",
		"llvm-config --ldflags":    "-L/llvm/lib",
		"llvm-config --libdir":     "/llvm/lib",
		"pkg-config --libs dollar": "-L/opt/$C17_PLAIN/lib -Wl,-rpath,$C17_R0",
		"pkg-config --libs cmd":    "-L$(pkg-config --libs p1)",
		"pkg-config --libs word":   "word",
	}
	for _, n := range []string{"pkg-config", "llvm-config", "c17-other"} {
		if err := os.WriteFile(filepath.Join(dir, n), []byte(c17xeScript(table)), 0o755); err != nil {
			t.Fatal(err)
		}
	}
	var cmdKeys, gatedKeys []string
	for k, v := range table {
		if strings.Contains(v, "$") || k == "pkg-config --libs word" {
			gatedKeys = append(gatedKeys, k)
		} else {
			cmdKeys = append(cmdKeys, k)
		}
	}
	sort.Strings(cmdKeys)
	sort.Strings(gatedKeys)

	invocations := func() []string {
		b, _ := os.ReadFile(filepath.Join(dir, "invocations.log"))
		os.Remove(filepath.Join(dir, "invocations.log"))
		if len(b) == 0 {
			return nil
		}
		return strings.Split(strings.TrimSuffix(string(b), "\n"), "\n")
	}

	// ---- fixed cases that hold on every tree
	fixed := []struct{ tpl, want string }{
		{"$C17_PLAIN", "/opt/lib"},
		{"-L${C17_PLAIN}/x -l$C17_EMPTY;", "-L/opt/lib/x -l;"},
		{"$C17_REF|$C17_REFB|$C17_CMD|$C17_BRACE", "$C17_PLAIN|a${C17_PLAIN}b|$(pkg-config --libs p1)|{}{C17_PLAIN}"}, // values are data
		{"$(pkg-config --libs p1)", "-L/p1/lib -lp1"},
		{"$(  pkg-config\t--libs   p1 p2 ) -lz", "-L/p1/lib -lp1 -lp2 -lz"},
		{"a$(c17-other x)b $ /$/", "ab $ /$/"},
		{"$C17_UNSET$(llvm-config --libdir)", "/llvm/lib"},
	}
	for i, f := range fixed {
		got := ExpandEnv(f.tpl)
		rep.Eval(1)
		if got != f.want {
			rep.Fail("xenv:expansion", fmt.Sprintf("fixed%d", i), fmt.Sprintf("ExpandEnv(%q) = %q, want %q", f.tpl, got, f.want),
				c17xeCase(map[string]any{"template": f.tpl, "env": vars, "table": table, "got": got, "want": f.want}))
		}
	}
	wantFixedInv := []string{"pkg-config\x1f--libs\x1fp1", "pkg-config\x1f--libs\x1fp1\x1fp2", "llvm-config\x1f--libdir"}
	if inv := invocations(); !reflect.DeepEqual(inv, wantFixedInv) {
		rep.Fail("xenv:commands-run", "fixed", fmt.Sprintf("the fixed cases reference the commands %q, the log shows %q", wantFixedInv, inv), nil)
	}

	// ---- probes: command output is data, not a template
	dollarOK := true
	probes := []struct{ tpl, want string }{
		{"$(pkg-config --libs dollar)", table["pkg-config --libs dollar"]},
		{"-lx $(pkg-config --libs dollar)", "-lx " + table["pkg-config --libs dollar"]},
		{"$C17_PLAIN$(c17-other x)b:$C17_PLAIN$(pkg-config --libs word)", "/opt/libb:/opt/libword"}, // not glued to a preceding $NAME
	}
	for i, p := range probes {
		got := ExpandEnv(p.tpl)
		rep.Eval(1)
		if got != p.want {
			dollarOK = false
			rep.Fail("xenv:cmd-output-reexpanded", fmt.Sprintf("probe%d", i), fmt.Sprintf("ExpandEnv(%q) = %q; single-pass substitution gives %q (the fake pkg-config printed %q; C17_PLAIN=%q, C17_R0=%q)", p.tpl, got, p.want, table["pkg-config --libs dollar"], vars["C17_PLAIN"], vars["C17_R0"]),
				c17xeCase(map[string]any{"template": p.tpl, "env": vars, "table": table, "got": got, "want": p.want}))
		}
	}
	if dollarOK {
		cmdKeys = append(cmdKeys, gatedKeys...)
		sort.Strings(cmdKeys)
		rep.Extra["avoided_constructs"] = []string{}
	} else {
		rep.Extra["avoided_constructs"] = []string{"$(pkg-config ...) whose output contains '$', and substitutions directly after $NAME whose text starts with a name character (probes fail: the text is expanded again after command substitution)"}
	}
	invocations()

	// ---- random templates through ExpandEnv
	nFree, nCmd := vN(12000, 400000), vN(60, 2000)
	for i := 0; i < nFree+nCmd; i++ {
		withCmd := i >= nFree
		nt := 1 + r.Intn(7)
		var toks []c17xeTok
		for j := 0; j < nt; j++ {
			k := r.Intn(10)
			if !withCmd && (k == 6 || k == 7) {
				k = r.Intn(6)
			}
			if withCmd && j == 0 {
				k = 6
			}
			switch {
			case k < 3:
				toks = append(toks, c17xeTok{kind: "lit", text: c17xeLit(r, 4)})
			case k < 6:
				toks = append(toks, c17xeTok{kind: "var", name: names[r.Intn(len(names))]})
			case k < 8:
				key := cmdKeys[r.Intn(len(cmdKeys))]
				fs := strings.Fields(key)
				sp := func() string { return []string{" ", " ", "  ", "\t", " \t"}[r.Intn(5)] }
				txt := fs[0]
				for _, f := range fs[1:] {
					txt += sp() + f
				}
				if r.Intn(3) == 0 {
					txt = sp() + txt
				}
				if r.Intn(3) == 0 {
					txt += sp()
				}
				toks = append(toks, c17xeTok{kind: "cmd", name: key, text: txt})
			case k < 9:
				toks = append(toks, c17xeTok{kind: "other", text: "c17-other " + []string{"x", "--libs p1", "-rf /"}[r.Intn(3)]})
			default:
				toks = append(toks, c17xeTok{kind: "dollar"})
			}
		}
		if withCmd {
			r.Shuffle(len(toks), func(a, b int) { toks[a], toks[b] = toks[b], toks[a] })
		}
		var tpl, ref, sig strings.Builder
		var wantInv []string
		for j, tk := range toks {
			// first byte of the text that will follow this token in the result; while the
			// re-expansion probes fail, substitutions are looked through (their output is glued
			// to a preceding $NAME by the second scan - same recorded class)
			next := byte(0)
			for q := j + 1; q < len(toks) && next == 0; q++ {
				switch toks[q].kind {
				case "lit":
					next = toks[q].text[0]
				case "other":
					if dollarOK {
						next = '$'
					}
				case "cmd":
					next = '$'
					if !dollarOK {
						next = table[toks[q].name][0]
					}
				default:
					next = '$'
				}
			}
			sig.WriteString(tk.kind[:1])
			switch tk.kind {
			case "lit":
				tpl.WriteString(tk.text)
				ref.WriteString(tk.text)
			case "var":
				if c17xeNameChar(next) || r.Intn(2) == 0 {
					tpl.WriteString("${" + tk.name + "}")
					sig.WriteString("b")
				} else {
					tpl.WriteString("$" + tk.name)
				}
				ref.WriteString(vars[tk.name])
				if strings.ContainsAny(vars[tk.name], "${") {
					sig.WriteString("!")
				}
			case "cmd":
				tpl.WriteString("$(" + tk.text + ")")
				ref.WriteString(table[tk.name])
				wantInv = append(wantInv, strings.ReplaceAll(tk.name, " ", "\x1f"))
				sig.WriteString(fmt.Sprint(len(tk.name) % 7))
			case "other":
				tpl.WriteString("$(" + tk.text + ")")
			case "dollar":
				// a "$" that starts no reference: followed by blank, "/" or the end of the template
				tpl.WriteString("$")
				ref.WriteString("$")
				if j+1 < len(toks) {
					sepc := []string{" ", "/"}[r.Intn(2)]
					tpl.WriteString(sepc)
					ref.WriteString(sepc)
				}
			}
		}
		template := tpl.String()
		want := strings.TrimSpace(ref.String())
		rep.Sig(sig.String())
		reps := 2
		if withCmd {
			reps = 1
			rep.Count("templates_running_commands", 1)
		}
		for k := 0; k < reps; k++ {
			got := ExpandEnv(template)
			rep.Eval(1)
			// the invocation log is read after every command-bearing template and after every
			// 256th command-free one (a command-free template must not start any process)
			readLog := withCmd || i%256 == 255 || i == nFree-1 || i == 4
			var inv []string
			if readLog {
				inv = invocations()
			}
			if (i == 4 || i == nFree+2) && k == 0 {
				rep.Sample(map[string]any{"template": template, "expanded": got, "commands_run": inv})
			}
			if got != want {
				rep.Fail("xenv:expansion", "ExpandEnv", fmt.Sprintf("ExpandEnv(%q) = %q, single-pass substitution gives %q", template, got, want),
					c17xeCase(map[string]any{"template": template, "env": vars, "table": table, "got": got, "want": want, "commands_run": inv}))
				break
			}
			if readLog && !reflect.DeepEqual(inv, wantInv) && !(len(inv) == 0 && len(wantInv) == 0) {
				cls := "xenv:commands-run"
				for _, l := range inv {
					if strings.HasPrefix(l, "c17-other") {
						cls = "xenv:foreign-command-run"
					}
				}
				rep.Fail(cls, "ExpandEnv", fmt.Sprintf("ExpandEnv(%q) (or a command-free template before it) ran %q, the template references %q", template, inv, wantInv),
					c17xeCase(map[string]any{"template": template, "env": vars, "table": table, "commands_run": inv, "want_commands": wantInv}))
				break
			}
		}
	}

	// ---- ExpandEnvToArgs on flag-shaped templates
	flagVars := []string{"C17_PLAIN", "C17_EMPTY", "C17_REF", "C17_BRACE", "C17_UNSET"}
	wantArgsOf := map[string][]string{
		"pkg-config --libs p1":     {"-L/p1/lib", "-lp1"},
		"pkg-config --cflags p1":   {"-I/p1/include", "-DP1=1"},
		"pkg-config --libs p2":     {"-L/opt/my libs/p2", "-lp2", "-lm"},
		"pkg-config --cflags p2":   {"-I/opt/my inc", `-D'Q="x"'`},
		"pkg-config --libs p3":     {"-lé世", "-Wl,-rpath,/p3"},
		"pkg-config --libs p1 p2":  {"-L/p1/lib", "-lp1", "-lp2"},
		"pkg-config --cflags p3":   {"-I{p3}/include", "-D{}"},
		"llvm-config --ldflags":    {"-L/llvm/lib"},
		"pkg-config --libs dollar": {"-L/opt/$C17_PLAIN/lib", "-Wl,-rpath,$C17_R0"},
	}
	var flagCmds []string
	for _, k := range cmdKeys {
		if _, ok := wantArgsOf[k]; ok {
			flagCmds = append(flagCmds, k)
		}
	}
	nargsFree, nargsCmd := vN(3000, 100000), vN(25, 700)
	for i := 0; i < nargsFree+nargsCmd; i++ {
		withCmd := i >= nargsFree
		np := 1 + r.Intn(4)
		cmdAt := -1
		if withCmd {
			cmdAt = r.Intn(np)
		}
		var parts []string
		var want []string
		hasCmd := false
		var sig strings.Builder
		for j := 0; j < np; j++ {
			k := r.Intn(2)
			if withCmd && (j == cmdAt || r.Intn(4) == 0) {
				k = 2
			}
			switch k {
			case 0:
				fl := "-" + string("lLID"[r.Intn(4)]) + []string{"foo", "/usr/lib", "é世", "a=b", "x,y"}[r.Intn(5)]
				parts = append(parts, fl)
				want = append(want, fl)
				sig.WriteString("f")
			case 1:
				v := flagVars[r.Intn(len(flagVars))]
				parts = append(parts, "-L${"+v+"}/lib")
				want = append(want, "-L"+vars[v]+"/lib")
				sig.WriteString("v")
			default:
				k := flagCmds[r.Intn(len(flagCmds))]
				parts = append(parts, "$("+k+")")
				want = append(want, wantArgsOf[k]...)
				hasCmd = true
				sig.WriteString("c")
			}
		}
		template := strings.Join(parts, " ")
		if !hasCmd {
			want = []string{template}
			for _, v := range flagVars {
				want[0] = strings.ReplaceAll(want[0], "${"+v+"}", vars[v])
			}
		}
		rep.Sig("args:" + sig.String())
		got := ExpandEnvToArgs(template)
		rep.Eval(1)
		if hasCmd {
			invocations()
		} else if i%256 == 255 {
			if inv := invocations(); len(inv) > 0 {
				rep.Fail("xenv:commands-run", "ExpandEnvToArgs", fmt.Sprintf("command-free templates started processes: %q", inv), nil)
			}
		}
		if i == nargsFree+1 {
			rep.Sample(map[string]any{"template": template, "args": got})
		}
		if !reflect.DeepEqual(got, want) {
			rep.Fail("xenv:to-args", "ExpandEnvToArgs", fmt.Sprintf("ExpandEnvToArgs(%q) = %q, want %q", template, got, want),
				c17xeCase(map[string]any{"template": template, "env": vars, "table": table, "got": got, "want": want}))
		}
	}
	// empty expansion -> no arguments at all
	for _, tpl := range []string{"$C17_EMPTY", "$C17_UNSET", "$(c17-other x)", "  $C17_EMPTY  "} {
		got := ExpandEnvToArgs(tpl)
		rep.Eval(1)
		if len(got) != 0 {
			rep.Fail("xenv:to-args", "empty", fmt.Sprintf("ExpandEnvToArgs(%q) = %q, want no arguments", tpl, got), nil)
		}
	}
	if inv := invocations(); len(inv) > 0 {
		rep.Fail("xenv:foreign-command-run", "empty", fmt.Sprintf("templates without a supported command started %q", inv), nil)
	}
}

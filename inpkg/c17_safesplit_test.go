//go:build verif

// C17 monitor for xtool/safesplit, compiled into the package by `go test -overlay` (E2).
//
// Documented grammar (doc comment of SplitPkgConfigFlags + the package's table test):
//   - every part starts with "-" followed by a single flag character;
//   - blanks (space, tab) after the flag character are ignored;
//   - content is read until the next blank, unless the blank is escaped with "\";
//   - parts are separated by blanks; blanks around the line are ignored.
//
// Quoter written from that grammar: "-" + flag + content with every space/tab preceded by "\".
// Domain in which the documentation promises a round trip:
//   - content has no leading blank (blanks after the flag character are skipped by design);
//   - content of a part that is followed by another part does not end in "\" (the grammar cannot
//     express it: "\" + separator reads as an escaped blank); the last part may;
//   - content has no CR/LF (cannot be escaped; pkg-config output ends in LF which is dropped).
//
// Two classes inside the domain fail on the pinned tree (DESIGN 7-18). Their probes run first;
// while a probe fails the random generator avoids exactly that construct:
//   - safesplit:trailing-space  content ending in a white-space rune (escaped blank, NBSP, U+3000):
//     strings.TrimSpace is applied after un-escaping (safesplit.go:38,90)
//   - safesplit:leading-dash    content starting with "-": taken for the next flag although no
//     blank precedes it (safesplit.go:54)
package safesplit

import (
	"encoding/json"
	"fmt"
	"math/rand"
	"reflect"
	"runtime/debug"
	"sort"
	"strings"
	"sync"
	"testing"
	"unicode"
	"unicode/utf8"
)

var c17ssAlpha = []string{" ", " ", "\t", "\"", "'", "\\", "\\", "-", "-", "$", "(", ")", "{", "}", "a", "b", "=", "/", ",",
	"\u00e9", "\u4e16", "\U0001F600", "\u00a0", "\u3000"}

const c17ssFlags = "ILlDWfOUwp-"

func c17ssEsc(s string) string {
	s = strings.ReplaceAll(s, " ", `\ `)
	s = strings.ReplaceAll(s, "\t", "\\\t")
	return s
}

func c17ssBlank(r *rand.Rand, min int) string {
	n := min + r.Intn(3)
	var sb strings.Builder
	for i := 0; i < n; i++ {
		if r.Intn(4) == 0 {
			sb.WriteByte('\t')
		} else {
			sb.WriteByte(' ')
		}
	}
	return sb.String()
}

type c17ssAvoid struct{ trailingSpace, leadingDash bool }

func c17ssEndsSpace(c string) bool {
	if c == "" {
		return false
	}
	r, _ := utf8.DecodeLastRuneInString(c)
	return unicode.IsSpace(r)
}

// content generator; returns "" or a content inside the documented domain (and outside the avoided classes)
func c17ssContent(r *rand.Rand, av c17ssAvoid, last bool) string {
	for {
		n := r.Intn(7)
		var sb strings.Builder
		for i := 0; i < n; i++ {
			sb.WriteString(c17ssAlpha[r.Intn(len(c17ssAlpha))])
		}
		c := sb.String()
		if strings.HasPrefix(c, " ") || strings.HasPrefix(c, "\t") {
			continue
		}
		if !last && strings.HasSuffix(c, `\`) {
			continue
		}
		if av.trailingSpace && c17ssEndsSpace(c) {
			continue
		}
		if av.leadingDash && strings.HasPrefix(c, "-") {
			continue
		}
		return c
	}
}

func c17ssLine(r *rand.Rand, args []string) string {
	var sb strings.Builder
	if r.Intn(4) == 0 {
		sb.WriteString(c17ssBlank(r, 1))
	}
	for j, a := range args {
		if j > 0 {
			sb.WriteString(c17ssBlank(r, 1))
		}
		content := a[2:]
		sb.WriteString(a[:2])
		// "Spaces after the flag character are ignored" - only expressible when the content is
		// non-empty and does not start with "-" (blank + "-" starts the next part)
		if content != "" && !strings.HasPrefix(content, "-") && r.Intn(4) == 0 {
			sb.WriteString(c17ssBlank(r, 1))
		}
		sb.WriteString(c17ssEsc(content))
	}
	// trailing blanks around the line are ignored - not expressible after a trailing backslash
	if r.Intn(4) == 0 && !strings.HasSuffix(args[len(args)-1], `\`) {
		sb.WriteString(c17ssBlank(r, 1))
	}
	return sb.String()
}

func c17ssClassOf(a string) string {
	set := map[string]bool{}
	for i, c := range a {
		switch {
		case c == ' ' || c == '\t':
			set["b"] = true
		case unicode.IsSpace(c):
			set["U"] = true
		case c == '"' || c == '\'':
			set["q"] = true
		case c == '\\':
			set["\\"] = true
		case c == '-':
			if i == 0 {
				set["^-"] = true
			} else {
				set["-"] = true
			}
		case c == '$' || c == '(' || c == ')' || c == '{' || c == '}':
			set["p"] = true
		case c > 127:
			set["m"] = true
		default:
			set["a"] = true
		}
	}
	if a == "" {
		return "0"
	}
	var ks []string
	for k := range set {
		ks = append(ks, k)
	}
	sort.Strings(ks)
	return strings.Join(ks, "")
}

func c17ssSplit(s string) (got []string, panicked any) {
	defer func() {
		if p := recover(); p != nil {
			panicked = p
		}
	}()
	return SplitPkgConfigFlags(s), nil
}

func c17ssCase(v map[string]any) map[string]string {
	b, _ := json.MarshalIndent(v, "", " ")
	return map[string]string{"case.json": string(b),
		"HOWTO.txt": "Feed \"line\" of case.json to safesplit.SplitPkgConfigFlags, or re-run the check with the same VERIF_SEED and tier.\n"}
}

// classify a failing round trip by the narrowest construct present in the failing argument
func c17ssFailClass(args, got []string) string {
	idx := 0
	for idx < len(args) && idx < len(got) && args[idx] == got[idx] {
		idx++
	}
	if idx < len(args) {
		c := args[idx][2:]
		switch {
		case strings.HasPrefix(c, "-"):
			return "safesplit:leading-dash"
		case c17ssEndsSpace(c):
			return "safesplit:trailing-space"
		}
	}
	return "safesplit:roundtrip"
}

func TestVerifC17Safesplit(t *testing.T) {
	rep := vNewReport("safesplit.SplitPkgConfigFlags: lists of 1-5 parts \"-\"+flag char (one of " + c17ssFlags + ")+content, content of 0-6 symbols over {space, tab, NBSP, U+3000, \", ', \\, -, $, (, ), {, }, =, /, comma, ASCII letters, 2/3/4-byte runes}; quoting as documented: every space/tab in content preceded by a backslash, parts joined by 1-3 blanks, optional blanks around the line and after the flag character. Domain claimed (from the doc comment): content without leading blank, a non-final content does not end in a backslash, no CR/LF. Laws: split(quote(args))==args; stable under re-quoting. Constructs whose fixed probe fails are listed in avoided_constructs and not generated")
	defer rep.Write()
	defer func() { // a panic of the code under test outside a guarded call is an observation, not a broken check
		if p := recover(); p != nil {
			rep.Fail("safesplit:panic", "monitor", fmt.Sprintf("panic escaped the monitor: %v\n%s", p, debug.Stack()), nil)
		}
	}()

	// ---- fixed probes of the two recorded classes, always run first
	var av c17ssAvoid
	probes := []struct {
		class, line string
		want        []string
		flag        *bool
	}{
		{"safesplit:trailing-space", `-Dx\ `, []string{"-Dx "}, &av.trailingSpace},
		{"safesplit:trailing-space", `-Dx\  -I/inc`, []string{"-Dx ", "-I/inc"}, &av.trailingSpace},
		{"safesplit:leading-dash", `-L-dir`, []string{"-L-dir"}, &av.leadingDash},
		{"safesplit:leading-dash", `-L-dir -lfoo`, []string{"-L-dir", "-lfoo"}, &av.leadingDash},
	}
	for i, p := range probes {
		got, pn := c17ssSplit(p.line)
		rep.Eval(1)
		if pn != nil || !reflect.DeepEqual(got, p.want) {
			*p.flag = true
			rep.Fail(p.class, fmt.Sprintf("probe%d", i), fmt.Sprintf("SplitPkgConfigFlags(%q) = %q, want %q (panic=%v)", p.line, got, p.want, pn),
				c17ssCase(map[string]any{"line": p.line, "got": got, "want": p.want}))
		}
	}
	avoided := []string{}
	if av.trailingSpace {
		avoided = append(avoided, "content ending in a white-space rune (probe -Dx\\<space> fails)")
	}
	if av.leadingDash {
		avoided = append(avoided, "content starting with '-' (probe -L-dir fails)")
	}
	rep.Extra["avoided_constructs"] = avoided

	// ---- fixed cases documenting the domain (must hold on every tree)
	fixed := []struct {
		line string
		want []string
	}{
		{`-I/path\ with\ spaces -L/lib`, []string{"-I/path with spaces", "-L/lib"}},
		{"-I\\\tx", []string{"-I\tx"}},
		{`-Da\\ b -lm`, []string{`-Da\ b`, "-lm"}}, // literal backslash followed by an escaped blank
		{`-Da\b`, []string{`-Da\b`}},               // backslash before a non-blank is literal
		{`-Dx\`, []string{`-Dx\`}},                 // final content may end in a backslash
		{`-D"a\ b" -I -L`, []string{`-D"a b"`, "-I", "-L"}},
		{`--sysroot=/x -Wl,-rpath,$ORIGIN`, []string{"--sysroot=/x", "-Wl,-rpath,$ORIGIN"}},
		{"  -I  /usr/include   -L   /usr/lib  ", []string{"-I/usr/include", "-L/usr/lib"}},
	}
	for i, f := range fixed {
		got, pn := c17ssSplit(f.line)
		rep.Eval(1)
		if pn != nil || !reflect.DeepEqual(got, f.want) {
			rep.Fail("safesplit:roundtrip", fmt.Sprintf("fixed%d", i), fmt.Sprintf("SplitPkgConfigFlags(%q) = %q, want %q (panic=%v)", f.line, got, f.want, pn),
				c17ssCase(map[string]any{"line": f.line, "got": got, "want": f.want}))
		}
	}

	total := vN(32000, 3600000)
	var wg sync.WaitGroup
	for s := 0; s < 8; s++ {
		n := total / 8
		wg.Add(1)
		go func(s, n int) {
			defer wg.Done()
			r := rand.New(rand.NewSource(vSeed()*1000003 + int64(s)*7919 + 172))
			for i := 0; i < n; i++ {
				na := 1 + r.Intn(5)
				args := make([]string, na)
				var sig strings.Builder
				for j := range args {
					c := c17ssContent(r, av, j == na-1)
					fl := c17ssFlags[r.Intn(len(c17ssFlags))]
					if fl == '-' && r.Intn(3) != 0 {
						fl = c17ssFlags[r.Intn(len(c17ssFlags)-1)]
					}
					args[j] = "-" + string(fl) + c
					fmt.Fprintf(&sig, "%s,", c17ssClassOf(c))
				}
				rep.Sig(sig.String())
				line := c17ssLine(r, args)
				got, pn := c17ssSplit(line)
				rep.Eval(1)
				if i == 7 {
					rep.Sample(map[string]any{"args": args, "line": line, "split": got})
				}
				if pn != nil {
					rep.Fail("safesplit:panic", "roundtrip", fmt.Sprintf("SplitPkgConfigFlags(%q) panicked: %v", line, pn), c17ssCase(map[string]any{"line": line, "args": args}))
					continue
				}
				if !reflect.DeepEqual(got, args) {
					rep.Fail(c17ssFailClass(args, got), "roundtrip", fmt.Sprintf("args=%q quoted as %q split to %q", args, line, got),
						c17ssCase(map[string]any{"args": args, "line": line, "got": got}))
					continue
				}
				// stability under re-quoting (fresh blank choices)
				line2 := c17ssLine(r, got)
				got2, pn2 := c17ssSplit(line2)
				rep.Eval(1)
				if pn2 != nil || !reflect.DeepEqual(got2, args) {
					rep.Fail("safesplit:requote", "requote", fmt.Sprintf("args=%q re-quoted as %q split to %q (panic=%v)", args, line2, got2, pn2),
						c17ssCase(map[string]any{"args": args, "line": line2, "got": got2}))
				}
			}
		}(s, n)
	}
	wg.Wait()
}

//go:build verif

// C07 leg (a): monitor compiled into ssa/abi by `go test -overlay` (E2).
//
// Oracle:  types.Identical(T, U)  <=>  Builder.TypeName(T) == Builder.TypeName(U)
//
// The name returned by TypeName is the link-time symbol of the run-time type descriptor
// (ssa/abitype.go abiType, WeakODR), so "same name" is "same dynamic type at run time".
//
// Types come from a description tree (c07d) that is turned into fresh go/types values by
// build(); leaves (named, alias, function-local, generic origins) come from three packages
// that are type-checked from source, so scopes, aliases and instances are the real thing.
// For each T: a structural rebuild in a different "spelling" (identity-preserving
// variation) and near-misses obtained by changing exactly one attribute of one node.
// Whether a pair is identical is always decided by go/types, never assumed from the
// mutation.  In addition every generated type is entered into a name table, which checks
// the direction "same name => identical" over all pairs of the run.
package abi

import (
	"fmt"
	"go/ast"
	"go/parser"
	"go/token"
	"go/types"
	"math/rand"
	"os"
	"sort"
	"strings"
	"sync"
	"testing"
	"unsafe"
)

// ---------------------------------------------------------------- universe (type-checked source)

const c07src = `package %s

type T int
type U struct {
	A int
	b string
}
type t int
type V float64
type I interface{ M() }
type i interface{ m() }
type J interface {
	M()
	m()
}
type A = T
type a = t
type B = struct{ X int }
type C = U
type G[X any] struct{ x X }
type H[X, Y any] map[string]func(X) Y
type g[X any] []X

func (T) Meth() {
	type L int
	var _ L
}

func F1() {
	type L int
	type M struct{ l L }
	{
		type L string
		var _ L
	}
	{
		type L bool
		var _ L
		{
			type L [2]int
			var _ L
		}
	}
	var _ M
	var _ L
}

func F2() {
	type L int
	type M int
	var _ L
	var _ M
	_ = func() {
		type L int8
		var _ L
	}
}

var _ = func() {
	type L uint
	var _ L
}
`

type c07leaf struct {
	typ      types.Type
	name     string // object name (= field name when embedded)
	pkg      int
	exported bool
	local    bool
	cmp      bool // comparable
	embed    bool // may be embedded as T
	embedPtr bool // may be embedded as *T
	key      string
}

type c07gen struct {
	origin *types.Named
	pkg    int
	nargs  int
	name   string
}

type c07universe struct {
	pkgs     []*types.Package
	leaves   []c07leaf
	generics []c07gen
	byName   map[string][]int // object name -> leaf indices (for "same name elsewhere" swaps)
	aliasOf  map[int]int      // leaf -> leaf that is an alias of it / that it aliases
}

var c07paths = []string{"example.com/p", "example.com/q", "example.com/sub/p"}

func c07newUniverse(t *testing.T) *c07universe {
	u := &c07universe{byName: map[string][]int{}, aliasOf: map[int]int{}}
	fset := token.NewFileSet()
	for pi, path := range c07paths {
		name := path[strings.LastIndex(path, "/")+1:]
		f, err := parser.ParseFile(fset, name+".go", fmt.Sprintf(c07src, name), 0)
		if err != nil {
			t.Fatal(err)
		}
		info := &types.Info{Defs: map[*ast.Ident]types.Object{}}
		pkg, err := (&types.Config{}).Check(path, fset, []*ast.File{f}, info)
		if err != nil {
			t.Fatal(err)
		}
		u.pkgs = append(u.pkgs, pkg)
		add := func(o *types.TypeName, local bool, pos int) {
			typ := o.Type()
			if n, ok := typ.(*types.Named); ok && n.TypeParams().Len() > 0 {
				u.generics = append(u.generics, c07gen{n, pi, n.TypeParams().Len(), o.Name()})
				return
			}
			und := typ.Underlying()
			_, isIface := und.(*types.Interface)
			_, isPtr := und.(*types.Pointer)
			key := fmt.Sprintf("%d.%s", pi, o.Name())
			if local {
				key += fmt.Sprintf("@%d", pos)
			}
			u.byName[o.Name()] = append(u.byName[o.Name()], len(u.leaves))
			u.leaves = append(u.leaves, c07leaf{typ: typ, name: o.Name(), pkg: pi, exported: o.Exported(), local: local,
				cmp: types.Comparable(typ), embed: !isPtr, embedPtr: !isPtr && !isIface, key: key})
		}
		for _, n := range []string{"T", "U", "t", "V", "I", "i", "J", "A", "a", "B", "C", "G", "H", "g"} {
			add(pkg.Scope().Lookup(n).(*types.TypeName), false, 0)
		}
		var locals []*types.TypeName
		for _, o := range info.Defs {
			if tn, ok := o.(*types.TypeName); ok && tn.Parent() != pkg.Scope() {
				if _, isTP := tn.Type().(*types.TypeParam); !isTP {
					locals = append(locals, tn)
				}
			}
		}
		sort.Slice(locals, func(i, j int) bool { return locals[i].Pos() < locals[j].Pos() })
		for k, tn := range locals {
			add(tn, true, k)
		}
	}
	// alias relation (A=T, a=t, C=U) inside each package
	idx := map[string]int{}
	for i, l := range u.leaves {
		if !l.local {
			idx[l.key] = i
		}
	}
	for pi := range c07paths {
		for _, pr := range [][2]string{{"A", "T"}, {"a", "t"}, {"C", "U"}} {
			x, y := idx[fmt.Sprintf("%d.%s", pi, pr[0])], idx[fmt.Sprintf("%d.%s", pi, pr[1])]
			u.aliasOf[x] = y
			u.aliasOf[y] = x
		}
	}
	return u
}

// ---------------------------------------------------------------- description trees

const (
	kBasic = iota
	kLeaf
	kPtr
	kSlice
	kArray
	kMap
	kChan
	kFunc
	kStruct
	kIface
	kInst
	kKinds
)

var c07kindName = []string{"basic", "leaf", "ptr", "slice", "array", "map", "chan", "func", "struct", "iface", "inst"}

type c07field struct {
	name string
	typ  *c07d
	emb  bool
	tag  string
}

type c07param struct {
	name string
	typ  *c07d
}

type c07method struct {
	name string
	pkg  int
	sig  *c07d // kFunc
	sub  int   // spelling only: 0 = explicit method, >0 = comes through embedded interface #sub
}

type c07d struct {
	k        int
	basic    string // universe name: int, byte, rune, ...
	leaf     int
	elem     *c07d
	key      *c07d
	n        int64
	dir      types.ChanDir
	pkg      int // package of a struct literal
	fields   []c07field
	params   []c07param
	results  []c07param
	variadic bool
	methods  []c07method
	gen      int
	targs    []*c07d
}

func (d *c07d) clone() *c07d {
	if d == nil {
		return nil
	}
	c := *d
	c.elem, c.key = d.elem.clone(), d.key.clone()
	c.fields = append([]c07field(nil), d.fields...)
	for i := range c.fields {
		c.fields[i].typ = c.fields[i].typ.clone()
	}
	cp := func(ps []c07param) []c07param {
		o := append([]c07param(nil), ps...)
		for i := range o {
			o[i].typ = o[i].typ.clone()
		}
		return o
	}
	c.params, c.results = cp(d.params), cp(d.results)
	c.methods = append([]c07method(nil), d.methods...)
	for i := range c.methods {
		c.methods[i].sig = c.methods[i].sig.clone()
	}
	c.targs = nil
	for _, a := range d.targs {
		c.targs = append(c.targs, a.clone())
	}
	return &c
}

// nodes lists every node of the tree (pre-order).
func (d *c07d) nodes(out *[]*c07d) {
	if d == nil {
		return
	}
	*out = append(*out, d)
	d.elem.nodes(out)
	d.key.nodes(out)
	for _, f := range d.fields {
		f.typ.nodes(out)
	}
	for _, p := range d.params {
		p.typ.nodes(out)
	}
	for _, p := range d.results {
		p.typ.nodes(out)
	}
	for _, m := range d.methods {
		m.sig.nodes(out)
	}
	for _, a := range d.targs {
		a.nodes(out)
	}
}

// skeleton: structural signature without constants (evidence: distinct shapes).
func (d *c07d) skeleton(sb *strings.Builder) {
	if d == nil {
		return
	}
	sb.WriteString(c07kindName[d.k][:2])
	switch d.k {
	case kPtr, kSlice, kArray, kChan:
		sb.WriteByte('(')
		d.elem.skeleton(sb)
		sb.WriteByte(')')
	case kMap:
		sb.WriteByte('(')
		d.key.skeleton(sb)
		sb.WriteByte(',')
		d.elem.skeleton(sb)
		sb.WriteByte(')')
	case kFunc:
		sb.WriteByte('(')
		for _, p := range d.params {
			p.typ.skeleton(sb)
			sb.WriteByte(',')
		}
		if d.variadic {
			sb.WriteString("...")
		}
		sb.WriteByte(';')
		for _, p := range d.results {
			p.typ.skeleton(sb)
			sb.WriteByte(',')
		}
		sb.WriteByte(')')
	case kStruct:
		sb.WriteByte('{')
		for _, f := range d.fields {
			if f.emb {
				sb.WriteByte('^')
			}
			if f.tag != "" {
				sb.WriteByte('`')
			}
			if !ast.IsExported(f.name) {
				sb.WriteByte('_')
			}
			f.typ.skeleton(sb)
			sb.WriteByte(';')
		}
		sb.WriteByte('}')
	case kIface:
		sb.WriteByte('{')
		for _, m := range d.methods {
			if !ast.IsExported(m.name) {
				sb.WriteByte('_')
			}
			m.sig.skeleton(sb)
			sb.WriteByte(';')
		}
		sb.WriteByte('}')
	case kInst:
		sb.WriteByte('[')
		for _, a := range d.targs {
			a.skeleton(sb)
			sb.WriteByte(',')
		}
		sb.WriteByte(']')
	}
}

// ---------------------------------------------------------------- generator

type c07g struct {
	u          *c07universe
	r          *rand.Rand
	avoidTags  bool // open finding: tag-only near-misses are left to the fixed probe
	avoidTargs bool // open finding: type arguments rendered by typeArgString's fallback / basic spelling
	avoidEmb   bool // open finding: embedded fields whose name is not the name of the (unaliased) type
	avoidMixed bool // open finding: interfaces whose unexported methods belong to several packages
	inTarg     int
}

var c07basics = []string{"bool", "int", "int8", "int16", "int32", "int64", "uint", "uint8", "uint16", "uint32", "uint64",
	"uintptr", "float32", "float64", "complex64", "complex128", "string", "byte", "rune", "int", "string", "uint8"}
var c07fnames = []string{"A", "B", "a", "b", "X", "x", "_"}
var c07tags = []string{"", "", "", `json:"x"`, `json:"y"`, `x`, ` `}
var c07mnames = []string{"M", "N", "m", "n", "String"}
var c07pnames = []string{"", "", "a", "b", "_"}

func (g *c07g) pick(ss []string) string { return ss[g.r.Intn(len(ss))] }

// typ generates a description of depth <= d; cmp requires a comparable type (map keys).
func (g *c07g) typ(d int, cmp bool) *c07d {
	for {
		n := 14
		if d <= 0 {
			n = 3
		}
		c := g.r.Intn(n)
		if g.avoidTargs && g.inTarg > 0 && (c == 8 || c == 9 || c == 10 || c == 11) {
			continue
		}
		switch c {
		case 0:
			if g.avoidTargs && g.inTarg > 0 {
				return &c07d{k: kBasic, basic: g.pick(c07basics[:17])}
			}
			return &c07d{k: kBasic, basic: g.pick(c07basics)}
		case 1, 2:
			li := g.r.Intn(len(g.u.leaves))
			if cmp && !g.u.leaves[li].cmp {
				continue
			}
			return &c07d{k: kLeaf, leaf: li}
		case 3:
			return &c07d{k: kPtr, elem: g.typ(d-1, false)}
		case 4:
			if cmp {
				continue
			}
			return &c07d{k: kSlice, elem: g.typ(d-1, false)}
		case 5:
			return &c07d{k: kArray, n: int64(g.r.Intn(4)), elem: g.typ(d-1, cmp)}
		case 6:
			if cmp {
				continue
			}
			return &c07d{k: kMap, key: g.typ(d-1, true), elem: g.typ(d-1, false)}
		case 7:
			return &c07d{k: kChan, dir: types.ChanDir(g.r.Intn(3)), elem: g.typ(d-1, false)}
		case 8, 9:
			return g.structT(d, cmp)
		case 10:
			if cmp {
				continue
			}
			return g.sig(d)
		case 11:
			return g.iface(d)
		case 12:
			gi := g.r.Intn(len(g.u.generics))
			ge := g.u.generics[gi]
			if cmp && ge.name != "G" {
				continue
			}
			x := &c07d{k: kInst, gen: gi}
			g.inTarg++
			for i := 0; i < ge.nargs; i++ {
				x.targs = append(x.targs, g.typ(d-1, cmp))
			}
			g.inTarg--
			return x
		default:
			if g.avoidTargs && g.inTarg > 0 {
				return &c07d{k: kBasic, basic: g.pick(c07basics[:17])}
			}
			return &c07d{k: kBasic, basic: g.pick(c07basics)}
		}
	}
}

// targClean: no node inside a type argument is one that typeArgString renders through its
// basic-name / types.TypeString fallback (the open finding's construct)
func (u *c07universe) targClean(d *c07d, in bool) bool {
	if d == nil {
		return true
	}
	if in {
		switch d.k {
		case kStruct, kFunc, kIface:
			return false
		case kBasic:
			if d.basic == "byte" || d.basic == "rune" {
				return false
			}
		}
	}
	ok := u.targClean(d.elem, in) && u.targClean(d.key, in)
	for _, f := range d.fields {
		ok = ok && u.targClean(f.typ, in)
	}
	for _, p := range d.params {
		ok = ok && u.targClean(p.typ, in)
	}
	for _, p := range d.results {
		ok = ok && u.targClean(p.typ, in)
	}
	for _, m := range d.methods {
		ok = ok && u.targClean(m.sig, in)
	}
	for _, a := range d.targs {
		ok = ok && u.targClean(a, true)
	}
	return ok
}

func (u *c07universe) embClean(d *c07d) bool {
	var ns []*c07d
	d.nodes(&ns)
	for _, x := range ns {
		for _, f := range x.fields {
			if !f.emb {
				continue
			}
			base := f.typ
			if base.k == kPtr {
				base = base.elem
			}
			if base.k == kBasic && (base.basic == "byte" || base.basic == "rune") {
				return false
			}
			if base.k == kLeaf {
				if _, isAlias := u.leaves[base.leaf].typ.(*types.Alias); isAlias {
					return false
				}
			}
		}
	}
	return true
}

func (g *c07g) structT(d int, cmp bool) *c07d {
	s := &c07d{k: kStruct, pkg: g.r.Intn(len(g.u.pkgs))}
	n := g.r.Intn(4)
	used := map[string]bool{}
	for i := 0; i < n; i++ {
		var f c07field
		if g.r.Intn(4) == 0 {
			// embedded: named leaf (T or *T) or a predeclared type
			if g.r.Intn(5) == 0 {
				b := g.pick(c07basics)
				if g.avoidEmb && (b == "byte" || b == "rune") {
					continue
				}
				f = c07field{name: b, typ: &c07d{k: kBasic, basic: b}, emb: true}
			} else {
				li := g.r.Intn(len(g.u.leaves))
				l := g.u.leaves[li]
				if !l.embed || (!l.exported && l.pkg != s.pkg) || (cmp && !l.cmp) {
					continue
				}
				if _, isAlias := l.typ.(*types.Alias); isAlias && g.avoidEmb {
					continue
				}
				f = c07field{name: l.name, typ: &c07d{k: kLeaf, leaf: li}, emb: true}
				if l.embedPtr && g.r.Intn(3) == 0 {
					f.typ = &c07d{k: kPtr, elem: f.typ}
				}
			}
		} else {
			f = c07field{name: g.pick(c07fnames), typ: g.typ(d-1, cmp)}
		}
		if f.name != "_" && used[f.name] {
			continue
		}
		used[f.name] = true
		f.tag = g.pick(c07tags)
		s.fields = append(s.fields, f)
	}
	return s
}

func (g *c07g) plist(d, n int) []c07param {
	var ps []c07param
	for i := 0; i < n; i++ {
		ps = append(ps, c07param{g.pick(c07pnames), g.typ(d-1, false)})
	}
	return ps
}

func (g *c07g) sig(d int) *c07d {
	s := &c07d{k: kFunc, params: g.plist(d, g.r.Intn(3)), results: g.plist(d, g.r.Intn(3))}
	if n := len(s.params); n > 0 && g.r.Intn(3) == 0 {
		s.params[n-1].typ = &c07d{k: kSlice, elem: g.typ(d-1, false)}
		s.variadic = g.r.Intn(2) == 0
	}
	return s
}

func (g *c07g) iface(d int) *c07d {
	it := &c07d{k: kIface}
	n := g.r.Intn(4)
	// unexported methods of an interface literal normally belong to one package; methods of
	// another package can only arrive through an embedded interface of that package (rare here)
	home := g.r.Intn(len(g.u.pkgs))
	used := map[string]bool{}
	for i := 0; i < n; i++ {
		m := c07method{name: g.pick(c07mnames), pkg: home, sig: g.sig(d - 1)}
		if g.r.Intn(8) == 0 && !(g.avoidMixed && !ast.IsExported(m.name)) {
			m.pkg = g.r.Intn(len(g.u.pkgs))
			m.sub = 1 + m.pkg
		}
		id := m.name
		if !ast.IsExported(m.name) {
			id = fmt.Sprintf("%d.%s", m.pkg, m.name)
		}
		if used[id] {
			continue
		}
		used[id] = true
		it.methods = append(it.methods, m)
	}
	return it
}

// ---------------------------------------------------------------- build: description -> fresh go/types value

type c07build struct {
	u *c07universe
	// spelling variation: the result is identical, the go/types objects are not
	vary       bool
	r          *rand.Rand
	avoidTargs bool
}

func (b *c07build) basic(name string) types.Type {
	if b.vary {
		switch name {
		case "byte":
			name = "uint8"
		case "uint8":
			name = "byte"
		case "rune":
			name = "int32"
		case "int32":
			name = "rune"
		}
	}
	return types.Universe.Lookup(name).Type()
}

func (b *c07build) tuple(ps []c07param) *types.Tuple {
	var vs []*types.Var
	for _, p := range ps {
		name := p.name
		if b.vary && b.r.Intn(2) == 0 {
			name = c07pnames[b.r.Intn(len(c07pnames))] // parameter names never matter
		}
		vs = append(vs, types.NewParam(token.NoPos, nil, name, b.build(p.typ)))
	}
	return types.NewTuple(vs...)
}

func (b *c07build) build(d *c07d) types.Type {
	switch d.k {
	case kBasic:
		return b.basic(d.basic)
	case kLeaf:
		if b.vary && b.r.Intn(2) == 0 {
			if o, ok := b.u.aliasOf[d.leaf]; ok {
				return b.u.leaves[o].typ // alias <-> aliased
			}
		}
		return b.u.leaves[d.leaf].typ
	case kPtr:
		return types.NewPointer(b.build(d.elem))
	case kSlice:
		return types.NewSlice(b.build(d.elem))
	case kArray:
		return types.NewArray(b.build(d.elem), d.n)
	case kMap:
		return types.NewMap(b.build(d.key), b.build(d.elem))
	case kChan:
		return types.NewChan(d.dir, b.build(d.elem))
	case kFunc:
		return types.NewSignatureType(nil, nil, nil, b.tuple(d.params), b.tuple(d.results), d.variadic)
	case kStruct:
		var fs []*types.Var
		var tags []string
		pkg := d.pkg
		if b.vary {
			// a struct literal without unexported names denotes the same type in every package
			allExp := true
			for _, f := range d.fields {
				if !ast.IsExported(f.name) {
					allExp = false
				}
			}
			if allExp {
				pkg = b.r.Intn(len(b.u.pkgs))
			}
		}
		for _, f := range d.fields {
			fs = append(fs, types.NewField(token.NoPos, b.u.pkgs[pkg], f.name, b.buildEmb(f), f.emb))
			tags = append(tags, f.tag)
		}
		return types.NewStruct(fs, tags)
	case kIface:
		// explicit methods + embedded anonymous interfaces (spelling), completed by go/types
		var explicit []*types.Func
		subs := map[int][]*types.Func{}
		var order []int
		for _, m := range d.methods {
			fn := types.NewFunc(token.NoPos, b.u.pkgs[m.pkg], m.name, b.build(m.sig).(*types.Signature))
			sub := m.sub
			if b.vary {
				sub = b.r.Intn(3)
			}
			if sub == 0 {
				explicit = append(explicit, fn)
			} else {
				if _, ok := subs[sub]; !ok {
					order = append(order, sub)
				}
				subs[sub] = append(subs[sub], fn)
			}
		}
		if b.vary {
			b.r.Shuffle(len(explicit), func(i, j int) { explicit[i], explicit[j] = explicit[j], explicit[i] })
		}
		var embeds []types.Type
		for _, s := range order {
			embeds = append(embeds, types.NewInterfaceType(subs[s], nil).Complete())
		}
		return types.NewInterfaceType(explicit, embeds).Complete()
	case kInst:
		var targs []types.Type
		save := b.vary
		if b.avoidTargs {
			b.vary = false // alias <-> aliased inside a type argument is fine, but keep the avoided region simple
		}
		for _, a := range d.targs {
			targs = append(targs, b.build(a))
		}
		b.vary = save
		t, err := types.Instantiate(nil, b.u.generics[d.gen].origin, targs, false)
		if err != nil {
			panic(err)
		}
		return t
	}
	panic("c07: bad kind")
}

// embedded fields keep the spelling of the type (the field name is the type name)
func (b *c07build) buildEmb(f c07field) types.Type {
	if !f.emb {
		return b.build(f.typ)
	}
	save := b.vary
	b.vary = false
	t := b.build(f.typ)
	b.vary = save
	return t
}

// valid: conditions under which Go source can denote the description
func (u *c07universe) valid(d *c07d) bool {
	var ns []*c07d
	d.nodes(&ns)
	for _, x := range ns {
		switch x.k {
		case kStruct:
			used := map[string]bool{}
			for _, f := range x.fields {
				if f.name != "_" && used[f.name] {
					return false
				}
				used[f.name] = true
				if f.emb {
					base := f.typ
					if base.k == kPtr {
						base = base.elem
					}
					switch base.k {
					case kBasic:
						if f.name != base.basic {
							return false
						}
					case kLeaf:
						l := u.leaves[base.leaf]
						if f.name != l.name || !l.embed || (f.typ.k == kPtr && !l.embedPtr) || (!l.exported && l.pkg != x.pkg) {
							return false
						}
					default:
						return false
					}
				}
			}
		case kFunc:
			if x.variadic && (len(x.params) == 0 || x.params[len(x.params)-1].typ.k != kSlice) {
				return false
			}
		case kIface:
			used := map[string]bool{}
			for _, m := range x.methods {
				id := m.name
				if !ast.IsExported(m.name) {
					id = fmt.Sprintf("%d.%s", m.pkg, m.name)
				}
				if used[id] {
					return false
				}
				used[id] = true
			}
		case kMap:
			if !u.comparable(x.key) {
				return false
			}
		}
	}
	return true
}

func (u *c07universe) comparable(d *c07d) bool {
	switch d.k {
	case kBasic, kPtr, kChan, kIface:
		return true
	case kLeaf:
		return u.leaves[d.leaf].cmp
	case kSlice, kMap, kFunc:
		return false
	case kArray:
		return u.comparable(d.elem)
	case kStruct:
		for _, f := range d.fields {
			if !u.comparable(f.typ) {
				return false
			}
		}
		return true
	case kInst:
		if u.generics[d.gen].name != "G" {
			return false
		}
		return u.comparable(d.targs[0])
	}
	return false
}

// ---------------------------------------------------------------- one-attribute mutations

// mutate changes exactly one attribute of one node of a clone; returns the kind of change.
func (g *c07g) mutate(orig *c07d) (*c07d, string) {
	for try := 0; try < 40; try++ {
		d := orig.clone()
		var ns []*c07d
		d.nodes(&ns)
		x := ns[g.r.Intn(len(ns))]
		kind := g.mutNode(x)
		if kind == "" || !g.u.valid(d) {
			continue
		}
		if g.avoidTags && kind == "struct:tag" {
			continue
		}
		if g.avoidTargs && !g.u.targClean(d, false) {
			continue
		}
		if g.avoidEmb && (kind == "struct:embedded-basic-spelling" || !g.u.embClean(d)) {
			continue
		}
		return d, kind
	}
	return nil, ""
}

func (g *c07g) otherString(cur string, pool []string) string {
	for i := 0; i < 20; i++ {
		if s := g.pick(pool); s != cur {
			return s
		}
	}
	return cur + "Z"
}

func (g *c07g) mutNode(x *c07d) string {
	r := g.r
	switch x.k {
	case kBasic:
		x.basic = g.otherString(x.basic, c07basics)
		return "basic:kind"
	case kLeaf:
		l := g.u.leaves[x.leaf]
		switch r.Intn(3) {
		case 0: // same object name elsewhere (other package / other scope)
			c := g.u.byName[l.name]
			if len(c) < 2 {
				return ""
			}
			n := c[r.Intn(len(c))]
			if n == x.leaf {
				return ""
			}
			x.leaf = n
			if l.local {
				return "leaf:same-name-other-scope-or-pkg"
			}
			return "leaf:same-name-other-pkg"
		case 1:
			if o, ok := g.u.aliasOf[x.leaf]; ok {
				x.leaf = o
				return "leaf:alias"
			}
			return ""
		default:
			n := r.Intn(len(g.u.leaves))
			if n == x.leaf {
				return ""
			}
			x.leaf = n
			return "leaf:other"
		}
	case kPtr:
		if r.Intn(2) == 0 {
			*x = *x.elem
			return "ptr:remove"
		}
		x.elem = &c07d{k: kPtr, elem: x.elem}
		return "ptr:add"
	case kSlice:
		switch r.Intn(3) {
		case 0:
			x.k, x.n = kArray, int64(r.Intn(3))
			return "slice:to-array"
		case 1:
			x.k = kPtr
			return "slice:to-ptr"
		default:
			x.k, x.dir = kChan, types.ChanDir(r.Intn(3))
			return "slice:to-chan"
		}
	case kArray:
		if r.Intn(3) == 0 {
			x.k = kSlice
			return "array:to-slice"
		}
		x.n = x.n + 1 + int64(r.Intn(2))
		if r.Intn(4) == 0 {
			x.n = x.n*10 + 1 // 1 vs 11, 2 vs 21: textual prefix cases
		}
		return "array:len"
	case kMap:
		if r.Intn(2) == 0 && g.u.comparable(x.elem) {
			x.key, x.elem = x.elem, x.key
			return "map:swap-key-elem"
		}
		x.k = kSlice
		x.key = nil
		return "map:to-slice"
	case kChan:
		x.dir = types.ChanDir((int(x.dir) + 1 + r.Intn(2)) % 3)
		return "chan:dir"
	case kFunc:
		switch r.Intn(7) {
		case 0:
			x.variadic = !x.variadic
			return "func:variadic"
		case 1:
			x.params = append(x.params, c07param{"", g.typ(0, false)})
			if x.variadic {
				return ""
			}
			return "func:add-param"
		case 2:
			x.results = append(x.results, c07param{"", g.typ(0, false)})
			return "func:add-result"
		case 3:
			if len(x.params) == 0 || x.variadic {
				return ""
			}
			n := len(x.params) - 1
			x.results = append([]c07param{x.params[n]}, x.results...)
			x.params = x.params[:n]
			return "func:param-to-result"
		case 4:
			if len(x.params) < 2 || x.variadic {
				return ""
			}
			x.params[0], x.params[1] = x.params[1], x.params[0]
			return "func:swap-params"
		case 5:
			if len(x.results) < 2 {
				return ""
			}
			x.results[0], x.results[1] = x.results[1], x.results[0]
			return "func:swap-results"
		default:
			if len(x.params) == 0 {
				return ""
			}
			i := r.Intn(len(x.params))
			x.params[i].name = g.otherString(x.params[i].name, c07pnames)
			return "func:param-name"
		}
	case kStruct:
		if len(x.fields) == 0 {
			x.fields = append(x.fields, c07field{name: g.pick(c07fnames), typ: g.typ(0, false)})
			return "struct:add-field"
		}
		i := r.Intn(len(x.fields))
		f := &x.fields[i]
		switch r.Intn(8) {
		case 0:
			if f.emb {
				return ""
			}
			f.name = g.otherString(f.name, c07fnames)
			return "struct:field-name"
		case 1:
			f.tag = g.otherString(f.tag, c07tags)
			return "struct:tag"
		case 2:
			f.emb = !f.emb // valid() keeps it only if the name is the type name
			return "struct:embedded-flag"
		case 3:
			x.pkg = (x.pkg + 1 + r.Intn(len(g.u.pkgs)-1)) % len(g.u.pkgs)
			return "struct:pkg"
		case 4:
			if len(x.fields) < 2 {
				return ""
			}
			j := (i + 1) % len(x.fields)
			x.fields[i], x.fields[j] = x.fields[j], x.fields[i]
			return "struct:swap-fields"
		case 5:
			x.fields = append(x.fields[:i:i], x.fields[i+1:]...)
			return "struct:drop-field"
		case 6:
			// non-embedded field named like its type <-> embedded (only the flag differs)
			li := r.Intn(len(g.u.leaves))
			l := g.u.leaves[li]
			*f = c07field{name: l.name, typ: &c07d{k: kLeaf, leaf: li}, emb: r.Intn(2) == 0, tag: f.tag}
			return "struct:field-to-typename-field"
		default:
			// embedded predeclared type spelled differently: struct{byte} vs struct{uint8}
			if !f.emb || f.typ.k != kBasic {
				return ""
			}
			switch f.name {
			case "byte":
				f.name = "uint8"
			case "uint8":
				f.name = "byte"
			case "rune":
				f.name = "int32"
			case "int32":
				f.name = "rune"
			default:
				return ""
			}
			f.typ.basic = f.name
			return "struct:embedded-basic-spelling"
		}
	case kIface:
		if len(x.methods) == 0 {
			x.methods = append(x.methods, c07method{name: g.pick(c07mnames), pkg: r.Intn(len(g.u.pkgs)), sig: &c07d{k: kFunc}})
			return "iface:add-method"
		}
		i := r.Intn(len(x.methods))
		m := &x.methods[i]
		switch r.Intn(4) {
		case 0:
			m.name = g.otherString(m.name, c07mnames)
			return "iface:method-name"
		case 1:
			np := (m.pkg + 1 + r.Intn(len(g.u.pkgs)-1)) % len(g.u.pkgs)
			if ast.IsExported(m.name) {
				m.pkg = np
				return "iface:pkg-of-exported-method"
			}
			if g.avoidMixed {
				// the interface literal as a whole moves to another package
				for j := range x.methods {
					if !ast.IsExported(x.methods[j].name) {
						x.methods[j].pkg = np
					}
				}
				return "iface:pkg-of-unexported-methods"
			}
			m.pkg = np
			return "iface:pkg-of-unexported-method"
		case 2:
			x.methods = append(x.methods[:i:i], x.methods[i+1:]...)
			return "iface:drop-method"
		default:
			m.sub = (m.sub + 1) % 3
			return "iface:embedding-spelling"
		}
	case kInst:
		ge := g.u.generics[x.gen]
		for tries := 0; tries < 10; tries++ {
			n := r.Intn(len(g.u.generics))
			if n != x.gen && g.u.generics[n].nargs == ge.nargs {
				same := g.u.generics[n].name == ge.name
				x.gen = n
				if same {
					return "inst:origin-same-name-other-pkg"
				}
				return "inst:origin"
			}
		}
		return ""
	}
	return ""
}

// ---------------------------------------------------------------- the monitor

type c07seen struct {
	typ  types.Type
	desc string
}

type c07checker struct {
	rep    *vReport
	b      *Builder
	names  map[string]c07seen
	evals  int
	ident  int
	nonid  int
	byKind map[string]int
}

// c07children pairs up the components of two types of the same shape (nil if the shapes differ).
func c07children(t, u types.Type) [][2]types.Type {
	t, u = types.Unalias(t), types.Unalias(u)
	var out [][2]types.Type
	switch x := t.(type) {
	case *types.Pointer:
		if y, ok := u.(*types.Pointer); ok {
			out = append(out, [2]types.Type{x.Elem(), y.Elem()})
		}
	case *types.Slice:
		if y, ok := u.(*types.Slice); ok {
			out = append(out, [2]types.Type{x.Elem(), y.Elem()})
		}
	case *types.Array:
		if y, ok := u.(*types.Array); ok {
			out = append(out, [2]types.Type{x.Elem(), y.Elem()})
		}
	case *types.Chan:
		if y, ok := u.(*types.Chan); ok {
			out = append(out, [2]types.Type{x.Elem(), y.Elem()})
		}
	case *types.Map:
		if y, ok := u.(*types.Map); ok {
			out = append(out, [2]types.Type{x.Key(), y.Key()}, [2]types.Type{x.Elem(), y.Elem()})
		}
	case *types.Signature:
		if y, ok := u.(*types.Signature); ok && x.Params().Len() == y.Params().Len() && x.Results().Len() == y.Results().Len() {
			for i := 0; i < x.Params().Len(); i++ {
				out = append(out, [2]types.Type{x.Params().At(i).Type(), y.Params().At(i).Type()})
			}
			for i := 0; i < x.Results().Len(); i++ {
				out = append(out, [2]types.Type{x.Results().At(i).Type(), y.Results().At(i).Type()})
			}
		}
	case *types.Struct:
		if y, ok := u.(*types.Struct); ok && x.NumFields() == y.NumFields() {
			for i := 0; i < x.NumFields(); i++ {
				out = append(out, [2]types.Type{x.Field(i).Type(), y.Field(i).Type()})
			}
		}
	case *types.Interface:
		if y, ok := u.(*types.Interface); ok && x.NumMethods() == y.NumMethods() {
			for i := 0; i < x.NumMethods(); i++ {
				out = append(out, [2]types.Type{x.Method(i).Type(), y.Method(i).Type()})
			}
		}
	case *types.Named:
		if y, ok := u.(*types.Named); ok && x.TypeArgs().Len() > 0 && x.TypeArgs().Len() == y.TypeArgs().Len() {
			for i := 0; i < x.TypeArgs().Len(); i++ {
				out = append(out, [2]types.Type{x.TypeArgs().At(i), y.TypeArgs().At(i)})
			}
		}
	}
	return out
}

func (c *c07checker) bad(t, u types.Type) bool {
	nt, _ := c.b.TypeName(t)
	nu, _ := c.b.TypeName(u)
	return types.Identical(t, u) != (nt == nu)
}

// locate descends to the innermost pair of components for which the biconditional fails.
func (c *c07checker) locate(t, u types.Type) (types.Type, types.Type) {
	for _, ch := range c07children(t, u) {
		if c.bad(ch[0], ch[1]) {
			return c.locate(ch[0], ch[1])
		}
	}
	return t, u
}

// c07targLeaf follows the recursion of typeArgString down to the pair of nodes whose
// rendering disagrees with identity.
func c07targLeaf(a, b types.Type) (types.Type, types.Type) {
	for _, ch := range c07children(a, b) {
		switch types.Unalias(a).(type) {
		case *types.Signature, *types.Struct, *types.Interface:
			return a, b // rendered as a whole by the types.TypeString fallback
		}
		if types.Identical(ch[0], ch[1]) != (typeArgString(ch[0]) == typeArgString(ch[1])) {
			return c07targLeaf(ch[0], ch[1])
		}
	}
	return a, b
}

// c07class names the NARROW class of a failing pair (what findings match on).
func (c *c07checker) class(T, U types.Type, kind string) string {
	ident := types.Identical(T, U)
	dir := "same-name"
	if ident {
		dir = "different-names"
	}
	t, u := c.locate(T, U)
	t, u = types.Unalias(t), types.Unalias(u)
	if x, ok := t.(*types.Struct); ok && !ident {
		if y, ok := u.(*types.Struct); ok {
			if types.IdenticalIgnoreTags(t, u) {
				return "same-name:struct-tag-only"
			}
			if x.NumFields() == y.NumFields() {
				only := true // the structs differ only in the NAME of embedded fields (alias / byte / rune)
				for i := 0; i < x.NumFields(); i++ {
					f, g := x.Field(i), y.Field(i)
					same := f.Embedded() == g.Embedded() && types.Identical(f.Type(), g.Type()) && x.Tag(i) == y.Tag(i) &&
						(f.Embedded() || f.Name() == g.Name()) && (f.Exported() && g.Exported() || f.Pkg() == g.Pkg())
					only = only && same
				}
				if only {
					return "same-name:struct-embedded-field-name"
				}
			}
		}
	}
	if x, ok := t.(*types.Interface); ok && !ident {
		if y, ok := u.(*types.Interface); ok && x.NumMethods() == y.NumMethods() {
			// same method names and signatures; the packages of the unexported methods differ, and at
			// least one of the interfaces mixes unexported methods of several packages (embedding)
			only, mixed := true, false
			for _, it := range []*types.Interface{x, y} {
				first := ""
				for i := 0; i < it.NumMethods(); i++ {
					if m := it.Method(i); !m.Exported() {
						if first == "" {
							first = m.Pkg().Path()
						} else if first != m.Pkg().Path() {
							mixed = true
						}
					}
				}
			}
			// compare by name order (the Id order of the two interfaces may differ)
			mx := map[string][]*types.Func{}
			for i := 0; i < x.NumMethods(); i++ {
				mx[x.Method(i).Name()] = append(mx[x.Method(i).Name()], x.Method(i))
			}
			my := map[string][]*types.Func{}
			for i := 0; i < y.NumMethods(); i++ {
				my[y.Method(i).Name()] = append(my[y.Method(i).Name()], y.Method(i))
			}
			for n, l := range mx {
				if len(my[n]) != len(l) {
					only = false
					continue
				}
				for i := range l {
					if !types.Identical(l[i].Type(), my[n][i].Type()) {
						only = false
					}
				}
			}
			if only && mixed {
				return "same-name:iface-unexported-methods-of-several-packages"
			}
		}
	}
	nt, ok1 := t.(*types.Named)
	nu, ok2 := u.(*types.Named)
	if ok1 && ok2 && nt.TypeArgs().Len() > 0 && nt.TypeArgs().Len() == nu.TypeArgs().Len() && nt.Origin() == nu.Origin() {
		for i := 0; i < nt.TypeArgs().Len(); i++ {
			a, b := nt.TypeArgs().At(i), nu.TypeArgs().At(i)
			if types.Identical(a, b) == (typeArgString(a) == typeArgString(b)) {
				continue
			}
			a, b = c07targLeaf(a, b)
			_, ba := types.Unalias(a).(*types.Basic)
			_, bb := types.Unalias(b).(*types.Basic)
			if ba && bb {
				return dir + ":generic-typearg-basic-spelling"
			}
			for _, x := range []types.Type{a, b} {
				switch types.Unalias(x).(type) {
				case *types.Signature, *types.Struct, *types.Interface:
					return dir + ":generic-typearg-typestring-fallback"
				}
			}
			return dir + ":generic-typearg:" + kind
		}
	}
	return dir + ":" + kind
}

func (c *c07checker) name(t types.Type) string {
	n, _ := c.b.TypeName(t)
	// the per-kind exported helpers must agree with TypeName
	switch x := t.(type) {
	case *types.Struct:
		if s, _ := c.b.StructName(x); s != n {
			c.rep.Fail("helper-disagrees:StructName", n, fmt.Sprintf("StructName=%s TypeName=%s for %s", s, n, t), nil)
		}
	case *types.Signature:
		if s := c.b.FuncName(x); s != n {
			c.rep.Fail("helper-disagrees:FuncName", n, fmt.Sprintf("FuncName=%s TypeName=%s for %s", s, n, t), nil)
		}
	case *types.Interface:
		if !x.Empty() {
			if s, _ := c.b.InterfaceName(x); s != n {
				c.rep.Fail("helper-disagrees:InterfaceName", n, fmt.Sprintf("InterfaceName=%s TypeName=%s for %s", s, n, t), nil)
			}
		}
	}
	return n
}

func c07str(t types.Type) string {
	return types.TypeString(t, func(p *types.Package) string { return p.Path() })
}

func (c *c07checker) pair(T, U types.Type, kind string) {
	c.evals++
	nt, nu := c.name(T), c.name(U)
	ident := types.Identical(T, U)
	if ident {
		c.ident++
	} else {
		c.nonid++
	}
	c.byKind[kind]++
	if ident != (nt == nu) {
		cls := c.class(T, U, kind)
		c.rep.Fail(cls, kind, fmt.Sprintf("types.Identical=%v but TypeName equal=%v\n T = %s\n U = %s\n name(T) = %s\n name(U) = %s",
			ident, nt == nu, c07str(T), c07str(U), nt, nu), map[string]string{"pair.txt": c07str(T) + "\n" + c07str(U) + "\n"})
	}
}

func (c *c07checker) table(T types.Type) {
	n := c.name(T)
	if s, ok := c.names[n]; ok {
		c.evals++
		if !types.Identical(T, s.typ) {
			cls := c.class(T, s.typ, "unrelated-pair")
			c.rep.Fail(cls, "table", fmt.Sprintf("two non-identical types share the descriptor name %s\n T = %s\n U = %s", n, c07str(T), s.desc), nil)
		}
		return
	}
	c.names[n] = c07seen{T, c07str(T)}
}

// VERIF_C07_AVOID: comma list of constructs the random generator leaves to the fixed probes
// because an open finding covers them ("tags", "targs").
func c07avoid(what string) bool {
	for _, s := range strings.Split(os.Getenv("VERIF_C07_AVOID"), ",") {
		if s == what {
			return true
		}
	}
	return false
}

// Fixed probes (run first on every run): minimal cases of each attribute.
func TestVerifC07Probes(t *testing.T) {
	rep := vNewReport("fixed near-miss probes: one hand-built pair per attribute (tag, field name, embedded flag, package of unexported field/method, variadic, chan direction, array length, local scope, generic argument), oracle types.Identical <=> same Builder.TypeName")
	defer rep.Write()
	u := c07newUniverse(t)
	c := &c07checker{rep: rep, b: New(unsafe.Sizeof(uintptr(0)), types.SizesFor("gc", "amd64")), names: map[string]c07seen{}, byKind: map[string]int{}}
	p, q := u.pkgs[0], u.pkgs[1]
	Int, Str := types.Typ[types.Int], types.Typ[types.String]
	fld := func(pkg *types.Package, name string, typ types.Type, emb bool) *types.Var {
		return types.NewField(token.NoPos, pkg, name, typ, emb)
	}
	st := func(tags []string, fs ...*types.Var) types.Type { return types.NewStruct(fs, tags) }
	sig := func(variadic bool, ps ...types.Type) *types.Signature {
		var vs []*types.Var
		for _, x := range ps {
			vs = append(vs, types.NewParam(token.NoPos, nil, "", x))
		}
		return types.NewSignatureType(nil, nil, nil, types.NewTuple(vs...), nil, variadic)
	}
	ifc := func(pkg *types.Package, name string, s *types.Signature) types.Type {
		return types.NewInterfaceType([]*types.Func{types.NewFunc(token.NoPos, pkg, name, s)}, nil).Complete()
	}
	ifc2 := func(a, b *types.Package) types.Type { // interface{ a.I; b.I } with I = interface{ m() }
		return types.NewInterfaceType(nil, []types.Type{ifc(a, "m", sig(false)), ifc(b, "m", sig(false))}).Complete()
	}
	leaf := func(key string) types.Type {
		for _, l := range u.leaves {
			if l.key == key {
				return l.typ
			}
		}
		t.Fatalf("no leaf %s", key)
		return nil
	}
	T0 := leaf("0.T")
	inst := func(key string, targs ...types.Type) types.Type {
		for _, ge := range u.generics {
			if fmt.Sprintf("%d.%s", ge.pkg, ge.name) == key {
				r, err := types.Instantiate(nil, ge.origin, targs, false)
				if err != nil {
					t.Fatal(err)
				}
				return r
			}
		}
		t.Fatalf("no generic %s", key)
		return nil
	}
	sigN := func(name string, x types.Type) *types.Signature {
		return types.NewSignatureType(nil, nil, nil, types.NewTuple(types.NewParam(token.NoPos, nil, name, x)), nil, false)
	}
	probes := []struct {
		kind string
		a, b types.Type
	}{
		{"struct:tag", st([]string{"x"}, fld(p, "A", Int, false)), st([]string{"y"}, fld(p, "A", Int, false))},
		{"struct:tag", st([]string{"x"}, fld(p, "A", Int, false)), st(nil, fld(p, "A", Int, false))},
		{"struct:field-name", st(nil, fld(p, "A", Int, false)), st(nil, fld(p, "B", Int, false))},
		{"struct:embedded-flag", st(nil, fld(p, "T", T0, false)), st(nil, fld(p, "T", T0, true))},
		{"struct:pkg", st(nil, fld(p, "a", Int, false)), st(nil, fld(q, "a", Int, false))},
		{"struct:pkg-exported-only", st(nil, fld(p, "A", Int, false)), st(nil, fld(q, "A", Int, false))},
		{"func:variadic", sig(true, types.NewSlice(Int)), sig(false, types.NewSlice(Int))},
		{"chan:dir", types.NewChan(types.SendOnly, Int), types.NewChan(types.SendRecv, Int)},
		{"chan:dir", types.NewChan(types.RecvOnly, Int), types.NewChan(types.SendRecv, Int)},
		{"chan:dir", types.NewChan(types.SendOnly, T0), types.NewChan(types.RecvOnly, T0)},
		{"chan:dir", types.NewChan(types.RecvOnly, types.NewPointer(Int)), types.NewChan(types.SendRecv, types.NewPointer(Int))},
		{"chan:nesting", types.NewChan(types.SendRecv, types.NewChan(types.RecvOnly, Int)), types.NewChan(types.RecvOnly, types.NewChan(types.SendRecv, Int))},
		{"array:len", types.NewArray(Int, 1), types.NewArray(Int, 11)},
		{"basic:kind", Int, Str},
		{"leaf:same-name-other-pkg", leaf("0.T"), leaf("1.T")},
		{"leaf:same-name-other-pkg", leaf("0.T"), leaf("2.T")},
		{"leaf:same-name-other-scope-or-pkg", leaf("0.L@0"), leaf("0.L@1")},
		{"leaf:same-name-other-scope-or-pkg", leaf("0.L@1"), leaf("0.L@3")},
		{"leaf:alias", leaf("0.A"), leaf("0.T")},
		{"iface:method-name", ifc(p, "M", sig(false)), ifc(p, "N", sig(false))},
		{"iface:pkg-of-unexported-method", ifc(p, "m", sig(false)), ifc(q, "m", sig(false))},
		{"iface:pkg-of-exported-method", ifc(p, "M", sig(false)), ifc(q, "M", sig(false))},
		{"iface:method-sig", ifc(p, "M", sig(false, Int)), ifc(p, "M", sig(false, Str))},
		{"iface:unexported-methods-of-two-packages", ifc2(p, q), ifc2(p, u.pkgs[2])},
		// embedded fields: the field name is the (alias / predeclared) name written in the source
		{"struct:embedded-alias-name", st(nil, fld(p, "A", leaf("0.A"), true)), st(nil, fld(p, "T", T0, true))},
		{"struct:embedded-byte-uint8", st(nil, fld(p, "byte", types.Universe.Lookup("byte").Type(), true)), st(nil, fld(p, "uint8", types.Typ[types.Uint8], true))},
		{"struct:embedded-ptr", st(nil, fld(p, "T", types.NewPointer(T0), true)), st(nil, fld(p, "T", T0, true))},
		{"inst:targ", inst("0.G", Int), inst("0.G", Str)},
		{"inst:origin-same-name-other-pkg", inst("0.G", Int), inst("1.G", Int)},
		{"inst:targ-local-scope", inst("0.G", leaf("0.L@0")), inst("0.G", leaf("0.L@1"))},
		// type arguments rendered through typeArgString's fallbacks
		{"inst:targ-struct-pkg", inst("0.G", st(nil, fld(p, "a", Int, false))), inst("0.G", st(nil, fld(q, "a", Int, false)))},
		{"inst:targ-iface-pkg", inst("0.G", ifc(p, "m", sig(false))), inst("0.G", ifc(q, "m", sig(false)))},
		{"inst:targ-struct-local-scope", inst("0.G", st(nil, fld(p, "A", leaf("0.L@0"), false))), inst("0.G", st(nil, fld(p, "A", leaf("0.L@1"), false)))},
		{"inst:targ-param-name", inst("0.G", sigN("a", Int)), inst("0.G", sigN("b", Int))},
		{"inst:targ-byte-uint8", inst("0.G", types.Universe.Lookup("byte").Type()), inst("0.G", types.Typ[types.Uint8])},
		{"inst:targ-rune-int32", inst("0.G", types.NewSlice(types.Universe.Lookup("rune").Type())), inst("0.G", types.NewSlice(types.Typ[types.Int32]))},
	}
	for _, pr := range probes {
		c.pair(pr.a, pr.b, pr.kind)
		rep.Sig("probe|" + pr.kind)
	}
	rep.Eval(c.evals)
	rep.Extra["probe_pairs"] = len(probes)
}

func TestVerifC07Identity(t *testing.T) {
	rep := vNewReport("random type descriptions (depth<=4: basic, named/alias/function-local leaves of 3 type-checked packages, generic instances, ptr, slice, array, map, chan+dir, func+variadic, struct with names/tags/embedding/unexported fields of one package, interfaces with exported/unexported methods) -> fresh go/types values; for each T a respelled rebuild (byte/uint8, alias/aliased, parameter names, method order/embedding, package of exported-only literals) and one-attribute near-misses; oracle types.Identical(T,U) <=> Builder.TypeName(T)==TypeName(U); plus a name table over all generated types (same name => identical). distinct = distinct (type skeleton, mutation kind) signatures")
	defer rep.Write()
	u := c07newUniverse(t)
	total := vN(24000, 2000000)
	const workers = 4
	avoidTags, avoidTargs, avoidEmb, avoidMixed := c07avoid("tags"), c07avoid("targs"), c07avoid("emb"), c07avoid("mixed")
	var wg sync.WaitGroup
	cs := make([]*c07checker, workers)
	for w := 0; w < workers; w++ {
		c := &c07checker{rep: rep, b: New(unsafe.Sizeof(uintptr(0)), types.SizesFor("gc", "amd64")), names: map[string]c07seen{}, byKind: map[string]int{}}
		cs[w] = c
		wg.Add(1)
		go func(w int) {
			defer wg.Done()
			r := rand.New(rand.NewSource(vSeed()*1000003 + int64(w)*7919 + 7))
			g := &c07g{u: u, r: r, avoidTags: avoidTags, avoidTargs: avoidTargs, avoidEmb: avoidEmb, avoidMixed: avoidMixed}
			bd := &c07build{u: u, r: r, avoidTargs: avoidTargs}
			for c.evals < total/workers {
				d := g.typ(1+r.Intn(4), false)
				if !u.valid(d) {
					continue
				}
				bd.vary = false
				T := bd.build(d)
				c.table(T)
				var sk strings.Builder
				d.skeleton(&sk)
				// identical rebuilds: plain and respelled
				c.pair(T, bd.build(d), "rebuild")
				bd.vary = true
				T2 := bd.build(d)
				bd.vary = false
				c.pair(T, T2, "respelled")
				c.table(T2)
				rep.Sig(sk.String())
				// near-misses
				for k := 0; k < 6; k++ {
					m, kind := g.mutate(d)
					if m == nil {
						continue
					}
					U := bd.build(m)
					c.pair(T, U, kind)
					c.table(U)
					rep.Sig(sk.String() + "|" + kind)
					if k == 0 && c.byKind[kind] == 3 {
						rep.Sample(map[string]any{"T": c07str(T), "U": c07str(U), "mutation": kind, "identical": types.Identical(T, U), "name_T": c.name(T), "name_U": c.name(U)})
					}
				}
			}
		}(w)
	}
	wg.Wait()
	// merge the name tables of the workers
	all := map[string]c07seen{}
	evals, ident, nonid := 0, 0, 0
	kinds := map[string]int{}
	for _, c := range cs {
		evals += c.evals
		ident += c.ident
		nonid += c.nonid
		for k, v := range c.byKind {
			kinds[k] += v
		}
		var ks []string
		for n := range c.names {
			ks = append(ks, n)
		}
		sort.Strings(ks)
		for _, n := range ks {
			s := c.names[n]
			if o, ok := all[n]; ok {
				evals++
				if !types.Identical(s.typ, o.typ) {
					rep.Fail(cs[0].class(s.typ, o.typ, "unrelated-pair"), "table", fmt.Sprintf("two non-identical types share the descriptor name %s\n T = %s\n U = %s", n, s.desc, o.desc), nil)
				}
			} else {
				all[n] = s
			}
		}
	}
	rep.Eval(evals)
	rep.Extra["pairs_identical"] = ident
	rep.Extra["pairs_not_identical"] = nonid
	rep.Extra["distinct_descriptor_names"] = len(all)
	rep.Extra["pairs_by_mutation"] = kinds
	var avoided []string
	if avoidTags {
		avoided = append(avoided, "near-miss pairs that differ only in a struct tag (open finding; covered by the fixed probes)")
	}
	if avoidTargs {
		avoided = append(avoided, "func/struct/interface types and byte/rune anywhere inside a generic type argument (open finding; covered by the fixed probes)")
	}
	if avoidMixed {
		avoided = append(avoided, "interfaces whose unexported methods belong to more than one package (open finding; covered by the fixed probes)")
	}
	if avoidEmb {
		avoided = append(avoided, "embedded fields named by an alias or by byte/rune (open finding; covered by the fixed probes)")
	}
	if avoided != nil {
		rep.Extra["avoided_constructs"] = avoided
	}
}

//go:build verif

// C13 monitor (E2, thorough tier) for the build inputs that the CLI of this tree cannot drive:
//
//   - string overrides (-X): the cmd/llgo front end does not forward -ldflags "-X ...", so the history
//     (rewrite set changes, rebuild with the persistent cache, run) is driven through Do with
//     Config.GlobalRewrites.  Monitor: output(build with the cache) == output(build with
//     LLGO_BUILD_CACHE=0, i.e. everything compiled) == expected (computed from the rewrite table).
//   - optimisation level: LLVM 14 cannot run the O1/O2 pipelines in this sandbox, so only the
//     participation of the level in the manifest is observed: the [common] section produced by
//     collectCommonInputs must differ for every pair of levels.  The same observation is recorded
//     (informational) for ABI mode, tags and the LLGO_* variables.
package build

import (
	"fmt"
	"os"
	"os/exec"
	"path/filepath"
	"sort"
	"strings"
	"testing"

	"github.com/goplus/llgo/internal/cabi"
	"github.com/goplus/llgo/internal/crosscompile"
	"github.com/goplus/llgo/internal/optlevel"
)

const c13Mod = "c13x"

func c13WriteModule(t *testing.T, dir string) {
	files := map[string]string{
		"go.mod": "module " + c13Mod + "\n\ngo 1.24\n",
		"main.go": `package main

import (
	"` + c13Mod + `/lib"
	"` + c13Mod + `/top"
)

var X = "mainx"

func main() {
	println("X", X)
	println("lib", lib.V, lib.W, lib.Plain, lib.Len())
	println("top", top.Get())
}
`,
		"lib/lib.go": `package lib

var V = "libv"
var W = "libw"
var Plain string

func Len() int { return len(V) + len(W) + len(Plain) }
`,
		"top/top.go": `package top

import "` + c13Mod + `/lib"

var T = "topt"

func Get() string { return T + "/" + lib.V }
`,
	}
	for rel, txt := range files {
		p := filepath.Join(dir, rel)
		if err := os.MkdirAll(filepath.Dir(p), 0o755); err != nil {
			t.Fatal(err)
		}
		if err := os.WriteFile(p, []byte(txt), 0o644); err != nil {
			t.Fatal(err)
		}
	}
}

type c13Table map[string]map[string]string // package -> var -> value

func c13Expected(tab c13Table) string {
	get := func(pkg, name, def string) string {
		if v, ok := tab[pkg][name]; ok {
			return v
		}
		return def
	}
	x := get(c13Mod, "X", "mainx")
	v := get(c13Mod+"/lib", "V", "libv")
	w := get(c13Mod+"/lib", "W", "libw")
	p := get(c13Mod+"/lib", "Plain", "")
	tt := get(c13Mod+"/top", "T", "topt")
	return fmt.Sprintf("X %s\nlib %s %s %s %d\ntop %s/%s\n", x, v, w, p, len(v)+len(w)+len(p), tt, v)
}

func c13Build(t *testing.T, tab c13Table, out string, cache bool) (err error) {
	defer func() {
		if r := recover(); r != nil {
			err = fmt.Errorf("panic: %v", r)
		}
	}()
	if cache {
		os.Unsetenv("LLGO_BUILD_CACHE")
	} else {
		os.Setenv("LLGO_BUILD_CACHE", "0")
	}
	defer os.Unsetenv("LLGO_BUILD_CACHE")
	os.Remove(out)
	cfg := &Config{Mode: ModeBuild, OutFile: out, OptLevel: optlevel.O0}
	pkgs := make([]string, 0, len(tab))
	for p := range tab {
		pkgs = append(pkgs, p)
	}
	sort.Strings(pkgs)
	for _, p := range pkgs {
		names := make([]string, 0)
		for n := range tab[p] {
			names = append(names, n)
		}
		sort.Strings(names)
		for _, n := range names {
			addGlobalString(cfg, p+"."+n+"="+tab[p][n], nil)
		}
	}
	_, err = Do([]string{"."}, cfg)
	return err
}

func c13Run(path string) string {
	cmd := exec.Command(path)
	var sb strings.Builder
	cmd.Stderr = &sb
	cmd.Stdout = &sb
	if err := cmd.Run(); err != nil {
		return sb.String() + "\nRUN-ERROR: " + err.Error()
	}
	return sb.String()
}

// One test, one report: the rig reads a single VERIF_STATS file.
func TestVerifC13(t *testing.T) {
	rep := vNewReport("E2 history over Config.GlobalRewrites (-X) through internal/build.Do: module main+lib+top (top reads lib.V), steps change the rewrite table (set, change to a same-length value, add a second variable, set an uninitialised variable, rewrite the dependent package only, remove everything = old archives valid again, repeat an earlier table); after every step output(build with the persistent cache) == output(build with LLGO_BUILD_CACHE=0) == expected from the table | manifest sensitivity (no build executed): env+common sections from collectEnvInputs/collectCommonInputs must differ for every pair of -O levels; ABI modes, tag sets and LLGO_* variables recorded")
	defer rep.Write()
	c13ManifestSensitivity(t, rep)
	c13Rewrites(t, rep)
}

func c13Rewrites(t *testing.T, rep *vReport) {
	work := os.Getenv("VERIF_WORK")
	if work == "" {
		work = t.TempDir()
	}
	dir := filepath.Join(work, "c13x-module")
	os.RemoveAll(dir)
	c13WriteModule(t, dir)
	cwd, _ := os.Getwd()
	if err := os.Chdir(dir); err != nil {
		t.Fatal(err)
	}
	defer os.Chdir(cwd)
	lib, top := c13Mod+"/lib", c13Mod+"/top"
	seed := vSeed()
	a := fmt.Sprintf("val-%d-a", seed)
	b := fmt.Sprintf("val-%d-b", seed) // same length as a
	steps := []struct {
		name string
		tab  c13Table
	}{
		{"none", c13Table{}},
		{"set-lib.V", c13Table{lib: {"V": a}}},
		{"change-lib.V-same-length", c13Table{lib: {"V": b}}},
		{"add-lib.W", c13Table{lib: {"V": b, "W": "w2"}}},
		{"uninitialised-lib.Plain", c13Table{lib: {"V": b, "W": "w2", "Plain": "pl"}}},
		{"only-top.T", c13Table{top: {"T": "T2"}}},
		{"main.X-and-lib.V", c13Table{c13Mod: {"X": "x2"}, lib: {"V": a}}},
		{"remove-all", c13Table{}},
		{"again-lib.V", c13Table{lib: {"V": a}}},
		{"value-with-blanks", c13Table{lib: {"V": "two words = x"}}},
	}
	binC := filepath.Join(work, "c13x-cached.bin")
	binN := filepath.Join(work, "c13x-nocache.bin")
	for i, st := range steps {
		want := c13Expected(st.tab)
		files := map[string]string{"table.txt": fmt.Sprintf("%v", st.tab), "HOWTO.txt": "module: inpkg/c13_rewrite_test.go c13WriteModule; apply the tables of steps 0.." + fmt.Sprint(i) + " in order with build.Do(Config{GlobalRewrites}) sharing one XDG_CACHE_HOME\n"}
		if err := c13Build(t, st.tab, binC, true); err != nil {
			rep.Fail("rewrite:cached-build-fails", st.name, "Do with the persistent cache fails: "+err.Error(), files)
			continue
		}
		gotC := c13Run(binC)
		rep.Eval(1)
		rep.Sig("rewrite|" + st.name)
		if gotC != want {
			// decide by a build that compiles everything
			if err := c13Build(t, st.tab, binN, false); err != nil {
				rep.Fail("rewrite:nocache-build-fails", st.name, "Do with LLGO_BUILD_CACHE=0 fails: "+err.Error(), files)
				continue
			}
			gotN := c13Run(binN)
			files["cached.txt"], files["nocache.txt"], files["expected.txt"] = gotC, gotN, want
			if gotN == want {
				rep.Fail("stale:rewrite", st.name, fmt.Sprintf("step %d (%s): program built with the persistent cache prints %q, the build without cache (and the rewrite table) give %q", i, st.name, gotC, want), files)
			} else {
				rep.Fail("clean-differs-from-expected:rewrite", st.name, fmt.Sprintf("step %d (%s): even the build without cache prints %q, expected %q", i, st.name, gotN, want), files)
			}
			continue
		}
		// every third step: also confirm against the cache-less build
		if i%3 == 0 {
			if err := c13Build(t, st.tab, binN, false); err != nil {
				rep.Fail("rewrite:nocache-build-fails", st.name, "Do with LLGO_BUILD_CACHE=0 fails: "+err.Error(), files)
				continue
			}
			rep.Eval(1)
			if gotN := c13Run(binN); gotN != want {
				rep.Fail("clean-differs-from-expected:rewrite", st.name, fmt.Sprintf("build without cache prints %q, expected %q", gotN, want), files)
			}
		}
		rep.Sample(map[string]any{"step": st.name, "table": st.tab, "output": gotC})
	}
}

func c13Common(t *testing.T, level optlevel.Level, abi cabi.Mode, tags string) string {
	export, err := crosscompile.Use("linux", "amd64", "", false, false, level)
	if err != nil {
		t.Fatalf("crosscompile.Use: %v", err)
	}
	c := &context{buildConf: &Config{Goos: "linux", Goarch: "amd64", OptLevel: level, AbiMode: abi, Tags: tags}, crossCompile: export}
	c.llvmVersion = "fixed"
	m := newManifestBuilder()
	c.collectEnvInputs(m)
	c.collectCommonInputs(m)
	return m.Build()
}

func c13ManifestSensitivity(t *testing.T, rep *vReport) {
	levels := []optlevel.Level{optlevel.O0, optlevel.O1, optlevel.O2, optlevel.O3, optlevel.Os, optlevel.Oz}
	seen := map[string]optlevel.Level{}
	for _, l := range levels {
		s := c13Common(t, l, cabi.ModeAllFunc, "")
		rep.Eval(1)
		rep.Sig("opt|" + l.String())
		if prev, ok := seen[s]; ok {
			rep.Fail("config-stale:opt", l.String(), fmt.Sprintf("optimisation levels %s and %s produce the same manifest (env+common sections): a package built at one level would be served at the other", prev, l), map[string]string{"manifest.txt": s})
		}
		seen[s] = l
	}
	insens := []string{}
	base := c13Common(t, optlevel.O0, cabi.ModeAllFunc, "")
	for _, abi := range []cabi.Mode{cabi.ModeNone, cabi.ModeCFunc} {
		rep.Eval(1)
		if c13Common(t, optlevel.O0, abi, "") == base {
			insens = append(insens, fmt.Sprintf("abi=%d", abi))
		}
	}
	for _, tg := range []string{"a", "a,b"} {
		rep.Eval(1)
		if c13Common(t, optlevel.O0, cabi.ModeAllFunc, tg) == base {
			insens = append(insens, "tags="+tg)
		}
	}
	for _, v := range []string{llgoDebug, llgoDbgSyms, llgoTrace, llgoOptimize, llgoWasmRuntime, llgoWasiThreads, llgoStdioNobuf, llgoFullRpath} {
		rep.Eval(1)
		old, had := os.LookupEnv(v)
		os.Setenv(v, "c13")
		if c13Common(t, optlevel.O0, cabi.ModeAllFunc, "") == base {
			insens = append(insens, v)
		}
		if had {
			os.Setenv(v, old)
		} else {
			os.Unsetenv(v)
		}
	}
	rep.Extra["manifest_insensitive_to"] = insens
	rep.Extra["opt_levels_distinct_manifests"] = len(seen)
}

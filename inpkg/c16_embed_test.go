//go:build verif

// C16 monitor, compiled into internal/goembed by `go test -overlay` (E2).
//
// Workload: random package trees (depth <= 4: dot/underscore names, spaces, unicode, names
// module.CheckFilePath rejects, VCS dirs, empty dirs, symlinks to files/dirs/nothing, nested
// go.mod, FIFOs and sockets) x //go:embed pattern lists (70% derived from the tree: literal
// files/dirs/specials and globs built from existing names; 30% hostile literals), encoded bare,
// double-quoted and back-quoted, over 1-3 variables and 1-2 Go files per package.
// Oracle: the reference go tool.  Packages are generated 200 to a module and listed with ONE
// `go list -e -json ./...`; EmbedPatterns / EmbedFiles / Error per package are compared with the
// real ParsePatterns, LoadDirectives (+ResolvePatterns) and BuildFSEntries of the working tree:
//   - acceptance/rejection must agree;
//   - the union of resolved names over all variables == EmbedFiles (exact list for 1-variable packages);
//   - FileData.Data == bytes on disk (independent read), every name a regular file (Lstat);
//   - BuildFSEntries == files + closure of parent directories in embed's (dir, elem) order, and a REAL
//     embed.FS laid over those entries walks to exactly the file set, serves the same bytes and passes
//     testing/fstest.TestFS.
package goembed

import (
	"bytes"
	"embed"
	"encoding/json"
	"fmt"
	"go/ast"
	"go/parser"
	"go/token"
	"io"
	"io/fs"
	"math/rand"
	"os"
	"os/exec"
	"path"
	"path/filepath"
	"reflect"
	"sort"
	"strconv"
	"strings"
	"sync"
	"syscall"
	"testing"
	"testing/fstest"
	"time"
	"unicode"
	"unicode/utf8"
	"unsafe"
)

// ---------------------------------------------------------------- constructs avoided by the random
// generator because an OPEN finding covers them (probe + avoid, DESIGN 3.5).  Each is still exercised
// by a fixed probe in TestVerifC16Probes.  VERIF_C16_NOAVOID=1 switches the avoidance off.
// The list comes from checks/c16.py (VERIF_C16_AVOID = "avoid" keys of the OPEN entries of findings/C16.json),
// so closing a finding automatically returns its construct to the random generator.
func c16avoiding(k string) bool {
	for _, a := range strings.Split(os.Getenv("VERIF_C16_AVOID"), ",") {
		if a == k {
			return true
		}
	}
	return false
}

// ---------------------------------------------------------------- tree generation

type c16node struct {
	rel  string // slash path relative to the package directory
	kind string // file dir symfile symdir symdangling symout fifo sock gomod gomoddir
	to   string // symlink: slash path (relative to package dir) of the target
}

var c16commonFiles = []string{"a.txt", "b.txt", "c.dat", "x y.txt", "é.txt", "日本語.txt", ".hidden", ".env", "_under",
	"_gen.txt", "A", "a", "README", "c.go.txt", "data.json", "-dash", "~tilde", "a[1].txt", "{b}.txt", "ab.txt", "a.tx"}
var c16exoticFiles = []string{"st*r.txt", "q?.txt", "back\\slash.txt", "co:lon", "\"q\".txt", "'s'.txt", "'a'", "semi;colon",
	"trail.", "trail ", " lead", "CON", "aux.txt", "nul", "a~1", "☺.txt", "\xff.txt", "%41.txt", "a+b=c.txt", "..hidden2",
	"...", "e\u0301.txt", "com1.txt", "t\tab.txt", "pipe|x", "lt<gt>", "a\u00a0b.txt", "`bq`.txt", "x.", "#hash", "!bang", "$d", "a&b", "(p)", "c,d", "e@f", "^h", "long"}
var c16commonDirs = []string{"sub", "sub2", "dir.d", "d e", "ü", "A", "data", "static", "a"}
var c16specialDirs = []string{".git", ".hg", ".svn", ".bzr", ".hidden.d", "_priv", "vendor", "testdata", "node_modules", "CON", "a~1", "st*r", "trail.", "☺"}

type c16tree struct {
	rich  bool // walk mode: subtrees dense in everything a directory walk must filter silently
	tame  bool // fewer exotic names / irregular files, so that globs have a chance to be accepted
	rng   *rand.Rand
	root  string
	nodes []c16node
	have  map[string]bool
}

func (t *c16tree) abs(rel string) string { return filepath.Join(t.root, filepath.FromSlash(rel)) }

// c16safeArg mirrors cmd/go's load.SafeArg (first byte of the name relative to the package directory)
func c16safeArg(name string) bool {
	if name == "" {
		return false
	}
	c := name[0]
	return '0' <= c && c <= '9' || 'A' <= c && c <= 'Z' || 'a' <= c && c <= 'z' || c == '.' || c == '_' || c == '/' || c >= utf8.RuneSelf
}

// taken reports that rel exists already or must not be created because an open finding covers the construct
func (t *c16tree) taken(rel string) bool {
	if t.have[rel] {
		return true
	}
	if c16avoiding("unsafe-first-char") && !c16safeArg(rel) {
		return true
	}
	if c16avoiding("case-fold-collision") {
		// sibling names never differ by case only => no two paths of the tree are fold-equal
		for k := range t.have {
			if strings.EqualFold(k, rel) {
				return true
			}
		}
	}
	return false
}

func (t *c16tree) add(rel, kind, to string) {
	t.nodes = append(t.nodes, c16node{rel, kind, to})
	t.have[rel] = true
}

func c16content(r *rand.Rand) []byte {
	switch r.Intn(10) {
	case 0:
		return nil
	case 1:
		b := make([]byte, 1+r.Intn(4096))
		r.Read(b)
		return b
	case 2:
		return []byte("line1\r\nline2\x00\xff\xfe tail")
	}
	return []byte(fmt.Sprintf("data-%d-%x\n", r.Intn(1000), r.Int63()))
}

func c16pick(r *rand.Rand, l []string) string { return l[r.Intn(len(l))] }

func (t *c16tree) fileName() string {
	if t.rich && t.rng.Intn(3) == 0 {
		return c16pick(t.rng, c16exoticFiles)
	}
	if t.rng.Intn(5) == 0 && !(t.tame && t.rng.Intn(4) != 0) {
		n := c16pick(t.rng, c16exoticFiles)
		if n == "long" {
			return strings.Repeat("l", 200)
		}
		return n
	}
	return c16pick(t.rng, c16commonFiles)
}

func (t *c16tree) dirName() string {
	// VCS directories and hidden/underscore directories are skipped silently by directory walks (the filter under
	// test), so they stay frequent in tame trees too; names module.CheckFilePath rejects are kept rarer there.
	k := t.rng.Intn(100)
	if t.rich {
		k /= 2 // twice the share of VCS / hidden / invalid directory names
	}
	switch {
	case k < 10:
		return c16pick(t.rng, []string{".git", ".hg", ".svn", ".bzr"})
	case k < 18:
		return c16pick(t.rng, []string{".hidden.d", "_priv", "vendor", "testdata", "node_modules"})
	case k < 26 && !(t.tame && t.rng.Intn(3) != 0):
		return c16pick(t.rng, c16specialDirs)
	}
	return c16pick(t.rng, c16commonDirs)
}

func c16join(dir, name string) string {
	if dir == "" {
		return name
	}
	return dir + "/" + name
}

// relTarget returns the symlink text that leads from directory `dir` to `to` (both relative to the package dir).
func c16relTarget(dir, to string) string {
	up := ""
	if dir != "" {
		up = strings.Repeat("../", strings.Count(dir, "/")+1)
	}
	return up + to
}

// gen fills directory dir (depth = number of path elements of dir). Entries live at depth+1 <= 4.
func (t *c16tree) gen(dir string, depth int) {
	r := t.rng
	n := r.Intn(7)
	if depth == 0 {
		n = 2 + r.Intn(6)
	}
	for i := 0; i < n; i++ {
		k := r.Intn(100)
		// irregular files, symlinks and nested modules are skipped silently by directory walks but make top-level globs fail:
		// tame trees keep them below the top level
		if t.rich && k < 76 && r.Intn(4) == 0 {
			k = 76 + r.Intn(24)
		}
		if t.tame && k >= 76 && depth == 0 && r.Intn(4) != 0 {
			k = r.Intn(76)
		}
		switch {
		case k < 50:
			rel := c16join(dir, t.fileName())
			if t.taken(rel) {
				continue
			}
			if os.WriteFile(t.abs(rel), c16content(r), 0o644) == nil {
				t.add(rel, "file", "")
			}
		case k < 76:
			if depth+1 >= 4 {
				continue
			}
			rel := c16join(dir, t.dirName())
			if t.taken(rel) {
				continue
			}
			if os.Mkdir(t.abs(rel), 0o755) != nil {
				continue
			}
			t.add(rel, "dir", "")
			if r.Intn(7) != 0 { // else: empty directory
				t.gen(rel, depth+1)
			}
		case k < 86: // symlink
			var name string
			switch r.Intn(4) {
			case 0:
				name = c16pick(r, []string{"link", "lnk.txt", ".hlink", "_ulink", "ldir"})
			case 1:
				name = t.dirName()
			default:
				name = t.fileName()
			}
			rel := c16join(dir, name)
			if t.taken(rel) {
				continue
			}
			kind, to, text := "symdangling", "", "no-such-target"
			switch q := r.Intn(10); {
			case q < 8 && len(t.nodes) > 0:
				tn := t.nodes[r.Intn(len(t.nodes))]
				switch tn.kind {
				case "file":
					kind = "symfile"
				case "dir":
					kind = "symdir"
				default:
					continue
				}
				if strings.HasPrefix(rel, tn.rel+"/") { // would create a loop through the link's own ancestor
					continue
				}
				to, text = tn.rel, c16relTarget(dir, tn.rel)
			case q == 8:
				kind, text = "symout", c16relTarget(dir, "../go.mod") // exists, outside the package
			}
			if os.Symlink(text, t.abs(rel)) == nil {
				t.add(rel, kind, to)
			}
		case k < 90:
			rel := c16join(dir, c16pick(r, []string{"fifo", "pipe.txt", ".fifo", "_fifo", "a.txt", "b.txt"}))
			if t.taken(rel) {
				continue
			}
			if syscall.Mkfifo(t.abs(rel), 0o644) == nil {
				t.add(rel, "fifo", "")
			}
		case k < 92:
			rel := c16join(dir, c16pick(r, []string{"sock", "s.txt", "a.txt"}))
			if t.taken(rel) {
				continue
			}
			if syscall.Mknod(t.abs(rel), syscall.S_IFSOCK|0o644, 0) == nil {
				t.add(rel, "sock", "")
			}
		case k < 98:
			if depth == 0 || t.rich && depth == 1 { // (walk mode: the named directory itself stays in this module)
				continue
			}
			rel := c16join(dir, "go.mod")
			if t.taken(rel) {
				continue
			}
			if os.WriteFile(t.abs(rel), []byte("module nested\n"), 0o644) == nil {
				t.add(rel, "gomod", "")
			}
		default:
			if depth == 0 || depth+1 >= 4 || t.rich && depth == 1 {
				continue
			}
			rel := c16join(dir, "go.mod")
			if t.taken(rel) {
				continue
			}
			if os.Mkdir(t.abs(rel), 0o755) == nil {
				t.add(rel, "gomoddir", "")
				if r.Intn(2) == 0 {
					f := rel + "/inner.txt"
					if os.WriteFile(t.abs(f), []byte("inner"), 0o644) == nil {
						t.add(f, "file", "")
					}
				}
			}
		}
	}
}

// ---------------------------------------------------------------- patterns

type c16pat struct {
	text string // the pattern after unquoting, as the generator intends it
	kind string // structural label (evidence signature)
}

var c16hostile = []string{".", "..", "/abs", "/", "", "sub/", "a.txt/", "./a.txt", "sub/../a.txt", "sub//a.txt", "sub\\a.txt",
	"\\a.txt", "all:", "all:.", "all:..", "all:/abs", "all:all:a.txt", "*", "**", "all:*", "*/", "[", "[a-", "a[", "[]a]", "[^]", "a\\",
	"?", "nonexistent", "nonexistent/*", "*.nonexistent", "a.txt/b", "go.mod", "m.go", "*.go", "../go.mod", "...", "all:...",
	" a.txt", "a.txt ", "all: a.txt", "ALL:a.txt", "all:sub/", "\x00", "a\x00b", "e\u0301.txt", "%2e", "~", "$HOME", "${PWD}/a.txt",
	"sub/.", "sub/..", ".git", ".git/config", "all:.git", "_priv", "all:_priv", ".hidden", "all:.hidden", "*/.hidden", "sub/_under",
	"\xff", "'a'", "'a.txt'", "a.txt\nb.txt", "all:sub", "sub/*", "*/*", "*/*/*", "*/*/*/*", "all:*/*", ".*", "_*", "all:.*", "[._]*",
	"sub/go.mod", "*/go.mod", "all:*/go.mod", "a.txt//", "//a.txt", "a.txt/.", "C:\\a.txt", "C:/a.txt", "sub/./a.txt", "[a-b].txt", "[^a].txt", "?.txt", "\\*"}

type c16pkg struct {
	idx      int
	name     string // directory name
	dir      string
	tree     *c16tree
	gofiles  map[string]string // name -> source
	vars     int
	walk     bool
	walkDirs []string
	benign   bool   // every pattern derived from the tree, no invalidating mutation, no hostile line encoding
	layout   string // probes only: label of a non-standard directive placement
	kinds    []string // pattern / encoding / layout labels
	intended []string // intended decoded patterns (for the replay record only; not an oracle)
	features map[string]bool
}

func c16runes(s string) []rune { return []rune(s) }

// derive a pattern from the generated tree
func (p *c16pkg) derive(r *rand.Rand) c16pat {
	t := p.tree
	if p.walk {
		d := c16pick(r, p.walkDirs)
		switch r.Intn(8) {
		case 0:
			return c16pat{"top.txt", "walk-file"}
		case 1, 2, 3:
			return c16pat{"all:" + d, "walk-all-dir"}
		}
		return c16pat{d, "walk-dir"}
	}
	var files, dirs, specials, through []string
	kindOf := map[string]string{}
	for _, n := range t.nodes {
		kindOf[n.rel] = n.kind
		switch n.kind {
		case "file":
			files = append(files, n.rel)
		case "dir":
			dirs = append(dirs, n.rel)
		default:
			specials = append(specials, n.rel)
		}
	}
	for _, n := range t.nodes {
		if n.kind == "symdir" {
			for _, m := range t.nodes {
				if strings.HasPrefix(m.rel, n.to+"/") && !strings.Contains(m.rel[len(n.to)+1:], "/") {
					through = append(through, n.rel+"/"+m.rel[len(n.to)+1:])
				}
			}
		}
	}
	anyPath := append(append([]string{}, files...), dirs...)
	if len(anyPath) == 0 {
		return c16pat{"a.txt", "lit-none"}
	}
	pat := c16pat{}
	k := r.Intn(100)
	switch {
	case k < 28 && len(files) > 0:
		pat = c16pat{c16pick(r, files), "lit-file"}
	case k < 44 && len(dirs) > 0:
		pat = c16pat{c16pick(r, dirs), "lit-dir"}
	case k < 52 && len(specials) > 0 && !p.benign:
		s := c16pick(r, specials)
		pat = c16pat{s, "lit-" + kindOf[s]}
	case k < 56 && len(through) > 0 && !p.benign && !c16avoiding("symlink-dir-traversal"):
		pat = c16pat{c16pick(r, through), "lit-through-symdir"}
	default:
		base := c16pick(r, anyPath)
		if len(specials) > 0 && r.Intn(6) == 0 && !p.benign {
			base = c16pick(r, specials)
		}
		els := strings.Split(base, "/")
		i := r.Intn(len(els))
		el := c16runes(els[i])
		switch g := r.Intn(9); g {
		case 0:
			els[len(els)-1] = "*"
			pat.kind = "glob-last-star"
		case 1:
			last := els[len(els)-1]
			if j := strings.LastIndexByte(last, '.'); j > 0 {
				els[len(els)-1] = "*" + last[j:]
			} else {
				lr := c16runes(last)
				els[len(els)-1] = string(lr[:1]) + "*"
			}
			pat.kind = "glob-affix-star"
		case 2:
			el[r.Intn(len(el))] = '?'
			els[i] = string(el)
			pat.kind = "glob-question"
		case 3:
			j := r.Intn(len(el))
			c := el[j]
			var cls string
			switch r.Intn(4) {
			case 0:
				cls = "[" + c16escClass(c) + "]"
			case 1:
				cls = "[^" + c16escClass(c+1) + "]"
			case 2:
				cls = "[" + c16escClass(c) + "-" + c16escClass(c+2) + "]"
			default:
				cls = "[a-zA-Z0-9._]"
			}
			els[i] = string(el[:j]) + cls + string(el[j+1:])
			pat.kind = "glob-class"
		case 4:
			els[i] = "*"
			pat.kind = "glob-elem-star"
		case 5:
			j := r.Intn(len(el))
			els[i] = string(el[:j]) + "\\" + string(el[j:])
			pat.kind = "glob-escape"
		case 6:
			for x := range els {
				els[x] = "*"
			}
			pat.kind = "glob-all-star"
		case 7:
			j := r.Intn(len(el) + 1)
			els[i] = string(el[:j]) + "*" + string(el[j:])
			pat.kind = "glob-infix-star"
		default:
			els[i] = string(el[:1]) + "*"
			pat.kind = "glob-prefix-star"
		}
		pat.text = strings.Join(els, "/")
	}
	// low-rate invalidating mutations of an otherwise good pattern
	mut := r.Intn(40)
	if p.benign {
		mut = 99
	}
	switch mut {
	case 0:
		pat.text, pat.kind = pat.text+"/", pat.kind+"+trailing-slash"
	case 1:
		pat.text, pat.kind = "./"+pat.text, pat.kind+"+dot-slash"
	case 2:
		pat.text, pat.kind = strings.ReplaceAll(pat.text, "/", "\\"), pat.kind+"+backslash"
	case 3:
		pat.text, pat.kind = filepath.ToSlash(p.dir)+"/"+pat.text, pat.kind+"+absolute"
	case 4:
		if j := strings.IndexByte(pat.text, '/'); j > 0 {
			pat.text, pat.kind = pat.text[:j]+"/../"+pat.text, pat.kind+"+dotdot"
		}
	}
	if r.Intn(4) == 0 {
		pat.text, pat.kind = "all:"+pat.text, "all:"+pat.kind
	}
	return pat
}

func c16escClass(c rune) string {
	switch c {
	case '\\', ']', '[', '-', '^':
		return "\\" + string(c)
	}
	if !utf8.ValidRune(c) {
		return "x"
	}
	return string(c)
}

func c16canBare(s string) bool {
	if s == "" || !utf8.ValidString(s) || s[0] == '"' || s[0] == '`' {
		return false
	}
	if len(s) >= 2 && s[0] == '\'' && c16avoiding("single-quoted-token") {
		if _, err := strconv.Unquote(s); err == nil {
			return false
		}
	}
	for _, c := range s {
		if unicode.IsSpace(c) || c < 0x20 || c == 0x7f || c == 0xfeff || c == utf8.RuneError {
			return false
		}
	}
	return true
}

func c16canBQ(s string) bool {
	if !utf8.ValidString(s) {
		return false
	}
	for _, c := range s {
		if c == '`' || c == '\n' || c == '\r' || c < 0x20 && c != '\t' || c == 0xfeff || c == utf8.RuneError {
			return false
		}
	}
	return true
}

// encode one pattern as a token of the directive line
func c16enc(r *rand.Rand, s string) (tok, kind string) {
	k := r.Intn(100)
	switch {
	case k < 60 && c16canBare(s):
		return s, "bare"
	case k < 80 && c16canBQ(s):
		return "`" + s + "`", "bq"
	case k < 90:
		return strconv.QuoteToASCII(s), "dq-ascii"
	}
	q := strconv.Quote(s)
	if !utf8.ValidString(q) || strings.ContainsRune(q, 0xfeff) {
		q = strconv.QuoteToASCII(s)
	}
	return q, "dq"
}

// build one Go file with nv embed variables
func (p *c16pkg) goFile(r *rand.Rand, fname string, firstVar, nv int) {
	var sb strings.Builder
	sb.WriteString("package p\n\n")
	switch r.Intn(4) {
	case 0:
		sb.WriteString("import (\n\t\"embed\"\n)\n\n")
	case 1:
		sb.WriteString("import _ \"embed\"\nimport \"embed\"\n\n")
	default:
		sb.WriteString("import \"embed\"\n\n")
	}
	for v := 0; v < nv; v++ {
		nlines := 1
		if r.Intn(5) == 0 {
			nlines = 2
		}
		if r.Intn(3) == 0 {
			sb.WriteString("// V is documented.\n")
		}
		for ln := 0; ln < nlines; ln++ {
			np := 1 + r.Intn(3)
			if r.Intn(8) == 0 {
				np = 4 + r.Intn(3)
			}
			var pats []c16pat
			for i := 0; i < np; i++ {
				var pt c16pat
				switch {
				case len(pats) > 0 && r.Intn(10) == 0:
					pt = pats[r.Intn(len(pats))]
					pt.kind = "dup"
				case p.benign || r.Intn(10) < 7:
					pt = p.derive(r)
				default:
					pt = c16pat{c16pick(r, c16hostile), "hostile"}
					pt.kind = "hostile:" + strconv.QuoteToASCII(pt.text)
				}
				pats = append(pats, pt)
			}
			var toks []string
			for _, pt := range pats {
				tok, ek := c16enc(r, pt.text)
				toks = append(toks, tok)
				p.kinds = append(p.kinds, pt.kind+"/"+ek)
				p.intended = append(p.intended, pt.text)
			}
			sep := " "
			switch r.Intn(12) {
			case 0:
				sep = "\t"
			case 1:
				sep = "  \t "
			}
			line := strings.Join(toks, sep)
			// hostile encodings of the whole line
			if !p.benign && r.Intn(12) == 0 {
				h := r.Intn(9)
				switch h {
				case 0:
					line += " \"unterminated"
				case 1:
					line += " `unterminated"
				case 2:
					if !c16avoiding("token-glued-to-quote") {
						line = "\"a.txt\"b.txt " + line
					}
				case 3:
					if !c16avoiding("unicode-space-separator") {
						line = "a.txt" + c16pick(r, []string{"\u00a0", "\u3000", "\v", "\f", "\u0085", "\u2003"}) + "b.txt " + line
					}
				case 4:
					line += " \"a\\qb\""
				case 5:
					line += " // trailing comment"
				case 6:
					line += "   \t"
				case 7:
					if !c16avoiding("token-glued-to-quote") {
						line += " `a.txt`\"b.txt\""
					}
				case 8:
					line += " \"a.txt\"\t`b.txt`"
				}
				p.kinds = append(p.kinds, fmt.Sprintf("line-hostile-%d", h))
			}
			sb.WriteString("//go:embed " + line + "\n")
			if r.Intn(10) == 0 {
				sb.WriteString("// an ordinary comment line inside the doc group\n")
			}
		}
		// always embed.FS: the package is also compiled by gc (second oracle, directive syntax), and string/[]byte
		// variables would add "must match one file" errors that LoadDirectives does not decide (E1 leg covers them)
		fmt.Fprintf(&sb, "var V%d embed.FS\n\n", firstVar+v)
	}
	sb.WriteString("var _ embed.FS\n")
	src := sb.String()
	if r.Intn(30) == 0 {
		src = strings.ReplaceAll(src, "\n", "\r\n")
		p.kinds = append(p.kinds, "crlf-source")
	}
	p.gofiles[fname] = src
}

func c16genPkg(r *rand.Rand, modDir string, idx int) *c16pkg {
	p := &c16pkg{idx: idx, name: fmt.Sprintf("p%04d", idx), gofiles: map[string]string{}, features: map[string]bool{}}
	p.dir = filepath.Join(modDir, p.name)
	os.MkdirAll(p.dir, 0o755)
	p.tree = &c16tree{rng: r, root: p.dir, have: map[string]bool{"m.go": true, "n.go": true}}
	mode := r.Intn(100)
	p.walk = mode < 25
	p.benign = mode < 65
	p.tree.tame = p.benign && r.Intn(5) != 0
	if p.walk {
		// walk mode: 2-3 plain top-level directories with a visible file each and a rich subtree; patterns name those
		// directories with and without all: - nearly always accepted, so the silent filters of the walk decide the file set
		nd := 2 + r.Intn(2)
		for len(p.walkDirs) < nd {
			d := c16pick(r, c16commonDirs)
			if p.tree.taken(d) || os.Mkdir(p.tree.abs(d), 0o755) != nil {
				continue
			}
			p.tree.add(d, "dir", "")
			p.walkDirs = append(p.walkDirs, d)
			if os.WriteFile(p.tree.abs(d+"/keep.txt"), c16content(r), 0o644) == nil {
				p.tree.add(d+"/keep.txt", "file", "")
			}
			p.tree.rich = true
			p.tree.gen(d, 1)
			p.tree.rich = false
		}
		if os.WriteFile(p.tree.abs("top.txt"), c16content(r), 0o644) == nil {
			p.tree.add("top.txt", "file", "")
		}
	} else {
		p.tree.gen("", 0)
	}
	for _, n := range p.tree.nodes {
		p.features[n.kind] = true
	}
	nv := 1
	if r.Intn(5) == 0 {
		nv = 2 + r.Intn(2)
	}
	p.vars = nv
	if nv > 1 && r.Intn(2) == 0 {
		p.goFile(r, "m.go", 0, 1)
		p.goFile(r, "n.go", 1, nv-1)
	} else {
		p.goFile(r, "m.go", 0, nv)
	}
	for fn, src := range p.gofiles {
		os.WriteFile(filepath.Join(p.dir, fn), []byte(src), 0o644)
	}
	return p
}

// ---------------------------------------------------------------- oracle: go list

type c16listed struct {
	Dir           string
	ImportPath    string
	EmbedPatterns []string
	EmbedFiles    []string
	Incomplete    bool
	Error         *struct{ Err string }
}

func c16goList(modDir string) (map[string]*c16listed, error) {
	cmd := exec.Command("go", "list", "-e", "-json=Dir,ImportPath,EmbedPatterns,EmbedFiles,Incomplete,Error", "./...")
	cmd.Dir = modDir
	var stderr bytes.Buffer
	cmd.Stderr = &stderr
	out, err := cmd.Output()
	if err != nil && len(out) == 0 {
		return nil, fmt.Errorf("go list: %v: %s", err, stderr.String())
	}
	res := map[string]*c16listed{}
	dec := json.NewDecoder(bytes.NewReader(out))
	for {
		var l c16listed
		if err := dec.Decode(&l); err == io.EOF {
			break
		} else if err != nil {
			return nil, fmt.Errorf("go list output: %v", err)
		}
		res[filepath.Base(l.Dir)] = &l
	}
	return res, nil
}

// c16goCompile compiles the packages go list accepted (go build; results discarded) and returns the
// compiler's complaints per package directory name.  go/build silently drops //go:embed lines it cannot
// parse ("the compiler will enforce"), so directive syntax is decided by gc, not by go list.
func c16goCompile(modDir, modName string, pkgs []string) (map[string]string, error) {
	res := map[string]string{}
	if len(pkgs) == 0 {
		return res, nil
	}
	args := []string{"build"}
	for _, p := range pkgs {
		args = append(args, "./"+p)
	}
	cmd := exec.Command("go", args...)
	cmd.Dir = modDir
	out, err := cmd.CombinedOutput()
	if err == nil {
		return res, nil
	}
	cur := ""
	for _, ln := range strings.Split(string(out), "\n") {
		if strings.HasPrefix(ln, "# ") {
			cur = path.Base(strings.Fields(ln)[1])
			continue
		}
		if cur == "" || strings.TrimSpace(ln) == "" {
			if strings.TrimSpace(ln) != "" {
				return nil, fmt.Errorf("go build: unattributed output %q in\n%s", ln, out)
			}
			continue
		}
		res[cur] += ln + "\n"
	}
	if len(res) == 0 {
		return nil, fmt.Errorf("go build failed without per-package errors: %v\n%s", err, out)
	}
	return res, nil
}

var c16goErrKinds = []string{"invalid pattern syntax", "no matching files found", "cannot embed irregular file", "in different module",
	"in non-directory", "invalid name", "in invalid directory", "contains no embeddable files", "invalid quoted string", "usage: //go:embed", "syntax error in pattern", "invalid input file name", "case-insensitive file name collision", "misplaced go:embed"}

func c16errKind(msg string) string {
	for _, k := range c16goErrKinds {
		if strings.Contains(msg, k) {
			return strings.ReplaceAll(k, " ", "-")
		}
	}
	return "other"
}

// ---------------------------------------------------------------- the side under test

type c16got struct {
	err      error
	perVar   map[string][]FileData
	patterns []string // ParsePatterns over every doc group that carries a directive
	patErr   error
}

func c16runLlgo(p *c16pkg) (g c16got) {
	fset := token.NewFileSet()
	var files []*ast.File
	var names []string
	for fn := range p.gofiles {
		names = append(names, fn)
	}
	sort.Strings(names)
	for _, fn := range names {
		f, err := parser.ParseFile(fset, filepath.Join(p.dir, fn), nil, parser.ParseComments)
		if err != nil {
			g.err = fmt.Errorf("go/parser: %v", err)
			g.patErr = g.err
			return
		}
		files = append(files, f)
	}
	for _, f := range files {
		for _, d := range f.Decls {
			gd, ok := d.(*ast.GenDecl)
			if !ok || gd.Tok != token.VAR {
				continue
			}
			docs := []*ast.CommentGroup{gd.Doc}
			for _, sp := range gd.Specs {
				if vs, ok := sp.(*ast.ValueSpec); ok {
					docs = append(docs, vs.Doc)
				}
			}
			ps, _, err := ParsePatterns(docs...)
			if err != nil && g.patErr == nil {
				g.patErr = err
			}
			g.patterns = append(g.patterns, ps...)
		}
	}
	vm, err := LoadDirectives(fset, files)
	g.err = err
	g.perVar = map[string][]FileData{}
	for k, v := range vm {
		g.perVar[k] = v.Files
	}
	return
}

// go list prints JSON: invalid UTF-8 arrives as U+FFFD, so both sides are compared in that form
func c16sameSet(a, b []string) bool {
	norm := func(l []string) []string {
		o := make([]string, len(l))
		for i, s := range l {
			o[i] = strings.ToValidUTF8(s, "\ufffd")
		}
		return c16uniq(o)
	}
	return reflect.DeepEqual(norm(a), norm(b))
}

// narrow class of a pattern-set divergence
func c16patClass(p *c16pkg, got, want []string) string {
	for _, src := range p.gofiles {
		for _, ln := range strings.Split(src, "\n") {
			if !strings.HasPrefix(ln, "//go:embed") {
				continue
			}
			for _, c := range strings.TrimRight(ln, "\r") {
				if unicode.IsSpace(c) && c != ' ' && c != '\t' {
					return "patterns:unicode-space-separator"
				}
			}
		}
	}
	ws := map[string]bool{}
	for _, w := range want {
		ws[w] = true
	}
	for _, g := range got {
		if !ws[g] && ws["'"+g+"'"] {
			return "patterns:single-quoted-token"
		}
	}
	return "patterns:set-differs"
}

func c16uniq(l []string) []string {
	s := append([]string{}, l...)
	sort.Strings(s)
	out := s[:0]
	for i, x := range s {
		if i == 0 || x != s[i-1] {
			out = append(out, x)
		}
	}
	return out
}

// ---------------------------------------------------------------- embed.FS laid over BuildFSEntries

type c16embedFile struct {
	name string
	data string
	hash [16]byte
}

func c16embedLayoutOK() error {
	ft := reflect.TypeOf(embed.FS{})
	if ft.NumField() != 1 || ft.Field(0).Type.Kind() != reflect.Ptr || ft.Field(0).Type.Elem().Kind() != reflect.Slice {
		return fmt.Errorf("embed.FS layout changed: %v", ft)
	}
	et := ft.Field(0).Type.Elem().Elem()
	mine := reflect.TypeOf(c16embedFile{})
	if et.NumField() != mine.NumField() || et.Size() != mine.Size() {
		return fmt.Errorf("embed.file layout changed: %v", et)
	}
	for i := 0; i < et.NumField(); i++ {
		if et.Field(i).Name != mine.Field(i).Name || et.Field(i).Type != mine.Field(i).Type {
			return fmt.Errorf("embed.file field %d changed: %v", i, et.Field(i))
		}
	}
	return nil
}

func c16mkFS(entries []FileData) embed.FS {
	files := make([]c16embedFile, len(entries))
	for i, e := range entries {
		files[i] = c16embedFile{name: e.Name, data: string(e.Data)}
	}
	var fsys embed.FS
	*(**[]c16embedFile)(unsafe.Pointer(&fsys)) = &files
	return fsys
}

func c16embedLess(a, b string) bool {
	sp := func(s string) (string, string) {
		s = strings.TrimSuffix(s, "/")
		if i := strings.LastIndexByte(s, '/'); i >= 0 {
			return s[:i], s[i+1:]
		}
		return ".", s
	}
	da, ea := sp(a)
	db, eb := sp(b)
	if da != db {
		return da < db
	}
	return ea < eb
}

// checks BuildFSEntries(files) against what embed.FS needs; returns "" or (class, detail)
func c16checkFS(files []FileData) (string, string) {
	entries := BuildFSEntries(files)
	want := map[string]bool{}
	for _, f := range files {
		want[f.Name] = true
		for d := path.Dir(f.Name); d != "." && d != "/"; d = path.Dir(d) {
			want[d+"/"] = true
		}
	}
	var wl []string
	for k := range want {
		wl = append(wl, k)
	}
	sort.Slice(wl, func(i, j int) bool { return c16embedLess(wl[i], wl[j]) })
	var gl []string
	for _, e := range entries {
		gl = append(gl, e.Name)
	}
	if !reflect.DeepEqual(gl, wl) {
		sg, sw := c16uniq(gl), c16uniq(wl)
		if reflect.DeepEqual(sg, sw) && len(gl) == len(wl) {
			return "fsentries:order", fmt.Sprintf("entries %q, embed needs order %q", gl, wl)
		}
		return "fsentries:closure", fmt.Sprintf("entries %q, embed needs %q", gl, wl)
	}
	byName := map[string][]byte{}
	for _, f := range files {
		byName[f.Name] = f.Data
	}
	for _, e := range entries {
		if strings.HasSuffix(e.Name, "/") {
			if len(e.Data) != 0 {
				return "fsentries:dir-data", fmt.Sprintf("directory entry %q carries %d bytes", e.Name, len(e.Data))
			}
		} else if !bytes.Equal(e.Data, byName[e.Name]) {
			return "fsentries:data", fmt.Sprintf("entry %q: data differs from the resolved file", e.Name)
		}
	}
	// functional: a real embed.FS over these entries
	fsys := c16mkFS(entries)
	var walked []string
	err := fs.WalkDir(fsys, ".", func(pth string, d fs.DirEntry, err error) error {
		if err != nil {
			return err
		}
		if !d.IsDir() {
			walked = append(walked, pth)
			b, err := fsys.ReadFile(pth)
			if err != nil {
				return err
			}
			if !bytes.Equal(b, byName[pth]) {
				return fmt.Errorf("ReadFile(%q) returns different bytes", pth)
			}
		}
		return nil
	})
	if err != nil {
		return "fsentries:embedfs-walk", err.Error()
	}
	var fl []string
	for _, f := range files {
		fl = append(fl, f.Name)
	}
	if !reflect.DeepEqual(c16uniq(walked), c16uniq(fl)) {
		return "fsentries:embedfs-walk", fmt.Sprintf("walk of embed.FS yields %q, files are %q", c16uniq(walked), c16uniq(fl))
	}
	if len(fl) > 0 {
		if err := fstest.TestFS(fsys, fl...); err != nil {
			return "fsentries:embedfs-testfs", err.Error()
		}
	}
	return "", ""
}

// ---------------------------------------------------------------- comparison of one package

type c16fail struct{ class, name, summary string }

type c16result struct {
	masked         string
	syntaxUnjudged bool
	fails   []c16fail
	sig     string
	outcome string
	invalid bool
	files   int
	bytes   int
	fsN     int
}

func c16dumpTree(p *c16pkg) string {
	var sb strings.Builder
	filepath.Walk(p.dir, func(pth string, info os.FileInfo, err error) error {
		if err != nil || pth == p.dir {
			return nil
		}
		rel, _ := filepath.Rel(p.dir, pth)
		extra := ""
		if info.Mode()&os.ModeSymlink != 0 {
			t, _ := os.Readlink(pth)
			extra = " -> " + t
		}
		fmt.Fprintf(&sb, "%s %q%s\n", info.Mode().String(), rel, extra)
		return nil
	})
	return sb.String()
}

// c16script writes a shell script that re-creates the tree (names via printf %b escapes)
func c16script(p *c16pkg) string {
	var sb strings.Builder
	sb.WriteString("#!/bin/bash\n# re-creates the failing package under ./case (module root = .)\nset -e\nmkdir -p case && cd case\nprintf 'module vmod\\n\\ngo 1.24\\n' > ../go.mod\n")
	q := func(s string) string {
		var o strings.Builder
		o.WriteString("$'")
		for i := 0; i < len(s); i++ {
			c := s[i]
			if c < 0x20 || c >= 0x7f || c == '\'' || c == '\\' {
				fmt.Fprintf(&o, "\\x%02x", c)
			} else {
				o.WriteByte(c)
			}
		}
		o.WriteString("'")
		return o.String()
	}
	for _, n := range p.tree.nodes {
		switch n.kind {
		case "dir", "gomoddir":
			fmt.Fprintf(&sb, "mkdir -p %s\n", q(n.rel))
		case "file", "gomod":
			b, _ := os.ReadFile(p.tree.abs(n.rel))
			if len(b) > 256 {
				fmt.Fprintf(&sb, "head -c %d /dev/zero > %s # original content was random bytes\n", len(b), q(n.rel))
			} else {
				fmt.Fprintf(&sb, "printf %%s %s > %s\n", q(string(b)), q(n.rel))
			}
		case "fifo":
			fmt.Fprintf(&sb, "mkfifo %s\n", q(n.rel))
		case "sock":
			fmt.Fprintf(&sb, "python3 -c 'import os,sys,stat; os.mknod(sys.argv[1], stat.S_IFSOCK|0o644)' %s\n", q(n.rel))
		default:
			t, _ := os.Readlink(p.tree.abs(n.rel))
			fmt.Fprintf(&sb, "ln -s %s %s\n", q(t), q(n.rel))
		}
	}
	for fn, src := range p.gofiles {
		fmt.Fprintf(&sb, "printf %%s %s > %s\n", q(src), fn)
	}
	sb.WriteString("go list -e -json=EmbedPatterns,EmbedFiles,Error .\n")
	return sb.String()
}

func c16compare(p *c16pkg, l *c16listed, compileErr string) (res c16result) {
	fail := func(class, summary string) {
		if p.layout != "" {
			class = "layout:" + p.layout + ":" + class
		}
		res.fails = append(res.fails, c16fail{class, p.name, summary})
	}
	g := c16runLlgo(p)
	goErr := ""
	if l.Error != nil {
		goErr = l.Error.Err
	} else if strings.Contains(compileErr, "invalid input file name") {
		// `go build` refuses embedded files whose name is not a "safe" command-line argument (leading '-', '~', '{' ...)
		// before gc runs: not an embed rule (go list resolves them), but the directive syntax stays unjudged by gc.
		res.syntaxUnjudged = true
		compileErr = ""
	} else if compileErr != "" {
		goErr = "gc: " + strings.TrimSpace(compileErr)
	}
	kinds := c16uniq(p.kinds)
	res.outcome = "accepted"
	if goErr != "" {
		k := c16errKind(goErr)
		res.outcome = "rejected:" + k
		if k == "other" {
			// not an embed verdict (generator produced something go list objects to for another reason)
			res.invalid = true
			res.outcome = "invalid:" + goErr
			return
		}
	}
	res.sig = strings.Join(kinds, ",") + "|" + res.outcome
	ctx := func() string {
		var srcs []string
		for fn, s := range p.gofiles {
			srcs = append(srcs, fn+":\n"+s)
		}
		sort.Strings(srcs)
		return fmt.Sprintf("go list: Error=%q EmbedPatterns=%q EmbedFiles=%q\nllgo: err=%v\n%s", goErr, l.EmbedPatterns, l.EmbedFiles, g.err, strings.Join(srcs, "\n"))
	}
	// (E) directive parsing: pattern set
	// (only when gc parsed every directive line: go/build drops the lines it cannot parse from EmbedPatterns)
	if l.Error != nil && os.Getenv("VERIF_C16_GOLIST_GUARD") == "1" {
		// llgo loads packages through `go list` with embed resolution on (x/tools/go/packages), so a package go list
		// rejects never reaches goembed: the build fails with go's own message.  checks/c16.py verifies that on every
		// run with compiled negative programs (E1 guard) before it sets this switch.  A goembed function that would have
		// accepted is recorded as advisory, not as a violation of the property.
		if g.err == nil {
			res.masked = "goembed-accepts-what-go-list-rejects:" + c16errKind(goErr)
		}
		return
	}
	// go/build DROPS directive lines it cannot parse, so EmbedPatterns is exact only when gc has compiled the package;
	// otherwise it is a lower bound (every pattern go lists must also be produced by ParsePatterns).
	exact := l.Error == nil && compileErr == "" && !res.syntaxUnjudged
	if res.syntaxUnjudged && g.patErr != nil {
		res.invalid = true
		res.outcome = "invalid:directive syntax unjudged (go stopped at an unsafe file name before gc ran) and ParsePatterns fails"
		return
	}
	switch {
	case g.patErr != nil && exact:
		fail("patterns:llgo-parse-error", fmt.Sprintf("ParsePatterns fails (%v) where gc accepted every directive: %q\n%s", g.patErr, l.EmbedPatterns, ctx()))
	case g.patErr == nil && exact && !c16sameSet(g.patterns, l.EmbedPatterns):
		fail(c16patClass(p, g.patterns, l.EmbedPatterns), fmt.Sprintf("ParsePatterns=%q, go list EmbedPatterns=%q\n%s", c16uniq(g.patterns), c16uniq(l.EmbedPatterns), ctx()))
	case g.patErr == nil && !exact && !c16sameSet(append(append([]string{}, g.patterns...), l.EmbedPatterns...), g.patterns):
		fail(c16patClass(p, g.patterns, l.EmbedPatterns), fmt.Sprintf("go list EmbedPatterns=%q contains patterns ParsePatterns=%q does not produce\n%s", c16uniq(l.EmbedPatterns), c16uniq(g.patterns), ctx()))
	}
	if len(res.fails) > 0 {
		return // the divergence is upstream of resolution; later differences are its consequences
	}
	// (A) acceptance
	switch {
	case goErr != "" && g.err == nil:
		k := c16errKind(goErr)
		if k == "invalid-quoted-string" {
			// gc prints the unparsed remainder; one that does not begin with a quote follows a CLOSED quoted token
			if i := strings.Index(goErr, "//go:embed: "); i >= 0 {
				if rest := goErr[i+len("//go:embed: "):]; rest != "" && rest[0] != '"' && rest[0] != '`' {
					k = "token-glued-to-quote"
				}
			}
		}
		fail("accept:go-rejects:"+k, "go rejects, llgo accepts\n"+ctx())
		return
	case goErr == "" && g.err != nil:
		fail("accept:llgo-rejects:"+c16errKind(g.err.Error()), "go accepts, llgo rejects\n"+ctx())
		return
	case goErr != "":
		return // rejected on both sides
	}
	// (B) names
	var union []string
	for _, fl := range g.perVar {
		for _, f := range fl {
			union = append(union, f.Name)
		}
	}
	union = c16uniq(union)
	want := c16uniq(l.EmbedFiles)
	if !c16sameSet(union, want) {
		var extra, missing []string
		ws, us := map[string]bool{}, map[string]bool{}
		for _, w := range want {
			ws[w] = true
		}
		for _, u := range union {
			us[u] = true
			if !ws[u] {
				extra = append(extra, u)
			}
		}
		for _, w := range want {
			if !us[w] {
				missing = append(missing, w)
			}
		}
		cls := "names:extra"
		if len(extra) == 0 {
			cls = "names:missing"
		} else if len(missing) > 0 {
			cls = "names:extra+missing"
		}
		fail(cls, fmt.Sprintf("llgo embeds %q; go embeds %q (extra %q, missing %q)\n%s", union, want, extra, missing, ctx()))
	}
	if len(g.perVar) != p.vars {
		fail("names:variable-count", fmt.Sprintf("%d variables carry a directive, LoadDirectives returned %d\n%s", p.vars, len(g.perVar), ctx()))
	}
	if p.vars == 1 {
		for _, fl := range g.perVar {
			var nl []string
			for _, f := range fl {
				nl = append(nl, f.Name)
			}
			if !reflect.DeepEqual(nl, l.EmbedFiles) && reflect.DeepEqual(c16uniq(nl), want) {
				fail("names:order-or-duplicates", fmt.Sprintf("llgo list %q vs go list %q\n%s", nl, l.EmbedFiles, ctx()))
			}
		}
	}
	// (C) bytes, (D) FS entries
	var vnames []string
	for v := range g.perVar {
		vnames = append(vnames, v)
	}
	sort.Strings(vnames)
	for _, v := range vnames {
		fl := g.perVar[v]
		for _, f := range fl {
			res.files++
			ap := filepath.Join(p.dir, filepath.FromSlash(f.Name))
			st, err := os.Lstat(ap)
			if err != nil || !st.Mode().IsRegular() {
				fail("bytes:not-a-regular-file", fmt.Sprintf("%s: embedded name %q is not a regular file on disk (%v)\n%s", v, f.Name, err, ctx()))
				continue
			}
			disk, err := os.ReadFile(ap)
			if err != nil || !bytes.Equal(disk, f.Data) {
				fail("bytes:differ", fmt.Sprintf("%s: %q: %d bytes embedded, %d on disk (%v)\n%s", v, f.Name, len(f.Data), len(disk), err, ctx()))
			}
			res.bytes += len(disk)
		}
		if cls, detail := c16checkFS(fl); cls != "" {
			fail(cls, fmt.Sprintf("%s: %s\n%s", v, detail, ctx()))
		}
		res.fsN++
	}
	return
}

// ---------------------------------------------------------------- driver

type c16modResult struct {
	compiled int
	results  []c16result
	pkgs    []string
	files   []map[string]string
	err     error
	sample  any
}

func c16runModule(seed int64, root string, m, npk int, gen func(r *rand.Rand, modDir string, idx int) *c16pkg) (mr c16modResult) {
	r := rand.New(rand.NewSource(seed*1000003 + int64(m)*7919 + 16))
	modDir := filepath.Join(root, fmt.Sprintf("m%04d", m))
	os.MkdirAll(modDir, 0o755)
	defer os.RemoveAll(modDir)
	os.WriteFile(filepath.Join(modDir, "go.mod"), []byte(fmt.Sprintf("module vmod%d\n\ngo 1.24\n", m)), 0o644)
	var pkgs []*c16pkg
	for i := 0; i < npk; i++ {
		pkgs = append(pkgs, gen(r, modDir, i))
	}
	listed, err := c16goList(modDir)
	if err != nil {
		mr.err = err
		return
	}
	var okPkgs []string
	for _, p := range pkgs {
		if l := listed[p.name]; l != nil && l.Error == nil {
			okPkgs = append(okPkgs, p.name)
		}
	}
	compileErrs, err := c16goCompile(modDir, fmt.Sprintf("vmod%d", m), okPkgs)
	if err != nil {
		mr.err = err
		return
	}
	mr.compiled = len(okPkgs)
	for _, p := range pkgs {
		l := listed[p.name]
		if l == nil {
			mr.results = append(mr.results, c16result{invalid: true, outcome: "invalid:not-listed"})
			mr.pkgs = append(mr.pkgs, p.name)
			mr.files = append(mr.files, nil)
			continue
		}
		done := make(chan c16result, 1)
		go func() { done <- c16compare(p, l, compileErrs[p.name]) }()
		var res c16result
		select {
		case res = <-done:
		case <-time.After(120 * time.Second):
			// watchdog, not an oracle: only a read of a FIFO can block here
			cls := "inconclusive:watchdog"
			if p.features["fifo"] {
				cls = "blocked:package-with-fifo"
			}
			res.fails = append(res.fails, c16fail{cls, p.name, "LoadDirectives did not return within 120 s (tree contains a FIFO: " + fmt.Sprint(p.features["fifo"]) + ")"})
		}
		var files map[string]string
		if len(res.fails) > 0 {
			files = map[string]string{"tree.txt": c16dumpTree(p), "recreate.sh": c16script(p), "intended-patterns.txt": fmt.Sprintf("%q\n", p.intended)}
			for fn, s := range p.gofiles {
				files["src/"+fn+".txt"] = s
			}
		}
		if mr.sample == nil && res.outcome == "accepted" && len(l.EmbedFiles) > 2 {
			mr.sample = map[string]any{"source": p.gofiles["m.go"], "tree": strings.Split(strings.TrimSpace(c16dumpTree(p)), "\n"), "go_list_EmbedFiles": l.EmbedFiles}
		}
		mr.results = append(mr.results, res)
		mr.pkgs = append(mr.pkgs, fmt.Sprintf("m%04d/%s", m, p.name))
		mr.files = append(mr.files, files)
	}
	return
}

// ---------------------------------------------------------------- fixed probes (run first on every run)

type c16probe struct {
	name   string
	nodes  []string // "f:rel" file, "d:rel" dir, "l:rel:text" symlink, "p:rel" fifo, "m:rel" nested go.mod
	decl   string   // the declaration(s) carrying the directive(s); variables are named V0, V1...
	vars   int
	layout string
}

var c16probes = []c16probe{
	// sanity: Go's hidden/underscore rule, all:, explicit naming of hidden files, nested module, duplicates
	{"hidden-rule-dir", []string{"d:sub", "f:sub/v.txt", "f:sub/.h", "f:sub/_u", "d:sub/.hd", "f:sub/.hd/x", "d:sub/_ud", "f:sub/_ud/y"}, "//go:embed sub\nvar V0 embed.FS", 1, ""},
	{"hidden-rule-all", []string{"d:sub", "f:sub/v.txt", "f:sub/.h", "f:sub/_u", "d:sub/.hd", "f:sub/.hd/x", "d:sub/_ud", "f:sub/_ud/y", "d:sub/.git", "f:sub/.git/c"}, "//go:embed all:sub\nvar V0 embed.FS", 1, ""},
	{"hidden-explicit", []string{"f:.hidden", "f:_under", "d:sub", "f:sub/.h", "d:_d", "f:_d/z"}, "//go:embed .hidden _under sub/.h _d\nvar V0 embed.FS", 1, ""},
	{"hidden-glob", []string{"f:.hidden", "f:_under", "f:v.txt"}, "//go:embed *\nvar V0 embed.FS", 1, ""},
	{"nested-module-skipped", []string{"d:sub", "f:sub/v.txt", "d:sub/mod", "m:sub/mod/go.mod", "f:sub/mod/w.txt"}, "//go:embed sub\nvar V0 embed.FS", 1, ""},
	{"nested-module-named", []string{"d:sub", "f:sub/v.txt", "d:sub/mod", "m:sub/mod/go.mod", "f:sub/mod/w.txt"}, "//go:embed sub/mod/w.txt\nvar V0 embed.FS", 1, ""},
	{"dup-overlap", []string{"d:sub", "f:sub/v.txt", "f:a.txt"}, "//go:embed a.txt sub a.txt sub/v.txt `a.txt` \"sub/*\"\nvar V0 embed.FS", 1, ""},
	{"two-vars", []string{"d:sub", "f:sub/v.txt", "f:a.txt", "f:b.txt"}, "//go:embed a.txt\nvar V0 embed.FS\n\n//go:embed sub b.txt\n//go:embed a.txt\nvar V1 embed.FS", 2, ""},
	{"grouped-inner", []string{"f:a.txt", "f:b.txt"}, "var (\n\t//go:embed a.txt\n\tV0 embed.FS\n\t//go:embed b.txt\n\tV1 embed.FS\n)", 2, ""},
	{"fifo-in-dir", []string{"d:sub", "f:sub/v.txt", "p:sub/pipe"}, "//go:embed sub\nvar V0 embed.FS", 1, ""},
	{"symlink-file", []string{"f:a.txt", "l:lnk:a.txt"}, "//go:embed lnk\nvar V0 embed.FS", 1, ""},
	// constructs covered by findings
	{"symlink-dir-literal", []string{"d:real", "f:real/a.txt", "l:ldir:real"}, "//go:embed ldir/a.txt\nvar V0 embed.FS", 1, ""},
	{"symlink-dir-glob", []string{"d:real", "f:real/a.txt", "l:ldir:real"}, "//go:embed */a.txt\nvar V0 embed.FS", 1, ""},
	{"unicode-space-nbsp", []string{"f:a.txt", "f:b.txt"}, "//go:embed a.txt\u00a0b.txt\nvar V0 embed.FS", 1, ""},
	{"unicode-space-vt", []string{"f:a.txt", "f:b.txt"}, "//go:embed a.txt\vb.txt\nvar V0 embed.FS", 1, ""},
	{"glued-dq", []string{"f:a.txt", "f:b.txt"}, "//go:embed \"a.txt\"b.txt\nvar V0 embed.FS", 1, ""},
	{"glued-bq", []string{"f:a.txt", "f:b.txt"}, "//go:embed `a.txt`b.txt\nvar V0 embed.FS", 1, ""},
	{"single-quoted", []string{"f:a", "f:b.txt"}, "//go:embed 'a'\nvar V0 embed.FS", 1, ""},
	{"unsafe-name-dash", []string{"f:-dash", "f:b.txt"}, "//go:embed -dash\nvar V0 embed.FS", 1, ""},
	{"unsafe-name-glob", []string{"f:{b}.txt", "f:b.txt"}, "//go:embed *.txt\nvar V0 embed.FS", 1, ""},
	{"case-collision", []string{"f:A", "f:a"}, "//go:embed A a\nvar V0 embed.FS", 1, ""},
	// directive placement (gc decides; LoadDirectives works from go/ast Doc groups)
	{"detached-directive", []string{"f:a.txt"}, "//go:embed a.txt\n\nvar V0 embed.FS", 1, "detached-directive"},
}

func c16genProbe(r *rand.Rand, modDir string, idx int) *c16pkg {
	pr := c16probes[idx]
	p := &c16pkg{idx: idx, name: fmt.Sprintf("p%04d", idx), gofiles: map[string]string{}, features: map[string]bool{}, vars: pr.vars, layout: pr.layout}
	p.dir = filepath.Join(modDir, p.name)
	os.MkdirAll(p.dir, 0o755)
	p.tree = &c16tree{rng: r, root: p.dir, have: map[string]bool{"m.go": true}}
	for _, n := range pr.nodes {
		f := strings.SplitN(n, ":", 3)
		rel := f[1]
		switch f[0] {
		case "f":
			os.WriteFile(p.tree.abs(rel), []byte("content of "+rel+"\n"), 0o644)
			p.tree.add(rel, "file", "")
		case "d":
			os.Mkdir(p.tree.abs(rel), 0o755)
			p.tree.add(rel, "dir", "")
		case "l":
			os.Symlink(f[2], p.tree.abs(rel))
			p.tree.add(rel, "symlink", f[2])
		case "p":
			syscall.Mkfifo(p.tree.abs(rel), 0o644)
			p.tree.add(rel, "fifo", "")
		case "m":
			os.WriteFile(p.tree.abs(rel), []byte("module nested\n"), 0o644)
			p.tree.add(rel, "gomod", "")
		}
	}
	p.kinds = []string{"probe:" + pr.name}
	p.gofiles["m.go"] = "package p\n\nimport \"embed\"\n\n" + pr.decl + "\n\nvar _ embed.FS\n"
	os.WriteFile(filepath.Join(p.dir, "m.go"), []byte(p.gofiles["m.go"]), 0o644)
	return p
}

func TestVerifC16Probes(t *testing.T) {
	rep := vNewReport("fixed probes: Go's hidden/underscore/all:/nested-module/duplicate rules on hand-written trees, plus the reproducer of every finding, through the same go list + gc vs goembed comparison")
	defer rep.Write()
	if err := c16embedLayoutOK(); err != nil {
		t.Fatal(err)
	}
	root, err := os.MkdirTemp(os.Getenv("VERIF_WORK"), "c16p")
	if err != nil {
		t.Fatal(err)
	}
	defer os.RemoveAll(root)
	mr := c16runModule(0, root, 0, len(c16probes), c16genProbe)
	if mr.err != nil {
		t.Fatal(mr.err)
	}
	out := map[string]string{}
	masked := map[string]string{}
	for i, res := range mr.results {
		if res.invalid {
			t.Fatalf("probe %s is invalid: %s", c16probes[i].name, res.outcome)
		}
		rep.Eval(1)
		rep.Sig(res.sig)
		out[c16probes[i].name] = res.outcome
		for _, f := range res.fails {
			rep.Fail(f.class, c16probes[i].name, f.summary, mr.files[i])
		}
		if res.masked != "" {
			masked[c16probes[i].name] = res.masked
		}
	}
	rep.Extra["advisory_masked_by_go_list"] = masked
	rep.Extra["probe_outcomes"] = out
}

func TestVerifC16Trees(t *testing.T) {
	rep := vNewReport("random package trees (depth<=4; hidden/underscore/unicode/space/invalid names, VCS dirs, empty dirs, symlinks, nested go.mod, FIFOs, sockets) x //go:embed pattern lists (70% derived from the tree, 30% hostile; bare, quoted, back-quoted; duplicates; 1-3 variables) - go list -e -json (go1.24.0) EmbedPatterns/EmbedFiles/Error per package vs the real ParsePatterns, LoadDirectives+ResolvePatterns and BuildFSEntries: acceptance agrees, names equal, bytes == disk, FS entries == directory closure in embed order and a real embed.FS over them walks/reads/passes fstest.TestFS. distinct = distinct (pattern kinds x encodings, outcome) signatures")
	defer rep.Write()
	if err := c16embedLayoutOK(); err != nil {
		t.Fatal(err)
	}
	root, err := os.MkdirTemp(os.Getenv("VERIF_WORK"), "c16t")
	if err != nil {
		t.Fatal(err)
	}
	defer os.RemoveAll(root)
	total := vN(600, 20000)
	if s := os.Getenv("VERIF_C16_TREES"); s != "" {
		total, _ = strconv.Atoi(s)
	}
	const per = 200
	nmod := (total + per - 1) / per
	results := make([]c16modResult, nmod)
	workers := 8
	if s := os.Getenv("VERIF_C16_WORKERS"); s != "" {
		workers, _ = strconv.Atoi(s)
	}
	var wg sync.WaitGroup
	sem := make(chan struct{}, workers)
	for m := 0; m < nmod; m++ {
		wg.Add(1)
		sem <- struct{}{}
		go func(m int) {
			defer wg.Done()
			defer func() { <-sem }()
			n := per
			if m == nmod-1 {
				n = total - per*(nmod-1)
			}
			results[m] = c16runModule(vSeed(), root, m, n, c16genPkg)
		}(m)
	}
	wg.Wait()
	outcomes := map[string]int{}
	masked := map[string]int{}
	invalid, files, nbytes, fsN, evals := 0, 0, 0, 0, 0
	for m, mr := range results {
		if mr.err != nil {
			t.Fatalf("module %d: %v", m, mr.err)
		}
		for i, res := range mr.results {
			if res.invalid {
				invalid++
				if invalid <= 5 {
					t.Logf("invalid generated package %s: %s", mr.pkgs[i], res.outcome)
				}
				continue
			}
			evals++
			outcomes[res.outcome]++
			if res.sig != "" {
				rep.Sig(res.sig)
			}
			files += res.files
			nbytes += res.bytes
			fsN += res.fsN
			for _, f := range res.fails {
				rep.Fail(f.class, mr.pkgs[i], f.summary, mr.files[i])
			}
			if res.masked != "" {
				masked[res.masked]++
			}
		}
		if mr.sample != nil {
			rep.Sample(mr.sample)
		}
	}
	rep.Eval(evals)
	rep.Extra["go_list_calls"] = nmod
	compiled := 0
	for _, mr := range results {
		compiled += mr.compiled
	}
	rep.Extra["packages_compiled_by_gc"] = compiled
	rep.Extra["outcomes"] = outcomes
	rep.Extra["advisory_masked_by_go_list"] = masked
	rep.Extra["invalid_generated"] = invalid
	rep.Extra["embedded_files_compared"] = files
	rep.Extra["embedded_bytes_compared"] = nbytes
	rep.Extra["embed_fs_built"] = fsN
	rep.Extra["avoided_constructs"] = os.Getenv("VERIF_C16_AVOID")
	if invalid*50 > total {
		t.Fatalf("%d of %d generated packages were invalid for reasons unrelated to embed (>2%%)", invalid, total)
	}
}

//go:build verif

// C17 monitor for internal/env (ExpandEnvWithDefault, ExpandEnvSlice, ExpandEnvSliceWithDefault),
// compiled into the package by `go test -overlay` (E2).
//
// Law ("expansion substitutes exactly the referenced values"): the result is the template with
// every reference replaced by its value in ONE left-to-right pass:
//
//	{}     -> the default value ("" when none is given)
//	{key}  -> envs[key] when key is a non-empty key of envs
//	anything else (incl. {unknown}, lone braces) is copied
//
// Values are data: text that only comes into being through a substitution is not expanded again,
// and the result does not depend on map iteration order.  Each input is evaluated 8 times.
//
// The pinned tree substitutes by successive strings.ReplaceAll calls ({} first, then the keys in
// map order), so the output of one substitution is scanned again by the next one (utils.go:30-43).
// A case is *rescan-sensitive* when some key order of that algorithm gives a result different from
// the single pass; the probes below are fixed rescan-sensitive cases.  While they fail, rescan-
// sensitive inputs are still generated and counted but not asserted (probe + avoid).
package env

import (
	"encoding/json"
	"fmt"
	"math/rand"
	"reflect"
	"runtime/debug"
	"sort"
	"strings"
	"sync"
	"testing"
)

var c17ieKeys = []string{"root", "port", "hex", "bin", "a", "ab", "tmpDir", "x.y", "é"}
var c17ieAlpha = []string{" ", "\t", "\"", "'", "\\", "-", "$", "(", ")", "{", "{", "}", "}", "a", "b", "=", "/", "é", "世",
	"{}", "{}", "{a}", "{root}", "{hex}", "{nokey}", "$HOME", "${a}"}

func c17ieStr(r *rand.Rand, max int) string {
	n := r.Intn(max + 1)
	var sb strings.Builder
	for i := 0; i < n; i++ {
		sb.WriteString(c17ieAlpha[r.Intn(len(c17ieAlpha))])
	}
	return sb.String()
}

// plain: no braces at all
func c17iePlain(r *rand.Rand, max int) string {
	s := c17ieStr(r, max)
	s = strings.ReplaceAll(s, "{", "")
	return strings.ReplaceAll(s, "}", "")
}

// single-pass reference
func c17ieRef(tpl string, envs map[string]string, def string) string {
	var sb strings.Builder
	for i := 0; i < len(tpl); {
		if tpl[i] == '{' {
			if strings.HasPrefix(tpl[i:], "{}") {
				sb.WriteString(def)
				i += 2
				continue
			}
			if j := strings.IndexByte(tpl[i:], '}'); j > 0 {
				key := tpl[i+1 : i+j]
				if v, ok := envs[key]; ok && key != "" {
					sb.WriteString(v)
					i += j + 1
					continue
				}
			}
		}
		sb.WriteByte(tpl[i])
		i++
	}
	return sb.String()
}

// the successive-ReplaceAll algorithm for one explicit key order (classification only)
func c17ieSeq(tpl string, envs map[string]string, def string, order []string) string {
	res := strings.ReplaceAll(tpl, "{}", def)
	for _, k := range order {
		if k != "" {
			res = strings.ReplaceAll(res, "{"+k+"}", envs[k])
		}
	}
	return res
}

func c17iePerms(keys []string, f func([]string) bool) bool {
	var rec func(int) bool
	rec = func(i int) bool {
		if i == len(keys) {
			return f(keys)
		}
		for j := i; j < len(keys); j++ {
			keys[i], keys[j] = keys[j], keys[i]
			stop := rec(i + 1)
			keys[i], keys[j] = keys[j], keys[i]
			if stop {
				return true
			}
		}
		return false
	}
	return rec(0)
}

func c17ieRescanSensitive(tpl string, envs map[string]string, def string, ref string) bool {
	var keys []string
	for k := range envs {
		keys = append(keys, k)
	}
	sort.Strings(keys)
	return c17iePerms(keys, func(o []string) bool { return c17ieSeq(tpl, envs, def, o) != ref })
}

func c17ieCase(v map[string]any) map[string]string {
	b, _ := json.MarshalIndent(v, "", " ")
	return map[string]string{"case.json": string(b),
		"HOWTO.txt": "env.ExpandEnvWithDefault(template, envs, default...) from a test in /repo/internal/env (call it several times: the result may depend on map order). Or re-run the check with the same VERIF_SEED and tier.\n"}
}

func c17ieCall(tpl string, envs map[string]string, hasDef bool, def string) (res string, panicked any) {
	defer func() {
		if p := recover(); p != nil {
			panicked = p
		}
	}()
	if hasDef {
		return ExpandEnvWithDefault(tpl, envs, def), nil
	}
	return ExpandEnvWithDefault(tpl, envs), nil
}

func TestVerifC17IEnv(t *testing.T) {
	rep := vNewReport("internal/env.ExpandEnvWithDefault/ExpandEnvSlice[WithDefault]: templates of 0-8 symbols over {blank, quotes, \\, -, $, (, ), lone { and }, ASCII, multi-byte runes, {}, {a}, {root}, {hex}, {nokey}, $HOME, ${a}} plus explicit {key} references; envs = 0-4 keys from {root,port,hex,bin,a,ab,tmpDir,x.y,é} and sometimes the empty key, values of 0-4 symbols over the same alphabet (i.e. values that themselves contain {}, {key} and brace fragments); default absent, empty or 0-3 symbols. Reference: one left-to-right pass ({} -> default, {key} -> envs[key], everything else copied). Each input evaluated 8x (fresh map every second time): all 8 results equal the reference. Inputs on which successive ReplaceAll in some key order differs from the single pass are 'rescan-sensitive': asserted only when the fixed probes of that class pass")
	defer rep.Write()
	defer func() { // a panic of the code under test outside a guarded call is an observation, not a broken check
		if p := recover(); p != nil {
			rep.Fail("ienv:panic", "monitor", fmt.Sprintf("panic escaped the monitor: %v\n%s", p, debug.Stack()), nil)
		}
	}()

	// ---- fixed cases that hold on every tree
	fixed := []struct {
		tpl  string
		envs map[string]string
		def  []string
		want string
	}{
		{"simavr {}", map[string]string{"hex": "f.hex"}, []string{"custom.elf"}, "simavr custom.elf"},
		{"-I{root}/include -DPORT={port} {nokey} { } }{", map[string]string{"root": "/r", "port": "/dev/tty"}, nil, "-I/r/include -DPORT=/dev/tty {nokey} { } }{"},
		{"{a}{}{a}", map[string]string{"a": "{}"}, []string{"D"}, "{}D{}"}, // a value that looks like the default reference is data
		{"{}", map[string]string{"": "never"}, nil, ""},                    // the empty key is not a variable
		{"", map[string]string{"a": "b"}, []string{"d"}, ""},
	}
	for i, f := range fixed {
		got := ExpandEnvWithDefault(f.tpl, f.envs, f.def...)
		rep.Eval(1)
		if got != f.want {
			rep.Fail("ienv:expansion", fmt.Sprintf("fixed%d", i), fmt.Sprintf("ExpandEnvWithDefault(%q, %v, %q) = %q, want %q", f.tpl, f.envs, f.def, got, f.want),
				c17ieCase(map[string]any{"template": f.tpl, "envs": f.envs, "default": f.def, "got": got, "want": f.want}))
		}
	}

	// ---- probes of the recorded class: text produced by a substitution is expanded again
	rescanOK := true
	probes := []struct {
		class, tpl string
		envs       map[string]string
		def        []string
		want       string
	}{
		{"ienv:expansion-rescanned", "flash {}", map[string]string{"port": "/dev/ttyUSB0"}, []string{"out{port}.hex"}, "flash out{port}.hex"},
		{"ienv:expansion-rescanned", "{{}a}", map[string]string{"a": "VALUE"}, nil, "{a}"},
		{"ienv:map-order-dependent", "{a} {b} {c} {d}", map[string]string{"a": "{b}", "b": "{c}", "c": "{d}", "d": "{a}"}, nil, "{b} {c} {d} {a}"},
	}
	for i, p := range probes {
		seen := map[string]bool{}
		bad := false
		for k := 0; k < 64; k++ {
			m := map[string]string{}
			for kk, vv := range p.envs {
				m[kk] = vv
			}
			g := ExpandEnvWithDefault(p.tpl, m, p.def...)
			seen[g] = true
			if g != p.want {
				bad = true
			}
		}
		rep.Eval(64)
		if bad {
			rescanOK = false
			var outs []string
			for g := range seen {
				outs = append(outs, g)
			}
			sort.Strings(outs)
			rep.Fail(p.class, fmt.Sprintf("probe%d", i), fmt.Sprintf("ExpandEnvWithDefault(%q, %v, %q): %d distinct results in 64 calls %q; single-pass substitution gives %q", p.tpl, p.envs, p.def, len(outs), outs, p.want),
				c17ieCase(map[string]any{"template": p.tpl, "envs": p.envs, "default": p.def, "results_seen": outs, "want": p.want}))
		}
	}
	if rescanOK {
		rep.Extra["avoided_constructs"] = []string{}
	} else {
		rep.Extra["avoided_constructs"] = []string{"rescan-sensitive inputs (a value/default, alone or together with neighbouring template text, forms a new {key} or {} reference): generated and counted (skipped_rescan_sensitive) but not asserted while the probes fail"}
	}

	total := vN(40000, 3000000)
	var wg sync.WaitGroup
	for s := 0; s < 8; s++ {
		wg.Add(1)
		go func(s, n int) {
			defer wg.Done()
			r := rand.New(rand.NewSource(vSeed()*1000003 + int64(s)*7919 + 174))
			for i := 0; i < n; i++ {
				// envs
				envs := map[string]string{}
				nk := r.Intn(5)
				for len(envs) < nk {
					k := c17ieKeys[r.Intn(len(c17ieKeys))]
					if r.Intn(3) == 0 {
						envs[k] = c17iePlain(r, 4)
					} else {
						envs[k] = c17ieStr(r, 4)
					}
				}
				if r.Intn(8) == 0 {
					envs[""] = c17ieStr(r, 2)
				}
				var keys []string
				for k := range envs {
					keys = append(keys, k)
				}
				sort.Strings(keys)
				// template
				var sb strings.Builder
				nt := r.Intn(9)
				for j := 0; j < nt; j++ {
					switch r.Intn(4) {
					case 0:
						if len(keys) > 0 {
							sb.WriteString("{" + keys[r.Intn(len(keys))] + "}")
						}
					case 1:
						sb.WriteString("{}")
					default:
						sb.WriteString(c17ieAlpha[r.Intn(len(c17ieAlpha))])
					}
				}
				tpl := sb.String()
				hasDef := r.Intn(3) != 0
				def := ""
				if hasDef && r.Intn(4) != 0 {
					if r.Intn(2) == 0 {
						def = c17iePlain(r, 3)
					} else {
						def = c17ieStr(r, 3)
					}
				}
				ref := c17ieRef(tpl, envs, def)
				sens := c17ieRescanSensitive(tpl, envs, def, ref)
				// signature: template with literals collapsed + which values carry braces
				sigT := tpl
				for _, k := range keys {
					if k != "" {
						sigT = strings.ReplaceAll(sigT, "{"+k+"}", "<K>")
					}
				}
				vb := 0
				for _, k := range keys {
					if strings.ContainsAny(envs[k], "{}") {
						vb++
					}
				}
				rep.Sig(fmt.Sprintf("%s|%d|%d|%v|%v", sigT, len(keys), vb, hasDef, strings.ContainsAny(def, "{}")))
				if i == 11 {
					rep.Sample(map[string]any{"template": tpl, "envs": envs, "default": def, "has_default": hasDef, "reference": ref, "rescan_sensitive": sens})
				}
				if sens {
					rep.Count("rescan_sensitive_inputs", 1)
					if !rescanOK {
						rep.Count("skipped_rescan_sensitive", 1)
						continue
					}
				}
				results := map[string]bool{}
				var first string
				for k := 0; k < 8; k++ {
					m := envs
					if k%2 == 1 {
						m = map[string]string{}
						for kk, vv := range envs {
							m[kk] = vv
						}
					}
					g, pn := c17ieCall(tpl, m, hasDef, def)
					if pn != nil {
						rep.Fail("ienv:panic", "expand", fmt.Sprintf("ExpandEnvWithDefault(%q, %v, %q) panicked: %v", tpl, envs, def, pn), c17ieCase(map[string]any{"template": tpl, "envs": envs, "default": def}))
						break
					}
					if k == 0 {
						first = g
					}
					results[g] = true
				}
				rep.Eval(8)
				if len(results) > 1 {
					var outs []string
					for g := range results {
						outs = append(outs, g)
					}
					sort.Strings(outs)
					rep.Fail("ienv:map-order-dependent", "expand", fmt.Sprintf("ExpandEnvWithDefault(%q, %v, default=%q) gave %d different results in 8 calls: %q (single pass: %q)", tpl, envs, def, len(outs), outs, ref),
						c17ieCase(map[string]any{"template": tpl, "envs": envs, "default": def, "has_default": hasDef, "results_seen": outs, "want": ref}))
					continue
				}
				if first != ref {
					cls := "ienv:expansion"
					if sens {
						cls = "ienv:expansion-rescanned"
					}
					rep.Fail(cls, "expand", fmt.Sprintf("ExpandEnvWithDefault(%q, %v, default=%q) = %q, single-pass substitution gives %q", tpl, envs, def, first, ref),
						c17ieCase(map[string]any{"template": tpl, "envs": envs, "default": def, "has_default": hasDef, "got": first, "want": ref}))
					continue
				}
				// slice helpers: element-wise, order and length preserved
				if i%16 == 0 {
					tpls := []string{tpl, "", "lit", tpl + "{}"}
					var got []string
					if hasDef {
						got = ExpandEnvSliceWithDefault(tpls, envs, def)
					} else {
						got = ExpandEnvSlice(tpls, envs)
					}
					var want []string
					skip := false
					for _, tp := range tpls {
						w := c17ieRef(tp, envs, def)
						if !rescanOK && c17ieRescanSensitive(tp, envs, def, w) {
							skip = true
						}
						want = append(want, w)
					}
					rep.Eval(1)
					if !skip && !reflect.DeepEqual(got, want) {
						rep.Fail("ienv:slice", "slice", fmt.Sprintf("ExpandEnvSlice(%q, %v, default=%q) = %q, want %q", tpls, envs, def, got, want),
							c17ieCase(map[string]any{"templates": tpls, "envs": envs, "default": def, "got": got, "want": want}))
					}
				}
			}
		}(s, total/8/8) // every input is evaluated 8 times
	}
	wg.Wait()
}

//go:build verif

// C17 monitor for internal/clang flag merging, compiled into the package by `go test -overlay` (E2).
//
// Documentation of the code: "mergeCompilerFlags merges environment CCFLAGS/CFLAGS with config
// flags", "mergeLinkerFlags merges environment CCFLAGS/LDFLAGS with config flags", Compile/Link
// "execute ... with merged flags" followed by the call's own arguments.  Laws (order and
// multiplicity, nothing lost, nothing invented, nothing re-split):
//
//	compile argv = split(env CCFLAGS) ++ split(env CFLAGS) ++ cfg.CCFLAGS ++ cfg.CFLAGS ++ args
//	link    argv = split(env CCFLAGS) ++ split(env LDFLAGS) ++ cfg.LDFLAGS ++ args
//
// where the environment strings are flag lists quoted in the documented pkg-config way (domain of
// the safesplit monitor; constructs whose safesplit probe fails are not generated) and config
// flags / call arguments are arbitrary strings that must arrive verbatim, duplicates included.
// The argv is observed at the process boundary: the command is a generated sh script that writes
// its arguments, US-separated, to a file.
package clang

import (
	"encoding/json"
	"fmt"
	"math/rand"
	"os"
	"path/filepath"
	"reflect"
	"runtime/debug"
	"strings"
	"testing"
	"unicode"
	"unicode/utf8"

	"github.com/goplus/llgo/xtool/safesplit"
)

var c17clAlpha = []string{" ", "\t", "\"", "'", "\\", "-", "$", "(", ")", "{", "}", "a", "b", "=", "/", ",", "\u00e9", "\u4e16", "\u00a0"}

func c17clStr(r *rand.Rand, max int) string {
	n := r.Intn(max + 1)
	var sb strings.Builder
	for i := 0; i < n; i++ {
		sb.WriteString(c17clAlpha[r.Intn(len(c17clAlpha))])
	}
	return sb.String()
}

func c17clEndsSpace(c string) bool {
	if c == "" {
		return false
	}
	r, _ := utf8.DecodeLastRuneInString(c)
	return unicode.IsSpace(r)
}

// a flag list inside the documented safesplit domain and its quoted form
func c17clEnvList(r *rand.Rand, avoidTrail, avoidDash bool) ([]string, string) {
	n := r.Intn(4)
	var args, parts []string
	for j := 0; j < n; j++ {
		var c string
		for {
			c = c17clStr(r, 5)
			if strings.HasPrefix(c, " ") || strings.HasPrefix(c, "\t") || strings.HasSuffix(c, `\`) ||
				(avoidTrail && c17clEndsSpace(c)) || (avoidDash && strings.HasPrefix(c, "-")) {
				continue
			}
			break
		}
		if len(args) > 0 && r.Intn(5) == 0 {
			// duplicate an earlier flag: multiplicity must be preserved
			k := r.Intn(len(args))
			args = append(args, args[k])
			parts = append(parts, parts[k])
			continue
		}
		fl := "-" + string("ILlDWfO"[r.Intn(7)])
		args = append(args, fl+c)
		c = strings.ReplaceAll(c, " ", `\ `)
		c = strings.ReplaceAll(c, "\t", "\\\t")
		parts = append(parts, fl+c)
	}
	sep := []string{" ", "  ", "\t", " \t"}[r.Intn(4)]
	return args, strings.Join(parts, sep)
}

func c17clCfgList(r *rand.Rand) []string {
	n := r.Intn(4)
	var l []string
	for j := 0; j < n; j++ {
		switch r.Intn(4) {
		case 0:
			l = append(l, c17clStr(r, 5)) // arbitrary, may be empty or contain blanks
		case 1:
			if len(l) > 0 {
				l = append(l, l[r.Intn(len(l))])
				continue
			}
			fallthrough
		default:
			l = append(l, "-"+string("ILlDWfO"[r.Intn(7)])+c17clStr(r, 4))
		}
	}
	return l
}

func c17clCase(v map[string]any) map[string]string {
	b, _ := json.MarshalIndent(v, "", " ")
	return map[string]string{"case.json": string(b),
		"HOWTO.txt": "Set CCFLAGS/CFLAGS/LDFLAGS as in case.json, build clang.Config from \"config\", call mergeCompilerFlags/mergeLinkerFlags (or Compile/Link with a recording command). Or re-run the check with the same VERIF_SEED and tier.\n"}
}

func c17clCat(ls ...[]string) []string {
	out := []string{}
	for _, l := range ls {
		out = append(out, l...)
	}
	return out
}

func c17clEq(a, b []string) bool {
	if len(a) == 0 && len(b) == 0 {
		return true
	}
	return reflect.DeepEqual(a, b)
}

func TestVerifC17Clang(t *testing.T) {
	rep := vNewReport("internal/clang mergeCompilerFlags/mergeLinkerFlags/Compile/Link: env CCFLAGS, CFLAGS, LDFLAGS = 0-3 flags each (\"-\"+flag char+0-5 symbols over {blank, NBSP, quotes, \\, -, $, (, ), {, }, =, /, comma, ASCII, multi-byte}, quoted the documented pkg-config way, duplicates on purpose; sometimes unset/empty); config CCFLAGS/CFLAGS/LDFLAGS and call arguments = 0-3 arbitrary strings each (blanks, empty strings, duplicates). Laws: compile argv = env CCFLAGS ++ env CFLAGS ++ cfg.CCFLAGS ++ cfg.CFLAGS ++ args; link argv = env CCFLAGS ++ env LDFLAGS ++ cfg.LDFLAGS ++ args; config not mutated; same answer twice. Compile/Link observed at the process boundary on a sub-sample (recording command)")
	defer rep.Write()
	defer func() { // a panic of the code under test outside a guarded call is an observation, not a broken check
		if p := recover(); p != nil {
			rep.Fail("clang:panic", "monitor", fmt.Sprintf("panic escaped the monitor: %v\n%s", p, debug.Stack()), nil)
		}
	}()

	avoidTrail := !reflect.DeepEqual(safesplit.SplitPkgConfigFlags(`-Dx\ `), []string{"-Dx "})
	avoidDash := !reflect.DeepEqual(safesplit.SplitPkgConfigFlags(`-L-dir`), []string{"-L-dir"})
	rep.Extra["avoided_constructs"] = map[string]bool{"env flag content ending in white space (safesplit probe fails)": avoidTrail, "env flag content starting with '-' (safesplit probe fails)": avoidDash}

	dir, err := os.MkdirTemp(os.Getenv("VERIF_WORK"), "c17cl")
	if err != nil {
		t.Fatal(err)
	}
	defer os.RemoveAll(dir)
	rec := filepath.Join(dir, "fakecc")
	argvFile := filepath.Join(dir, "argv")
	script := "#!/bin/sh\n{ printf '%s' \"$#\"; for a in \"$@\"; do printf '\\037%s' \"$a\"; done; } > \"$C17_ARGV_OUT\"\n"
	if err := os.WriteFile(rec, []byte(script), 0o755); err != nil {
		t.Fatal(err)
	}
	for _, k := range []string{"CCFLAGS", "CFLAGS", "LDFLAGS"} {
		old, had := os.LookupEnv(k)
		defer func(k, old string, had bool) {
			if had {
				os.Setenv(k, old)
			} else {
				os.Unsetenv(k)
			}
		}(k, old, had)
	}

	r := rand.New(rand.NewSource(vSeed()*1000003 + 176))
	total := vN(12000, 1000000)
	nExec := vN(20, 600)
	execEvery := total / nExec
	for i := 0; i < total; i++ {
		envArgs := map[string][]string{}
		envStr := map[string]string{}
		var sig strings.Builder
		for _, k := range []string{"CCFLAGS", "CFLAGS", "LDFLAGS"} {
			switch r.Intn(6) {
			case 0:
				os.Unsetenv(k)
				sig.WriteString("u")
			case 1:
				os.Setenv(k, "")
				envStr[k] = ""
				sig.WriteString("e")
			default:
				a, s := c17clEnvList(r, avoidTrail, avoidDash)
				os.Setenv(k, s)
				envArgs[k], envStr[k] = a, s
				fmt.Fprintf(&sig, "%d", len(a))
			}
		}
		cfg := Config{CCFLAGS: c17clCfgList(r), CFLAGS: c17clCfgList(r), LDFLAGS: c17clCfgList(r)}
		fmt.Fprintf(&sig, "|%d%d%d", len(cfg.CCFLAGS), len(cfg.CFLAGS), len(cfg.LDFLAGS))
		for _, l := range [][]string{cfg.CCFLAGS, cfg.CFLAGS, cfg.LDFLAGS} {
			for _, x := range l {
				if strings.ContainsAny(x, " \t") || x == "" {
					sig.WriteString("b")
				}
			}
		}
		rep.Sig(sig.String())
		snap := Config{CCFLAGS: append([]string{}, cfg.CCFLAGS...), CFLAGS: append([]string{}, cfg.CFLAGS...), LDFLAGS: append([]string{}, cfg.LDFLAGS...)}
		wantC := c17clCat(envArgs["CCFLAGS"], envArgs["CFLAGS"], cfg.CCFLAGS, cfg.CFLAGS)
		wantL := c17clCat(envArgs["CCFLAGS"], envArgs["LDFLAGS"], cfg.LDFLAGS)
		cmd := New(rec, cfg)
		gotC, gotL := cmd.mergeCompilerFlags(), cmd.mergeLinkerFlags()
		gotC2, gotL2 := cmd.mergeCompilerFlags(), cmd.mergeLinkerFlags()
		rep.Eval(2)
		info := map[string]any{"env": envStr, "config": snap, "want_compile": wantC, "want_link": wantL, "got_compile": gotC, "got_link": gotL}
		if i == 9 {
			rep.Sample(info)
		}
		if !c17clEq(gotC, wantC) {
			rep.Fail("clang:merge-compiler-flags", "merge", fmt.Sprintf("env=%q config=%+v: mergeCompilerFlags = %q, want %q", envStr, snap, gotC, wantC), c17clCase(info))
		}
		if !c17clEq(gotL, wantL) {
			rep.Fail("clang:merge-linker-flags", "merge", fmt.Sprintf("env=%q config=%+v: mergeLinkerFlags = %q, want %q", envStr, snap, gotL, wantL), c17clCase(info))
		}
		if !c17clEq(gotC, gotC2) || !c17clEq(gotL, gotL2) || !c17clEq(cmd.config.CCFLAGS, snap.CCFLAGS) || !c17clEq(cmd.config.CFLAGS, snap.CFLAGS) || !c17clEq(cmd.config.LDFLAGS, snap.LDFLAGS) {
			rep.Fail("clang:merge-not-pure", "merge", fmt.Sprintf("env=%q config=%+v: second call differs or config mutated (%q / %q, %q / %q, config now %+v)", envStr, snap, gotC, gotC2, gotL, gotL2, cmd.config), c17clCase(info))
		}
		if execEvery > 0 && i%execEvery == 0 {
			args := c17clCfgList(r)
			for which, want := range map[string][]string{"compile": c17clCat(wantC, args), "link": c17clCat(wantL, args)} {
				os.Remove(argvFile)
				c := New(rec, cfg)
				c.Env = append(os.Environ(), "C17_ARGV_OUT="+argvFile)
				var err error
				if which == "compile" {
					err = c.Compile(args...)
				} else {
					err = c.Link(args...)
				}
				rep.Eval(1)
				rep.Count("process_boundary_observations", 1)
				b, rerr := os.ReadFile(argvFile)
				if err != nil || rerr != nil {
					rep.Fail("clang:exec", which, fmt.Sprintf("recording command failed: %v / %v", err, rerr), nil)
					continue
				}
				f := strings.Split(string(b), "\x1f")
				got := f[1:]
				if f[0] != fmt.Sprint(len(got)) {
					rep.Fail("clang:exec", which, fmt.Sprintf("recorder inconsistent: %q", string(b)), nil)
					continue
				}
				if !c17clEq(got, want) {
					info["args"] = args
					info["argv_seen"] = got
					rep.Fail("clang:argv-"+which, which, fmt.Sprintf("env=%q config=%+v args=%q: the command received %q, want %q", envStr, snap, args, got, want), c17clCase(info))
				}
			}
		}
	}
}

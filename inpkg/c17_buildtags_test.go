//go:build verif

// C17 monitor for internal/buildtags, compiled into the package by `go test -overlay` (E2).
//
// CheckTags(buildFlags, conds) is how llgo decides which `#cgo <condition> CFLAGS/LDFLAGS:` lines
// apply (internal/build/cgo.go): every key of the map is a #cgo condition, the function sets it to
// true when the condition holds for the build described by buildFlags.
//
// Reference ("as the go tool evaluates them"): go/build reads a #cgo condition field by field
// (fields are alternatives); a field containing any of & | ( ) is a //go:build expression, any other
// field is a "+build" option (comma = AND, ! = NOT).  Each is parsed by go/build/constraint and
// evaluated with the tag truth of the go tool: tags given with -tags, GOOS, GOARCH, the compiler,
// "unix", "cgo", release tags go1.N, tool tags.  A second, hand-written evaluator of the +build
// grammar cross-checks the reference itself.
//
// -tags spelling as the go tool accepts it: "-tags", "a,b" | "-tags=a,b" (comma separated, empty
// elements ignored) or the legacy blank-separated list; other flags contribute nothing.
package buildtags

import (
	"encoding/json"
	"fmt"
	"go/build"
	"go/build/constraint"
	"math/rand"
	"reflect"
	"runtime/debug"
	"sort"
	"strings"
	"testing"
)

var c17btUser = []string{"foo", "bar", "baz", "llgo", "dev", "my_tag", "windows", "arm64"}
var c17btWords = []string{"foo", "bar", "baz", "llgo", "dev", "my_tag", "nosuch",
	"linux", "darwin", "windows", "js", "amd64", "arm64", "wasm", "386",
	"cgo", "unix", "gc", "gccgo", "go1.1", "go1.21", "go1.99", "ignore"}

var c17btUnix = map[string]bool{"aix": true, "android": true, "darwin": true, "dragonfly": true, "freebsd": true, "hurd": true,
	"illumos": true, "ios": true, "linux": true, "netbsd": true, "openbsd": true, "solaris": true}

// tag truth of the go tool for the default context plus the -tags set
func c17btTruth(set map[string]bool) func(string) bool {
	ctx := build.Default
	rel := map[string]bool{}
	for _, t := range ctx.ReleaseTags {
		rel[t] = true
	}
	for _, t := range ctx.ToolTags {
		rel[t] = true
	}
	return func(tag string) bool {
		switch {
		case set[tag], tag == ctx.GOOS, tag == ctx.GOARCH, tag == ctx.Compiler, rel[tag]:
			return true
		case tag == "cgo":
			return ctx.CgoEnabled
		case tag == "unix":
			return c17btUnix[ctx.GOOS]
		case tag == "linux" && ctx.GOOS == "android", tag == "solaris" && ctx.GOOS == "illumos", tag == "darwin" && ctx.GOOS == "ios":
			return true
		}
		return false
	}
}

type c17btTerm struct {
	neg bool
	tag string
}

// old-syntax field: comma separated terms
func c17btOldField(r *rand.Rand) ([]c17btTerm, string) {
	n := 1 + r.Intn(3)
	var ts []c17btTerm
	var ss []string
	for i := 0; i < n; i++ {
		t := c17btTerm{r.Intn(3) == 0, c17btWords[r.Intn(len(c17btWords))]}
		ts = append(ts, t)
		if t.neg {
			ss = append(ss, "!"+t.tag)
		} else {
			ss = append(ss, t.tag)
		}
	}
	return ts, strings.Join(ss, ",")
}

// new-syntax field without blanks: random expression over && || ! ( )
func c17btNewExpr(r *rand.Rand, depth int) string {
	if depth == 0 || r.Intn(3) == 0 {
		w := c17btWords[r.Intn(len(c17btWords))]
		if r.Intn(3) == 0 {
			return "!" + w
		}
		return w
	}
	a, b := c17btNewExpr(r, depth-1), c17btNewExpr(r, depth-1)
	op := "&&"
	if r.Intn(2) == 0 {
		op = "||"
	}
	e := "(" + a + op + b + ")"
	if r.Intn(4) == 0 {
		e = "!" + e
	}
	return e
}

// the go tool's reading of one #cgo condition
func c17btRef(cond string, truth func(string) bool) (bool, error) {
	for _, f := range strings.Fields(cond) {
		line := "// +build " + f
		if strings.ContainsAny(f, "&|()") {
			line = "//go:build " + f
		}
		x, err := constraint.Parse(line)
		if err != nil {
			if strings.HasPrefix(line, "//go:build") {
				continue // go/build: a field that does not parse does not match
			}
			return false, err
		}
		if x.Eval(truth) {
			return true, nil
		}
	}
	return false, nil
}

func c17btCase(v map[string]any) map[string]string {
	b, _ := json.MarshalIndent(v, "", " ")
	return map[string]string{"case.json": string(b),
		"HOWTO.txt": "m := map[string]bool{<condition>: false}; buildtags.CheckTags(<build_flags>, m); compare m[<condition>] with \"want\". Or re-run the check with the same VERIF_SEED and tier.\n"}
}

func c17btFlags(r *rand.Rand, tags []string) ([]string, string) {
	// duplicates and empty elements are legal in the comma form
	els := append([]string{}, tags...)
	if len(els) > 0 && r.Intn(4) == 0 {
		els = append(els, els[r.Intn(len(els))])
	}
	eqForm := r.Intn(2) == 0
	sep := ","
	if r.Intn(4) == 0 && len(els) > 1 {
		sep = " " // legacy blank separated list
	} else if r.Intn(4) == 0 {
		els = append(els, "")
		r.Shuffle(len(els), func(i, j int) { els[i], els[j] = els[j], els[i] })
	}
	v := strings.Join(els, sep)
	var flags []string
	noise := [][]string{{"-v"}, {"-ldflags=-s -w"}, {"-gcflags", "all=-N"}, {"-trimpath"}, {"-mod=mod"}}
	if r.Intn(3) == 0 {
		flags = append(flags, noise[r.Intn(len(noise))]...)
	}
	kind := "eq"
	if len(tags) == 0 && r.Intn(2) == 0 {
		kind = "none"
	} else if eqForm {
		flags = append(flags, "-tags="+v)
	} else {
		kind = "sep"
		flags = append(flags, "-tags", v)
	}
	if r.Intn(3) == 0 {
		flags = append(flags, noise[r.Intn(len(noise))]...)
	}
	return flags, kind + sep
}

func TestVerifC17Buildtags(t *testing.T) {
	rep := vNewReport("buildtags.CheckTags/parseBuildTags: #cgo conditions of 1-3 blank-separated alternatives; old syntax = 1-3 comma-separated terms, each an optional ! plus a word from {6 user tags, nosuch, 5 GOOS and 4 GOARCH words, cgo, unix, gc, gccgo, go1.1, go1.21, go1.99, ignore}; //go:build syntax (&& || ! parentheses, depth<=3, no blanks) only when its probe passes; -tags given as \"-tags v\" or \"-tags=v\", comma list with duplicates/empty elements or legacy blank list, subsets of {foo,bar,baz,llgo,dev,my_tag,windows,arm64}, surrounded by unrelated flags; 1-6 conditions per call. Reference: go/build/constraint Parse+Eval per field as go/build's #cgo handling does, tag truth of go/build.Default + the -tags set; cross-checked by a hand-written OR-of-AND-of-NOT evaluator. parseBuildTags: set equality with the go tool's reading of a single -tags flag")
	defer rep.Write()
	defer func() { // a panic of the code under test outside a guarded call is an observation, not a broken check
		if p := recover(); p != nil {
			rep.Fail("buildtags:panic", "monitor", fmt.Sprintf("panic escaped the monitor: %v\n%s", p, debug.Stack()), nil)
		}
	}()
	ctx := build.Default

	eval1 := func(flags []string, cond string) (res bool, panicked any) {
		defer func() {
			if p := recover(); p != nil {
				panicked = p
			}
		}()
		m := map[string]bool{cond: false}
		CheckTags(flags, m)
		return m[cond], nil
	}

	// ---- fixed cases (old syntax; must hold on every tree)
	host := ctx.GOOS + "," + ctx.GOARCH
	fixed := []struct {
		flags []string
		cond  string
		want  bool
	}{
		{[]string{"-tags", "foo,bar"}, "foo,bar", true},
		{[]string{"-tags=foo"}, "foo,bar", false}, // comma is AND
		{[]string{"-tags=foo"}, "bar foo", true},  // blank is OR
		{[]string{"-tags=foo"}, "!foo", false},
		{[]string{"-tags=foo"}, "!bar," + host, true},
		{nil, host, true},
		{nil, "!" + ctx.GOOS, false},
		{[]string{"-tags=foo bar"}, "foo,bar", true},
		{[]string{"-tags=a,,foo,"}, "foo", true},
		{[]string{"-v", "-tags", "windows"}, "windows", true},
	}
	for i, f := range fixed {
		got, pn := eval1(f.flags, f.cond)
		rep.Eval(1)
		if pn != nil || got != f.want {
			rep.Fail("buildtags:eval", fmt.Sprintf("fixed%d", i), fmt.Sprintf("CheckTags(%q) of %q = %v, want %v (panic=%v)", f.flags, f.cond, got, f.want, pn),
				c17btCase(map[string]any{"build_flags": f.flags, "condition": f.cond, "got": got, "want": f.want}))
		}
	}

	// ---- probe: //go:build syntax inside a #cgo condition (go/build accepts both syntaxes)
	gobuildOK := true
	probes := []struct {
		cond string
		want bool
	}{
		{ctx.GOOS + "&&" + ctx.GOARCH, true},
		{"!(" + ctx.GOOS + "||nosuch)", false},
		{"(foo||" + ctx.GOARCH + ")&&!bar", true},
	}
	for i, p := range probes {
		got, pn := eval1([]string{"-tags=llgo"}, p.cond)
		rep.Eval(1)
		if pn != nil || got != p.want {
			gobuildOK = false
			rep.Fail("buildtags:cgo-condition-gobuild-syntax", fmt.Sprintf("probe%d", i),
				fmt.Sprintf("CheckTags of the #cgo condition %q = %v; go/build (matchAuto) evaluates it to %v (panic=%v)", p.cond, got, p.want, pn),
				c17btCase(map[string]any{"build_flags": []string{"-tags=llgo"}, "condition": p.cond, "got": got, "want": p.want}))
		}
	}
	if !gobuildOK {
		rep.Extra["avoided_constructs"] = []string{"#cgo condition fields written in //go:build syntax (containing & | ( )): probe fails"}
	} else {
		rep.Extra["avoided_constructs"] = []string{}
	}

	r := rand.New(rand.NewSource(vSeed()*1000003 + 173))
	total := vN(8000, 400000)
	done := 0
	for done < total {
		// -tags set
		var tags []string
		set := map[string]bool{}
		for _, u := range c17btUser {
			if r.Intn(4) == 0 {
				tags = append(tags, u)
				set[u] = true
			}
		}
		r.Shuffle(len(tags), func(i, j int) { tags[i], tags[j] = tags[j], tags[i] })
		flags, fkind := c17btFlags(r, tags)
		if strings.HasPrefix(fkind, "none") {
			set = map[string]bool{}
		}
		truth := c17btTruth(set)

		// parseBuildTags against the go tool's reading of the single -tags flag
		gotTags := parseBuildTags(flags)
		gs := map[string]bool{}
		for _, g := range gotTags {
			gs[g] = true
		}
		if !reflect.DeepEqual(gs, set) && !(len(gs) == 0 && len(set) == 0) {
			rep.Fail("buildtags:parse-tags", "parseBuildTags", fmt.Sprintf("parseBuildTags(%q) = %q, want the set %v", flags, gotTags, tags),
				c17btCase(map[string]any{"build_flags": flags, "got": gotTags, "want": tags}))
		}
		rep.Eval(1)

		// conditions
		nc := 1 + r.Intn(6)
		conds := map[string]bool{}
		want := map[string]bool{}
		var order []string
		for len(order) < nc {
			na := 1 + r.Intn(3)
			var fields []string
			var alts [][]c17btTerm
			old := true
			for a := 0; a < na; a++ {
				if gobuildOK && r.Intn(3) == 0 {
					e := c17btNewExpr(r, 1+r.Intn(3))
					if strings.ContainsAny(e, "&|()") {
						old = false
					}
					fields = append(fields, e)
					// (a bare word produced here is read as old syntax, like go/build does)
					if !strings.ContainsAny(e, "&|()") {
						alts = append(alts, []c17btTerm{{strings.HasPrefix(e, "!"), strings.TrimPrefix(e, "!")}})
					}
					continue
				}
				ts, s := c17btOldField(r)
				alts = append(alts, ts)
				fields = append(fields, s)
			}
			cond := strings.Join(fields, []string{" ", " ", "  "}[r.Intn(3)])
			if _, dup := conds[cond]; dup {
				continue
			}
			w, err := c17btRef(cond, truth)
			if err != nil {
				rep.Fail("buildtags:reference-error", "ref", fmt.Sprintf("constraint.Parse failed on generated condition %q: %v", cond, err), nil)
				continue
			}
			if old {
				// hand-written evaluator of the +build grammar
				hw := false
				for _, alt := range alts {
					all := true
					for _, tm := range alt {
						if truth(tm.tag) == tm.neg {
							all = false
						}
					}
					hw = hw || all
				}
				if hw != w {
					rep.Fail("buildtags:reference-error", "ref", fmt.Sprintf("the two references disagree on %q: constraint=%v hand-written=%v", cond, w, hw), nil)
					continue
				}
			}
			conds[cond] = false
			want[cond] = w
			order = append(order, cond)
			kind := "old"
			if !old {
				kind = "new"
			}
			// signature: syntax kind, shape with words abstracted to their truth class, -tags spelling
			shape := cond
			for _, wd := range c17btWords {
				cl := "f"
				if truth(wd) {
					cl = "t"
				}
				shape = strings.ReplaceAll(shape, wd, cl)
			}
			rep.Sig(kind + "|" + fkind + "|" + shape)
		}
		var pn any
		func() {
			defer func() { pn = recover() }()
			CheckTags(flags, conds)
		}()
		done += len(order)
		rep.Eval(len(order))
		if done < 20 {
			rep.Sample(map[string]any{"build_flags": flags, "conditions": conds, "reference": want})
		}
		if pn != nil {
			rep.Fail("buildtags:panic", "CheckTags", fmt.Sprintf("CheckTags(%q, %v) panicked: %v", flags, order, pn), c17btCase(map[string]any{"build_flags": flags, "conditions": order}))
			continue
		}
		sort.Strings(order)
		for _, c := range order {
			if conds[c] != want[c] {
				cls := "buildtags:eval"
				if strings.ContainsAny(c, "&|()") {
					cls = "buildtags:cgo-condition-gobuild-syntax"
				}
				rep.Fail(cls, "CheckTags", fmt.Sprintf("build flags %q: condition %q evaluated to %v, the go tool's reading gives %v (host %s/%s)", flags, c, conds[c], want[c], ctx.GOOS, ctx.GOARCH),
					c17btCase(map[string]any{"build_flags": flags, "condition": c, "all_conditions": order, "got": conds[c], "want": want[c]}))
			}
		}
		if len(conds) != len(order) {
			rep.Fail("buildtags:map-altered", "CheckTags", fmt.Sprintf("CheckTags changed the key set: %v vs %v", conds, order), nil)
		}
	}
}

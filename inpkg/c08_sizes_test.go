//go:build verif

// C08 monitor, compiled into ./ssa by `go test -overlay` (E2).
//
// For generated types x targets {amd64, arm64, 386, arm, wasm} (Program set up the way
// internal/build.Do does it: types.SizesFor("gc", arch), StdSizes{4,4} for wasm, wrapped by
// Program.TypeSizes) the monitor reads the numbers the compiler itself produces:
//
//	G  go/types Sizes as wrapped by Program.TypeSizes   (folds unsafe.Sizeof/Alignof/Offsetof)
//	L  Program.SizeOf/OffsetOf + ABI alignment           (LLVM data layout = generated code)
//	D  abi.Builder Size/Align/FieldAlign/PtrBytes and the *emitted* descriptor constants
//	   (Size_, PtrBytes, Align_, FieldAlign_, struct field offsets, element descriptor sizes,
//	   map KeySize/ValueSize/BucketSize/flags) read back from the LLVM module
//
// Oracle: they agree.  A disagreement is reported under a narrow class.  Disagreements that are
// completely explained by a recorded open finding (predicate on the type AND every computation
// still equal to the model of its current behaviour) get the finding's class (KNOWN-FINDING);
// anything else is a VIOLATION.
package ssa

import (
	"encoding/json"
	"fmt"
	"go/token"
	"go/types"
	"math/rand"
	"os"
	"regexp"
	"sort"
	"strings"
	"sync"
	"testing"

	"github.com/xgo-dev/llvm"
	"golang.org/x/tools/go/packages"
)

// ---------------------------------------------------------------- known classes

const (
	c08KTrail  = "known:trailing-zero-size-field"
	c08KAlign8 = "known:word4-align8-scalar"
	c08KBoth   = "known:trailing-zero-size-field+word4-align8-scalar"
	c08KFunc   = "known:func-descriptor-one-word"
	c08KMapInd = "known:map-indirect-slot-size"
	c08KStdPad = "known:wasm-stdsizes-nested-tail-padding"
	c08KPtrB   = "known:ptrbytes-pointer-field-not-last"
	c08KRecur  = "known:recursive-named-func-lowered-raw"
	c08KAlias  = "known:alias-func-extra-size-lost"
)

// ---------------------------------------------------------------- type grammar

var c08Scalars = []types.BasicKind{
	types.Bool, types.Int8, types.Uint8, types.Int16, types.Uint16, types.Int32, types.Uint32,
	types.Int64, types.Uint64, types.Int, types.Uint, types.Uintptr, types.Float32, types.Float64,
	types.Complex64, types.Complex128, types.String, types.UnsafePointer,
}

type c08Gen struct {
	rng *rand.Rand
	pkg *types.Package
	nn  int
	tag string
}

func c08NewGen(seed int64, tag string) *c08Gen {
	return &c08Gen{rng: rand.New(rand.NewSource(seed)), pkg: types.NewPackage("c08/p"+tag, "p"), tag: tag}
}

func (g *c08Gen) scalar() types.Type { return types.Typ[c08Scalars[g.rng.Intn(len(c08Scalars))]] }

func (g *c08Gen) named(u types.Type) *types.Named {
	u = u.Underlying()
	g.nn++
	tn := types.NewTypeName(token.NoPos, g.pkg, fmt.Sprintf("N%s_%d", g.tag, g.nn), nil)
	return types.NewNamed(tn, u, nil)
}

func (g *c08Gen) sig() *types.Signature {
	mk := func(n int) *types.Tuple {
		var vs []*types.Var
		for i := 0; i < n; i++ {
			var t types.Type
			switch g.rng.Intn(4) {
			case 0:
				t = types.NewSlice(g.scalar())
			case 1:
				t = types.NewPointer(g.scalar())
			default:
				t = g.scalar()
			}
			vs = append(vs, types.NewVar(token.NoPos, nil, "", t))
		}
		return types.NewTuple(vs...)
	}
	return types.NewSignatureType(nil, nil, nil, mk(g.rng.Intn(3)), mk(g.rng.Intn(3)), false)
}

func (g *c08Gen) iface() types.Type {
	if g.rng.Intn(2) == 0 {
		return types.NewInterfaceType(nil, nil).Complete()
	}
	var ms []*types.Func
	n := 1 + g.rng.Intn(2)
	for i := 0; i < n; i++ {
		ms = append(ms, types.NewFunc(token.NoPos, g.pkg, fmt.Sprintf("M%d", i), g.sig()))
	}
	return types.NewInterfaceType(ms, nil).Complete()
}

func (g *c08Gen) zeroSize(d int) types.Type {
	switch g.rng.Intn(6) {
	case 0:
		return types.NewStruct(nil, nil)
	case 1:
		return types.NewArray(g.scalar(), 0)
	case 2:
		return types.NewArray(types.NewStruct(nil, nil), int64(1+g.rng.Intn(3)))
	case 3:
		return types.NewStruct([]*types.Var{types.NewField(token.NoPos, g.pkg, "z", types.NewArray(g.scalar(), 0), false)}, nil)
	case 4:
		if d > 0 {
			return types.NewArray(g.typ(d-1), 0)
		}
		return types.NewArray(types.Typ[types.Int64], 0)
	}
	return g.named(types.NewStruct(nil, nil))
}

func (g *c08Gen) key(d int) types.Type {
	switch r := g.rng.Intn(10); {
	case r < 5 || d <= 0:
		for {
			t := g.scalar()
			return t
		}
	case r < 6:
		return types.NewPointer(g.scalar())
	case r < 7:
		return g.iface()
	case r < 8:
		lens := []int64{0, 1, 2, 3, 5, 17, 20}
		return types.NewArray(g.key(d-1), lens[g.rng.Intn(len(lens))])
	default:
		n := g.rng.Intn(4)
		var fs []*types.Var
		for i := 0; i < n; i++ {
			fs = append(fs, types.NewField(token.NoPos, g.pkg, fmt.Sprintf("k%d", i), g.key(d-1), false))
		}
		return types.NewStruct(fs, nil)
	}
}

func (g *c08Gen) strct(d int) types.Type {
	n := g.rng.Intn(7)
	var fs []*types.Var
	add := func(t types.Type) {
		fs = append(fs, types.NewField(token.NoPos, g.pkg, fmt.Sprintf("f%d", len(fs)), t, false))
	}
	for i := 0; i < n; i++ {
		switch r := g.rng.Intn(20); {
		case r < 2:
			add(g.zeroSize(d))
		case r < 9:
			add(g.scalar())
		default:
			add(g.typ(d - 1))
		}
	}
	if n > 0 && g.rng.Intn(5) == 0 {
		add(g.zeroSize(d))
	}
	return types.NewStruct(fs, nil)
}

func (g *c08Gen) typ(d int) types.Type {
	t := g.typ0(d)
	switch g.rng.Intn(16) {
	case 0, 1:
		return g.named(t)
	case 2:
		g.nn++
		return types.NewAlias(types.NewTypeName(token.NoPos, g.pkg, fmt.Sprintf("A%s_%d", g.tag, g.nn), nil), t)
	}
	return t
}

func (g *c08Gen) typ0(d int) types.Type {
	r := g.rng.Intn(100)
	if d <= 0 {
		r %= 50
	}
	switch {
	case r < 28:
		return g.scalar()
	case r < 32:
		return types.NewPointer(g.typ(d - 1))
	case r < 36:
		return types.NewSlice(g.typ(d - 1))
	case r < 41:
		return g.sig()
	case r < 45:
		return g.iface()
	case r < 48:
		dirs := []types.ChanDir{types.SendRecv, types.SendOnly, types.RecvOnly}
		return types.NewChan(dirs[g.rng.Intn(3)], g.typ(d-1))
	case r < 50:
		if d <= 0 {
			return types.NewMap(g.key(0), g.scalar())
		}
		return types.NewStruct(nil, nil)
	case r < 55:
		return types.NewMap(g.key(d-1), g.typ(d-1))
	case r < 70:
		lens := []int64{0, 1, 1, 2, 3, 4, 5, 8}
		return types.NewArray(g.typ(d-1), lens[g.rng.Intn(len(lens))])
	case r < 73:
		return g.recursive(d)
	default:
		return g.strct(d)
	}
}

// recursive: named struct that refers to itself through pointer/slice/map/func.
func (g *c08Gen) recursive(d int) types.Type {
	n := g.named(types.Typ[types.Int])
	var fs []*types.Var
	add := func(t types.Type) {
		fs = append(fs, types.NewField(token.NoPos, g.pkg, fmt.Sprintf("r%d", len(fs)), t, false))
	}
	add(g.scalar())
	for i, k := 0, 1+g.rng.Intn(3); i < k; i++ {
		switch g.rng.Intn(5) {
		case 0:
			add(types.NewPointer(n))
		case 1:
			add(types.NewSlice(n))
		case 2:
			add(types.NewMap(types.Typ[types.Int32], n))
		case 3:
			v := types.NewVar(token.NoPos, nil, "", types.NewPointer(n))
			add(types.NewSignatureType(nil, nil, nil, types.NewTuple(v), types.NewTuple(v), false))
		default:
			add(g.typ(d - 1))
		}
	}
	n.SetUnderlying(types.NewStruct(fs, nil))
	return n
}

// ---------------------------------------------------------------- structural helpers (on the Go type)

func c08Under(t types.Type) types.Type { return types.Unalias(t).Underlying() }

func c08ZeroSized(t types.Type) bool {
	switch u := c08Under(t).(type) {
	case *types.Array:
		return u.Len() == 0 || c08ZeroSized(u.Elem())
	case *types.Struct:
		for i := 0; i < u.NumFields(); i++ {
			if !c08ZeroSized(u.Field(i).Type()) {
				return false
			}
		}
		return true
	}
	return false
}

// c08TrailingZS: some struct that takes part in the layout of t has a zero-size last field
// behind at least one field of non-zero size.
func c08TrailingZS(t types.Type) bool {
	switch u := c08Under(t).(type) {
	case *types.Array:
		return u.Len() > 0 && c08TrailingZS(u.Elem())
	case *types.Struct:
		n := u.NumFields()
		for i := 0; i < n; i++ {
			if c08TrailingZS(u.Field(i).Type()) {
				return true
			}
		}
		if n > 1 && c08ZeroSized(u.Field(n-1).Type()) && !c08ZeroSized(u) {
			return true
		}
	}
	return false
}

// c08Has8: an 8-byte scalar (int64, uint64, float64, complex128 halves) takes part in the layout of t.
func c08Has8(t types.Type) bool {
	switch u := c08Under(t).(type) {
	case *types.Basic:
		switch u.Kind() {
		case types.Int64, types.Uint64, types.Float64, types.Complex128:
			return true
		}
	case *types.Array:
		return c08Has8(u.Elem())
	case *types.Struct:
		for i := 0; i < u.NumFields(); i++ {
			if c08Has8(u.Field(i).Type()) {
				return true
			}
		}
	}
	return false
}

// c08Str prints a type with named/alias types expanded once (names of generated types carry no information).
func c08Str(t types.Type) string {
	seen := map[types.Type]bool{}
	var defs []string
	q := func(*types.Package) string { return "" }
	var walk func(t types.Type)
	walk = func(t types.Type) {
		switch u := t.(type) {
		case *types.Alias:
			if !seen[u] {
				seen[u] = true
				defs = append(defs, u.Obj().Name()+" = alias of "+types.TypeString(types.Unalias(u), q))
				walk(types.Unalias(u))
			}
		case *types.Named:
			if !seen[u] {
				seen[u] = true
				defs = append(defs, u.Obj().Name()+" = "+types.TypeString(u.Underlying(), q))
				walk(u.Underlying())
			}
		case *types.Pointer:
			walk(u.Elem())
		case *types.Slice:
			walk(u.Elem())
		case *types.Array:
			walk(u.Elem())
		case *types.Chan:
			walk(u.Elem())
		case *types.Map:
			walk(u.Key())
			walk(u.Elem())
		case *types.Struct:
			for i := 0; i < u.NumFields(); i++ {
				walk(u.Field(i).Type())
			}
		}
	}
	walk(t)
	s := types.TypeString(t, q)
	if len(defs) > 0 {
		s += "  where " + strings.Join(defs, "; ")
	}
	return s
}

func c08Skeleton(t types.Type) string {
	s := types.TypeString(t, func(*types.Package) string { return "" })
	return c08reNum.ReplaceAllString(s, "N")
}

var c08reNum = regexp.MustCompile(`[NA][a-z0-9]*_[0-9]+`)

// expand: every Go func type becomes a two-word struct, so that the plain go/types Sizes
// (not the wrapper under test) give the reference for what the wrapper should answer.
func c08Expand(t types.Type, memo map[types.Type]types.Type) types.Type {
	return c08ExpandEx(t, memo, true)
}

// c08ExpandEx with throughAlias=false mirrors the PRESENT goProgram.extraSize, which does not look
// through *types.Alias (the func fields below an alias keep their one-word go/types size).
func c08ExpandEx(t types.Type, memo map[types.Type]types.Type, throughAlias bool) types.Type {
	switch u := t.(type) {
	case *types.Alias:
		if throughAlias {
			return c08ExpandEx(types.Unalias(u), memo, throughAlias)
		}
		return t
	case *types.Named:
		if r, ok := memo[u]; ok {
			return r
		}
		if !c08LayoutHasFunc(u.Underlying(), map[types.Type]bool{}) {
			memo[u] = u
			return u
		}
		nn := types.NewNamed(types.NewTypeName(token.NoPos, u.Obj().Pkg(), u.Obj().Name()+"x", nil), types.Typ[types.Int], nil)
		memo[u] = nn
		nn.SetUnderlying(c08ExpandEx(u.Underlying(), memo, throughAlias))
		return nn
	case *types.Signature:
		up := types.Typ[types.UnsafePointer]
		return types.NewStruct([]*types.Var{types.NewField(token.NoPos, nil, "f", up, false), types.NewField(token.NoPos, nil, "d", up, false)}, nil)
	case *types.Array:
		return types.NewArray(c08ExpandEx(u.Elem(), memo, throughAlias), u.Len())
	case *types.Struct:
		fs := make([]*types.Var, u.NumFields())
		for i := range fs {
			f := u.Field(i)
			fs[i] = types.NewField(token.NoPos, f.Pkg(), f.Name(), c08ExpandEx(f.Type(), memo, throughAlias), false)
		}
		return types.NewStruct(fs, nil)
	}
	return t
}

func c08LayoutHasFunc(t types.Type, seen map[types.Type]bool) bool {
	switch u := t.(type) {
	case *types.Alias:
		return c08LayoutHasFunc(types.Unalias(u), seen)
	case *types.Named:
		if seen[u] {
			return false
		}
		seen[u] = true
		return c08LayoutHasFunc(u.Underlying(), seen)
	case *types.Signature:
		return true
	case *types.Array:
		return c08LayoutHasFunc(u.Elem(), seen)
	case *types.Struct:
		for i := 0; i < u.NumFields(); i++ {
			if c08LayoutHasFunc(u.Field(i).Type(), seen) {
				return true
			}
		}
	}
	return false
}

func c08Fields(t types.Type) []*types.Var {
	st, ok := c08Under(t).(*types.Struct)
	if !ok {
		return nil
	}
	fs := make([]*types.Var, st.NumFields())
	for i := range fs {
		fs[i] = st.Field(i)
	}
	return fs
}

func c08Align(x, a int64) int64 {
	if a <= 0 {
		return x
	}
	return (x + a - 1) / a * a
}

// ---------------------------------------------------------------- per-target state

type c08Target struct {
	arch   string
	prog   Program
	std    types.Sizes // what go/types would use for this arch (before wrapping)
	sizes  types.Sizes // wrapped: what folds unsafe.* constants
	word   int64
	lla64  int64 // LLVM ABI alignment of i64/double
	pkg    Package
	b      Builder
	npkg   int
	emit   int
	gcRule bool // std is gcSizes (trailing zero-size padding rule), not StdSizes
}

var c08Archs = []string{"amd64", "arm64", "386", "arm", "wasm"}

func c08NewTarget(arch string, rt *types.Package) *c08Target {
	goos := "linux"
	if arch == "wasm" {
		goos = "wasip1"
	}
	prog := NewProgram(&Target{GOOS: goos, GOARCH: arch})
	prog.SetRuntime(rt)
	// exactly what internal/build.Do does (the `sizes` closure handed to packages.LoadEx)
	std := types.SizesFor("gc", arch)
	gc := true
	if arch == "wasm" {
		std = &types.StdSizes{WordSize: 4, MaxAlign: 4}
		gc = false
	}
	tg := &c08Target{arch: arch, prog: prog, std: std, gcRule: gc}
	tg.sizes = prog.TypeSizes(std)
	tg.word = int64(prog.PointerSize())
	tg.lla64 = int64(prog.td.ABITypeAlignment(prog.tyInt64()))
	tg.newPkg()
	return tg
}

func (tg *c08Target) newPkg() {
	if tg.pkg != nil {
		tg.pkg.mod.Dispose() // constants already read back; bounds memory in the thorough tier
	}
	tg.npkg++
	tg.pkg = tg.prog.NewPackage("c08", fmt.Sprintf("c08/%s/%d", tg.arch, tg.npkg))
	fn := tg.pkg.NewFunc("c08f", NoArgsNoRet, InC)
	tg.b = fn.MakeBody(1)
	tg.emit = 0
}

// ---- L model (port of the C-like layout rule with the target's LLVM ABI alignments); a64
// parameter lets the same code give the "natural alignment" table abi.Builder.Align uses.
func (tg *c08Target) model(t types.Type, a64 int64, fw int64) (size, al int64, offs []int64) {
	w := tg.word
	switch u := c08Under(t).(type) {
	case *types.Basic:
		switch u.Kind() {
		case types.Bool, types.Int8, types.Uint8:
			return 1, 1, nil
		case types.Int16, types.Uint16:
			return 2, 2, nil
		case types.Int32, types.Uint32, types.Float32:
			return 4, 4, nil
		case types.Int64, types.Uint64, types.Float64:
			return 8, a64, nil
		case types.Complex64:
			return 8, 4, nil
		case types.Complex128:
			return 16, a64, nil
		case types.String:
			return 2 * w, w, nil
		}
		return w, w, nil
	case *types.Slice:
		return 3 * w, w, nil
	case *types.Interface:
		return 2 * w, w, nil
	case *types.Signature:
		return fw * w, w, nil
	case *types.Array:
		s, a, _ := tg.model(u.Elem(), a64, fw)
		return s * u.Len(), a, nil
	case *types.Struct:
		var cur int64
		al = 1
		n := u.NumFields()
		for i := 0; i < n; i++ {
			s, a, _ := tg.model(u.Field(i).Type(), a64, fw)
			cur = c08Align(cur, a)
			offs = append(offs, cur)
			cur += s
			if a > al {
				al = a
			}
		}
		return c08Align(cur, al), al, offs
	}
	return w, w, nil
}

// ---- reference PtrBytes over a given layout
func (tg *c08Target) ptrRef(t types.Type, size func(types.Type) int64, offs func(types.Type) []int64) int64 {
	w := tg.word
	switch u := c08Under(t).(type) {
	case *types.Basic:
		switch u.Kind() {
		case types.String, types.UnsafePointer:
			return w
		}
		return 0
	case *types.Pointer, *types.Map, *types.Chan, *types.Slice:
		return w
	case *types.Signature, *types.Interface:
		return 2 * w
	case *types.Array:
		if u.Len() == 0 {
			return 0
		}
		if pb := tg.ptrRef(u.Elem(), size, offs); pb != 0 {
			return (u.Len()-1)*size(u.Elem()) + pb
		}
		return 0
	case *types.Struct:
		o := offs(t)
		for i := u.NumFields() - 1; i >= 0; i-- {
			if pb := tg.ptrRef(u.Field(i).Type(), size, offs); pb != 0 {
				return o[i] + pb
			}
		}
		return 0
	}
	return 0
}

// ptrCur: port of the PRESENT abi.Builder.PtrBytes (ssa/abi/type.go): for a struct it adds the
// PtrBytes of the LAST field (not of the last pointer-carrying field) to the offset of the last
// pointer-carrying field.  Only used to recognise the recorded defect exactly.
func (tg *c08Target) ptrCur(t types.Type) int64 {
	switch u := c08Under(t).(type) {
	case *types.Array:
		if u.Len() == 0 {
			return 0
		}
		if pb := tg.ptrCur(u.Elem()); pb != 0 {
			return (u.Len()-1)*tg.gSize(u.Elem()) + pb
		}
		return 0
	case *types.Struct:
		o := tg.gOffs(t)
		field, bytes := -1, int64(0)
		for i := 0; i < u.NumFields(); i++ {
			if bytes = tg.ptrCur(u.Field(i).Type()); bytes != 0 {
				field = i
			}
		}
		if field < 0 {
			return 0
		}
		return o[field] + bytes
	}
	return tg.ptrRef(t, tg.gSize, tg.gOffs)
}

// c08PtrNotLast: some struct in the layout has a pointer-carrying field but its last field carries none.
func (tg *c08Target) ptrNotLast(t types.Type) bool {
	switch u := c08Under(t).(type) {
	case *types.Array:
		return u.Len() > 0 && tg.ptrNotLast(u.Elem())
	case *types.Struct:
		n := u.NumFields()
		any := false
		for i := 0; i < n; i++ {
			if tg.ptrNotLast(u.Field(i).Type()) {
				return true
			}
			if tg.ptrRef(u.Field(i).Type(), tg.gSize, tg.gOffs) != 0 {
				any = true
			}
		}
		return any && tg.ptrRef(u.Field(n-1).Type(), tg.gSize, tg.gOffs) == 0
	}
	return false
}

func (tg *c08Target) lSize(t types.Type) int64 { return int64(tg.prog.SizeOf(tg.prog.Type(t, InGo))) }
func (tg *c08Target) lOffs(t types.Type) []int64 {
	lt := tg.prog.Type(t, InGo)
	n := len(c08Fields(t))
	r := make([]int64, n)
	for i := range r {
		r[i] = int64(tg.prog.OffsetOf(lt, i))
	}
	return r
}
// go/types (wrapped) numbers of the RAW type of t: what abi.Builder gets when it asks b.Sizes
func (tg *c08Target) gSize(t types.Type) int64 { return tg.sizes.Sizeof(tg.prog.Type(t, InGo).RawType()) }
func (tg *c08Target) gOffs(t types.Type) []int64 {
	return tg.sizes.Offsetsof(c08Fields(tg.prog.Type(t, InGo).RawType()))
}

// ---------------------------------------------------------------- reading emitted descriptors

type c08Desc struct {
	ok                             bool
	size, ptrbytes, align, falign  int64
	fieldOff, fieldTypSize         []int64
	elemSize                       int64 // Size_ of the element descriptor (array, slice, chan), -1 if none
	keySlot, valSlot, bucket, flag int64 // maptype
	keyDesc, valDesc, bucketDesc   int64
}

func c08GlobalOf(v llvm.Value) llvm.Value {
	if !v.IsAGlobalVariable().IsNil() {
		return v
	}
	if !v.IsAConstantExpr().IsNil() {
		return c08GlobalOf(v.Operand(0))
	}
	return llvm.Value{}
}

// c08Level returns the constant struct whose element 0 is the abi.Type common part
// (or the common part itself for kinds without extension) of a descriptor global.
func (tg *c08Target) rtLevel(g llvm.Value) (rt llvm.Value, common llvm.Value, ok bool) {
	abiTy := tg.prog.AbiType().ll
	v := g.Initializer()
	for depth := 0; depth < 4; depth++ {
		if v.IsNil() || !v.IsAConstantAggregateZero().IsNil() {
			return
		}
		if v.Type().C == abiTy.C {
			return llvm.Value{}, v, true
		}
		f := v.Operand(0)
		if f.Type().C == abiTy.C {
			return v, f, true
		}
		v = f
	}
	return
}

func (tg *c08Target) commonSize(ptr llvm.Value) int64 {
	g := c08GlobalOf(ptr)
	if g.IsNil() {
		return -1
	}
	_, c, ok := tg.rtLevel(g)
	if !ok {
		return -1
	}
	return int64(c.Operand(0).ZExtValue())
}

func (tg *c08Target) descriptor(R types.Type) (d c08Desc) {
	d.elemSize = -1
	if tg.emit >= 400 {
		tg.newPkg()
	}
	tg.emit++
	ptr := tg.b.abiType(R)
	g := c08GlobalOf(ptr.impl)
	if g.IsNil() {
		return
	}
	rt, c, ok := tg.rtLevel(g)
	if !ok {
		return
	}
	d.ok = true
	d.size = int64(c.Operand(0).ZExtValue())
	d.ptrbytes = int64(c.Operand(1).ZExtValue())
	d.align = int64(c.Operand(4).ZExtValue())
	d.falign = int64(c.Operand(5).ZExtValue())
	if rt.IsNil() {
		return
	}
	switch u := R.Underlying().(type) {
	case *types.Struct:
		if IsClosure(u) || u.NumFields() == 0 {
			return
		}
		sl := rt.Operand(2) // Fields []StructField
		arr := c08GlobalOf(sl.Operand(0))
		if arr.IsNil() {
			d.ok = false
			return
		}
		init := arr.Initializer()
		for i := 0; i < u.NumFields(); i++ {
			sf := init.Operand(i)
			d.fieldOff = append(d.fieldOff, int64(sf.Operand(2).ZExtValue()))
			d.fieldTypSize = append(d.fieldTypSize, tg.commonSize(sf.Operand(1)))
		}
	case *types.Array, *types.Slice, *types.Chan:
		d.elemSize = tg.commonSize(rt.Operand(1))
	case *types.Map:
		d.keyDesc = tg.commonSize(rt.Operand(1))
		d.valDesc = tg.commonSize(rt.Operand(2))
		d.bucketDesc = tg.commonSize(rt.Operand(3))
		d.keySlot = int64(rt.Operand(5).ZExtValue())
		d.valSlot = int64(rt.Operand(6).ZExtValue())
		d.bucket = int64(rt.Operand(7).ZExtValue())
		d.flag = int64(rt.Operand(8).ZExtValue())
	}
	return
}

// ---------------------------------------------------------------- the check of one (type, target)

type c08Issue struct{ check, detail, class string }

// c08Layout: the numbers of one type on one target from the three computations.
type c08Layout struct {
	GSize, GAlign                int64 // go/types Sizes as wrapped by Program.TypeSizes, on the Go type
	GOffs                        []int64
	RSize, RAlign                int64 // same wrapper asked about the raw (closure-converted) type
	ROffs                        []int64
	LSize, LAlign                int64 // LLVM data layout of the generated type
	LOffs                        []int64
	DSize, DAlign, DFAlign, DPtr int64 // abi.Builder
	PL, PG, PCur                 int64 // reference PtrBytes over llvm layout / go-types layout / port of present algorithm
	modelOK                      bool  // every computation equals the model of its PRESENT behaviour
	kclass                       string // known layout class the type falls in ("" = none)
	isStruct, isFunc             bool
}

type c08Result struct {
	Arch string
	c08Layout
	EOffs  []int64
	issues []c08Issue
}

func c08Eq(a, b []int64) bool {
	if len(a) != len(b) {
		return false
	}
	for i := range a {
		if a[i] != b[i] {
			return false
		}
	}
	return true
}

// layout queries the three computations for T (no descriptor emission) and decides whether the
// type falls into a recorded layout class with all computations behaving as recorded.
func (tg *c08Target) layout(T types.Type) (o c08Layout) {
	prog := tg.prog
	lt := prog.Type(T, InGo)
	R := lt.RawType()
	fT, fR := c08Fields(T), c08Fields(R)
	_, o.isStruct = c08Under(T).(*types.Struct)
	_, o.isFunc = c08Under(T).(*types.Signature)
	o.GSize, o.GAlign = tg.sizes.Sizeof(T), tg.sizes.Alignof(T)
	o.RSize, o.RAlign = tg.sizes.Sizeof(R), tg.sizes.Alignof(R)
	o.LSize, o.LAlign = int64(prog.SizeOf(lt)), int64(prog.td.ABITypeAlignment(lt.ll))
	if o.isStruct {
		o.GOffs = tg.sizes.Offsetsof(fT)
		o.ROffs = tg.sizes.Offsetsof(fR)
		for i := range fT {
			o.LOffs = append(o.LOffs, int64(prog.OffsetOf(lt, i)))
		}
	}
	ab := &prog.abi
	o.DSize, o.DAlign, o.DFAlign, o.DPtr = int64(ab.Size(R)), int64(ab.Align(R)), int64(ab.FieldAlign(R)), int64(ab.PtrBytes(R))
	o.PL = tg.ptrRef(T, tg.lSize, tg.lOffs)
	o.PG = tg.ptrRef(T, tg.gSize, tg.gOffs)
	o.PCur = tg.ptrCur(T)

	// models of the present behaviour
	//  G: the plain go/types Sizes on the type with func types expanded to two words; the PRESENT
	//     wrapper does not look through aliases (gCur), the raw type never contains aliases (gRaw)
	gm := func(through bool) (int64, int64, []int64) {
		X := c08ExpandEx(T, map[types.Type]types.Type{}, through)
		sz, al := tg.std.Sizeof(X), tg.std.Alignof(X)
		switch c08Under(X).(type) {
		case *types.Struct, *types.Array:
			sz = c08Align(sz, al)
		}
		var of []int64
		if o.isStruct {
			// go/types hands Offsetsof the field list: an alias at the top is already resolved
			of = tg.std.Offsetsof(c08Fields(c08ExpandEx(types.Unalias(T), map[types.Type]types.Type{}, through)))
		}
		return sz, al, of
	}
	mgS, mgA, mgO := gm(true)
	mcS, mcA, mcO := gm(false)
	aliasEffect := mgS != mcS || mgA != mcA || !c08Eq(mgO, mcO)
	mlS, mlA, mlO := tg.model(T, tg.lla64, 2)
	_, natA, _ := tg.model(T, 8, 2)
	gIsCur := o.GSize == mcS && o.GAlign == mcA && c08Eq(o.GOffs, mcO)
	gIsFixed := o.GSize == mgS && o.GAlign == mgA && c08Eq(o.GOffs, mgO)
	aliasEffect = aliasEffect && gIsCur && !gIsFixed
	rIsFull := o.RSize == mgS && o.RAlign == mgA && c08Eq(o.ROffs, mgO)
	rIsCur := o.RSize == mcS && o.RAlign == mcA && c08Eq(o.ROffs, mcO) // raw type still holds aliases: only when the unconverted named type won (recursive class)
	dOK := o.DSize == o.RSize && o.DAlign == natA && o.DFAlign == natA
	restOK := (gIsCur || gIsFixed) && rIsFull && dOK
	o.modelOK = restOK && (o.DPtr == o.PG || o.DPtr == o.PCur) && o.LSize == mlS && o.LAlign == mlA && c08Eq(o.LOffs, mlO)
	if (gIsCur || gIsFixed) && (rIsFull || rIsCur) && dOK && !o.modelOK && c08RecursiveFuncMap(T) {
		// LLVM lowered the UNCONVERTED named type (func fields one word) under the same name
		if rS, rA, rO := tg.model(T, tg.lla64, 1); o.LSize == rS && o.LAlign == rA && c08Eq(o.LOffs, rO) {
			o.modelOK = true
			o.kclass = c08KRecur
			return
		}
	}
	trail := tg.gcRule && c08TrailingZS(T)
	a8 := tg.word == 4 && c08Has8(T)
	switch {
	case aliasEffect:
		o.kclass = c08KAlias
	case trail && a8:
		o.kclass = c08KBoth
	case trail:
		o.kclass = c08KTrail
	case a8:
		o.kclass = c08KAlign8
	case !tg.gcRule && c08StdTailPad(tg, T):
		o.kclass = c08KStdPad
	}
	return
}

// check returns the observations and the list of disagreements, each with its class.
func (tg *c08Target) check(T types.Type, emitDesc bool) (res c08Result) {
	prog := tg.prog
	res.Arch = tg.arch
	o := tg.layout(T)
	res.c08Layout = o
	R := prog.Type(T, InGo).RawType()
	var e c08Desc
	add := func(check, class, f string, a ...any) {
		if class == "" {
			class = check
		}
		res.issues = append(res.issues, c08Issue{check, fmt.Sprintf(f, a...), class})
	}
	if emitDesc {
		e = tg.descriptor(R)
		if !e.ok {
			add("descriptor:unreadable", "", "emitted descriptor constant could not be navigated")
		}
	}
	hasOffs := o.isStruct && len(o.GOffs) > 0
	if e.ok && hasOffs {
		res.EOffs = e.fieldOff
	}
	emittedOK := !e.ok || (e.size == o.DSize && e.ptrbytes == o.DPtr && e.align == o.DAlign && e.falign == o.DFAlign && (!hasOffs || c08Eq(res.EOffs, o.LOffs)))
	// class of a disagreement between the layout computations of T itself
	lay := ""
	if o.modelOK && emittedOK {
		lay = o.kclass
	}

	// 1 size
	if o.GSize != o.LSize {
		add("size:gotypes-vs-llvm", lay, "Sizeof=%d SizeOf(llvm)=%d", o.GSize, o.LSize)
	}
	if o.GSize != o.DSize {
		add("size:gotypes-vs-abi", lay, "Sizeof=%d abi.Size=%d", o.GSize, o.DSize)
	}
	if o.LSize != o.DSize && o.GSize == o.LSize {
		add("size:llvm-vs-abi", lay, "SizeOf(llvm)=%d abi.Size=%d", o.LSize, o.DSize)
	}
	// 2 wrapper consistency between the Go type and its raw (closure-converted) type
	if o.RSize != o.GSize || o.RAlign != o.GAlign || !c08Eq(o.ROffs, o.GOffs) {
		wcls := ""
		if lay == c08KAlias {
			wcls = lay
		}
		add("wrapper:gotype-vs-rawtype", wcls, "Sizeof/Alignof/Offsetsof on Go type = %d/%d/%v, on raw type = %d/%d/%v", o.GSize, o.GAlign, o.GOffs, o.RSize, o.RAlign, o.ROffs)
	}
	// 3 alignment
	if o.GAlign != o.LAlign {
		add("align:gotypes-vs-llvm", lay, "Alignof=%d llvm ABI align=%d", o.GAlign, o.LAlign)
	}
	if o.GAlign != o.DAlign {
		add("align:gotypes-vs-abi", lay, "Alignof=%d abi.Align=%d", o.GAlign, o.DAlign)
	}
	if o.LAlign != o.DAlign && o.GAlign == o.LAlign {
		add("align:llvm-vs-abi", lay, "llvm ABI align=%d abi.Align=%d", o.LAlign, o.DAlign)
	}
	if o.DFAlign != o.DAlign {
		add("align:abi-fieldalign", "", "abi.Align=%d abi.FieldAlign=%d", o.DAlign, o.DFAlign)
	}
	// 4 offsets
	if !c08Eq(o.GOffs, o.LOffs) {
		add("offset:gotypes-vs-llvm", lay, "Offsetsof=%v llvm=%v", o.GOffs, o.LOffs)
	}
	if e.ok && hasOffs {
		if !c08Eq(res.EOffs, o.LOffs) {
			add("offset:descriptor-vs-llvm", "", "descriptor=%v llvm=%v", res.EOffs, o.LOffs)
		}
		if !c08Eq(res.EOffs, o.GOffs) && c08Eq(o.GOffs, o.LOffs) {
			add("offset:descriptor-vs-gotypes", "", "descriptor=%v Offsetsof=%v", res.EOffs, o.GOffs)
		}
	}
	// 5 PtrBytes against the reference over the LLVM layout and over the go/types layout
	if o.DPtr != o.PL || o.DPtr != o.PG {
		cls := lay
		if o.modelOK && emittedOK && o.DPtr != o.PG && o.DPtr == o.PCur && tg.ptrNotLast(T) {
			// equals the port of the present algorithm and differs from the reference over the SAME
			// (go/types) layout: the recorded PtrBytes defect, whatever else applies
			cls = c08KPtrB
		}
		add("ptrbytes:abi-vs-reference", cls, "abi.PtrBytes=%d, reference prefix over llvm layout=%d, over go/types layout=%d", o.DPtr, o.PL, o.PG)
	}
	// 8 emitted == API
	if e.ok && (e.size != o.DSize || e.ptrbytes != o.DPtr || e.align != o.DAlign || e.falign != o.DFAlign) {
		add("descriptor:emitted-vs-builder", "", "emitted size/ptrbytes/align/fieldalign=%d/%d/%d/%d abi.Builder=%d/%d/%d/%d",
			e.size, e.ptrbytes, e.align, e.falign, o.DSize, o.DPtr, o.DAlign, o.DFAlign)
	}
	// 6 element / field descriptors: the Size_ reflection uses to stride and copy
	comp := func(what string, c types.Type, desc int64) {
		co := tg.layout(c)
		if desc == co.LSize {
			return
		}
		if _, ok := c08Under(c).(*types.Signature); ok {
			cls := ""
			if desc == tg.word && co.LSize == 2*tg.word {
				cls = c08KFunc
			}
			add("elemdesc:func-size", cls, "%s: descriptor Size_=%d, value occupies %d", what, desc, co.LSize)
			return
		}
		cls := ""
		if co.modelOK && (desc == co.DSize || co.kclass == c08KRecur) {
			cls = co.kclass
		}
		add("elemdesc:size", cls, "%s: descriptor Size_=%d, llvm size=%d", what, desc, co.LSize)
	}
	if e.ok {
		switch u := c08Under(T).(type) {
		case *types.Struct:
			for i := range e.fieldTypSize {
				comp(fmt.Sprintf("field %d", i), u.Field(i).Type(), e.fieldTypSize[i])
			}
		case *types.Array:
			comp("array elem", u.Elem(), e.elemSize)
		case *types.Slice:
			comp("slice elem", u.Elem(), e.elemSize)
		case *types.Chan:
			comp("chan elem", u.Elem(), e.elemSize)
		case *types.Map:
			comp("map key", u.Key(), e.keyDesc)
			comp("map elem", u.Elem(), e.valDesc)
			// 7 map slots: what the runtime strides by vs what compiled code stores
			slot := func(sz int64) (int64, int64) {
				if sz > 128 {
					return tg.word, 1
				}
				return sz, 0
			}
			ko, vo := tg.layout(u.Key()), tg.layout(u.Elem())
			wantK, fk := slot(ko.LSize)
			wantV, fv := slot(vo.LSize)
			wantF := fk | fv<<1
			if e.keySlot != wantK || e.valSlot != wantV || e.flag&3 != wantF {
				cls := ""
				// present behaviour: uint8(abi.Size) in the slot fields, flags from go/types sizes
				gK, gfk := slot(ko.RSize) // abi.Builder asks the wrapper about the raw type
				gV, gfv := slot(vo.RSize)
				curK, curV, curF := ko.DSize&0xff, vo.DSize&0xff, gfk|gfv<<1
				switch {
				case ko.modelOK && vo.modelOK && e.keySlot == gK && e.valSlot == gV && e.flag&3 == curF && (ko.kclass != "" || vo.kclass != ""):
					// would be right if the go/types size of key/elem were the real one
					cls = ko.kclass
					if cls == "" {
						cls = vo.kclass
					}
				case ko.modelOK && vo.modelOK && e.keySlot == curK && e.valSlot == curV && e.flag&3 == curF && curF != 0:
					cls = c08KMapInd
				}
				add("map:slot-size", cls, "KeySize=%d ValueSize=%d flags&3=%d, expected %d %d %d (key %d bytes, elem %d bytes)", e.keySlot, e.valSlot, e.flag&3, wantK, wantV, wantF, ko.LSize, vo.LSize)
			}
			if e.bucket != e.bucketDesc {
				add("map:bucket-size", "", "BucketSize=%d bucket descriptor Size_=%d", e.bucket, e.bucketDesc)
			} else if e.flag&3 == 0 {
				if min := 8 + 8*e.keySlot + 8*e.valSlot + tg.word; e.bucket < min {
					add("map:bucket-size", "", "BucketSize=%d < tophash+8*KeySize+8*ValueSize+overflow=%d", e.bucket, min)
				}
			}
		}
	}
	if o.isFunc {
		// reflect.TypeOf(f) resolves to the descriptor of the Signature
		if ps := int64(prog.abi.Size(c08Under(T))); ps != o.LSize {
			cls := ""
			if ps == tg.word && o.LSize == 2*tg.word {
				cls = c08KFunc
			}
			add("elemdesc:func-size", cls, "func type descriptor Size_=%d, value occupies %d", ps, o.LSize)
		}
	}
	return
}

// c08RecursiveFuncMap: the layout of t includes a self-referential named struct N (its definition
// mentions N again behind a pointer, slice, map, chan or func) that has a func-typed field.
func c08RecursiveFuncMap(t types.Type) bool {
	var mentions func(t types.Type, n *types.Named, seen map[types.Type]bool) bool
	mentions = func(t types.Type, n *types.Named, seen map[types.Type]bool) bool {
		if seen[t] {
			return false
		}
		seen[t] = true
		switch u := t.(type) {
		case *types.Alias:
			return mentions(types.Unalias(u), n, seen)
		case *types.Named:
			if u == n {
				return true
			}
			return mentions(u.Underlying(), n, seen)
		case *types.Pointer:
			return mentions(u.Elem(), n, seen)
		case *types.Slice:
			return mentions(u.Elem(), n, seen)
		case *types.Chan:
			return mentions(u.Elem(), n, seen)
		case *types.Array:
			return mentions(u.Elem(), n, seen)
		case *types.Map:
			return mentions(u.Key(), n, seen) || mentions(u.Elem(), n, seen)
		case *types.Signature:
			for _, tup := range []*types.Tuple{u.Params(), u.Results()} {
				for i := 0; i < tup.Len(); i++ {
					if mentions(tup.At(i).Type(), n, seen) {
						return true
					}
				}
			}
		case *types.Struct:
			for i := 0; i < u.NumFields(); i++ {
				if mentions(u.Field(i).Type(), n, seen) {
					return true
				}
			}
		}
		return false
	}
	var walk func(t types.Type, seen map[*types.Named]bool) bool
	walk = func(t types.Type, seen map[*types.Named]bool) bool {
		switch u := t.(type) {
		case *types.Alias:
			return walk(types.Unalias(u), seen)
		case *types.Named:
			if seen[u] {
				return false
			}
			seen[u] = true
			if st, ok := u.Underlying().(*types.Struct); ok && c08LayoutHasFunc(st, map[types.Type]bool{}) && mentions(st, u, map[types.Type]bool{}) {
				return true
			}
			return walk(u.Underlying(), seen)
		case *types.Array:
			return walk(u.Elem(), seen)
		case *types.Struct:
			for i := 0; i < u.NumFields(); i++ {
				if walk(u.Field(i).Type(), seen) {
					return true
				}
			}
		}
		return false
	}
	return walk(t, map[*types.Named]bool{})
}

// c08StdTailPad: (wasm, StdSizes) some struct/array nested in the layout has a size that is not a
// multiple of its alignment in StdSizes' reading (StdSizes does not round struct sizes up).
func c08StdTailPad(tg *c08Target, t types.Type) bool {
	X := c08Expand(t, map[types.Type]types.Type{})
	var walk func(t types.Type, top bool) bool
	walk = func(t types.Type, top bool) bool {
		switch u := c08Under(t).(type) {
		case *types.Array:
			if !top && tg.std.Sizeof(t)%tg.std.Alignof(t) != 0 {
				return true
			}
			return walk(u.Elem(), false)
		case *types.Struct:
			if !top && tg.std.Sizeof(t)%tg.std.Alignof(t) != 0 {
				return true
			}
			for i := 0; i < u.NumFields(); i++ {
				if walk(u.Field(i).Type(), false) {
					return true
				}
			}
		}
		return false
	}
	return walk(X, true)
}

// ---------------------------------------------------------------- fixed probes (run first, every seed)

func c08Probes(g *c08Gen) (ts []types.Type, names []string) {
	f := func(name string, t types.Type) *types.Var { return types.NewField(token.NoPos, g.pkg, name, t, false) }
	i8, i64, c128 := types.Typ[types.Int8], types.Typ[types.Int64], types.Typ[types.Complex128]
	fn := types.NewSignatureType(nil, nil, nil, nil, nil, false)
	zs := types.NewStruct(nil, nil)
	add := func(n string, t types.Type) { ts = append(ts, t); names = append(names, n) }
	// C08-trailing-zero-size-field: the spike's struct and the compiled probe's struct
	add("probe-trailing-zs", types.NewStruct([]*types.Var{f("a", i64), f("b", types.NewArray(i64, 5)), f("z", zs)}, nil))
	add("probe-trailing-zs-spike", types.NewStruct([]*types.Var{f("A", i8), f("B", i64), f("F", fn), f("C", c128), f("Z", types.NewArray(types.Typ[types.Int32], 0))}, nil))
	add("probe-trailing-zs-array", types.NewArray(types.NewStruct([]*types.Var{f("p", types.NewPointer(i64)), f("z", zs)}, nil), 2))
	// C08-word4-align8-scalar
	add("probe-int8-int64", types.NewStruct([]*types.Var{f("a", i8), f("b", i64)}, nil))
	add("probe-int8-complex128", types.NewStruct([]*types.Var{f("a", i8), f("b", c128)}, nil))
	// C08-func-descriptor-one-word
	add("probe-slice-of-func", types.NewSlice(fn))
	add("probe-array-of-func", types.NewArray(fn, 3))
	add("probe-struct-func-field", types.NewStruct([]*types.Var{f("a", i8), f("f", fn), f("b", i8)}, nil))
	add("probe-func", fn)
	// C08-map-indirect-slot-size
	add("probe-map-bigkey", types.NewMap(types.NewArray(i64, 17), types.Typ[types.Int]))
	add("probe-map-bigelem", types.NewMap(types.Typ[types.Int], types.NewArray(i64, 40)))
	// C08-alias-func-extra-size-lost
	afs := types.NewStruct([]*types.Var{f("a", types.Typ[types.Uint32]), f("f", fn), f("b", types.Typ[types.Bool])}, nil)
	add("probe-alias-func-struct", types.NewAlias(types.NewTypeName(token.NoPos, g.pkg, "AProbe1"+g.tag, nil), afs))
	add("probe-field-after-alias", types.NewStruct([]*types.Var{f("x", types.NewAlias(types.NewTypeName(token.NoPos, g.pkg, "AProbe2"+g.tag, nil), afs)), f("y", i8)}, nil))
	// C08-recursive-named-func-lowered-raw: descriptor of chan N needed before N is lowered
	rn := types.NewNamed(types.NewTypeName(token.NoPos, g.pkg, "NProbeRec"+g.tag, nil), types.Typ[types.Int], nil)
	rn.SetUnderlying(types.NewStruct([]*types.Var{f("r0", types.Typ[types.Uint8]), f("r1", fn), f("r2", types.NewMap(types.Typ[types.Int32], rn)), f("r3", types.Typ[types.Uint8])}, nil))
	add("probe-chan-of-recursive", types.NewChan(types.SendRecv, rn))
	// same, with an alias-typed func field and a nested zero-size member (thorough seed 1, type 141068)
	rn2 := types.NewNamed(types.NewTypeName(token.NoPos, g.pkg, "NProbeRec2"+g.tag, nil), types.Typ[types.Int], nil)
	afn := types.NewAlias(types.NewTypeName(token.NoPos, g.pkg, "AProbe3"+g.tag, nil), fn)
	rn2.SetUnderlying(types.NewStruct([]*types.Var{f("r0", types.Typ[types.String]), f("r1", types.NewMap(types.Typ[types.Int32], rn2)),
		f("r2", types.NewStruct([]*types.Var{f("f0", types.Typ[types.Int16]), f("f1", types.NewArray(c128, 0)), f("f2", fn), f("f3", types.NewSlice(types.Typ[types.Uint32]))}, nil)),
		f("r3", afn)}, nil))
	add("probe-chan-of-recursive-alias", types.NewAlias(types.NewTypeName(token.NoPos, g.pkg, "AProbe4"+g.tag, nil), types.NewChan(types.SendRecv, rn2)))
	// wasm StdSizes nested tail padding
	add("probe-nested-tailpad", types.NewStruct([]*types.Var{f("s", types.NewStruct([]*types.Var{f("a", types.Typ[types.Int32]), f("b", i8)}, nil)), f("c", i8)}, nil))
	return
}

// ---------------------------------------------------------------- C-compatible shapes (leg b)

type c08Shape struct {
	ID string          `json:"id"`
	T  json.RawMessage `json:"t"`
}

type c08ShapeT struct {
	K string            `json:"k"`
	N int64             `json:"n"`
	E json.RawMessage   `json:"e"`
	F []json.RawMessage `json:"f"`
}

var c08CScalars = map[string]types.BasicKind{
	"bool": types.Bool, "int8": types.Int8, "uint8": types.Uint8, "int16": types.Int16, "uint16": types.Uint16,
	"int32": types.Int32, "uint32": types.Uint32, "int64": types.Int64, "uint64": types.Uint64,
	"int": types.Int, "uint": types.Uint, "uintptr": types.Uintptr, "float32": types.Float32, "float64": types.Float64,
	"complex64": types.Complex64, "complex128": types.Complex128, "ptr": types.UnsafePointer,
}

func c08ShapeType(g *c08Gen, raw json.RawMessage) types.Type {
	var s c08ShapeT
	if err := json.Unmarshal(raw, &s); err != nil {
		panic(err)
	}
	switch s.K {
	case "arr":
		return types.NewArray(c08ShapeType(g, s.E), s.N)
	case "struct":
		var fs []*types.Var
		for i, f := range s.F {
			fs = append(fs, types.NewField(token.NoPos, g.pkg, fmt.Sprintf("f%d", i), c08ShapeType(g, f), false))
		}
		return types.NewStruct(fs, nil)
	case "ptrint":
		return types.NewPointer(types.Typ[types.Int32])
	}
	k, ok := c08CScalars[s.K]
	if !ok {
		panic("c08: unknown shape kind " + s.K)
	}
	return types.Typ[k]
}

// ---------------------------------------------------------------- driver

var c08LoadMu sync.Mutex

// c08LoadRuntime type-checks the runtime package from source (descriptor emission needs its
// unexported names: structtype, structfield, typehash, ...), with the build tags llgo uses.
// One private copy per target so that no go/types object is shared between goroutines.
func c08LoadRuntime() (*types.Package, error) {
	c08LoadMu.Lock()
	defer c08LoadMu.Unlock()
	cfg := &packages.Config{
		Mode:       packages.NeedName | packages.NeedFiles | packages.NeedCompiledGoFiles | packages.NeedImports | packages.NeedTypes | packages.NeedSyntax | packages.NeedTypesInfo | packages.NeedTypesSizes,
		BuildFlags: []string{"-tags=llgo,math_big_pure_go,purego"},
		Fset:       token.NewFileSet(),
	}
	pkgs, err := packages.Load(cfg, PkgRuntime)
	if err != nil {
		return nil, err
	}
	if len(pkgs) != 1 || pkgs[0].Types == nil {
		return nil, fmt.Errorf("runtime package not loaded: %v", pkgs)
	}
	if len(pkgs[0].Errors) != 0 {
		return nil, fmt.Errorf("runtime package has errors: %v", pkgs[0].Errors[0])
	}
	return pkgs[0].Types, nil
}

func TestVerifC08(t *testing.T) {
	rep := vNewReport("for every generated type and target: go/types Sizes as wrapped by Program.TypeSizes (Sizeof/Alignof/Offsetsof) = LLVM data layout of the generated type (Program.SizeOf/OffsetOf, ABI alignment) = abi.Builder Size/Align/FieldAlign and the emitted descriptor (Size_, Align_, field offsets, element descriptor sizes, map slot sizes); PtrBytes = reference prefix length over that layout")
	defer rep.Write()
	Initialize(InitAll)
	n := vN(5000, 300000)
	if s := os.Getenv("VERIF_C08_N"); s != "" {
		fmt.Sscan(s, &n)
	}
	emitEvery := 1
	if vThorough() {
		emitEvery = 4 // descriptors are emitted for every 4th random type in the thorough tier
	}
	seed := vSeed()

	var shapes []c08Shape
	if p := os.Getenv("VERIF_C08_SHAPES"); p != "" {
		data, err := os.ReadFile(p)
		if err != nil {
			t.Fatal(err)
		}
		if err := json.Unmarshal(data, &shapes); err != nil {
			t.Fatal(err)
		}
	}
	shapeOut := make([]map[string]any, len(shapes))

	var mu sync.Mutex
	var wg sync.WaitGroup
	known := map[string]int{}
	perArch := map[string]int{}
	for _, arch := range c08Archs {
		wg.Add(1)
		go func(arch string) {
			defer wg.Done()
			defer func() {
				if r := recover(); r != nil {
					rep.Fail("monitor:panic", arch, fmt.Sprint(r), nil)
				}
			}()
			rt, err := c08LoadRuntime()
			if err != nil || rt == nil {
				rep.Fail("monitor:no-runtime", arch, fmt.Sprint(err), nil)
				return
			}
			tg := c08NewTarget(arch, rt)
			g := c08NewGen(seed*7919+17, arch)
			one := func(id string, T types.Type, emit bool, shapeIdx int) {
				var res c08Result
				func() {
					defer func() {
						if r := recover(); r != nil {
							res.issues = []c08Issue{{"monitor:panic-in-llgo", fmt.Sprint(r), "crash:size-api-panic"}}
						}
					}()
					res = tg.check(T, emit)
				}()
				rep.Eval(1)
				if arch == "amd64" {
					rep.Sig(c08Skeleton(T))
					if shapeIdx >= 0 {
						shapeOut[shapeIdx] = map[string]any{"id": id, "type": types.TypeString(T, nil),
							"gsize": res.GSize, "galign": res.GAlign, "goffs": res.GOffs,
							"lsize": res.LSize, "lalign": res.LAlign, "loffs": res.LOffs,
							"dsize": res.DSize, "dalign": res.DAlign, "doffs": res.EOffs,
							"trailing_zs": c08TrailingZS(T)}
					}
				}
				for _, is := range res.issues {
					cls := is.class
					ts := c08Str(T)
					sum := fmt.Sprintf("%s on %s: %s  [%s]  type %s", id, arch, is.detail, is.check, ts)
					if strings.HasPrefix(cls, "known:") {
						mu.Lock()
						known[cls]++
						mu.Unlock()
					}
					rep.Fail(cls, id+"@"+arch, sum, map[string]string{"case.txt": fmt.Sprintf(
						"type: %s\ntarget: %s\ncheck: %s\n%s\nobservations: %+v\nreplay: VERIF_SEED=%d VERIF_TIER=%s ./run C08 %s  (type id %s)\n",
						ts, arch, is.check, is.detail, res, seed, os.Getenv("VERIF_TIER"), os.Getenv("VERIF_TIER"), id)})
				}
			}
			pts, pnames := c08Probes(g)
			for i, T := range pts {
				one(pnames[i], T, true, -1)
			}
			for i, s := range shapes {
				one("shape-"+s.ID, c08ShapeType(g, s.T), true, i)
			}
			for i := 0; i < n; i++ {
				T := g.typ(1 + g.rng.Intn(4))
				one(fmt.Sprintf("t%d", i), T, i%emitEvery == 0, -1)
				if i == 1 && arch == "amd64" {
					rep.Sample(map[string]any{"type": types.TypeString(T, nil), "target": arch})
				}
			}
			mu.Lock()
			perArch[arch] = len(pts) + len(shapes) + n
			mu.Unlock()
		}(arch)
	}
	wg.Wait()
	rep.Extra["targets"] = c08Archs
	rep.Extra["types_per_target"] = perArch
	rep.Extra["c_shapes"] = len(shapes)
	kk := make([]string, 0, len(known))
	for k := range known {
		kk = append(kk, k)
	}
	sort.Strings(kk)
	kc := map[string]int{}
	for _, k := range kk {
		kc[k] = known[k]
	}
	rep.Extra["known_class_disagreements"] = kc
	if p := os.Getenv("VERIF_C08_SHAPES_OUT"); p != "" {
		b, _ := json.Marshal(shapeOut)
		if err := os.WriteFile(p, b, 0o644); err != nil {
			t.Fatal(err)
		}
	}
}

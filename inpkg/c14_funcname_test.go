//go:build verif

// C14 leg (3): monitor compiled into package cl by `go test -overlay` (E2).
//
// Generated multi-package Go source (same-named types, methods, interfaces and generic origins in several packages,
// closures, local types in different scopes used as type arguments and as embedders, method values, method expressions,
// go/defer) is type-checked and turned into ONE go/ssa program (InstantiateGenerics, as llgo does).  The real
// (*context).funcName is then asked for the link name of every function of the program, once per "current package".
//
//   (a) global functions (declared functions, methods, closures, generic instances and their closures):
//         - the name must not depend on the package that refers to the function   (cross-package agreement)
//         - two different functions never get the same name                       (uniqueness)
//   (b) synthetic wrappers ($bound, $thunk, promoted-method wrappers) are named after the package that is being compiled;
//       they are emitted into every package that refers to them (computed from the go/ssa reference graph):
//         - inside each such package two different wrappers never get the same name
//
// A go/ssa *Function is the entity; names come only from the code under test.
package cl

import (
	"fmt"
	"go/ast"
	"go/parser"
	"go/token"
	"go/types"
	"math/rand"
	"sort"
	"strings"
	"testing"

	llssa "github.com/goplus/llgo/ssa"
	"golang.org/x/tools/go/ssa"
	"golang.org/x/tools/go/ssa/ssautil"
)

type c14pkg struct {
	path, name string
	src        string
	imports    []string
}

type c14gen struct {
	r    *rand.Rand
	b    strings.Builder
	nvar int
}

func (g *c14gen) p(f string, a ...any) { fmt.Fprintf(&g.b, f+"\n", a...) }
func (g *c14gen) v(p string) string    { g.nvar++; return fmt.Sprintf("%s%d", p, g.nvar) }

func (g *c14gen) closures(depth int, ind string) {
	if depth <= 0 {
		return
	}
	n := g.r.Intn(3)
	for i := 0; i < n; i++ {
		switch g.r.Intn(4) {
		case 0:
			g.p("%sfunc() {", ind)
			g.closures(depth-1, ind+"\t")
			g.p("%s}()", ind)
		case 1:
			f := g.v("f")
			g.p("%s%s := func() {", ind, f)
			g.closures(depth-1, ind+"\t")
			g.p("%s}", ind)
			g.p("%s%s()", ind, f)
		case 2:
			g.p("%sgo func() {", ind)
			g.closures(depth-1, ind+"\t")
			g.p("%s}()", ind)
		default:
			g.p("%sdefer func() {", ind)
			g.closures(depth-1, ind+"\t")
			g.p("%s}()", ind)
		}
	}
}

func c14leaf(r *rand.Rand, path, name string, idx int) c14pkg {
	g := &c14gen{r: r}
	g.p("package %s\n", name)
	for _, tn := range []string{"T", "U"} {
		if tn == "T" {
			g.p("type T struct{ x int }")
		} else {
			g.p("type U [4]byte")
		}
		for _, m := range []string{"A", "M", "Z"} {
			g.p("func (r %s) %s() {", tn, m)
			g.closures(r.Intn(3), "\t")
			g.p("}")
		}
		g.p("func (r *%s) P() {", tn)
		g.closures(r.Intn(3), "\t")
		g.p("}")
	}
	isets := [][]string{{"M"}, {"A", "M"}, {"M", "Z"}}
	g.p("type I interface {")
	for _, m := range isets[idx%3] {
		g.p("\t%s()", m)
	}
	g.p("}")
	g.p("type G[X any] struct{ v X }")
	g.p("func (q G[X]) M() {")
	g.closures(r.Intn(3), "\t")
	g.p("}")
	g.p("func (q *G[X]) P() {")
	g.closures(r.Intn(3), "\t")
	g.p("}")
	g.p("func F[X any]() {\n\tvar z X\n\t_ = z")
	g.closures(1+r.Intn(2), "\t")
	g.p("}")
	g.p("func F2[X any, E any]() {")
	g.closures(r.Intn(2), "\t")
	g.p("}")
	g.p("var W = func() {")
	g.closures(r.Intn(2), "\t")
	g.p("}")
	g.p("func init() {\n\tfunc() {}()\n}")
	g.p("func init() {\n\tfunc() {}()\n}")
	return c14pkg{path: path, name: name, src: g.b.String()}
}

// user package: random uses of everything
func c14user(r *rand.Rand, path, name string, leaves, gens []c14pkg) c14pkg {
	g := &c14gen{r: r}
	alias := map[string]string{}
	var imps []string
	all := append(append([]c14pkg{}, leaves...), gens...)
	g.p("package %s\n", name)
	g.p("import (")
	for i, p := range all {
		a := fmt.Sprintf("im%d", i)
		alias[p.path] = a
		g.p("\t%s %q", a, p.path)
		imps = append(imps, p.path)
	}
	g.p(")\n")
	for _, p := range all {
		g.p("var _ = %s.W", alias[p.path])
	}
	g.p("type A1 = %s.T", alias[leaves[r.Intn(len(leaves))].path])
	g.p("type T struct{ own int }")
	g.p("func (T) M() {}")
	nf := 2 + r.Intn(3)
	for f := 0; f < nf; f++ {
		if r.Intn(3) == 0 {
			g.p("func (T) run%d() {", f)
		} else {
			g.p("func run%d() {", f)
		}
		c14scope(g, r, alias, leaves, all, "\t", 0, nil)
		g.p("}")
	}
	return c14pkg{path: path, name: name, src: g.b.String(), imports: imps}
}

func c14scope(g *c14gen, r *rand.Rand, alias map[string]string, leaves, all []c14pkg, ind string, depth int, locals []string) {
	nseg := 1 + r.Intn(3)
	for s := 0; s < nseg; s++ {
		wrapped := false
		sind := ind
		loc := append([]string{}, locals...)
		if r.Intn(2) == 0 {
			// a local type named L (always in its own block so that the name can repeat)
			g.p("%s{", ind)
			wrapped = true
			sind = ind + "\t"
			switch r.Intn(4) {
			case 0:
				g.p("%stype L struct{ a [%d]byte }", sind, 1+r.Intn(9))
			case 1:
				g.p("%stype L [%d]int", sind, 1+r.Intn(9))
			case 2:
				lp := leaves[r.Intn(len(leaves))]
				g.p("%stype L struct{ %s.%s }", sind, alias[lp.path], []string{"T", "U"}[r.Intn(2)])
				x := g.v("x")
				g.p("%svar %s interface{ M() } = L{}", sind, x)
				g.p("%s%s.M()", sind, x)
				y := g.v("y")
				g.p("%svar %s interface{ P() } = &L{}", sind, y)
				g.p("%s%s.P()", sind, y)
			default:
				lp := leaves[r.Intn(len(leaves))]
				g.p("%stype L = %s.T", sind, alias[lp.path])
			}
			loc = append(loc, "L")
		}
		nuse := 1 + r.Intn(4)
		for u := 0; u < nuse; u++ {
			lp := leaves[r.Intn(len(leaves))]
			gp := all[r.Intn(len(all))]
			la, ga := alias[lp.path], alias[gp.path]
			tn := []string{"T", "U"}[r.Intn(2)]
			// type argument
			args := []string{la + ".T", la + ".U", "A1", "T", "int", "string"}
			args = append(args, loc...)
			arg := args[r.Intn(len(args))]
			switch r.Intn(6) {
			case 0:
				arg = "*" + arg
			case 1:
				arg = "[]" + arg
			case 2:
				arg = "map[string]" + arg
			case 3:
				if r.Intn(2) == 0 {
					arg = fmt.Sprintf("[%d]%s", 2+r.Intn(2), arg)
				} else {
					arg = "chan " + arg
				}
			}
			switch r.Intn(9) {
			case 0: // method value
				x, f := g.v("x"), g.v("f")
				m := []string{"A", "M", "Z", "P"}[r.Intn(4)]
				g.p("%svar %s %s.%s\n%s%s := %s.%s\n%s%s()", sind, x, la, tn, sind, f, x, m, sind, f)
			case 1: // method expression / go / defer
				x := g.v("x")
				g.p("%svar %s %s.%s", sind, x, la, tn)
				switch r.Intn(4) {
				case 0:
					g.p("%s_ = %s.%s.M\n%s_ = %s", sind, la, tn, sind, x)
				case 1:
					g.p("%s_ = (*%s.%s).P\n%s_ = %s", sind, la, tn, sind, x)
				case 2:
					g.p("%sgo %s.M()", sind, x)
				default:
					g.p("%sdefer %s.P()", sind, x)
				}
			case 2: // interface method value / thunk
				i := g.v("i")
				g.p("%svar %s %s.I = %s.%s{}", sind, i, la, alias[leaves[r.Intn(len(leaves))].path], tn)
				switch r.Intn(4) {
				case 0:
					f := g.v("f")
					g.p("%s%s := %s.M\n%s%s()", sind, f, i, sind, f)
				case 1:
					g.p("%s_ = %s.I.M\n%s_ = %s", sind, la, sind, i)
				case 2:
					g.p("%sgo %s.M()", sind, i)
				default:
					g.p("%sdefer %s.M()", sind, i)
				}
			case 3, 4: // generic function
				switch r.Intn(4) {
				case 0:
					g.p("%s%s.F[%s]()", sind, ga, arg)
				case 1:
					f := g.v("f")
					g.p("%s%s := %s.F[%s]\n%s%s()", sind, f, ga, arg, sind, f)
				case 2:
					g.p("%sgo %s.F2[%s, %s]()", sind, ga, arg, args[r.Intn(len(args))])
				default:
					g.p("%sdefer %s.F[%s]()", sind, ga, arg)
				}
			case 5, 6: // generic method
				q := g.v("q")
				g.p("%svar %s %s.G[%s]", sind, q, ga, arg)
				switch r.Intn(5) {
				case 0:
					g.p("%s%s.M()", sind, q)
				case 1:
					f := g.v("f")
					g.p("%s%s := %s.M\n%s%s()", sind, f, q, sind, f)
				case 2:
					f := g.v("f")
					g.p("%s%s := %s.P\n%s%s()", sind, f, q, sind, f)
				case 3:
					g.p("%s_ = %s.G[%s].M\n%s_ = %s", sind, ga, arg, sind, q)
				default:
					g.p("%sgo %s.P()", sind, q)
				}
			case 7: // own same-named type
				x, f := g.v("x"), g.v("f")
				g.p("%svar %s T\n%s%s := %s.M\n%s%s()", sind, x, sind, f, x, sind, f)
			default:
				g.closures(2, sind)
			}
		}
		if depth < 2 && r.Intn(2) == 0 {
			switch r.Intn(3) {
			case 0:
				g.p("%s{", sind)
				c14scope(g, r, alias, leaves, all, sind+"\t", depth+1, loc)
				g.p("%s}", sind)
			case 1:
				g.p("%sfunc() {", sind)
				c14scope(g, r, alias, leaves, all, sind+"\t", depth+1, loc)
				g.p("%s}()", sind)
			default:
				g.p("%sgo func() {", sind)
				c14scope(g, r, alias, leaves, all, sind+"\t", depth+1, loc)
				g.p("%s}()", sind)
			}
		}
		if wrapped {
			g.p("%s}", ind)
		}
	}
}

type c14importer map[string]*types.Package

func (m c14importer) Import(path string) (*types.Package, error) {
	if p, ok := m[path]; ok {
		return p, nil
	}
	return nil, fmt.Errorf("package %q not found", path)
}

func c14build(pkgs []c14pkg) (*ssa.Program, []*ssa.Package, error) {
	fset := token.NewFileSet()
	imp := c14importer{}
	prog := ssa.NewProgram(fset, ssa.SanityCheckFunctions|ssa.InstantiateGenerics)
	var out []*ssa.Package
	for _, p := range pkgs {
		f, err := parser.ParseFile(fset, p.path+"/x.go", p.src, parser.ParseComments)
		if err != nil {
			return nil, nil, fmt.Errorf("%s: %v", p.path, err)
		}
		info := &types.Info{
			Types: map[ast.Expr]types.TypeAndValue{}, Defs: map[*ast.Ident]types.Object{}, Uses: map[*ast.Ident]types.Object{},
			Implicits: map[ast.Node]types.Object{}, Instances: map[*ast.Ident]types.Instance{}, Scopes: map[ast.Node]*types.Scope{},
			Selections: map[*ast.SelectorExpr]*types.Selection{}, FileVersions: map[*ast.File]string{},
		}
		conf := types.Config{Importer: imp}
		tp, err := conf.Check(p.path, fset, []*ast.File{f}, info)
		if err != nil {
			return nil, nil, fmt.Errorf("%s: %v", p.path, err)
		}
		imp[p.path] = tp
		out = append(out, prog.CreatePackage(tp, []*ast.File{f}, info, true))
	}
	prog.Build()
	return prog, out, nil
}

func c14isGlobal(fn *ssa.Function) bool {
	if fn.Origin() != nil || fn.Pkg != nil {
		return true
	}
	if recv := fn.Signature.Recv(); recv != nil && recv.Origin() != recv {
		return true
	}
	return false
}

// home packages of a function: where its body is emitted
func c14homes(all map[*ssa.Function]bool) map[*ssa.Function]map[*types.Package]bool {
	refs := map[*ssa.Function][]*ssa.Function{}
	for f := range all {
		for _, b := range f.Blocks {
			for _, ins := range b.Instrs {
				var ops [12]*ssa.Value
				for _, op := range ins.Operands(ops[:0]) {
					if op == nil || *op == nil {
						continue
					}
					if g, ok := (*op).(*ssa.Function); ok {
						refs[f] = append(refs[f], g)
					}
				}
			}
		}
		for _, a := range f.AnonFuncs {
			refs[f] = append(refs[f], a)
		}
	}
	homes := map[*ssa.Function]map[*types.Package]bool{}
	add := func(f *ssa.Function, p *types.Package) bool {
		if homes[f] == nil {
			homes[f] = map[*types.Package]bool{}
		}
		if homes[f][p] {
			return false
		}
		homes[f][p] = true
		return true
	}
	var work []*ssa.Function
	for f := range all {
		if f.Pkg != nil && f.Origin() == nil && f.TypeParams() == nil {
			add(f, f.Pkg.Pkg)
			work = append(work, f)
		}
	}
	// promoted-method wrappers are reached through method tables, not through instructions: they are emitted with the
	// method set of their receiver type, i.e. in the package of that type
	for f := range all {
		if strings.HasPrefix(f.Synthetic, "wrapper for") && f.Signature.Recv() != nil {
			if n, ok := c14recvOf(f); ok && n.Obj().Pkg() != nil {
				if add(f, n.Obj().Pkg()) {
					work = append(work, f)
				}
			}
		}
	}
	for len(work) > 0 {
		f := work[len(work)-1]
		work = work[:len(work)-1]
		for _, g := range refs[f] {
			if g.Pkg != nil && g.Origin() == nil {
				continue // declared function: lives in its own package
			}
			ch := false
			for p := range homes[f] {
				if add(g, p) {
					ch = true
				}
			}
			if ch {
				work = append(work, g)
			}
		}
	}
	return homes
}

func c14recvOf(fn *ssa.Function) (*types.Named, bool) {
	var t types.Type
	name := fn.Name()
	switch {
	case strings.HasSuffix(name, "$bound") && len(fn.FreeVars) == 1:
		t = fn.FreeVars[0].Type()
	case strings.HasSuffix(name, "$thunk") && fn.Signature.Params().Len() > 0:
		t = fn.Signature.Params().At(0).Type()
	case fn.Signature.Recv() != nil:
		t = fn.Signature.Recv().Type()
	default:
		return nil, false
	}
	if p, ok := t.(*types.Pointer); ok {
		t = p.Elem()
	}
	n, ok := types.Unalias(t).(*types.Named)
	return n, ok
}

// go/ssa creates a fresh wrapper Function per use site; wrappers of the same method object are ONE entity
func c14sameEntity(a, b *ssa.Function) bool {
	if a == b {
		return true
	}
	if a.Object() == nil || a.Object() != b.Object() || a.Name() != b.Name() || a.Synthetic != b.Synthetic || a.Synthetic == "" {
		return false
	}
	ra, rb := a.Signature.Recv(), b.Signature.Recv()
	if (ra == nil) != (rb == nil) {
		return false
	}
	return ra == nil || types.Identical(ra.Type(), rb.Type())
}

func c14class(a, b *ssa.Function) string {
	na, oka := c14recvOf(a)
	nb, okb := c14recvOf(b)
	if oka && okb && !c14isGlobal(a) && !c14isGlobal(b) {
		oa, ob := na.Obj(), nb.Obj()
		if oa.Name() == ob.Name() && oa.Pkg() != ob.Pkg() {
			return "e2:wrapper-receiver-pkg"
		}
		if oa.Pkg() == ob.Pkg() && oa != ob && (oa.Parent() != oa.Pkg().Scope() || ob.Parent() != ob.Pkg().Scope()) {
			return "e2:wrapper-local-scope"
		}
		if oa.Name() == ob.Name() && na.Origin() != nb.Origin() {
			return "e2:wrapper-receiver-pkg"
		}
		return "e2:wrapper-collision"
	}
	if c14isGlobal(a) && c14isGlobal(b) {
		return "e2:global-collision"
	}
	return "e2:mixed-collision"
}

func c14desc(fn *ssa.Function) string {
	s := fn.String()
	if fn.Synthetic != "" {
		s += " {" + fn.Synthetic + "}"
	}
	return s
}

func TestVerifC14FuncNames(t *testing.T) {
	rep := vNewReport("E2 cl.(*context).funcName over all functions of go/ssa programs built from generated multi-package source: " +
		"global functions: name independent of the referring package and unique; wrappers: unique inside every package that emits them; evaluations = names compared")
	defer rep.Write()
	seed := vSeed()
	n := vN(40, 1500)
	built := 0
	ninv := 0
	for it := 0; it < n; it++ {
		r := rand.New(rand.NewSource(seed*1000003 + int64(it)))
		leaves := []c14pkg{c14leaf(r, "ex.com/pa", "pa", 0), c14leaf(r, "ex.com/pb", "pb", 1), c14leaf(r, "ex.com/sub/pa", "pa", 2)}
		gens := []c14pkg{c14leaf(r, "ex.com/g", "g", 0), c14leaf(r, "ex.com/sub/g", "g", 1)}
		users := []c14pkg{c14user(r, "ex.com/m1", "m1", leaves, gens), c14user(r, "ex.com/cmd/m1", "m1", leaves, gens)}
		pkgs := append(append(append([]c14pkg{}, leaves...), gens...), users...)
		prog, spkgs, err := c14build(pkgs)
		if err != nil {
			rep.Count("invalid_generated", 1)
			if ninv < 3 {
				ninv++
				rep.Extra[fmt.Sprintf("invalid_example_%d", ninv)] = err.Error()
			}
			continue
		}
		built++
		all := ssautil.AllFunctions(prog)
		homes := c14homes(all)
		lprog := llssa.NewProgram(nil)
		ctxs := map[*types.Package]*context{}
		for _, sp := range spkgs {
			ctxs[sp.Pkg] = &context{prog: lprog, goTyps: sp.Pkg, goProg: prog, goPkg: sp, fset: prog.Fset,
				loaded: map[*types.Package]*pkgInfo{}, skips: map[string]none{}}
		}
		var fns []*ssa.Function
		for f := range all {
			if f.TypeParams() != nil && len(f.TypeArgs()) == 0 {
				continue // generic origin: never emitted
			}
			if f.Synthetic == "package initializer" && f.Pkg == nil {
				continue
			}
			fns = append(fns, f)
		}
		sort.Slice(fns, func(i, j int) bool { return c14desc(fns[i]) < c14desc(fns[j]) })
		nameIn := func(cur *types.Package, f *ssa.Function) string {
			_, name, _ := ctxs[cur].funcName(f)
			return name
		}
		src := map[string]string{}
		for _, p := range pkgs {
			src[strings.TrimPrefix(p.path, "ex.com/")+"/x.go"] = p.src
		}
		// (a) global functions
		global := map[string]*ssa.Function{}
		for _, f := range fns {
			if !c14isGlobal(f) {
				continue
			}
			first := ""
			for i, sp := range spkgs {
				nm := nameIn(sp.Pkg, f)
				rep.Eval(1)
				if i == 0 {
					first = nm
				} else if nm != first {
					rep.Fail("e2:name-depends-on-referrer", c14desc(f), fmt.Sprintf("%s is named %q when compiled from %s and %q from %s",
						c14desc(f), first, spkgs[0].Pkg.Path(), nm, sp.Pkg.Path()), src)
					break
				}
			}
			if g, ok := global[first]; ok && !c14sameEntity(g, f) {
				rep.Fail(c14class(f, g), first, fmt.Sprintf("two functions share the link name %q: %s and %s", first, c14desc(g), c14desc(f)), src)
			} else {
				global[first] = f
			}
			kind := "func"
			if f.Parent() != nil {
				kind = "closure"
			}
			if f.Origin() != nil {
				kind += ":instance"
			}
			if f.Signature.Recv() != nil {
				kind += ":method"
			}
			rep.Sig("global:" + kind)
		}
		// (b) wrappers inside each package that emits them
		for _, sp := range spkgs {
			local := map[string]*ssa.Function{}
			for _, f := range fns {
				if c14isGlobal(f) || !homes[f][sp.Pkg] {
					continue
				}
				nm := nameIn(sp.Pkg, f)
				rep.Eval(1)
				if g, ok := global[nm]; ok {
					rep.Fail(c14class(f, g), nm, fmt.Sprintf("in package %s wrapper %s gets the link name %q of %s", sp.Pkg.Path(), c14desc(f), nm, c14desc(g)), src)
				}
				if g, ok := local[nm]; ok && !c14sameEntity(g, f) {
					rep.Fail(c14class(f, g), nm, fmt.Sprintf("in package %s two wrappers share the link name %q: %s and %s", sp.Pkg.Path(), nm, c14desc(g), c14desc(f)), src)
				} else {
					local[nm] = f
				}
				w := "wrapper"
				for _, suf := range []string{"$bound", "$thunk"} {
					if strings.HasSuffix(f.Name(), suf) {
						w = suf
					}
				}
				rep.Sig("wrapper:" + w)
			}
		}
		if it == 0 {
			rep.Sample(map[string]any{"functions": len(fns), "global_names": len(global)})
		}
	}
	rep.Count("programs", built)
	if built < n/2 {
		t.Fatalf("only %d of %d generated programs are valid", built, n)
	}
}

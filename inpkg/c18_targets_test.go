//go:build verif

// C18 monitor, compiled into internal/targets by `go test -overlay` (E2).
// Oracle: an independent resolver over raw JSON implementing the stated law
// (scalars: nearest definition in inheritance order; lists: ancestors' resolved lists in
// `inherits` order, then own).  The real Loader/Resolver is driven over every shipped
// target and over generated inheritance forests, in several load orders, with fresh and
// shared loaders; cyclic / missing / malformed cases run in a child process under a CPU
// rlimit so that a crash or a runaway recursion is an observation, not the end of the monitor.
package targets

import (
	"encoding/json"
	"fmt"
	"math/rand"
	"os"
	"os/exec"
	"path/filepath"
	"reflect"
	"sort"
	"strings"
	"syscall"
	"testing"
)

type c18raw map[string]any

func c18loadRaw(dir, name string) (c18raw, error) {
	data, err := os.ReadFile(filepath.Join(dir, name+".json"))
	if err != nil {
		return nil, err
	}
	var m c18raw
	if err := json.Unmarshal(data, &m); err != nil {
		return nil, err
	}
	return m, nil
}

func c18zero(v any) bool {
	switch x := v.(type) {
	case nil:
		return true
	case string:
		return x == ""
	case bool:
		return !x
	case []any:
		return len(x) == 0
	}
	return false
}

// reference resolver
func c18ref(dir, name string, stack map[string]bool) (c18raw, error) {
	if stack[name] {
		return nil, fmt.Errorf("cycle at %s", name)
	}
	stack[name] = true
	defer delete(stack, name)
	m, err := c18loadRaw(dir, name)
	if err != nil {
		return nil, err
	}
	res := c18raw{}
	merge := func(src c18raw) {
		for k, v := range src {
			if k == "inherits" || c18zero(v) {
				continue
			}
			if l, ok := v.([]any); ok {
				old, _ := res[k].([]any)
				res[k] = append(append([]any{}, old...), l...)
			} else {
				res[k] = v
			}
		}
	}
	if p, ok := m["inherits"].([]any); ok {
		for _, pn := range p {
			s, ok := pn.(string)
			if !ok {
				return nil, fmt.Errorf("bad inherits")
			}
			pr, err := c18ref(dir, s, stack)
			if err != nil {
				return nil, err
			}
			merge(pr)
		}
	}
	merge(m)
	return res, nil
}

type c18field struct {
	key    string
	kind   reflect.Kind // String, Bool, Slice
	goName string
}

// every configuration field, discovered by reflection (a field added later is covered too)
func c18fields() []c18field {
	var out []c18field
	rt := reflect.TypeOf(Config{})
	for i := 0; i < rt.NumField(); i++ {
		f := rt.Field(i)
		tag := strings.Split(f.Tag.Get("json"), ",")[0]
		if tag == "" || tag == "-" {
			continue
		}
		out = append(out, c18field{tag, f.Type.Kind(), f.Name})
	}
	return out
}

func c18cfgToRaw(c *Config) c18raw {
	b, _ := json.Marshal(c)
	var m c18raw
	json.Unmarshal(b, &m)
	out := c18raw{}
	for k, v := range m {
		if !c18zero(v) {
			out[k] = v
		}
	}
	return out
}

func c18known(want c18raw) c18raw {
	known := map[string]bool{}
	for _, f := range c18fields() {
		known[f.key] = true
	}
	w := c18raw{}
	for k, v := range want {
		if known[k] {
			w[k] = v
		}
	}
	return w
}

func c18diff(g, w c18raw) string {
	var ks []string
	seen := map[string]bool{}
	for k := range g {
		ks = append(ks, k)
		seen[k] = true
	}
	for k := range w {
		if !seen[k] {
			ks = append(ks, k)
		}
	}
	sort.Strings(ks)
	var sb strings.Builder
	for _, k := range ks {
		if !reflect.DeepEqual(g[k], w[k]) {
			fmt.Fprintf(&sb, "field %q: got %v want %v; ", k, g[k], w[k])
		}
	}
	return sb.String()
}

func c18names(dir string) []string {
	entries, _ := os.ReadDir(dir)
	var names []string
	for _, e := range entries {
		if !e.IsDir() && strings.HasSuffix(e.Name(), ".json") {
			names = append(names, strings.TrimSuffix(e.Name(), ".json"))
		}
	}
	sort.Strings(names)
	return names
}

func c18dump(dir string) map[string]string {
	files := map[string]string{}
	for _, n := range c18names(dir) {
		b, _ := os.ReadFile(filepath.Join(dir, n+".json"))
		files["forest/"+n+".json"] = string(b)
	}
	return files
}

// checks one acyclic directory in several load orders; returns number of comparisons
func c18checkDir(rep *vReport, dir string, names []string, rng *rand.Rand, label string, attach bool) int {
	n := 0
	want := map[string]c18raw{}
	for _, nm := range names {
		w, err := c18ref(dir, nm, map[string]bool{})
		if err != nil {
			rep.Fail(label+":reference-error", nm, "reference resolver failed on an acyclic forest: "+err.Error(), nil)
			return n
		}
		want[nm] = c18known(w)
	}
	files := func() map[string]string {
		if attach {
			return c18dump(dir)
		}
		return nil
	}
	cmp := func(order string, nm string, got *Config, err error) {
		n++
		if err != nil {
			rep.Fail(label+":resolve-error", nm, fmt.Sprintf("order=%s: %v", order, err), files())
			return
		}
		if got.Name != nm {
			rep.Fail(label+":name", nm, fmt.Sprintf("order=%s: Name=%q", order, got.Name), files())
		}
		if d := c18diff(c18cfgToRaw(got), want[nm]); d != "" {
			rep.Fail(label+":field-mismatch:"+order, nm, fmt.Sprintf("order=%s target=%s: %s", order, nm, d), files())
		}
	}
	// (1) fresh resolver per target
	for _, nm := range names {
		got, err := NewResolver(dir).Resolve(nm)
		cmp("fresh", nm, got, err)
	}
	// (2) one shared loader, forward, reverse and shuffled orders; everything resolved twice
	orders := map[string][]string{"forward": names}
	rev := append([]string{}, names...)
	for i, j := 0, len(rev)-1; i < j; i, j = i+1, j-1 {
		rev[i], rev[j] = rev[j], rev[i]
	}
	orders["reverse"] = rev
	sh := append([]string{}, names...)
	rng.Shuffle(len(sh), func(i, j int) { sh[i], sh[j] = sh[j], sh[i] })
	orders["shuffled"] = sh
	for _, on := range []string{"forward", "reverse", "shuffled"} {
		r := NewResolver(dir)
		for pass := 0; pass < 2; pass++ {
			for _, nm := range orders[on] {
				got, err := r.Resolve(nm)
				cmp(fmt.Sprintf("%s-pass%d", on, pass), nm, got, err)
			}
		}
	}
	// (3) LoadAll
	all, err := NewLoader(dir).LoadAll()
	if err != nil {
		rep.Fail(label+":loadall-error", "LoadAll", err.Error(), files())
	} else {
		if len(all) != len(names) {
			rep.Fail(label+":loadall-count", "LoadAll", fmt.Sprintf("%d configs for %d files", len(all), len(names)), files())
		}
		for _, nm := range names {
			if c, ok := all[nm]; ok {
				cmp("loadall", nm, c, nil)
			}
		}
	}
	return n
}

func TestVerifC18Shipped(t *testing.T) {
	rep := vNewReport("every *.json under <repo>/targets (complete enumeration) resolved fresh, with a shared loader in forward/reverse/shuffled order twice, and through LoadAll; compared field-by-field with an independent resolver over the raw JSON. distinct = distinct (inheritance depth, number of parents, set of defined keys) signatures")
	defer rep.Write()
	dir := os.Getenv("VERIF_TARGETS")
	names := c18names(dir)
	if len(names) < 50 {
		t.Fatalf("only %d targets in %q", len(names), dir)
	}
	rng := rand.New(rand.NewSource(vSeed()))
	n := c18checkDir(rep, dir, names, rng, "shipped", false)
	rep.Eval(n)
	for _, nm := range names {
		m, _ := c18loadRaw(dir, nm)
		var ks []string
		for k := range m {
			ks = append(ks, k)
		}
		sort.Strings(ks)
		rep.Sig(fmt.Sprintf("%v|%v", m["inherits"], ks))
	}
	rep.Extra["shipped_targets"] = len(names)
	rep.Extra["exhaustive_over_shipped_targets"] = true
	rep.Sample(map[string]any{"target": names[len(names)/2], "resolved": func() any { w, _ := c18ref(dir, names[len(names)/2], map[string]bool{}); return w }()})
}

// ---- generated forests

type c18forest struct {
	dir   string
	names []string
	kind  string // acyclic | cycle | missing | malformed
	bad   string // a target whose resolution must fail
}

func c18value(rng *rand.Rand, f c18field, owner string) any {
	switch f.kind {
	case reflect.String:
		if rng.Intn(12) == 0 {
			return "" // explicit empty: counts as undefined
		}
		return fmt.Sprintf("%s.%s.%d", owner, f.key, rng.Intn(5))
	case reflect.Bool:
		return rng.Intn(3) != 0
	case reflect.Slice:
		k := rng.Intn(4)
		l := make([]any, 0, k)
		for i := 0; i < k; i++ {
			l = append(l, fmt.Sprintf("%s.%s[%d]", owner, f.key, i))
		}
		return l
	}
	return nil
}

func c18gen(rng *rand.Rand, root string, idx int, kind string) c18forest {
	dir := filepath.Join(root, fmt.Sprintf("f%05d", idx))
	os.MkdirAll(dir, 0o755)
	fields := c18fields()
	n := 2 + rng.Intn(9)
	depthOf := make([]int, n)
	f := c18forest{dir: dir, kind: kind}
	for i := 0; i < n; i++ {
		f.names = append(f.names, fmt.Sprintf("t%d", i))
	}
	// node i may inherit only from lower-numbered nodes (acyclic), depth <= 5
	docs := make([]map[string]any, n)
	for i := 0; i < n; i++ {
		doc := map[string]any{}
		var parents []any
		if i > 0 {
			np := rng.Intn(4) // 0..3 parents
			perm := rng.Perm(i)
			for _, p := range perm {
				if len(parents) >= np {
					break
				}
				if depthOf[p]+1 > 5 {
					continue
				}
				parents = append(parents, f.names[p])
				if depthOf[p]+1 > depthOf[i] {
					depthOf[i] = depthOf[p] + 1
				}
			}
		}
		if parents != nil || rng.Intn(4) == 0 {
			if parents == nil {
				parents = []any{}
			}
			doc["inherits"] = parents
		}
		density := rng.Intn(4) // 0: sparse .. 3: every field
		for _, fd := range fields {
			if density == 3 || rng.Intn(4) < density+1 && rng.Intn(2) == 0 {
				doc[fd.key] = c18value(rng, fd, f.names[i])
			}
		}
		if rng.Intn(5) == 0 {
			doc["unknown-key"] = "ignored"
		}
		docs[i] = doc
	}
	switch kind {
	case "cycle":
		// close a cycle of length 1..4 through existing edges' direction
		l := 1 + rng.Intn(4)
		if l > n {
			l = n
		}
		nodes := rng.Perm(n)[:l]
		for k := 0; k < l; k++ {
			a, b := nodes[k], nodes[(k+1)%l]
			inh, _ := docs[a]["inherits"].([]any)
			pos := 0
			if len(inh) > 0 {
				pos = rng.Intn(len(inh) + 1)
			}
			inh = append(inh[:pos:pos], append([]any{f.names[b]}, inh[pos:]...)...)
			docs[a]["inherits"] = inh
		}
		f.bad = f.names[nodes[0]]
	case "missing":
		a := rng.Intn(n)
		inh, _ := docs[a]["inherits"].([]any)
		docs[a]["inherits"] = append(inh, "no-such-target")
		f.bad = f.names[a]
	}
	for i := 0; i < n; i++ {
		b, _ := json.MarshalIndent(docs[i], "", "  ")
		if kind == "malformed" && i == n-1 {
			b = b[:len(b)/2]
			f.bad = f.names[i]
		}
		os.WriteFile(filepath.Join(dir, f.names[i]+".json"), b, 0o644)
	}
	return f
}

// Child: resolve one target; prints OK/ERR. Runs under RLIMIT_CPU so a hang is bounded in CPU time.
func TestVerifC18Child(t *testing.T) {
	spec := os.Getenv("VERIF_C18_CHILD")
	if spec == "" {
		t.Skip("child only")
	}
	syscall.Setrlimit(syscall.RLIMIT_CPU, &syscall.Rlimit{Cur: 30, Max: 30})
	for _, item := range strings.Split(spec, ";") {
		p := strings.SplitN(item, "|", 2)
		fmt.Printf("C18BEGIN %s\n", item)
		_, err := NewResolver(p[0]).Resolve(p[1])
		if err != nil {
			fmt.Printf("C18RESULT %s ERR\n", item)
		} else {
			fmt.Printf("C18RESULT %s OK\n", item)
		}
	}
}

func TestVerifC18Forests(t *testing.T) {
	rep := vNewReport("random inheritance forests (2-10 targets, <=3 parents each, depth<=5, diamonds, every Config field populated by reflection, explicit empty values, unknown keys) resolved in 4 load orders vs the independent resolver; forests with a cycle (length 1-4), a missing parent or malformed JSON are resolved in a child process (CPU-rlimited) and must yield an error. distinct = distinct (kind, #targets, edge list) shapes")
	defer rep.Write()
	rng := rand.New(rand.NewSource(vSeed()*7919 + 18))
	root, err := os.MkdirTemp(os.Getenv("VERIF_WORK"), "c18f")
	if err != nil {
		t.Fatal(err)
	}
	defer os.RemoveAll(root)
	total := vN(1500, 60000)
	var hostile []c18forest
	kinds := map[string]int{}
	for i := 0; i < total; i++ {
		kind := "acyclic"
		switch r := rng.Intn(10); {
		case r == 0:
			kind = "cycle"
		case r == 1:
			if rng.Intn(2) == 0 {
				kind = "missing"
			} else {
				kind = "malformed"
			}
		}
		f := c18gen(rng, root, i, kind)
		kinds[kind]++
		var shape []string
		for _, nm := range f.names {
			m, _ := c18loadRaw(f.dir, nm)
			if m != nil {
				shape = append(shape, fmt.Sprint(m["inherits"]))
			}
		}
		rep.Sig(kind + strings.Join(shape, ";"))
		if kind == "acyclic" {
			n := c18checkDir(rep, f.dir, f.names, rng, "forest", true)
			rep.Eval(n)
			if i == 3 {
				rep.Sample(map[string]any{"kind": kind, "files": c18dump(f.dir)})
			}
			os.RemoveAll(f.dir)
		} else {
			hostile = append(hostile, f)
			if len(hostile) == 1 {
				rep.Sample(map[string]any{"kind": kind, "must_fail": f.bad, "files": c18dump(f.dir)})
			}
		}
	}
	rep.Extra["forest_kinds"] = kinds
	// hostile forests: batches in child processes; a batch that dies is bisected to single cases
	var run func(batch []c18forest)
	crashes := 0
	run = func(batch []c18forest) {
		var items []string
		for _, f := range batch {
			items = append(items, f.dir+"|"+f.bad)
		}
		cmd := exec.Command(os.Args[0], "-test.run", "^TestVerifC18Child$", "-test.v")
		cmd.Env = append(os.Environ(), "VERIF_C18_CHILD="+strings.Join(items, ";"))
		out, err := cmd.CombinedOutput()
		res := map[string]string{}
		for _, ln := range strings.Split(string(out), "\n") {
			if strings.HasPrefix(ln, "C18RESULT ") {
				p := strings.Fields(ln)
				res[p[1]] = p[2]
			}
		}
		for _, f := range batch {
			r, ok := res[f.dir+"|"+f.bad]
			if !ok {
				continue
			}
			rep.Eval(1)
			if r != "ERR" {
				rep.Fail(f.kind+":accepted", f.bad, fmt.Sprintf("%s forest: Resolve(%s) returned no error", f.kind, f.bad), c18dump(f.dir))
			}
		}
		if len(res) < len(batch) {
			// child died: the first case without a result is the one that killed it
			var rest []c18forest
			for _, f := range batch {
				if _, ok := res[f.dir+"|"+f.bad]; !ok {
					rest = append(rest, f)
				}
			}
			f := rest[0]
			rep.Eval(1)
			tail := string(out)
			if len(tail) > 600 {
				tail = tail[:300] + " ... " + tail[len(tail)-300:]
			}
			cls := "crash"
			if strings.Contains(string(out), "stack overflow") || strings.Contains(string(out), "stack exceeds") {
				cls = "stack-overflow"
			} else if err != nil && (strings.Contains(err.Error(), "CPU") || strings.Contains(err.Error(), "killed")) {
				cls = "cpu-limit"
			}
			rep.Fail(f.kind+":"+cls, f.bad, fmt.Sprintf("%s forest: resolving %s killed the process (%v): %s", f.kind, f.bad, err, tail), c18dump(f.dir))
			crashes++
			if len(rest) > 1 && crashes < 12 {
				run(rest[1:])
			}
		}
	}
	for i := 0; i < len(hostile); i += 200 {
		j := i + 200
		if j > len(hostile) {
			j = len(hostile)
		}
		run(hostile[i:j])
	}
}

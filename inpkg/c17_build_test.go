//go:build verif

// C17 monitor for the -X importpath.name=value parser of internal/build (addGlobalString,
// addGlobalStringWith, validateRewriteInput), compiled into the package by `go test -overlay` (E2).
//
// Documentation of the code: errXflags "-X flag requires argument of the form
// importpath.name=value"; Config.GlobalRewrites "Keys are fully qualified package paths ... Each
// Rewrites entry maps variable names to replacement string values ... "main" applies to all root
// main packages in the current build"; parameter skipIfExists.  Laws:
//
//	P  split without loss: for importpath P (non-empty, no white space; may contain dots, slashes,
//	   non-ASCII), identifier N and ANY value V (further '=', dots, blanks, quotes, newlines,
//	   multi-byte, empty), the argument P+"."+N+"="+V stores exactly V under [P][N] - the name is
//	   what follows the last dot before the first '=', the value everything after the first '='
//	M  order and multiplicity: a list of arguments applied with skipIfExists=false leaves the LAST
//	   value of every (package, name); with skipIfExists=true (addGlobalString) the FIRST; nothing
//	   else appears in the table; "main" fans out to every main package, to none when there is none
//	E  malformed arguments (no '=', no dot before '=', empty package, white space in the package,
//	   name not an identifier) panic with an error value and leave the table untouched
//
// The reference is a shadow map maintained by the monitor.
package build

import (
	"encoding/json"
	"fmt"
	"go/token"
	"math/rand"
	"reflect"
	"runtime/debug"
	"strings"
	"testing"
)

var c17xfValAlpha = []string{" ", "\t", "\n", "\"", "'", "\\", "-", "$", "(", ")", "{", "}", "=", "=", ".", ".", "/", "a", "b", "é", "世", "\U0001F600", "x.y=z"}
var c17xfPkgs = []string{"main", "main", "runtime", "example.com/m/pkg", "github.com/user/repo.v2/sub", "a.b/c.d", "pkg/é世", "x-y_z/v2", "testing"}
var c17xfNames = []string{"Version", "buildVersion", "_x", "X1", "é", "défaut", "A_b"}

func c17xfVal(r *rand.Rand) string {
	n := r.Intn(7)
	var sb strings.Builder
	for i := 0; i < n; i++ {
		sb.WriteString(c17xfValAlpha[r.Intn(len(c17xfValAlpha))])
	}
	return sb.String()
}

func c17xfCopy(m map[string]Rewrites) map[string]map[string]string {
	out := map[string]map[string]string{}
	for p, vs := range m {
		out[p] = map[string]string{}
		for k, v := range vs {
			out[p][k] = v
		}
	}
	return out
}

func c17xfApply(conf *Config, arg string, mains []string, skip bool, viaShort bool) (panicked any) {
	defer func() {
		if p := recover(); p != nil {
			panicked = p
		}
	}()
	if viaShort {
		addGlobalString(conf, arg, mains)
	} else {
		addGlobalStringWith(conf, arg, mains, skip)
	}
	return nil
}

func c17xfCase(v map[string]any) map[string]string {
	b, _ := json.MarshalIndent(v, "", " ")
	return map[string]string{"case.json": string(b),
		"HOWTO.txt": "conf := &build.Config{}; apply the arguments of case.json in order with addGlobalStringWith(conf, arg, mainPkgs, skipIfExists) from a test in /repo/internal/build and compare conf.GlobalRewrites with \"want\". Or re-run the check with the same VERIF_SEED and tier.\n"}
}

func TestVerifC17XFlag(t *testing.T) {
	rep := vNewReport("internal/build addGlobalString[With] (-X importpath.name=value): sequences of 1-8 arguments; importpath from 8 paths incl. dots, slashes, non-ASCII and \"main\" (0-3 main packages); name from 7 identifiers incl. non-ASCII; value of 0-6 symbols over {blank, newline, quotes, \\, -, $, (, ), {, }, =, ., /, ASCII, multi-byte, \"x.y=z\"}; skipIfExists fixed per sequence (false = last wins, true/addGlobalString = first wins); 1 in 5 arguments malformed (no '=', no dot before '=', empty package, blank in package, non-identifier name, empty name) which must panic with an error and change nothing. Reference: shadow map. distinct = distinct (mode, #mains, per-argument kind/value-class) sequences")
	defer rep.Write()
	defer func() { // a panic of the code under test outside a guarded call is an observation, not a broken check
		if p := recover(); p != nil {
			rep.Fail("xflag:panic", "monitor", fmt.Sprintf("panic escaped the monitor: %v\n%s", p, debug.Stack()), nil)
		}
	}()

	// fixed cases
	{
		conf := &Config{}
		for _, st := range []struct {
			arg   string
			mains []string
			short bool
		}{
			{"github.com/user/repo.v2/sub.Name=a=b.c = d", nil, false},
			{"main.V=1", []string{"m/a", "m/b"}, false},
			{"main.V=2", []string{"m/a"}, false},
			{"m/b.V=ignored", nil, true},
			{"runtime.buildVersion=", nil, true},
		} {
			if pn := c17xfApply(conf, st.arg, st.mains, st.short, st.short); pn != nil {
				rep.Fail("xflag:wellformed-rejected", "fixed", fmt.Sprintf("well-formed -X argument %q panicked: %v", st.arg, pn), nil)
			}
		}
		want := map[string]map[string]string{"github.com/user/repo.v2/sub": {"Name": "a=b.c = d"}, "m/a": {"V": "2"}, "m/b": {"V": "1"}, "runtime": {"buildVersion": ""}}
		rep.Eval(5)
		if got := c17xfCopy(conf.GlobalRewrites); !reflect.DeepEqual(got, want) {
			rep.Fail("xflag:table", "fixed", fmt.Sprintf("fixed sequence: table %v, want %v", got, want), nil)
		}
	}

	r := rand.New(rand.NewSource(vSeed()*1000003 + 177))
	total := vN(40000, 3000000)
	done := 0
	for done < total {
		conf := &Config{}
		if r.Intn(2) == 0 {
			conf.GlobalRewrites = map[string]Rewrites{}
		}
		shadow := map[string]map[string]string{}
		var mains []string
		for i, n := 0, r.Intn(4); i < n; i++ {
			mains = append(mains, fmt.Sprintf("example.com/m/cmd%d", i))
		}
		skip := r.Intn(2) == 0
		viaShort := skip && r.Intn(2) == 0
		var applied []string
		var sig strings.Builder
		fmt.Fprintf(&sig, "%v%v%d|", skip, viaShort, len(mains))
		n := 1 + r.Intn(8)
		for i := 0; i < n; i++ {
			pkg := c17xfPkgs[r.Intn(len(c17xfPkgs))]
			name := c17xfNames[r.Intn(len(c17xfNames))]
			val := c17xfVal(r)
			bad := ""
			arg := pkg + "." + name + "=" + val
			if r.Intn(5) == 0 {
				switch r.Intn(6) {
				case 0:
					bad, arg = "no-equals", pkg+"."+name
				case 1:
					bad, arg = "no-dot-before-equals", name+"="+val
				case 2:
					bad, arg = "empty-package", "."+name+"="+val
				case 3:
					bad, arg = "blank-in-package", "my pkg/x."+name+"="+val
				case 4:
					bad, arg = "name-not-identifier", pkg+"."+[]string{"1x", "a-b", "a b", "x+"}[r.Intn(4)]+"="+val
				case 5:
					bad, arg = "empty-name", pkg+".="+val
				}
			}
			before := c17xfCopy(conf.GlobalRewrites)
			pn := c17xfApply(conf, arg, mains, skip, viaShort)
			applied = append(applied, arg)
			done++
			rep.Eval(1)
			vc := "p"
			if strings.ContainsAny(val, "=.") {
				vc = "s"
			}
			if val == "" {
				vc = "0"
			}
			if strings.Contains(pkg, ".") {
				vc += "d"
			}
			if pkg == "main" {
				vc += "m"
			}
			sig.WriteString(bad + vc + ",")
			info := map[string]any{"arguments": applied, "main_pkgs": mains, "skipIfExists": skip, "via_addGlobalString": viaShort}
			if bad != "" {
				_, isErr := pn.(error)
				if pn == nil {
					rep.Fail("xflag:malformed-accepted", bad, fmt.Sprintf("malformed -X argument %q (%s) was accepted; table now %v", arg, bad, c17xfCopy(conf.GlobalRewrites)), c17xfCase(info))
				} else if !isErr {
					rep.Fail("xflag:malformed-crash", bad, fmt.Sprintf("malformed -X argument %q (%s) ended in a non-error panic: %v", arg, bad, pn), c17xfCase(info))
				}
				if after := c17xfCopy(conf.GlobalRewrites); !reflect.DeepEqual(after, before) {
					rep.Fail("xflag:malformed-altered-table", bad, fmt.Sprintf("malformed -X argument %q (%s) changed the table from %v to %v", arg, bad, before, after), c17xfCase(info))
				}
				if pn == nil {
					break // the shadow no longer applies
				}
				continue
			}
			if !token.IsIdentifier(name) {
				t.Fatalf("generator: %q is not an identifier", name)
			}
			if pn != nil {
				rep.Fail("xflag:wellformed-rejected", "apply", fmt.Sprintf("well-formed -X argument %q panicked: %v", arg, pn), c17xfCase(info))
				break
			}
			targets := []string{pkg}
			if pkg == "main" {
				targets = mains
			}
			for _, p := range targets {
				if shadow[p] == nil {
					shadow[p] = map[string]string{}
				}
				if _, ok := shadow[p][name]; ok && skip {
					continue
				}
				shadow[p][name] = val
			}
			got := c17xfCopy(conf.GlobalRewrites)
			if !reflect.DeepEqual(got, shadow) {
				info["got"], info["want"] = got, shadow
				rep.Fail("xflag:table", "apply", fmt.Sprintf("after %q (mains=%q skipIfExists=%v) the table is %v, want %v", applied, mains, skip, got, shadow), c17xfCase(info))
				break
			}
			if done == 30 {
				rep.Sample(map[string]any{"arguments": applied, "main_pkgs": mains, "skipIfExists": skip, "table": got})
			}
		}
		rep.Sig(sig.String())
	}
}

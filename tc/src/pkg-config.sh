#!/bin/bash
mode=""; pkg=""
for a in "$@"; do
  case "$a" in
    --libs) mode=libs;; --cflags) mode=cflags;;
    bdw-gc|libuv|libunwind) pkg="$a";;
  esac
done
if [ -n "$pkg" ]; then
  if [ "$mode" = libs ]; then
    case "$pkg" in
      bdw-gc) echo "-L@TC@/lib -lgc";;
      libuv) echo "-L@TC@/lib -luv";;
      libunwind) echo "-L@TC@/lib -lunwind";;
    esac
  else
    echo "-I@TC@/include"
  fi
  exit 0
fi
exec /usr/bin/pkg-config "$@"

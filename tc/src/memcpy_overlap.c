#define _GNU_SOURCE
#include <stddef.h>
#include <stdint.h>
#include <string.h>
#include <unistd.h>
#include <execinfo.h>
#include <stdlib.h>
/* memcpy interposer: reports overlapping source/destination (UB), then behaves as memmove */
void *memcpy(void *dst, const void *src, size_t n) {
  uintptr_t d = (uintptr_t)dst, s = (uintptr_t)src;
  if (n && d != s && ((d < s && d + n > s) || (s < d && s + n > d))) {
    static const char msg[] = "VERIF-MEMCPY-OVERLAP\n";
    write(2, msg, sizeof msg - 1);
    void *bt[8]; int k = backtrace(bt, 8); backtrace_symbols_fd(bt, k, 2);
    if (getenv("VERIF_MEMCPY_ABORT")) abort();
  }
  return memmove(dst, src, n);
}

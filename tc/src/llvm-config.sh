#!/bin/bash
if [ "$1" = "--bindir" ]; then echo @TC@/bin; exit 0; fi
exec /usr/bin/llvm-config-14 "$@"

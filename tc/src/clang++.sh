#!/bin/bash
# shim: strip lld-only options, add shim include/lib dirs, opaque pointers for .ll inputs,
# and repair LLVM-14's printing of pointer cmpxchg (operand types omitted) in .ll inputs.
args=()
ll=0
link=1
tmpfiles=()
for a in "$@"; do
  case "$a" in
    -fuse-ld=lld) continue;;
    -c|-S|-E|-fsyntax-only|--version|-v) link=0;;
    -Wl,--error-limit=0) continue;;
    --icf=safe) unset 'args[${#args[@]}-1]'; continue;;
    *.ll)
      ll=1
      if grep -qE '(cmpxchg|atomicrmw) ' "$a" 2>/dev/null; then
        f=$(mktemp --suffix=.ll)
        V='(@"[^"]*"|[@%][-A-Za-z0-9_.$]+|null)'
        sed -E -e "s/(cmpxchg (weak )?(volatile )?ptr $V), $V, $V /\\1, ptr \\5, ptr \\6 /" \
               -e "s/(atomicrmw (volatile )?xchg ptr $V), $V /\\1, ptr \\4 /" "$a" > "$f"
        tmpfiles+=("$f"); a="$f"
      fi;;
  esac
  args+=("$a")
done
extra=()
if [ $ll = 1 ]; then extra=(-mllvm -opaque-pointers); fi
if [ $link = 1 ]; then
  # GNU ld is order-sensitive for static archives, lld (which llgo expects) is not: group everything
  /usr/bin/clang++-14 "${extra[@]}" -Wl,-rpath,@TC@/lib -I@TC@/include -L@TC@/lib -L/usr/lib/gcc/x86_64-linux-gnu/12 -Wl,--start-group "${args[@]}" -Wl,--end-group
else
  /usr/bin/clang++-14 "${extra[@]}" -I@TC@/include "${args[@]}"
fi
rc=$?
for f in "${tmpfiles[@]}"; do rm -f "$f"; done
exit $rc

/* minimal libunwind.h shim for x86_64 linux, UNW_LOCAL_ONLY */
#ifndef VERIF_LIBUNWIND_H
#define VERIF_LIBUNWIND_H
#include <stdint.h>
#include <stddef.h>
#include <ucontext.h>
typedef uint64_t unw_word_t;
typedef ucontext_t unw_context_t;
typedef struct unw_cursor { unw_word_t opaque[127]; } unw_cursor_t;
#define UNW_REG_IP 16
#define UNW_REG_SP 7
#ifdef __cplusplus
extern "C" {
#endif
int _Ux86_64_getcontext(unw_context_t *);
int _ULx86_64_init_local(unw_cursor_t *, unw_context_t *);
int _ULx86_64_step(unw_cursor_t *);
int _ULx86_64_get_reg(unw_cursor_t *, int, unw_word_t *);
int _ULx86_64_get_proc_name(unw_cursor_t *, char *, size_t, unw_word_t *);
#ifdef __cplusplus
}
#endif
#define unw_getcontext(uc) _Ux86_64_getcontext(uc)
#define unw_init_local _ULx86_64_init_local
#define unw_step _ULx86_64_step
#define unw_get_reg _ULx86_64_get_reg
#define unw_get_proc_name _ULx86_64_get_proc_name
#endif

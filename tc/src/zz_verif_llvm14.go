//go:build llvm14 && verif

package ssa

import "github.com/xgo-dev/llvm"

func init() {
	llvm.ParseCommandLineOptions([]string{"llgo", "-opaque-pointers"}, "")
}

// String half of the C05 VM (fixed source).

package main

var strs [8]string
var smap map[string]int64

// compile-time constant strings (mirrored in gen/c05_slices.py CONSTS)
const (
	k0 = ""
	k1 = "plain ascii"
	k2 = "h\u00e9llo, \u4e16\u754c \U0001F600"
	k3 = "a\x00b\x00"
	k4 = "\xff\xfe\xed\xa0\x80\xf4\x90\x80\x80\xc0\xaf\xe2\x82"
	k5 = "0123456789abcdef0123456789abcdef0123456789abcdef0123456789abcdef"
)

func resetStr() {
	for i := 0; i < 8; i++ {
		strs[i] = ""
	}
	smap = make(map[string]int64)
}

func shash(s string) uint64 {
	h := uint64(14695981039346656037)
	for i := 0; i < len(s); i++ {
		h = (h ^ uint64(s[i])) * 1099511628211
	}
	return h
}

func sst(s string) {
	puts(" l=")
	puti(int64(len(s)))
	puts(" h=")
	putu(shash(s))
	if len(s) <= 40 {
		puts(" x=")
		for i := 0; i < len(s); i++ {
			putx(s[i])
		}
	}
}

func b2i(b bool) int64 {
	if b {
		return 1
	}
	return 0
}

func opStr(op int64, a []int64) {
	switch op {
	case 30: // sset d xHEX
		strs[a[0]] = string(hexBytes(0))
		sst(strs[a[0]])
	case 31: // scat d a b
		strs[a[0]] = strs[a[1]] + strs[a[2]]
		sst(strs[a[0]])
	case 32: // scatn d n i1..in
		var r string
		switch a[1] {
		case 3:
			r = strs[a[2]] + strs[a[3]] + strs[a[4]]
		case 4:
			r = strs[a[2]] + strs[a[3]] + strs[a[4]] + strs[a[5]]
		case 5:
			r = strs[a[2]] + strs[a[3]] + strs[a[4]] + strs[a[5]] + strs[a[6]]
		default:
			for i := int64(0); i < a[1]; i++ {
				r += strs[a[2+i]]
			}
		}
		strs[a[0]] = r
		sst(r)
	case 33: // scmp a b
		x, y := strs[a[0]], strs[a[1]]
		puts(" lt=")
		puti(b2i(x < y))
		puts(" le=")
		puti(b2i(x <= y))
		puts(" eq=")
		puti(b2i(x == y))
		puts(" ne=")
		puti(b2i(x != y))
		puts(" gt=")
		puti(b2i(x > y))
		puts(" ge=")
		puti(b2i(x >= y))
	case 34: // sidx a i
		c := strs[a[0]][a[1]]
		puts(" b=")
		puti(int64(c))
	case 35: // ssl d a i j
		s := strs[a[1]]
		i, j := a[2], a[3]
		var r string
		if i < 0 && j < 0 {
			r = s[:]
		} else if i < 0 {
			r = s[:j]
		} else if j < 0 {
			r = s[i:]
		} else {
			r = s[i:j]
		}
		strs[a[0]] = r
		sst(r)
	case 36: // srange a mode
		s := strs[a[0]]
		h := uint64(7)
		c := 0
		switch a[1] {
		case 0:
			for i, r := range s {
				h = (h ^ uint64(i)<<32 ^ uint64(uint32(r))) * 1099511628211
				if c < 12 {
					putc(' ')
					puti(int64(i))
					putc(':')
					puti(int64(r))
				}
				c++
			}
		case 1:
			for i := range s {
				h = (h ^ uint64(i)) * 1099511628211
				c++
			}
		case 2:
			for range s {
				c++
			}
		default:
			for _, r := range s {
				h = (h ^ uint64(uint32(r))) * 1099511628211
				c++
			}
		}
		puts(" c=")
		puti(int64(c))
		puts(" h=")
		putu(h)
	case 37: // s2b d a
		slB[a[0]] = []byte(strs[a[1]])
		stB(slB[a[0]], 0)
	case 38: // b2s d a
		strs[a[0]] = string(slB[a[1]])
		sst(strs[a[0]])
	case 39: // s2r d a
		slR[a[0]] = []rune(strs[a[1]])
		stR(slR[a[0]], 0)
	case 40: // r2s d a
		strs[a[0]] = string(slR[a[1]])
		sst(strs[a[0]])
	case 41: // i2s d kind v
		v := a[2]
		var r string
		switch a[1] {
		case 0:
			r = string(rune(v))
		case 1:
			r = string(v)
		case 2:
			r = string(uint64(v))
		case 3:
			r = string(uint8(v))
		case 4:
			r = string(int8(v))
		case 5:
			r = string(uint32(v))
		case 6:
			r = string(int(v))
		case 7:
			r = string(int16(v))
		default:
			r = string(uint16(v))
		}
		strs[a[0]] = r
		sst(r)
	case 42: // mput a v
		smap[strs[a[0]]] = a[1]
		puts(" n=")
		puti(int64(len(smap)))
	case 43: // mget a
		v, ok := smap[strs[a[0]]]
		puts(" v=")
		puti(v)
		puts(" ok=")
		puti(b2i(ok))
	case 44: // mdel a
		delete(smap, strs[a[0]])
		puts(" n=")
		puti(int64(len(smap)))
	case 45: // mlen
		puts(" n=")
		puti(int64(len(smap)))
	case 46: // appstr d a s pc : append([]byte, string...)
		x := slB[a[1]]
		r := append(x, strs[a[2]]...)
		chkAppB(x, r, len(strs[a[2]]))
		slB[a[0]] = r
		stB(r, a[3])
	case 47: // copystr a i j s k l : copy([]byte, string)
		x := slB[a[0]]
		if a[1] >= 0 {
			x = x[a[1]:a[2]]
		}
		y := strs[a[3]]
		if a[4] >= 0 {
			y = y[a[4]:a[5]]
		}
		n := copy(x, y)
		puts(" n=")
		puti(int64(n))
		stB(slB[a[0]], 0)
	case 48: // sdump a
		sst(strs[a[0]])
	case 49: // s2rp a : print-only conversions
		s := strs[a[0]]
		rs := []rune(s)
		bs := []byte(s)
		puts(" r:")
		stR(rs, 0)
		puts(" b:")
		stB(bs, 0)
		puts(" back=")
		puti(b2i(string(bs) == s))
		puts(" rt:")
		sst(string(rs))
	case 50: // sslr d a p q : slice at positions derived from len (for strings whose length the script does not know)
		s := strs[a[1]]
		n := int64(len(s))
		i := a[2] % (n + 1)
		j := i + a[3]%(n+1-i)
		strs[a[0]] = s[i:j]
		sst(strs[a[0]])
	case 51: // sidxr a p
		s := strs[a[0]]
		if len(s) == 0 {
			puts(" empty")
		} else {
			puts(" b=")
			puti(int64(s[a[1]%int64(len(s))]))
		}
	case 52: // r2sv d a n v1..vn : fill rune slot a with the given values, convert
		n := a[2]
		rs := make([]rune, n)
		for i := int64(0); i < n; i++ {
			rs[i] = rune(a[3+i])
		}
		slR[a[1]] = rs
		strs[a[0]] = string(rs)
		sst(strs[a[0]])
	case 53: // scmpb a b : string(bytes) compared in place
		b := slB[a[0]]
		y := strs[a[1]]
		puts(" eq=")
		puti(b2i(string(b) == y))
		puts(" lt=")
		puti(b2i(string(b) < y))
		puts(" gt=")
		puti(b2i(y < string(b)))
	case 55: // sbld d n a : r += strs[a], n times
		r := strs[a[0]]
		for i := int64(0); i < a[1]; i++ {
			r += strs[a[2]]
		}
		strs[a[0]] = r
		sst(r)
	case 57: // sconst d k
		var r string
		switch a[1] {
		case 0:
			r = k0
		case 1:
			r = k1
		case 2:
			r = k2
		case 3:
			r = k3
		case 4:
			r = k4
		default:
			r = k5
		}
		strs[a[0]] = r
		sst(r)
	case 58: // brange a : range over string(bytes) directly
		c := 0
		h := uint64(7)
		for i, r := range string(slB[a[0]]) {
			h = (h ^ uint64(i)<<32 ^ uint64(uint32(r))) * 1099511628211
			c++
		}
		puts(" c=")
		puti(int64(c))
		puts(" h=")
		putu(h)
	default:
		puts(" BADOP")
	}
}

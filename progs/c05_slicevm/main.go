// C05 slice/string VM: reads a script from stdin (one command per line, integers; tokens starting with 'x' are
// hex byte strings; '#' starts a comment), executes it on pools of slices/strings and writes one line per step to
// stdout.  Everything printed is determined by the Go spec for the scripts gen/c05_slices.py produces.
// The VM's own plumbing (input, tokenising, output) deliberately avoids append/copy/string conversion so that a
// defect in those shows up in the step that exercises it, not in the harness.

package main

import "syscall"

var in []byte
var pos int

var ob [1 << 16]byte
var on int

func flush() {
	o := 0
	for o < on {
		k, err := syscall.Write(1, ob[o:on])
		if err != nil || k <= 0 {
			break
		}
		o += k
	}
	on = 0
}

func putc(c byte) {
	if on == len(ob) {
		flush()
	}
	ob[on] = c
	on++
}

func puts(s string) {
	for i := 0; i < len(s); i++ {
		putc(s[i])
	}
}

func putu(u uint64) {
	var t [20]byte
	n := 20
	if u == 0 {
		putc('0')
		return
	}
	for u > 0 {
		n--
		t[n] = byte('0' + u%10)
		u /= 10
	}
	for ; n < 20; n++ {
		putc(t[n])
	}
}

func puti(i int64) {
	if i < 0 {
		putc('-')
		putu(uint64(-i))
	} else {
		putu(uint64(i))
	}
}

func putx(b byte) {
	const hx = "0123456789abcdef"
	putc(hx[b>>4])
	putc(hx[b&15])
}

func readAll() {
	buf := make([]byte, 1<<20)
	n := 0
	for {
		if n == len(buf) {
			nb := make([]byte, 2*len(buf))
			for i := 0; i < n; i++ {
				nb[i] = buf[i]
			}
			buf = nb
		}
		k, err := syscall.Read(0, buf[n:])
		if k <= 0 || err != nil {
			break
		}
		n += k
	}
	in = buf[:n]
}

var args [96]int64
var na int
var hx [4][2]int
var nh int

func parseLine() bool {
	if pos >= len(in) {
		return false
	}
	na = 0
	nh = 0
	for pos < len(in) && in[pos] != '\n' {
		c := in[pos]
		if c == ' ' || c == '\r' || c == '\t' {
			pos++
			continue
		}
		if c == '#' {
			for pos < len(in) && in[pos] != '\n' {
				pos++
			}
			break
		}
		if c == 'x' {
			pos++
			s := pos
			for pos < len(in) && in[pos] != ' ' && in[pos] != '\n' {
				pos++
			}
			if nh < len(hx) {
				hx[nh][0] = s
				hx[nh][1] = pos
				nh++
			}
			continue
		}
		neg := false
		if c == '-' {
			neg = true
			pos++
		}
		var v int64
		for pos < len(in) && in[pos] >= '0' && in[pos] <= '9' {
			v = v*10 + int64(in[pos]-'0')
			pos++
		}
		if neg {
			v = -v
		}
		if na < len(args) {
			args[na] = v
			na++
		}
		for pos < len(in) && in[pos] != ' ' && in[pos] != '\n' {
			pos++ // junk inside a token: skip
		}
	}
	pos++
	return true
}

func unhex(c byte) byte {
	if c >= '0' && c <= '9' {
		return c - '0'
	}
	if c >= 'a' && c <= 'f' {
		return c - 'a' + 10
	}
	return c - 'A' + 10
}

func hexBytes(k int) []byte {
	if k >= nh {
		return make([]byte, 0)
	}
	s, e := hx[k][0], hx[k][1]
	n := (e - s) / 2
	b := make([]byte, n)
	for i := 0; i < n; i++ {
		b[i] = unhex(in[s+2*i])<<4 | unhex(in[s+2*i+1])
	}
	return b
}

func resetAll() {
	resetZ()
	resetB()
	resetH()
	resetT()
	resetQ()
	resetW()
	resetR()
	resetStr()
}

func step() {
	defer func() {
		if r := recover(); r != nil {
			puts(" PANIC")
		}
	}()
	op := args[0]
	if op >= 30 {
		opStr(op, args[1:na])
		return
	}
	a := args[2:na]
	switch args[1] {
	case 0:
		opZ(op, a)
	case 1:
		opB(op, a)
	case 2:
		opH(op, a)
	case 3:
		opT(op, a)
	case 4:
		opQ(op, a)
	case 5:
		opW(op, a)
	case 6:
		opR(op, a)
	default:
		puts(" BADTYPE")
	}
}

func main() {
	readAll()
	resetAll()
	stepno := int64(0)
	for parseLine() {
		if na == 0 {
			continue
		}
		if args[0] == 0 {
			resetAll()
			puts("# ")
			puti(args[1])
			putc('\n')
			flush()
			stepno = 0
			continue
		}
		stepno++
		puti(stepno)
		putc(' ')
		puti(args[0])
		step()
		putc('\n')
	}
	puts("END\n")
	flush()
}

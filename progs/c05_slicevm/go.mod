module c05vm

go 1.24

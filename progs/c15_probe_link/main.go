// Fixed probe of finding C15-alias-struct-methods-link: an alias of an unnamed struct type that has promoted
// methods; llgo names the promoted-method wrappers after the alias in the type descriptor but not where the
// wrappers are defined, so the link fails with an undefined reference.
package main

import (
	"fmt"
	"reflect"
)

type E struct{ A int }

func (e *E) String() string {
	if e == nil {
		return "nilE"
	}
	return fmt.Sprint("E", e.A)
}

type A = struct {
	*E
	F1 uint8
}

type T struct {
	A
	F1 int8
}

func main() {
	v := T{A: A{E: &E{3}, F1: 1}, F1: 2}
	t := reflect.TypeOf(v)
	fmt.Println(t.Field(0).Name, t.Field(0).Type.String(), t.Field(0).Type.NumMethod(), t.NumMethod())
	fmt.Println(v.A.String(), reflect.ValueOf(v.A).MethodByName("String").Call(nil)[0])
	var a any = v.A
	fmt.Println(a.(fmt.Stringer).String())
}

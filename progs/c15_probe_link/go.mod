module probe15l

go 1.24

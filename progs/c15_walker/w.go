// Package w is the fixed reflect/fmt walker of check C15.  It is compiled, unchanged, by llgo and by
// the reference go toolchain(s); everything it prints is determined by the Go specification and the
// documentation of reflect/fmt (no addresses, no map iteration order, no Size/Align/Offset of types that
// contain func values).  Regions between "//DYN-BEGIN" and "//DYN-END" are removed by the generator in
// "const" programs, so that such a program contains no reflect.Value.Method / MethodByName call with a
// non-constant argument.
package w

import (
	"fmt"
	"os"
	"reflect"
	"sort"
	"strconv"
	"strings"
	"unsafe"
)

// ---------------------------------------------------------------- output

func P(s string) { os.Stdout.WriteString(s + "\n") }

func Header(id, sig string) { P("U " + id + " " + sig) }

// Try runs f; a panic is printed (go never panics here: the check treats a PANIC line in the reference
// output as a generator bug).
func Try(tag string, f func()) {
	defer func() {
		if r := recover(); r != nil {
			P("PANIC " + tag + ": " + panicText(r))
		}
	}()
	f()
}

func panicText(r any) string {
	switch x := r.(type) {
	case error:
		return x.Error()
	case string:
		return x
	case fmt.Stringer:
		return x.String()
	}
	return "?"
}

func Ptr[T any](v T) *T { return &v }

// Err / Str are the stock implementers of error and fmt.Stringer.
type Err struct{ Msg string }

func (e Err) Error() string { return "err:" + e.Msg }

type Str struct{ N int }

func (s Str) String() string { return "str#" + strconv.Itoa(s.N) }

func b2s(b bool) string {
	if b {
		return "1"
	}
	return "0"
}

func itoa(i int) string { return strconv.Itoa(i) }

// ---------------------------------------------------------------- type walk

// funcFree: Size/Align/Offset are printed only for types that hold no func value directly
// (func values are two words in llgo: the documented permitted difference).
func funcFree(t reflect.Type) bool {
	switch t.Kind() {
	case reflect.Func:
		return false
	case reflect.Array:
		return funcFree(t.Elem())
	case reflect.Struct:
		for i := 0; i < t.NumField(); i++ {
			if !funcFree(t.Field(i).Type) {
				return false
			}
		}
	}
	return true
}

func idx(ix []int) string {
	s := make([]string, len(ix))
	for i, x := range ix {
		s[i] = itoa(x)
	}
	return "[" + strings.Join(s, ",") + "]"
}

func typeLine(t reflect.Type) string {
	pkg := strconv.Quote(t.PkgPath())
	if Avoid["C15-named-iface-pkgpath"] && t.Kind() == reflect.Interface && t.Name() != "" {
		pkg = "(avoided)"
	}
	return "kind=" + t.Kind().String() + " name=" + strconv.Quote(t.Name()) + " str=" + strconv.Quote(t.String()) +
		" pkg=" + pkg + " cmp=" + b2s(t.Comparable()) + " nm=" + itoa(t.NumMethod())
}

// Type prints everything reflect knows about t, then about its component types (depth-limited).
func Type(t reflect.Type) {
	seen := map[reflect.Type]bool{}
	typeWalk(t, 0, seen)
}

func typeWalk(t reflect.Type, d int, seen map[reflect.Type]bool) {
	if seen[t] {
		P("T" + itoa(d) + " again " + t.String())
		return
	}
	seen[t] = true
	pre := "T" + itoa(d) + " "
	P(pre + typeLine(t))
	ff := funcFree(t)
	if ff {
		P(pre + "size=" + itoa(int(t.Size())) + " align=" + itoa(t.Align()) + " falign=" + itoa(t.FieldAlign()))
	}
	Try("methods", func() { typeMethods(pre, t) })
	var kids []reflect.Type
	switch t.Kind() {
	case reflect.Int, reflect.Int8, reflect.Int16, reflect.Int32, reflect.Int64,
		reflect.Uint, reflect.Uint8, reflect.Uint16, reflect.Uint32, reflect.Uint64, reflect.Uintptr,
		reflect.Float32, reflect.Float64, reflect.Complex64, reflect.Complex128:
		P(pre + "bits=" + itoa(t.Bits()))
	case reflect.Struct:
		P(pre + "numfield=" + itoa(t.NumField()))
		names := []string{}
		for i := 0; i < t.NumField(); i++ {
			f := t.Field(i)
			s := pre + "f" + itoa(i) + " name=" + f.Name + " pkg=" + strconv.Quote(f.PkgPath) + " tag=" + strconv.Quote(string(f.Tag)) +
				" anon=" + b2s(f.Anonymous) + " idx=" + idx(f.Index) + " exp=" + b2s(f.IsExported()) + " type=" + strconv.Quote(f.Type.String())
			if ff {
				s += " off=" + itoa(int(f.Offset))
			}
			if v, ok := f.Tag.Lookup("k"); ok {
				s += " k=" + strconv.Quote(v)
			}
			if v := f.Tag.Get("json"); v != "" {
				s += " json=" + strconv.Quote(v)
			}
			P(s)
			names = append(names, f.Name)
			kids = append(kids, f.Type)
			// names reachable through embedding (promotion and ambiguity rules)
			if f.Anonymous {
				et := f.Type
				if et.Kind() == reflect.Pointer {
					et = et.Elem()
				}
				if et.Kind() == reflect.Struct {
					for j := 0; j < et.NumField(); j++ {
						names = append(names, et.Field(j).Name)
						ft := et.Field(j).Type
						if ft.Kind() == reflect.Pointer {
							ft = ft.Elem()
						}
						if et.Field(j).Anonymous && ft.Kind() == reflect.Struct {
							for k := 0; k < ft.NumField(); k++ {
								names = append(names, ft.Field(k).Name)
							}
						}
					}
				}
			}
		}
		names = append(names, "Nope", "F0", "f1")
		sort.Strings(names)
		last := ""
		for _, n := range names {
			if n == last {
				continue
			}
			last = n
			Try("FieldByName", func() {
				f, ok := t.FieldByName(n)
				if !ok {
					P(pre + "byname " + n + " none")
					return
				}
				s := pre + "byname " + n + " idx=" + idx(f.Index) + " type=" + strconv.Quote(f.Type.String()) + " anon=" + b2s(f.Anonymous) + " pkg=" + strconv.Quote(f.PkgPath)
				if ff && len(f.Index) == 1 {
					s += " off=" + itoa(int(f.Offset))
				}
				g := t.FieldByIndex(f.Index)
				s += " byindex=" + g.Name + ":" + strconv.Quote(g.Type.String())
				P(s)
			})
		}
		Try("FieldByNameFunc", func() {
			f, ok := t.FieldByNameFunc(func(s string) bool { return strings.HasPrefix(s, "F") })
			P(pre + "bynamefunc F* " + b2s(ok) + " " + f.Name + idx(f.Index))
		})
	case reflect.Pointer, reflect.Slice:
		P(pre + "elem=" + strconv.Quote(t.Elem().String()))
		kids = append(kids, t.Elem())
	case reflect.Array:
		P(pre + "elem=" + strconv.Quote(t.Elem().String()) + " len=" + itoa(t.Len()))
		kids = append(kids, t.Elem())
	case reflect.Chan:
		P(pre + "elem=" + strconv.Quote(t.Elem().String()) + " dir=" + t.ChanDir().String() + " dirn=" + itoa(int(t.ChanDir())))
		kids = append(kids, t.Elem())
	case reflect.Map:
		P(pre + "key=" + strconv.Quote(t.Key().String()) + " elem=" + strconv.Quote(t.Elem().String()))
		kids = append(kids, t.Key(), t.Elem())
	case reflect.Func:
		s := pre + "numin=" + itoa(t.NumIn()) + " numout=" + itoa(t.NumOut()) + " variadic=" + b2s(t.IsVariadic())
		for i := 0; i < t.NumIn(); i++ {
			s += " in" + itoa(i) + "=" + strconv.Quote(t.In(i).String())
			kids = append(kids, t.In(i))
		}
		for i := 0; i < t.NumOut(); i++ {
			s += " out" + itoa(i) + "=" + strconv.Quote(t.Out(i).String())
			kids = append(kids, t.Out(i))
		}
		P(s)
	}
	Try("derived", func() { derived(pre, t) })
	if d < 2 {
		for _, k := range kids {
			typeWalk(k, d+1, seen)
		}
	} else {
		for _, k := range kids {
			if !seen[k] {
				seen[k] = true
				P("T" + itoa(d+1) + " " + typeLine(k))
			}
		}
	}
}

func methodLine(m reflect.Method) string {
	s := "name=" + m.Name + " pkg=" + strconv.Quote(m.PkgPath) + " index=" + itoa(m.Index) + " exp=" + b2s(m.IsExported()) + " type=" + strconv.Quote(m.Type.String())
	s += " numin=" + itoa(m.Type.NumIn()) + " numout=" + itoa(m.Type.NumOut()) + " variadic=" + b2s(m.Type.IsVariadic())
	if m.Func.IsValid() {
		s += " func=" + strconv.Quote(m.Func.Type().String()) + " fk=" + m.Func.Kind().String()
	} else {
		s += " func=invalid"
	}
	return s
}

func typeMethods(pre string, t reflect.Type) {
	for i := 0; i < t.NumMethod(); i++ {
		m := t.Method(i)
		P(pre + "m" + itoa(i) + " " + methodLine(m))
		m2, ok := t.MethodByName(m.Name)
		if !ok || m2.Name != m.Name || m2.Index != i || m2.Type != m.Type {
			P(pre + "m" + itoa(i) + " MethodByName mismatch ok=" + b2s(ok) + " " + m2.Name + " " + itoa(m2.Index))
		}
	}
	for _, n := range []string{"Get", "String", "Zzz", "unexp", "hid", ""} {
		m, ok := t.MethodByName(n)
		if ok {
			P(pre + "mbn " + n + " index=" + itoa(m.Index) + " type=" + strconv.Quote(m.Type.String()))
		} else {
			P(pre + "mbn " + n + " none")
		}
	}
}

// derived types: PointerTo/SliceOf/ArrayOf/ChanOf/MapOf/FuncOf must describe themselves like the
// corresponding source-level types.
func derived(pre string, t reflect.Type) {
	if Avoid["C15-ptrto-extra-star"] && t.Kind() == reflect.Pointer {
		P(pre + "derived avoided (pointer to pointer)")
		return
	}
	pt := reflect.PointerTo(t)
	P(pre + "ptrto " + typeLine(pt) + " elemsame=" + b2s(pt.Elem() == t) + " again=" + b2s(reflect.PointerTo(t) == pt))
	for i := 0; i < pt.NumMethod(); i++ {
		m := pt.Method(i)
		P(pre + "pm" + itoa(i) + " " + methodLine(m))
	}
	st := reflect.SliceOf(t)
	P(pre + "sliceof " + typeLine(st) + " elemsame=" + b2s(st.Elem() == t))
	at := reflect.ArrayOf(3, t)
	P(pre + "arrayof " + typeLine(at) + " len=" + itoa(at.Len()) + " elemsame=" + b2s(at.Elem() == t))
	if funcFree(t) {
		P(pre + "arrayof size=" + itoa(int(at.Size())) + " align=" + itoa(at.Align()))
	}
	ct := reflect.ChanOf(reflect.RecvDir, t)
	P(pre + "chanof " + typeLine(ct) + " dir=" + ct.ChanDir().String())
	if t.Comparable() {
		mt := reflect.MapOf(t, t)
		P(pre + "mapof " + typeLine(mt) + " keysame=" + b2s(mt.Key() == t))
	}
	ft := reflect.FuncOf([]reflect.Type{t, st}, []reflect.Type{pt}, true)
	P(pre + "funcof " + typeLine(ft) + " variadic=" + b2s(ft.IsVariadic()))
}

// Same reports identity of a source-level derived type with the one reflect constructs.
func Same(tag string, a, b reflect.Type) {
	P("S " + tag + " " + b2s(a == b) + " " + strconv.Quote(a.String()) + " " + strconv.Quote(b.String()))
}

// ---------------------------------------------------------------- relations

var stock []reflect.Type

func init() {
	stock = []reflect.Type{
		reflect.TypeOf(0), reflect.TypeOf(int8(0)), reflect.TypeOf(uint8(0)), reflect.TypeOf(uint64(0)), reflect.TypeOf(uintptr(0)),
		reflect.TypeOf(float32(0)), reflect.TypeOf(1.5), reflect.TypeOf(complex128(0)), reflect.TypeOf(""), reflect.TypeOf(false),
		reflect.TypeOf([]byte(nil)), reflect.TypeOf([]rune(nil)), reflect.TypeOf([2]int{}), reflect.TypeOf((*[2]int)(nil)),
		reflect.TypeOf([]int(nil)), reflect.TypeOf(unsafe.Pointer(nil)),
		reflect.TypeOf((*any)(nil)).Elem(), reflect.TypeOf((*error)(nil)).Elem(), reflect.TypeOf((*fmt.Stringer)(nil)).Elem(),
		reflect.TypeOf((*fmt.Formatter)(nil)).Elem(), reflect.TypeOf((*interface{ Get() int })(nil)).Elem(),
		reflect.TypeOf((*interface {
			Get() int
			Set(int)
		})(nil)).Elem(),
		reflect.TypeOf(Err{}), reflect.TypeOf(&Str{}),
	}
}

// Matrix prints Implements / AssignableTo / ConvertibleTo between t (and *t) and the stock types plus the
// partner types chosen by the generator, in both directions.
func Matrix(t reflect.Type, partners []reflect.Type) {
	all := append(append([]reflect.Type{}, stock...), partners...)
	for _, a := range []reflect.Type{t, reflect.PointerTo(t)} {
		s1, s2, s3, s4, s5 := "", "", "", "", ""
		for _, u := range all {
			if u.Kind() == reflect.Interface {
				s1 += b2s(a.Implements(u))
			} else {
				s1 += "-"
			}
			s2 += b2s(a.AssignableTo(u))
			s3 += b2s(a.ConvertibleTo(u))
			s4 += b2s(u.AssignableTo(a))
			s5 += b2s(u.ConvertibleTo(a))
		}
		P("X " + strconv.Quote(a.String()) + " impl=" + s1 + " asg=" + s2 + " conv=" + s3 + " rasg=" + s4 + " rconv=" + s5)
	}
	for i, u := range partners {
		P("X p" + itoa(i) + " " + strconv.Quote(u.String()) + " same=" + b2s(u == t))
	}
}

// ---------------------------------------------------------------- value dump (independent of fmt)

func Dump(v reflect.Value) string { return dump(v, 0) }

func dump(v reflect.Value, d int) string {
	if !v.IsValid() {
		return "<invalid>"
	}
	if d > 7 {
		return "..."
	}
	t := v.Type()
	switch v.Kind() {
	case reflect.Bool:
		return b2s(v.Bool()) + "b"
	case reflect.Int, reflect.Int8, reflect.Int16, reflect.Int32, reflect.Int64:
		return strconv.FormatInt(v.Int(), 10)
	case reflect.Uint, reflect.Uint8, reflect.Uint16, reflect.Uint32, reflect.Uint64, reflect.Uintptr:
		return strconv.FormatUint(v.Uint(), 10) + "u"
	case reflect.Float32:
		return strconv.FormatFloat(v.Float(), 'g', -1, 32) + "f"
	case reflect.Float64:
		return strconv.FormatFloat(v.Float(), 'g', -1, 64) + "f"
	case reflect.Complex64, reflect.Complex128:
		c := v.Complex()
		return "(" + strconv.FormatFloat(real(c), 'g', -1, 64) + "," + strconv.FormatFloat(imag(c), 'g', -1, 64) + ")c"
	case reflect.String:
		return strconv.Quote(v.String())
	case reflect.Pointer:
		if v.IsNil() {
			return "nil*"
		}
		return "&" + dump(v.Elem(), d+1)
	case reflect.Interface:
		if v.IsNil() {
			return "nil-iface"
		}
		return "i<" + v.Elem().Type().String() + ">" + dump(v.Elem(), d+1)
	case reflect.Slice:
		if v.IsNil() {
			return "nil[]"
		}
		fallthrough
	case reflect.Array:
		s := make([]string, v.Len())
		for i := 0; i < v.Len(); i++ {
			s[i] = dump(v.Index(i), d+1)
		}
		return "[" + strings.Join(s, " ") + "]" + itoa(v.Len())
	case reflect.Map:
		if v.IsNil() {
			return "nil-map"
		}
		var s []string
		it := v.MapRange()
		for it.Next() {
			s = append(s, dump(it.Key(), d+1)+":"+dump(it.Value(), d+1))
		}
		sort.Strings(s)
		return "map{" + strings.Join(s, " ") + "}" + itoa(v.Len())
	case reflect.Struct:
		s := make([]string, v.NumField())
		for i := 0; i < v.NumField(); i++ {
			s[i] = t.Field(i).Name + "=" + dump(v.Field(i), d+1)
		}
		return "{" + strings.Join(s, " ") + "}"
	case reflect.Chan:
		if v.IsNil() {
			return "nil-chan"
		}
		return "chan(len=" + itoa(v.Len()) + ",cap=" + itoa(v.Cap()) + ")"
	case reflect.Func:
		if v.IsNil() {
			return "nil-func"
		}
		return "func"
	case reflect.UnsafePointer:
		if v.UnsafePointer() == nil {
			return "nil-uptr"
		}
		return "uptr"
	}
	return "?" + v.Kind().String()
}

// ---------------------------------------------------------------- value operations

// Value: p is a pointer to a variable of the unit's root type, so that ValueOf(p).Elem() keeps the
// static type (interfaces included) and is addressable.
func Value(tag string, p any) {
	v := reflect.ValueOf(p).Elem()
	t := v.Type()
	P("V " + tag + " type=" + strconv.Quote(t.String()) + " kind=" + v.Kind().String() + " canset=" + b2s(v.CanSet()) + " canaddr=" + b2s(v.CanAddr()) +
		" canif=" + b2s(v.CanInterface()) + " iszero=" + b2s(v.IsZero()) + " cmp=" + b2s(v.Comparable()))
	P("V " + tag + " dump " + Dump(v))
	Try("roundtrip", func() {
		x := v.Interface()
		w := reflect.ValueOf(x)
		s := "V " + tag + " iface valid=" + b2s(w.IsValid())
		if w.IsValid() {
			s += " dyn=" + strconv.Quote(w.Type().String()) + " same=" + b2s(Dump(w) == Dump(reflect.ValueOf(v.Interface()))) + " de=" + b2s(reflect.DeepEqual(x, v.Interface()))
			if w.Comparable() && w.Type().Comparable() {
				s += " eq=" + b2s(x == v.Interface()) + " veq=" + b2s(w.Equal(reflect.ValueOf(v.Interface())))
			}
		}
		P(s)
	})
	Try("zero", func() {
		z := reflect.Zero(t)
		P("V " + tag + " zero " + Dump(z) + " iszero=" + b2s(z.IsZero()) + " canset=" + b2s(z.CanSet()) + " de=" + b2s(reflect.DeepEqual(z.Interface(), v.Interface())))
		n := reflect.New(t)
		ns := strconv.Quote(n.Type().String())
		if Avoid["C15-ptrto-extra-star"] && t.Kind() == reflect.Pointer {
			ns = "(avoided)"
		}
		P("V " + tag + " new " + ns + " " + Dump(n) + " canset=" + b2s(n.Elem().CanSet()))
		n.Elem().Set(v)
		P("V " + tag + " set " + Dump(n.Elem()) + " de=" + b2s(reflect.DeepEqual(n.Elem().Interface(), v.Interface())))
		n.Elem().SetZero()
		P("V " + tag + " setzero " + Dump(n.Elem()) + " iszero=" + b2s(n.Elem().IsZero()))
		ind := reflect.Indirect(n)
		P("V " + tag + " indirect " + strconv.Quote(ind.Type().String()) + " addrsame=" + b2s(ind.Addr().Interface() == n.Interface()))
	})
	Try("kindops", func() { kindOps("V "+tag, v) })
}

func kindOps(pre string, v reflect.Value) {
	t := v.Type()
	c := reflect.New(t).Elem()
	c.Set(deepCopy(v))
	switch v.Kind() {
	case reflect.Bool:
		c.SetBool(!v.Bool())
		P(pre + " setbool " + Dump(c))
	case reflect.Int, reflect.Int8, reflect.Int16, reflect.Int32, reflect.Int64:
		for _, x := range []int64{v.Int() + 1, 127, 128, -129, 1 << 40, -1 << 63} {
			ov := c.OverflowInt(x)
			s := pre + " setint " + strconv.FormatInt(x, 10) + " ovf=" + b2s(ov)
			if !ov {
				c.SetInt(x)
				s += " -> " + Dump(c)
			}
			P(s)
		}
		P(pre + " canint=" + b2s(c.CanInt()) + " canuint=" + b2s(c.CanUint()) + " canfloat=" + b2s(c.CanFloat()))
	case reflect.Uint, reflect.Uint8, reflect.Uint16, reflect.Uint32, reflect.Uint64, reflect.Uintptr:
		for _, x := range []uint64{v.Uint() + 1, 255, 256, 1 << 33, 1<<64 - 1} {
			ov := c.OverflowUint(x)
			s := pre + " setuint " + strconv.FormatUint(x, 10) + " ovf=" + b2s(ov)
			if !ov {
				c.SetUint(x)
				s += " -> " + Dump(c)
			}
			P(s)
		}
	case reflect.Float32, reflect.Float64:
		for _, x := range []float64{v.Float() * 2, 1e39, 0.1, -0.0} {
			ov := c.OverflowFloat(x)
			s := pre + " setfloat " + strconv.FormatFloat(x, 'g', -1, 64) + " ovf=" + b2s(ov)
			if !ov {
				c.SetFloat(x)
				s += " -> " + Dump(c)
			}
			P(s)
		}
	case reflect.Complex64, reflect.Complex128:
		c.SetComplex(complex(0.5, -2) + v.Complex())
		P(pre + " setcomplex " + Dump(c) + " ovf=" + b2s(c.OverflowComplex(complex(1e39, 0))))
	case reflect.String:
		c.SetString(v.String() + "+")
		P(pre + " setstring " + Dump(c) + " len=" + itoa(c.Len()))
		if c.Len() > 0 {
			P(pre + " strindex " + Dump(c.Index(0)) + " " + strconv.Quote(c.Index(0).Type().String()))
			P(pre + " strslice " + Dump(c.Slice(0, c.Len()-1)))
		}
	case reflect.Slice:
		et := t.Elem()
		P(pre + " len=" + itoa(v.Len()) + " nil=" + b2s(v.IsNil()))
		a := reflect.Append(c, reflect.Zero(et))
		P(pre + " append " + Dump(a) + " type=" + strconv.Quote(a.Type().String()))
		a = reflect.AppendSlice(a, v)
		P(pre + " appendslice " + Dump(a))
		ms := reflect.MakeSlice(t, 2, 5)
		P(pre + " makeslice " + Dump(ms) + " cap=" + itoa(ms.Cap()) + " type=" + strconv.Quote(ms.Type().String()))
		n := reflect.Copy(ms, v)
		P(pre + " copy n=" + itoa(n) + " " + Dump(ms))
		if v.Len() > 0 {
			ms.Index(1).Set(v.Index(0))
			P(pre + " index-set " + Dump(ms) + " canset=" + b2s(ms.Index(1).CanSet()) + " canaddr=" + b2s(ms.Index(0).CanAddr()))
			sl := a.Slice(1, a.Len())
			P(pre + " slice " + Dump(sl))
			s3 := a.Slice3(0, 1, 1)
			P(pre + " slice3 " + Dump(s3) + " cap=" + itoa(s3.Cap()))
		}
		c.Set(ms)
		c.SetLen(1)
		P(pre + " setlen " + Dump(c))
		c.Grow(10)
		P(pre + " grow capok=" + b2s(c.Cap() >= 11) + " " + Dump(c))
		if a.Len() >= 2 {
			sw := reflect.Swapper(a.Interface())
			sw(0, a.Len()-1)
			P(pre + " swapper " + Dump(a))
		}
		i := 0
		for k, e := range a.Seq2() {
			if i < 2 {
				P(pre + " seq2 " + Dump(k) + " " + Dump(e))
			}
			i++
		}
		a.Clear()
		P(pre + " clear " + Dump(a))
	case reflect.Array:
		P(pre + " len=" + itoa(v.Len()))
		if v.Len() > 0 {
			c.Index(v.Len() - 1).Set(reflect.Zero(t.Elem()))
			P(pre + " index-setzero " + Dump(c) + " de=" + b2s(reflect.DeepEqual(c.Interface(), v.Interface())))
			sl := c.Slice(0, v.Len())
			P(pre + " arrslice " + strconv.Quote(sl.Type().String()) + " " + Dump(sl))
		}
	case reflect.Map:
		P(pre + " len=" + itoa(v.Len()) + " nil=" + b2s(v.IsNil()))
		keys := v.MapKeys()
		ks := make([]string, len(keys))
		for i, k := range keys {
			ks[i] = Dump(k) + "=>" + Dump(v.MapIndex(k))
		}
		sort.Strings(ks)
		P(pre + " mapkeys " + strings.Join(ks, " "))
		mm := reflect.MakeMapWithSize(t, 4)
		P(pre + " makemap " + Dump(mm) + " type=" + strconv.Quote(mm.Type().String()))
		zk := reflect.Zero(t.Key())
		mm.SetMapIndex(zk, reflect.Zero(t.Elem()))
		for _, k := range keys {
			mm.SetMapIndex(k, v.MapIndex(k))
		}
		P(pre + " setmapindex " + Dump(mm) + " zk=" + Dump(mm.MapIndex(zk)) + " zkvalid=" + b2s(mm.MapIndex(zk).IsValid()))
		mm.SetMapIndex(zk, reflect.Value{})
		P(pre + " delete " + Dump(mm) + " de=" + b2s(reflect.DeepEqual(mm.Interface(), v.Interface())))
		it := mm.MapRange()
		n := 0
		for it.Next() {
			kk := reflect.New(t.Key()).Elem()
			kk.SetIterKey(it)
			ee := reflect.New(t.Elem()).Elem()
			ee.SetIterValue(it)
			if Dump(kk) != Dump(it.Key()) || Dump(ee) != Dump(it.Value()) {
				P(pre + " setiter mismatch")
			}
			n++
		}
		P(pre + " maprange n=" + itoa(n))
		mm.Clear()
		P(pre + " mapclear " + Dump(mm))
	case reflect.Struct:
		for i := 0; i < v.NumField(); i++ {
			f := c.Field(i)
			s := pre + " field" + itoa(i) + " canset=" + b2s(f.CanSet()) + " canif=" + b2s(f.CanInterface()) + " canaddr=" + b2s(f.CanAddr())
			if f.CanSet() {
				f.Set(reflect.Zero(f.Type()))
				s += " zeroed"
			}
			P(s)
		}
		P(pre + " fields-zeroed " + Dump(c))
		var names []string
		for i := 0; i < t.NumField(); i++ {
			sf := t.Field(i)
			names = append(names, sf.Name)
			et := sf.Type
			if et.Kind() == reflect.Pointer {
				et = et.Elem()
			}
			if sf.Anonymous && et.Kind() == reflect.Struct {
				for j := 0; j < et.NumField(); j++ {
					names = append(names, et.Field(j).Name)
				}
			}
		}
		sort.Strings(names)
		last := ""
		for _, n := range names {
			if n == last {
				continue
			}
			last = n
			Try("vbyname", func() {
				sf, ok := t.FieldByName(n)
				if !ok {
					return
				}
				fv, err := v.FieldByIndexErr(sf.Index)
				if err != nil {
					P(pre + " byname " + n + " nilpath")
					return
				}
				g := v.FieldByName(n)
				P(pre + " byname " + n + " " + Dump(fv) + " same=" + b2s(Dump(g) == Dump(fv)) + " canset=" + b2s(g.CanSet()) + " canif=" + b2s(g.CanInterface()))
			})
		}
	case reflect.Pointer:
		P(pre + " nil=" + b2s(v.IsNil()))
		if !v.IsNil() {
			e := v.Elem()
			P(pre + " elem canset=" + b2s(e.CanSet()) + " canaddr=" + b2s(e.CanAddr()) + " " + Dump(e))
			P(pre + " addr-roundtrip " + b2s(e.Addr().Interface() == v.Interface()))
		}
		np := reflect.New(t.Elem())
		c.Set(np)
		P(pre + " set-new " + Dump(c))
	case reflect.Interface:
		P(pre + " nil=" + b2s(v.IsNil()) + " nummethod=" + itoa(v.NumMethod()))
		if !v.IsNil() {
			e := v.Elem()
			P(pre + " elem type=" + strconv.Quote(e.Type().String()) + " kind=" + e.Kind().String() + " canset=" + b2s(e.CanSet()) + " canaddr=" + b2s(e.CanAddr()))
		}
		c.SetZero()
		P(pre + " iface-zero " + Dump(c) + " isnil=" + b2s(c.IsNil()))
		if t.NumMethod() == 0 {
			c.Set(reflect.ValueOf(42))
			P(pre + " iface-set " + Dump(c))
		}
	case reflect.Chan:
		P(pre + " nil=" + b2s(v.IsNil()))
		if t.ChanDir() == reflect.BothDir {
			ch := reflect.MakeChan(t, 2)
			ok := ch.TrySend(reflect.Zero(t.Elem()))
			P(pre + " makechan " + Dump(ch) + " trysend=" + b2s(ok))
			ch.Send(reflect.Zero(t.Elem()))
			ok = ch.TrySend(reflect.Zero(t.Elem()))
			P(pre + " full trysend=" + b2s(ok) + " " + Dump(ch))
			x, ok := ch.Recv()
			P(pre + " recv " + Dump(x) + " ok=" + b2s(ok))
			x, ok = ch.TryRecv()
			P(pre + " tryrecv " + Dump(x) + " ok=" + b2s(ok))
			x, ok = ch.TryRecv()
			P(pre + " tryrecv-empty valid=" + b2s(x.IsValid()) + " ok=" + b2s(ok))
			ch.Close()
			x, ok = ch.Recv()
			P(pre + " recv-closed " + Dump(x) + " ok=" + b2s(ok))
		}
	case reflect.Func:
		// generated func values are described but not called: the property is about calling methods
		P(pre + " nil=" + b2s(v.IsNil()))
	}
}

// deepCopy rebuilds v through reflect constructors (New/MakeSlice/MakeMap/Set...).
func deepCopy(v reflect.Value) reflect.Value {
	t := v.Type()
	switch v.Kind() {
	case reflect.Pointer:
		if v.IsNil() {
			return reflect.Zero(t)
		}
		n := reflect.New(t.Elem())
		n.Elem().Set(deepCopy(v.Elem()))
		if n.Type() != t { // named pointer type
			n = n.Convert(t)
		}
		return n
	case reflect.Slice:
		if v.IsNil() {
			return reflect.Zero(t)
		}
		n := reflect.MakeSlice(t, v.Len(), v.Len())
		for i := 0; i < v.Len(); i++ {
			n.Index(i).Set(deepCopy(v.Index(i)))
		}
		return n
	case reflect.Array:
		n := reflect.New(t).Elem()
		for i := 0; i < v.Len(); i++ {
			n.Index(i).Set(deepCopy(v.Index(i)))
		}
		return n
	case reflect.Map:
		if v.IsNil() {
			return reflect.Zero(t)
		}
		n := reflect.MakeMapWithSize(t, v.Len())
		it := v.MapRange()
		for it.Next() {
			n.SetMapIndex(deepCopy(it.Key()), deepCopy(it.Value()))
		}
		return n
	case reflect.Struct:
		n := reflect.New(t).Elem()
		n.Set(v)
		for i := 0; i < v.NumField(); i++ {
			if n.Field(i).CanSet() {
				n.Field(i).Set(deepCopy(v.Field(i)))
			}
		}
		return n
	case reflect.Interface:
		if v.IsNil() {
			return reflect.Zero(t)
		}
		n := reflect.New(t).Elem()
		n.Set(deepCopy(v.Elem()))
		return n
	}
	return v
}

// leaves counts (n<0) or mutates (the n-th) settable scalar leaf of v; returns the number of leaves seen.
func leaves(v reflect.Value, target int, cnt *int, d int) {
	if d > 6 {
		return
	}
	switch v.Kind() {
	case reflect.Bool, reflect.Int, reflect.Int8, reflect.Int16, reflect.Int32, reflect.Int64,
		reflect.Uint, reflect.Uint8, reflect.Uint16, reflect.Uint32, reflect.Uint64, reflect.Uintptr,
		reflect.Float32, reflect.Float64, reflect.Complex64, reflect.Complex128, reflect.String:
		if !v.CanSet() {
			return
		}
		if *cnt == target {
			switch v.Kind() {
			case reflect.Bool:
				v.SetBool(!v.Bool())
			case reflect.Int, reflect.Int8, reflect.Int16, reflect.Int32, reflect.Int64:
				v.SetInt(v.Int() ^ 1)
			case reflect.Uint, reflect.Uint8, reflect.Uint16, reflect.Uint32, reflect.Uint64, reflect.Uintptr:
				v.SetUint(v.Uint() ^ 1)
			case reflect.Float32, reflect.Float64:
				v.SetFloat(v.Float() + 1)
			case reflect.Complex64, reflect.Complex128:
				v.SetComplex(v.Complex() + 1i)
			case reflect.String:
				v.SetString(v.String() + "~")
			}
		}
		*cnt++
	case reflect.Pointer:
		if !v.IsNil() {
			leaves(v.Elem(), target, cnt, d+1)
		}
	case reflect.Interface:
		// the dynamic value is not settable in place
	case reflect.Slice, reflect.Array:
		for i := 0; i < v.Len(); i++ {
			leaves(v.Index(i), target, cnt, d+1)
		}
	case reflect.Struct:
		for i := 0; i < v.NumField(); i++ {
			leaves(v.Field(i), target, cnt, d+1)
		}
	}
}

// Deep: DeepEqual laws on two variables of the same static type (pa, pb are pointers to them).
func Deep(tag string, pa, pb any) {
	a := reflect.ValueOf(pa).Elem()
	b := reflect.ValueOf(pb).Elem()
	Try("deep", func() {
		x, y := a.Interface(), b.Interface()
		P("D " + tag + " refl=" + b2s(reflect.DeepEqual(x, x)) + " xy=" + b2s(reflect.DeepEqual(x, y)) + " yx=" + b2s(reflect.DeepEqual(y, x)) +
			" dumpeq=" + b2s(Dump(a) == Dump(b)) + " ptrs=" + b2s(reflect.DeepEqual(pa, pb)))
		c := reflect.New(a.Type()).Elem()
		c.Set(deepCopy(a))
		P("D " + tag + " copy de=" + b2s(reflect.DeepEqual(x, c.Interface())) + " dumpeq=" + b2s(Dump(a) == Dump(c)))
		n := 0
		leaves(c, -1, &n, 0)
		P("D " + tag + " leaves=" + itoa(n))
		done := map[int]bool{}
		for _, k := range []int{0, n - 1, n / 2, n / 3} {
			if k < 0 || k >= n || done[k] {
				continue
			}
			done[k] = true
			c.Set(deepCopy(a))
			m := 0
			leaves(c, k, &m, 0)
			P("D " + tag + " mut" + itoa(k) + " de=" + b2s(reflect.DeepEqual(x, c.Interface())) + " rev=" + b2s(reflect.DeepEqual(c.Interface(), x)) + " dumpeq=" + b2s(Dump(a) == Dump(c)))
		}
		// wrapped in containers
		sx := []any{x, 1}
		sy := []any{y, 1}
		mx := map[string]any{"k": x}
		my := map[string]any{"k": y}
		P("D " + tag + " wrapped slice=" + b2s(reflect.DeepEqual(sx, sy)) + " map=" + b2s(reflect.DeepEqual(mx, my)) + " self=" + b2s(reflect.DeepEqual(sx, []any{x, 1})))
	})
}

// ---------------------------------------------------------------- calls

func argFor(t reflect.Type, k int) reflect.Value { return argForD(t, k, 0) }

func argForD(t reflect.Type, k int, d int) reflect.Value {
	v := reflect.New(t).Elem()
	if d > 2 {
		return v
	}
	switch t.Kind() {
	case reflect.Int, reflect.Int8, reflect.Int16, reflect.Int32, reflect.Int64:
		v.SetInt(int64(k + 3))
	case reflect.Uint, reflect.Uint8, reflect.Uint16, reflect.Uint32, reflect.Uint64, reflect.Uintptr:
		v.SetUint(uint64(k + 5))
	case reflect.Float32, reflect.Float64:
		v.SetFloat(float64(k) + 0.5)
	case reflect.String:
		v.SetString("a" + itoa(k))
	case reflect.Bool:
		v.SetBool(k%2 == 0)
	case reflect.Slice:
		s := reflect.MakeSlice(t, 2, 2)
		s.Index(0).Set(argForD(t.Elem(), k+1, d+1))
		s.Index(1).Set(argForD(t.Elem(), k+2, d+1))
		v.Set(s)
	case reflect.Map:
		m := reflect.MakeMap(t)
		m.SetMapIndex(argForD(t.Key(), k, d+1), argForD(t.Elem(), k+1, d+1))
		v.Set(m)
	case reflect.Struct:
		for i := 0; i < v.NumField(); i++ {
			if v.Field(i).CanSet() && t.Field(i).Type.Kind() != reflect.Struct {
				v.Field(i).Set(argForD(t.Field(i).Type, k+i, d+1))
			}
		}
	case reflect.Func:
		if t.NumIn() == 1 && t.NumOut() == 1 && t.In(0).Kind() == reflect.Int && t.Out(0).Kind() == reflect.Bool {
			v.Set(reflect.ValueOf(func(x int) bool { return x < 2 }).Convert(t))
		}
	}
	return v
}

// callable: a nil interface argument with methods would make the callee panic
func callable(ft reflect.Type) bool {
	for i := 0; i < ft.NumIn(); i++ {
		in := ft.In(i)
		if in.Kind() == reflect.Interface && in.NumMethod() > 0 {
			return false
		}
		if Avoid["C15-call-pointer-args"] && pointerShaped(in.Kind()) {
			return false
		}
		if Avoid["C15-call-zero-size"] && hasZeroSize(in, 0) {
			return false
		}
	}
	if Avoid["C15-call-zero-size"] {
		for i := 0; i < ft.NumOut(); i++ {
			if hasZeroSize(ft.Out(i), 0) {
				return false
			}
		}
	}
	if Avoid["C15-call-return-overflow"] {
		// results larger than 16 bytes are written past an 8-byte heap block (16-byte allocation granule)
		var total uintptr
		for i := 0; i < ft.NumOut(); i++ {
			o := ft.Out(i)
			sz, al := o.Size(), uintptr(o.Align())
			if !funcFree(o) {
				sz *= 2
			}
			if al == 0 {
				al = 1
			}
			total = (total+al-1)/al*al + sz
		}
		if total > 16 {
			return false
		}
	}
	return true
}

func callAndPrint(pre string, f reflect.Value) {
	Try(pre, func() {
		ft := f.Type()
		n := ft.NumIn()
		if !callable(ft) {
			P(pre + " not called")
			return
		}
		args := make([]reflect.Value, 0, n+2)
		for i := 0; i < n; i++ {
			if ft.IsVariadic() && i == n-1 {
				args = append(args, argFor(ft.In(i).Elem(), i), argFor(ft.In(i).Elem(), i+1))
			} else {
				args = append(args, argFor(ft.In(i), i))
			}
		}
		out := f.Call(args)
		s := make([]string, len(out))
		for i, o := range out {
			s[i] = strconv.Quote(o.Type().String()) + ":" + Dump(o)
		}
		P(pre + " -> n=" + itoa(len(out)) + " " + strings.Join(s, " "))
		if ft.IsVariadic() {
			args = args[:n-1]
			args = append(args, argFor(ft.In(n-1), 7))
			out = f.CallSlice(args)
			for i, o := range out {
				s[i] = Dump(o)
			}
			P(pre + " callslice -> " + strings.Join(s, " "))
		}
	})
}

// Res prints what a method value obtained with a constant name/index does.
func Res(tag string, m reflect.Value) {
	if !m.IsValid() {
		P("C " + tag + " invalid")
		return
	}
	P("C " + tag + " type=" + strconv.Quote(m.Type().String()) + " kind=" + m.Kind().String())
	callAndPrint("C "+tag, m)
}

// TypeCalls calls every method through reflect.Type.Method(i).Func with the receiver as first argument
// (p points to a variable of the root type; both T and *T method sets are used).
func TypeCalls(tag string, p any) {
	pv := reflect.ValueOf(p)
	for _, recv := range []reflect.Value{pv.Elem(), pv} {
		t := recv.Type()
		if t.Kind() == reflect.Interface {
			if recv.IsNil() {
				continue
			}
			recv = recv.Elem()
			t = recv.Type()
		}
		if recv.Kind() == reflect.Pointer && recv.IsNil() {
			continue
		}
		for i := 0; i < t.NumMethod(); i++ {
			m := t.Method(i)
			pre := "C " + tag + " " + strconv.Quote(t.String()) + "." + m.Name
			Try(pre, func() {
				ft := m.Func.Type()
				// the receiver is argument 0 here: it is an ordinary (addressable) argument Value
				if !callable(ft) {
					P(pre + " not called")
					return
				}
				args := []reflect.Value{recv}
				for j := 1; j < ft.NumIn(); j++ {
					if ft.IsVariadic() && j == ft.NumIn()-1 {
						args = append(args, argFor(ft.In(j).Elem(), j))
					} else {
						args = append(args, argFor(ft.In(j), j))
					}
				}
				out := m.Func.Call(args)
				s := make([]string, len(out))
				for k, o := range out {
					s[k] = Dump(o)
				}
				P(pre + " func-call -> " + strings.Join(s, " "))
			})
		}
	}
	P("C " + tag + " after " + Dump(pv.Elem()))
}

//DYN-BEGIN

// Calls calls every exported method of the value and of its address through Value.Method(i) and
// Value.MethodByName(computed name).
func Calls(tag string, p any) {
	pv := reflect.ValueOf(p)
	for _, recv := range []reflect.Value{pv.Elem(), pv} {
		t := recv.Type()
		P("C " + tag + " recv=" + strconv.Quote(t.String()) + " nummethod=" + itoa(recv.NumMethod()))
		if (recv.Kind() == reflect.Interface || recv.Kind() == reflect.Pointer) && recv.IsNil() {
			continue
		}
		if Avoid["C15-method-direct-addressable"] && recv.Kind() != reflect.Pointer && recv.Kind() != reflect.Interface && directShaped(t, 0) {
			P("C " + tag + " avoided (value-receiver call through an addressable pointer-shaped value)")
			continue
		}
		for i := 0; i < recv.NumMethod(); i++ {
			name := t.Method(i).Name
			if !t.Method(i).IsExported() {
				P("C " + tag + " " + strconv.Quote(t.String()) + "." + name + " unexported")
				continue
			}
			m := recv.Method(i)
			pre := "C " + tag + " " + strconv.Quote(t.String()) + "." + name
			P(pre + " type=" + strconv.Quote(m.Type().String()))
			callAndPrint(pre, m)
			bn := recv.MethodByName(strings.Repeat(name, 1+i%1))
			if !bn.IsValid() || bn.Type() != m.Type() {
				P(pre + " MethodByName mismatch")
			} else if i%3 == 0 {
				callAndPrint(pre+" byname", bn)
			}
		}
		for _, n := range []string{"Nope", "unexp", "hid"} {
			P("C " + tag + " byname " + n + " valid=" + b2s(recv.MethodByName(n+"").IsValid()))
		}
	}
	P("C " + tag + " after " + Dump(pv.Elem()))
}

//DYN-END

// ---------------------------------------------------------------- conversions

func isInt(k reflect.Kind) bool  { return k >= reflect.Int && k <= reflect.Int64 }
func isUint(k reflect.Kind) bool { return k >= reflect.Uint && k <= reflect.Uintptr }

// narrowing: an integer or float value converted to an integer type that cannot hold it (finding C15-convert-int-narrow).
func narrowing(v reflect.Value, u reflect.Type) bool {
	uk := u.Kind()
	if !isInt(uk) && !isUint(uk) {
		return false
	}
	z := reflect.New(u).Elem()
	switch k := v.Kind(); {
	case isInt(k):
		if isInt(uk) {
			return z.OverflowInt(v.Int())
		}
		return v.Int() < 0 || z.OverflowUint(uint64(v.Int()))
	case isUint(k):
		if isUint(uk) {
			return z.OverflowUint(v.Uint())
		}
		return v.Uint() > 1<<62 || z.OverflowInt(int64(v.Uint()))
	}
	return false
}

// floatOutOfRange: converting such a float to the integer type is implementation-defined in Go; never compared.
func floatOutOfRange(v reflect.Value, u reflect.Type) bool {
	uk := u.Kind()
	if (v.Kind() != reflect.Float32 && v.Kind() != reflect.Float64) || (!isInt(uk) && !isUint(uk)) {
		return false
	}
	f := v.Float()
	if f != f || f > 1e18 || f < -1e18 {
		return true
	}
	z := reflect.New(u).Elem()
	if isInt(uk) {
		return z.OverflowInt(int64(f))
	}
	return f < 0 || z.OverflowUint(uint64(f))
}

// Conv converts the value to every partner type it is convertible to.
func Conv(tag string, p any, partners []reflect.Type) {
	v := reflect.ValueOf(p).Elem()
	t := v.Type()
	all := append(append([]reflect.Type{}, stock...), partners...)
	for i, u := range all {
		if !t.ConvertibleTo(u) {
			continue
		}
		pre := "K " + tag + " ->" + itoa(i) + " " + strconv.Quote(u.String())
		Try(pre, func() {
			if floatOutOfRange(v, u) {
				P(pre + " not compared (implementation-defined float to integer conversion)")
				return
			}
			if Avoid["C15-empty-string-to-slice"] && v.Kind() == reflect.String && v.Len() == 0 && u.Kind() == reflect.Slice {
				P(pre + " avoided (empty string to slice)")
				return
			}
			if Avoid["C15-convert-float32"] && v.Kind() == reflect.Float32 && u.Kind() == reflect.Float32 {
				P(pre + " avoided (float32 to float32)")
				return
			}
			if Avoid["C15-convert-int-narrow"] && narrowing(v, u) {
				P(pre + " avoided (narrowing integer conversion)")
				return
			}
			can := v.CanConvert(u)
			if !can {
				P(pre + " canconvert=0")
				return
			}
			c := v.Convert(u)
			s := pre + " type=" + strconv.Quote(c.Type().String()) + " " + Dump(c)
			if u.ConvertibleTo(t) && c.CanConvert(t) && u.Kind() != reflect.String && t.Kind() != reflect.String {
				back := c.Convert(t)
				s += " back=" + b2s(Dump(back) == Dump(v))
			}
			P(s)
		})
	}
}

// ---------------------------------------------------------------- fmt

var verbs = []string{
	"%v", "%+v", "%#v", "%T", "%d", "%+d", "%5d", "%-5d|", "%05d", "% d", "%x", "%X", "%#x", "% x", "% #X", "%o", "%#o", "%O", "%b", "%#b",
	"%c", "%q", "%#q", "%+q", "%U", "%#U", "%e", "%E", "%.3e", "%f", "%F", "%.2f", "%8.3f", "%-8.2f|", "%+.1f", "%08.3f", "%g", "%G", "%.3g", "%#g",
	"%s", "%10s", "%-10s|", "%.2s", "%8.3s", "%t", "%5t", "%6v", "%-6v|", "%06v", "%.1v", "%+.2v", "%#8v", "%x %[1]q", "%[1]T %[1]v", "%w", "%z", "%!", "%",
}

// Fmt prints the value (p points to the variable) with every verb.
func Fmt(tag string, p any) {
	v := reflect.ValueOf(p).Elem()
	x := v.Interface()
	for _, f := range verbs {
		Try("fmt "+f, func() {
			P("F " + tag + " " + f + " " + strconv.Quote(fmt.Sprintf(f, x)))
		})
	}
	Try("fmt misc", func() {
		P("F " + tag + " sprint " + strconv.Quote(fmt.Sprint(x, x, 3, "s", x)))
		P("F " + tag + " sprintln " + strconv.Quote(fmt.Sprintln(x, "a", 1)))
		P("F " + tag + " star " + strconv.Quote(fmt.Sprintf("%*v|%-*v|%.*v", 7, x, 9, x, 2, x)))
		P("F " + tag + " missing " + strconv.Quote(fmt.Sprintf("%v %v", x)))
		P("F " + tag + " extra " + strconv.Quote(fmt.Sprintf("%v", x, x)))
		if v.Kind() != reflect.Pointer { // a nested pointer would print as an address
			P("F " + tag + " inslice " + strconv.Quote(fmt.Sprintf("%v %+v", []any{x, nil}, map[string]any{"b": x, "a": 1})))
			P("F " + tag + " ptr-to " + strconv.Quote(fmt.Sprintf("%+v %#v", &struct{ A any }{x}, &[]any{x})))
		}
	})
}

// ZeroFmt prints the zero value of t.
func ZeroFmt(tag string, t reflect.Type) {
	z := reflect.Zero(t).Interface()
	for _, f := range []string{"%v", "%+v", "%#v", "%T", "%d", "%s", "%x", "%q", "%5.1f", "%t"} {
		Try("zerofmt "+f, func() {
			P("F " + tag + " zero " + f + " " + strconv.Quote(fmt.Sprintf(f, z)))
		})
	}
	n := reflect.New(t)
	if k := t.Kind(); k == reflect.Struct || k == reflect.Array || k == reflect.Slice || k == reflect.Map {
		Try("newfmt", func() {
			P("F " + tag + " new " + strconv.Quote(fmt.Sprintf("%v %+v %#v", n.Interface(), n.Interface(), n.Interface())))
		})
	}
}

func MkErr(k int) Err {
	return Err{[]string{"e0", "e0~", "e2", "e3", "e3~"}[k]}
}

func MkStr(k int) Str { return Str{[]int{10, 11, 12, 13, 14}[k]} }

// Avoid holds the ids of the open findings whose constructs the walker must not touch (probe + avoid);
// it is filled by the generated main package before any unit runs.
var Avoid = map[string]bool{}

// pointerShaped kinds are passed wrongly by reflect.Value.Call when the argument Value is addressable
// (finding C15-call-pointer-args).
func pointerShaped(k reflect.Kind) bool {
	return k == reflect.Pointer || k == reflect.Map || k == reflect.Chan || k == reflect.Func || k == reflect.UnsafePointer
}

// directShaped: stored directly in an interface word (pointer-shaped kinds and one-field wrappers of them).
func directShaped(t reflect.Type, d int) bool {
	if d > 6 {
		return false
	}
	switch t.Kind() {
	case reflect.Pointer, reflect.Map, reflect.Chan, reflect.Func, reflect.UnsafePointer:
		return true
	case reflect.Struct:
		return t.NumField() == 1 && directShaped(t.Field(0).Type, d+1)
	case reflect.Array:
		return t.Len() == 1 && directShaped(t.Elem(), d+1)
	}
	return false
}

// hasZeroSize: the type has a zero-size struct or array component stored by value (finding C15-call-zero-size).
func hasZeroSize(t reflect.Type, d int) bool {
	if d > 6 {
		return false
	}
	switch t.Kind() {
	case reflect.Struct:
		if t.NumField() == 0 {
			return true
		}
		for i := 0; i < t.NumField(); i++ {
			if hasZeroSize(t.Field(i).Type, d+1) {
				return true
			}
		}
	case reflect.Array:
		return t.Len() == 0 || hasZeroSize(t.Elem(), d+1)
	}
	return false
}

package g

type G[X any] struct{ F X }

// Loc: function-local type of a generic function, asserted from a closure of that function.
func Loc[X any]() (any, func(any) bool) {
	type L struct{ x X }
	return L{}, func(x any) bool { _, ok := x.(L); return ok }
}

// LocB: the same without a closure inside the generic function.
func LocB[X any](x any) (any, bool) {
	type L struct{ x X }
	_, ok := x.(L)
	return L{}, ok
}

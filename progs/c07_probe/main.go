// Fixed probes of C07 (run first on every run). Line format: P <class> <unit> <result>.
// <class> is the narrow failure class a mismatch on that line belongs to (findings/C07.json);
// class "control" lines are regression guards for attributes that are handled correctly.
package main

import (
	"vmod/g"
	"vmod/pa"
	"vmod/pb"
	"vmod/pc"
)

func b(x bool) int {
	if x {
		return 1
	}
	return 0
}

func main() {
	println("P e1:tag-only tag-x-vs-y", b(pa.IsTagY(pa.TagX())))
	println("P e1:tag-only tag-x-vs-none", b(pa.IsTagNone(pa.TagX())))
	println("P e1:embedded-name emb-alias", b(pa.IsEmbT(pa.EmbAlias())))
	println("P control emb-alias-self", b(pa.IsEmbA(pa.EmbAlias())))
	println("P e1:embedded-name emb-byte", b(pa.IsEmbUint8(pa.EmbByte())))
	println("P e1:typearg-unexported-pkg targ-struct", b(pb.IsTargStruct(pa.TargStruct())))
	println("P control targ-struct-self", b(pa.IsTargStruct(pa.TargStruct())))
	println("P e1:typearg-unexported-pkg targ-iface", b(pb.IsTargIface(pa.TargIface())))
	println("P control targ-iface-self", b(pa.IsTargIface(pa.TargIface())))
	println("P control targ-param-name", b(pb.IsTargFuncB(pa.TargFuncA())))
	println("P control targ-rune-int32", b(pb.IsTargInt32(pa.TargRune())))
	{
		var x any = (*interface {
			pa.Im
			pb.Im
		})(nil)
		_, ok := x.(*interface {
			pa.Im
			pc.Im
		})
		println("P e1:iface-mixed-pkgs iface-pa-pb-vs-pa-pc", b(ok))
		_, ok = x.(*interface {
			pb.Im
			pa.Im
		})
		println("P control iface-pa-pb-self", b(ok))
	}
	{
		v, f := g.Loc[int]()
		println("P e1:generic-local-closure genclosure-own", b(f(v)))
		w, _ := g.Loc[string]()
		println("P control genclosure-other-inst", b(f(w)))
		v2, _ := g.LocB[int](nil)
		_, ok := g.LocB[int](v2)
		println("P control genlocal-own", b(ok))
		_, ok = g.LocB[string](v2)
		println("P control genlocal-other-inst", b(ok))
	}
	println("P e1:unexported-method-symbol direct-n", pb.DirectN())
	println("P e1:unexported-method-symbol iface-n", pb.IfaceN())
	// controls
	println("P control field-name", b(pa.IsFieldB(pa.FieldA())))
	println("P control exported-only-other-pkg", b(pb.IsFieldA(pa.FieldA())))
	println("P control unexported-field-same-pkg", b(pa.IsUnexp(pa.Unexp())))
	println("P control unexported-field-other-pkg", b(pb.IsUnexp(pa.Unexp())))
	println("P control variadic-vs-slice", b(pa.IsSliceFunc(pa.Variadic())))
	println("P control variadic-self", b(pa.IsVariadic(pa.Variadic())))
	println("P control chan-dir", b(pa.IsChan(pa.SendChan())))
	println("P control chan-dir-self", b(pa.IsSendChan(pa.SendChan())))
	println("P control array-len-1-vs-11", b(pa.IsArr11(pa.Arr1())))
	println("P control embedded-vs-named-field", b(pa.IsNamedFieldT(pa.EmbT())))
	println("P control named-same-name-other-pkg", b(pb.IsPbT(pa.T(0))))
	println("P control named-self", b(pb.IsPaT(pa.T(0))))
	{
		v1, f1 := pa.Local1()
		v2, f2 := pa.Local2()
		println("P control local-scope", b(f1(v2)), b(f2(v1)), b(f1(v1)), b(f2(v2)))
	}
	println("END")
}

package pa

import "vmod/g"

type T int
type A = T
type Im interface{ m() }

type C struct{ f int }

func (*C) n() int { return 1 } // unexported method of package pa

func TagX() any {
	return struct {
		A int "x"
	}{}
}
func IsTagY(x any) bool {
	_, ok := x.(struct {
		A int "y"
	})
	return ok
}
func IsTagNone(x any) bool { _, ok := x.(struct{ A int }); return ok }

func EmbAlias() any         { return struct{ A }{} }
func IsEmbT(x any) bool     { _, ok := x.(struct{ T }); return ok }
func IsEmbA(x any) bool     { _, ok := x.(struct{ A }); return ok }
func EmbByte() any          { return struct{ byte }{} }
func IsEmbUint8(x any) bool { _, ok := x.(struct{ uint8 }); return ok }

func TargStruct() any         { return g.G[struct{ a int }]{} }
func IsTargStruct(x any) bool { _, ok := x.(g.G[struct{ a int }]); return ok }
func TargIface() any          { return g.G[interface{ m() }]{} }
func IsTargIface(x any) bool  { _, ok := x.(g.G[interface{ m() }]); return ok }
func TargFuncA() any          { return g.G[func(a int)]{} }
func TargRune() any           { return g.G[[]rune]{} }

// controls
func FieldA() any              { return struct{ A int }{} }
func IsFieldB(x any) bool      { _, ok := x.(struct{ B int }); return ok }
func Unexp() any               { return struct{ a int }{} }
func IsUnexp(x any) bool       { _, ok := x.(struct{ a int }); return ok }
func Variadic() any            { return (func(...int))(nil) }
func IsSliceFunc(x any) bool   { _, ok := x.(func([]int)); return ok }
func IsVariadic(x any) bool    { _, ok := x.(func(...int)); return ok }
func SendChan() any            { return (chan<- int)(nil) }
func IsChan(x any) bool        { _, ok := x.(chan int); return ok }
func IsSendChan(x any) bool    { _, ok := x.(chan<- int); return ok }
func Arr1() any                { return [1]int{} }
func IsArr11(x any) bool       { _, ok := x.([11]int); return ok }
func EmbT() any                { return struct{ T }{} }
func IsNamedFieldT(x any) bool { _, ok := x.(struct{ T T }); return ok }

func Local1() (any, func(any) bool) {
	type L int
	return L(0), func(x any) bool { _, ok := x.(L); return ok }
}

func Local2() (any, func(any) bool) {
	type L int
	{
		type L int
		return L(0), func(x any) bool { _, ok := x.(L); return ok }
	}
}

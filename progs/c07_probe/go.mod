module vmod

go 1.24

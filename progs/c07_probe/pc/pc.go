package pc

type Im interface{ m() }

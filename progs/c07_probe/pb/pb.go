package pb

import (
	"vmod/g"
	"vmod/pa"
)

type T int
type Im interface{ m() }

// D has its own unexported method n and, through pa.C, the promoted unexported method pa.n:
// two different methods with the same bare name.
type D struct {
	*pa.C
	f int
}

func (*D) n() int { return 2 }

type N interface{ n() int }

func DirectN() int { return (&D{C: &pa.C{}}).n() }
func IfaceN() int {
	var v any = &D{C: &pa.C{}}
	return v.(N).n()
}

func IsTargStruct(x any) bool { _, ok := x.(g.G[struct{ a int }]); return ok }
func IsTargIface(x any) bool  { _, ok := x.(g.G[interface{ m() }]); return ok }
func IsTargFuncB(x any) bool  { _, ok := x.(g.G[func(b int)]); return ok }
func IsTargInt32(x any) bool  { _, ok := x.(g.G[[]int32]); return ok }
func IsUnexp(x any) bool      { _, ok := x.(struct{ a int }); return ok }
func IsFieldA(x any) bool     { _, ok := x.(struct{ A int }); return ok }
func IsPaT(x any) bool        { _, ok := x.(pa.T); return ok }
func IsPbT(x any) bool        { _, ok := x.(T); return ok }

package g

type Tree[T any] struct {
	L, R *Tree[T]
	X    T
}

func (t *Tree[T]) Depth() int {
	if t == nil {
		return 0
	}
	return 1 + max(t.L.Depth(), t.R.Depth())
}

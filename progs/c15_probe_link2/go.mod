module probe15m

go 1.24

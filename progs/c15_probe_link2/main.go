// Fixed probe of finding C15-alias-generic-link: a generic instance that the program only names through an
// alias gets a type descriptor whose method table refers to methods that are never instantiated (link error).
package main

import (
	"fmt"
	"reflect"

	"probe15m/g"
)

type A = g.Tree[string]

type T struct {
	F [2]A
}

func main() {
	v := T{F: [2]A{{X: "a"}, {X: "b"}}}
	t := reflect.TypeOf(v)
	fmt.Println(t.Field(0).Type.String(), t.Field(0).Type.Elem().NumMethod(), reflect.PointerTo(t.Field(0).Type.Elem()).NumMethod())
	fmt.Printf("%v %+v\n", v, v)
}

// Command c06mapvm is the fixed generic map VM of check C06.  It is compiled
// once per run by llgo (from the working tree) and by the reference go toolchain;
// both binaries execute identical histories.  Usage:
//
//	c06mapvm SPEC...        SPEC = K:V:profile:pool:lo:hi:ops:seed:flags
//
// Output (stderr, println only): BEGIN/C/P/END lines are determined by the
// language spec and compared between the two builds; MONITOR: lines report a
// disagreement between the map and the in-program shadow / range-law monitor;
// STAT lines are coverage counters and are not compared.
// C06_TRACE=1 prints every operation (T lines, iteration-order dependent).
package main

import "os"

var traceOn bool

func split(s string, sep byte) []string {
	var out []string
	st := 0
	for i := 0; i <= len(s); i++ {
		if i == len(s) || s[i] == sep {
			out = append(out, s[st:i])
			st = i + 1
		}
	}
	return out
}

func atoi(s string) int {
	n, used := atoiPrefix(s)
	if used != len(s) || used == 0 {
		println("bad number", s)
		os.Exit(2)
	}
	return n
}

func runK[K comparable](ko *keyOps[K], sp *spec) int {
	switch sp.vname {
	case "int":
		return run(newDriver(ko, &valInt), sp)
	case "string":
		return run(newDriver(ko, &valStr), sp)
	case "empty":
		return run(newDriver(ko, &valEmpty), sp)
	case "a5":
		return run(newDriver(ko, &valA5), sp)
	case "a17":
		return run(newDriver(ko, &valA17), sp)
	}
	println("bad value type", sp.vname)
	os.Exit(2)
	return 0
}

func main() {
	traceOn = os.Getenv("C06_TRACE") != ""
	ptrCells = make([]int, 1<<16)
	for i := range ptrCells {
		ptrCells[i] = i
	}
	bad := 0
	for _, a := range os.Args[1:] {
		f := split(a, ':')
		if len(f) != 9 {
			println("bad spec", a)
			os.Exit(2)
		}
		sp := &spec{text: a, kname: f[0], vname: f[1], pool: atoi(f[3]), lo: atoi(f[4]), hi: atoi(f[5]),
			ops: atoi(f[6]), seed: uint64(atoi(f[7])), flags: atoi(f[8])}
		for i := range profiles {
			if profiles[i].name == f[2] {
				sp.prof = &profiles[i]
			}
		}
		if sp.prof == nil || sp.pool < 1 {
			println("bad profile/pool", a)
			os.Exit(2)
		}
		scatterInts = sp.flags&2 != 0
		if sp.flags&8 != 0 {
			traceOn = true
		}
		switch sp.kname {
		case "int":
			bad += runK(&keyInt, sp)
		case "uint8":
			bad += runK(&keyU8, sp)
		case "string":
			bad += runK(&keyStr, sp)
		case "float64":
			bad += runK(&keyF64, sp)
		case "iface":
			bad += runK(&keyAny, sp)
		case "c128":
			bad += runK(&keyC128, sp)
		case "ck":
			bad += runK(&keyCK, sp)
		case "arr":
			bad += runK(&keyArr, sp)
		case "sk":
			bad += runK(&keySK, sp)
		case "ptr":
			bad += runK(&keyPtr, sp)
		case "bk":
			bad += runK(&keyBK, sp)
		case "pk":
			bad += runK(&keyPK, sp)
		default:
			println("bad key type", sp.kname)
			os.Exit(2)
		}
	}
	if bad > 0 {
		os.Exit(4)
	}
}

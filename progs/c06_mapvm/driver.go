package main

import "unsafe"

// ---------------------------------------------------------------------------
// Typed map driver: the only generic code of the VM.  Each (K,V) instantiation
// performs the real map operations (m[k]=v, v=m[k], v,ok=m[k], delete, clear,
// len, make, range) on a map[K]V; the untyped VM core drives it through the
// driver interface, so the 50 instantiations stay small.
// ---------------------------------------------------------------------------

// yieldFn receives one (key,value) pair produced by range: canonical key index
// (-1 unknown key, -2 NaN-like key), value payload x, and whether the value is
// intact (v == val(unval(v))).  Returning false breaks out of the loop.
type yieldFn func(ki int, x int, intact bool) bool

type driver interface {
	Assign(i, x int)
	Delete(i int)
	Get1(i int) (x int, isZero, intact bool)
	Get2(i int) (x int, isZero, intact, ok bool)
	Len() int
	Clear()
	Remake(hint int)
	Range(f yieldFn)
	NilOps(i int) (problems int, writeClass string)
	Unhash(j, mode int) (cls string, applicable bool)
	Peek() (b, flags, noverflow int, growing bool)
	Canon(i int) int
	NaN(i int) bool
	KeyMax() int
	Distinct() bool
}

type drv[K comparable, V comparable] struct {
	ko   *keyOps[K]
	vo   *valOps[V]
	m    map[K]V
	nm   map[K]V
	zero V
}

func (d *drv[K, V]) Assign(i, x int) { d.m[d.ko.mk(i)] = d.vo.val(x) }
func (d *drv[K, V]) Delete(i int)    { delete(d.m, d.ko.mk(i)) }

func (d *drv[K, V]) Get1(i int) (int, bool, bool) {
	got := d.m[d.ko.mk(i)]
	x := d.vo.unval(got)
	return x, got == d.zero, got == d.vo.val(x)
}

func (d *drv[K, V]) Get2(i int) (int, bool, bool, bool) {
	got, ok := d.m[d.ko.mk(i)]
	x := d.vo.unval(got)
	return x, got == d.zero, got == d.vo.val(x), ok
}

func (d *drv[K, V]) Len() int { return len(d.m) }
func (d *drv[K, V]) Clear()   { clear(d.m) }

func (d *drv[K, V]) Remake(hint int) {
	if hint < 0 {
		d.m = map[K]V{}
	} else {
		d.m = make(map[K]V, hint)
	}
}

func (d *drv[K, V]) Range(f yieldFn) {
	for k, v := range d.m {
		ki := -2
		if k == k {
			ki = d.ko.idx(k)
			if ki < 0 {
				ki = -1
			}
		}
		x := d.vo.unval(v)
		if !f(ki, x, v == d.vo.val(x)) {
			break
		}
	}
}

func (d *drv[K, V]) NilOps(i int) (problems int, cls string) {
	k := d.ko.mk(i)
	got := d.nm[k]
	g2, ok := d.nm[k]
	if got != d.zero || g2 != d.zero || ok || len(d.nm) != 0 {
		problems |= 1
	}
	for range d.nm {
		problems |= 2
	}
	delete(d.nm, k)
	clear(d.nm)
	cls = try(func() { d.nm[k] = d.vo.val(i) })
	if d.nm != nil || len(d.nm) != 0 {
		problems |= 4
	}
	return
}

func (d *drv[K, V]) Unhash(j, mode int) (string, bool) {
	u := unhashable(j)
	k, ok := u.(K)
	if !ok {
		return "", false
	}
	switch mode {
	case 0:
		return try(func() { d.m[k] = d.vo.val(j & 1023) }), true
	case 1:
		return try(func() { _ = d.m[k] }), true
	case 2:
		return try(func() { _, _ = d.m[k] }), true
	case 3:
		return try(func() { delete(d.m, k) }), true
	}
	return try(func() { _ = d.nm[k] }), true
}

func (d *drv[K, V]) Peek() (int, int, int, bool) {
	return peekMap(*(*unsafe.Pointer)(unsafe.Pointer(&d.m)))
}

func (d *drv[K, V]) Canon(i int) int { return d.ko.canon(i) }
func (d *drv[K, V]) NaN(i int) bool  { return d.ko.nan(i) }
func (d *drv[K, V]) KeyMax() int     { return d.ko.max }
func (d *drv[K, V]) Distinct() bool  { return d.vo.distinct }

func newDriver[K comparable, V comparable](ko *keyOps[K], vo *valOps[V]) driver {
	return &drv[K, V]{ko: ko, vo: vo}
}

package main

import "unsafe"

// ---------------------------------------------------------------------------
// Key and value type tables of the map VM.  Every key type comes with
//   mk(i)    the key for pool index i (built dynamically, never a constant),
//   idx(k)   the canonical pool index of a key handed back by range (-1: not a
//            key this VM ever made, -2: a NaN-like key, i.e. k != k),
//   canon(i) the canonical index of pool index i (+0 and -0 are ONE key),
//   nan(i)   whether mk(i) != mk(i).
// Every value type comes with val(x)/unval(v); v == val(unval(v)) must hold for
// every value the VM ever stored (detects partially corrupted elems).
// ---------------------------------------------------------------------------

type keyOps[K comparable] struct {
	name  string
	max   int
	mk    func(i int) K
	idx   func(k K) int
	canon func(i int) int
	nan   func(i int) bool
}

type valOps[V comparable] struct {
	name     string
	val      func(x int) V
	unval    func(v V) int
	distinct bool
}

type SK struct {
	a int16
	s string
}

// BK is larger than abi.MapMaxKeyBytes (128): the map stores such keys indirectly.
type BK struct {
	pad [15]int64
	id  int32
	s   string
}

// PK has padding after a and after c and no pointer: hashing must skip the holes.
type PK struct {
	a uint8
	b int32
	c uint8
}

type myInt int

type IK struct {
	f float64
	i interface{}
}

var scatterInts bool

var ptrCells []int

func ident(i int) int  { return i }
func never(i int) bool { return false }

func itoa(x int) string {
	if x == 0 {
		return "0"
	}
	neg := x < 0
	if neg {
		x = -x
	}
	var b [24]byte
	n := len(b)
	for x > 0 {
		n--
		b[n] = byte('0' + x%10)
		x /= 10
	}
	if neg {
		n--
		b[n] = '-'
	}
	return string(b[n:])
}

// atoiPrefix parses a decimal prefix; returns value and number of bytes used.
func atoiPrefix(s string) (int, int) {
	n := 0
	i := 0
	for i < len(s) && s[i] >= '0' && s[i] <= '9' {
		n = n*10 + int(s[i]-'0')
		i++
	}
	return n, i
}

var strLens = [...]int{0, 1, 2, 3, 5, 7, 9, 14, 17, 30, 47, 49, 80, 131}

// skey builds a string that embeds i and has one of many lengths so that every
// size class of memhash (0, <4, 4, <8, 8, <=16, >16, >48) is reached.
func skey(i int) string {
	if i == 0 {
		return ""
	}
	d := itoa(i)
	fill := strLens[i%len(strLens)]
	b := make([]byte, 0, len(d)+1+fill)
	b = append(b, d...)
	if fill > 0 {
		b = append(b, '|')
		for j := 1; j < fill; j++ {
			b = append(b, byte('a'+(i+j*j)%26))
		}
	}
	return string(b)
}

func sidx(s string) int {
	if s == "" {
		return 0
	}
	n, used := atoiPrefix(s)
	if used == 0 || n == 0 {
		return -1
	}
	if s != skey(n) {
		return -1
	}
	return n
}

func fbits(u uint64) float64 { return *(*float64)(unsafe.Pointer(&u)) }
func bitsf(f float64) uint64 { return *(*uint64)(unsafe.Pointer(&f)) }

// float pool: 0:+0 1:-0 2:NaN 3:+Inf 4:-Inf 5:min denormal 6:max 7:another NaN, i>=8: +-1.5*i
func fkey(i int) float64 {
	switch i {
	case 0:
		return fbits(0)
	case 1:
		return fbits(1 << 63)
	case 2:
		return fbits(0x7ff8000000000001)
	case 3:
		return fbits(0x7ff0000000000000)
	case 4:
		return fbits(0xfff0000000000000)
	case 5:
		return fbits(1)
	case 6:
		return fbits(0x7fefffffffffffff)
	case 7:
		return fbits(0xfff8000000000abc)
	}
	f := float64(i) * 1.5
	if i&1 == 1 {
		f = -f
	}
	return f
}

func fidx(f float64) int {
	if f != f {
		return -2
	}
	if f == 0 {
		return 0
	}
	switch bitsf(f) {
	case 0x7ff0000000000000:
		return 3
	case 0xfff0000000000000:
		return 4
	case 1:
		return 5
	case 0x7fefffffffffffff:
		return 6
	}
	a := f
	if a < 0 {
		a = -a
	}
	q := a / 1.5
	if q < 8 || q > 1e15 {
		return -1
	}
	i := int(q)
	if fkey(i) != f {
		return -1
	}
	return i
}

func fcanon(i int) int {
	if i == 1 {
		return 0
	}
	return i
}

func fnan(i int) bool { return i == 2 || i == 7 }

func ikey(i int) int {
	if scatterInts {
		return int(uint64(i) * 0x9E3779B97F4A7C15)
	}
	return i
}

func iidx(k int) int {
	if scatterInts {
		k = int(uint64(k) * 0xf1de83e19937733d)
	}
	if k < 0 || k > 1<<30 {
		return -1
	}
	return k
}

func mkSK(i int) SK {
	var k SK
	// dirty the 6 padding bytes between a and s: equal keys must stay equal
	p := (*[8]byte)(unsafe.Pointer(&k))
	for j := 2; j < 8; j++ {
		p[j] = byte(i*7+j) | 1
	}
	k.a = int16(i * 31)
	k.s = skey(i)
	return k
}

func mkPK(i int) PK {
	var k PK
	p := (*[12]byte)(unsafe.Pointer(&k))
	for j := 0; j < 12; j++ {
		p[j] = byte(i*13+j) | 0x80
	}
	k.a = uint8(i * 3)
	k.b = int32(i)
	k.c = uint8(i >> 5)
	return k
}

func mkBK(i int) BK {
	var k BK
	for j := range k.pad {
		k.pad[j] = int64(i) * int64(j+1)
	}
	k.id = int32(i)
	k.s = skey(i)
	return k
}

func pkey(i int) *int {
	if i == 0 {
		return nil
	}
	for len(ptrCells) <= i {
		// cells are never moved: allocate the whole pool once
		panic("ptr pool too small")
	}
	return &ptrCells[i]
}

const nTags = 14

// interface pool: tag = i % nTags, payload = i / nTags
func akey(i int) interface{} {
	t, p := i%nTags, i/nTags
	switch t {
	case 0:
		return p
	case 1:
		return skey(p)
	case 2:
		return fkey(p)
	case 3:
		return [2]int32{int32(p), int32(-p * 7)}
	case 4:
		return mkSK(p)
	case 5:
		return pkey(p % len(ptrCells))
	case 6:
		return uint8(p)
	case 7:
		return p&1 == 1
	case 8:
		return nil
	case 9:
		return int64(p)
	case 10:
		return myInt(p)
	case 11:
		return mkPK(p)
	case 12:
		return [2]interface{}{p, skey(p)}
	default:
		return IK{float64(p) + 0.25, skey(p)}
	}
}

func acanon(i int) int {
	t, p := i%nTags, i/nTags
	switch t {
	case 2:
		p = fcanon(p)
	case 5:
		p = p % len(ptrCells)
	case 6:
		p &= 255
	case 7:
		p &= 1
	case 8:
		p = 0
	}
	return p*nTags + t
}

func anan(i int) bool { return i%nTags == 2 && fnan(i/nTags) }

func aidx(k interface{}) int {
	if k != k {
		return -2
	}
	t, p := -1, -1
	switch v := k.(type) {
	case nil:
		t, p = 8, 0
	case int:
		t, p = 0, v
	case string:
		t, p = 1, sidx(v)
	case float64:
		t, p = 2, fidx(v)
	case [2]int32:
		t, p = 3, int(v[0])
		if v[1] != int32(-p*7) {
			p = -1
		}
	case SK:
		t, p = 4, sidx(v.s)
		if p >= 0 && v.a != int16(p*31) {
			p = -1
		}
	case *int:
		t, p = 5, 0
		if v != nil {
			p = *v
		}
	case uint8:
		t, p = 6, int(v)
	case bool:
		t, p = 7, 0
		if v {
			p = 1
		}
	case int64:
		t, p = 9, int(v)
	case myInt:
		t, p = 10, int(v)
	case PK:
		t, p = 11, int(v.b)
		if v != mkPK(p) {
			p = -1
		}
	case [2]interface{}:
		t = 12
		if q, ok := v[0].(int); ok {
			if s, ok := v[1].(string); ok && s == skey(q) {
				p = q
			}
		}
	case IK:
		t = 13
		if s, ok := v.i.(string); ok {
			p = sidx(s)
			if p >= 0 && v.f != float64(p)+0.25 {
				p = -1
			}
		}
	}
	if t < 0 || p < 0 {
		return -1
	}
	return p*nTags + t
}

// unhashable dynamic values (only usable when K is an interface type)
func unhashable(j int) interface{} {
	switch j % 6 {
	case 0:
		return []int{1, 2, j}
	case 1:
		return map[int]int{j: 1}
	case 2:
		return func() {}
	case 3:
		return struct {
			n int
			s []int
		}{j, nil}
	case 4:
		return [2]interface{}{j, []string{"x"}}
	default:
		return [1][]int{}
	}
}

var keyInt = keyOps[int]{"int", 1 << 30, ikey, iidx, ident, never}
var keyU8 = keyOps[uint8]{"uint8", 256, func(i int) uint8 { return uint8(i) }, func(k uint8) int { return int(k) },
	func(i int) int { return i & 255 }, never}
var keyStr = keyOps[string]{"string", 1 << 30, skey, sidx, ident, never}
var keyF64 = keyOps[float64]{"float64", 1 << 30, fkey, fidx, fcanon, fnan}

// complex128 keys: real part from the float pool (incl. +-0, NaN, Inf), imaginary part a small function of i;
// every 5th i >= 10 carries a NaN imaginary part (k != k). +0/-0 real parts are one key.
func ckey(i int) complex128 {
	im := float64(i % 3)
	if i >= 10 && i%5 == 0 {
		im = fbits(0x7ff8000000000123)
	}
	if i%4 == 3 {
		im = -im // includes -0 for i%3 == 0
	}
	return complex(fkey(i), im)
}

func cnan(i int) bool { return fnan(i) || (i >= 10 && i%5 == 0) }

func cidx(k complex128) int {
	if k != k {
		return -2
	}
	i := fidx(real(k))
	if i < 0 {
		return i
	}
	// +0 and -0 share index 0: accept either i=0 or i=1 pattern for the imaginary part
	if i == 0 { // real part +0 or -0: index 0 is (+0,+0), index 1 is (-0,1)
		switch imag(k) {
		case 0:
			return 0
		case 1:
			return 1
		}
		return -1
	}
	if ckey(i) != k {
		return -1
	}
	return i
}

func ccanon(i int) int {
	// ckey(0) = (+0, +0) and ckey(1) = (-0, 1): different keys; only signed zeros inside one component collapse
	return i
}

// CK: struct key containing a complex64 (hash and equality go through the struct algorithm)
type CK struct {
	c complex64
	n int32
}

func mkCK(i int) CK {
	re := float32(i)
	if i == 1 {
		re = float32(fbits(1 << 63)) // -0
	}
	if i == 2 {
		re = float32(fbits(0x7ff8000000000001)) // NaN
	}
	return CK{complex(re, float32(i%7)), int32(i)}
}

var keyC128 = keyOps[complex128]{"c128", 1 << 30, ckey, cidx, ccanon, cnan}
var keyCK = keyOps[CK]{"ck", 1 << 24, mkCK, func(k CK) int {
	if k != k {
		return -2
	}
	i := int(k.n)
	if i < 0 || k != mkCK(i) {
		return -1
	}
	return i
}, ident, func(i int) bool { return i == 2 }}
var keyAny = keyOps[interface{}]{"iface", 1 << 30, akey, aidx, acanon, anan}
var keyArr = keyOps[[2]int32]{"arr", 1 << 30, func(i int) [2]int32 { return [2]int32{int32(i), int32(i>>3) * -7} },
	func(k [2]int32) int {
		i := int(k[0])
		if i < 0 || k[1] != int32(i>>3)*-7 {
			return -1
		}
		return i
	}, ident, never}
var keySK = keyOps[SK]{"sk", 1 << 30, mkSK, func(k SK) int {
	i := sidx(k.s)
	if i >= 0 && k.a != int16(i*31) {
		return -1
	}
	return i
}, ident, never}
var keyPtr = keyOps[*int]{"ptr", 1 << 20, pkey, func(k *int) int {
	if k == nil {
		return 0
	}
	return *k
}, ident, never}
var keyBK = keyOps[BK]{"bk", 1 << 30, mkBK, func(k BK) int {
	i := int(k.id)
	if i < 0 || k != mkBK(i) {
		return -1
	}
	return i
}, ident, never}
var keyPK = keyOps[PK]{"pk", 1 << 30, mkPK, func(k PK) int {
	i := int(k.b)
	if i < 0 || k != mkPK(i) {
		return -1
	}
	return i
}, ident, never}

type V5 = [5]int64
type V17 = [17]int64 // 136 bytes > abi.MapMaxElemBytes: stored indirectly

func vstr(x int) string {
	d := itoa(x)
	n := x % 23
	b := make([]byte, 0, len(d)+1+n)
	b = append(b, 'v')
	b = append(b, d...)
	for j := 0; j < n; j++ {
		b = append(b, byte('A'+(x+j)%26))
	}
	return string(b)
}

func unvstr(s string) int {
	if len(s) < 2 || s[0] != 'v' {
		return -1
	}
	n, used := atoiPrefix(s[1:])
	if used == 0 {
		return -1
	}
	return n
}

func v5(x int) V5 {
	y := int64(x)
	return V5{y, y + 1, y * 3, -y, y ^ 0x5555}
}

func v17(x int) V17 {
	var v V17
	for j := range v {
		v[j] = int64(x)*int64(j+1) + int64(j)
	}
	return v
}

var valInt = valOps[int]{"int", ident, ident, true}
var valStr = valOps[string]{"string", vstr, unvstr, true}
var valEmpty = valOps[struct{}]{"empty", func(x int) struct{} { return struct{}{} }, func(v struct{}) int { return 0 }, false}
var valA5 = valOps[V5]{"a5", v5, func(v V5) int { return int(v[0]) }, true}
var valA17 = valOps[V17]{"a17", v17, func(v V17) int { return int(v[0]) }, true}

//go:build !llgo

package main

import "unsafe"

const peekImpl = "none"

func peekMap(p unsafe.Pointer) (b, flags, noverflow int, growing bool) { return }

package main

import "os"

// ---------------------------------------------------------------------------
// Map VM core (untyped).  One history = one spec.  All decisions at top level
// come from a sequential PRNG; all decisions inside range loops are functions
// of (seed, loop id, key index), and loop bodies are built from roles whose
// combined effect does not depend on the order in which range produces the
// entries - so the iteration order of the map cannot leak into the rest of the
// history and the llgo run and the go run execute identical histories.
// The monitor (shadow map, loop records) uses slices only - never a map.
// ---------------------------------------------------------------------------

type rng struct{ s uint64 }

func (r *rng) next() uint64 {
	x := r.s
	x ^= x << 13
	x ^= x >> 7
	x ^= x << 17
	r.s = x
	return x * 0x2545F4914F6CDD1D
}

func (r *rng) n(k int) int {
	if k <= 1 {
		return 0
	}
	return int((r.next() >> 11) % uint64(k))
}

func smix(z uint64) uint64 {
	z += 0x9e3779b97f4a7c15
	z = (z ^ (z >> 30)) * 0xbf58476d1ce4e5b9
	z = (z ^ (z >> 27)) * 0x94d049bb133111eb
	return z ^ (z >> 31)
}

func mix3(a, b, c uint64) uint64 { return smix(smix(smix(a)^b) ^ c) }

// ---- shadow map: slice sorted by canonical key index + list of NaN entries

type ent struct{ ki, x, id int }

type shadow struct {
	e      []ent
	nans   []ent
	nextID int
}

func (s *shadow) find(ki int) (int, bool) {
	lo, hi := 0, len(s.e)
	for lo < hi {
		m := (lo + hi) >> 1
		if s.e[m].ki < ki {
			lo = m + 1
		} else {
			hi = m
		}
	}
	return lo, lo < len(s.e) && s.e[lo].ki == ki
}

// set returns true when a new entry was created
func (s *shadow) set(ki, x int) bool {
	p, ok := s.find(ki)
	if ok {
		s.e[p].x = x
		return false
	}
	s.e = append(s.e, ent{})
	copy(s.e[p+1:], s.e[p:])
	s.e[p] = ent{ki, x, s.nextID}
	s.nextID++
	return true
}

func (s *shadow) del(ki int) bool {
	p, ok := s.find(ki)
	if !ok {
		return false
	}
	copy(s.e[p:], s.e[p+1:])
	s.e = s.e[:len(s.e)-1]
	return true
}

func (s *shadow) addNaN(ki, x int) {
	s.nans = append(s.nans, ent{ki, x, s.nextID})
	s.nextID++
}

func (s *shadow) clear() {
	s.e = s.e[:0]
	s.nans = s.nans[:0]
}

func (s *shadow) n() int { return len(s.e) + len(s.nans) }

// ---- loop records (per-loop bookkeeping of the range laws)

type loopRec struct {
	id        uint64
	startLen  int
	inserts   int // entries created while this loop was running
	yields    int
	startNext int    // entry ids below this existed when the loop started
	seen      []bool // by entry id
	cleared   bool
}

func (l *loopRec) wasSeen(id int) bool { return id < len(l.seen) && l.seen[id] }

func (l *loopRec) mark(id int) bool {
	for len(l.seen) <= id {
		l.seen = append(l.seen, false)
	}
	if l.seen[id] {
		return true
	}
	l.seen[id] = true
	return false
}

// loop flavours
const (
	fCollect = iota
	fBreak
	fDelCur
	fDelAll
	fDelOther
	fInsert
	fMixed
	fNested
	fClear
	nFlavours
)

// roles of a key in one loop (function of seed, loop id, key index).
// Triggers act when they are produced; targets are passive.  Triggers are never
// deleted by another key and targets never act, so the set of triggers that fire
// (= triggers live at loop start, by the range law) and therefore the state after
// the loop is independent of the iteration order.
const (
	rPassive = iota
	rDelSelf
	rDelOther
	rInsert
	rBounce // delete + re-insert another key: the re-inserted key is a NEW entry
	rUpdate
	rNester
	rVictim
	rNewcomer
	rBouncee
	rUpdatee
)

var roleTab = [nFlavours][16]uint8{
	fDelCur:   {rDelSelf, rDelSelf, rDelSelf, rDelSelf, rDelSelf, rDelSelf},
	fDelAll:   {rDelSelf, rDelSelf, rDelSelf, rDelSelf, rDelSelf, rDelSelf, rDelSelf, rDelSelf, rDelSelf, rDelSelf, rDelSelf, rDelSelf, rDelSelf, rDelSelf, rDelSelf, rDelSelf},
	fDelOther: {rDelOther, rDelOther, rDelOther, rDelOther, rVictim, rVictim, rVictim, rVictim, rVictim, rVictim},
	fInsert:   {rInsert, rInsert, rInsert, rInsert, rInsert, rInsert, rNewcomer, rNewcomer, rNewcomer, rNewcomer, rNewcomer, rNewcomer, rNewcomer, rNewcomer},
	fMixed:    {rDelSelf, rDelSelf, rDelOther, rInsert, rInsert, rInsert, rBounce, rUpdate, rNester, rVictim, rNewcomer, rNewcomer, rNewcomer, rBouncee, rUpdatee},
	fNested:   {rNester, rNester, rNester},
}

var flavourNames = [nFlavours]string{"collect", "break", "delcur", "delall", "delother", "insert", "mixed", "nested", "clear"}

// ---- profiles: weights of top-level operations and loop flavours

const (
	oInsNew = iota
	oAssign
	oUpdLive
	oDelLive
	oDelRand
	oLook
	oLook2
	oLen
	oClear
	oRemake
	oRange
	oDump
	oNil
	oUnhash
	nOps
)

type profile struct {
	name string
	w    [nOps]int
	fw   [nFlavours]int
	osc  bool // live count oscillates between lo and hi
	cap  bool // never more than hi entries (same-size-grow churn)
	nan  bool // keep up to hi/3 NaN-keyed entries in the map (key types that have NaNs)
}

var fwAll = [nFlavours]int{fCollect: 6, fBreak: 2, fDelCur: 4, fDelAll: 1, fDelOther: 4, fInsert: 5, fMixed: 6, fNested: 3, fClear: 1}
var fwNoGrow = [nFlavours]int{fCollect: 4, fBreak: 1, fDelCur: 3, fDelOther: 3, fNested: 2}
var fwClear = [nFlavours]int{fCollect: 4, fBreak: 1, fDelCur: 2, fDelOther: 2, fInsert: 4, fMixed: 4, fNested: 2, fClear: 6}

var profiles = []profile{
	{"mixed", [nOps]int{oInsNew: 60, oAssign: 50, oUpdLive: 30, oDelLive: 36, oDelRand: 20, oLook: 44, oLook2: 44, oLen: 12, oClear: 1, oRemake: 1, oRange: 36, oDump: 6, oNil: 6, oUnhash: 10}, fwAll, false, false, false},
	{"osc", [nOps]int{oInsNew: 0, oAssign: 16, oUpdLive: 16, oDelLive: 0, oDelRand: 8, oLook: 20, oLook2: 20, oLen: 4, oClear: 0, oRemake: 0, oRange: 14, oDump: 3, oNil: 1, oUnhash: 3}, fwAll, true, false, false},
	{"churn", [nOps]int{oInsNew: 0, oAssign: 6, oUpdLive: 6, oDelLive: 0, oDelRand: 4, oLook: 8, oLook2: 8, oLen: 2, oClear: 0, oRemake: 0, oRange: 10, oDump: 1, oNil: 0, oUnhash: 1}, fwNoGrow, true, true, false},
	{"nanchurn", [nOps]int{oInsNew: 0, oAssign: 6, oUpdLive: 6, oDelLive: 0, oDelRand: 4, oLook: 8, oLook2: 8, oLen: 2, oClear: 0, oRemake: 0, oRange: 14, oDump: 1, oNil: 0, oUnhash: 1}, fwNoGrow, true, true, true},
	{"iter", [nOps]int{oInsNew: 56, oAssign: 24, oUpdLive: 12, oDelLive: 28, oDelRand: 8, oLook: 12, oLook2: 12, oLen: 8, oClear: 1, oRemake: 1, oRange: 160, oDump: 12, oNil: 4, oUnhash: 4}, fwAll, false, false, false},
	{"fill", [nOps]int{oInsNew: 160, oAssign: 24, oUpdLive: 16, oDelLive: 24, oDelRand: 8, oLook: 24, oLook2: 24, oLen: 8, oClear: 0, oRemake: 0, oRange: 12, oDump: 3, oNil: 1, oUnhash: 4}, fwAll, false, false, false},
	{"clear", [nOps]int{oInsNew: 120, oAssign: 24, oUpdLive: 8, oDelLive: 20, oDelRand: 8, oLook: 20, oLook2: 20, oLen: 8, oClear: 6, oRemake: 2, oRange: 40, oDump: 6, oNil: 1, oUnhash: 4}, fwClear, false, false, false},
}

type spec struct {
	text         string
	kname, vname string
	prof         *profile
	pool         int
	lo, hi       int
	ops          int
	seed         uint64
	flags        int // 1: avoid clear on grown maps (open finding); 2: scattered int keys; 4: fixed probe script; 8: trace; 16: never insert NaN keys
}

// clear is avoided (flags&1) on map objects that ever held more entries than this
// or were made with a larger hint: the class of open finding C06-memclr-stub
// (B >= 4, i.e. more than 6*2^3 entries: bucket array with preallocated overflow buckets)
const avoidLen = 48

type stats struct {
	maxB, grows, sameSize, loopsInGrow, loopsGrew, maxNover, loops, maxLen, clears, clearsGrown, remakes, panics int
	yields, forced                                                                                               int
	flav                                                                                                         [nFlavours]int
	ops                                                                                                          [nOps]int
}

type vmT struct {
	d        driver
	distinct bool
	sp       *spec
	sh       shadow
	r        rng
	h        uint64
	op       int
	bad      int
	active   []*loopRec
	loopSeq  uint64
	objMax   int // upper bound of max(len ever, hint) of the current map object; order independent
	rising   bool
	force    int
	st       stats
	lastB    int
	lastSS   bool
	trace    bool
	nanIdx   []int // pool indices whose key is NaN-like
}

func (v *vmT) mix(x int) { v.h = (v.h ^ uint64(x)) * 1099511628211 }

func (v *vmT) fail(msg string, a, b int) {
	v.bad++
	if v.bad <= 10 {
		println("MONITOR:", msg, "op", v.op, "a", a, "b", b)
	}
}

func (v *vmT) norm(x int) int {
	if v.distinct {
		return x
	}
	return 0
}

func isThreshold(n int) bool {
	// load-factor growth thresholds: 8, then 6*2^B in llgo's port (loadFactorNum is
	// (8*13/16)*2 = 12 there) or 6.5*2^B (Go's original constant)
	if n == 8 {
		return true
	}
	for t := 12; t <= n; t *= 2 {
		if t == n || t+t/12 == n {
			return true
		}
	}
	return false
}

func (v *vmT) noteInsert() {
	for _, l := range v.active {
		l.inserts++
	}
	n := v.sh.n()
	if n > v.st.maxLen {
		v.st.maxLen = n
	}
	if len(v.active) == 0 && n > v.objMax {
		// top level only (inside loops the momentary length depends on the iteration order)
		v.objMax = n
		if isThreshold(n - 1) {
			v.force = 3 // the table has just started to grow: iterate soon
		}
	}
	if len(v.active) == 0 && v.sp.prof.nan && v.force == 0 {
		// any insert may have started a same-size grow (not predictable from outside): iterate right away
		v.force = 1
	}
}

// ---- primitive operations (perform on the real map, update the shadow)

func (v *vmT) assign(i, x int) {
	v.d.Assign(i, x)
	if v.d.NaN(i) {
		v.sh.addNaN(i, x)
		v.noteInsert()
	} else if v.sh.set(v.d.Canon(i), x) {
		v.noteInsert()
	}
	if v.trace {
		b, fl, nov, gr := v.d.Peek()
		println("T", v.op, "assign", i, x, "len", v.d.Len(), "B", b, "flags", fl, "noverflow", nov, "growing", gr)
	}
}

func (v *vmT) del(i int) {
	v.d.Delete(i)
	if !v.d.NaN(i) {
		v.sh.del(v.d.Canon(i))
	}
	if v.trace {
		println("T", v.op, "delete", i, "len", v.d.Len())
	}
}

func (v *vmT) expect(i int) (int, bool) {
	if v.d.NaN(i) {
		return 0, false
	}
	p, ok := v.sh.find(v.d.Canon(i))
	if !ok {
		return 0, false
	}
	return v.sh.e[p].x, true
}

func b2i(b bool) int {
	if b {
		return 1
	}
	return 0
}

func (v *vmT) checkVal(what string, i int, gx int, isZero, intact bool) {
	x, live := v.expect(i)
	if live {
		if gx != v.norm(x) || !intact {
			v.fail(what+": value differs from the most recently stored one (a=key index, b=expected x)", i, x)
		}
	} else if !isZero {
		v.fail(what+": absent key does not yield the zero value (a=key index, b=x of the value)", i, gx)
	}
	v.mix(i)
	v.mix(gx)
}

func (v *vmT) lookup1(i int) {
	gx, isZero, intact := v.d.Get1(i)
	v.checkVal("lookup", i, gx, isZero, intact)
	if v.trace {
		println("T", v.op, "lookup", i, gx)
	}
}

func (v *vmT) lookup2(i int) {
	gx, isZero, intact, ok := v.d.Get2(i)
	if _, live := v.expect(i); ok != live {
		v.fail("lookup2: ok flag wrong (a=key index, b=1 if the key is live)", i, b2i(live))
	}
	v.checkVal("lookup2", i, gx, isZero, intact)
	v.mix(b2i(ok))
	if v.trace {
		println("T", v.op, "lookup2", i, gx, ok)
	}
}

func (v *vmT) checkLen() {
	n := v.d.Len()
	if n != v.sh.n() {
		v.fail("len(m) differs from the number of live entries (a=len, b=live)", n, v.sh.n())
	}
	v.mix(n)
	if v.trace {
		println("T", v.op, "len", n)
	}
}

func (v *vmT) doClear() {
	if v.objMax > avoidLen {
		v.st.clearsGrown++
	}
	v.st.clears++
	v.d.Clear()
	v.sh.clear()
	for _, l := range v.active {
		l.cleared = true
	}
	if v.trace {
		println("T", v.op, "clear", "len", v.d.Len())
	}
}

func (v *vmT) clearAllowed() bool {
	return v.sp.flags&1 == 0 || v.objMax <= avoidLen
}

func (v *vmT) remake(hint int) {
	v.st.remakes++
	v.d.Remake(hint)
	if hint < 0 {
		hint = 0
	}
	v.objMax = hint
	v.sh.clear()
	v.lastB = 0
	v.lastSS = false
	if v.trace {
		println("T", v.op, "remake", hint)
	}
}

// ---- panics

func classify(r interface{}) string {
	var msg string
	switch e := r.(type) {
	case error:
		msg = e.Error()
	case string:
		msg = e
	default:
		return "other-type"
	}
	if contains(msg, "unhashable") {
		return "unhashable"
	}
	if contains(msg, "nil map") {
		return "nilmap"
	}
	return "other:" + msg
}

func contains(s, sub string) bool {
	for i := 0; i+len(sub) <= len(s); i++ {
		if s[i:i+len(sub)] == sub {
			return true
		}
	}
	return false
}

func try(f func()) (cls string) {
	defer func() {
		if r := recover(); r != nil {
			cls = classify(r)
		}
	}()
	f()
	return "none"
}

func (v *vmT) panicResult(what, want, got string) {
	v.st.panics++
	// spec-determined: compared with the reference run as well
	println("P", v.op, what, got)
	if got != want {
		v.fail("operation "+what+" must panic with class "+want, 0, 0)
	}
}

func (v *vmT) nilOps(i int) {
	problems, cls := v.d.NilOps(i)
	if problems != 0 {
		v.fail("nil map: read not zero/false/len 0 (1), range iterates (2), map changed by failed write (4): a=bits", problems, 0)
	}
	v.panicResult("nilmap-write", "nilmap", cls)
}

var unhashNames = [...]string{"unhashable-assign", "unhashable-lookup", "unhashable-lookup2", "unhashable-delete", "unhashable-nilmap-read"}

func (v *vmT) unhashOps(j int) bool {
	mode := j / 6 % 5
	cls, ok := v.d.Unhash(j, mode)
	if !ok {
		return false
	}
	v.panicResult(unhashNames[mode], "unhashable", cls)
	v.checkLen() // the failed operation must leave the map usable and unchanged
	return true
}

// ---- range loops

func (v *vmT) runaway(l *loopRec) {
	v.fail("range loop yields more entries than len at start + entries created during the loop (a=yields, b=bound): runaway iteration", l.yields, l.startLen+l.inserts)
	println("END", v.sp.text, "runaway")
	os.Exit(3)
}

// onYield checks one (key, value) pair produced by a range loop against the shadow
// and the per-loop record.  Returns the canonical key index, or -1 (no action).
func (v *vmT) onYield(l *loopRec, ki, x int, intact bool) int {
	l.yields++
	v.st.yields++
	if v.trace {
		println("T", v.op, "yield", ki, x, intact)
	}
	if l.yields > l.startLen+l.inserts {
		v.runaway(l)
	}
	if ki == -2 {
		// NaN-like key: every such entry is its own entry, identified by its value
		if !intact {
			v.fail("range yields a corrupted value for a NaN key (a=x)", x, 0)
			return -1
		}
		found := -1
		for j := range v.sh.nans {
			e := &v.sh.nans[j]
			if v.norm(e.x) == x && !l.wasSeen(e.id) {
				found = j
				break
			}
		}
		if found < 0 {
			v.fail("range yields a NaN-keyed entry that is not live or was already produced (a=value x, b=live NaN entries)", x, len(v.sh.nans))
			return -1
		}
		l.mark(v.sh.nans[found].id)
		return -1
	}
	if ki < 0 {
		v.fail("range yields a key that was never inserted (a=yield number, b=value x)", l.yields, x)
		return -1
	}
	p, ok := v.sh.find(ki)
	if !ok {
		v.fail("range yields a key that is not in the map: deleted or never inserted (a=key index, b=value x)", ki, x)
		return -1
	}
	e := v.sh.e[p]
	if x != v.norm(e.x) || !intact {
		v.fail("range yields a stale or corrupted value (a=key index, b=expected x)", ki, e.x)
	}
	if l.mark(e.id) {
		v.fail("range yields the same entry twice (a=key index, b=entry id)", ki, e.id)
	}
	return ki
}

func (v *vmT) loopEnd(l *loopRec, complete bool) {
	if len(v.active) == 1 {
		// deterministic upper bound of the length reached inside the loop
		if b := l.startLen + l.inserts; b > v.objMax {
			v.objMax = b
		}
	}
	if !complete || l.cleared {
		return
	}
	// every entry that existed when the loop started and still exists (same
	// entry id => never deleted in between) must have been produced
	for _, e := range v.sh.e {
		if e.id < l.startNext && !l.wasSeen(e.id) {
			v.fail("range missed an entry that was present during the whole loop (a=key index, b=entry id)", e.ki, e.id)
		}
	}
	for _, e := range v.sh.nans {
		if e.id < l.startNext && !l.wasSeen(e.id) {
			v.fail("range missed a NaN-keyed entry present during the whole loop (a=value x, b=entry id)", e.x, e.id)
		}
	}
}

func (v *vmT) roleOf(fl int, lid uint64, ki int) int {
	return int(roleTab[fl][mix3(v.sp.seed, lid, uint64(ki))&15])
}

// target picks a non-NaN canonical pool index with the wanted role; a pure
// function of (loop id, trigger key).
func (v *vmT) target(fl int, lid uint64, ki int, want int) int {
	h := mix3(v.sp.seed^0xabcdef, lid, uint64(ki))
	t := int(h % uint64(v.sp.pool))
	for n := 0; n < 48; n++ {
		if v.d.Canon(t) == t && !v.d.NaN(t) && v.roleOf(fl, lid, t) == want {
			return t
		}
		t++
		if t >= v.sp.pool {
			t = 0
		}
	}
	return -1
}

func (v *vmT) valueFor(lid uint64, t int) int {
	return int(mix3(v.sp.seed^0x777, lid, uint64(t)) % 100000)
}

func (v *vmT) rangeLoop(fl int, lid uint64, depth int) {
	l := &loopRec{id: lid, startLen: v.sh.n(), startNext: v.sh.nextID}
	v.active = append(v.active, l)
	v.st.loops++
	v.st.flav[fl]++
	b0, _, _, g0 := v.d.Peek()
	if g0 {
		v.st.loopsInGrow++
	}
	if v.trace {
		println("T", v.op, "range", flavourNames[fl], "depth", depth, "len", v.d.Len())
	}
	complete := true
	brk := 1 + int(mix3(v.sp.seed, lid, 99)%uint64(l.startLen+1))
	didClear := false
	v.d.Range(func(rki, x int, intact bool) bool {
		ki := v.onYield(l, rki, x, intact)
		if v.bad > 10 {
			complete = false
			return false
		}
		if fl == fBreak && l.yields >= brk {
			complete = false
			return false
		}
		if fl == fClear {
			if !didClear {
				didClear = true
				v.doClear()
				// refill with a set that depends on the loop id only
				n := int(mix3(v.sp.seed, lid, 7) % 12)
				for j := 0; j < n; j++ {
					t := int(mix3(v.sp.seed, lid, uint64(100+j)) % uint64(v.sp.pool))
					if !v.d.NaN(t) {
						v.assign(t, v.valueFor(lid, t))
					}
				}
			}
			return true
		}
		if ki < 0 || fl == fCollect || fl == fBreak {
			return true
		}
		switch v.roleOf(fl, lid, ki) {
		case rDelSelf:
			v.del(ki)
		case rDelOther:
			if t := v.target(fl, lid, ki, rVictim); t >= 0 {
				v.del(t)
			}
		case rInsert:
			if t := v.target(fl, lid, ki, rNewcomer); t >= 0 {
				v.assign(t, v.valueFor(lid, t))
			}
		case rBounce:
			if t := v.target(fl, lid, ki, rBouncee); t >= 0 {
				v.del(t)
				v.assign(t, v.valueFor(lid, t))
			}
		case rUpdate:
			if t := v.target(fl, lid, ki, rUpdatee); t >= 0 {
				v.assign(t, v.valueFor(lid, t))
			}
		case rNester:
			if depth == 0 && mix3(v.sp.seed, lid, uint64(ki)+0x5151)%uint64(1+l.startLen/12) == 0 {
				v.rangeLoop(fCollect, mix3(lid, uint64(ki), 1), 1)
			}
		}
		return true
	})
	v.loopEnd(l, complete)
	v.active = v.active[:len(v.active)-1]
	b1, _, _, g1 := v.d.Peek()
	if b1 != b0 || (g1 && !g0) {
		v.st.loopsGrew++
	}
}

// dump: collect by range, sort by key index, compare with the shadow entry by entry
func (v *vmT) dump() {
	l := &loopRec{id: 0, startLen: v.sh.n(), startNext: v.sh.nextID}
	v.active = append(v.active, l)
	got := make([]ent, 0, l.startLen)
	nanSum := 0
	nanCnt := 0
	v.d.Range(func(rki, x int, intact bool) bool {
		ki := v.onYield(l, rki, x, intact)
		if v.bad > 10 {
			return false
		}
		if ki >= 0 {
			got = append(got, ent{ki, x, 0})
		} else if rki == -2 {
			nanSum += x
			nanCnt++
		}
		return true
	})
	v.loopEnd(l, v.bad <= 10)
	v.active = v.active[:len(v.active)-1]
	sortEnts(got)
	if len(got) != len(v.sh.e) || nanCnt != len(v.sh.nans) {
		v.fail("sorted dump has a different number of entries than the shadow (a=dump, b=shadow)", len(got)+nanCnt, v.sh.n())
	}
	for j := range got {
		if j < len(v.sh.e) && (got[j].ki != v.sh.e[j].ki || got[j].x != v.norm(v.sh.e[j].x)) {
			v.fail("sorted dump differs from the shadow (a=position, b=key index in shadow)", j, v.sh.e[j].ki)
			break
		}
		v.mix(got[j].ki)
		v.mix(got[j].x)
	}
	v.mix(nanSum)
	v.mix(nanCnt)
	if v.trace {
		println("T", v.op, "dump", len(got), nanCnt)
	}
}

func sortEnts(a []ent) {
	// shell sort on ki (keys are distinct unless the map is broken)
	for gap := len(a) / 2; gap > 0; gap /= 2 {
		for i := gap; i < len(a); i++ {
			t := a[i]
			j := i
			for j >= gap && a[j-gap].ki > t.ki {
				a[j] = a[j-gap]
				j -= gap
			}
			a[j] = t
		}
	}
}

// ---- key choice helpers (top level only: sequential PRNG allowed)

func (v *vmT) randKey() int {
	i := v.r.n(v.sp.pool)
	if v.sp.flags&16 != 0 && v.d.NaN(i) {
		i = (i + 1) % v.sp.pool
	}
	return i
}

func (v *vmT) liveKey() int {
	if len(v.sh.e) == 0 {
		return v.randKey()
	}
	return v.sh.e[v.r.n(len(v.sh.e))].ki
}

func (v *vmT) newKey() int {
	i := v.randKey()
	for n := 0; n < 8; n++ {
		if _, live := v.expect(i); !live {
			return i
		}
		i = v.randKey()
	}
	return i
}

func (v *vmT) sample() {
	b, fl, nov, growing := v.d.Peek()
	if b > v.st.maxB {
		v.st.maxB = b
	}
	if b > v.lastB {
		v.st.grows++
	}
	v.lastB = b
	ss := growing && fl&8 != 0
	if ss && !v.lastSS {
		v.st.sameSize++
	}
	v.lastSS = ss
	if nov > v.st.maxNover {
		v.st.maxNover = nov
	}
}

func (v *vmT) pickFlavour() int {
	fw := &v.sp.prof.fw
	tot := 0
	for _, x := range fw {
		tot += x
	}
	pick := v.r.n(tot)
	for f := 0; f < nFlavours; f++ {
		if pick < fw[f] {
			return f
		}
		pick -= fw[f]
	}
	return fCollect
}

func (v *vmT) doRange() {
	fl := v.pickFlavour()
	if fl == fClear && !v.clearAllowed() {
		fl = fCollect
	}
	v.loopSeq++
	v.rangeLoop(fl, v.loopSeq, 0)
	v.checkLen()
}

func (v *vmT) step() {
	sp := v.sp
	w := sp.prof.w
	n := v.sh.n()
	if v.force > 0 {
		v.force--
		if v.r.n(2) == 0 {
			v.st.forced++
			v.st.ops[oRange]++
			v.doRange()
			v.sample()
			return
		}
	}
	if sp.prof.osc {
		if v.rising && n >= sp.hi {
			v.rising = false
		} else if !v.rising && len(v.sh.e) <= sp.lo {
			v.rising = true
			if !sp.prof.cap {
				// sometimes start over with a fresh map so that every lower growth threshold is crossed again
				if v.r.n(4) == 0 {
					hint := -1
					if v.r.n(3) == 0 {
						hint = v.r.n(sp.hi + sp.hi/2 + 2)
					}
					v.remake(hint)
				} else if v.r.n(6) == 0 && v.clearAllowed() {
					v.doClear()
				}
			}
		}
		if v.rising {
			w[oInsNew], w[oDelLive] = 100, 12
		} else {
			w[oInsNew], w[oDelLive] = 12, 100
		}
	}
	// iteration costs O(len): keep the total work per history bounded
	w[oRange] = (w[oRange]*64 + 63 + n) / (64 + n)
	w[oDump] = (w[oDump]*32 + 31 + n) / (32 + n)
	tot := 0
	for _, x := range w {
		tot += x
	}
	pick := v.r.n(tot)
	o := 0
	for ; o < nOps-1; o++ {
		if pick < w[o] {
			break
		}
		pick -= w[o]
	}
	v.st.ops[o]++
	full := sp.prof.cap && n >= sp.hi
	switch o {
	case oInsNew:
		if sp.prof.nan && sp.flags&16 == 0 && len(v.nanIdx) > 0 && len(v.sh.nans) < sp.hi/3 && v.r.n(6) == 0 {
			v.assign(v.nanIdx[v.r.n(len(v.nanIdx))], v.r.n(1000000))
		} else if full {
			v.assign(v.liveKey(), v.r.n(1000000))
		} else {
			v.assign(v.newKey(), v.r.n(1000000))
		}
	case oAssign:
		if full {
			v.assign(v.liveKey(), v.r.n(1000000))
		} else {
			v.assign(v.randKey(), v.r.n(1000000))
		}
	case oUpdLive:
		v.assign(v.liveKey(), v.r.n(1000000))
	case oDelLive:
		v.del(v.liveKey())
	case oDelRand:
		v.del(v.randKey())
	case oLook:
		if v.r.n(2) == 0 {
			v.lookup1(v.liveKey())
		} else {
			v.lookup1(v.randKey())
		}
	case oLook2:
		if v.r.n(2) == 0 {
			v.lookup2(v.liveKey())
		} else {
			v.lookup2(v.randKey())
		}
	case oLen:
		v.checkLen()
	case oClear:
		if v.clearAllowed() {
			v.doClear()
		} else {
			v.checkLen()
		}
	case oRemake:
		hint := -1
		if v.r.n(2) == 0 {
			hint = v.r.n(2*sp.pool + 2)
			if v.r.n(3) == 0 {
				hint = v.r.n(10)
			}
		}
		v.remake(hint)
	case oRange:
		v.doRange()
	case oDump:
		v.dump()
	case oNil:
		v.nilOps(v.randKey())
	case oUnhash:
		if !v.unhashOps(v.r.n(1 << 20)) {
			v.lookup2(v.randKey())
		}
	}
	v.sample()
}

// probe: the fixed reproducer of finding C06-memclr-stub (DESIGN 7-19): fill, clear,
// insert 20, range.  Fills just below a growth threshold (96, 192, 384 = 6*2^B) make it
// near certain that a bucket has taken the last preallocated overflow bucket before the clear.
func (v *vmT) probe() {
	for _, fill := range []int{53, 96, 192, 384, 210} {
		v.remake(-1)
		for i := 0; i < fill; i++ {
			v.op++
			v.assign(i, i)
		}
		v.op++
		v.doClear()
		v.checkLen()
		for i := 0; i < 20; i++ {
			v.op++
			v.assign(1000+i, i)
		}
		v.op++
		v.dump()
		for i := 0; i < fill; i++ {
			v.op++
			v.assign(2000+i, i)
		}
		v.op++
		v.dump()
		for i := 0; i < 20; i++ {
			v.op++
			v.del(1000 + i)
		}
		v.op++
		v.dump()
		v.checkLen()
		println("C", v.op, v.h, v.d.Len())
	}
}

func run(d driver, sp *spec) int {
	v := &vmT{d: d, sp: sp, distinct: d.Distinct()}
	v.r.s = smix(sp.seed) | 1
	v.h = 1469598103934665603
	v.rising = true
	v.trace = traceOn
	if sp.pool > d.KeyMax() {
		sp.pool = d.KeyMax()
	}
	for i := 0; i < sp.pool && i < 256; i++ {
		if d.NaN(i) {
			v.nanIdx = append(v.nanIdx, i)
		}
	}
	v.remake(-1)
	v.st.remakes = 0
	println("BEGIN", sp.text)
	if sp.flags&4 != 0 {
		v.probe()
	} else {
		for v.op = 0; v.op < sp.ops; v.op++ {
			v.step()
			if v.bad > 10 {
				break
			}
			if (v.op+1)%500 == 0 {
				println("C", v.op+1, v.h, v.d.Len())
			}
		}
		v.checkLen()
		v.dump()
	}
	println("END", sp.text, "hash", v.h, "len", v.d.Len(), "bad", v.bad)
	s := &v.st
	print("STAT ", sp.text, " impl=", peekImpl, " maxB=", s.maxB, " grows=", s.grows, " samesize=", s.sameSize, " loops=", s.loops,
		" loopsInGrow=", s.loopsInGrow, " loopsGrew=", s.loopsGrew, " maxNover=", s.maxNover, " maxLen=", s.maxLen,
		" clears=", s.clears, " clearsGrown=", s.clearsGrown, " remakes=", s.remakes, " panics=", s.panics, " yields=", s.yields,
		" forced=", s.forced, " flav=")
	for i, c := range s.flav {
		if i > 0 {
			print(",")
		}
		print(c)
	}
	print(" ops=")
	for i, c := range s.ops {
		if i > 0 {
			print(",")
		}
		print(c)
	}
	print("\n")
	return v.bad
}

package main

import "os"

// ---------------------------------------------------------------------------
// Generic map VM.  One history = one spec; all decisions at top level come from
// a sequential PRNG, all decisions inside range loops are functions of
// (seed, loop id, key index) so that the iteration order of the map cannot leak
// into the rest of the history.  The monitor (shadow map, loop records) uses
// slices only - it never relies on a map itself.
// ---------------------------------------------------------------------------

type rng struct{ s uint64 }

func (r *rng) next() uint64 {
	x := r.s
	x ^= x << 13
	x ^= x >> 7
	x ^= x << 17
	r.s = x
	return x * 0x2545F4914F6CDD1D
}

func (r *rng) n(k int) int {
	if k <= 1 {
		return 0
	}
	return int((r.next() >> 11) % uint64(k))
}

func smix(z uint64) uint64 {
	z += 0x9e3779b97f4a7c15
	z = (z ^ (z >> 30)) * 0xbf58476d1ce4e5b9
	z = (z ^ (z >> 27)) * 0x94d049bb133111eb
	return z ^ (z >> 31)
}

func mix3(a, b, c uint64) uint64 { return smix(smix(smix(a)^b) ^ c) }

// ---- shadow map: slice sorted by canonical key index + list of NaN entries

type ent struct{ ki, x, id int }

type shadow struct {
	e      []ent
	nans   []ent
	nextID int
}

func (s *shadow) find(ki int) (int, bool) {
	lo, hi := 0, len(s.e)
	for lo < hi {
		m := (lo + hi) >> 1
		if s.e[m].ki < ki {
			lo = m + 1
		} else {
			hi = m
		}
	}
	return lo, lo < len(s.e) && s.e[lo].ki == ki
}

// set returns true when a new entry was created
func (s *shadow) set(ki, x int) bool {
	p, ok := s.find(ki)
	if ok {
		s.e[p].x = x
		return false
	}
	s.e = append(s.e, ent{})
	copy(s.e[p+1:], s.e[p:])
	s.e[p] = ent{ki, x, s.nextID}
	s.nextID++
	return true
}

func (s *shadow) del(ki int) bool {
	p, ok := s.find(ki)
	if !ok {
		return false
	}
	copy(s.e[p:], s.e[p+1:])
	s.e = s.e[:len(s.e)-1]
	return true
}

func (s *shadow) addNaN(ki, x int) {
	s.nans = append(s.nans, ent{ki, x, s.nextID})
	s.nextID++
}

func (s *shadow) clear() {
	s.e = s.e[:0]
	s.nans = s.nans[:0]
}

func (s *shadow) n() int { return len(s.e) + len(s.nans) }

// ---- loop records

type loopRec struct {
	id        uint64
	startLen  int
	inserts   int
	yields    int
	startNext int
	seen      []bool
	cleared   bool
}

func (l *loopRec) mark(id int) bool {
	for len(l.seen) <= id {
		l.seen = append(l.seen, false)
	}
	if l.seen[id] {
		return true
	}
	l.seen[id] = true
	return false
}

// loop flavours
const (
	fCollect = iota
	fBreak
	fDelCur
	fDelAll
	fDelOther
	fInsert
	fMixed
	fNested
	fClear
	nFlavours
)

// roles
const (
	rPassive = iota
	rDelSelf
	rDelOther
	rInsert
	rBounce
	rUpdate
	rNester
	rVictim
	rNewcomer
	rBouncee
	rUpdatee
)

var roleTab = [nFlavours][16]uint8{
	fDelCur:   {rDelSelf, rDelSelf, rDelSelf, rDelSelf, rDelSelf, rDelSelf},
	fDelAll:   {rDelSelf, rDelSelf, rDelSelf, rDelSelf, rDelSelf, rDelSelf, rDelSelf, rDelSelf, rDelSelf, rDelSelf, rDelSelf, rDelSelf, rDelSelf, rDelSelf, rDelSelf, rDelSelf},
	fDelOther: {rDelOther, rDelOther, rDelOther, rDelOther, rVictim, rVictim, rVictim, rVictim, rVictim, rVictim},
	fInsert:   {rInsert, rInsert, rInsert, rInsert, rInsert, rInsert, rNewcomer, rNewcomer, rNewcomer, rNewcomer, rNewcomer, rNewcomer, rNewcomer, rNewcomer},
	fMixed:    {rDelSelf, rDelSelf, rDelOther, rInsert, rInsert, rInsert, rBounce, rUpdate, rNester, rVictim, rNewcomer, rNewcomer, rNewcomer, rBouncee, rUpdatee},
	fNested:   {rNester, rNester, rNester},
}

var flavourNames = [nFlavours]string{"collect", "break", "delcur", "delall", "delother", "insert", "mixed", "nested", "clear"}

// ---- profiles: weights of top-level operations

const (
	oInsNew = iota
	oAssign
	oUpdLive
	oDelLive
	oDelRand
	oLook
	oLook2
	oLen
	oClear
	oRemake
	oRange
	oDump
	oNil
	oUnhash
	nOps
)

var opNames = [nOps]string{"insnew", "assign", "updlive", "dellive", "delrand", "look", "look2", "len", "clear", "remake", "range", "dump", "nil", "unhash"}

type profile struct {
	name string
	w    [nOps]int
	osc  bool
}

var profiles = []profile{
	{"mixed", [nOps]int{oInsNew: 12, oAssign: 14, oUpdLive: 8, oDelLive: 10, oDelRand: 6, oLook: 12, oLook2: 12, oLen: 4, oClear: 1, oRemake: 1, oRange: 10, oDump: 2, oNil: 2, oUnhash: 3}, false},
	{"osc", [nOps]int{oInsNew: 0, oAssign: 4, oUpdLive: 4, oDelLive: 0, oDelRand: 2, oLook: 5, oLook2: 5, oLen: 1, oClear: 0, oRemake: 0, oRange: 3, oDump: 1, oNil: 0, oUnhash: 1}, true},
	{"iter", [nOps]int{oInsNew: 14, oAssign: 6, oUpdLive: 3, oDelLive: 8, oDelRand: 2, oLook: 3, oLook2: 3, oLen: 2, oClear: 1, oRemake: 1, oRange: 40, oDump: 3, oNil: 1, oUnhash: 1}, false},
	{"fill", [nOps]int{oInsNew: 40, oAssign: 6, oUpdLive: 4, oDelLive: 6, oDelRand: 2, oLook: 6, oLook2: 6, oLen: 2, oClear: 0, oRemake: 0, oRange: 3, oDump: 1, oNil: 0, oUnhash: 1}, false},
	{"clear", [nOps]int{oInsNew: 30, oAssign: 6, oUpdLive: 2, oDelLive: 6, oDelRand: 2, oLook: 5, oLook2: 5, oLen: 2, oClear: 3, oRemake: 1, oRange: 12, oDump: 2, oNil: 0, oUnhash: 1}, false},
}

type spec struct {
	text         string
	kname, vname string
	prof         *profile
	pool         int
	lo, hi       int
	ops          int
	seed         uint64
	flags        int // 1: avoid clear on grown maps (open finding); 2: scattered int keys; 4: fixed probe script
}

const avoidLen = 52 // clear is avoided on map objects that ever held more entries (or were made with a larger hint)

type stats struct {
	maxB, grows, sameSize, loopsInGrow, loopsGrew, maxNover, loops, maxLen, clears, clearsGrown, remakes, panics int
	yields                                                                                                   int
	flav                                                                                                     [nFlavours]int
	ops                                                                                                      [nOps]int
}

type vmT[K comparable, V comparable] struct {
	ko      *keyOps[K]
	vo      *valOps[V]
	sp      *spec
	m       map[K]V
	nm      map[K]V
	sh      shadow
	r       rng
	h       uint64
	op      int
	bad     int
	active  []*loopRec
	loopSeq uint64
	objMax  int // max(len ever, hint) of the current map object
	rising  bool
	st      stats
	lastB   int
	lastSS  bool
	trace   bool
	zero    V
}

func (v *vmT[K, V]) mix(x int) { v.h = (v.h ^ uint64(x)) * 1099511628211 }

func (v *vmT[K, V]) fail(msg string, a, b int) {
	v.bad++
	if v.bad <= 10 {
		println("MONITOR:", msg, "op", v.op, "a", a, "b", b)
	}
}

func (v *vmT[K, V]) norm(x int) int {
	if v.vo.distinct {
		return x
	}
	return 0
}

func (v *vmT[K, V]) noteInsert() {
	for _, l := range v.active {
		l.inserts++
	}
	if n := v.sh.n(); n > v.objMax {
		v.objMax = n
	}
	if n := v.sh.n(); n > v.st.maxLen {
		v.st.maxLen = n
	}
}

// ---- primitive operations (update the shadow, check the result)

func (v *vmT[K, V]) assign(i, x int) {
	k := v.ko.mk(i)
	v.m[k] = v.vo.val(x)
	if v.ko.nan(i) {
		v.sh.addNaN(i, x)
		v.noteInsert()
	} else if v.sh.set(v.ko.canon(i), x) {
		v.noteInsert()
	}
	if v.trace {
		println("T", v.op, "assign", i, x, "len", len(v.m))
	}
}

func (v *vmT[K, V]) del(i int) {
	delete(v.m, v.ko.mk(i))
	if !v.ko.nan(i) {
		v.sh.del(v.ko.canon(i))
	}
	if v.trace {
		println("T", v.op, "delete", i, "len", len(v.m))
	}
}

func (v *vmT[K, V]) expect(i int) (int, bool) {
	if v.ko.nan(i) {
		return 0, false
	}
	p, ok := v.sh.find(v.ko.canon(i))
	if !ok {
		return 0, false
	}
	return v.sh.e[p].x, true
}

func (v *vmT[K, V]) checkVal(what string, i int, got V, gotOK bool, commaOK bool) {
	x, live := v.expect(i)
	if commaOK && gotOK != live {
		v.fail(what+": ok flag wrong (a=key index, b=1 if shadow has the key)", i, b2i(live))
	}
	if live {
		if got != v.vo.val(x) {
			v.fail(what+": value differs from the most recently stored one (a=key index, b=expected x)", i, x)
		}
	} else if got != v.zero {
		v.fail(what+": absent key does not yield the zero value (a=key index)", i, v.vo.unval(got))
	}
	v.mix(i)
	v.mix(v.vo.unval(got))
	if v.trace {
		println("T", v.op, what, i, v.vo.unval(got), gotOK)
	}
}

func b2i(b bool) int {
	if b {
		return 1
	}
	return 0
}

func (v *vmT[K, V]) lookup1(i int) {
	got := v.m[v.ko.mk(i)]
	v.checkVal("lookup", i, got, false, false)
}

func (v *vmT[K, V]) lookup2(i int) {
	got, ok := v.m[v.ko.mk(i)]
	v.checkVal("lookup2", i, got, ok, true)
	v.mix(b2i(ok))
}

func (v *vmT[K, V]) checkLen() {
	if len(v.m) != v.sh.n() {
		v.fail("len(m) differs from the number of live entries (a=len, b=shadow)", len(v.m), v.sh.n())
	}
	v.mix(len(v.m))
	if v.trace {
		println("T", v.op, "len", len(v.m))
	}
}

func (v *vmT[K, V]) doClear() {
	if v.objMax > avoidLen {
		v.st.clearsGrown++
	}
	v.st.clears++
	clear(v.m)
	v.sh.clear()
	for _, l := range v.active {
		l.cleared = true
	}
	if v.trace {
		println("T", v.op, "clear", "len", len(v.m))
	}
}

func (v *vmT[K, V]) clearAllowed() bool {
	return v.sp.flags&1 == 0 || v.objMax <= avoidLen
}

func (v *vmT[K, V]) remake(hint int) {
	v.st.remakes++
	if hint < 0 {
		v.m = map[K]V{}
		hint = 0
	} else {
		v.m = make(map[K]V, hint)
	}
	v.objMax = hint
	v.sh.clear()
	v.lastB = 0
	v.lastSS = false
	if v.trace {
		println("T", v.op, "remake", hint)
	}
}

// ---- panics

func classify(r interface{}) string {
	var msg string
	switch e := r.(type) {
	case error:
		msg = e.Error()
	case string:
		msg = e
	default:
		return "other-type"
	}
	if contains(msg, "unhashable") {
		return "unhashable"
	}
	if contains(msg, "nil map") {
		return "nilmap"
	}
	return "other:" + msg
}

func contains(s, sub string) bool {
	for i := 0; i+len(sub) <= len(s); i++ {
		if s[i:i+len(sub)] == sub {
			return true
		}
	}
	return false
}

func try(f func()) (cls string) {
	defer func() {
		if r := recover(); r != nil {
			cls = classify(r)
		}
	}()
	f()
	return "none"
}

func (v *vmT[K, V]) expectPanic(what, want string, f func()) {
	got := try(f)
	v.st.panics++
	// spec-determined: compared with the reference run as well
	println("P", v.op, what, got)
	if got != want {
		v.fail("operation "+what+" must panic with class "+want, 0, 0)
	}
}

func (v *vmT[K, V]) nilOps(i int) {
	k := v.ko.mk(i)
	got := v.nm[k]
	g2, ok := v.nm[k]
	if got != v.zero || g2 != v.zero || ok || len(v.nm) != 0 {
		v.fail("nil map read is not zero/false/0", i, len(v.nm))
	}
	n := 0
	for range v.nm {
		n++
	}
	if n != 0 {
		v.fail("range over nil map iterates", n, 0)
	}
	delete(v.nm, k)
	clear(v.nm)
	v.expectPanic("nilmap-write", "nilmap", func() { v.nm[k] = v.vo.val(i) })
	if v.nm != nil || len(v.nm) != 0 {
		v.fail("nil map changed by a failed write", 0, 0)
	}
}

func (v *vmT[K, V]) unhashOps(j int) bool {
	u := unhashable(j)
	k, ok := u.(K)
	if !ok {
		return false
	}
	x := j & 1023
	switch j / 6 % 5 {
	case 0:
		v.expectPanic("unhashable-assign", "unhashable", func() { v.m[k] = v.vo.val(x) })
	case 1:
		v.expectPanic("unhashable-lookup", "unhashable", func() { _ = v.m[k] })
	case 2:
		v.expectPanic("unhashable-lookup2", "unhashable", func() { _, _ = v.m[k] })
	case 3:
		v.expectPanic("unhashable-delete", "unhashable", func() { delete(v.m, k) })
	default:
		v.expectPanic("unhashable-nilmap-read", "unhashable", func() { _ = v.nm[k] })
	}
	v.checkLen() // the failed operation must leave the map usable and unchanged
	return true
}

// ---- range loops

func (v *vmT[K, V]) runaway(l *loopRec) {
	v.fail("range loop yields more entries than len at start + entries created during the loop (a=yields, b=bound): runaway iteration", l.yields, l.startLen+l.inserts)
	println("END", v.sp.text, "runaway")
	os.Exit(3)
}

// onYield checks one (key, value) pair produced by a range loop against the shadow
// and the per-loop record.  Returns the canonical key index (-1: do nothing).
func (v *vmT[K, V]) onYield(l *loopRec, k K, val V) int {
	l.yields++
	v.st.yields++
	if l.yields > l.startLen+l.inserts {
		v.runaway(l)
	}
	ki := v.ko.idx(k)
	if ki == -2 || k != k {
		// NaN-like key: every such entry is its own entry, identified by its value
		if val != v.vo.val(v.vo.unval(val)) {
			v.fail("range yields a corrupted value for a NaN key", v.vo.unval(val), 0)
			return -1
		}
		x := v.vo.unval(val)
		found := -1
		for j := range v.sh.nans {
			e := &v.sh.nans[j]
			if v.norm(e.x) == x && !(len(l.seen) > e.id && l.seen[e.id]) {
				found = j
				break
			}
		}
		if found < 0 {
			v.fail("range yields a NaN-keyed entry that is not live or was already produced (a=value x)", x, len(v.sh.nans))
			return -1
		}
		l.mark(v.sh.nans[found].id)
		return -1
	}
	if ki < 0 {
		v.fail("range yields a key that was never inserted", l.yields, v.vo.unval(val))
		return -1
	}
	p, ok := v.sh.find(ki)
	if !ok {
		v.fail("range yields a key that is not in the map (deleted or never inserted) (a=key index)", ki, v.vo.unval(val))
		return -1
	}
	e := v.sh.e[p]
	if val != v.vo.val(e.x) {
		v.fail("range yields a stale or corrupted value (a=key index, b=expected x)", ki, e.x)
	}
	if l.mark(e.id) {
		v.fail("range yields the same entry twice (a=key index, b=entry id)", ki, e.id)
	}
	return ki
}

func (v *vmT[K, V]) loopEnd(l *loopRec, complete bool) {
	if !complete || l.cleared {
		return
	}
	// every entry that existed when the loop started and still exists (same
	// entry id => never deleted in between) must have been produced
	for _, e := range v.sh.e {
		if e.id < l.startNext && !(len(l.seen) > e.id && l.seen[e.id]) {
			v.fail("range missed an entry that was present during the whole loop (a=key index, b=entry id)", e.ki, e.id)
		}
	}
	for _, e := range v.sh.nans {
		if e.id < l.startNext && !(len(l.seen) > e.id && l.seen[e.id]) {
			v.fail("range missed a NaN-keyed entry present during the whole loop (a=value x)", e.x, e.id)
		}
	}
}

func (v *vmT[K, V]) roleOf(fl int, lid uint64, ki int) int {
	return int(roleTab[fl][mix3(v.sp.seed, lid, uint64(ki))&15])
}

// target picks a non-NaN canonical pool index with the wanted role; a pure
// function of (loop id, trigger key).
func (v *vmT[K, V]) target(fl int, lid uint64, ki int, want int) int {
	h := mix3(v.sp.seed^0xabcdef, lid, uint64(ki))
	t := int(h % uint64(v.sp.pool))
	for n := 0; n < 48; n++ {
		if v.ko.canon(t) == t && !v.ko.nan(t) && v.roleOf(fl, lid, t) == want {
			return t
		}
		t++
		if t >= v.sp.pool {
			t = 0
		}
	}
	return -1
}

func (v *vmT[K, V]) valueFor(lid uint64, t int) int {
	return int(mix3(v.sp.seed^0x777, lid, uint64(t)) % 100000)
}

func (v *vmT[K, V]) rangeLoop(fl int, lid uint64, depth int) {
	l := &loopRec{id: lid, startLen: v.sh.n(), startNext: v.sh.nextID}
	v.active = append(v.active, l)
	v.st.loops++
	v.st.flav[fl]++
	b0, _, _, g0 := peekMap(mapPtr(&v.m))
	if g0 {
		v.st.loopsInGrow++
	}
	if v.trace {
		println("T", v.op, "range", flavourNames[fl], "depth", depth, "len", len(v.m))
	}
	complete := true
	brk := 1 + int(mix3(v.sp.seed, lid, 99)%uint64(l.startLen+1))
	didClear := false
	for k, val := range v.m {
		ki := v.onYield(l, k, val)
		if v.bad > 10 {
			complete = false
			break
		}
		if fl == fBreak && l.yields >= brk {
			complete = false
			break
		}
		if fl == fClear {
			if !didClear {
				didClear = true
				v.doClear()
				// refill with a set that depends on the loop id only
				n := int(mix3(v.sp.seed, lid, 7) % 12)
				for j := 0; j < n; j++ {
					t := int(mix3(v.sp.seed, lid, uint64(100+j)) % uint64(v.sp.pool))
					if !v.ko.nan(t) {
						v.assign(t, v.valueFor(lid, t))
					}
				}
			}
			continue
		}
		if ki < 0 || fl == fCollect || fl == fBreak {
			continue
		}
		switch v.roleOf(fl, lid, ki) {
		case rDelSelf:
			v.del(ki)
		case rDelOther:
			if t := v.target(fl, lid, ki, rVictim); t >= 0 {
				v.del(t)
			}
		case rInsert:
			if t := v.target(fl, lid, ki, rNewcomer); t >= 0 {
				v.assign(t, v.valueFor(lid, t))
			}
		case rBounce:
			if t := v.target(fl, lid, ki, rBouncee); t >= 0 {
				v.del(t)
				v.assign(t, v.valueFor(lid, t))
			}
		case rUpdate:
			if t := v.target(fl, lid, ki, rUpdatee); t >= 0 {
				v.assign(t, v.valueFor(lid, t))
			}
		case rNester:
			if depth == 0 && mix3(v.sp.seed, lid, uint64(ki)+0x5151)%uint64(1+l.startLen/12) == 0 {
				v.rangeLoop(fCollect, mix3(lid, uint64(ki), 1), 1)
			}
		}
	}
	v.loopEnd(l, complete)
	v.active = v.active[:len(v.active)-1]
	b1, _, _, g1 := peekMap(mapPtr(&v.m))
	if b1 != b0 || (g1 && !g0) {
		v.st.loopsGrew++
	}
}

// dump: collect by range, sort by key index, compare with the shadow entry by entry
func (v *vmT[K, V]) dump() {
	l := &loopRec{id: 0, startLen: v.sh.n(), startNext: v.sh.nextID}
	v.active = append(v.active, l)
	got := make([]ent, 0, l.startLen)
	nanSum := 0
	nanCnt := 0
	for k, val := range v.m {
		ki := v.onYield(l, k, val)
		if v.bad > 10 {
			break
		}
		if ki >= 0 {
			got = append(got, ent{ki, v.vo.unval(val), 0})
		} else if k != k {
			nanSum += v.vo.unval(val)
			nanCnt++
		}
	}
	v.loopEnd(l, v.bad <= 10)
	v.active = v.active[:len(v.active)-1]
	sortEnts(got)
	if len(got) != len(v.sh.e) || nanCnt != len(v.sh.nans) {
		v.fail("sorted dump has a different number of entries than the shadow (a=dump, b=shadow)", len(got)+nanCnt, v.sh.n())
	}
	for j := range got {
		if j < len(v.sh.e) && (got[j].ki != v.sh.e[j].ki || got[j].x != v.norm(v.sh.e[j].x)) {
			v.fail("sorted dump differs from the shadow (a=position, b=key index in shadow)", j, v.sh.e[j].ki)
			break
		}
		v.mix(got[j].ki)
		v.mix(got[j].x)
	}
	v.mix(nanSum)
	v.mix(nanCnt)
	if v.trace {
		println("T", v.op, "dump", len(got), nanCnt)
	}
}

func sortEnts(a []ent) {
	// shell sort on ki (keys are distinct unless the map is broken)
	for gap := len(a) / 2; gap > 0; gap /= 2 {
		for i := gap; i < len(a); i++ {
			t := a[i]
			j := i
			for j >= gap && a[j-gap].ki > t.ki {
				a[j] = a[j-gap]
				j -= gap
			}
			a[j] = t
		}
	}
}

// ---- key choice helpers (top level only: sequential PRNG allowed)

func (v *vmT[K, V]) randKey() int { return v.r.n(v.sp.pool) }

func (v *vmT[K, V]) liveKey() int {
	if len(v.sh.e) == 0 {
		return v.randKey()
	}
	return v.sh.e[v.r.n(len(v.sh.e))].ki
}

func (v *vmT[K, V]) newKey() int {
	i := v.randKey()
	for n := 0; n < 8; n++ {
		if _, live := v.expect(i); !live {
			return i
		}
		i = v.randKey()
	}
	return i
}

func (v *vmT[K, V]) sample() {
	b, fl, nov, growing := peekMap(mapPtr(&v.m))
	if b > v.st.maxB {
		v.st.maxB = b
	}
	if b > v.lastB {
		v.st.grows++
	}
	v.lastB = b
	ss := growing && fl&8 != 0
	if ss && !v.lastSS {
		v.st.sameSize++
	}
	v.lastSS = ss
	if nov > v.st.maxNover {
		v.st.maxNover = nov
	}
}

func (v *vmT[K, V]) step() {
	sp := v.sp
	var w [nOps]int
	w = sp.prof.w
	n := v.sh.n()
	if sp.prof.osc {
		if v.rising && n >= sp.hi {
			v.rising = false
			v.mix(7)
		} else if !v.rising && n <= sp.lo {
			v.rising = true
			// sometimes start over with a fresh map so that every lower growth threshold is crossed again
			if v.r.n(4) == 0 {
				hint := -1
				if v.r.n(3) == 0 {
					hint = v.r.n(sp.hi + sp.hi/2 + 2)
				}
				v.remake(hint)
			} else if v.r.n(6) == 0 && v.clearAllowed() {
				v.doClear()
			}
		}
		if v.rising {
			w[oInsNew], w[oDelLive] = 24, 3
		} else {
			w[oInsNew], w[oDelLive] = 3, 24
		}
	}
	// iteration costs O(len): keep the total work per history bounded
	w[oRange] = (w[oRange]*64 + 63 + n) / (64 + n)
	w[oDump] = (w[oDump]*32 + 31 + n) / (32 + n)
	if w[oRange] == 0 && sp.prof.w[oRange] > 0 && v.r.n(1+n/16) == 0 {
		w[oRange] = 1
	}
	tot := 0
	for _, x := range w {
		tot += x
	}
	pick := v.r.n(tot)
	o := 0
	for ; o < nOps; o++ {
		if pick < w[o] {
			break
		}
		pick -= w[o]
	}
	v.st.ops[o]++
	switch o {
	case oInsNew:
		v.assign(v.newKey(), v.r.n(1000000))
	case oAssign:
		v.assign(v.randKey(), v.r.n(1000000))
	case oUpdLive:
		v.assign(v.liveKey(), v.r.n(1000000))
	case oDelLive:
		v.del(v.liveKey())
	case oDelRand:
		v.del(v.randKey())
	case oLook:
		if v.r.n(2) == 0 {
			v.lookup1(v.liveKey())
		} else {
			v.lookup1(v.randKey())
		}
	case oLook2:
		if v.r.n(2) == 0 {
			v.lookup2(v.liveKey())
		} else {
			v.lookup2(v.randKey())
		}
	case oLen:
		v.checkLen()
	case oClear:
		if v.clearAllowed() {
			v.doClear()
		} else {
			v.checkLen()
		}
	case oRemake:
		hint := -1
		if v.r.n(2) == 0 {
			hint = v.r.n(2*sp.pool + 2)
			if v.r.n(3) == 0 {
				hint = v.r.n(10)
			}
		}
		v.remake(hint)
	case oRange:
		fl := v.r.n(nFlavours)
		if fl == fClear && !v.clearAllowed() {
			fl = fCollect
		}
		v.loopSeq++
		v.rangeLoop(fl, v.loopSeq, 0)
		v.checkLen()
	case oDump:
		v.dump()
	case oNil:
		v.nilOps(v.randKey())
	case oUnhash:
		if !v.unhashOps(v.r.n(1 << 20)) {
			v.lookup2(v.randKey())
		}
	}
	v.sample()
}

// probe: the fixed reproducer of finding C06-memclr-stub (DESIGN 7-19)
func (v *vmT[K, V]) probe() {
	for _, fill := range []int{53, 120, 210} {
		v.remake(-1)
		for i := 0; i < fill; i++ {
			v.op++
			v.assign(i, i)
		}
		v.op++
		v.doClear()
		v.checkLen()
		for i := 0; i < 20; i++ {
			v.op++
			v.assign(1000+i, i)
		}
		v.op++
		v.dump()
		for i := 0; i < fill; i++ {
			v.op++
			v.assign(2000+i, i)
		}
		v.op++
		v.dump()
		for i := 0; i < 20; i++ {
			v.op++
			v.del(1000 + i)
		}
		v.op++
		v.dump()
		v.checkLen()
		println("C", v.op, v.h, len(v.m))
	}
}

func run[K comparable, V comparable](ko *keyOps[K], vo *valOps[V], sp *spec) int {
	v := &vmT[K, V]{ko: ko, vo: vo, sp: sp}
	v.r.s = smix(sp.seed) | 1
	v.h = 1469598103934665603
	v.rising = true
	v.trace = traceOn
	if sp.pool > ko.max {
		sp.pool = ko.max
	}
	v.remake(-1)
	v.st.remakes = 0
	println("BEGIN", sp.text)
	if sp.flags&4 != 0 {
		v.probe()
	} else {
		for v.op = 0; v.op < sp.ops; v.op++ {
			v.step()
			if v.bad > 10 {
				break
			}
			if (v.op+1)%500 == 0 {
				println("C", v.op+1, v.h, len(v.m))
			}
		}
		v.checkLen()
		v.dump()
	}
	println("END", sp.text, "hash", v.h, "len", len(v.m), "bad", v.bad)
	s := &v.st
	print("STAT ", sp.text, " impl=", peekImpl, " maxB=", s.maxB, " grows=", s.grows, " samesize=", s.sameSize, " loops=", s.loops,
		" loopsInGrow=", s.loopsInGrow, " loopsGrew=", s.loopsGrew, " maxNover=", s.maxNover, " maxLen=", s.maxLen,
		" clears=", s.clears, " clearsGrown=", s.clearsGrown, " remakes=", s.remakes, " panics=", s.panics, " yields=", s.yields, " flav=")
	for i, c := range s.flav {
		if i > 0 {
			print(",")
		}
		print(c)
	}
	print(" ops=")
	for i, c := range s.ops {
		if i > 0 {
			print(",")
		}
		print(c)
	}
	print("\n")
	return v.bad
}

//go:build llgo

package main

import "unsafe"

// Coverage instrumentation only (never part of the oracle): reads B, flags,
// noverflow and oldbuckets of llgo's hmap (runtime/internal/runtime/map.go) so
// that the evidence can say how many growths, same-size grows and iterations
// during growth the histories actually reached.
const peekImpl = "llgo-hmap"

type hmapHead struct {
	count      int
	flags      uint8
	B          uint8
	noverflow  uint16
	hash0      uint32
	buckets    unsafe.Pointer
	oldbuckets unsafe.Pointer
}

func peekMap(p unsafe.Pointer) (b, flags, noverflow int, growing bool) {
	if p == nil {
		return
	}
	h := (*hmapHead)(p)
	return int(h.B), int(h.flags), int(h.noverflow), h.oldbuckets != nil
}

module c06mapvm

go 1.24

// C08 fixed probes (leg c): one compiled program, one probe per invocation (os.Args[1]), because some
// probes corrupt memory or crash.  Each probe prints "PROBE <name> ok" or "PROBE <name> bad <detail>".
package main

import (
	"os"
	"reflect"
	"unsafe"
)

func verdict(name string, ok bool) {
	if ok {
		println("PROBE", name, "ok")
	} else {
		println("PROBE", name, "bad")
	}
}

// ---- trailing zero-size field: unsafe.Sizeof / descriptor Size_ vs the stride generated code uses
type TZ struct {
	a int64
	b [5]int64
	z struct{}
}

func probeTrailing() {
	var v TZ
	var a [2]TZ
	s := make([]TZ, 3)
	s[0].a, s[1].a, s[2].a = 100, 101, 102
	stride := uintptr(unsafe.Pointer(&a[1])) - uintptr(unsafe.Pointer(&a[0]))
	sstride := uintptr(unsafe.Pointer(&s[1])) - uintptr(unsafe.Pointer(&s[0]))
	rsize := reflect.TypeOf(v).Size()
	println("sizeof", unsafe.Sizeof(v), "array stride", stride, "slice stride", sstride, "reflect size", rsize,
		"sizeof [2]T", unsafe.Sizeof(a), "offsetof z", unsafe.Offsetof(v.z), "&v.z-&v", uintptr(unsafe.Pointer(&v.z))-uintptr(unsafe.Pointer(&v)))
	got := reflect.ValueOf(s).Index(1).Field(0).Int()
	println("reflect.ValueOf(s).Index(1).a =", got, "(s[1].a = 101)")
	var w struct {
		pre  uint64
		v    TZ
		post uint64
	}
	w.pre, w.post = 0x1111, 0x2222
	reflect.ValueOf(&w.v).Elem().Set(reflect.ValueOf(TZ{a: 5}))
	println("canary after reflect.Set:", w.pre == 0x1111, w.post == 0x2222)
	verdict("trailing-zero-size", unsafe.Sizeof(v) == stride && stride == sstride && rsize == stride && got == 101 && w.post == 0x2222 && w.pre == 0x1111)
}

// ---- func descriptors: Size_ of the func type vs the two words a func value occupies
func probeFunc() {
	fs := []func() int{func() int { return 1 }, func() int { return 2 }, func() int { return 3 }}
	real := uintptr(unsafe.Pointer(&fs[1])) - uintptr(unsafe.Pointer(&fs[0]))
	rv := reflect.ValueOf(fs)
	rstride := rv.Index(1).Addr().Pointer() - uintptr(unsafe.Pointer(&fs[0]))
	esize := rv.Type().Elem().Size()
	var st struct {
		a int8
		f func() int
		b int8
	}
	fsize := reflect.TypeOf(&st).Elem().Field(1).Type.Size()
	println("sizeof(func)", unsafe.Sizeof(fs[0]), "slice stride", real, "reflect Index stride", rstride, "reflect elem Size", esize, "reflect field type Size", fsize)
	verdict("func-descriptor", real == unsafe.Sizeof(fs[0]) && rstride == real && esize == real && fsize == real)
}

// ---- maps whose key / elem is larger than 128 bytes (stored indirectly)
type BK [17]int64
type BV [40]int64

func probeMap() {
	m := map[BK]int{}
	for i := 0; i < 100; i++ {
		var k BK
		k[0], k[16] = int64(i), int64(i*3)
		m[k] = i
	}
	bad := 0
	for i := 0; i < 100; i++ {
		var k BK
		k[0], k[16] = int64(i), int64(i*3)
		if v, ok := m[k]; !ok || v != i {
			bad++
		}
	}
	m2 := map[int]BV{}
	for i := 0; i < 100; i++ {
		var v BV
		v[0], v[39] = int64(i), int64(i*7)
		m2[i] = v
	}
	for i := 0; i < 100; i++ {
		if v := m2[i]; v[0] != int64(i) || v[39] != int64(i*7) {
			bad++
		}
	}
	println("len", len(m), len(m2), "bad", bad)
	verdict("map-indirect", bad == 0 && len(m) == 100 && len(m2) == 100)
}

// ---- self-referential named struct with a func field whose descriptor is needed (make(map)) before any
// value of the type is lowered
type RN struct {
	r0 uint8
	r1 func(int) int
	r2 map[int32]RN
	r3 uint8
}

var rm = make(map[int64]RN)

func id(x int) int { return x + 1 }

func probeRecursive() {
	var n RN
	n.r0, n.r3, n.r1 = 7, 9, id
	rm[1] = n
	q := rm[1]
	var a [2]RN
	stride := uintptr(unsafe.Pointer(&a[1])) - uintptr(unsafe.Pointer(&a[0]))
	off := uintptr(unsafe.Pointer(&n.r2)) - uintptr(unsafe.Pointer(&n))
	println("sizeof", unsafe.Sizeof(n), "stride", stride, "offsetof r2", unsafe.Offsetof(n.r2), "measured", off, "reflect size", reflect.TypeOf(n).Size(), q.r0, q.r3)
	verdict("recursive-func", unsafe.Sizeof(n) == stride && unsafe.Offsetof(n.r2) == off && reflect.TypeOf(n).Size() == stride)
}

// ---- constants folded through a type alias lose the second word of func values
type AF = struct {
	a uint32
	f func()
	b bool
}

func probeAlias() {
	var v AF
	var a [2]AF
	var w struct {
		x AF
		y int8
	}
	stride := uintptr(unsafe.Pointer(&a[1])) - uintptr(unsafe.Pointer(&a[0]))
	off := uintptr(unsafe.Pointer(&w.y)) - uintptr(unsafe.Pointer(&w))
	println("sizeof", unsafe.Sizeof(v), "stride", stride, "reflect size", reflect.TypeOf(v).Size(), "sizeof [2]T", unsafe.Sizeof(a), "offsetof field after alias", unsafe.Offsetof(w.y), "measured", off)
	verdict("alias-func", unsafe.Sizeof(v) == stride && unsafe.Sizeof(a) == 2*stride && unsafe.Offsetof(w.y) == off)
}

func main() {
	which := ""
	if len(os.Args) > 1 {
		which = os.Args[1]
	}
	switch which {
	case "trailing":
		probeTrailing()
	case "func":
		probeFunc()
	case "map":
		probeMap()
	case "recursive":
		probeRecursive()
	case "alias":
		probeAlias()
	default:
		println("usage: probe trailing|func|map|recursive|alias")
	}
}

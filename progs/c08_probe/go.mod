module c08probe

go 1.24

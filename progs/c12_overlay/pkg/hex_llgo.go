// Synthetic llgo overlay of encoding/hex used by the C12 "additive overlay" leg: it replaces one function
// and leaves everything else - in particular the package-level variable ErrLength and the package's imports -
// to the standard package, as runtime/internal/lib/internal/runtime/sys does for its package.
package hex

var overlayReady = markReady()

func markReady() bool {
	println("@ overlay-hex var overlayReady")
	return true
}

// EncodedLen replaces the standard implementation.
func EncodedLen(n int) int { return n << 1 }

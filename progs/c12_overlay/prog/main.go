package main

import "encoding/hex"

var early = probe("main var initialiser")

func probe(tag string) bool {
	// ErrLength is a package-level variable of the STANDARD encoding/hex (var ErrLength = errors.New(...)):
	// it is initialised by the original package's initialiser, to which the overlay's initialiser has to chain -
	// exactly once, after the imports of the original (errors, ...) and before any importer runs.
	println("@", tag, "ErrLength-initialised", hex.ErrLength != nil)
	return true
}

func main() {
	probe("main.main")
	_, err := hex.DecodeString("abc") // odd length -> ErrLength
	println("@ main.main DecodeString-fails", err != nil, "is-ErrLength", err == hex.ErrLength)
	println("@ main.main EncodedLen(4)", hex.EncodedLen(4))
}

module c12overlay

go 1.24

package main

import "sync"

// len never exceeds cap and never goes negative while senders and receivers race
func main() {
	const C, N = 3, 2000
	ch := make(chan int, C)
	var wg sync.WaitGroup
	bad := 0
	var mu sync.Mutex
	stop := make(chan struct{})
	wg.Add(1)
	go func() {
		defer wg.Done()
		for {
			select {
			case <-stop:
				return
			default:
			}
			if n := len(ch); n < 0 || n > cap(ch) {
				mu.Lock()
				bad++
				mu.Unlock()
			}
		}
	}()
	var sg sync.WaitGroup
	sum := 0
	sg.Add(2)
	go func() {
		defer sg.Done()
		for i := 1; i <= N; i++ {
			ch <- i
		}
		close(ch)
	}()
	go func() {
		defer sg.Done()
		for v := range ch {
			sum += v
		}
	}()
	sg.Wait()
	close(stop)
	wg.Wait()
	println("cap", cap(ch), "len", len(ch), "sum", sum, "bad", bad)
}

package main

// strict alternation over two unbuffered channels, one sender and one receiver per channel
func main() {
	const N = 3000
	ping, pong := make(chan int), make(chan int)
	done := make(chan int)
	go func() {
		s := 0
		for i := 0; i < N; i++ {
			v := <-ping
			s += v
			pong <- v + 1
		}
		done <- s
	}()
	t := 0
	for i := 0; i < N; i++ {
		ping <- i
		t += <-pong
	}
	println("sums", <-done, t)
}

package main

// three-stage pipeline, order must be preserved end to end
const N = 1500

func stage(in <-chan int, out chan<- int, add int) {
	for v := range in {
		out <- v + add
	}
	close(out)
}

func run(c1, c2, c3 int) {
	a, b, c := make(chan int, c1), make(chan int, c2), make(chan int, c3)
	go stage(a, b, 1000000)
	go stage(b, c, 2000000)
	go func() {
		for i := 0; i < N; i++ {
			a <- i
		}
		close(a)
	}()
	next, bad, sum := 0, 0, 0
	for v := range c {
		if v != next+3000000 {
			bad++
		}
		next++
		sum += v
	}
	_, ok := <-c
	println("caps", c1, c2, c3, "n", next, "sum", sum, "bad", bad, "ok-after-close", ok)
}

func main() {
	run(0, 0, 0)
	run(1, 0, 2)
	run(3, 3, 3)
	run(0, 5, 0)
}

package main

import "sync"

// close wakes every blocked receiver; drained values first, then zero/ok=false forever
func run(capacity, waiters, preload int) {
	ch := make(chan int, capacity)
	for i := 0; i < preload; i++ {
		ch <- i + 1
	}
	var wg sync.WaitGroup
	var mu sync.Mutex
	got, closedSeen := 0, 0
	started := make(chan struct{}, waiters)
	for w := 0; w < waiters; w++ {
		wg.Add(1)
		go func() {
			defer wg.Done()
			started <- struct{}{}
			for {
				v, ok := <-ch
				mu.Lock()
				if ok {
					got += v
					mu.Unlock()
					continue
				}
				closedSeen++
				mu.Unlock()
				return
			}
		}()
	}
	for w := 0; w < waiters; w++ {
		<-started
	}
	close(ch)
	wg.Wait()
	v, ok := <-ch
	println("cap", capacity, "waiters", waiters, "got", got, "closedSeen", closedSeen, "after", v, ok)
}

func main() {
	run(0, 1, 0)
	run(0, 8, 0)
	run(4, 5, 4)
	run(2, 16, 1)
}

package main

// Lowering of channel operations (make/send/recv/comma-ok/select/len/cap/close/range) for many element
// types, with a deliberately dirty stack in front of every receive: the values a receive yields on a
// closed and drained channel, the ok flags, the case a select commits and the evaluation order of the
// operands are all determined by the language, so the output is schedule-independent.

type pair struct {
	a int
	s string
}

type big struct {
	pad [96]byte
	n   int64
}

type iface interface{ id() int }

type impl int

func (i impl) id() int { return int(i) * 3 }

var sink int

//go:noinline
func dirty(n int) int {
	var junk [256]uint64
	for i := range junk {
		junk[i] = 0xAAAAAAAAAAAAAAAA ^ uint64(n*i)
	}
	s := 0
	for i := range junk {
		s += int(junk[i] & 0xff)
	}
	sink += s
	return s
}

var seq int

func tick(tag string) int {
	seq++
	println("eval", tag, seq)
	return seq
}

func show[T comparable](tag string, v T, ok bool, zero T) {
	println(tag, "ok", ok, "iszero", v == zero)
}

// drain: two values, close, four comma-ok receives (2 real, 2 zero/false), plain receives, len/cap along the way
//
//go:noinline
func drain[T comparable](tag string, x, y T) {
	var zero T
	c := make(chan T, 2)
	println(tag, "len", len(c), "cap", cap(c))
	c <- x
	c <- y
	println(tag, "len", len(c), "cap", cap(c))
	close(c)
	for i := 0; i < 4; i++ {
		dirty(i + 1)
		v, ok := <-c
		show(tag, v, ok, zero)
		if i == 0 && v != x || i == 1 && v != y {
			println(tag, "WRONG VALUE at", i)
		}
	}
	dirty(9)
	v := <-c
	println(tag, "plain iszero", v == zero)
	dirty(10)
	select {
	case w, ok := <-c:
		show(tag+" sel", w, ok, zero)
	}
	dirty(11)
	var w T = x
	select {
	case w = <-c:
		println(tag, "sel-assign iszero", w == zero)
	default:
		println(tag, "sel-assign default?!")
	}
	var arr [3]T
	arr[1] = y
	dirty(12)
	arr[1] = <-c
	println(tag, "elem-assign iszero", arr[1] == zero, arr[0] == zero)
}

//go:noinline
func unbuffered[T comparable](tag string, x T) {
	var zero T
	c := make(chan T)
	done := make(chan bool)
	go func() {
		dirty(3)
		v, ok := <-c
		show(tag+" ub1", v, ok, zero)
		if v != x {
			println(tag, "WRONG VALUE ub")
		}
		dirty(4)
		v, ok = <-c
		show(tag+" ub2", v, ok, zero)
		done <- true
	}()
	c <- x
	close(c)
	<-done
}

//go:noinline
func selects() {
	a := make(chan int, 1)
	b := make(chan string, 1)
	var n chan int // nil: never ready
	// send case on a channel with room, receive cases empty
	select {
	case a <- tick("a-val"):
		println("sel1 sent a")
	case s := <-b:
		println("sel1 recv b", s)
	case <-n:
		println("sel1 nil?!")
	}
	// a full, b empty: only the receive from a is ready
	select {
	case a <- 5:
		println("sel2 sent?!")
	case v := <-a:
		println("sel2 recv a", v)
	case <-n:
		println("sel2 nil?!")
	}
	// default when nothing is ready
	for len(b) > 0 {
		<-b
	}
	for len(a) > 0 {
		<-a
	}
	select {
	case v := <-a:
		println("sel3 recv?!", v)
	case s, ok := <-b:
		println("sel3 recv?!", s, ok)
	case n <- 1:
		println("sel3 nil send?!")
	default:
		println("sel3 default")
	}
	// operand evaluation: channel and value expressions of every case are evaluated once, in source order
	cs := []chan int{make(chan int, 1), make(chan int, 1)}
	pick := func(i int) chan int { tick("chan"); return cs[i] }
	select {
	case pick(0) <- tick("v0"): // both cases are ready: which one is taken is not determined, the evaluation order is
	case pick(1) <- tick("v1"):
	}
	println("sel4 lens", len(cs[0])+len(cs[1]))
	// closed channel in a select with a full send case: the receive is the only ready case
	close(b)
	a <- 1
	dirty(5)
	select {
	case a <- 2:
		println("sel5 sent?!")
	case s, ok := <-b:
		println("sel5 closed recv len", len(s), ok)
	}
	// select in a loop draining two closed channels with different element types
	p := make(chan pair, 2)
	q := make(chan *int, 2)
	one := 1
	p <- pair{7, "seven"}
	q <- &one
	close(p)
	close(q)
	np, nq := 0, 0
	for i := 0; i < 6; i++ {
		dirty(i)
		if i%2 == 0 {
			select {
			case v, ok := <-p:
				println("sel6 p", v.a, v.s, ok)
				np++
			}
		} else {
			select {
			case v, ok := <-q:
				println("sel6 q", v == nil, ok)
				nq++
			}
		}
	}
	println("sel6 counts", np, nq)
}

//go:noinline
func misc() {
	// send statement: channel operand evaluated before the value operand
	var c chan int
	mk := func() chan int { tick("mk"); c = make(chan int, 3); return c }
	mk() <- tick("val")
	println("misc len", len(c), <-c)
	// chan of chan, directional views
	cc := make(chan chan string, 1)
	inner := make(chan string, 1)
	cc <- inner
	var ro <-chan chan string = cc
	got := <-ro
	var so chan<- string = got
	so <- "through"
	println("misc inner", <-inner, got == inner)
	// range over a closed buffered channel of structs
	bc := make(chan big, 3)
	for i := 0; i < 3; i++ {
		var b big
		b.n = int64(i) * 1000003
		b.pad[95] = byte(i + 1)
		bc <- b
	}
	close(bc)
	sum := int64(0)
	for b := range bc {
		sum += b.n + int64(b.pad[95]) + int64(b.pad[0])
	}
	dirty(2)
	zb, ok := <-bc
	println("misc range", sum, zb.n, zb.pad[95], ok)
	// len/cap of nil and of zero-size element channels
	var nc chan struct{}
	zc := make(chan struct{}, 4)
	zc <- struct{}{}
	zc <- struct{}{}
	println("misc nil", len(nc), cap(nc), "zs", len(zc), cap(zc))
	close(zc)
	n := 0
	for range zc {
		n++
	}
	_, ok = <-zc
	println("misc zs drained", n, ok)
	// make with computed sizes of narrow types
	k8 := int8(3)
	u16 := uint16(5)
	println("misc caps", cap(make(chan int, k8)), cap(make(chan byte, u16)), cap(make(chan string, 0)))
}

func main() {
	one, two := 1, 2
	drain("int8", int8(-5), int8(7))
	drain("int64", int64(1)<<40, int64(-3))
	drain("uint16", uint16(65535), uint16(1))
	drain("float64", 1.5, -2.25)
	drain("bool", true, true)
	drain("string", "alpha", "beta")
	drain("arr", [3]int{1, 2, 3}, [3]int{4, 5, 6})
	drain("pair", pair{1, "x"}, pair{2, "y"})
	drain("big", big{n: 5}, big{n: 6})
	drain("ptr", &one, &two)
	drain("any", any(3), any("s"))
	drain("iface", iface(impl(2)), iface(impl(4)))
	drain("chan", make(chan int), make(chan int))
	drain("complex", complex(1, 2), complex(3, 4))
	drain("empty", struct{}{}, struct{}{})
	unbuffered("u-int", 42)
	unbuffered("u-string", "hello")
	unbuffered("u-pair", pair{9, "nine"})
	unbuffered("u-big", big{n: 77})
	unbuffered("u-any", any(1.25))
	selects()
	misc()
	println("done", seq)
}

package main

import "sync"

// fan-in/fan-out with per-sender sequence numbers; schedule-independent result
const S, R, K = 4, 3, 400

func run(capacity int) {
	ch := make(chan int, capacity)
	var wg, rg sync.WaitGroup
	var mu sync.Mutex
	sum, count, bad := 0, 0, 0
	for r := 0; r < R; r++ {
		rg.Add(1)
		go func() {
			defer rg.Done()
			last := [S]int{}
			ls, lc := 0, 0
			for v := range ch {
				s, n := v/100000, v%100000
				if n <= last[s] { // per receiver, values of one sender arrive in send order
					mu.Lock()
					bad++
					mu.Unlock()
				}
				last[s] = n
				ls += v
				lc++
			}
			mu.Lock()
			sum += ls
			count += lc
			mu.Unlock()
		}()
	}
	for s := 0; s < S; s++ {
		wg.Add(1)
		go func(s int) {
			defer wg.Done()
			for n := 1; n <= K; n++ {
				ch <- s*100000 + n
			}
		}(s)
	}
	wg.Wait()
	close(ch)
	rg.Wait()
	println("cap", capacity, "count", count, "sum", sum, "bad", bad)
}

func main() {
	for _, c := range []int{0, 1, 2, 7} {
		run(c)
	}
}

package main

import "sync"

// select loops over BUFFERED data channels and a quit channel that gets closed;
// non-blocking selects (default) for polling. No select on unbuffered channels with
// competing receivers or select-only senders (open findings of C10).
const P, K = 3, 300

func main() {
	data := make(chan int, 4)
	quit := make(chan struct{})
	results := make(chan int, P)
	var wg sync.WaitGroup
	for w := 0; w < 2; w++ {
		wg.Add(1)
		go func() {
			defer wg.Done()
			sum := 0
			for {
				select {
				case v := <-data:
					sum += v
				case <-quit:
					// drain what is left, without blocking
					for {
						select {
						case v := <-data:
							sum += v
							continue
						default:
						}
						break
					}
					results <- sum
					return
				}
			}
		}()
	}
	var pg sync.WaitGroup
	dropped := 0
	var mu sync.Mutex
	for p := 0; p < P; p++ {
		pg.Add(1)
		go func(p int) {
			defer pg.Done()
			for i := 1; i <= K; i++ {
				if i%7 == 0 {
					select { // polling send
					case data <- i:
					default:
						mu.Lock()
						dropped += i
						mu.Unlock()
					}
					continue
				}
				data <- i
			}
		}(p)
	}
	pg.Wait()
	close(quit)
	wg.Wait()
	total := 0
	for w := 0; w < 2; w++ {
		total += <-results
	}
	// stragglers: values still buffered after both workers drained concurrently
	for {
		select {
		case v := <-data:
			total += v
			continue
		default:
		}
		break
	}
	println("total+dropped", total+dropped, "expected", P*K*(K+1)/2)
}

package main

import (
	"sync/atomic"
	"time"
)

// go statements whose callee is a builtin or a sync/atomic intrinsic: the operation is compiled into the
// goroutine's entry thunk, so every statement needs its own thunk even when the operand types coincide.
// Each statement must run its own call exactly once with the operands as evaluated at the go statement.

var a32, b32, c32, d32, e32 int32
var u1, u2, u3 uint32
var a64, b64, c64 int64
var p1, p2 uintptr

func wait(what string, cond func() bool) {
	for i := 0; i < 20000; i++ {
		if cond() {
			return
		}
		time.Sleep(500 * time.Microsecond)
	}
	println("TIMEOUT waiting for", what)
}

func main() {
	a32, b32, c32, d32, e32 = 5, 5, 5, 5, 5
	v := int32(10)
	go atomic.AddInt32(&a32, v)
	go atomic.StoreInt32(&b32, v)
	go atomic.SwapInt32(&c32, v+2)
	go atomic.CompareAndSwapInt32(&d32, 5, v+3)
	go atomic.AddInt32(&e32, -v)
	v = 99 // operands were evaluated at the go statements
	wait("int32 ops", func() bool {
		return atomic.LoadInt32(&a32) == 15 && atomic.LoadInt32(&b32) == 10 && atomic.LoadInt32(&c32) == 12 &&
			atomic.LoadInt32(&d32) == 13 && atomic.LoadInt32(&e32) == -5
	})
	println("int32", atomic.LoadInt32(&a32), atomic.LoadInt32(&b32), atomic.LoadInt32(&c32), atomic.LoadInt32(&d32), atomic.LoadInt32(&e32))

	u1, u2, u3 = 0xf0, 0xf0, 0xf0
	go atomic.OrUint32(&u1, 0x0f)
	go atomic.AndUint32(&u2, 0x30)
	go atomic.AddUint32(&u3, 0x0f)
	wait("uint32 ops", func() bool {
		return atomic.LoadUint32(&u1) == 0xff && atomic.LoadUint32(&u2) == 0x30 && atomic.LoadUint32(&u3) == 0xff
	})
	println("uint32", atomic.LoadUint32(&u1), atomic.LoadUint32(&u2), atomic.LoadUint32(&u3))

	a64, b64, c64 = 1, 1, 1
	go atomic.StoreInt64(&a64, 1<<40)
	go atomic.AddInt64(&b64, 1<<40)
	go atomic.SwapInt64(&c64, -7)
	wait("int64 ops", func() bool {
		return atomic.LoadInt64(&a64) == 1<<40 && atomic.LoadInt64(&b64) == 1<<40+1 && atomic.LoadInt64(&c64) == -7
	})
	println("int64", atomic.LoadInt64(&a64), atomic.LoadInt64(&b64), atomic.LoadInt64(&c64))

	p1, p2 = 3, 3
	go atomic.AddUintptr(&p1, 4)
	go atomic.StoreUintptr(&p2, 4)
	wait("uintptr ops", func() bool { return atomic.LoadUintptr(&p1) == 7 && atomic.LoadUintptr(&p2) == 4 })
	println("uintptr", atomic.LoadUintptr(&p1), atomic.LoadUintptr(&p2))

	// builtins: close on two channels of one type, then two of another type; copy and delete with identical operand types
	d1, d2 := make(chan int), make(chan int)
	s1, s2 := make(chan string, 1), make(chan string, 1)
	go close(d1)
	go close(d2)
	go close(s1)
	go close(s2)
	_, ok1 := <-d1
	_, ok2 := <-d2
	_, ok3 := <-s1
	_, ok4 := <-s2
	println("closed", ok1, ok2, ok3, ok4)

	m1 := map[string]int{"a": 1, "b": 2}
	m2 := map[string]int{"a": 1, "b": 2}
	done := make(chan bool)
	go func() { delete(m1, "a"); done <- true }()
	go func() { delete(m2, "b"); done <- true }()
	<-done
	<-done
	println("maps", len(m1), m1["b"], len(m2), m2["a"])

	// same callee, different operands: each goroutine gets its own record
	var cnt [4]int32
	for i := range cnt {
		go atomic.AddInt32(&cnt[i], int32(i+1))
	}
	wait("loop adds", func() bool {
		for i := range cnt {
			if atomic.LoadInt32(&cnt[i]) != int32(i+1) {
				return false
			}
		}
		return true
	})
	println("loop", atomic.LoadInt32(&cnt[0]), atomic.LoadInt32(&cnt[1]), atomic.LoadInt32(&cnt[2]), atomic.LoadInt32(&cnt[3]))
}

package main

import "sync"

// producer/consumer over sync.Cond with exact item accounting; Signal and Broadcast variants
func run(consumers, items int, broadcast bool) {
	var mu sync.Mutex
	cond := sync.NewCond(&mu)
	queue := 0
	produced, consumed := 0, 0
	done := false
	var wg sync.WaitGroup
	for c := 0; c < consumers; c++ {
		wg.Add(1)
		go func() {
			defer wg.Done()
			mu.Lock()
			for {
				for queue == 0 && !done {
					cond.Wait()
				}
				if queue == 0 && done {
					mu.Unlock()
					return
				}
				queue--
				consumed++
				mu.Unlock()
				mu.Lock()
			}
		}()
	}
	for i := 0; i < items; i++ {
		mu.Lock()
		queue++
		produced++
		if broadcast {
			cond.Broadcast()
		} else {
			cond.Signal()
		}
		mu.Unlock()
	}
	mu.Lock()
	done = true
	cond.Broadcast()
	mu.Unlock()
	wg.Wait()
	println("consumers", consumers, "broadcast", broadcast, "produced", produced, "consumed", consumed, "left", queue)
}

func main() {
	run(1, 2000, false)
	run(4, 3000, false)
	run(8, 3000, true)
	run(16, 1500, false)
}

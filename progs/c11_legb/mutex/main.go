package main

import "sync"

// non-atomic counter under sync.Mutex; TryLock never succeeds while locked
func main() {
	const G, K = 16, 3000
	var mu sync.Mutex
	counter, inside, bad := 0, 0, 0
	var wg sync.WaitGroup
	for g := 0; g < G; g++ {
		wg.Add(1)
		go func(g int) {
			defer wg.Done()
			for i := 0; i < K; i++ {
				if g%4 == 3 && i%3 == 0 {
					if !mu.TryLock() {
						mu.Lock()
					}
				} else {
					mu.Lock()
				}
				inside++
				if inside != 1 {
					bad++
				}
				counter++
				inside--
				mu.Unlock()
			}
		}(g)
	}
	wg.Wait()
	println("counter", counter, "bad", bad)
}

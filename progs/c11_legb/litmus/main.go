package main

import (
	"runtime"
	"sync/atomic"
)

// store-buffering and message-passing litmus tests with two long-lived goroutines:
// with Go's sequentially consistent atomics r1 == 0 && r2 == 0 (SB) and "flag seen but
// data stale" (MP) are forbidden outcomes.
const N = 5000

var x, y, r1, r2 int32
var round, ack int32
var data [8]int32
var flag int32

func wait(p *int32, v int32) {
	for atomic.LoadInt32(p) != v {
		runtime.Gosched()
	}
}

func main() {
	sbBad, mpBad := 0, 0
	// ---- SB
	for w := 0; w < 2; w++ {
		go func(w int) {
			for i := int32(1); i <= N; i++ {
				wait(&round, i)
				if w == 0 {
					atomic.StoreInt32(&x, 1)
					atomic.StoreInt32(&r1, atomic.LoadInt32(&y))
				} else {
					atomic.StoreInt32(&y, 1)
					atomic.StoreInt32(&r2, atomic.LoadInt32(&x))
				}
				atomic.AddInt32(&ack, 1)
			}
		}(w)
	}
	for i := int32(1); i <= N; i++ {
		atomic.StoreInt32(&x, 0)
		atomic.StoreInt32(&y, 0)
		atomic.StoreInt32(&ack, 0)
		atomic.StoreInt32(&round, i)
		wait(&ack, 2)
		if atomic.LoadInt32(&r1) == 0 && atomic.LoadInt32(&r2) == 0 {
			sbBad++
		}
	}
	// ---- MP: plain data published by an atomic flag
	done := make(chan int)
	go func() {
		bad := 0
		for i := int32(1); i <= N; i++ {
			wait(&flag, i)
			for k := range data {
				if data[k] != i {
					bad++
					break
				}
			}
			atomic.StoreInt32(&ack, -i)
		}
		done <- bad
	}()
	for i := int32(1); i <= N; i++ {
		for k := range data {
			data[k] = i
		}
		atomic.StoreInt32(&flag, i)
		wait(&ack, -i)
	}
	mpBad = <-done
	println("sb forbidden outcomes", sbBad, "mp stale reads", mpBad)
}

package main

import (
	"sync"
	"sync/atomic"
)

// WaitGroup as a barrier over several phases: Wait returns only after all Done calls of the phase
func main() {
	const G, P = 24, 60
	var arrived int64
	bad := 0
	for p := 0; p < P; p++ {
		var wg sync.WaitGroup
		wg.Add(G)
		for g := 0; g < G; g++ {
			go func() {
				atomic.AddInt64(&arrived, 1)
				wg.Done()
			}()
		}
		wg.Wait()
		if n := atomic.LoadInt64(&arrived); n != int64((p+1)*G) {
			bad++
		}
	}
	// several waiters on one group
	var wg, waiters sync.WaitGroup
	var released int64
	wg.Add(5)
	for w := 0; w < 6; w++ {
		waiters.Add(1)
		go func() {
			defer waiters.Done()
			wg.Wait()
			atomic.AddInt64(&released, 1)
		}()
	}
	for i := 0; i < 5; i++ {
		go wg.Done()
	}
	waiters.Wait()
	println("arrived", arrived, "bad", bad, "released", released)
}

package main

import (
	"sync"
	"sync/atomic"
)

// every width: Add/CAS/Swap/Load/Store/And/Or are indivisible; totals are exact
type pair struct{ a, b int }

func main() {
	const G, K = 12, 4000
	var i32 int32
	var i64 int64
	var u32 uint32
	var u64 uint64
	var up uintptr
	var ti32 atomic.Int32
	var ti64 atomic.Int64
	var tu64 atomic.Uint64
	var casCounter int64
	var tickets int64
	var orBits, andBits uint32 = 0, 0xffffffff
	var flag atomic.Bool
	var val atomic.Value
	var ptr atomic.Pointer[pair]
	ptr.Store(&pair{0, 0})
	val.Store(pair{0, 0})
	seen := make([]int32, G*K)
	var swapSum, swapLast int64
	var torn int64
	var wg sync.WaitGroup
	for g := 0; g < G; g++ {
		wg.Add(1)
		go func(g int) {
			defer wg.Done()
			for k := 0; k < K; k++ {
				atomic.AddInt32(&i32, 3)
				atomic.AddInt64(&i64, -5)
				atomic.AddUint32(&u32, 7)
				atomic.AddUint64(&u64, 1<<33)
				atomic.AddUintptr(&up, 2)
				ti32.Add(1)
				ti64.Add(1 << 40)
				tu64.Add(3)
				for { // CAS increment
					o := atomic.LoadInt64(&casCounter)
					if atomic.CompareAndSwapInt64(&casCounter, o, o+1) {
						break
					}
				}
				t := atomic.AddInt64(&tickets, 1) - 1 // ticket dispenser: each ticket exactly once
				atomic.AddInt32(&seen[t], 1)
				old := atomic.SwapInt64(&swapLast, int64(g*K+k+1)) // every value swapped in is swapped out once
				atomic.AddInt64(&swapSum, old)
				atomic.OrUint32(&orBits, 1<<uint(g))
				atomic.AndUint32(&andBits, ^(uint32(1) << uint(g+16)))
				flag.Store(k%2 == 0)
				_ = flag.Load()
				p := &pair{g*K + k, -(g*K + k)}
				ptr.Store(p)
				q := ptr.Load()
				if q.a != -q.b {
					atomic.AddInt64(&torn, 1)
				}
				val.Store(pair{k, -k})
				v := val.Load().(pair)
				if v.a != -v.b {
					atomic.AddInt64(&torn, 1)
				}
			}
		}(g)
	}
	wg.Wait()
	dup := 0
	for _, s := range seen {
		if s != 1 {
			dup++
		}
	}
	n := int64(G * K)
	swapSum += atomic.LoadInt64(&swapLast)
	println("i32", i32, "i64", i64, "u32", u32, "u64", u64, "up", up)
	println("typed", ti32.Load(), ti64.Load(), tu64.Load(), "cas", casCounter, "tickets", tickets, "dup", dup)
	println("swapSum", swapSum, "expected", n*(n+1)/2, "or", orBits, "and", andBits, "torn", torn)
}

package main

import (
	"sync"
	"sync/atomic"
)

// Once body runs exactly once and every Do returns only after it has finished
func main() {
	const G, ROUNDS = 32, 40
	bad, runs := int64(0), int64(0)
	for r := 0; r < ROUNDS; r++ {
		var once sync.Once
		var finished int64
		var wg sync.WaitGroup
		for g := 0; g < G; g++ {
			wg.Add(1)
			go func() {
				defer wg.Done()
				once.Do(func() {
					atomic.AddInt64(&runs, 1)
					x := 0
					for i := 0; i < 20000; i++ { // slow body
						x += i
					}
					if x > 0 {
						atomic.StoreInt64(&finished, 1)
					}
				})
				if atomic.LoadInt64(&finished) != 1 {
					atomic.AddInt64(&bad, 1)
				}
			}()
		}
		wg.Wait()
	}
	println("runs", runs, "bad", bad)
}

package main

import "sync"

// a go statement evaluates the function value and the arguments at the statement, runs the call once
type T struct{ id int }

func (t T) val(out *[64]int, i int)  { out[i] = t.id }
func (t *T) ptr(out *[64]int, i int) { out[i] = t.id }

func main() {
	var wg sync.WaitGroup
	var a, b, c, d, e [64]int
	calls := make([]int32, 64)
	var mu sync.Mutex
	f := func(out *[64]int, i, v int) {
		out[i] = v
		mu.Lock()
		calls[i]++
		mu.Unlock()
		wg.Done()
	}
	x := 0
	t := T{0}
	fn := f
	for i := 0; i < 64; i++ {
		x = i * 10
		t.id = i
		wg.Add(5)
		go f(&a, i, x)            // x evaluated now
		go fn(&b, i, x+1)         // function value evaluated now
		go func(v int) { c[i] = v; wg.Done() }(x + 2)
		tv := t
		go func() { tv.val(&d, i); wg.Done() }()
		go func(m func(*[64]int, int)) { m(&e, i); wg.Done() }(t.val) // method value binds a copy of t now
		x = -1
		t.id = -1
		fn = f
	}
	wg.Wait()
	bad := 0
	for i := 0; i < 64; i++ {
		if a[i] != i*10 || b[i] != i*10+1 || c[i] != i*10+2 || d[i] != i || e[i] != i || calls[i] != 2 {
			bad++
		}
	}
	println("bad", bad)
}

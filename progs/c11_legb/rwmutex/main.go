package main

import "sync"

// writers keep a == b under Lock; readers must never observe a != b, nor a writer inside
func main() {
	const W, R, K = 3, 8, 1500
	var rw sync.RWMutex
	a, b := 0, 0
	writers := 0
	var bad, reads int64
	var mu sync.Mutex
	var wg sync.WaitGroup
	for w := 0; w < W; w++ {
		wg.Add(1)
		go func(w int) {
			defer wg.Done()
			for i := 0; i < K; i++ {
				rw.Lock()
				writers++
				a++
				if writers != 1 {
					mu.Lock()
					bad++
					mu.Unlock()
				}
				b++
				writers--
				rw.Unlock()
			}
		}(w)
	}
	for r := 0; r < R; r++ {
		wg.Add(1)
		go func() {
			defer wg.Done()
			lb, lr := int64(0), int64(0)
			for i := 0; i < K; i++ {
				rw.RLock()
				if a != b || writers != 0 {
					lb++
				}
				lr++
				rw.RUnlock()
			}
			mu.Lock()
			bad += lb
			reads += lr
			mu.Unlock()
		}()
	}
	wg.Wait()
	println("a", a, "b", b, "reads", reads, "bad", bad)
}

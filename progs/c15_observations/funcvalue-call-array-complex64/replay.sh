#!/bin/sh
# builds this module with llgo (-O0, from $VERIF_REPO or /repo) and with go1.24, prints the first differing line
cd "$(dirname "$0")" && exec python3 /verif/rig/replay_diff.py .

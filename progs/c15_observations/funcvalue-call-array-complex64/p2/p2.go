package p2

import (
	"fmt"
	"reflect"
	"strconv"
	"unsafe"
	"Zmod/sub/g"
	"Zmod/sub/w"
	"Zmod/sub/p0"
	"Zmod/sub/p1"
)

var _ = fmt.Sprint
var _ = reflect.TypeOf
var _ = strconv.Itoa
var _ unsafe.Pointer
var _ g.Box[int]
var _ = w.P
var _ p0.T0_
var _ p1.T0_

type T0_ struct{}

type T49 struct { F0 []*string; p1.T31; p1.T40 }

func (r T49) Error() string {
	return "T49.Error#" + strconv.Itoa(0)
}

func (r *T49) GoString() string {
	if r == nil {
		return "(*p2.T49)(nil)"
	}
	return "p2.MkT49(" + strconv.Itoa(0) + ")"
}

func (r T49) Self() T49 {
	return r
}

func (r *T49) String() string {
	if r == nil {
		return "nilT49"
	}
	return "T49.String#" + strconv.Itoa(0)
}

func (r T49) Two() (int, string) {
	return 153 + 0, "T49"
}

func (r T49) With(s string, n ...int8) string {
	t := 0
	for _, x := range n {
		t += int(x)
	}
	return s + ":" + strconv.Itoa(t+len(n)*100+0)
}

type T50 struct { f0 *g.M[int, p1.T44]; F1 struct { F0 uint; f1 p0.T21 }; g.Wrap[p0.T24] }

type T51 struct { p0.T20 }

func (r *T51) Add(a int, b int) int {
	if r == nil {
		return -1
	}
	return a*2 + b + 0
}

func (r *T51) Cplx(c complex128) complex64 {
	if r == nil {
		return 0
	}
	return complex64(c) + complex(float32(0), 1)
}

func (r *T51) Self() *T51 {
	return r
}

func (r *T51) String() string {
	if r == nil {
		return "nilT51"
	}
	return "T51.String#" + strconv.Itoa(0)
}

func (r *T51) Wide(a int8, b float64, c string, d uint16, e bool) (float64, bool) {
	if r == nil {
		return 0, false
	}
	return float64(a) + b*2 + float64(len(c)) + float64(d) + float64(0), !e
}

func (r *T51) hid(x int) int {
	if r == nil {
		return -1
	}
	return x + 106
}

func (r *T51) unexp() {
}

type T52 interface { error; Two() (int, string); With(string, ...int8) string }

type T53 struct { p1.T26; _ g.Box[p0.T7] `k:"x y"` }

type T54 int8

func (r *T54) Cplx(c complex128) complex64 {
	if r == nil {
		return 0
	}
	return complex64(c) + complex(float32(int((*r))), 1)
}

func (r T54) Error() string {
	return "T54.Error#" + strconv.Itoa(int(r))
}

func (r *T54) Name() string {
	if r == nil {
		return "nilT54"
	}
	return "T54.Name#" + strconv.Itoa(int((*r)))
}

func (r *T54) String() string {
	if r == nil {
		return "nilT54"
	}
	return "T54.String#" + strconv.Itoa(int((*r)))
}

type T55 bool

func (r *T55) Get() int {
	if r == nil {
		return -1
	}
	return 105 + 0
}

func (r *T55) Two() (int, string) {
	if r == nil {
		return -1, "nil"
	}
	return 106 + 0, "T55"
}

type T56 p0.T2

type T57 struct { f0 map[string]T57 }

func (r T57) Error() string {
	return "T57.Error#" + strconv.Itoa(0)
}

func (r *T57) String() string {
	if r == nil {
		return "nilT57"
	}
	return "T57.String#" + strconv.Itoa(0)
}

type T58 struct { p0.T2; F1 g.Num[int8] }

func (r *T58) Format(f fmt.State, c rune) {
	if r == nil {
		fmt.Fprint(f, "nilT58")
		return
	}
	w_, wok := f.Width()
	p_, pok := f.Precision()
	fmt.Fprintf(f, "T58{%c w=%d/%t p=%d/%t +%t -%t #%t sp%t 0%t n=%d}", c, w_, wok, p_, pok, f.Flag('+'), f.Flag('-'), f.Flag('#'), f.Flag(' '), f.Flag('0'), 0)
}

func (r *T58) Set(x int) {
	if r == nil {
		return
	}
	_ = x
}

type T59 complex128

func (r *T59) Self() *T59 {
	return r
}

type T60 []T60

func (r *T60) Add(a int, b int) int {
	if r == nil {
		return -1
	}
	return a*2 + b + len((*r))
}

func (r T60) Cplx(c complex128) complex64 {
	return complex64(c) + complex(float32(len(r)), 1)
}

func (r T60) Error() string {
	return "T60.Error#" + strconv.Itoa(len(r))
}

func (r *T60) String() string {
	if r == nil {
		return "nilT60"
	}
	return "T60.String#" + strconv.Itoa(len((*r)))
}

func (r *T60) Wide(a int8, b float64, c string, d uint16, e bool) (float64, bool) {
	if r == nil {
		return 0, false
	}
	return float64(a) + b*2 + float64(len(c)) + float64(d) + float64(len((*r))), !e
}

type T61 interface { error }

type T62 struct { F0 []p0.T15 `k:"\u00e9\"q"`; string; F2 T54 `k:"\u00e9\"q"`; F3 [3]struct { F0 T56; F1 int32 } `raw tag no colon`; f4 g.Wrap[int] `k:"\u00e9\"q"` }

func (r *T62) Set(x int) {
	if r == nil {
		return
	}
	_ = x
}

func (r *T62) String() string {
	if r == nil {
		return "nilT62"
	}
	return "T62.String#" + strconv.Itoa(0)
}

func (r *T62) With(s string, n ...int8) string {
	if r == nil {
		return "nil"
	}
	t := 0
	for _, x := range n {
		t += int(x)
	}
	return s + ":" + strconv.Itoa(t+len(n)*100+0)
}

type T63 struct { T55; g.Num[T54]; f2 struct { F0 float64; bool; F2 uint; p0.T1; F4 uint64 }; F3 [][0]T52 }

type T64 g.Box[p0.T23]

func (r *T64) Add(a int, b int) int {
	if r == nil {
		return -1
	}
	return a*2 + b + 0
}

func (r T64) Format(f fmt.State, c rune) {
	w_, wok := f.Width()
	p_, pok := f.Precision()
	fmt.Fprintf(f, "T64{%c w=%d/%t p=%d/%t +%t -%t #%t sp%t 0%t n=%d}", c, w_, wok, p_, pok, f.Flag('+'), f.Flag('-'), f.Flag('#'), f.Flag(' '), f.Flag('0'), 0)
}

func (r T64) GoString() string {
	return "p2.MkT64(" + strconv.Itoa(0) + ")"
}

func (r T64) Name() string {
	return "T64.Name#" + strconv.Itoa(0)
}

type T65 uint16

type T66 p1.T48

func (r *T66) Add(a int, b int) int {
	if r == nil {
		return -1
	}
	return a*2 + b + 0
}

func (r *T66) GoString() string {
	if r == nil {
		return "(*p2.T66)(nil)"
	}
	return "p2.MkT66(" + strconv.Itoa(0) + ")"
}

func (r *T66) Self() *T66 {
	return r
}

func (r *T66) Set(x int) {
	if r == nil {
		return
	}
	_ = x
}

func (r *T66) String() string {
	if r == nil {
		return "nilT66"
	}
	return "T66.String#" + strconv.Itoa(0)
}

type T67 struct { F0 T56; error; F2 p1.T42 `k:"\u00e9\"q"`; f3 [1]chan<- p1.T25 `k:"\u00e9\"q"`; *g.Wrap[p0.T3] }

type T68 chan complex128

type T69 struct { *g.List[int32]; F1 map[int8]chan float64 }

func (r *T69) String() string {
	if r == nil {
		return "nilT69"
	}
	return "T69.String#" + strconv.Itoa(0)
}

func (r T69) Wide(a int8, b float64, c string, d uint16, e bool) (float64, bool) {
	return float64(a) + b*2 + float64(len(c)) + float64(d) + float64(0), !e
}

type T70 string

func (r *T70) Cplx(c complex128) complex64 {
	if r == nil {
		return 0
	}
	return complex64(c) + complex(float32(len((*r))), 1)
}

func (r *T70) Get() int {
	if r == nil {
		return -1
	}
	return 121 + len((*r))
}

func (r *T70) Self() *T70 {
	return r
}

func (r *T70) String() string {
	if r == nil {
		return "nilT70"
	}
	return "T70.String#" + strconv.Itoa(len((*r)))
}

func (r *T70) hid(x int) int {
	if r == nil {
		return -1
	}
	return x + 124
}

type T71 [0]p1.T44

type T72 chan struct { p0.T13; f1 p0.T2; F2 bool }

func MkT49(k int) T49 {
	switch k {
	case 1:
		return T49{F0: []*string{(*string)(nil), (*string)(nil)}, T31: p1.MkT31(0), T40: p1.MkT40(1)}
	case 2:
		return T49{F0: []*string{(*string)(nil), (*string)(nil)}, T31: p1.MkT31(2), T40: p1.MkT40(0)}
	case 3:
		return T49{F0: []*string{w.Ptr(string("\x7f")), w.Ptr(string("日本"))}, T31: p1.MkT31(3), T40: p1.MkT40(3)}
	case 4:
		return T49{F0: []*string{w.Ptr(string("\x7f")), w.Ptr(string("日本~"))}, T31: p1.MkT31(3), T40: p1.MkT40(3)}
	}
	return T49{F0: []*string{(*string)(nil), (*string)(nil)}, T31: p1.MkT31(0), T40: p1.MkT40(0)}
}

func MkT50(k int) T50 {
	switch k {
	case 1:
		return T50{f0: (*g.M[int, p1.T44])(nil), F1: struct { F0 uint; f1 p0.T21 }{F0: uint(9223372036854775813), f1: p0.MkT21(0)}, Wrap: g.MkWrap[p0.T24](p0.MkT24(0), -29999, "q\"uote")}
	case 2:
		return T50{f0: (*g.M[int, p1.T44])(nil), F1: struct { F0 uint; f1 p0.T21 }{F0: uint(65534), f1: p0.MkT21(0)}, Wrap: g.MkWrap[p0.T24](p0.MkT24(0), 1000, "\x7f")}
	case 3:
		return T50{f0: w.Ptr(g.M[int, p1.T44]{int(1): p1.MkT44(3)}), F1: struct { F0 uint; f1 p0.T21 }{F0: uint(7), f1: p0.MkT21(3)}, Wrap: g.MkWrap[p0.T24](p0.MkT24(3), 1, "x y")}
	case 4:
		return T50{f0: w.Ptr(g.M[int, p1.T44]{int(1): p1.MkT44(3)}), F1: struct { F0 uint; f1 p0.T21 }{F0: uint(7), f1: p0.MkT21(3)}, Wrap: g.MkWrap[p0.T24](p0.MkT24(3), 1, "x y~")}
	}
	return T50{f0: (*g.M[int, p1.T44])(nil), F1: struct { F0 uint; f1 p0.T21 }{F0: uint(9223372036854775813), f1: p0.MkT21(0)}, Wrap: g.MkWrap[p0.T24](p0.MkT24(0), -30000, "q\"uote")}
}

func MkT51(k int) T51 {
	switch k {
	case 1:
		return T51{T20: p0.MkT20(1)}
	case 2:
		return T51{T20: p0.MkT20(2)}
	case 3:
		return T51{T20: p0.MkT20(3)}
	case 4:
		return T51{T20: p0.MkT20(4)}
	}
	return T51{T20: p0.MkT20(0)}
}

func MkT52(k int) T52 {
	switch k {
	case 1:
		return T52(MkT49(0))
	case 2:
		return T52(MkT49(0))
	case 3:
		return T52(MkT49(3))
	case 4:
		return T52(MkT49(4))
	}
	return T52(MkT49(2))
}

func MkT53(k int) T53 {
	switch k {
	case 1:
		return T53{T26: p1.MkT26(1)}
	case 2:
		return T53{T26: p1.MkT26(0)}
	case 3:
		return T53{T26: p1.MkT26(3)}
	case 4:
		return T53{T26: p1.MkT26(3)}
	}
	return T53{T26: p1.MkT26(0)}
}

func MkT54(k int) T54 {
	switch k {
	case 1:
		return T54(8)
	case 2:
		return T54(-1)
	case 3:
		return T54(-1)
	case 4:
		return T54(0)
	}
	return T54(7)
}

func MkT55(k int) T55 {
	switch k {
	case 1:
		return T55(false)
	case 2:
		return T55(false)
	case 3:
		return T55(true)
	case 4:
		return T55(false)
	}
	return T55(true)
}

func MkT56(k int) T56 {
	switch k {
	case 1:
		return T56(p0.MkT2(1))
	case 2:
		return T56(p0.MkT2(2))
	case 3:
		return T56(p0.MkT2(3))
	case 4:
		return T56(p0.MkT2(4))
	}
	return T56(p0.MkT2(0))
}

func MkT57(k int) T57 {
	switch k {
	case 1:
		return T57{f0: map[string]T57{string("k1"): *new(T57), string("k2"): *new(T57)}}
	case 2:
		return T57{f0: map[string]T57{string("k1"): *new(T57), string("k2"): *new(T57)}}
	case 3:
		return T57{f0: map[string]T57{string("k1"): *new(T57)}}
	case 4:
		return T57{f0: map[string]T57{string("k1"): *new(T57)}}
	}
	return T57{f0: map[string]T57{string("k1"): *new(T57), string("k2"): *new(T57)}}
}

func MkT58(k int) T58 {
	switch k {
	case 1:
		return T58{T2: p0.MkT2(0), F1: g.Num[int8]{X: int8(43)}}
	case 2:
		return T58{T2: p0.MkT2(0), F1: g.Num[int8]{X: int8(7)}}
	case 3:
		return T58{T2: p0.MkT2(3), F1: g.Num[int8]{X: int8(7)}}
	case 4:
		return T58{T2: p0.MkT2(3), F1: g.Num[int8]{X: int8(8)}}
	}
	return T58{T2: p0.MkT2(0), F1: g.Num[int8]{X: int8(42)}}
}

func MkT59(k int) T59 {
	switch k {
	case 1:
		return T59(complex(0.0, 2.0))
	case 2:
		return T59(complex(0.5, 1.0))
	case 3:
		return T59(complex(0.0, 3.25))
	case 4:
		return T59(complex(0.0, 4.25))
	}
	return T59(complex(0.0, 1.0))
}

func MkT60(k int) T60 {
	switch k {
	case 1:
		return T60{*new(T60)}
	case 2:
		return T60{*new(T60), *new(T60)}
	case 3:
		return T60{*new(T60)}
	case 4:
		return T60{*new(T60)}
	}
	return T60{*new(T60)}
}

func MkT61(k int) T61 {
	switch k {
	case 1:
		return T61(MkT57(0))
	case 2:
		return T61(MkT57(0))
	case 3:
		return T61(MkT57(3))
	case 4:
		return T61(MkT57(3))
	}
	return T61(MkT57(0))
}

func MkT62(k int) T62 {
	switch k {
	case 1:
		return T62{F0: []p0.T15{p0.MkT15(0)}, string: string("tab\there"), F2: MkT54(2), F3: [3]struct { F0 T56; F1 int32 }{struct { F0 T56; F1 int32 }{F0: MkT56(0), F1: int32(43)}, struct { F0 T56; F1 int32 }{F0: MkT56(0), F1: int32(65)}, struct { F0 T56; F1 int32 }{F0: MkT56(0), F1: int32(1000)}}, f4: g.MkWrap[int](int(1000), -30000, "x y")}
	case 2:
		return T62{F0: []p0.T15{p0.MkT15(0)}, string: string("\x7f"), F2: MkT54(0), F3: [3]struct { F0 T56; F1 int32 }{struct { F0 T56; F1 int32 }{F0: MkT56(0), F1: int32(65)}, struct { F0 T56; F1 int32 }{F0: MkT56(2), F1: int32(120)}, struct { F0 T56; F1 int32 }{F0: MkT56(2), F1: int32(-30000)}}, f4: g.MkWrap[int](int(1048576), 65, "a")}
	case 3:
		return T62{F0: []p0.T15(nil), string: string("日本"), F2: MkT54(3), F3: [3]struct { F0 T56; F1 int32 }{struct { F0 T56; F1 int32 }{F0: MkT56(3), F1: int32(2147483646)}, struct { F0 T56; F1 int32 }{F0: MkT56(3), F1: int32(-1073741824)}, struct { F0 T56; F1 int32 }{F0: MkT56(3), F1: int32(65)}}, f4: g.MkWrap[int](int(-30000), 42, "héllo")}
	case 4:
		return T62{F0: []p0.T15(nil), string: string("日本"), F2: MkT54(3), F3: [3]struct { F0 T56; F1 int32 }{struct { F0 T56; F1 int32 }{F0: MkT56(3), F1: int32(2147483646)}, struct { F0 T56; F1 int32 }{F0: MkT56(3), F1: int32(-1073741824)}, struct { F0 T56; F1 int32 }{F0: MkT56(3), F1: int32(65)}}, f4: g.MkWrap[int](int(-30000), 42, "héllo~")}
	}
	return T62{F0: []p0.T15{p0.MkT15(0)}, string: string("tab\there"), F2: MkT54(2), F3: [3]struct { F0 T56; F1 int32 }{struct { F0 T56; F1 int32 }{F0: MkT56(0), F1: int32(42)}, struct { F0 T56; F1 int32 }{F0: MkT56(0), F1: int32(65)}, struct { F0 T56; F1 int32 }{F0: MkT56(0), F1: int32(1000)}}, f4: g.MkWrap[int](int(1000), -30000, "x y")}
}

func MkT63(k int) T63 {
	switch k {
	case 1:
		return T63{T55: MkT55(0), Num: g.Num[T54]{X: MkT54(0)}, f2: struct { F0 float64; bool; F2 uint; p0.T1; F4 uint64 }{F0: float64(0.0), bool: bool(false), F2: uint(1000), T1: p0.MkT1(0), F4: uint64(8589934592)}, F3: [][0]T52{}}
	case 2:
		return T63{T55: MkT55(2), Num: g.Num[T54]{X: MkT54(0)}, f2: struct { F0 float64; bool; F2 uint; p0.T1; F4 uint64 }{F0: float64(100.5), bool: bool(false), F2: uint(65), T1: p0.MkT1(2), F4: uint64(42)}, F3: [][0]T52{[0]T52{}, [0]T52{}, [0]T52{}}}
	case 3:
		return T63{T55: MkT55(3), Num: g.Num[T54]{X: MkT54(3)}, f2: struct { F0 float64; bool; F2 uint; p0.T1; F4 uint64 }{F0: float64(1.0), bool: bool(false), F2: uint(0), T1: p0.MkT1(3), F4: uint64(42)}, F3: [][0]T52{[0]T52{}, [0]T52{}}}
	case 4:
		return T63{T55: MkT55(3), Num: g.Num[T54]{X: MkT54(3)}, f2: struct { F0 float64; bool; F2 uint; p0.T1; F4 uint64 }{F0: float64(1.0), bool: bool(false), F2: uint(1), T1: p0.MkT1(3), F4: uint64(42)}, F3: [][0]T52{[0]T52{}, [0]T52{}}}
	}
	return T63{T55: MkT55(0), Num: g.Num[T54]{X: MkT54(2)}, f2: struct { F0 float64; bool; F2 uint; p0.T1; F4 uint64 }{F0: float64(0.0), bool: bool(false), F2: uint(1000), T1: p0.MkT1(0), F4: uint64(8589934592)}, F3: [][0]T52{}}
}

func MkT64(k int) T64 {
	switch k {
	case 1:
		return T64(g.MkBox[p0.T23](p0.MkT23(2), 1001))
	case 2:
		return T64(g.MkBox[p0.T23](p0.MkT23(0), 1048576))
	case 3:
		return T64(g.MkBox[p0.T23](p0.MkT23(3), 1000))
	case 4:
		return T64(g.MkBox[p0.T23](p0.MkT23(3), 1001))
	}
	return T64(g.MkBox[p0.T23](p0.MkT23(2), 1000))
}

func MkT65(k int) T65 {
	switch k {
	case 1:
		return T65(65535)
	case 2:
		return T65(1000)
	case 3:
		return T65(1000)
	case 4:
		return T65(1001)
	}
	return T65(65534)
}

func MkT66(k int) T66 {
	switch k {
	case 1:
		return T66(p1.MkT48(1))
	case 2:
		return T66(p1.MkT48(2))
	case 3:
		return T66(p1.MkT48(3))
	case 4:
		return T66(p1.MkT48(4))
	}
	return T66(p1.MkT48(0))
}

func MkT67(k int) T67 {
	switch k {
	case 1:
		return T67{F0: MkT56(0), error: error(w.Err{"日本~"}), F2: p1.MkT42(2), f3: [1]chan<- p1.T25{(chan<- p1.T25)(nil)}, Wrap: (*g.Wrap[p0.T3])(nil)}
	case 2:
		return T67{F0: MkT56(0), error: error(w.Err{"x y"}), F2: p1.MkT42(0), f3: [1]chan<- p1.T25{(chan<- p1.T25)(nil)}, Wrap: (*g.Wrap[p0.T3])(nil)}
	case 3:
		return T67{F0: MkT56(3), error: error(w.Err{"\x7f"}), F2: p1.MkT42(3), f3: [1]chan<- p1.T25{(chan<- p1.T25)(make(chan p1.T25, 3))}, Wrap: w.Ptr(g.MkWrap[p0.T3](p0.MkT3(3), 1000, "日本"))}
	case 4:
		return T67{F0: MkT56(3), error: error(w.Err{"\x7f"}), F2: p1.MkT42(3), f3: [1]chan<- p1.T25{(chan<- p1.T25)(make(chan p1.T25, 3))}, Wrap: w.Ptr(g.MkWrap[p0.T3](p0.MkT3(3), 1001, "日本"))}
	}
	return T67{F0: MkT56(0), error: error(w.Err{"日本"}), F2: p1.MkT42(2), f3: [1]chan<- p1.T25{(chan<- p1.T25)(nil)}, Wrap: (*g.Wrap[p0.T3])(nil)}
}

func MkT68(k int) T68 {
	switch k {
	case 1:
		return (T68)(nil)
	case 2:
		return (T68)(nil)
	case 3:
		return (T68)(nil)
	case 4:
		return (T68)(nil)
	}
	return (T68)(nil)
}

func MkT69(k int) T69 {
	switch k {
	case 1:
		return T69{List: (*g.List[int32])(nil), F1: map[int8]chan float64{int8(1): (chan float64)(nil), int8(2): (chan float64)(nil), int8(3): (chan float64)(nil)}}
	case 2:
		return T69{List: (*g.List[int32])(nil), F1: map[int8]chan float64(nil)}
	case 3:
		return T69{List: w.Ptr(g.List[int32]{int32(-30000)}), F1: map[int8]chan float64(nil)}
	case 4:
		return T69{List: w.Ptr(g.List[int32]{int32(-29999)}), F1: map[int8]chan float64(nil)}
	}
	return T69{List: (*g.List[int32])(nil), F1: map[int8]chan float64{int8(1): (chan float64)(nil), int8(2): (chan float64)(nil), int8(3): (chan float64)(nil)}}
}

func MkT70(k int) T70 {
	switch k {
	case 1:
		return T70("a~")
	case 2:
		return T70("日本")
	case 3:
		return T70("tab\there")
	case 4:
		return T70("tab\there~")
	}
	return T70("a")
}

func MkT71(k int) T71 {
	switch k {
	case 1:
		return T71{}
	case 2:
		return T71{}
	case 3:
		return T71{}
	case 4:
		return T71{}
	}
	return T71{}
}

func MkT72(k int) T72 {
	switch k {
	case 1:
		return (T72)(nil)
	case 2:
		return (T72)(nil)
	case 3:
		return (T72)(make(chan struct { p0.T13; f1 p0.T2; F2 bool }, 3))
	case 4:
		return (T72)(make(chan struct { p0.T13; f1 p0.T2; F2 bool }, 3))
	}
	return (T72)(nil)
}

func U48() {
	w.Header("48", "N/ppvvvv(struct{[]*string;E:N(interface{1});E:N(interface{1})})")
	rt := reflect.TypeOf((*T49)(nil)).Elem()
	w.Try("type", func() { w.Type(rt) })
	partners := []reflect.Type{reflect.TypeOf((*p0.T19)(nil)).Elem(), reflect.TypeOf((*p1.T28)(nil)).Elem(), reflect.TypeOf((*p1.T48)(nil)).Elem()}
	w.Try("matrix", func() { w.Matrix(rt, partners) })
	w.Try("same", func() {
		w.Same("ptr", reflect.TypeOf((**T49)(nil)).Elem(), reflect.PointerTo(rt))
		w.Same("slice", reflect.TypeOf((*[]T49)(nil)).Elem(), reflect.SliceOf(rt))
		w.Same("array", reflect.TypeOf((*[3]T49)(nil)).Elem(), reflect.ArrayOf(3, rt))
		w.Same("chan", reflect.TypeOf((*<-chan T49)(nil)).Elem(), reflect.ChanOf(reflect.RecvDir, rt))
		w.Same("map", reflect.TypeOf((*map[string]T49)(nil)).Elem(), reflect.MapOf(reflect.TypeOf(""), rt))
		w.Same("func", reflect.TypeOf((*func(T49, ...T49) *T49)(nil)).Elem(), reflect.FuncOf([]reflect.Type{rt, reflect.SliceOf(rt)}, []reflect.Type{reflect.PointerTo(rt)}, true))
	})
	var x T49 = MkT49(2)
	var y T49 = MkT49(0)
	var z T49 = MkT49(0)
	var d T49 = MkT49(3)
	var e T49 = MkT49(4)
	w.Value("x", &x)
	w.Value("d", &d)
	w.Deep("xy", &x, &y)
	w.Deep("xz", &x, &z)
	w.Deep("de", &d, &e)
	w.Try("conv", func() { w.Conv("x", &x, partners) })
	w.Fmt("x", &x)
	w.Fmt("z", &z)
	w.ZeroFmt("t", rt)
	w.TypeCalls("d", &d)
	w.Calls("d", &d)
	_, _, _ = y, z, e
}

func U49() {
	w.Header("49", "N(struct{u:*g.M[int,N];struct{uint;u:N};E:g.Wrap[N]})")
	rt := reflect.TypeOf((*T50)(nil)).Elem()
	w.Try("type", func() { w.Type(rt) })
	partners := []reflect.Type{reflect.TypeOf((*p0.T7)(nil)).Elem(), reflect.TypeOf((*p1.T40)(nil)).Elem(), reflect.TypeOf((*p1.T31)(nil)).Elem()}
	w.Try("matrix", func() { w.Matrix(rt, partners) })
	w.Try("same", func() {
		w.Same("ptr", reflect.TypeOf((**T50)(nil)).Elem(), reflect.PointerTo(rt))
		w.Same("slice", reflect.TypeOf((*[]T50)(nil)).Elem(), reflect.SliceOf(rt))
		w.Same("array", reflect.TypeOf((*[3]T50)(nil)).Elem(), reflect.ArrayOf(3, rt))
		w.Same("chan", reflect.TypeOf((*<-chan T50)(nil)).Elem(), reflect.ChanOf(reflect.RecvDir, rt))
		w.Same("map", reflect.TypeOf((*map[string]T50)(nil)).Elem(), reflect.MapOf(reflect.TypeOf(""), rt))
		w.Same("func", reflect.TypeOf((*func(T50, ...T50) *T50)(nil)).Elem(), reflect.FuncOf([]reflect.Type{rt, reflect.SliceOf(rt)}, []reflect.Type{reflect.PointerTo(rt)}, true))
	})
	var x T50 = MkT50(0)
	var y T50 = MkT50(1)
	var z T50 = MkT50(2)
	var d T50 = MkT50(3)
	var e T50 = MkT50(4)
	w.Value("x", &x)
	w.Value("d", &d)
	w.Deep("xy", &x, &y)
	w.Deep("xz", &x, &z)
	w.Deep("de", &d, &e)
	w.Try("conv", func() { w.Conv("x", &x, partners) })
	w.Fmt("x", &x)
	w.Fmt("z", &z)
	w.ZeroFmt("t", rt)
	w.TypeCalls("d", &d)
	w.Calls("d", &d)
	_, _, _ = y, z, e
}

func U50() {
	w.Header("50", "N/ppppppupu(struct{E:N/pvvv(struct{E:*N`;E:N`;u:string`})})")
	rt := reflect.TypeOf((*T51)(nil)).Elem()
	w.Try("type", func() { w.Type(rt) })
	partners := []reflect.Type{reflect.TypeOf((*p0.T7)(nil)).Elem(), reflect.TypeOf((*p0.T19)(nil)).Elem(), reflect.TypeOf((*p1.T27)(nil)).Elem()}
	w.Try("matrix", func() { w.Matrix(rt, partners) })
	w.Try("same", func() {
		w.Same("ptr", reflect.TypeOf((**T51)(nil)).Elem(), reflect.PointerTo(rt))
		w.Same("slice", reflect.TypeOf((*[]T51)(nil)).Elem(), reflect.SliceOf(rt))
		w.Same("array", reflect.TypeOf((*[3]T51)(nil)).Elem(), reflect.ArrayOf(3, rt))
		w.Same("chan", reflect.TypeOf((*<-chan T51)(nil)).Elem(), reflect.ChanOf(reflect.RecvDir, rt))
		w.Same("map", reflect.TypeOf((*map[string]T51)(nil)).Elem(), reflect.MapOf(reflect.TypeOf(""), rt))
		w.Same("func", reflect.TypeOf((*func(T51, ...T51) *T51)(nil)).Elem(), reflect.FuncOf([]reflect.Type{rt, reflect.SliceOf(rt)}, []reflect.Type{reflect.PointerTo(rt)}, true))
	})
	var x T51 = MkT51(2)
	var y T51 = MkT51(0)
	var z T51 = MkT51(0)
	var d T51 = MkT51(3)
	var e T51 = MkT51(4)
	w.Value("x", &x)
	w.Value("d", &d)
	w.Deep("xy", &x, &y)
	w.Deep("xz", &x, &z)
	w.Deep("de", &d, &e)
	w.Try("conv", func() { w.Conv("x", &x, partners) })
	w.Fmt("x", &x)
	w.Fmt("z", &z)
	w.ZeroFmt("t", rt)
	w.TypeCalls("d", &d)
	w.Calls("d", &d)
	_, _, _ = y, z, e
}

func U51() {
	w.Header("51", "N(interface{3})")
	rt := reflect.TypeOf((*T52)(nil)).Elem()
	w.Try("type", func() { w.Type(rt) })
	partners := []reflect.Type{reflect.TypeOf((*T50)(nil)).Elem(), reflect.TypeOf((*T51)(nil)).Elem(), reflect.TypeOf((*T50)(nil)).Elem()}
	w.Try("matrix", func() { w.Matrix(rt, partners) })
	w.Try("same", func() {
		w.Same("ptr", reflect.TypeOf((**T52)(nil)).Elem(), reflect.PointerTo(rt))
		w.Same("slice", reflect.TypeOf((*[]T52)(nil)).Elem(), reflect.SliceOf(rt))
		w.Same("array", reflect.TypeOf((*[3]T52)(nil)).Elem(), reflect.ArrayOf(3, rt))
		w.Same("chan", reflect.TypeOf((*<-chan T52)(nil)).Elem(), reflect.ChanOf(reflect.RecvDir, rt))
		w.Same("map", reflect.TypeOf((*map[string]T52)(nil)).Elem(), reflect.MapOf(reflect.TypeOf(""), rt))
		w.Same("func", reflect.TypeOf((*func(T52, ...T52) *T52)(nil)).Elem(), reflect.FuncOf([]reflect.Type{rt, reflect.SliceOf(rt)}, []reflect.Type{reflect.PointerTo(rt)}, true))
	})
	var x T52 = MkT52(0)
	var y T52 = MkT52(1)
	var z T52 = MkT52(0)
	var d T52 = MkT52(3)
	var e T52 = MkT52(4)
	w.Value("x", &x)
	w.Value("d", &d)
	w.Deep("xy", &x, &y)
	w.Deep("xz", &x, &z)
	w.Deep("de", &d, &e)
	w.Try("conv", func() { w.Conv("x", &x, partners) })
	w.Fmt("x", &x)
	w.Fmt("z", &z)
	w.ZeroFmt("t", rt)
	w.TypeCalls("d", &d)
	w.Calls("d", &d)
	_, _, _ = y, z, e
}

func U52() {
	w.Header("52", "N(struct{E:N/pvv(N);u:g.Box[N]`})")
	rt := reflect.TypeOf((*T53)(nil)).Elem()
	w.Try("type", func() { w.Type(rt) })
	partners := []reflect.Type{reflect.TypeOf((*p1.T25)(nil)).Elem(), reflect.TypeOf((*p0.T22)(nil)).Elem(), reflect.TypeOf((*p1.T36)(nil)).Elem()}
	w.Try("matrix", func() { w.Matrix(rt, partners) })
	w.Try("same", func() {
		w.Same("ptr", reflect.TypeOf((**T53)(nil)).Elem(), reflect.PointerTo(rt))
		w.Same("slice", reflect.TypeOf((*[]T53)(nil)).Elem(), reflect.SliceOf(rt))
		w.Same("array", reflect.TypeOf((*[3]T53)(nil)).Elem(), reflect.ArrayOf(3, rt))
		w.Same("chan", reflect.TypeOf((*<-chan T53)(nil)).Elem(), reflect.ChanOf(reflect.RecvDir, rt))
		w.Same("map", reflect.TypeOf((*map[string]T53)(nil)).Elem(), reflect.MapOf(reflect.TypeOf(""), rt))
		w.Same("func", reflect.TypeOf((*func(T53, ...T53) *T53)(nil)).Elem(), reflect.FuncOf([]reflect.Type{rt, reflect.SliceOf(rt)}, []reflect.Type{reflect.PointerTo(rt)}, true))
	})
	var x T53 = MkT53(0)
	var y T53 = MkT53(1)
	var z T53 = MkT53(0)
	var d T53 = MkT53(3)
	var e T53 = MkT53(3)
	w.Value("x", &x)
	w.Value("d", &d)
	w.Deep("xy", &x, &y)
	w.Deep("xz", &x, &z)
	w.Deep("de", &d, &e)
	w.Try("conv", func() { w.Conv("x", &x, partners) })
	w.Fmt("x", &x)
	w.Fmt("z", &z)
	w.ZeroFmt("t", rt)
	w.TypeCalls("d", &d)
	w.Calls("d", &d)
	_, _, _ = y, z, e
}

func U53() {
	w.Header("53", "N/pppv(int8)")
	rt := reflect.TypeOf((*T54)(nil)).Elem()
	w.Try("type", func() { w.Type(rt) })
	partners := []reflect.Type{reflect.TypeOf((*p1.T27)(nil)).Elem(), reflect.TypeOf((*p0.T17)(nil)).Elem(), reflect.TypeOf((*p0.T12)(nil)).Elem()}
	w.Try("matrix", func() { w.Matrix(rt, partners) })
	w.Try("same", func() {
		w.Same("ptr", reflect.TypeOf((**T54)(nil)).Elem(), reflect.PointerTo(rt))
		w.Same("slice", reflect.TypeOf((*[]T54)(nil)).Elem(), reflect.SliceOf(rt))
		w.Same("array", reflect.TypeOf((*[3]T54)(nil)).Elem(), reflect.ArrayOf(3, rt))
		w.Same("chan", reflect.TypeOf((*<-chan T54)(nil)).Elem(), reflect.ChanOf(reflect.RecvDir, rt))
		w.Same("map", reflect.TypeOf((*map[string]T54)(nil)).Elem(), reflect.MapOf(reflect.TypeOf(""), rt))
		w.Same("func", reflect.TypeOf((*func(T54, ...T54) *T54)(nil)).Elem(), reflect.FuncOf([]reflect.Type{rt, reflect.SliceOf(rt)}, []reflect.Type{reflect.PointerTo(rt)}, true))
	})
	var x T54 = MkT54(0)
	var y T54 = MkT54(1)
	var z T54 = MkT54(2)
	var d T54 = MkT54(3)
	var e T54 = MkT54(4)
	w.Value("x", &x)
	w.Value("d", &d)
	w.Deep("xy", &x, &y)
	w.Deep("xz", &x, &z)
	w.Deep("de", &d, &e)
	w.Try("conv", func() { w.Conv("x", &x, partners) })
	w.Fmt("x", &x)
	w.Fmt("z", &z)
	w.ZeroFmt("t", rt)
	w.TypeCalls("d", &d)
	w.Calls("d", &d)
	_, _, _ = y, z, e
}

func U54() {
	w.Header("54", "N/pp(bool)")
	rt := reflect.TypeOf((*T55)(nil)).Elem()
	w.Try("type", func() { w.Type(rt) })
	partners := []reflect.Type{reflect.TypeOf((*p1.T36)(nil)).Elem(), reflect.TypeOf((*p1.T28)(nil)).Elem(), reflect.TypeOf((*p0.T9)(nil)).Elem()}
	w.Try("matrix", func() { w.Matrix(rt, partners) })
	w.Try("same", func() {
		w.Same("ptr", reflect.TypeOf((**T55)(nil)).Elem(), reflect.PointerTo(rt))
		w.Same("slice", reflect.TypeOf((*[]T55)(nil)).Elem(), reflect.SliceOf(rt))
		w.Same("array", reflect.TypeOf((*[3]T55)(nil)).Elem(), reflect.ArrayOf(3, rt))
		w.Same("chan", reflect.TypeOf((*<-chan T55)(nil)).Elem(), reflect.ChanOf(reflect.RecvDir, rt))
		w.Same("map", reflect.TypeOf((*map[string]T55)(nil)).Elem(), reflect.MapOf(reflect.TypeOf(""), rt))
		w.Same("func", reflect.TypeOf((*func(T55, ...T55) *T55)(nil)).Elem(), reflect.FuncOf([]reflect.Type{rt, reflect.SliceOf(rt)}, []reflect.Type{reflect.PointerTo(rt)}, true))
	})
	var x T55 = MkT55(2)
	var y T55 = MkT55(0)
	var z T55 = MkT55(0)
	var d T55 = MkT55(3)
	var e T55 = MkT55(4)
	w.Value("x", &x)
	w.Value("d", &d)
	w.Deep("xy", &x, &y)
	w.Deep("xz", &x, &z)
	w.Deep("de", &d, &e)
	w.Try("conv", func() { w.Conv("x", &x, partners) })
	w.Fmt("x", &x)
	w.Fmt("z", &z)
	w.ZeroFmt("t", rt)
	w.TypeCalls("d", &d)
	w.Calls("d", &d)
	_, _, _ = y, z, e
}

func U55() {
	w.Header("55", "N(N(interface{3u}))")
	rt := reflect.TypeOf((*T56)(nil)).Elem()
	w.Try("type", func() { w.Type(rt) })
	partners := []reflect.Type{reflect.TypeOf((*p0.T2)(nil)).Elem(), reflect.TypeOf((*T50)(nil)).Elem(), reflect.TypeOf((*p0.T9)(nil)).Elem(), reflect.TypeOf((*p0.T4)(nil)).Elem()}
	w.Try("matrix", func() { w.Matrix(rt, partners) })
	w.Try("same", func() {
		w.Same("ptr", reflect.TypeOf((**T56)(nil)).Elem(), reflect.PointerTo(rt))
		w.Same("slice", reflect.TypeOf((*[]T56)(nil)).Elem(), reflect.SliceOf(rt))
		w.Same("array", reflect.TypeOf((*[3]T56)(nil)).Elem(), reflect.ArrayOf(3, rt))
		w.Same("chan", reflect.TypeOf((*<-chan T56)(nil)).Elem(), reflect.ChanOf(reflect.RecvDir, rt))
		w.Same("map", reflect.TypeOf((*map[string]T56)(nil)).Elem(), reflect.MapOf(reflect.TypeOf(""), rt))
		w.Same("func", reflect.TypeOf((*func(T56, ...T56) *T56)(nil)).Elem(), reflect.FuncOf([]reflect.Type{rt, reflect.SliceOf(rt)}, []reflect.Type{reflect.PointerTo(rt)}, true))
	})
	var x T56 = MkT56(0)
	var y T56 = MkT56(0)
	var z T56 = MkT56(2)
	var d T56 = MkT56(3)
	var e T56 = MkT56(3)
	w.Value("x", &x)
	w.Value("d", &d)
	w.Deep("xy", &x, &y)
	w.Deep("xz", &x, &z)
	w.Deep("de", &d, &e)
	w.Try("conv", func() { w.Conv("x", &x, partners) })
	w.Fmt("x", &x)
	w.Fmt("z", &z)
	w.ZeroFmt("t", rt)
	w.TypeCalls("d", &d)
	w.Calls("d", &d)
	_, _, _ = y, z, e
}

func U56() {
	w.Header("56", "N/pv(struct{u:map[string]N})")
	rt := reflect.TypeOf((*T57)(nil)).Elem()
	w.Try("type", func() { w.Type(rt) })
	partners := []reflect.Type{reflect.TypeOf((*p0.T16)(nil)).Elem(), reflect.TypeOf((*p1.T43)(nil)).Elem(), reflect.TypeOf((*p0.T2)(nil)).Elem()}
	w.Try("matrix", func() { w.Matrix(rt, partners) })
	w.Try("same", func() {
		w.Same("ptr", reflect.TypeOf((**T57)(nil)).Elem(), reflect.PointerTo(rt))
		w.Same("slice", reflect.TypeOf((*[]T57)(nil)).Elem(), reflect.SliceOf(rt))
		w.Same("array", reflect.TypeOf((*[3]T57)(nil)).Elem(), reflect.ArrayOf(3, rt))
		w.Same("chan", reflect.TypeOf((*<-chan T57)(nil)).Elem(), reflect.ChanOf(reflect.RecvDir, rt))
		w.Same("map", reflect.TypeOf((*map[string]T57)(nil)).Elem(), reflect.MapOf(reflect.TypeOf(""), rt))
		w.Same("func", reflect.TypeOf((*func(T57, ...T57) *T57)(nil)).Elem(), reflect.FuncOf([]reflect.Type{rt, reflect.SliceOf(rt)}, []reflect.Type{reflect.PointerTo(rt)}, true))
	})
	var x T57 = MkT57(2)
	var y T57 = MkT57(2)
	var z T57 = MkT57(0)
	var d T57 = MkT57(3)
	var e T57 = MkT57(3)
	w.Value("x", &x)
	w.Value("d", &d)
	w.Deep("xy", &x, &y)
	w.Deep("xz", &x, &z)
	w.Deep("de", &d, &e)
	w.Try("conv", func() { w.Conv("x", &x, partners) })
	w.Fmt("x", &x)
	w.Fmt("z", &z)
	w.ZeroFmt("t", rt)
	w.TypeCalls("d", &d)
	w.Calls("d", &d)
	_, _, _ = y, z, e
}

func U57() {
	w.Header("57", "N/pp(struct{E:N(interface{3u});g.Num[int8]})")
	rt := reflect.TypeOf((*T58)(nil)).Elem()
	w.Try("type", func() { w.Type(rt) })
	partners := []reflect.Type{reflect.TypeOf((*p1.T26)(nil)).Elem(), reflect.TypeOf((*p0.T15)(nil)).Elem(), reflect.TypeOf((*T50)(nil)).Elem()}
	w.Try("matrix", func() { w.Matrix(rt, partners) })
	w.Try("same", func() {
		w.Same("ptr", reflect.TypeOf((**T58)(nil)).Elem(), reflect.PointerTo(rt))
		w.Same("slice", reflect.TypeOf((*[]T58)(nil)).Elem(), reflect.SliceOf(rt))
		w.Same("array", reflect.TypeOf((*[3]T58)(nil)).Elem(), reflect.ArrayOf(3, rt))
		w.Same("chan", reflect.TypeOf((*<-chan T58)(nil)).Elem(), reflect.ChanOf(reflect.RecvDir, rt))
		w.Same("map", reflect.TypeOf((*map[string]T58)(nil)).Elem(), reflect.MapOf(reflect.TypeOf(""), rt))
		w.Same("func", reflect.TypeOf((*func(T58, ...T58) *T58)(nil)).Elem(), reflect.FuncOf([]reflect.Type{rt, reflect.SliceOf(rt)}, []reflect.Type{reflect.PointerTo(rt)}, true))
	})
	var x T58 = MkT58(0)
	var y T58 = MkT58(1)
	var z T58 = MkT58(0)
	var d T58 = MkT58(3)
	var e T58 = MkT58(4)
	w.Value("x", &x)
	w.Value("d", &d)
	w.Deep("xy", &x, &y)
	w.Deep("xz", &x, &z)
	w.Deep("de", &d, &e)
	w.Try("conv", func() { w.Conv("x", &x, partners) })
	w.Fmt("x", &x)
	w.Fmt("z", &z)
	w.TypeCalls("d", &d)
	w.Calls("d", &d)
	_, _, _ = y, z, e
}

func U58() {
	w.Header("58", "N/p(complex128)")
	rt := reflect.TypeOf((*T59)(nil)).Elem()
	w.Try("type", func() { w.Type(rt) })
	partners := []reflect.Type{reflect.TypeOf((*p1.T42)(nil)).Elem(), reflect.TypeOf((*p0.T13)(nil)).Elem(), reflect.TypeOf((*p1.T41)(nil)).Elem()}
	w.Try("matrix", func() { w.Matrix(rt, partners) })
	w.Try("same", func() {
		w.Same("ptr", reflect.TypeOf((**T59)(nil)).Elem(), reflect.PointerTo(rt))
		w.Same("slice", reflect.TypeOf((*[]T59)(nil)).Elem(), reflect.SliceOf(rt))
		w.Same("array", reflect.TypeOf((*[3]T59)(nil)).Elem(), reflect.ArrayOf(3, rt))
		w.Same("chan", reflect.TypeOf((*<-chan T59)(nil)).Elem(), reflect.ChanOf(reflect.RecvDir, rt))
		w.Same("map", reflect.TypeOf((*map[string]T59)(nil)).Elem(), reflect.MapOf(reflect.TypeOf(""), rt))
		w.Same("func", reflect.TypeOf((*func(T59, ...T59) *T59)(nil)).Elem(), reflect.FuncOf([]reflect.Type{rt, reflect.SliceOf(rt)}, []reflect.Type{reflect.PointerTo(rt)}, true))
	})
	var x T59 = MkT59(0)
	var y T59 = MkT59(1)
	var z T59 = MkT59(0)
	var d T59 = MkT59(3)
	var e T59 = MkT59(4)
	w.Value("x", &x)
	w.Value("d", &d)
	w.Deep("xy", &x, &y)
	w.Deep("xz", &x, &z)
	w.Deep("de", &d, &e)
	w.Try("conv", func() { w.Conv("x", &x, partners) })
	w.Fmt("x", &x)
	w.Fmt("z", &z)
	w.ZeroFmt("t", rt)
	w.TypeCalls("d", &d)
	w.Calls("d", &d)
	_, _, _ = y, z, e
}

func U59() {
	w.Header("59", "N/pppvv([]N/pppvv([]N))")
	rt := reflect.TypeOf((*T60)(nil)).Elem()
	w.Try("type", func() { w.Type(rt) })
	partners := []reflect.Type{reflect.TypeOf((*p0.T4)(nil)).Elem(), reflect.TypeOf((*p1.T35)(nil)).Elem(), reflect.TypeOf((*p0.T4)(nil)).Elem()}
	w.Try("matrix", func() { w.Matrix(rt, partners) })
	w.Try("same", func() {
		w.Same("ptr", reflect.TypeOf((**T60)(nil)).Elem(), reflect.PointerTo(rt))
		w.Same("slice", reflect.TypeOf((*[]T60)(nil)).Elem(), reflect.SliceOf(rt))
		w.Same("array", reflect.TypeOf((*[3]T60)(nil)).Elem(), reflect.ArrayOf(3, rt))
		w.Same("chan", reflect.TypeOf((*<-chan T60)(nil)).Elem(), reflect.ChanOf(reflect.RecvDir, rt))
		w.Same("map", reflect.TypeOf((*map[string]T60)(nil)).Elem(), reflect.MapOf(reflect.TypeOf(""), rt))
		w.Same("func", reflect.TypeOf((*func(T60, ...T60) *T60)(nil)).Elem(), reflect.FuncOf([]reflect.Type{rt, reflect.SliceOf(rt)}, []reflect.Type{reflect.PointerTo(rt)}, true))
	})
	var x T60 = MkT60(0)
	var y T60 = MkT60(0)
	var z T60 = MkT60(0)
	var d T60 = MkT60(3)
	var e T60 = MkT60(3)
	w.Value("x", &x)
	w.Value("d", &d)
	w.Deep("xy", &x, &y)
	w.Deep("xz", &x, &z)
	w.Deep("de", &d, &e)
	w.Try("conv", func() { w.Conv("x", &x, partners) })
	w.Fmt("x", &x)
	w.Fmt("z", &z)
	w.ZeroFmt("t", rt)
	w.TypeCalls("d", &d)
	w.Calls("d", &d)
	_, _, _ = y, z, e
}

func U60() {
	w.Header("60", "N(interface{1})")
	rt := reflect.TypeOf((*T61)(nil)).Elem()
	w.Try("type", func() { w.Type(rt) })
	partners := []reflect.Type{reflect.TypeOf((*p1.T45)(nil)).Elem(), reflect.TypeOf((*p0.T14)(nil)).Elem(), reflect.TypeOf((*p1.T34)(nil)).Elem()}
	w.Try("matrix", func() { w.Matrix(rt, partners) })
	w.Try("same", func() {
		w.Same("ptr", reflect.TypeOf((**T61)(nil)).Elem(), reflect.PointerTo(rt))
		w.Same("slice", reflect.TypeOf((*[]T61)(nil)).Elem(), reflect.SliceOf(rt))
		w.Same("array", reflect.TypeOf((*[3]T61)(nil)).Elem(), reflect.ArrayOf(3, rt))
		w.Same("chan", reflect.TypeOf((*<-chan T61)(nil)).Elem(), reflect.ChanOf(reflect.RecvDir, rt))
		w.Same("map", reflect.TypeOf((*map[string]T61)(nil)).Elem(), reflect.MapOf(reflect.TypeOf(""), rt))
		w.Same("func", reflect.TypeOf((*func(T61, ...T61) *T61)(nil)).Elem(), reflect.FuncOf([]reflect.Type{rt, reflect.SliceOf(rt)}, []reflect.Type{reflect.PointerTo(rt)}, true))
	})
	var x T61 = MkT61(0)
	var y T61 = MkT61(0)
	var z T61 = MkT61(2)
	var d T61 = MkT61(3)
	var e T61 = MkT61(3)
	w.Value("x", &x)
	w.Value("d", &d)
	w.Deep("xy", &x, &y)
	w.Deep("xz", &x, &z)
	w.Deep("de", &d, &e)
	w.Try("conv", func() { w.Conv("x", &x, partners) })
	w.Fmt("x", &x)
	w.Fmt("z", &z)
	w.ZeroFmt("t", rt)
	w.TypeCalls("d", &d)
	w.Calls("d", &d)
	_, _, _ = y, z, e
}

func U61() {
	w.Header("61", "N/ppp(struct{[]N`;E:u:string;N/pppv(int8)`;[n]struct{N;int32}`;u:g.Wrap[int]`})")
	rt := reflect.TypeOf((*T62)(nil)).Elem()
	w.Try("type", func() { w.Type(rt) })
	partners := []reflect.Type{reflect.TypeOf((*p1.T48)(nil)).Elem(), reflect.TypeOf((*p0.T4)(nil)).Elem(), reflect.TypeOf((*p1.T31)(nil)).Elem()}
	w.Try("matrix", func() { w.Matrix(rt, partners) })
	w.Try("same", func() {
		w.Same("ptr", reflect.TypeOf((**T62)(nil)).Elem(), reflect.PointerTo(rt))
		w.Same("slice", reflect.TypeOf((*[]T62)(nil)).Elem(), reflect.SliceOf(rt))
		w.Same("array", reflect.TypeOf((*[3]T62)(nil)).Elem(), reflect.ArrayOf(3, rt))
		w.Same("chan", reflect.TypeOf((*<-chan T62)(nil)).Elem(), reflect.ChanOf(reflect.RecvDir, rt))
		w.Same("map", reflect.TypeOf((*map[string]T62)(nil)).Elem(), reflect.MapOf(reflect.TypeOf(""), rt))
		w.Same("func", reflect.TypeOf((*func(T62, ...T62) *T62)(nil)).Elem(), reflect.FuncOf([]reflect.Type{rt, reflect.SliceOf(rt)}, []reflect.Type{reflect.PointerTo(rt)}, true))
	})
	var x T62 = MkT62(2)
	var y T62 = MkT62(0)
	var z T62 = MkT62(0)
	var d T62 = MkT62(3)
	var e T62 = MkT62(4)
	w.Value("x", &x)
	w.Value("d", &d)
	w.Deep("xy", &x, &y)
	w.Deep("xz", &x, &z)
	w.Deep("de", &d, &e)
	w.Try("conv", func() { w.Conv("x", &x, partners) })
	w.Fmt("x", &x)
	w.Fmt("z", &z)
	w.ZeroFmt("t", rt)
	w.TypeCalls("d", &d)
	w.Calls("d", &d)
	_, _, _ = y, z, e
}

func U62() {
	w.Header("62", "N(struct{E:N/pp(bool);E:g.Num[N];u:struct{float64;E:u:bool;uint;E:N;uint64};[][0]N})")
	rt := reflect.TypeOf((*T63)(nil)).Elem()
	w.Try("type", func() { w.Type(rt) })
	partners := []reflect.Type{reflect.TypeOf((*p1.T38)(nil)).Elem(), reflect.TypeOf((*p0.T9)(nil)).Elem(), reflect.TypeOf((*T58)(nil)).Elem()}
	w.Try("matrix", func() { w.Matrix(rt, partners) })
	w.Try("same", func() {
		w.Same("ptr", reflect.TypeOf((**T63)(nil)).Elem(), reflect.PointerTo(rt))
		w.Same("slice", reflect.TypeOf((*[]T63)(nil)).Elem(), reflect.SliceOf(rt))
		w.Same("array", reflect.TypeOf((*[3]T63)(nil)).Elem(), reflect.ArrayOf(3, rt))
		w.Same("chan", reflect.TypeOf((*<-chan T63)(nil)).Elem(), reflect.ChanOf(reflect.RecvDir, rt))
		w.Same("map", reflect.TypeOf((*map[string]T63)(nil)).Elem(), reflect.MapOf(reflect.TypeOf(""), rt))
		w.Same("func", reflect.TypeOf((*func(T63, ...T63) *T63)(nil)).Elem(), reflect.FuncOf([]reflect.Type{rt, reflect.SliceOf(rt)}, []reflect.Type{reflect.PointerTo(rt)}, true))
	})
	var x T63 = MkT63(0)
	var y T63 = MkT63(1)
	var z T63 = MkT63(2)
	var d T63 = MkT63(3)
	var e T63 = MkT63(4)
	w.Value("x", &x)
	w.Value("d", &d)
	w.Deep("xy", &x, &y)
	w.Deep("xz", &x, &z)
	w.Deep("de", &d, &e)
	w.Try("conv", func() { w.Conv("x", &x, partners) })
	w.Fmt("x", &x)
	w.Fmt("z", &z)
	w.ZeroFmt("t", rt)
	w.TypeCalls("d", &d)
	w.Calls("d", &d)
	_, _, _ = y, z, e
}

func U63() {
	w.Header("63", "N/pvvv(g.Box[N/pppp(struct{map[string]N;N})])")
	rt := reflect.TypeOf((*T64)(nil)).Elem()
	w.Try("type", func() { w.Type(rt) })
	partners := []reflect.Type{reflect.TypeOf((*T62)(nil)).Elem(), reflect.TypeOf((*T62)(nil)).Elem(), reflect.TypeOf((*p0.T12)(nil)).Elem()}
	w.Try("matrix", func() { w.Matrix(rt, partners) })
	w.Try("same", func() {
		w.Same("ptr", reflect.TypeOf((**T64)(nil)).Elem(), reflect.PointerTo(rt))
		w.Same("slice", reflect.TypeOf((*[]T64)(nil)).Elem(), reflect.SliceOf(rt))
		w.Same("array", reflect.TypeOf((*[3]T64)(nil)).Elem(), reflect.ArrayOf(3, rt))
		w.Same("chan", reflect.TypeOf((*<-chan T64)(nil)).Elem(), reflect.ChanOf(reflect.RecvDir, rt))
		w.Same("map", reflect.TypeOf((*map[string]T64)(nil)).Elem(), reflect.MapOf(reflect.TypeOf(""), rt))
		w.Same("func", reflect.TypeOf((*func(T64, ...T64) *T64)(nil)).Elem(), reflect.FuncOf([]reflect.Type{rt, reflect.SliceOf(rt)}, []reflect.Type{reflect.PointerTo(rt)}, true))
	})
	var x T64 = MkT64(2)
	var y T64 = MkT64(0)
	var z T64 = MkT64(0)
	var d T64 = MkT64(3)
	var e T64 = MkT64(4)
	w.Value("x", &x)
	w.Value("d", &d)
	w.Deep("xy", &x, &y)
	w.Deep("xz", &x, &z)
	w.Deep("de", &d, &e)
	w.Try("conv", func() { w.Conv("x", &x, partners) })
	w.Fmt("x", &x)
	w.Fmt("z", &z)
	w.ZeroFmt("t", rt)
	w.TypeCalls("d", &d)
	w.Calls("d", &d)
	_, _, _ = y, z, e
}

func U64() {
	w.Header("64", "N(uint16)")
	rt := reflect.TypeOf((*T65)(nil)).Elem()
	w.Try("type", func() { w.Type(rt) })
	partners := []reflect.Type{reflect.TypeOf((*p1.T40)(nil)).Elem(), reflect.TypeOf((*p0.T9)(nil)).Elem(), reflect.TypeOf((*p1.T44)(nil)).Elem()}
	w.Try("matrix", func() { w.Matrix(rt, partners) })
	w.Try("same", func() {
		w.Same("ptr", reflect.TypeOf((**T65)(nil)).Elem(), reflect.PointerTo(rt))
		w.Same("slice", reflect.TypeOf((*[]T65)(nil)).Elem(), reflect.SliceOf(rt))
		w.Same("array", reflect.TypeOf((*[3]T65)(nil)).Elem(), reflect.ArrayOf(3, rt))
		w.Same("chan", reflect.TypeOf((*<-chan T65)(nil)).Elem(), reflect.ChanOf(reflect.RecvDir, rt))
		w.Same("map", reflect.TypeOf((*map[string]T65)(nil)).Elem(), reflect.MapOf(reflect.TypeOf(""), rt))
		w.Same("func", reflect.TypeOf((*func(T65, ...T65) *T65)(nil)).Elem(), reflect.FuncOf([]reflect.Type{rt, reflect.SliceOf(rt)}, []reflect.Type{reflect.PointerTo(rt)}, true))
	})
	var x T65 = MkT65(0)
	var y T65 = MkT65(1)
	var z T65 = MkT65(0)
	var d T65 = MkT65(3)
	var e T65 = MkT65(4)
	w.Value("x", &x)
	w.Value("d", &d)
	w.Deep("xy", &x, &y)
	w.Deep("xz", &x, &z)
	w.Deep("de", &d, &e)
	w.Try("conv", func() { w.Conv("x", &x, partners) })
	w.Fmt("x", &x)
	w.Fmt("z", &z)
	w.ZeroFmt("t", rt)
	w.TypeCalls("d", &d)
	w.Calls("d", &d)
	_, _, _ = y, z, e
}

func U65() {
	w.Header("65", "N/ppppp(N/ppvv(struct{int64`;int}))")
	rt := reflect.TypeOf((*T66)(nil)).Elem()
	w.Try("type", func() { w.Type(rt) })
	partners := []reflect.Type{reflect.TypeOf((*p1.T48)(nil)).Elem(), reflect.TypeOf((*p0.T9)(nil)).Elem(), reflect.TypeOf((*p1.T43)(nil)).Elem(), reflect.TypeOf((*p1.T37)(nil)).Elem()}
	w.Try("matrix", func() { w.Matrix(rt, partners) })
	w.Try("same", func() {
		w.Same("ptr", reflect.TypeOf((**T66)(nil)).Elem(), reflect.PointerTo(rt))
		w.Same("slice", reflect.TypeOf((*[]T66)(nil)).Elem(), reflect.SliceOf(rt))
		w.Same("array", reflect.TypeOf((*[3]T66)(nil)).Elem(), reflect.ArrayOf(3, rt))
		w.Same("chan", reflect.TypeOf((*<-chan T66)(nil)).Elem(), reflect.ChanOf(reflect.RecvDir, rt))
		w.Same("map", reflect.TypeOf((*map[string]T66)(nil)).Elem(), reflect.MapOf(reflect.TypeOf(""), rt))
		w.Same("func", reflect.TypeOf((*func(T66, ...T66) *T66)(nil)).Elem(), reflect.FuncOf([]reflect.Type{rt, reflect.SliceOf(rt)}, []reflect.Type{reflect.PointerTo(rt)}, true))
	})
	var x T66 = MkT66(0)
	var y T66 = MkT66(1)
	var z T66 = MkT66(0)
	var d T66 = MkT66(3)
	var e T66 = MkT66(4)
	w.Value("x", &x)
	w.Value("d", &d)
	w.Deep("xy", &x, &y)
	w.Deep("xz", &x, &z)
	w.Deep("de", &d, &e)
	w.Try("conv", func() { w.Conv("x", &x, partners) })
	w.Fmt("x", &x)
	w.Fmt("z", &z)
	w.ZeroFmt("t", rt)
	w.TypeCalls("d", &d)
	w.Calls("d", &d)
	_, _, _ = y, z, e
}

func U66() {
	w.Header("66", "N(struct{N(N);E:u:error;N/vvvvvu(map[N]N)`;u:[n]chan<-N`;E:*g.Wrap[N]})")
	rt := reflect.TypeOf((*T67)(nil)).Elem()
	w.Try("type", func() { w.Type(rt) })
	partners := []reflect.Type{reflect.TypeOf((*T52)(nil)).Elem(), reflect.TypeOf((*p0.T20)(nil)).Elem(), reflect.TypeOf((*p0.T17)(nil)).Elem()}
	w.Try("matrix", func() { w.Matrix(rt, partners) })
	w.Try("same", func() {
		w.Same("ptr", reflect.TypeOf((**T67)(nil)).Elem(), reflect.PointerTo(rt))
		w.Same("slice", reflect.TypeOf((*[]T67)(nil)).Elem(), reflect.SliceOf(rt))
		w.Same("array", reflect.TypeOf((*[3]T67)(nil)).Elem(), reflect.ArrayOf(3, rt))
		w.Same("chan", reflect.TypeOf((*<-chan T67)(nil)).Elem(), reflect.ChanOf(reflect.RecvDir, rt))
		w.Same("map", reflect.TypeOf((*map[string]T67)(nil)).Elem(), reflect.MapOf(reflect.TypeOf(""), rt))
		w.Same("func", reflect.TypeOf((*func(T67, ...T67) *T67)(nil)).Elem(), reflect.FuncOf([]reflect.Type{rt, reflect.SliceOf(rt)}, []reflect.Type{reflect.PointerTo(rt)}, true))
	})
	var x T67 = MkT67(0)
	var y T67 = MkT67(1)
	var z T67 = MkT67(0)
	var d T67 = MkT67(3)
	var e T67 = MkT67(4)
	w.Value("x", &x)
	w.Value("d", &d)
	w.Deep("xy", &x, &y)
	w.Deep("xz", &x, &z)
	w.Deep("de", &d, &e)
	w.Try("conv", func() { w.Conv("x", &x, partners) })
	w.Fmt("x", &x)
	w.Fmt("z", &z)
	w.TypeCalls("d", &d)
	w.Calls("d", &d)
	_, _, _ = y, z, e
}

func U67() {
	w.Header("67", "N(chancomplex128)")
	rt := reflect.TypeOf((*T68)(nil)).Elem()
	w.Try("type", func() { w.Type(rt) })
	partners := []reflect.Type{reflect.TypeOf((*T50)(nil)).Elem(), reflect.TypeOf((*p0.T14)(nil)).Elem(), reflect.TypeOf((*p1.T34)(nil)).Elem()}
	w.Try("matrix", func() { w.Matrix(rt, partners) })
	w.Try("same", func() {
		w.Same("ptr", reflect.TypeOf((**T68)(nil)).Elem(), reflect.PointerTo(rt))
		w.Same("slice", reflect.TypeOf((*[]T68)(nil)).Elem(), reflect.SliceOf(rt))
		w.Same("array", reflect.TypeOf((*[3]T68)(nil)).Elem(), reflect.ArrayOf(3, rt))
		w.Same("chan", reflect.TypeOf((*<-chan T68)(nil)).Elem(), reflect.ChanOf(reflect.RecvDir, rt))
		w.Same("map", reflect.TypeOf((*map[string]T68)(nil)).Elem(), reflect.MapOf(reflect.TypeOf(""), rt))
		w.Same("func", reflect.TypeOf((*func(T68, ...T68) *T68)(nil)).Elem(), reflect.FuncOf([]reflect.Type{rt, reflect.SliceOf(rt)}, []reflect.Type{reflect.PointerTo(rt)}, true))
	})
	var x T68 = MkT68(0)
	var y T68 = MkT68(0)
	var z T68 = MkT68(2)
	var d T68 = MkT68(3)
	var e T68 = MkT68(3)
	w.Value("x", &x)
	w.Value("d", &d)
	w.Deep("xy", &x, &y)
	w.Deep("xz", &x, &z)
	w.Deep("de", &d, &e)
	w.Try("conv", func() { w.Conv("x", &x, partners) })
	w.Fmt("x", &x)
	w.Fmt("z", &z)
	w.ZeroFmt("t", rt)
	w.TypeCalls("d", &d)
	w.Calls("d", &d)
	_, _, _ = y, z, e
}

func U68() {
	w.Header("68", "N/pv(struct{E:*g.List[int32];map[int8]chanfloat64})")
	rt := reflect.TypeOf((*T69)(nil)).Elem()
	w.Try("type", func() { w.Type(rt) })
	partners := []reflect.Type{reflect.TypeOf((*T62)(nil)).Elem(), reflect.TypeOf((*p1.T30)(nil)).Elem(), reflect.TypeOf((*T59)(nil)).Elem()}
	w.Try("matrix", func() { w.Matrix(rt, partners) })
	w.Try("same", func() {
		w.Same("ptr", reflect.TypeOf((**T69)(nil)).Elem(), reflect.PointerTo(rt))
		w.Same("slice", reflect.TypeOf((*[]T69)(nil)).Elem(), reflect.SliceOf(rt))
		w.Same("array", reflect.TypeOf((*[3]T69)(nil)).Elem(), reflect.ArrayOf(3, rt))
		w.Same("chan", reflect.TypeOf((*<-chan T69)(nil)).Elem(), reflect.ChanOf(reflect.RecvDir, rt))
		w.Same("map", reflect.TypeOf((*map[string]T69)(nil)).Elem(), reflect.MapOf(reflect.TypeOf(""), rt))
		w.Same("func", reflect.TypeOf((*func(T69, ...T69) *T69)(nil)).Elem(), reflect.FuncOf([]reflect.Type{rt, reflect.SliceOf(rt)}, []reflect.Type{reflect.PointerTo(rt)}, true))
	})
	var x T69 = MkT69(2)
	var y T69 = MkT69(2)
	var z T69 = MkT69(0)
	var d T69 = MkT69(3)
	var e T69 = MkT69(4)
	w.Value("x", &x)
	w.Value("d", &d)
	w.Deep("xy", &x, &y)
	w.Deep("xz", &x, &z)
	w.Deep("de", &d, &e)
	w.Try("conv", func() { w.Conv("x", &x, partners) })
	w.Fmt("x", &x)
	w.Fmt("z", &z)
	w.ZeroFmt("t", rt)
	w.TypeCalls("d", &d)
	w.Calls("d", &d)
	_, _, _ = y, z, e
}

func U69() {
	w.Header("69", "N/pppppu(string)")
	rt := reflect.TypeOf((*T70)(nil)).Elem()
	w.Try("type", func() { w.Type(rt) })
	partners := []reflect.Type{reflect.TypeOf((*p1.T29)(nil)).Elem(), reflect.TypeOf((*p0.T6)(nil)).Elem(), reflect.TypeOf((*T68)(nil)).Elem()}
	w.Try("matrix", func() { w.Matrix(rt, partners) })
	w.Try("same", func() {
		w.Same("ptr", reflect.TypeOf((**T70)(nil)).Elem(), reflect.PointerTo(rt))
		w.Same("slice", reflect.TypeOf((*[]T70)(nil)).Elem(), reflect.SliceOf(rt))
		w.Same("array", reflect.TypeOf((*[3]T70)(nil)).Elem(), reflect.ArrayOf(3, rt))
		w.Same("chan", reflect.TypeOf((*<-chan T70)(nil)).Elem(), reflect.ChanOf(reflect.RecvDir, rt))
		w.Same("map", reflect.TypeOf((*map[string]T70)(nil)).Elem(), reflect.MapOf(reflect.TypeOf(""), rt))
		w.Same("func", reflect.TypeOf((*func(T70, ...T70) *T70)(nil)).Elem(), reflect.FuncOf([]reflect.Type{rt, reflect.SliceOf(rt)}, []reflect.Type{reflect.PointerTo(rt)}, true))
	})
	var x T70 = MkT70(0)
	var y T70 = MkT70(1)
	var z T70 = MkT70(0)
	var d T70 = MkT70(3)
	var e T70 = MkT70(4)
	w.Value("x", &x)
	w.Value("d", &d)
	w.Deep("xy", &x, &y)
	w.Deep("xz", &x, &z)
	w.Deep("de", &d, &e)
	w.Try("conv", func() { w.Conv("x", &x, partners) })
	w.Fmt("x", &x)
	w.Fmt("z", &z)
	w.ZeroFmt("t", rt)
	w.TypeCalls("d", &d)
	w.Calls("d", &d)
	_, _, _ = y, z, e
}

func U70() {
	w.Header("70", "N([0]N/puvv(uint8))")
	rt := reflect.TypeOf((*T71)(nil)).Elem()
	w.Try("type", func() { w.Type(rt) })
	partners := []reflect.Type{reflect.TypeOf((*p1.T35)(nil)).Elem(), reflect.TypeOf((*p1.T47)(nil)).Elem(), reflect.TypeOf((*p0.T9)(nil)).Elem()}
	w.Try("matrix", func() { w.Matrix(rt, partners) })
	w.Try("same", func() {
		w.Same("ptr", reflect.TypeOf((**T71)(nil)).Elem(), reflect.PointerTo(rt))
		w.Same("slice", reflect.TypeOf((*[]T71)(nil)).Elem(), reflect.SliceOf(rt))
		w.Same("array", reflect.TypeOf((*[3]T71)(nil)).Elem(), reflect.ArrayOf(3, rt))
		w.Same("chan", reflect.TypeOf((*<-chan T71)(nil)).Elem(), reflect.ChanOf(reflect.RecvDir, rt))
		w.Same("map", reflect.TypeOf((*map[string]T71)(nil)).Elem(), reflect.MapOf(reflect.TypeOf(""), rt))
		w.Same("func", reflect.TypeOf((*func(T71, ...T71) *T71)(nil)).Elem(), reflect.FuncOf([]reflect.Type{rt, reflect.SliceOf(rt)}, []reflect.Type{reflect.PointerTo(rt)}, true))
	})
	var x T71 = MkT71(0)
	var y T71 = MkT71(0)
	var z T71 = MkT71(2)
	var d T71 = MkT71(3)
	var e T71 = MkT71(3)
	w.Value("x", &x)
	w.Value("d", &d)
	w.Deep("xy", &x, &y)
	w.Deep("xz", &x, &z)
	w.Deep("de", &d, &e)
	w.Try("conv", func() { w.Conv("x", &x, partners) })
	w.Fmt("x", &x)
	w.Fmt("z", &z)
	w.ZeroFmt("t", rt)
	w.TypeCalls("d", &d)
	w.Calls("d", &d)
	_, _, _ = y, z, e
}

func U71() {
	w.Header("71", "N(chanstruct{E:N;u:N;bool})")
	rt := reflect.TypeOf((*T72)(nil)).Elem()
	w.Try("type", func() { w.Type(rt) })
	partners := []reflect.Type{reflect.TypeOf((*p1.T35)(nil)).Elem(), reflect.TypeOf((*T69)(nil)).Elem(), reflect.TypeOf((*T49)(nil)).Elem()}
	w.Try("matrix", func() { w.Matrix(rt, partners) })
	w.Try("same", func() {
		w.Same("ptr", reflect.TypeOf((**T72)(nil)).Elem(), reflect.PointerTo(rt))
		w.Same("slice", reflect.TypeOf((*[]T72)(nil)).Elem(), reflect.SliceOf(rt))
		w.Same("array", reflect.TypeOf((*[3]T72)(nil)).Elem(), reflect.ArrayOf(3, rt))
		w.Same("chan", reflect.TypeOf((*<-chan T72)(nil)).Elem(), reflect.ChanOf(reflect.RecvDir, rt))
		w.Same("map", reflect.TypeOf((*map[string]T72)(nil)).Elem(), reflect.MapOf(reflect.TypeOf(""), rt))
		w.Same("func", reflect.TypeOf((*func(T72, ...T72) *T72)(nil)).Elem(), reflect.FuncOf([]reflect.Type{rt, reflect.SliceOf(rt)}, []reflect.Type{reflect.PointerTo(rt)}, true))
	})
	var x T72 = MkT72(2)
	var y T72 = MkT72(2)
	var z T72 = MkT72(0)
	var d T72 = MkT72(3)
	var e T72 = MkT72(3)
	w.Value("x", &x)
	w.Value("d", &d)
	w.Deep("xy", &x, &y)
	w.Deep("xz", &x, &z)
	w.Deep("de", &d, &e)
	w.Try("conv", func() { w.Conv("x", &x, partners) })
	w.Fmt("x", &x)
	w.Fmt("z", &z)
	w.ZeroFmt("t", rt)
	w.TypeCalls("d", &d)
	w.Calls("d", &d)
	_, _, _ = y, z, e
}

func U75() {
	w.Header("75", "g.Wrap[bool]")
	rt := reflect.TypeOf((*g.Wrap[bool])(nil)).Elem()
	w.Try("type", func() { w.Type(rt) })
	partners := []reflect.Type{reflect.TypeOf((*T72)(nil)).Elem(), reflect.TypeOf((*p0.T5)(nil)).Elem(), reflect.TypeOf((*p0.T14)(nil)).Elem()}
	w.Try("matrix", func() { w.Matrix(rt, partners) })
	w.Try("same", func() {
		w.Same("ptr", reflect.TypeOf((**g.Wrap[bool])(nil)).Elem(), reflect.PointerTo(rt))
		w.Same("slice", reflect.TypeOf((*[]g.Wrap[bool])(nil)).Elem(), reflect.SliceOf(rt))
		w.Same("array", reflect.TypeOf((*[3]g.Wrap[bool])(nil)).Elem(), reflect.ArrayOf(3, rt))
		w.Same("chan", reflect.TypeOf((*<-chan g.Wrap[bool])(nil)).Elem(), reflect.ChanOf(reflect.RecvDir, rt))
		w.Same("map", reflect.TypeOf((*map[string]g.Wrap[bool])(nil)).Elem(), reflect.MapOf(reflect.TypeOf(""), rt))
		w.Same("func", reflect.TypeOf((*func(g.Wrap[bool], ...g.Wrap[bool]) *g.Wrap[bool])(nil)).Elem(), reflect.FuncOf([]reflect.Type{rt, reflect.SliceOf(rt)}, []reflect.Type{reflect.PointerTo(rt)}, true))
	})
	var x g.Wrap[bool] = g.MkWrap[bool](bool(true), -30000, "héllo")
	var y g.Wrap[bool] = g.MkWrap[bool](bool(true), -29999, "héllo")
	var z g.Wrap[bool] = g.MkWrap[bool](bool(false), -30000, "héllo")
	var d g.Wrap[bool] = g.MkWrap[bool](bool(true), 42, "a")
	var e g.Wrap[bool] = g.MkWrap[bool](bool(true), 42, "a~")
	w.Value("x", &x)
	w.Value("d", &d)
	w.Deep("xy", &x, &y)
	w.Deep("xz", &x, &z)
	w.Deep("de", &d, &e)
	w.Try("conv", func() { w.Conv("x", &x, partners) })
	w.Fmt("x", &x)
	w.Fmt("z", &z)
	w.ZeroFmt("t", rt)
	w.TypeCalls("d", &d)
	w.Calls("d", &d)
	_, _, _ = y, z, e
}

func U76() {
	w.Header("76", "map[int8]interface{0}")
	rt := reflect.TypeOf((*map[int8]interface{})(nil)).Elem()
	w.Try("type", func() { w.Type(rt) })
	partners := []reflect.Type{reflect.TypeOf((*p1.T44)(nil)).Elem(), reflect.TypeOf((*p0.T6)(nil)).Elem(), reflect.TypeOf((*T55)(nil)).Elem()}
	w.Try("matrix", func() { w.Matrix(rt, partners) })
	w.Try("same", func() {
		w.Same("ptr", reflect.TypeOf((**map[int8]interface{})(nil)).Elem(), reflect.PointerTo(rt))
		w.Same("slice", reflect.TypeOf((*[]map[int8]interface{})(nil)).Elem(), reflect.SliceOf(rt))
		w.Same("array", reflect.TypeOf((*[3]map[int8]interface{})(nil)).Elem(), reflect.ArrayOf(3, rt))
		w.Same("chan", reflect.TypeOf((*<-chan map[int8]interface{})(nil)).Elem(), reflect.ChanOf(reflect.RecvDir, rt))
		w.Same("map", reflect.TypeOf((*map[string]map[int8]interface{})(nil)).Elem(), reflect.MapOf(reflect.TypeOf(""), rt))
		w.Same("func", reflect.TypeOf((*func(map[int8]interface{}, ...map[int8]interface{}) *map[int8]interface{})(nil)).Elem(), reflect.FuncOf([]reflect.Type{rt, reflect.SliceOf(rt)}, []reflect.Type{reflect.PointerTo(rt)}, true))
	})
	var x map[int8]interface{} = map[int8]interface{}{int8(1): interface{}(string("hi"))}
	var y map[int8]interface{} = map[int8]interface{}{int8(1): interface{}(string("hi~"))}
	var z map[int8]interface{} = map[int8]interface{}{int8(1): interface{}(int64(2147483646)), int8(2): interface{}(p0.MkT1(2))}
	var d map[int8]interface{} = map[int8]interface{}{int8(1): interface{}(float64(0.0025))}
	var e map[int8]interface{} = map[int8]interface{}{int8(1): interface{}(float64(0.5025))}
	w.Value("x", &x)
	w.Value("d", &d)
	w.Deep("xy", &x, &y)
	w.Deep("xz", &x, &z)
	w.Deep("de", &d, &e)
	w.Try("conv", func() { w.Conv("x", &x, partners) })
	w.Fmt("x", &x)
	w.Fmt("z", &z)
	w.ZeroFmt("t", rt)
	w.TypeCalls("d", &d)
	w.Calls("d", &d)
	_, _, _ = y, z, e
}

func U78() {
	w.Header("78", "map[int8]N/pppv(int8)")
	rt := reflect.TypeOf((*map[int8]T54)(nil)).Elem()
	w.Try("type", func() { w.Type(rt) })
	partners := []reflect.Type{reflect.TypeOf((*T54)(nil)).Elem(), reflect.TypeOf((*T70)(nil)).Elem(), reflect.TypeOf((*p0.T18)(nil)).Elem()}
	w.Try("matrix", func() { w.Matrix(rt, partners) })
	w.Try("same", func() {
		w.Same("ptr", reflect.TypeOf((**map[int8]T54)(nil)).Elem(), reflect.PointerTo(rt))
		w.Same("slice", reflect.TypeOf((*[]map[int8]T54)(nil)).Elem(), reflect.SliceOf(rt))
		w.Same("array", reflect.TypeOf((*[3]map[int8]T54)(nil)).Elem(), reflect.ArrayOf(3, rt))
		w.Same("chan", reflect.TypeOf((*<-chan map[int8]T54)(nil)).Elem(), reflect.ChanOf(reflect.RecvDir, rt))
		w.Same("map", reflect.TypeOf((*map[string]map[int8]T54)(nil)).Elem(), reflect.MapOf(reflect.TypeOf(""), rt))
		w.Same("func", reflect.TypeOf((*func(map[int8]T54, ...map[int8]T54) *map[int8]T54)(nil)).Elem(), reflect.FuncOf([]reflect.Type{rt, reflect.SliceOf(rt)}, []reflect.Type{reflect.PointerTo(rt)}, true))
	})
	var x map[int8]T54 = map[int8]T54{int8(1): MkT54(0)}
	var y map[int8]T54 = map[int8]T54{int8(1): MkT54(1)}
	var z map[int8]T54 = map[int8]T54{int8(1): MkT54(2)}
	var d map[int8]T54 = map[int8]T54(nil)
	var e map[int8]T54 = map[int8]T54(nil)
	w.Value("x", &x)
	w.Value("d", &d)
	w.Deep("xy", &x, &y)
	w.Deep("xz", &x, &z)
	w.Deep("de", &d, &e)
	w.Try("conv", func() { w.Conv("x", &x, partners) })
	w.Fmt("x", &x)
	w.Fmt("z", &z)
	w.ZeroFmt("t", rt)
	w.TypeCalls("d", &d)
	w.Calls("d", &d)
	_, _, _ = y, z, e
}

func U79() {
	w.Header("79", "struct{u:uint16;*N/vvvvvu(map[N]N)}")
	rt := reflect.TypeOf((*struct { f0 uint16; F1 *p1.T42 })(nil)).Elem()
	w.Try("type", func() { w.Type(rt) })
	partners := []reflect.Type{reflect.TypeOf((*p0.T16)(nil)).Elem(), reflect.TypeOf((*map[int8]T54)(nil)).Elem(), reflect.TypeOf((*p0.T5)(nil)).Elem()}
	w.Try("matrix", func() { w.Matrix(rt, partners) })
	w.Try("same", func() {
		w.Same("ptr", reflect.TypeOf((**struct { f0 uint16; F1 *p1.T42 })(nil)).Elem(), reflect.PointerTo(rt))
		w.Same("slice", reflect.TypeOf((*[]struct { f0 uint16; F1 *p1.T42 })(nil)).Elem(), reflect.SliceOf(rt))
		w.Same("array", reflect.TypeOf((*[3]struct { f0 uint16; F1 *p1.T42 })(nil)).Elem(), reflect.ArrayOf(3, rt))
		w.Same("chan", reflect.TypeOf((*<-chan struct { f0 uint16; F1 *p1.T42 })(nil)).Elem(), reflect.ChanOf(reflect.RecvDir, rt))
		w.Same("map", reflect.TypeOf((*map[string]struct { f0 uint16; F1 *p1.T42 })(nil)).Elem(), reflect.MapOf(reflect.TypeOf(""), rt))
		w.Same("func", reflect.TypeOf((*func(struct { f0 uint16; F1 *p1.T42 }, ...struct { f0 uint16; F1 *p1.T42 }) *struct { f0 uint16; F1 *p1.T42 })(nil)).Elem(), reflect.FuncOf([]reflect.Type{rt, reflect.SliceOf(rt)}, []reflect.Type{reflect.PointerTo(rt)}, true))
	})
	var x struct { f0 uint16; F1 *p1.T42 } = struct { f0 uint16; F1 *p1.T42 }{f0: uint16(7), F1: (*p1.T42)(nil)}
	var y struct { f0 uint16; F1 *p1.T42 } = struct { f0 uint16; F1 *p1.T42 }{f0: uint16(8), F1: (*p1.T42)(nil)}
	var z struct { f0 uint16; F1 *p1.T42 } = struct { f0 uint16; F1 *p1.T42 }{f0: uint16(0), F1: (*p1.T42)(nil)}
	var d struct { f0 uint16; F1 *p1.T42 } = struct { f0 uint16; F1 *p1.T42 }{f0: uint16(65534), F1: w.Ptr(p1.MkT42(3))}
	var e struct { f0 uint16; F1 *p1.T42 } = struct { f0 uint16; F1 *p1.T42 }{f0: uint16(65535), F1: w.Ptr(p1.MkT42(3))}
	w.Value("x", &x)
	w.Value("d", &d)
	w.Deep("xy", &x, &y)
	w.Deep("xz", &x, &z)
	w.Deep("de", &d, &e)
	w.Try("conv", func() { w.Conv("x", &x, partners) })
	w.P("F skipped: nil pointers or interfaces on the path of a promoted fmt method")
	w.TypeCalls("d", &d)
	w.Calls("d", &d)
	_, _, _ = y, z, e
}

func U81() {
	w.Header("81", "func(*N(struct{struct`}))(uint8,int16)")
	rt := reflect.TypeOf((*func(*p1.T39) (uint8, int16))(nil)).Elem()
	w.Try("type", func() { w.Type(rt) })
	partners := []reflect.Type{reflect.TypeOf((*p0.T14)(nil)).Elem(), reflect.TypeOf((*fmt.Stringer)(nil)).Elem(), reflect.TypeOf((*p0.T3)(nil)).Elem()}
	w.Try("matrix", func() { w.Matrix(rt, partners) })
	w.Try("same", func() {
		w.Same("slice", reflect.TypeOf((*[]func(*p1.T39) (uint8, int16))(nil)).Elem(), reflect.SliceOf(rt))
		w.Same("array", reflect.TypeOf((*[3]func(*p1.T39) (uint8, int16))(nil)).Elem(), reflect.ArrayOf(3, rt))
		w.Same("chan", reflect.TypeOf((*<-chan func(*p1.T39) (uint8, int16))(nil)).Elem(), reflect.ChanOf(reflect.RecvDir, rt))
		w.Same("map", reflect.TypeOf((*map[string]func(*p1.T39) (uint8, int16))(nil)).Elem(), reflect.MapOf(reflect.TypeOf(""), rt))
	})
	var x func(*p1.T39) (uint8, int16) = (func(*p1.T39) (uint8, int16))(nil)
	var y func(*p1.T39) (uint8, int16) = (func(*p1.T39) (uint8, int16))(nil)
	var z func(*p1.T39) (uint8, int16) = (func(*p1.T39) (uint8, int16))(nil)
	var d func(*p1.T39) (uint8, int16) = (func(*p1.T39) (uint8, int16))(func(a0 *p1.T39) (uint8, int16) { return uint8(42), int16(99) })
	var e func(*p1.T39) (uint8, int16) = (func(*p1.T39) (uint8, int16))(func(a0 *p1.T39) (uint8, int16) { return uint8(42), int16(99) })
	w.Value("x", &x)
	w.Value("d", &d)
	w.Deep("xy", &x, &y)
	w.Deep("xz", &x, &z)
	w.Deep("de", &d, &e)
	w.Try("conv", func() { w.Conv("x", &x, partners) })
	w.Fmt("x", &x)
	w.Fmt("z", &z)
	w.ZeroFmt("t", rt)
	w.TypeCalls("d", &d)
	w.Calls("d", &d)
	_, _, _ = y, z, e
}

func U89() {
	w.Header("89", "*[n]string")
	rt := reflect.TypeOf((**[1]string)(nil)).Elem()
	w.Try("type", func() { w.Type(rt) })
	partners := []reflect.Type{reflect.TypeOf((*T54)(nil)).Elem(), reflect.TypeOf((*p1.T48)(nil)).Elem(), reflect.TypeOf((**float32)(nil)).Elem()}
	w.Try("matrix", func() { w.Matrix(rt, partners) })
	w.Try("same", func() {
		w.Same("slice", reflect.TypeOf((*[]*[1]string)(nil)).Elem(), reflect.SliceOf(rt))
		w.Same("array", reflect.TypeOf((*[3]*[1]string)(nil)).Elem(), reflect.ArrayOf(3, rt))
		w.Same("chan", reflect.TypeOf((*<-chan *[1]string)(nil)).Elem(), reflect.ChanOf(reflect.RecvDir, rt))
		w.Same("map", reflect.TypeOf((*map[string]*[1]string)(nil)).Elem(), reflect.MapOf(reflect.TypeOf(""), rt))
	})
	var x *[1]string = w.Ptr([1]string{string("日本")})
	var y *[1]string = w.Ptr([1]string{string("日本~")})
	var z *[1]string = w.Ptr([1]string{string("日本")})
	var d *[1]string = (*[1]string)(nil)
	var e *[1]string = (*[1]string)(nil)
	w.Value("x", &x)
	w.Value("d", &d)
	w.Deep("xy", &x, &y)
	w.Deep("xz", &x, &z)
	w.Deep("de", &d, &e)
	w.Try("conv", func() { w.Conv("x", &x, partners) })
	w.Fmt("x", &x)
	w.Fmt("z", &z)
	w.ZeroFmt("t", rt)
	w.TypeCalls("d", &d)
	w.Calls("d", &d)
	_, _, _ = y, z, e
}

func U95() {
	w.Header("95", "map[struct{int32;int}]uint8")
	rt := reflect.TypeOf((*map[struct { K0 int32; K1 int }]uint8)(nil)).Elem()
	w.Try("type", func() { w.Type(rt) })
	partners := []reflect.Type{reflect.TypeOf((*func([1]uint8) p0.T22)(nil)).Elem(), reflect.TypeOf((*T56)(nil)).Elem(), reflect.TypeOf((*p1.T36)(nil)).Elem()}
	w.Try("matrix", func() { w.Matrix(rt, partners) })
	w.Try("same", func() {
		w.Same("ptr", reflect.TypeOf((**map[struct { K0 int32; K1 int }]uint8)(nil)).Elem(), reflect.PointerTo(rt))
		w.Same("slice", reflect.TypeOf((*[]map[struct { K0 int32; K1 int }]uint8)(nil)).Elem(), reflect.SliceOf(rt))
		w.Same("array", reflect.TypeOf((*[3]map[struct { K0 int32; K1 int }]uint8)(nil)).Elem(), reflect.ArrayOf(3, rt))
		w.Same("chan", reflect.TypeOf((*<-chan map[struct { K0 int32; K1 int }]uint8)(nil)).Elem(), reflect.ChanOf(reflect.RecvDir, rt))
		w.Same("map", reflect.TypeOf((*map[string]map[struct { K0 int32; K1 int }]uint8)(nil)).Elem(), reflect.MapOf(reflect.TypeOf(""), rt))
		w.Same("func", reflect.TypeOf((*func(map[struct { K0 int32; K1 int }]uint8, ...map[struct { K0 int32; K1 int }]uint8) *map[struct { K0 int32; K1 int }]uint8)(nil)).Elem(), reflect.FuncOf([]reflect.Type{rt, reflect.SliceOf(rt)}, []reflect.Type{reflect.PointerTo(rt)}, true))
	})
	var x map[struct { K0 int32; K1 int }]uint8 = map[struct { K0 int32; K1 int }]uint8{}
	var y map[struct { K0 int32; K1 int }]uint8 = map[struct { K0 int32; K1 int }]uint8{}
	var z map[struct { K0 int32; K1 int }]uint8 = map[struct { K0 int32; K1 int }]uint8{}
	var d map[struct { K0 int32; K1 int }]uint8 = map[struct { K0 int32; K1 int }]uint8(nil)
	var e map[struct { K0 int32; K1 int }]uint8 = map[struct { K0 int32; K1 int }]uint8(nil)
	w.Value("x", &x)
	w.Value("d", &d)
	w.Deep("xy", &x, &y)
	w.Deep("xz", &x, &z)
	w.Deep("de", &d, &e)
	w.Try("conv", func() { w.Conv("x", &x, partners) })
	w.Fmt("x", &x)
	w.Fmt("z", &z)
	w.ZeroFmt("t", rt)
	w.TypeCalls("d", &d)
	w.Calls("d", &d)
	_, _, _ = y, z, e
}

func U98() {
	w.Header("98", "*float32")
	rt := reflect.TypeOf((**float32)(nil)).Elem()
	w.Try("type", func() { w.Type(rt) })
	partners := []reflect.Type{reflect.TypeOf((*p0.T7)(nil)).Elem(), reflect.TypeOf((*T49)(nil)).Elem(), reflect.TypeOf((*T67)(nil)).Elem()}
	w.Try("matrix", func() { w.Matrix(rt, partners) })
	w.Try("same", func() {
		w.Same("slice", reflect.TypeOf((*[]*float32)(nil)).Elem(), reflect.SliceOf(rt))
		w.Same("array", reflect.TypeOf((*[3]*float32)(nil)).Elem(), reflect.ArrayOf(3, rt))
		w.Same("chan", reflect.TypeOf((*<-chan *float32)(nil)).Elem(), reflect.ChanOf(reflect.RecvDir, rt))
		w.Same("map", reflect.TypeOf((*map[string]*float32)(nil)).Elem(), reflect.MapOf(reflect.TypeOf(""), rt))
	})
	var x *float32 = (*float32)(nil)
	var y *float32 = (*float32)(nil)
	var z *float32 = (*float32)(nil)
	var d *float32 = w.Ptr(float32(1000000.0))
	var e *float32 = w.Ptr(float32(1000000.5))
	w.Value("x", &x)
	w.Value("d", &d)
	w.Deep("xy", &x, &y)
	w.Deep("xz", &x, &z)
	w.Deep("de", &d, &e)
	w.Try("conv", func() { w.Conv("x", &x, partners) })
	w.Fmt("x", &x)
	w.Fmt("z", &z)
	w.ZeroFmt("t", rt)
	w.TypeCalls("d", &d)
	w.Calls("d", &d)
	_, _, _ = y, z, e
}

func U99() {
	w.Header("99", "[0]struct{int;E:u:error}")
	rt := reflect.TypeOf((*[0]struct { F0 int; error })(nil)).Elem()
	w.Try("type", func() { w.Type(rt) })
	partners := []reflect.Type{reflect.TypeOf((*T68)(nil)).Elem(), reflect.TypeOf((*map[bool]p1.T29)(nil)).Elem(), reflect.TypeOf((*T64)(nil)).Elem()}
	w.Try("matrix", func() { w.Matrix(rt, partners) })
	w.Try("same", func() {
		w.Same("ptr", reflect.TypeOf((**[0]struct { F0 int; error })(nil)).Elem(), reflect.PointerTo(rt))
		w.Same("slice", reflect.TypeOf((*[][0]struct { F0 int; error })(nil)).Elem(), reflect.SliceOf(rt))
		w.Same("array", reflect.TypeOf((*[3][0]struct { F0 int; error })(nil)).Elem(), reflect.ArrayOf(3, rt))
		w.Same("chan", reflect.TypeOf((*<-chan [0]struct { F0 int; error })(nil)).Elem(), reflect.ChanOf(reflect.RecvDir, rt))
		w.Same("map", reflect.TypeOf((*map[string][0]struct { F0 int; error })(nil)).Elem(), reflect.MapOf(reflect.TypeOf(""), rt))
		w.Same("func", reflect.TypeOf((*func([0]struct { F0 int; error }, ...[0]struct { F0 int; error }) *[0]struct { F0 int; error })(nil)).Elem(), reflect.FuncOf([]reflect.Type{rt, reflect.SliceOf(rt)}, []reflect.Type{reflect.PointerTo(rt)}, true))
	})
	var x [0]struct { F0 int; error } = [0]struct { F0 int; error }{}
	var y [0]struct { F0 int; error } = [0]struct { F0 int; error }{}
	var z [0]struct { F0 int; error } = [0]struct { F0 int; error }{}
	var d [0]struct { F0 int; error } = [0]struct { F0 int; error }{}
	var e [0]struct { F0 int; error } = [0]struct { F0 int; error }{}
	w.Value("x", &x)
	w.Value("d", &d)
	w.Deep("xy", &x, &y)
	w.Deep("xz", &x, &z)
	w.Deep("de", &d, &e)
	w.Try("conv", func() { w.Conv("x", &x, partners) })
	w.Fmt("x", &x)
	w.Fmt("z", &z)
	w.TypeCalls("d", &d)
	w.Calls("d", &d)
	_, _, _ = y, z, e
}

func U102() {
	w.Header("102", "map[uint8]struct{int8}")
	rt := reflect.TypeOf((*map[uint8]struct { F0 int8 })(nil)).Elem()
	w.Try("type", func() { w.Type(rt) })
	partners := []reflect.Type{reflect.TypeOf((*p0.T6)(nil)).Elem(), reflect.TypeOf((*T62)(nil)).Elem(), reflect.TypeOf((*p0.T4)(nil)).Elem()}
	w.Try("matrix", func() { w.Matrix(rt, partners) })
	w.Try("same", func() {
		w.Same("ptr", reflect.TypeOf((**map[uint8]struct { F0 int8 })(nil)).Elem(), reflect.PointerTo(rt))
		w.Same("slice", reflect.TypeOf((*[]map[uint8]struct { F0 int8 })(nil)).Elem(), reflect.SliceOf(rt))
		w.Same("array", reflect.TypeOf((*[3]map[uint8]struct { F0 int8 })(nil)).Elem(), reflect.ArrayOf(3, rt))
		w.Same("chan", reflect.TypeOf((*<-chan map[uint8]struct { F0 int8 })(nil)).Elem(), reflect.ChanOf(reflect.RecvDir, rt))
		w.Same("map", reflect.TypeOf((*map[string]map[uint8]struct { F0 int8 })(nil)).Elem(), reflect.MapOf(reflect.TypeOf(""), rt))
		w.Same("func", reflect.TypeOf((*func(map[uint8]struct { F0 int8 }, ...map[uint8]struct { F0 int8 }) *map[uint8]struct { F0 int8 })(nil)).Elem(), reflect.FuncOf([]reflect.Type{rt, reflect.SliceOf(rt)}, []reflect.Type{reflect.PointerTo(rt)}, true))
	})
	var x map[uint8]struct { F0 int8 } = map[uint8]struct { F0 int8 }{uint8(1): struct { F0 int8 }{F0: int8(1)}, uint8(2): struct { F0 int8 }{F0: int8(65)}}
	var y map[uint8]struct { F0 int8 } = map[uint8]struct { F0 int8 }{uint8(1): struct { F0 int8 }{F0: int8(1)}, uint8(2): struct { F0 int8 }{F0: int8(66)}}
	var z map[uint8]struct { F0 int8 } = map[uint8]struct { F0 int8 }{}
	var d map[uint8]struct { F0 int8 } = map[uint8]struct { F0 int8 }{uint8(1): struct { F0 int8 }{F0: int8(0)}, uint8(2): struct { F0 int8 }{F0: int8(100)}}
	var e map[uint8]struct { F0 int8 } = map[uint8]struct { F0 int8 }{uint8(1): struct { F0 int8 }{F0: int8(0)}, uint8(2): struct { F0 int8 }{F0: int8(101)}}
	w.Value("x", &x)
	w.Value("d", &d)
	w.Deep("xy", &x, &y)
	w.Deep("xz", &x, &z)
	w.Deep("de", &d, &e)
	w.Try("conv", func() { w.Conv("x", &x, partners) })
	w.Fmt("x", &x)
	w.Fmt("z", &z)
	w.ZeroFmt("t", rt)
	w.TypeCalls("d", &d)
	w.Calls("d", &d)
	_, _, _ = y, z, e
}

func U107() {
	w.Header("107", "[n]N(struct{N`;[n]int`;E:*G`})")
	rt := reflect.TypeOf((*[2]p0.T8)(nil)).Elem()
	w.Try("type", func() { w.Type(rt) })
	partners := []reflect.Type{reflect.TypeOf((*T54)(nil)).Elem(), reflect.TypeOf((*p0.T13)(nil)).Elem(), reflect.TypeOf((*p1.T25)(nil)).Elem()}
	w.Try("matrix", func() { w.Matrix(rt, partners) })
	w.Try("same", func() {
		w.Same("ptr", reflect.TypeOf((**[2]p0.T8)(nil)).Elem(), reflect.PointerTo(rt))
		w.Same("slice", reflect.TypeOf((*[][2]p0.T8)(nil)).Elem(), reflect.SliceOf(rt))
		w.Same("array", reflect.TypeOf((*[3][2]p0.T8)(nil)).Elem(), reflect.ArrayOf(3, rt))
		w.Same("chan", reflect.TypeOf((*<-chan [2]p0.T8)(nil)).Elem(), reflect.ChanOf(reflect.RecvDir, rt))
		w.Same("map", reflect.TypeOf((*map[string][2]p0.T8)(nil)).Elem(), reflect.MapOf(reflect.TypeOf(""), rt))
		w.Same("func", reflect.TypeOf((*func([2]p0.T8, ...[2]p0.T8) *[2]p0.T8)(nil)).Elem(), reflect.FuncOf([]reflect.Type{rt, reflect.SliceOf(rt)}, []reflect.Type{reflect.PointerTo(rt)}, true))
	})
	var x [2]p0.T8 = [2]p0.T8{p0.MkT8(0), p0.MkT8(0)}
	var y [2]p0.T8 = [2]p0.T8{p0.MkT8(0), p0.MkT8(1)}
	var z [2]p0.T8 = [2]p0.T8{p0.MkT8(0), p0.MkT8(0)}
	var d [2]p0.T8 = [2]p0.T8{p0.MkT8(3), p0.MkT8(3)}
	var e [2]p0.T8 = [2]p0.T8{p0.MkT8(3), p0.MkT8(4)}
	w.Value("x", &x)
	w.Value("d", &d)
	w.Deep("xy", &x, &y)
	w.Deep("xz", &x, &z)
	w.Deep("de", &d, &e)
	w.Try("conv", func() { w.Conv("x", &x, partners) })
	w.Fmt("x", &x)
	w.Fmt("z", &z)
	w.ZeroFmt("t", rt)
	w.TypeCalls("d", &d)
	w.Calls("d", &d)
	_, _, _ = y, z, e
}

func U109() {
	w.Header("109", "*N(N(interface{3u}))")
	rt := reflect.TypeOf((**T56)(nil)).Elem()
	w.Try("type", func() { w.Type(rt) })
	partners := []reflect.Type{reflect.TypeOf((*map[p0.T13]bool)(nil)).Elem(), reflect.TypeOf((*p0.T1)(nil)).Elem(), reflect.TypeOf((*T67)(nil)).Elem()}
	w.Try("matrix", func() { w.Matrix(rt, partners) })
	w.Try("same", func() {
		w.Same("slice", reflect.TypeOf((*[]*T56)(nil)).Elem(), reflect.SliceOf(rt))
		w.Same("array", reflect.TypeOf((*[3]*T56)(nil)).Elem(), reflect.ArrayOf(3, rt))
		w.Same("chan", reflect.TypeOf((*<-chan *T56)(nil)).Elem(), reflect.ChanOf(reflect.RecvDir, rt))
		w.Same("map", reflect.TypeOf((*map[string]*T56)(nil)).Elem(), reflect.MapOf(reflect.TypeOf(""), rt))
	})
	var x *T56 = (*T56)(nil)
	var y *T56 = (*T56)(nil)
	var z *T56 = (*T56)(nil)
	var d *T56 = w.Ptr(MkT56(3))
	var e *T56 = w.Ptr(MkT56(3))
	w.Value("x", &x)
	w.Value("d", &d)
	w.Deep("xy", &x, &y)
	w.Deep("xz", &x, &z)
	w.Deep("de", &d, &e)
	w.Try("conv", func() { w.Conv("x", &x, partners) })
	w.Fmt("x", &x)
	w.Fmt("z", &z)
	w.ZeroFmt("t", rt)
	w.TypeCalls("d", &d)
	w.Calls("d", &d)
	_, _, _ = y, z, e
}

func U111() {
	w.Header("111", "func(uint16,[]complex128...)([]complex64)")
	rt := reflect.TypeOf((*func(uint16, ...complex128) []complex64)(nil)).Elem()
	w.Try("type", func() { w.Type(rt) })
	partners := []reflect.Type{reflect.TypeOf((*T69)(nil)).Elem(), reflect.TypeOf((*p1.T36)(nil)).Elem(), reflect.TypeOf((*T72)(nil)).Elem()}
	w.Try("matrix", func() { w.Matrix(rt, partners) })
	w.Try("same", func() {
		w.Same("slice", reflect.TypeOf((*[]func(uint16, ...complex128) []complex64)(nil)).Elem(), reflect.SliceOf(rt))
		w.Same("array", reflect.TypeOf((*[3]func(uint16, ...complex128) []complex64)(nil)).Elem(), reflect.ArrayOf(3, rt))
		w.Same("chan", reflect.TypeOf((*<-chan func(uint16, ...complex128) []complex64)(nil)).Elem(), reflect.ChanOf(reflect.RecvDir, rt))
		w.Same("map", reflect.TypeOf((*map[string]func(uint16, ...complex128) []complex64)(nil)).Elem(), reflect.MapOf(reflect.TypeOf(""), rt))
	})
	var x func(uint16, ...complex128) []complex64 = (func(uint16, ...complex128) []complex64)(nil)
	var y func(uint16, ...complex128) []complex64 = (func(uint16, ...complex128) []complex64)(nil)
	var z func(uint16, ...complex128) []complex64 = (func(uint16, ...complex128) []complex64)(nil)
	var d func(uint16, ...complex128) []complex64 = (func(uint16, ...complex128) []complex64)(func(a0 uint16, a1 ...complex128) []complex64 { return []complex64{} })
	var e func(uint16, ...complex128) []complex64 = (func(uint16, ...complex128) []complex64)(func(a0 uint16, a1 ...complex128) []complex64 { return []complex64{} })
	w.Value("x", &x)
	w.Value("d", &d)
	w.Deep("xy", &x, &y)
	w.Deep("xz", &x, &z)
	w.Deep("de", &d, &e)
	w.Try("conv", func() { w.Conv("x", &x, partners) })
	w.Fmt("x", &x)
	w.Fmt("z", &z)
	w.ZeroFmt("t", rt)
	w.TypeCalls("d", &d)
	w.Calls("d", &d)
	_, _, _ = y, z, e
}

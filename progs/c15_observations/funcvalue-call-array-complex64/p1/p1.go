package p1

import (
	"fmt"
	"reflect"
	"strconv"
	"unsafe"
	"Zmod/sub/g"
	"Zmod/sub/w"
	"Zmod/sub/p0"
)

var _ = fmt.Sprint
var _ = reflect.TypeOf
var _ = strconv.Itoa
var _ unsafe.Pointer
var _ g.Box[int]
var _ = w.P
var _ p0.T0_

type T0_ struct{}

type T25 struct{}

func (r *T25) Add(a int, b int) int {
	if r == nil {
		return -1
	}
	return a*2 + b + 0
}

func (r *T25) Error() string {
	if r == nil {
		return "nilT25"
	}
	return "T25.Error#" + strconv.Itoa(0)
}

func (r *T25) String() string {
	if r == nil {
		return "nilT25"
	}
	return "T25.String#" + strconv.Itoa(0)
}

type T26 p0.T21

func (r T26) String() string {
	return "T26.String#" + strconv.Itoa(len(r))
}

func (r T26) Two() (int, string) {
	return 127 + len(r), "T26"
}

func (r *T26) With(s string, n ...int8) string {
	if r == nil {
		return "nil"
	}
	t := 0
	for _, x := range n {
		t += int(x)
	}
	return s + ":" + strconv.Itoa(t+len(n)*100+len((*r)))
}

type T27 float64

func (r T27) Format(f fmt.State, c rune) {
	w_, wok := f.Width()
	p_, pok := f.Precision()
	fmt.Fprintf(f, "T27{%c w=%d/%t p=%d/%t +%t -%t #%t sp%t 0%t n=%d}", c, w_, wok, p_, pok, f.Flag('+'), f.Flag('-'), f.Flag('#'), f.Flag(' '), f.Flag('0'), int(r))
}

func (r *T27) Set(x int) {
	if r == nil {
		return
	}
	*r = T27(x)
}

func (r T27) String() string {
	return "T27.String#" + strconv.Itoa(int(r))
}

type T28 [1]struct { p0.T24; F1 p0.T18; F2 uint8; F3 p0.T10 }

func (r *T28) Error() string {
	if r == nil {
		return "nilT28"
	}
	return "T28.Error#" + strconv.Itoa(len((*r)))
}

func (r *T28) Name() string {
	if r == nil {
		return "nilT28"
	}
	return "T28.Name#" + strconv.Itoa(len((*r)))
}

func (r *T28) Sum(xs ...int) int {
	if r == nil {
		return -1
	}
	s := len(xs) * 1000
	for _, x := range xs {
		s += x
	}
	return s + len((*r))
}

type T29 map[string]*[]float32

func (r T29) Cplx(c complex128) complex64 {
	return complex64(c) + complex(float32(len(r)), 1)
}

func (r *T29) Get() int {
	if r == nil {
		return -1
	}
	return 130 + len((*r))
}

func (r T29) GoString() string {
	return "p1.MkT29(" + strconv.Itoa(len(r)) + ")"
}

func (r *T29) Wide(a int8, b float64, c string, d uint16, e bool) (float64, bool) {
	if r == nil {
		return 0, false
	}
	return float64(a) + b*2 + float64(len(c)) + float64(d) + float64(len((*r))), !e
}

func (r *T29) unexp() {
}

type T30 []int16

type T31 interface { String() string }

type T32 []*p0.T20

func (r T32) Add(a int, b int) int {
	return a*2 + b + len(r)
}

func (r T32) Get() int {
	return 133 + len(r)
}

func (r T32) Sum(xs ...int) int {
	s := len(xs) * 1000
	for _, x := range xs {
		s += x
	}
	return s + len(r)
}

type T33 struct{}

type T34 p0.T5

func (r *T34) Cplx(c complex128) complex64 {
	if r == nil {
		return 0
	}
	return complex64(c) + complex(float32(len((*r))), 1)
}

func (r *T34) String() string {
	if r == nil {
		return "nilT34"
	}
	return "T34.String#" + strconv.Itoa(len((*r)))
}

func (r *T34) Wide(a int8, b float64, c string, d uint16, e bool) (float64, bool) {
	if r == nil {
		return 0, false
	}
	return float64(a) + b*2 + float64(len(c)) + float64(d) + float64(len((*r))), !e
}

func (r *T34) With(s string, n ...int8) string {
	if r == nil {
		return "nil"
	}
	t := 0
	for _, x := range n {
		t += int(x)
	}
	return s + ":" + strconv.Itoa(t+len(n)*100+len((*r)))
}

func (r *T34) unexp() {
}

type T35 []error

func (r T35) Sum(xs ...int) int {
	s := len(xs) * 1000
	for _, x := range xs {
		s += x
	}
	return s + len(r)
}

func (r T35) Wide(a int8, b float64, c string, d uint16, e bool) (float64, bool) {
	return float64(a) + b*2 + float64(len(c)) + float64(d) + float64(len(r)), !e
}

type T36 []T36

type T37 bool

type T38 uint

type T39 struct { F0 struct { F0 bool; F1 int32; f2 p0.T24; _ uint8 } `xml:"n" json:"-"` }

type T40 interface { Two() (int, string) }

type T41 g.M[int16, T36]

func (r *T41) Cplx(c complex128) complex64 {
	if r == nil {
		return 0
	}
	return complex64(c) + complex(float32(len((*r))), 1)
}

func (r T41) Get() int {
	return 142 + len(r)
}

func (r T41) Name() string {
	return "T41.Name#" + strconv.Itoa(len(r))
}

func (r *T41) Set(x int) {
	if r == nil {
		return
	}
	_ = x
}

func (r *T41) Wide(a int8, b float64, c string, d uint16, e bool) (float64, bool) {
	if r == nil {
		return 0, false
	}
	return float64(a) + b*2 + float64(len(c)) + float64(d) + float64(len((*r))), !e
}

type T42 map[p0.T12]T42

func (r T42) Format(f fmt.State, c rune) {
	w_, wok := f.Width()
	p_, pok := f.Precision()
	fmt.Fprintf(f, "T42{%c w=%d/%t p=%d/%t +%t -%t #%t sp%t 0%t n=%d}", c, w_, wok, p_, pok, f.Flag('+'), f.Flag('-'), f.Flag('#'), f.Flag(' '), f.Flag('0'), len(r))
}

func (r T42) Set(x int) {
	_ = x
}

func (r T42) Sum(xs ...int) int {
	s := len(xs) * 1000
	for _, x := range xs {
		s += x
	}
	return s + len(r)
}

func (r T42) Wide(a int8, b float64, c string, d uint16, e bool) (float64, bool) {
	return float64(a) + b*2 + float64(len(c)) + float64(d) + float64(len(r)), !e
}

func (r T42) unexp() {
}

type T43 [0]int

func (r *T43) Cplx(c complex128) complex64 {
	if r == nil {
		return 0
	}
	return complex64(c) + complex(float32(len((*r))), 1)
}

func (r *T43) GoString() string {
	if r == nil {
		return "(*p1.T43)(nil)"
	}
	return "p1.MkT43(" + strconv.Itoa(len((*r))) + ")"
}

func (r T43) String() string {
	return "T43.String#" + strconv.Itoa(len(r))
}

func (r T43) Sum(xs ...int) int {
	s := len(xs) * 1000
	for _, x := range xs {
		s += x
	}
	return s + len(r)
}

type T44 uint8

func (r T44) Name() string {
	return "T44.Name#" + strconv.Itoa(int(r))
}

func (r T44) With(s string, n ...int8) string {
	t := 0
	for _, x := range n {
		t += int(x)
	}
	return s + ":" + strconv.Itoa(t+len(n)*100+int(r))
}

func (r *T44) unexp() {
}

type T45 g.Box[p0.T2]

type T46 struct { p0.T9; F1 [3]struct { F0 uint32; F1 T32 }; F2 *[]p0.T19 }

func (r *T46) Add(a int, b int) int {
	if r == nil {
		return -1
	}
	return a*2 + b + 0
}

func (r *T46) Cplx(c complex128) complex64 {
	if r == nil {
		return 0
	}
	return complex64(c) + complex(float32(0), 1)
}

func (r *T46) Get() int {
	if r == nil {
		return -1
	}
	return 148 + 0
}

func (r *T46) Name() string {
	if r == nil {
		return "nilT46"
	}
	return "T46.Name#" + strconv.Itoa(0)
}

func (r *T46) String() string {
	if r == nil {
		return "nilT46"
	}
	return "T46.String#" + strconv.Itoa(0)
}

func (r *T46) Wide(a int8, b float64, c string, d uint16, e bool) (float64, bool) {
	if r == nil {
		return 0, false
	}
	return float64(a) + b*2 + float64(len(c)) + float64(d) + float64(0), !e
}

type T47 struct { T35; F1 int16 `json:"a"` }

func (r T47) Cplx(c complex128) complex64 {
	return complex64(c) + complex(float32(int(r.F1)), 1)
}

func (r T47) GoString() string {
	return "p1.MkT47(" + strconv.Itoa(int(r.F1)) + ")"
}

func (r *T47) Name() string {
	if r == nil {
		return "nilT47"
	}
	return "T47.Name#" + strconv.Itoa(int(r.F1))
}

func (r T47) String() string {
	return "T47.String#" + strconv.Itoa(int(r.F1))
}

type T48 struct { F0 int64 `json:"a"`; F1 int }

func (r T48) GoString() string {
	return "p1.MkT48(" + strconv.Itoa(int(r.F0)) + ")"
}

func (r *T48) Name() string {
	if r == nil {
		return "nilT48"
	}
	return "T48.Name#" + strconv.Itoa(int(r.F0))
}

func (r *T48) Wide(a int8, b float64, c string, d uint16, e bool) (float64, bool) {
	if r == nil {
		return 0, false
	}
	return float64(a) + b*2 + float64(len(c)) + float64(d) + float64(int(r.F0)), !e
}

func (r T48) With(s string, n ...int8) string {
	t := 0
	for _, x := range n {
		t += int(x)
	}
	return s + ":" + strconv.Itoa(t+len(n)*100+int(r.F0))
}

func MkT25(k int) T25 {
	switch k {
	case 1:
		return T25{}
	case 2:
		return T25{}
	case 3:
		return T25{}
	case 4:
		return T25{}
	}
	return T25{}
}

func MkT26(k int) T26 {
	switch k {
	case 1:
		return T26(p0.MkT21(1))
	case 2:
		return T26(p0.MkT21(2))
	case 3:
		return T26(p0.MkT21(3))
	case 4:
		return T26(p0.MkT21(4))
	}
	return T26(p0.MkT21(0))
}

func MkT27(k int) T27 {
	switch k {
	case 1:
		return T27(0.5)
	case 2:
		return T27(0.0025)
	case 3:
		return T27(1.0)
	case 4:
		return T27(1.5)
	}
	return T27(0.0)
}

func MkT28(k int) T28 {
	switch k {
	case 1:
		return T28{struct { p0.T24; F1 p0.T18; F2 uint8; F3 p0.T10 }{T24: p0.MkT24(1), F1: p0.MkT18(0), F2: uint8(65), F3: p0.MkT10(0)}}
	case 2:
		return T28{struct { p0.T24; F1 p0.T18; F2 uint8; F3 p0.T10 }{T24: p0.MkT24(0), F1: p0.MkT18(2), F2: uint8(200), F3: p0.MkT10(0)}}
	case 3:
		return T28{struct { p0.T24; F1 p0.T18; F2 uint8; F3 p0.T10 }{T24: p0.MkT24(3), F1: p0.MkT18(3), F2: uint8(65), F3: p0.MkT10(3)}}
	case 4:
		return T28{struct { p0.T24; F1 p0.T18; F2 uint8; F3 p0.T10 }{T24: p0.MkT24(3), F1: p0.MkT18(3), F2: uint8(66), F3: p0.MkT10(3)}}
	}
	return T28{struct { p0.T24; F1 p0.T18; F2 uint8; F3 p0.T10 }{T24: p0.MkT24(0), F1: p0.MkT18(0), F2: uint8(65), F3: p0.MkT10(0)}}
}

func MkT29(k int) T29 {
	switch k {
	case 1:
		return T29{}
	case 2:
		return T29{}
	case 3:
		return T29(nil)
	case 4:
		return T29(nil)
	}
	return T29{}
}

func MkT30(k int) T30 {
	switch k {
	case 1:
		return T30{int16(120), int16(-30000), int16(66)}
	case 2:
		return T30(nil)
	case 3:
		return T30{int16(-1)}
	case 4:
		return T30{int16(0)}
	}
	return T30{int16(120), int16(-30000), int16(65)}
}

func MkT31(k int) T31 {
	switch k {
	case 1:
		return T31(MkT27(0))
	case 2:
		return T31(MkT27(2))
	case 3:
		return T31(MkT27(3))
	case 4:
		return T31(MkT27(4))
	}
	return T31(MkT27(2))
}

func MkT32(k int) T32 {
	switch k {
	case 1:
		return T32{(*p0.T20)(nil)}
	case 2:
		return T32{(*p0.T20)(nil), (*p0.T20)(nil)}
	case 3:
		return T32{}
	case 4:
		return T32{}
	}
	return T32{(*p0.T20)(nil)}
}

func MkT33(k int) T33 {
	switch k {
	case 1:
		return T33{}
	case 2:
		return T33{}
	case 3:
		return T33{}
	case 4:
		return T33{}
	}
	return T33{}
}

func MkT34(k int) T34 {
	switch k {
	case 1:
		return T34(p0.MkT5(1))
	case 2:
		return T34(p0.MkT5(2))
	case 3:
		return T34(p0.MkT5(3))
	case 4:
		return T34(p0.MkT5(4))
	}
	return T34(p0.MkT5(0))
}

func MkT35(k int) T35 {
	switch k {
	case 1:
		return T35{error(w.Err{"hi"}), error(w.Err{"héllo"}), error(w.Err{"Z~"})}
	case 2:
		return T35{error(nil), error(w.Err{"x y"}), error(w.Err{"tab\there"})}
	case 3:
		return T35{error(w.Err{"\x7f"})}
	case 4:
		return T35{error(w.Err{"\x7f~"})}
	}
	return T35{error(w.Err{"hi"}), error(w.Err{"héllo"}), error(w.Err{"Z"})}
}

func MkT36(k int) T36 {
	switch k {
	case 1:
		return T36{*new(T36), *new(T36), *new(T36)}
	case 2:
		return T36{*new(T36)}
	case 3:
		return T36{}
	case 4:
		return T36{}
	}
	return T36{*new(T36), *new(T36), *new(T36)}
}

func MkT37(k int) T37 {
	switch k {
	case 1:
		return T37(false)
	case 2:
		return T37(false)
	case 3:
		return T37(false)
	case 4:
		return T37(true)
	}
	return T37(true)
}

func MkT38(k int) T38 {
	switch k {
	case 1:
		return T38(9223372036854775814)
	case 2:
		return T38(8589934592)
	case 3:
		return T38(1)
	case 4:
		return T38(2)
	}
	return T38(9223372036854775813)
}

func MkT39(k int) T39 {
	switch k {
	case 1:
		return T39{F0: struct { F0 bool; F1 int32; f2 p0.T24; _ uint8 }{F0: bool(true), F1: int32(65), f2: p0.MkT24(2)}}
	case 2:
		return T39{F0: struct { F0 bool; F1 int32; f2 p0.T24; _ uint8 }{F0: bool(true), F1: int32(1000), f2: p0.MkT24(0)}}
	case 3:
		return T39{F0: struct { F0 bool; F1 int32; f2 p0.T24; _ uint8 }{F0: bool(false), F1: int32(-1073741824), f2: p0.MkT24(3)}}
	case 4:
		return T39{F0: struct { F0 bool; F1 int32; f2 p0.T24; _ uint8 }{F0: bool(false), F1: int32(-1073741824), f2: p0.MkT24(4)}}
	}
	return T39{F0: struct { F0 bool; F1 int32; f2 p0.T24; _ uint8 }{F0: bool(false), F1: int32(65), f2: p0.MkT24(2)}}
}

func MkT40(k int) T40 {
	switch k {
	case 1:
		return T40(MkT26(0))
	case 2:
		return T40(MkT26(0))
	case 3:
		return T40(MkT26(3))
	case 4:
		return T40(MkT26(3))
	}
	return T40(MkT26(2))
}

func MkT41(k int) T41 {
	switch k {
	case 1:
		return T41(g.M[int16, T36]{})
	case 2:
		return T41(g.M[int16, T36]{int16(1): MkT36(0), int16(2): MkT36(2), int16(3): MkT36(0)})
	case 3:
		return T41(g.M[int16, T36]{})
	case 4:
		return T41(g.M[int16, T36]{})
	}
	return T41(g.M[int16, T36]{})
}

func MkT42(k int) T42 {
	switch k {
	case 1:
		return T42{p0.T12(int16(1)): *new(T42), p0.T12(int16(2)): *new(T42), p0.T12(int16(3)): *new(T42)}
	case 2:
		return T42{}
	case 3:
		return T42(nil)
	case 4:
		return T42(nil)
	}
	return T42{p0.T12(int16(1)): *new(T42), p0.T12(int16(2)): *new(T42), p0.T12(int16(3)): *new(T42)}
}

func MkT43(k int) T43 {
	switch k {
	case 1:
		return T43{}
	case 2:
		return T43{}
	case 3:
		return T43{}
	case 4:
		return T43{}
	}
	return T43{}
}

func MkT44(k int) T44 {
	switch k {
	case 1:
		return T44(1)
	case 2:
		return T44(7)
	case 3:
		return T44(7)
	case 4:
		return T44(8)
	}
	return T44(0)
}

func MkT45(k int) T45 {
	switch k {
	case 1:
		return T45(g.MkBox[p0.T2](p0.MkT2(0), 66))
	case 2:
		return T45(g.MkBox[p0.T2](p0.MkT2(0), 120))
	case 3:
		return T45(g.MkBox[p0.T2](p0.MkT2(3), 100))
	case 4:
		return T45(g.MkBox[p0.T2](p0.MkT2(3), 101))
	}
	return T45(g.MkBox[p0.T2](p0.MkT2(0), 65))
}

func MkT46(k int) T46 {
	switch k {
	case 1:
		return T46{T9: p0.MkT9(0), F1: [3]struct { F0 uint32; F1 T32 }{struct { F0 uint32; F1 T32 }{F0: uint32(65534), F1: MkT32(2)}, struct { F0 uint32; F1 T32 }{F0: uint32(65534), F1: MkT32(2)}, struct { F0 uint32; F1 T32 }{F0: uint32(255), F1: MkT32(0)}}, F2: (*[]p0.T19)(nil)}
	case 2:
		return T46{T9: p0.MkT9(0), F1: [3]struct { F0 uint32; F1 T32 }{struct { F0 uint32; F1 T32 }{F0: uint32(65), F1: MkT32(2)}, struct { F0 uint32; F1 T32 }{F0: uint32(1000), F1: MkT32(0)}, struct { F0 uint32; F1 T32 }{F0: uint32(65), F1: MkT32(0)}}, F2: (*[]p0.T19)(nil)}
	case 3:
		return T46{T9: p0.MkT9(3), F1: [3]struct { F0 uint32; F1 T32 }{struct { F0 uint32; F1 T32 }{F0: uint32(65534), F1: MkT32(3)}, struct { F0 uint32; F1 T32 }{F0: uint32(65534), F1: MkT32(3)}, struct { F0 uint32; F1 T32 }{F0: uint32(1000), F1: MkT32(3)}}, F2: w.Ptr([]p0.T19(nil))}
	case 4:
		return T46{T9: p0.MkT9(3), F1: [3]struct { F0 uint32; F1 T32 }{struct { F0 uint32; F1 T32 }{F0: uint32(65535), F1: MkT32(3)}, struct { F0 uint32; F1 T32 }{F0: uint32(65534), F1: MkT32(3)}, struct { F0 uint32; F1 T32 }{F0: uint32(1000), F1: MkT32(3)}}, F2: w.Ptr([]p0.T19(nil))}
	}
	return T46{T9: p0.MkT9(0), F1: [3]struct { F0 uint32; F1 T32 }{struct { F0 uint32; F1 T32 }{F0: uint32(65534), F1: MkT32(2)}, struct { F0 uint32; F1 T32 }{F0: uint32(65534), F1: MkT32(2)}, struct { F0 uint32; F1 T32 }{F0: uint32(254), F1: MkT32(0)}}, F2: (*[]p0.T19)(nil)}
}

func MkT47(k int) T47 {
	switch k {
	case 1:
		return T47{T35: MkT35(1), F1: int16(100)}
	case 2:
		return T47{T35: MkT35(0), F1: int16(65)}
	case 3:
		return T47{T35: MkT35(3), F1: int16(99)}
	case 4:
		return T47{T35: MkT35(3), F1: int16(100)}
	}
	return T47{T35: MkT35(0), F1: int16(100)}
}

func MkT48(k int) T48 {
	switch k {
	case 1:
		return T48{F0: int64(66), F1: int(128512)}
	case 2:
		return T48{F0: int64(99), F1: int(100)}
	case 3:
		return T48{F0: int64(2147483646), F1: int(65)}
	case 4:
		return T48{F0: int64(2147483646), F1: int(66)}
	}
	return T48{F0: int64(65), F1: int(128512)}
}

func U24() {
	w.Header("24", "N/ppp(struct{})")
	rt := reflect.TypeOf((*T25)(nil)).Elem()
	w.Try("type", func() { w.Type(rt) })
	partners := []reflect.Type{reflect.TypeOf((*p0.T7)(nil)).Elem(), reflect.TypeOf((*p0.T8)(nil)).Elem(), reflect.TypeOf((*p0.T21)(nil)).Elem()}
	w.Try("matrix", func() { w.Matrix(rt, partners) })
	w.Try("same", func() {
		w.Same("ptr", reflect.TypeOf((**T25)(nil)).Elem(), reflect.PointerTo(rt))
		w.Same("slice", reflect.TypeOf((*[]T25)(nil)).Elem(), reflect.SliceOf(rt))
		w.Same("array", reflect.TypeOf((*[3]T25)(nil)).Elem(), reflect.ArrayOf(3, rt))
		w.Same("chan", reflect.TypeOf((*<-chan T25)(nil)).Elem(), reflect.ChanOf(reflect.RecvDir, rt))
		w.Same("map", reflect.TypeOf((*map[string]T25)(nil)).Elem(), reflect.MapOf(reflect.TypeOf(""), rt))
		w.Same("func", reflect.TypeOf((*func(T25, ...T25) *T25)(nil)).Elem(), reflect.FuncOf([]reflect.Type{rt, reflect.SliceOf(rt)}, []reflect.Type{reflect.PointerTo(rt)}, true))
	})
	var x T25 = MkT25(0)
	var y T25 = MkT25(0)
	var z T25 = MkT25(2)
	var d T25 = MkT25(3)
	var e T25 = MkT25(3)
	w.Value("x", &x)
	w.Value("d", &d)
	w.Deep("xy", &x, &y)
	w.Deep("xz", &x, &z)
	w.Deep("de", &d, &e)
	w.Try("conv", func() { w.Conv("x", &x, partners) })
	w.Fmt("x", &x)
	w.Fmt("z", &z)
	w.ZeroFmt("t", rt)
	w.TypeCalls("d", &d)
	w.Calls("d", &d)
	_, _, _ = y, z, e
}

func U25() {
	w.Header("25", "N/pvv(N/ppvvvv([]N))")
	rt := reflect.TypeOf((*T26)(nil)).Elem()
	w.Try("type", func() { w.Type(rt) })
	partners := []reflect.Type{reflect.TypeOf((*p0.T21)(nil)).Elem(), reflect.TypeOf((*p0.T18)(nil)).Elem(), reflect.TypeOf((*p0.T10)(nil)).Elem(), reflect.TypeOf((*p0.T13)(nil)).Elem()}
	w.Try("matrix", func() { w.Matrix(rt, partners) })
	w.Try("same", func() {
		w.Same("ptr", reflect.TypeOf((**T26)(nil)).Elem(), reflect.PointerTo(rt))
		w.Same("slice", reflect.TypeOf((*[]T26)(nil)).Elem(), reflect.SliceOf(rt))
		w.Same("array", reflect.TypeOf((*[3]T26)(nil)).Elem(), reflect.ArrayOf(3, rt))
		w.Same("chan", reflect.TypeOf((*<-chan T26)(nil)).Elem(), reflect.ChanOf(reflect.RecvDir, rt))
		w.Same("map", reflect.TypeOf((*map[string]T26)(nil)).Elem(), reflect.MapOf(reflect.TypeOf(""), rt))
		w.Same("func", reflect.TypeOf((*func(T26, ...T26) *T26)(nil)).Elem(), reflect.FuncOf([]reflect.Type{rt, reflect.SliceOf(rt)}, []reflect.Type{reflect.PointerTo(rt)}, true))
	})
	var x T26 = MkT26(2)
	var y T26 = MkT26(0)
	var z T26 = MkT26(0)
	var d T26 = MkT26(3)
	var e T26 = MkT26(3)
	w.Value("x", &x)
	w.Value("d", &d)
	w.Deep("xy", &x, &y)
	w.Deep("xz", &x, &z)
	w.Deep("de", &d, &e)
	w.Try("conv", func() { w.Conv("x", &x, partners) })
	w.Fmt("x", &x)
	w.Fmt("z", &z)
	w.ZeroFmt("t", rt)
	w.TypeCalls("d", &d)
	w.Calls("d", &d)
	_, _, _ = y, z, e
}

func U26() {
	w.Header("26", "N/pvv(float64)")
	rt := reflect.TypeOf((*T27)(nil)).Elem()
	w.Try("type", func() { w.Type(rt) })
	partners := []reflect.Type{reflect.TypeOf((*T26)(nil)).Elem(), reflect.TypeOf((*T25)(nil)).Elem(), reflect.TypeOf((*p0.T17)(nil)).Elem()}
	w.Try("matrix", func() { w.Matrix(rt, partners) })
	w.Try("same", func() {
		w.Same("ptr", reflect.TypeOf((**T27)(nil)).Elem(), reflect.PointerTo(rt))
		w.Same("slice", reflect.TypeOf((*[]T27)(nil)).Elem(), reflect.SliceOf(rt))
		w.Same("array", reflect.TypeOf((*[3]T27)(nil)).Elem(), reflect.ArrayOf(3, rt))
		w.Same("chan", reflect.TypeOf((*<-chan T27)(nil)).Elem(), reflect.ChanOf(reflect.RecvDir, rt))
		w.Same("map", reflect.TypeOf((*map[string]T27)(nil)).Elem(), reflect.MapOf(reflect.TypeOf(""), rt))
		w.Same("func", reflect.TypeOf((*func(T27, ...T27) *T27)(nil)).Elem(), reflect.FuncOf([]reflect.Type{rt, reflect.SliceOf(rt)}, []reflect.Type{reflect.PointerTo(rt)}, true))
	})
	var x T27 = MkT27(0)
	var y T27 = MkT27(1)
	var z T27 = MkT27(2)
	var d T27 = MkT27(3)
	var e T27 = MkT27(4)
	w.Value("x", &x)
	w.Value("d", &d)
	w.Deep("xy", &x, &y)
	w.Deep("xz", &x, &z)
	w.Deep("de", &d, &e)
	w.Try("conv", func() { w.Conv("x", &x, partners) })
	w.Fmt("x", &x)
	w.Fmt("z", &z)
	w.ZeroFmt("t", rt)
	w.TypeCalls("d", &d)
	w.Calls("d", &d)
	_, _, _ = y, z, e
}

func U27() {
	w.Header("27", "N/ppp([n]struct{E:N;N;uint8;N})")
	rt := reflect.TypeOf((*T28)(nil)).Elem()
	w.Try("type", func() { w.Type(rt) })
	partners := []reflect.Type{reflect.TypeOf((*p0.T13)(nil)).Elem(), reflect.TypeOf((*p0.T7)(nil)).Elem(), reflect.TypeOf((*p0.T22)(nil)).Elem()}
	w.Try("matrix", func() { w.Matrix(rt, partners) })
	w.Try("same", func() {
		w.Same("ptr", reflect.TypeOf((**T28)(nil)).Elem(), reflect.PointerTo(rt))
		w.Same("slice", reflect.TypeOf((*[]T28)(nil)).Elem(), reflect.SliceOf(rt))
		w.Same("array", reflect.TypeOf((*[3]T28)(nil)).Elem(), reflect.ArrayOf(3, rt))
		w.Same("chan", reflect.TypeOf((*<-chan T28)(nil)).Elem(), reflect.ChanOf(reflect.RecvDir, rt))
		w.Same("map", reflect.TypeOf((*map[string]T28)(nil)).Elem(), reflect.MapOf(reflect.TypeOf(""), rt))
		w.Same("func", reflect.TypeOf((*func(T28, ...T28) *T28)(nil)).Elem(), reflect.FuncOf([]reflect.Type{rt, reflect.SliceOf(rt)}, []reflect.Type{reflect.PointerTo(rt)}, true))
	})
	var x T28 = MkT28(2)
	var y T28 = MkT28(0)
	var z T28 = MkT28(0)
	var d T28 = MkT28(3)
	var e T28 = MkT28(4)
	w.Value("x", &x)
	w.Value("d", &d)
	w.Deep("xy", &x, &y)
	w.Deep("xz", &x, &z)
	w.Deep("de", &d, &e)
	w.Try("conv", func() { w.Conv("x", &x, partners) })
	w.Fmt("x", &x)
	w.Fmt("z", &z)
	w.ZeroFmt("t", rt)
	w.TypeCalls("d", &d)
	w.Calls("d", &d)
	_, _, _ = y, z, e
}

func U28() {
	w.Header("28", "N/pppuvv(map[string]*[]float32)")
	rt := reflect.TypeOf((*T29)(nil)).Elem()
	w.Try("type", func() { w.Type(rt) })
	partners := []reflect.Type{reflect.TypeOf((*p0.T6)(nil)).Elem(), reflect.TypeOf((*T27)(nil)).Elem(), reflect.TypeOf((*p0.T10)(nil)).Elem()}
	w.Try("matrix", func() { w.Matrix(rt, partners) })
	w.Try("same", func() {
		w.Same("ptr", reflect.TypeOf((**T29)(nil)).Elem(), reflect.PointerTo(rt))
		w.Same("slice", reflect.TypeOf((*[]T29)(nil)).Elem(), reflect.SliceOf(rt))
		w.Same("array", reflect.TypeOf((*[3]T29)(nil)).Elem(), reflect.ArrayOf(3, rt))
		w.Same("chan", reflect.TypeOf((*<-chan T29)(nil)).Elem(), reflect.ChanOf(reflect.RecvDir, rt))
		w.Same("map", reflect.TypeOf((*map[string]T29)(nil)).Elem(), reflect.MapOf(reflect.TypeOf(""), rt))
		w.Same("func", reflect.TypeOf((*func(T29, ...T29) *T29)(nil)).Elem(), reflect.FuncOf([]reflect.Type{rt, reflect.SliceOf(rt)}, []reflect.Type{reflect.PointerTo(rt)}, true))
	})
	var x T29 = MkT29(0)
	var y T29 = MkT29(0)
	var z T29 = MkT29(0)
	var d T29 = MkT29(3)
	var e T29 = MkT29(3)
	w.Value("x", &x)
	w.Value("d", &d)
	w.Deep("xy", &x, &y)
	w.Deep("xz", &x, &z)
	w.Deep("de", &d, &e)
	w.Try("conv", func() { w.Conv("x", &x, partners) })
	w.Fmt("x", &x)
	w.Fmt("z", &z)
	w.ZeroFmt("t", rt)
	w.TypeCalls("d", &d)
	w.Calls("d", &d)
	_, _, _ = y, z, e
}

func U29() {
	w.Header("29", "N([]int16)")
	rt := reflect.TypeOf((*T30)(nil)).Elem()
	w.Try("type", func() { w.Type(rt) })
	partners := []reflect.Type{reflect.TypeOf((*p0.T3)(nil)).Elem(), reflect.TypeOf((*T25)(nil)).Elem(), reflect.TypeOf((*p0.T8)(nil)).Elem()}
	w.Try("matrix", func() { w.Matrix(rt, partners) })
	w.Try("same", func() {
		w.Same("ptr", reflect.TypeOf((**T30)(nil)).Elem(), reflect.PointerTo(rt))
		w.Same("slice", reflect.TypeOf((*[]T30)(nil)).Elem(), reflect.SliceOf(rt))
		w.Same("array", reflect.TypeOf((*[3]T30)(nil)).Elem(), reflect.ArrayOf(3, rt))
		w.Same("chan", reflect.TypeOf((*<-chan T30)(nil)).Elem(), reflect.ChanOf(reflect.RecvDir, rt))
		w.Same("map", reflect.TypeOf((*map[string]T30)(nil)).Elem(), reflect.MapOf(reflect.TypeOf(""), rt))
		w.Same("func", reflect.TypeOf((*func(T30, ...T30) *T30)(nil)).Elem(), reflect.FuncOf([]reflect.Type{rt, reflect.SliceOf(rt)}, []reflect.Type{reflect.PointerTo(rt)}, true))
	})
	var x T30 = MkT30(0)
	var y T30 = MkT30(1)
	var z T30 = MkT30(2)
	var d T30 = MkT30(3)
	var e T30 = MkT30(4)
	w.Value("x", &x)
	w.Value("d", &d)
	w.Deep("xy", &x, &y)
	w.Deep("xz", &x, &z)
	w.Deep("de", &d, &e)
	w.Try("conv", func() { w.Conv("x", &x, partners) })
	w.Fmt("x", &x)
	w.Fmt("z", &z)
	w.ZeroFmt("t", rt)
	w.TypeCalls("d", &d)
	w.Calls("d", &d)
	_, _, _ = y, z, e
}

func U30() {
	w.Header("30", "N(interface{1})")
	rt := reflect.TypeOf((*T31)(nil)).Elem()
	w.Try("type", func() { w.Type(rt) })
	partners := []reflect.Type{reflect.TypeOf((*p0.T4)(nil)).Elem(), reflect.TypeOf((*p0.T17)(nil)).Elem(), reflect.TypeOf((*p0.T15)(nil)).Elem()}
	w.Try("matrix", func() { w.Matrix(rt, partners) })
	w.Try("same", func() {
		w.Same("ptr", reflect.TypeOf((**T31)(nil)).Elem(), reflect.PointerTo(rt))
		w.Same("slice", reflect.TypeOf((*[]T31)(nil)).Elem(), reflect.SliceOf(rt))
		w.Same("array", reflect.TypeOf((*[3]T31)(nil)).Elem(), reflect.ArrayOf(3, rt))
		w.Same("chan", reflect.TypeOf((*<-chan T31)(nil)).Elem(), reflect.ChanOf(reflect.RecvDir, rt))
		w.Same("map", reflect.TypeOf((*map[string]T31)(nil)).Elem(), reflect.MapOf(reflect.TypeOf(""), rt))
		w.Same("func", reflect.TypeOf((*func(T31, ...T31) *T31)(nil)).Elem(), reflect.FuncOf([]reflect.Type{rt, reflect.SliceOf(rt)}, []reflect.Type{reflect.PointerTo(rt)}, true))
	})
	var x T31 = MkT31(2)
	var y T31 = MkT31(0)
	var z T31 = MkT31(0)
	var d T31 = MkT31(3)
	var e T31 = MkT31(4)
	w.Value("x", &x)
	w.Value("d", &d)
	w.Deep("xy", &x, &y)
	w.Deep("xz", &x, &z)
	w.Deep("de", &d, &e)
	w.Try("conv", func() { w.Conv("x", &x, partners) })
	w.Fmt("x", &x)
	w.Fmt("z", &z)
	w.ZeroFmt("t", rt)
	w.TypeCalls("d", &d)
	w.Calls("d", &d)
	_, _, _ = y, z, e
}

func U31() {
	w.Header("31", "N/vvv([]*N)")
	rt := reflect.TypeOf((*T32)(nil)).Elem()
	w.Try("type", func() { w.Type(rt) })
	partners := []reflect.Type{reflect.TypeOf((*p0.T19)(nil)).Elem(), reflect.TypeOf((*p0.T17)(nil)).Elem(), reflect.TypeOf((*T30)(nil)).Elem()}
	w.Try("matrix", func() { w.Matrix(rt, partners) })
	w.Try("same", func() {
		w.Same("ptr", reflect.TypeOf((**T32)(nil)).Elem(), reflect.PointerTo(rt))
		w.Same("slice", reflect.TypeOf((*[]T32)(nil)).Elem(), reflect.SliceOf(rt))
		w.Same("array", reflect.TypeOf((*[3]T32)(nil)).Elem(), reflect.ArrayOf(3, rt))
		w.Same("chan", reflect.TypeOf((*<-chan T32)(nil)).Elem(), reflect.ChanOf(reflect.RecvDir, rt))
		w.Same("map", reflect.TypeOf((*map[string]T32)(nil)).Elem(), reflect.MapOf(reflect.TypeOf(""), rt))
		w.Same("func", reflect.TypeOf((*func(T32, ...T32) *T32)(nil)).Elem(), reflect.FuncOf([]reflect.Type{rt, reflect.SliceOf(rt)}, []reflect.Type{reflect.PointerTo(rt)}, true))
	})
	var x T32 = MkT32(0)
	var y T32 = MkT32(0)
	var z T32 = MkT32(0)
	var d T32 = MkT32(3)
	var e T32 = MkT32(3)
	w.Value("x", &x)
	w.Value("d", &d)
	w.Deep("xy", &x, &y)
	w.Deep("xz", &x, &z)
	w.Deep("de", &d, &e)
	w.Try("conv", func() { w.Conv("x", &x, partners) })
	w.P("F skipped: nil pointers or interfaces on the path of a promoted fmt method")
	w.TypeCalls("d", &d)
	w.Calls("d", &d)
	_, _, _ = y, z, e
}

func U32() {
	w.Header("32", "N(struct{})")
	rt := reflect.TypeOf((*T33)(nil)).Elem()
	w.Try("type", func() { w.Type(rt) })
	partners := []reflect.Type{reflect.TypeOf((*p0.T22)(nil)).Elem(), reflect.TypeOf((*p0.T14)(nil)).Elem(), reflect.TypeOf((*p0.T19)(nil)).Elem()}
	w.Try("matrix", func() { w.Matrix(rt, partners) })
	w.Try("same", func() {
		w.Same("ptr", reflect.TypeOf((**T33)(nil)).Elem(), reflect.PointerTo(rt))
		w.Same("slice", reflect.TypeOf((*[]T33)(nil)).Elem(), reflect.SliceOf(rt))
		w.Same("array", reflect.TypeOf((*[3]T33)(nil)).Elem(), reflect.ArrayOf(3, rt))
		w.Same("chan", reflect.TypeOf((*<-chan T33)(nil)).Elem(), reflect.ChanOf(reflect.RecvDir, rt))
		w.Same("map", reflect.TypeOf((*map[string]T33)(nil)).Elem(), reflect.MapOf(reflect.TypeOf(""), rt))
		w.Same("func", reflect.TypeOf((*func(T33, ...T33) *T33)(nil)).Elem(), reflect.FuncOf([]reflect.Type{rt, reflect.SliceOf(rt)}, []reflect.Type{reflect.PointerTo(rt)}, true))
	})
	var x T33 = MkT33(0)
	var y T33 = MkT33(0)
	var z T33 = MkT33(0)
	var d T33 = MkT33(3)
	var e T33 = MkT33(3)
	w.Value("x", &x)
	w.Value("d", &d)
	w.Deep("xy", &x, &y)
	w.Deep("xz", &x, &z)
	w.Deep("de", &d, &e)
	w.Try("conv", func() { w.Conv("x", &x, partners) })
	w.Fmt("x", &x)
	w.Fmt("z", &z)
	w.ZeroFmt("t", rt)
	w.TypeCalls("d", &d)
	w.Calls("d", &d)
	_, _, _ = y, z, e
}

func U33() {
	w.Header("33", "N/pppppu(N/pvvv([]N))")
	rt := reflect.TypeOf((*T34)(nil)).Elem()
	w.Try("type", func() { w.Type(rt) })
	partners := []reflect.Type{reflect.TypeOf((*p0.T5)(nil)).Elem(), reflect.TypeOf((*p0.T13)(nil)).Elem(), reflect.TypeOf((*p0.T7)(nil)).Elem(), reflect.TypeOf((*p0.T6)(nil)).Elem()}
	w.Try("matrix", func() { w.Matrix(rt, partners) })
	w.Try("same", func() {
		w.Same("ptr", reflect.TypeOf((**T34)(nil)).Elem(), reflect.PointerTo(rt))
		w.Same("slice", reflect.TypeOf((*[]T34)(nil)).Elem(), reflect.SliceOf(rt))
		w.Same("array", reflect.TypeOf((*[3]T34)(nil)).Elem(), reflect.ArrayOf(3, rt))
		w.Same("chan", reflect.TypeOf((*<-chan T34)(nil)).Elem(), reflect.ChanOf(reflect.RecvDir, rt))
		w.Same("map", reflect.TypeOf((*map[string]T34)(nil)).Elem(), reflect.MapOf(reflect.TypeOf(""), rt))
		w.Same("func", reflect.TypeOf((*func(T34, ...T34) *T34)(nil)).Elem(), reflect.FuncOf([]reflect.Type{rt, reflect.SliceOf(rt)}, []reflect.Type{reflect.PointerTo(rt)}, true))
	})
	var x T34 = MkT34(0)
	var y T34 = MkT34(0)
	var z T34 = MkT34(2)
	var d T34 = MkT34(3)
	var e T34 = MkT34(3)
	w.Value("x", &x)
	w.Value("d", &d)
	w.Deep("xy", &x, &y)
	w.Deep("xz", &x, &z)
	w.Deep("de", &d, &e)
	w.Try("conv", func() { w.Conv("x", &x, partners) })
	w.Fmt("x", &x)
	w.Fmt("z", &z)
	w.ZeroFmt("t", rt)
	w.TypeCalls("d", &d)
	w.Calls("d", &d)
	_, _, _ = y, z, e
}

func U34() {
	w.Header("34", "N/vv([]error)")
	rt := reflect.TypeOf((*T35)(nil)).Elem()
	w.Try("type", func() { w.Type(rt) })
	partners := []reflect.Type{reflect.TypeOf((*p0.T4)(nil)).Elem(), reflect.TypeOf((*p0.T22)(nil)).Elem(), reflect.TypeOf((*p0.T8)(nil)).Elem()}
	w.Try("matrix", func() { w.Matrix(rt, partners) })
	w.Try("same", func() {
		w.Same("ptr", reflect.TypeOf((**T35)(nil)).Elem(), reflect.PointerTo(rt))
		w.Same("slice", reflect.TypeOf((*[]T35)(nil)).Elem(), reflect.SliceOf(rt))
		w.Same("array", reflect.TypeOf((*[3]T35)(nil)).Elem(), reflect.ArrayOf(3, rt))
		w.Same("chan", reflect.TypeOf((*<-chan T35)(nil)).Elem(), reflect.ChanOf(reflect.RecvDir, rt))
		w.Same("map", reflect.TypeOf((*map[string]T35)(nil)).Elem(), reflect.MapOf(reflect.TypeOf(""), rt))
		w.Same("func", reflect.TypeOf((*func(T35, ...T35) *T35)(nil)).Elem(), reflect.FuncOf([]reflect.Type{rt, reflect.SliceOf(rt)}, []reflect.Type{reflect.PointerTo(rt)}, true))
	})
	var x T35 = MkT35(2)
	var y T35 = MkT35(0)
	var z T35 = MkT35(0)
	var d T35 = MkT35(3)
	var e T35 = MkT35(4)
	w.Value("x", &x)
	w.Value("d", &d)
	w.Deep("xy", &x, &y)
	w.Deep("xz", &x, &z)
	w.Deep("de", &d, &e)
	w.Try("conv", func() { w.Conv("x", &x, partners) })
	w.Fmt("x", &x)
	w.Fmt("z", &z)
	w.ZeroFmt("t", rt)
	w.TypeCalls("d", &d)
	w.Calls("d", &d)
	_, _, _ = y, z, e
}

func U35() {
	w.Header("35", "N([]N([]N))")
	rt := reflect.TypeOf((*T36)(nil)).Elem()
	w.Try("type", func() { w.Type(rt) })
	partners := []reflect.Type{reflect.TypeOf((*T26)(nil)).Elem(), reflect.TypeOf((*p0.T20)(nil)).Elem(), reflect.TypeOf((*p0.T11)(nil)).Elem()}
	w.Try("matrix", func() { w.Matrix(rt, partners) })
	w.Try("same", func() {
		w.Same("ptr", reflect.TypeOf((**T36)(nil)).Elem(), reflect.PointerTo(rt))
		w.Same("slice", reflect.TypeOf((*[]T36)(nil)).Elem(), reflect.SliceOf(rt))
		w.Same("array", reflect.TypeOf((*[3]T36)(nil)).Elem(), reflect.ArrayOf(3, rt))
		w.Same("chan", reflect.TypeOf((*<-chan T36)(nil)).Elem(), reflect.ChanOf(reflect.RecvDir, rt))
		w.Same("map", reflect.TypeOf((*map[string]T36)(nil)).Elem(), reflect.MapOf(reflect.TypeOf(""), rt))
		w.Same("func", reflect.TypeOf((*func(T36, ...T36) *T36)(nil)).Elem(), reflect.FuncOf([]reflect.Type{rt, reflect.SliceOf(rt)}, []reflect.Type{reflect.PointerTo(rt)}, true))
	})
	var x T36 = MkT36(0)
	var y T36 = MkT36(0)
	var z T36 = MkT36(0)
	var d T36 = MkT36(3)
	var e T36 = MkT36(3)
	w.Value("x", &x)
	w.Value("d", &d)
	w.Deep("xy", &x, &y)
	w.Deep("xz", &x, &z)
	w.Deep("de", &d, &e)
	w.Try("conv", func() { w.Conv("x", &x, partners) })
	w.Fmt("x", &x)
	w.Fmt("z", &z)
	w.ZeroFmt("t", rt)
	w.TypeCalls("d", &d)
	w.Calls("d", &d)
	_, _, _ = y, z, e
}

func U36() {
	w.Header("36", "N(bool)")
	rt := reflect.TypeOf((*T37)(nil)).Elem()
	w.Try("type", func() { w.Type(rt) })
	partners := []reflect.Type{reflect.TypeOf((*p0.T21)(nil)).Elem(), reflect.TypeOf((*T35)(nil)).Elem(), reflect.TypeOf((*T33)(nil)).Elem()}
	w.Try("matrix", func() { w.Matrix(rt, partners) })
	w.Try("same", func() {
		w.Same("ptr", reflect.TypeOf((**T37)(nil)).Elem(), reflect.PointerTo(rt))
		w.Same("slice", reflect.TypeOf((*[]T37)(nil)).Elem(), reflect.SliceOf(rt))
		w.Same("array", reflect.TypeOf((*[3]T37)(nil)).Elem(), reflect.ArrayOf(3, rt))
		w.Same("chan", reflect.TypeOf((*<-chan T37)(nil)).Elem(), reflect.ChanOf(reflect.RecvDir, rt))
		w.Same("map", reflect.TypeOf((*map[string]T37)(nil)).Elem(), reflect.MapOf(reflect.TypeOf(""), rt))
		w.Same("func", reflect.TypeOf((*func(T37, ...T37) *T37)(nil)).Elem(), reflect.FuncOf([]reflect.Type{rt, reflect.SliceOf(rt)}, []reflect.Type{reflect.PointerTo(rt)}, true))
	})
	var x T37 = MkT37(0)
	var y T37 = MkT37(1)
	var z T37 = MkT37(2)
	var d T37 = MkT37(3)
	var e T37 = MkT37(4)
	w.Value("x", &x)
	w.Value("d", &d)
	w.Deep("xy", &x, &y)
	w.Deep("xz", &x, &z)
	w.Deep("de", &d, &e)
	w.Try("conv", func() { w.Conv("x", &x, partners) })
	w.Fmt("x", &x)
	w.Fmt("z", &z)
	w.ZeroFmt("t", rt)
	w.TypeCalls("d", &d)
	w.Calls("d", &d)
	_, _, _ = y, z, e
}

func U37() {
	w.Header("37", "N(uint)")
	rt := reflect.TypeOf((*T38)(nil)).Elem()
	w.Try("type", func() { w.Type(rt) })
	partners := []reflect.Type{reflect.TypeOf((*p0.T2)(nil)).Elem(), reflect.TypeOf((*T28)(nil)).Elem(), reflect.TypeOf((*p0.T21)(nil)).Elem()}
	w.Try("matrix", func() { w.Matrix(rt, partners) })
	w.Try("same", func() {
		w.Same("ptr", reflect.TypeOf((**T38)(nil)).Elem(), reflect.PointerTo(rt))
		w.Same("slice", reflect.TypeOf((*[]T38)(nil)).Elem(), reflect.SliceOf(rt))
		w.Same("array", reflect.TypeOf((*[3]T38)(nil)).Elem(), reflect.ArrayOf(3, rt))
		w.Same("chan", reflect.TypeOf((*<-chan T38)(nil)).Elem(), reflect.ChanOf(reflect.RecvDir, rt))
		w.Same("map", reflect.TypeOf((*map[string]T38)(nil)).Elem(), reflect.MapOf(reflect.TypeOf(""), rt))
		w.Same("func", reflect.TypeOf((*func(T38, ...T38) *T38)(nil)).Elem(), reflect.FuncOf([]reflect.Type{rt, reflect.SliceOf(rt)}, []reflect.Type{reflect.PointerTo(rt)}, true))
	})
	var x T38 = MkT38(2)
	var y T38 = MkT38(0)
	var z T38 = MkT38(0)
	var d T38 = MkT38(3)
	var e T38 = MkT38(4)
	w.Value("x", &x)
	w.Value("d", &d)
	w.Deep("xy", &x, &y)
	w.Deep("xz", &x, &z)
	w.Deep("de", &d, &e)
	w.Try("conv", func() { w.Conv("x", &x, partners) })
	w.Fmt("x", &x)
	w.Fmt("z", &z)
	w.ZeroFmt("t", rt)
	w.TypeCalls("d", &d)
	w.Calls("d", &d)
	_, _, _ = y, z, e
}

func U38() {
	w.Header("38", "N(struct{struct{bool;int32;u:N;u:uint8}`})")
	rt := reflect.TypeOf((*T39)(nil)).Elem()
	w.Try("type", func() { w.Type(rt) })
	partners := []reflect.Type{reflect.TypeOf((*p0.T5)(nil)).Elem(), reflect.TypeOf((*p0.T4)(nil)).Elem(), reflect.TypeOf((*p0.T13)(nil)).Elem()}
	w.Try("matrix", func() { w.Matrix(rt, partners) })
	w.Try("same", func() {
		w.Same("ptr", reflect.TypeOf((**T39)(nil)).Elem(), reflect.PointerTo(rt))
		w.Same("slice", reflect.TypeOf((*[]T39)(nil)).Elem(), reflect.SliceOf(rt))
		w.Same("array", reflect.TypeOf((*[3]T39)(nil)).Elem(), reflect.ArrayOf(3, rt))
		w.Same("chan", reflect.TypeOf((*<-chan T39)(nil)).Elem(), reflect.ChanOf(reflect.RecvDir, rt))
		w.Same("map", reflect.TypeOf((*map[string]T39)(nil)).Elem(), reflect.MapOf(reflect.TypeOf(""), rt))
		w.Same("func", reflect.TypeOf((*func(T39, ...T39) *T39)(nil)).Elem(), reflect.FuncOf([]reflect.Type{rt, reflect.SliceOf(rt)}, []reflect.Type{reflect.PointerTo(rt)}, true))
	})
	var x T39 = MkT39(0)
	var y T39 = MkT39(1)
	var z T39 = MkT39(0)
	var d T39 = MkT39(3)
	var e T39 = MkT39(4)
	w.Value("x", &x)
	w.Value("d", &d)
	w.Deep("xy", &x, &y)
	w.Deep("xz", &x, &z)
	w.Deep("de", &d, &e)
	w.Try("conv", func() { w.Conv("x", &x, partners) })
	w.Fmt("x", &x)
	w.Fmt("z", &z)
	w.ZeroFmt("t", rt)
	w.TypeCalls("d", &d)
	w.Calls("d", &d)
	_, _, _ = y, z, e
}

func U39() {
	w.Header("39", "N(interface{1})")
	rt := reflect.TypeOf((*T40)(nil)).Elem()
	w.Try("type", func() { w.Type(rt) })
	partners := []reflect.Type{reflect.TypeOf((*p0.T6)(nil)).Elem(), reflect.TypeOf((*p0.T17)(nil)).Elem(), reflect.TypeOf((*T27)(nil)).Elem()}
	w.Try("matrix", func() { w.Matrix(rt, partners) })
	w.Try("same", func() {
		w.Same("ptr", reflect.TypeOf((**T40)(nil)).Elem(), reflect.PointerTo(rt))
		w.Same("slice", reflect.TypeOf((*[]T40)(nil)).Elem(), reflect.SliceOf(rt))
		w.Same("array", reflect.TypeOf((*[3]T40)(nil)).Elem(), reflect.ArrayOf(3, rt))
		w.Same("chan", reflect.TypeOf((*<-chan T40)(nil)).Elem(), reflect.ChanOf(reflect.RecvDir, rt))
		w.Same("map", reflect.TypeOf((*map[string]T40)(nil)).Elem(), reflect.MapOf(reflect.TypeOf(""), rt))
		w.Same("func", reflect.TypeOf((*func(T40, ...T40) *T40)(nil)).Elem(), reflect.FuncOf([]reflect.Type{rt, reflect.SliceOf(rt)}, []reflect.Type{reflect.PointerTo(rt)}, true))
	})
	var x T40 = MkT40(0)
	var y T40 = MkT40(1)
	var z T40 = MkT40(0)
	var d T40 = MkT40(3)
	var e T40 = MkT40(3)
	w.Value("x", &x)
	w.Value("d", &d)
	w.Deep("xy", &x, &y)
	w.Deep("xz", &x, &z)
	w.Deep("de", &d, &e)
	w.Try("conv", func() { w.Conv("x", &x, partners) })
	w.Fmt("x", &x)
	w.Fmt("z", &z)
	w.ZeroFmt("t", rt)
	w.TypeCalls("d", &d)
	w.Calls("d", &d)
	_, _, _ = y, z, e
}

func U40() {
	w.Header("40", "N/pppvv(g.M[int16,N([]N)])")
	rt := reflect.TypeOf((*T41)(nil)).Elem()
	w.Try("type", func() { w.Type(rt) })
	partners := []reflect.Type{reflect.TypeOf((*T38)(nil)).Elem(), reflect.TypeOf((*T27)(nil)).Elem(), reflect.TypeOf((*p0.T19)(nil)).Elem()}
	w.Try("matrix", func() { w.Matrix(rt, partners) })
	w.Try("same", func() {
		w.Same("ptr", reflect.TypeOf((**T41)(nil)).Elem(), reflect.PointerTo(rt))
		w.Same("slice", reflect.TypeOf((*[]T41)(nil)).Elem(), reflect.SliceOf(rt))
		w.Same("array", reflect.TypeOf((*[3]T41)(nil)).Elem(), reflect.ArrayOf(3, rt))
		w.Same("chan", reflect.TypeOf((*<-chan T41)(nil)).Elem(), reflect.ChanOf(reflect.RecvDir, rt))
		w.Same("map", reflect.TypeOf((*map[string]T41)(nil)).Elem(), reflect.MapOf(reflect.TypeOf(""), rt))
		w.Same("func", reflect.TypeOf((*func(T41, ...T41) *T41)(nil)).Elem(), reflect.FuncOf([]reflect.Type{rt, reflect.SliceOf(rt)}, []reflect.Type{reflect.PointerTo(rt)}, true))
	})
	var x T41 = MkT41(0)
	var y T41 = MkT41(0)
	var z T41 = MkT41(2)
	var d T41 = MkT41(3)
	var e T41 = MkT41(3)
	w.Value("x", &x)
	w.Value("d", &d)
	w.Deep("xy", &x, &y)
	w.Deep("xz", &x, &z)
	w.Deep("de", &d, &e)
	w.Try("conv", func() { w.Conv("x", &x, partners) })
	w.Fmt("x", &x)
	w.Fmt("z", &z)
	w.ZeroFmt("t", rt)
	w.TypeCalls("d", &d)
	w.Calls("d", &d)
	_, _, _ = y, z, e
}

func U41() {
	w.Header("41", "N/vvvvvu(map[N/pppp(int16)]N/vvvvvu(map[N]N))")
	rt := reflect.TypeOf((*T42)(nil)).Elem()
	w.Try("type", func() { w.Type(rt) })
	partners := []reflect.Type{reflect.TypeOf((*p0.T13)(nil)).Elem(), reflect.TypeOf((*T25)(nil)).Elem(), reflect.TypeOf((*p0.T13)(nil)).Elem()}
	w.Try("matrix", func() { w.Matrix(rt, partners) })
	w.Try("same", func() {
		w.Same("ptr", reflect.TypeOf((**T42)(nil)).Elem(), reflect.PointerTo(rt))
		w.Same("slice", reflect.TypeOf((*[]T42)(nil)).Elem(), reflect.SliceOf(rt))
		w.Same("array", reflect.TypeOf((*[3]T42)(nil)).Elem(), reflect.ArrayOf(3, rt))
		w.Same("chan", reflect.TypeOf((*<-chan T42)(nil)).Elem(), reflect.ChanOf(reflect.RecvDir, rt))
		w.Same("map", reflect.TypeOf((*map[string]T42)(nil)).Elem(), reflect.MapOf(reflect.TypeOf(""), rt))
		w.Same("func", reflect.TypeOf((*func(T42, ...T42) *T42)(nil)).Elem(), reflect.FuncOf([]reflect.Type{rt, reflect.SliceOf(rt)}, []reflect.Type{reflect.PointerTo(rt)}, true))
	})
	var x T42 = MkT42(2)
	var y T42 = MkT42(2)
	var z T42 = MkT42(0)
	var d T42 = MkT42(3)
	var e T42 = MkT42(3)
	w.Value("x", &x)
	w.Value("d", &d)
	w.Deep("xy", &x, &y)
	w.Deep("xz", &x, &z)
	w.Deep("de", &d, &e)
	w.Try("conv", func() { w.Conv("x", &x, partners) })
	w.Fmt("x", &x)
	w.Fmt("z", &z)
	w.ZeroFmt("t", rt)
	w.TypeCalls("d", &d)
	w.Calls("d", &d)
	_, _, _ = y, z, e
}

func U42() {
	w.Header("42", "N/ppvv([0]int)")
	rt := reflect.TypeOf((*T43)(nil)).Elem()
	w.Try("type", func() { w.Type(rt) })
	partners := []reflect.Type{reflect.TypeOf((*T38)(nil)).Elem(), reflect.TypeOf((*T36)(nil)).Elem(), reflect.TypeOf((*T26)(nil)).Elem()}
	w.Try("matrix", func() { w.Matrix(rt, partners) })
	w.Try("same", func() {
		w.Same("ptr", reflect.TypeOf((**T43)(nil)).Elem(), reflect.PointerTo(rt))
		w.Same("slice", reflect.TypeOf((*[]T43)(nil)).Elem(), reflect.SliceOf(rt))
		w.Same("array", reflect.TypeOf((*[3]T43)(nil)).Elem(), reflect.ArrayOf(3, rt))
		w.Same("chan", reflect.TypeOf((*<-chan T43)(nil)).Elem(), reflect.ChanOf(reflect.RecvDir, rt))
		w.Same("map", reflect.TypeOf((*map[string]T43)(nil)).Elem(), reflect.MapOf(reflect.TypeOf(""), rt))
		w.Same("func", reflect.TypeOf((*func(T43, ...T43) *T43)(nil)).Elem(), reflect.FuncOf([]reflect.Type{rt, reflect.SliceOf(rt)}, []reflect.Type{reflect.PointerTo(rt)}, true))
	})
	var x T43 = MkT43(0)
	var y T43 = MkT43(0)
	var z T43 = MkT43(0)
	var d T43 = MkT43(3)
	var e T43 = MkT43(3)
	w.Value("x", &x)
	w.Value("d", &d)
	w.Deep("xy", &x, &y)
	w.Deep("xz", &x, &z)
	w.Deep("de", &d, &e)
	w.Try("conv", func() { w.Conv("x", &x, partners) })
	w.Fmt("x", &x)
	w.Fmt("z", &z)
	w.ZeroFmt("t", rt)
	w.TypeCalls("d", &d)
	w.Calls("d", &d)
	_, _, _ = y, z, e
}

func U43() {
	w.Header("43", "N/puvv(uint8)")
	rt := reflect.TypeOf((*T44)(nil)).Elem()
	w.Try("type", func() { w.Type(rt) })
	partners := []reflect.Type{reflect.TypeOf((*T30)(nil)).Elem(), reflect.TypeOf((*T26)(nil)).Elem(), reflect.TypeOf((*p0.T9)(nil)).Elem()}
	w.Try("matrix", func() { w.Matrix(rt, partners) })
	w.Try("same", func() {
		w.Same("ptr", reflect.TypeOf((**T44)(nil)).Elem(), reflect.PointerTo(rt))
		w.Same("slice", reflect.TypeOf((*[]T44)(nil)).Elem(), reflect.SliceOf(rt))
		w.Same("array", reflect.TypeOf((*[3]T44)(nil)).Elem(), reflect.ArrayOf(3, rt))
		w.Same("chan", reflect.TypeOf((*<-chan T44)(nil)).Elem(), reflect.ChanOf(reflect.RecvDir, rt))
		w.Same("map", reflect.TypeOf((*map[string]T44)(nil)).Elem(), reflect.MapOf(reflect.TypeOf(""), rt))
		w.Same("func", reflect.TypeOf((*func(T44, ...T44) *T44)(nil)).Elem(), reflect.FuncOf([]reflect.Type{rt, reflect.SliceOf(rt)}, []reflect.Type{reflect.PointerTo(rt)}, true))
	})
	var x T44 = MkT44(0)
	var y T44 = MkT44(1)
	var z T44 = MkT44(2)
	var d T44 = MkT44(3)
	var e T44 = MkT44(4)
	w.Value("x", &x)
	w.Value("d", &d)
	w.Deep("xy", &x, &y)
	w.Deep("xz", &x, &z)
	w.Deep("de", &d, &e)
	w.Try("conv", func() { w.Conv("x", &x, partners) })
	w.Fmt("x", &x)
	w.Fmt("z", &z)
	w.ZeroFmt("t", rt)
	w.TypeCalls("d", &d)
	w.Calls("d", &d)
	_, _, _ = y, z, e
}

func U44() {
	w.Header("44", "N(g.Box[N(interface{3u})])")
	rt := reflect.TypeOf((*T45)(nil)).Elem()
	w.Try("type", func() { w.Type(rt) })
	partners := []reflect.Type{reflect.TypeOf((*p0.T11)(nil)).Elem(), reflect.TypeOf((*p0.T5)(nil)).Elem(), reflect.TypeOf((*T43)(nil)).Elem()}
	w.Try("matrix", func() { w.Matrix(rt, partners) })
	w.Try("same", func() {
		w.Same("ptr", reflect.TypeOf((**T45)(nil)).Elem(), reflect.PointerTo(rt))
		w.Same("slice", reflect.TypeOf((*[]T45)(nil)).Elem(), reflect.SliceOf(rt))
		w.Same("array", reflect.TypeOf((*[3]T45)(nil)).Elem(), reflect.ArrayOf(3, rt))
		w.Same("chan", reflect.TypeOf((*<-chan T45)(nil)).Elem(), reflect.ChanOf(reflect.RecvDir, rt))
		w.Same("map", reflect.TypeOf((*map[string]T45)(nil)).Elem(), reflect.MapOf(reflect.TypeOf(""), rt))
		w.Same("func", reflect.TypeOf((*func(T45, ...T45) *T45)(nil)).Elem(), reflect.FuncOf([]reflect.Type{rt, reflect.SliceOf(rt)}, []reflect.Type{reflect.PointerTo(rt)}, true))
	})
	var x T45 = MkT45(2)
	var y T45 = MkT45(0)
	var z T45 = MkT45(0)
	var d T45 = MkT45(3)
	var e T45 = MkT45(4)
	w.Value("x", &x)
	w.Value("d", &d)
	w.Deep("xy", &x, &y)
	w.Deep("xz", &x, &z)
	w.Deep("de", &d, &e)
	w.Try("conv", func() { w.Conv("x", &x, partners) })
	w.Fmt("x", &x)
	w.Fmt("z", &z)
	w.ZeroFmt("t", rt)
	w.TypeCalls("d", &d)
	w.Calls("d", &d)
	_, _, _ = y, z, e
}

func U45() {
	w.Header("45", "N/pppppp(struct{E:N/pvvvv(complex64);[n]struct{uint32;N};*[]N})")
	rt := reflect.TypeOf((*T46)(nil)).Elem()
	w.Try("type", func() { w.Type(rt) })
	partners := []reflect.Type{reflect.TypeOf((*T38)(nil)).Elem(), reflect.TypeOf((*T39)(nil)).Elem(), reflect.TypeOf((*p0.T16)(nil)).Elem()}
	w.Try("matrix", func() { w.Matrix(rt, partners) })
	w.Try("same", func() {
		w.Same("ptr", reflect.TypeOf((**T46)(nil)).Elem(), reflect.PointerTo(rt))
		w.Same("slice", reflect.TypeOf((*[]T46)(nil)).Elem(), reflect.SliceOf(rt))
		w.Same("array", reflect.TypeOf((*[3]T46)(nil)).Elem(), reflect.ArrayOf(3, rt))
		w.Same("chan", reflect.TypeOf((*<-chan T46)(nil)).Elem(), reflect.ChanOf(reflect.RecvDir, rt))
		w.Same("map", reflect.TypeOf((*map[string]T46)(nil)).Elem(), reflect.MapOf(reflect.TypeOf(""), rt))
		w.Same("func", reflect.TypeOf((*func(T46, ...T46) *T46)(nil)).Elem(), reflect.FuncOf([]reflect.Type{rt, reflect.SliceOf(rt)}, []reflect.Type{reflect.PointerTo(rt)}, true))
	})
	var x T46 = MkT46(0)
	var y T46 = MkT46(1)
	var z T46 = MkT46(0)
	var d T46 = MkT46(3)
	var e T46 = MkT46(4)
	w.Value("x", &x)
	w.Value("d", &d)
	w.Deep("xy", &x, &y)
	w.Deep("xz", &x, &z)
	w.Deep("de", &d, &e)
	w.Try("conv", func() { w.Conv("x", &x, partners) })
	w.P("F skipped: nil pointers or interfaces on the path of a promoted fmt method")
	w.TypeCalls("d", &d)
	w.Calls("d", &d)
	_, _, _ = y, z, e
}

func U46() {
	w.Header("46", "N/pvvv(struct{E:N/vv([]error);int16`})")
	rt := reflect.TypeOf((*T47)(nil)).Elem()
	w.Try("type", func() { w.Type(rt) })
	partners := []reflect.Type{reflect.TypeOf((*p0.T21)(nil)).Elem(), reflect.TypeOf((*T34)(nil)).Elem(), reflect.TypeOf((*p0.T20)(nil)).Elem()}
	w.Try("matrix", func() { w.Matrix(rt, partners) })
	w.Try("same", func() {
		w.Same("ptr", reflect.TypeOf((**T47)(nil)).Elem(), reflect.PointerTo(rt))
		w.Same("slice", reflect.TypeOf((*[]T47)(nil)).Elem(), reflect.SliceOf(rt))
		w.Same("array", reflect.TypeOf((*[3]T47)(nil)).Elem(), reflect.ArrayOf(3, rt))
		w.Same("chan", reflect.TypeOf((*<-chan T47)(nil)).Elem(), reflect.ChanOf(reflect.RecvDir, rt))
		w.Same("map", reflect.TypeOf((*map[string]T47)(nil)).Elem(), reflect.MapOf(reflect.TypeOf(""), rt))
		w.Same("func", reflect.TypeOf((*func(T47, ...T47) *T47)(nil)).Elem(), reflect.FuncOf([]reflect.Type{rt, reflect.SliceOf(rt)}, []reflect.Type{reflect.PointerTo(rt)}, true))
	})
	var x T47 = MkT47(0)
	var y T47 = MkT47(1)
	var z T47 = MkT47(0)
	var d T47 = MkT47(3)
	var e T47 = MkT47(4)
	w.Value("x", &x)
	w.Value("d", &d)
	w.Deep("xy", &x, &y)
	w.Deep("xz", &x, &z)
	w.Deep("de", &d, &e)
	w.Try("conv", func() { w.Conv("x", &x, partners) })
	w.Fmt("x", &x)
	w.Fmt("z", &z)
	w.ZeroFmt("t", rt)
	w.TypeCalls("d", &d)
	w.Calls("d", &d)
	_, _, _ = y, z, e
}

func U47() {
	w.Header("47", "N/ppvv(struct{int64`;int})")
	rt := reflect.TypeOf((*T48)(nil)).Elem()
	w.Try("type", func() { w.Type(rt) })
	partners := []reflect.Type{reflect.TypeOf((*p0.T15)(nil)).Elem(), reflect.TypeOf((*p0.T18)(nil)).Elem(), reflect.TypeOf((*p0.T9)(nil)).Elem()}
	w.Try("matrix", func() { w.Matrix(rt, partners) })
	w.Try("same", func() {
		w.Same("ptr", reflect.TypeOf((**T48)(nil)).Elem(), reflect.PointerTo(rt))
		w.Same("slice", reflect.TypeOf((*[]T48)(nil)).Elem(), reflect.SliceOf(rt))
		w.Same("array", reflect.TypeOf((*[3]T48)(nil)).Elem(), reflect.ArrayOf(3, rt))
		w.Same("chan", reflect.TypeOf((*<-chan T48)(nil)).Elem(), reflect.ChanOf(reflect.RecvDir, rt))
		w.Same("map", reflect.TypeOf((*map[string]T48)(nil)).Elem(), reflect.MapOf(reflect.TypeOf(""), rt))
		w.Same("func", reflect.TypeOf((*func(T48, ...T48) *T48)(nil)).Elem(), reflect.FuncOf([]reflect.Type{rt, reflect.SliceOf(rt)}, []reflect.Type{reflect.PointerTo(rt)}, true))
	})
	var x T48 = MkT48(0)
	var y T48 = MkT48(1)
	var z T48 = MkT48(2)
	var d T48 = MkT48(3)
	var e T48 = MkT48(4)
	w.Value("x", &x)
	w.Value("d", &d)
	w.Deep("xy", &x, &y)
	w.Deep("xz", &x, &z)
	w.Deep("de", &d, &e)
	w.Try("conv", func() { w.Conv("x", &x, partners) })
	w.Fmt("x", &x)
	w.Fmt("z", &z)
	w.ZeroFmt("t", rt)
	w.TypeCalls("d", &d)
	w.Calls("d", &d)
	_, _, _ = y, z, e
}

func U72() {
	w.Header("72", "g.Box[N(struct{N`;[n]int`;E:*G`})]")
	rt := reflect.TypeOf((*g.Box[p0.T8])(nil)).Elem()
	w.Try("type", func() { w.Type(rt) })
	partners := []reflect.Type{reflect.TypeOf((*T37)(nil)).Elem(), reflect.TypeOf((*p0.T14)(nil)).Elem(), reflect.TypeOf((*p0.T11)(nil)).Elem()}
	w.Try("matrix", func() { w.Matrix(rt, partners) })
	w.Try("same", func() {
		w.Same("ptr", reflect.TypeOf((**g.Box[p0.T8])(nil)).Elem(), reflect.PointerTo(rt))
		w.Same("slice", reflect.TypeOf((*[]g.Box[p0.T8])(nil)).Elem(), reflect.SliceOf(rt))
		w.Same("array", reflect.TypeOf((*[3]g.Box[p0.T8])(nil)).Elem(), reflect.ArrayOf(3, rt))
		w.Same("chan", reflect.TypeOf((*<-chan g.Box[p0.T8])(nil)).Elem(), reflect.ChanOf(reflect.RecvDir, rt))
		w.Same("map", reflect.TypeOf((*map[string]g.Box[p0.T8])(nil)).Elem(), reflect.MapOf(reflect.TypeOf(""), rt))
		w.Same("func", reflect.TypeOf((*func(g.Box[p0.T8], ...g.Box[p0.T8]) *g.Box[p0.T8])(nil)).Elem(), reflect.FuncOf([]reflect.Type{rt, reflect.SliceOf(rt)}, []reflect.Type{reflect.PointerTo(rt)}, true))
	})
	var x g.Box[p0.T8] = g.MkBox[p0.T8](p0.MkT8(0), 42)
	var y g.Box[p0.T8] = g.MkBox[p0.T8](p0.MkT8(0), 43)
	var z g.Box[p0.T8] = g.MkBox[p0.T8](p0.MkT8(0), 1000)
	var d g.Box[p0.T8] = g.MkBox[p0.T8](p0.MkT8(3), -100)
	var e g.Box[p0.T8] = g.MkBox[p0.T8](p0.MkT8(3), -99)
	w.Value("x", &x)
	w.Value("d", &d)
	w.Deep("xy", &x, &y)
	w.Deep("xz", &x, &z)
	w.Deep("de", &d, &e)
	w.Try("conv", func() { w.Conv("x", &x, partners) })
	w.Fmt("x", &x)
	w.Fmt("z", &z)
	w.ZeroFmt("t", rt)
	w.TypeCalls("d", &d)
	w.Calls("d", &d)
	_, _, _ = y, z, e
}

func U73() {
	w.Header("73", "struct{E:*N(complex64)}")
	rt := reflect.TypeOf((*struct { *p0.T17 })(nil)).Elem()
	w.Try("type", func() { w.Type(rt) })
	partners := []reflect.Type{reflect.TypeOf((*T43)(nil)).Elem(), reflect.TypeOf((*p0.T11)(nil)).Elem(), reflect.TypeOf((*p0.T9)(nil)).Elem()}
	w.Try("matrix", func() { w.Matrix(rt, partners) })
	w.Try("same", func() {
		w.Same("ptr", reflect.TypeOf((**struct { *p0.T17 })(nil)).Elem(), reflect.PointerTo(rt))
		w.Same("slice", reflect.TypeOf((*[]struct { *p0.T17 })(nil)).Elem(), reflect.SliceOf(rt))
		w.Same("array", reflect.TypeOf((*[3]struct { *p0.T17 })(nil)).Elem(), reflect.ArrayOf(3, rt))
		w.Same("chan", reflect.TypeOf((*<-chan struct { *p0.T17 })(nil)).Elem(), reflect.ChanOf(reflect.RecvDir, rt))
		w.Same("map", reflect.TypeOf((*map[string]struct { *p0.T17 })(nil)).Elem(), reflect.MapOf(reflect.TypeOf(""), rt))
		w.Same("func", reflect.TypeOf((*func(struct { *p0.T17 }, ...struct { *p0.T17 }) *struct { *p0.T17 })(nil)).Elem(), reflect.FuncOf([]reflect.Type{rt, reflect.SliceOf(rt)}, []reflect.Type{reflect.PointerTo(rt)}, true))
	})
	var x struct { *p0.T17 } = struct { *p0.T17 }{T17: (*p0.T17)(nil)}
	var y struct { *p0.T17 } = struct { *p0.T17 }{T17: (*p0.T17)(nil)}
	var z struct { *p0.T17 } = struct { *p0.T17 }{T17: (*p0.T17)(nil)}
	var d struct { *p0.T17 } = struct { *p0.T17 }{T17: w.Ptr(p0.MkT17(3))}
	var e struct { *p0.T17 } = struct { *p0.T17 }{T17: w.Ptr(p0.MkT17(4))}
	w.Value("x", &x)
	w.Value("d", &d)
	w.Deep("xy", &x, &y)
	w.Deep("xz", &x, &z)
	w.Deep("de", &d, &e)
	w.Try("conv", func() { w.Conv("x", &x, partners) })
	w.Fmt("x", &x)
	w.Fmt("z", &z)
	w.ZeroFmt("t", rt)
	w.TypeCalls("d", &d)
	w.Calls("d", &d)
	_, _, _ = y, z, e
}

func U74() {
	w.Header("74", "struct{}")
	rt := reflect.TypeOf((*struct{})(nil)).Elem()
	w.Try("type", func() { w.Type(rt) })
	partners := []reflect.Type{reflect.TypeOf((*T42)(nil)).Elem(), reflect.TypeOf((*p0.T5)(nil)).Elem(), reflect.TypeOf((*p0.T16)(nil)).Elem()}
	w.Try("matrix", func() { w.Matrix(rt, partners) })
	w.Try("same", func() {
		w.Same("ptr", reflect.TypeOf((**struct{})(nil)).Elem(), reflect.PointerTo(rt))
		w.Same("slice", reflect.TypeOf((*[]struct{})(nil)).Elem(), reflect.SliceOf(rt))
		w.Same("array", reflect.TypeOf((*[3]struct{})(nil)).Elem(), reflect.ArrayOf(3, rt))
		w.Same("chan", reflect.TypeOf((*<-chan struct{})(nil)).Elem(), reflect.ChanOf(reflect.RecvDir, rt))
		w.Same("map", reflect.TypeOf((*map[string]struct{})(nil)).Elem(), reflect.MapOf(reflect.TypeOf(""), rt))
		w.Same("func", reflect.TypeOf((*func(struct{}, ...struct{}) *struct{})(nil)).Elem(), reflect.FuncOf([]reflect.Type{rt, reflect.SliceOf(rt)}, []reflect.Type{reflect.PointerTo(rt)}, true))
	})
	var x struct{} = struct{}{}
	var y struct{} = struct{}{}
	var z struct{} = struct{}{}
	var d struct{} = struct{}{}
	var e struct{} = struct{}{}
	w.Value("x", &x)
	w.Value("d", &d)
	w.Deep("xy", &x, &y)
	w.Deep("xz", &x, &z)
	w.Deep("de", &d, &e)
	w.Try("conv", func() { w.Conv("x", &x, partners) })
	w.Fmt("x", &x)
	w.Fmt("z", &z)
	w.ZeroFmt("t", rt)
	w.TypeCalls("d", &d)
	w.Calls("d", &d)
	_, _, _ = y, z, e
}

func U82() {
	w.Header("82", "map[uint8]g.Pair[[n]uint,uint32]")
	rt := reflect.TypeOf((*map[uint8]g.Pair[[2]uint, uint32])(nil)).Elem()
	w.Try("type", func() { w.Type(rt) })
	partners := []reflect.Type{reflect.TypeOf((*p0.T19)(nil)).Elem(), reflect.TypeOf((*T40)(nil)).Elem(), reflect.TypeOf((*T28)(nil)).Elem()}
	w.Try("matrix", func() { w.Matrix(rt, partners) })
	w.Try("same", func() {
		w.Same("ptr", reflect.TypeOf((**map[uint8]g.Pair[[2]uint, uint32])(nil)).Elem(), reflect.PointerTo(rt))
		w.Same("slice", reflect.TypeOf((*[]map[uint8]g.Pair[[2]uint, uint32])(nil)).Elem(), reflect.SliceOf(rt))
		w.Same("array", reflect.TypeOf((*[3]map[uint8]g.Pair[[2]uint, uint32])(nil)).Elem(), reflect.ArrayOf(3, rt))
		w.Same("chan", reflect.TypeOf((*<-chan map[uint8]g.Pair[[2]uint, uint32])(nil)).Elem(), reflect.ChanOf(reflect.RecvDir, rt))
		w.Same("map", reflect.TypeOf((*map[string]map[uint8]g.Pair[[2]uint, uint32])(nil)).Elem(), reflect.MapOf(reflect.TypeOf(""), rt))
		w.Same("func", reflect.TypeOf((*func(map[uint8]g.Pair[[2]uint, uint32], ...map[uint8]g.Pair[[2]uint, uint32]) *map[uint8]g.Pair[[2]uint, uint32])(nil)).Elem(), reflect.FuncOf([]reflect.Type{rt, reflect.SliceOf(rt)}, []reflect.Type{reflect.PointerTo(rt)}, true))
	})
	var x map[uint8]g.Pair[[2]uint, uint32] = map[uint8]g.Pair[[2]uint, uint32]{uint8(1): g.MkPair[[2]uint, uint32]([2]uint{uint(1000), uint(9223372036854775813)}, uint32(1000)), uint8(2): g.MkPair[[2]uint, uint32]([2]uint{uint(9223372036854775813), uint(65534)}, uint32(0)), uint8(3): g.MkPair[[2]uint, uint32]([2]uint{uint(42), uint(0)}, uint32(1000))}
	var y map[uint8]g.Pair[[2]uint, uint32] = map[uint8]g.Pair[[2]uint, uint32]{uint8(1): g.MkPair[[2]uint, uint32]([2]uint{uint(1000), uint(9223372036854775813)}, uint32(1000)), uint8(2): g.MkPair[[2]uint, uint32]([2]uint{uint(9223372036854775813), uint(65535)}, uint32(0)), uint8(3): g.MkPair[[2]uint, uint32]([2]uint{uint(42), uint(0)}, uint32(1000))}
	var z map[uint8]g.Pair[[2]uint, uint32] = map[uint8]g.Pair[[2]uint, uint32]{uint8(1): g.MkPair[[2]uint, uint32]([2]uint{uint(42), uint(0)}, uint32(1)), uint8(2): g.MkPair[[2]uint, uint32]([2]uint{uint(65534), uint(1000)}, uint32(1000)), uint8(3): g.MkPair[[2]uint, uint32]([2]uint{uint(1000), uint(1000)}, uint32(1000))}
	var d map[uint8]g.Pair[[2]uint, uint32] = map[uint8]g.Pair[[2]uint, uint32]{uint8(1): g.MkPair[[2]uint, uint32]([2]uint{uint(65534), uint(1000)}, uint32(1000)), uint8(2): g.MkPair[[2]uint, uint32]([2]uint{uint(8589934592), uint(9223372036854775813)}, uint32(200))}
	var e map[uint8]g.Pair[[2]uint, uint32] = map[uint8]g.Pair[[2]uint, uint32]{uint8(1): g.MkPair[[2]uint, uint32]([2]uint{uint(65534), uint(1001)}, uint32(1000)), uint8(2): g.MkPair[[2]uint, uint32]([2]uint{uint(8589934592), uint(9223372036854775813)}, uint32(200))}
	w.Value("x", &x)
	w.Value("d", &d)
	w.Deep("xy", &x, &y)
	w.Deep("xz", &x, &z)
	w.Deep("de", &d, &e)
	w.Try("conv", func() { w.Conv("x", &x, partners) })
	w.Fmt("x", &x)
	w.Fmt("z", &z)
	w.ZeroFmt("t", rt)
	w.TypeCalls("d", &d)
	w.Calls("d", &d)
	_, _, _ = y, z, e
}

func U87() {
	w.Header("87", "g.Box[complex128]")
	rt := reflect.TypeOf((*g.Box[complex128])(nil)).Elem()
	w.Try("type", func() { w.Type(rt) })
	partners := []reflect.Type{reflect.TypeOf((*p0.T13)(nil)).Elem(), reflect.TypeOf((*p0.T7)(nil)).Elem(), reflect.TypeOf((*T47)(nil)).Elem()}
	w.Try("matrix", func() { w.Matrix(rt, partners) })
	w.Try("same", func() {
		w.Same("ptr", reflect.TypeOf((**g.Box[complex128])(nil)).Elem(), reflect.PointerTo(rt))
		w.Same("slice", reflect.TypeOf((*[]g.Box[complex128])(nil)).Elem(), reflect.SliceOf(rt))
		w.Same("array", reflect.TypeOf((*[3]g.Box[complex128])(nil)).Elem(), reflect.ArrayOf(3, rt))
		w.Same("chan", reflect.TypeOf((*<-chan g.Box[complex128])(nil)).Elem(), reflect.ChanOf(reflect.RecvDir, rt))
		w.Same("map", reflect.TypeOf((*map[string]g.Box[complex128])(nil)).Elem(), reflect.MapOf(reflect.TypeOf(""), rt))
		w.Same("func", reflect.TypeOf((*func(g.Box[complex128], ...g.Box[complex128]) *g.Box[complex128])(nil)).Elem(), reflect.FuncOf([]reflect.Type{rt, reflect.SliceOf(rt)}, []reflect.Type{reflect.PointerTo(rt)}, true))
	})
	var x g.Box[complex128] = g.MkBox[complex128](complex128(complex(0.5, -0.5)), 1000)
	var y g.Box[complex128] = g.MkBox[complex128](complex128(complex(0.5, -0.5)), 1001)
	var z g.Box[complex128] = g.MkBox[complex128](complex128(complex(1.0, -0.5)), 1000)
	var d g.Box[complex128] = g.MkBox[complex128](complex128(complex(0.5, -0.5)), -1)
	var e g.Box[complex128] = g.MkBox[complex128](complex128(complex(0.5, -0.5)), 0)
	w.Value("x", &x)
	w.Value("d", &d)
	w.Deep("xy", &x, &y)
	w.Deep("xz", &x, &z)
	w.Deep("de", &d, &e)
	w.Try("conv", func() { w.Conv("x", &x, partners) })
	w.Fmt("x", &x)
	w.Fmt("z", &z)
	w.ZeroFmt("t", rt)
	w.TypeCalls("d", &d)
	w.Calls("d", &d)
	_, _, _ = y, z, e
}

func U88() {
	w.Header("88", "func(float64)(N(interface{3u}))")
	rt := reflect.TypeOf((*func(float64) p0.T2)(nil)).Elem()
	w.Try("type", func() { w.Type(rt) })
	partners := []reflect.Type{reflect.TypeOf((*T48)(nil)).Elem(), reflect.TypeOf((*p0.T6)(nil)).Elem(), reflect.TypeOf((*T46)(nil)).Elem()}
	w.Try("matrix", func() { w.Matrix(rt, partners) })
	w.Try("same", func() {
		w.Same("slice", reflect.TypeOf((*[]func(float64) p0.T2)(nil)).Elem(), reflect.SliceOf(rt))
		w.Same("array", reflect.TypeOf((*[3]func(float64) p0.T2)(nil)).Elem(), reflect.ArrayOf(3, rt))
		w.Same("chan", reflect.TypeOf((*<-chan func(float64) p0.T2)(nil)).Elem(), reflect.ChanOf(reflect.RecvDir, rt))
		w.Same("map", reflect.TypeOf((*map[string]func(float64) p0.T2)(nil)).Elem(), reflect.MapOf(reflect.TypeOf(""), rt))
	})
	var x func(float64) p0.T2 = (func(float64) p0.T2)(nil)
	var y func(float64) p0.T2 = (func(float64) p0.T2)(nil)
	var z func(float64) p0.T2 = (func(float64) p0.T2)(nil)
	var d func(float64) p0.T2 = (func(float64) p0.T2)(func(a0 float64) p0.T2 { return p0.MkT2(0) })
	var e func(float64) p0.T2 = (func(float64) p0.T2)(func(a0 float64) p0.T2 { return p0.MkT2(0) })
	w.Value("x", &x)
	w.Value("d", &d)
	w.Deep("xy", &x, &y)
	w.Deep("xz", &x, &z)
	w.Deep("de", &d, &e)
	w.Try("conv", func() { w.Conv("x", &x, partners) })
	w.Fmt("x", &x)
	w.Fmt("z", &z)
	w.ZeroFmt("t", rt)
	w.TypeCalls("d", &d)
	w.Calls("d", &d)
	_, _, _ = y, z, e
}

func U91() {
	w.Header("91", "map[bool]N/pppuvv(map[string]*[]float32)")
	rt := reflect.TypeOf((*map[bool]T29)(nil)).Elem()
	w.Try("type", func() { w.Type(rt) })
	partners := []reflect.Type{reflect.TypeOf((*T40)(nil)).Elem(), reflect.TypeOf((*p0.T14)(nil)).Elem(), reflect.TypeOf((*p0.T14)(nil)).Elem()}
	w.Try("matrix", func() { w.Matrix(rt, partners) })
	w.Try("same", func() {
		w.Same("ptr", reflect.TypeOf((**map[bool]T29)(nil)).Elem(), reflect.PointerTo(rt))
		w.Same("slice", reflect.TypeOf((*[]map[bool]T29)(nil)).Elem(), reflect.SliceOf(rt))
		w.Same("array", reflect.TypeOf((*[3]map[bool]T29)(nil)).Elem(), reflect.ArrayOf(3, rt))
		w.Same("chan", reflect.TypeOf((*<-chan map[bool]T29)(nil)).Elem(), reflect.ChanOf(reflect.RecvDir, rt))
		w.Same("map", reflect.TypeOf((*map[string]map[bool]T29)(nil)).Elem(), reflect.MapOf(reflect.TypeOf(""), rt))
		w.Same("func", reflect.TypeOf((*func(map[bool]T29, ...map[bool]T29) *map[bool]T29)(nil)).Elem(), reflect.FuncOf([]reflect.Type{rt, reflect.SliceOf(rt)}, []reflect.Type{reflect.PointerTo(rt)}, true))
	})
	var x map[bool]T29 = map[bool]T29(nil)
	var y map[bool]T29 = map[bool]T29(nil)
	var z map[bool]T29 = map[bool]T29{bool(false): MkT29(2), bool(true): MkT29(0)}
	var d map[bool]T29 = map[bool]T29(nil)
	var e map[bool]T29 = map[bool]T29(nil)
	w.Value("x", &x)
	w.Value("d", &d)
	w.Deep("xy", &x, &y)
	w.Deep("xz", &x, &z)
	w.Deep("de", &d, &e)
	w.Try("conv", func() { w.Conv("x", &x, partners) })
	w.Fmt("x", &x)
	w.Fmt("z", &z)
	w.ZeroFmt("t", rt)
	w.TypeCalls("d", &d)
	w.Calls("d", &d)
	_, _, _ = y, z, e
}

func U92() {
	w.Header("92", "g.Pair[float64,N/vvvvvu(map[N]N)]")
	rt := reflect.TypeOf((*g.Pair[float64, T42])(nil)).Elem()
	w.Try("type", func() { w.Type(rt) })
	partners := []reflect.Type{reflect.TypeOf((**float32)(nil)).Elem(), reflect.TypeOf((*p0.T19)(nil)).Elem(), reflect.TypeOf((*T43)(nil)).Elem()}
	w.Try("matrix", func() { w.Matrix(rt, partners) })
	w.Try("same", func() {
		w.Same("ptr", reflect.TypeOf((**g.Pair[float64, T42])(nil)).Elem(), reflect.PointerTo(rt))
		w.Same("slice", reflect.TypeOf((*[]g.Pair[float64, T42])(nil)).Elem(), reflect.SliceOf(rt))
		w.Same("array", reflect.TypeOf((*[3]g.Pair[float64, T42])(nil)).Elem(), reflect.ArrayOf(3, rt))
		w.Same("chan", reflect.TypeOf((*<-chan g.Pair[float64, T42])(nil)).Elem(), reflect.ChanOf(reflect.RecvDir, rt))
		w.Same("map", reflect.TypeOf((*map[string]g.Pair[float64, T42])(nil)).Elem(), reflect.MapOf(reflect.TypeOf(""), rt))
		w.Same("func", reflect.TypeOf((*func(g.Pair[float64, T42], ...g.Pair[float64, T42]) *g.Pair[float64, T42])(nil)).Elem(), reflect.FuncOf([]reflect.Type{rt, reflect.SliceOf(rt)}, []reflect.Type{reflect.PointerTo(rt)}, true))
	})
	var x g.Pair[float64, T42] = g.MkPair[float64, T42](float64(3.75), MkT42(0))
	var y g.Pair[float64, T42] = g.MkPair[float64, T42](float64(4.25), MkT42(0))
	var z g.Pair[float64, T42] = g.MkPair[float64, T42](float64(0.0), MkT42(2))
	var d g.Pair[float64, T42] = g.MkPair[float64, T42](float64(1.0), MkT42(3))
	var e g.Pair[float64, T42] = g.MkPair[float64, T42](float64(1.5), MkT42(3))
	w.Value("x", &x)
	w.Value("d", &d)
	w.Deep("xy", &x, &y)
	w.Deep("xz", &x, &z)
	w.Deep("de", &d, &e)
	w.Try("conv", func() { w.Conv("x", &x, partners) })
	w.Fmt("x", &x)
	w.Fmt("z", &z)
	w.ZeroFmt("t", rt)
	w.TypeCalls("d", &d)
	w.Calls("d", &d)
	_, _, _ = y, z, e
}

func U96() {
	w.Header("96", "func()([n]N/ppvvvv([]N),complex64)")
	rt := reflect.TypeOf((*func() ([3]p0.T21, complex64))(nil)).Elem()
	w.Try("type", func() { w.Type(rt) })
	partners := []reflect.Type{reflect.TypeOf((*fmt.Stringer)(nil)).Elem(), reflect.TypeOf((*fmt.Stringer)(nil)).Elem(), reflect.TypeOf((*struct { F0 interface{}; F1 g.Num[p0.T13]; F2 *p0.T20; F3 uint64; F4 [2]p0.T16 })(nil)).Elem()}
	w.Try("matrix", func() { w.Matrix(rt, partners) })
	w.Try("same", func() {
		w.Same("slice", reflect.TypeOf((*[]func() ([3]p0.T21, complex64))(nil)).Elem(), reflect.SliceOf(rt))
		w.Same("array", reflect.TypeOf((*[3]func() ([3]p0.T21, complex64))(nil)).Elem(), reflect.ArrayOf(3, rt))
		w.Same("chan", reflect.TypeOf((*<-chan func() ([3]p0.T21, complex64))(nil)).Elem(), reflect.ChanOf(reflect.RecvDir, rt))
		w.Same("map", reflect.TypeOf((*map[string]func() ([3]p0.T21, complex64))(nil)).Elem(), reflect.MapOf(reflect.TypeOf(""), rt))
	})
	var x func() ([3]p0.T21, complex64) = (func() ([3]p0.T21, complex64))(nil)
	var y func() ([3]p0.T21, complex64) = (func() ([3]p0.T21, complex64))(nil)
	var z func() ([3]p0.T21, complex64) = (func() ([3]p0.T21, complex64))(nil)
	var d func() ([3]p0.T21, complex64) = (func() ([3]p0.T21, complex64))(func() ([3]p0.T21, complex64) { return [3]p0.T21{p0.MkT21(2), p0.MkT21(2), p0.MkT21(0)}, complex64(complex(-2.5, 0.0)) })
	var e func() ([3]p0.T21, complex64) = (func() ([3]p0.T21, complex64))(func() ([3]p0.T21, complex64) { return [3]p0.T21{p0.MkT21(2), p0.MkT21(2), p0.MkT21(0)}, complex64(complex(-2.5, 0.0)) })
	w.Value("x", &x)
	w.Value("d", &d)
	w.Deep("xy", &x, &y)
	w.Deep("xz", &x, &z)
	w.Deep("de", &d, &e)
	w.Try("conv", func() { w.Conv("x", &x, partners) })
	w.Fmt("x", &x)
	w.Fmt("z", &z)
	w.ZeroFmt("t", rt)
	w.TypeCalls("d", &d)
	w.Calls("d", &d)
	_, _, _ = y, z, e
}

func U100() {
	w.Header("100", "g.List[N/ppp(struct{})]")
	rt := reflect.TypeOf((*g.List[T25])(nil)).Elem()
	w.Try("type", func() { w.Type(rt) })
	partners := []reflect.Type{reflect.TypeOf((*map[p0.T13]bool)(nil)).Elem(), reflect.TypeOf((*T25)(nil)).Elem(), reflect.TypeOf((*p0.T17)(nil)).Elem()}
	w.Try("matrix", func() { w.Matrix(rt, partners) })
	w.Try("same", func() {
		w.Same("ptr", reflect.TypeOf((**g.List[T25])(nil)).Elem(), reflect.PointerTo(rt))
		w.Same("slice", reflect.TypeOf((*[]g.List[T25])(nil)).Elem(), reflect.SliceOf(rt))
		w.Same("array", reflect.TypeOf((*[3]g.List[T25])(nil)).Elem(), reflect.ArrayOf(3, rt))
		w.Same("chan", reflect.TypeOf((*<-chan g.List[T25])(nil)).Elem(), reflect.ChanOf(reflect.RecvDir, rt))
		w.Same("map", reflect.TypeOf((*map[string]g.List[T25])(nil)).Elem(), reflect.MapOf(reflect.TypeOf(""), rt))
		w.Same("func", reflect.TypeOf((*func(g.List[T25], ...g.List[T25]) *g.List[T25])(nil)).Elem(), reflect.FuncOf([]reflect.Type{rt, reflect.SliceOf(rt)}, []reflect.Type{reflect.PointerTo(rt)}, true))
	})
	var x g.List[T25] = g.List[T25]{MkT25(2), MkT25(0)}
	var y g.List[T25] = g.List[T25]{MkT25(2), MkT25(0)}
	var z g.List[T25] = g.List[T25]{MkT25(0)}
	var d g.List[T25] = g.List[T25]{MkT25(3), MkT25(3)}
	var e g.List[T25] = g.List[T25]{MkT25(3), MkT25(3)}
	w.Value("x", &x)
	w.Value("d", &d)
	w.Deep("xy", &x, &y)
	w.Deep("xz", &x, &z)
	w.Deep("de", &d, &e)
	w.Try("conv", func() { w.Conv("x", &x, partners) })
	w.Fmt("x", &x)
	w.Fmt("z", &z)
	w.ZeroFmt("t", rt)
	w.TypeCalls("d", &d)
	w.Calls("d", &d)
	_, _, _ = y, z, e
}

func U101() {
	w.Header("101", "error")
	rt := reflect.TypeOf((*error)(nil)).Elem()
	w.Try("type", func() { w.Type(rt) })
	partners := []reflect.Type{reflect.TypeOf((*T37)(nil)).Elem(), reflect.TypeOf((*[]g.Wrap[p0.T24])(nil)).Elem(), reflect.TypeOf((*T48)(nil)).Elem()}
	w.Try("matrix", func() { w.Matrix(rt, partners) })
	w.Try("same", func() {
		w.Same("ptr", reflect.TypeOf((**error)(nil)).Elem(), reflect.PointerTo(rt))
		w.Same("slice", reflect.TypeOf((*[]error)(nil)).Elem(), reflect.SliceOf(rt))
		w.Same("array", reflect.TypeOf((*[3]error)(nil)).Elem(), reflect.ArrayOf(3, rt))
		w.Same("chan", reflect.TypeOf((*<-chan error)(nil)).Elem(), reflect.ChanOf(reflect.RecvDir, rt))
		w.Same("map", reflect.TypeOf((*map[string]error)(nil)).Elem(), reflect.MapOf(reflect.TypeOf(""), rt))
		w.Same("func", reflect.TypeOf((*func(error, ...error) *error)(nil)).Elem(), reflect.FuncOf([]reflect.Type{rt, reflect.SliceOf(rt)}, []reflect.Type{reflect.PointerTo(rt)}, true))
	})
	var x error = error(w.Err{"héllo"})
	var y error = error(w.Err{"héllo~"})
	var z error = error(nil)
	var d error = error(w.Err{""})
	var e error = error(w.Err{"~"})
	w.Value("x", &x)
	w.Value("d", &d)
	w.Deep("xy", &x, &y)
	w.Deep("xz", &x, &z)
	w.Deep("de", &d, &e)
	w.Try("conv", func() { w.Conv("x", &x, partners) })
	w.Fmt("x", &x)
	w.Fmt("z", &z)
	w.ZeroFmt("t", rt)
	w.TypeCalls("d", &d)
	w.Calls("d", &d)
	_, _, _ = y, z, e
}

func U104() {
	w.Header("104", "[]int32")
	rt := reflect.TypeOf((*[]int32)(nil)).Elem()
	w.Try("type", func() { w.Type(rt) })
	partners := []reflect.Type{reflect.TypeOf((*T46)(nil)).Elem(), reflect.TypeOf((*p0.T18)(nil)).Elem(), reflect.TypeOf((*p0.T10)(nil)).Elem()}
	w.Try("matrix", func() { w.Matrix(rt, partners) })
	w.Try("same", func() {
		w.Same("ptr", reflect.TypeOf((**[]int32)(nil)).Elem(), reflect.PointerTo(rt))
		w.Same("slice", reflect.TypeOf((*[][]int32)(nil)).Elem(), reflect.SliceOf(rt))
		w.Same("array", reflect.TypeOf((*[3][]int32)(nil)).Elem(), reflect.ArrayOf(3, rt))
		w.Same("chan", reflect.TypeOf((*<-chan []int32)(nil)).Elem(), reflect.ChanOf(reflect.RecvDir, rt))
		w.Same("map", reflect.TypeOf((*map[string][]int32)(nil)).Elem(), reflect.MapOf(reflect.TypeOf(""), rt))
		w.Same("func", reflect.TypeOf((*func([]int32, ...[]int32) *[]int32)(nil)).Elem(), reflect.FuncOf([]reflect.Type{rt, reflect.SliceOf(rt)}, []reflect.Type{reflect.PointerTo(rt)}, true))
	})
	var x []int32 = []int32{int32(65), int32(-30000)}
	var y []int32 = []int32{int32(65), int32(-29999)}
	var z []int32 = []int32(nil)
	var d []int32 = []int32{int32(0)}
	var e []int32 = []int32{int32(1)}
	w.Value("x", &x)
	w.Value("d", &d)
	w.Deep("xy", &x, &y)
	w.Deep("xz", &x, &z)
	w.Deep("de", &d, &e)
	w.Try("conv", func() { w.Conv("x", &x, partners) })
	w.Fmt("x", &x)
	w.Fmt("z", &z)
	w.ZeroFmt("t", rt)
	w.TypeCalls("d", &d)
	w.Calls("d", &d)
	_, _, _ = y, z, e
}

func U106() {
	w.Header("106", "[]*chanuint32")
	rt := reflect.TypeOf((*[]*chan uint32)(nil)).Elem()
	w.Try("type", func() { w.Type(rt) })
	partners := []reflect.Type{reflect.TypeOf((*p0.T24)(nil)).Elem(), reflect.TypeOf((*p0.T15)(nil)).Elem(), reflect.TypeOf((*p0.T18)(nil)).Elem()}
	w.Try("matrix", func() { w.Matrix(rt, partners) })
	w.Try("same", func() {
		w.Same("ptr", reflect.TypeOf((**[]*chan uint32)(nil)).Elem(), reflect.PointerTo(rt))
		w.Same("slice", reflect.TypeOf((*[][]*chan uint32)(nil)).Elem(), reflect.SliceOf(rt))
		w.Same("array", reflect.TypeOf((*[3][]*chan uint32)(nil)).Elem(), reflect.ArrayOf(3, rt))
		w.Same("chan", reflect.TypeOf((*<-chan []*chan uint32)(nil)).Elem(), reflect.ChanOf(reflect.RecvDir, rt))
		w.Same("map", reflect.TypeOf((*map[string][]*chan uint32)(nil)).Elem(), reflect.MapOf(reflect.TypeOf(""), rt))
		w.Same("func", reflect.TypeOf((*func([]*chan uint32, ...[]*chan uint32) *[]*chan uint32)(nil)).Elem(), reflect.FuncOf([]reflect.Type{rt, reflect.SliceOf(rt)}, []reflect.Type{reflect.PointerTo(rt)}, true))
	})
	var x []*chan uint32 = []*chan uint32{(*chan uint32)(nil)}
	var y []*chan uint32 = []*chan uint32{(*chan uint32)(nil)}
	var z []*chan uint32 = []*chan uint32{(*chan uint32)(nil), (*chan uint32)(nil)}
	var d []*chan uint32 = []*chan uint32{w.Ptr((chan uint32)(make(chan uint32, 3))), (*chan uint32)(nil)}
	var e []*chan uint32 = []*chan uint32{w.Ptr((chan uint32)(make(chan uint32, 3))), (*chan uint32)(nil)}
	w.Value("x", &x)
	w.Value("d", &d)
	w.Deep("xy", &x, &y)
	w.Deep("xz", &x, &z)
	w.Deep("de", &d, &e)
	w.Try("conv", func() { w.Conv("x", &x, partners) })
	w.Fmt("x", &x)
	w.Fmt("z", &z)
	w.ZeroFmt("t", rt)
	w.TypeCalls("d", &d)
	w.Calls("d", &d)
	_, _, _ = y, z, e
}

func U113() {
	w.Header("113", "[]N(interface{2u})")
	rt := reflect.TypeOf((*[]p0.T3)(nil)).Elem()
	w.Try("type", func() { w.Type(rt) })
	partners := []reflect.Type{reflect.TypeOf((*T29)(nil)).Elem(), reflect.TypeOf((*T35)(nil)).Elem(), reflect.TypeOf((*p0.T14)(nil)).Elem()}
	w.Try("matrix", func() { w.Matrix(rt, partners) })
	w.Try("same", func() {
		w.Same("ptr", reflect.TypeOf((**[]p0.T3)(nil)).Elem(), reflect.PointerTo(rt))
		w.Same("slice", reflect.TypeOf((*[][]p0.T3)(nil)).Elem(), reflect.SliceOf(rt))
		w.Same("array", reflect.TypeOf((*[3][]p0.T3)(nil)).Elem(), reflect.ArrayOf(3, rt))
		w.Same("chan", reflect.TypeOf((*<-chan []p0.T3)(nil)).Elem(), reflect.ChanOf(reflect.RecvDir, rt))
		w.Same("map", reflect.TypeOf((*map[string][]p0.T3)(nil)).Elem(), reflect.MapOf(reflect.TypeOf(""), rt))
		w.Same("func", reflect.TypeOf((*func([]p0.T3, ...[]p0.T3) *[]p0.T3)(nil)).Elem(), reflect.FuncOf([]reflect.Type{rt, reflect.SliceOf(rt)}, []reflect.Type{reflect.PointerTo(rt)}, true))
	})
	var x []p0.T3 = []p0.T3{p0.MkT3(2), p0.MkT3(2)}
	var y []p0.T3 = []p0.T3{p0.MkT3(2), p0.MkT3(2)}
	var z []p0.T3 = []p0.T3{}
	var d []p0.T3 = []p0.T3{}
	var e []p0.T3 = []p0.T3{}
	w.Value("x", &x)
	w.Value("d", &d)
	w.Deep("xy", &x, &y)
	w.Deep("xz", &x, &z)
	w.Deep("de", &d, &e)
	w.Try("conv", func() { w.Conv("x", &x, partners) })
	w.Fmt("x", &x)
	w.Fmt("z", &z)
	w.ZeroFmt("t", rt)
	w.TypeCalls("d", &d)
	w.Calls("d", &d)
	_, _, _ = y, z, e
}

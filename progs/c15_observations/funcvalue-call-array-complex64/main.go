package main

import (
	"os"
	"strconv"

	"Zmod/sub/p0"
	"Zmod/sub/p1"
	"Zmod/sub/p2"
	"Zmod/sub/w"
)

var _ = p0.U0
var _ = p1.U24
var _ = p2.U48

func main() {
	from := 0
	if len(os.Args) > 1 {
		from, _ = strconv.Atoi(os.Args[1])
	}
	w.Avoid["C15-alias-generic-link"] = true
	w.Avoid["C15-alias-struct-methods-link"] = true
	w.Avoid["C15-alias-typelist"] = true
	w.Avoid["C15-call-pointer-args"] = true
	w.Avoid["C15-call-zero-size"] = true
	w.Avoid["C15-chan-paren"] = true
	w.Avoid["C15-convert-float32"] = true
	w.Avoid["C15-convert-int-narrow"] = true
	w.Avoid["C15-embedded-generic-compile"] = true
	w.Avoid["C15-empty-string-to-slice"] = true
	w.Avoid["C15-func-elem-size"] = true
	w.Avoid["C15-func-struct-tags"] = true
	w.Avoid["C15-funcof-func-identity"] = true
	w.Avoid["C15-main-pkg-path"] = true
	w.Avoid["C15-map-indirect-slot-size"] = true
	w.Avoid["C15-method-direct-addressable"] = true
	w.Avoid["C15-method-order-pkgpath"] = true
	w.Avoid["C15-named-func-type"] = true
	w.Avoid["C15-named-iface-pkgpath"] = true
	w.Avoid["C15-named-ptr-string"] = true
	w.Avoid["C15-ptr-func-addr"] = true
	w.Avoid["C15-ptrto-extra-star"] = true
	w.Avoid["C15-recursive-func-struct-offsets"] = true
	w.Avoid["C15-structstr-tags"] = true
	w.Avoid["C15-tag-collision"] = true
	w.Avoid["C15-trailing-zero-size"] = true
	w.Avoid["C15-typearg-struct-string"] = true
	units := []func(){p1.U96}
	for i, u := range units {
		if i >= from {
			w.Try("unit", u)
		}
	}
	w.P("END " + strconv.Itoa(len(units)))
}

package p0

import (
	"fmt"
	"reflect"
	"strconv"
	"unsafe"
	"Zmod/sub/g"
	"Zmod/sub/w"
)

var _ = fmt.Sprint
var _ = reflect.TypeOf
var _ = strconv.Itoa
var _ unsafe.Pointer
var _ g.Box[int]
var _ = w.P

type T0_ struct{}

type T1 struct { F0 struct{}; F1 map[int32][0]complex128 }

func (r *T1) Name() string {
	if r == nil {
		return "nilT1"
	}
	return "T1.Name#" + strconv.Itoa(0)
}

func (r T1) String() string {
	return "T1.String#" + strconv.Itoa(0)
}

func (r T1) Sum(xs ...int) int {
	s := len(xs) * 1000
	for _, x := range xs {
		s += x
	}
	return s + 0
}

func (r *T1) Wide(a int8, b float64, c string, d uint16, e bool) (float64, bool) {
	if r == nil {
		return 0, false
	}
	return float64(a) + b*2 + float64(len(c)) + float64(d) + float64(0), !e
}

func (r T1) hid(x int) int {
	return x + 105
}

type T2 interface { String() string; Sum(...int) int; hid(int) int }

type T3 interface { String() string; hid(int) int }

type T4 g.Wrap[T3]

func (r T4) Add(a int, b int) int {
	return a*2 + b + 0
}

func (r T4) Self() T4 {
	return r
}

func (r *T4) Set(x int) {
	if r == nil {
		return
	}
	_ = x
}

func (r T4) unexp() {
}

type T5 []T5

func (r T5) Get() int {
	return 105 + len(r)
}

func (r T5) String() string {
	return "T5.String#" + strconv.Itoa(len(r))
}

func (r *T5) Sum(xs ...int) int {
	if r == nil {
		return -1
	}
	s := len(xs) * 1000
	for _, x := range xs {
		s += x
	}
	return s + len((*r))
}

func (r T5) Wide(a int8, b float64, c string, d uint16, e bool) (float64, bool) {
	return float64(a) + b*2 + float64(len(c)) + float64(d) + float64(len(r)), !e
}

type T6 struct { f0 *[2]T3; f1 *T6 `json:"b,omitempty" k:"v1"` }

func (r T6) Add(a int, b int) int {
	return a*2 + b + 0
}

func (r T6) Get() int {
	return 107 + 0
}

func (r *T6) hid(x int) int {
	if r == nil {
		return -1
	}
	return x + 108
}

type T7 string

func (r *T7) Get() int {
	if r == nil {
		return -1
	}
	return 107 + len((*r))
}

func (r T7) Name() string {
	return "T7.Name#" + strconv.Itoa(len(r))
}

func (r T7) String() string {
	return "T7.String#" + strconv.Itoa(len(r))
}

func (r T7) Wide(a int8, b float64, c string, d uint16, e bool) (float64, bool) {
	return float64(a) + b*2 + float64(len(c)) + float64(d) + float64(len(r)), !e
}

type T8 struct { F0 T5 `k:"\u00e9\"q"`; F1 [2]int `k:"x y"`; *g.Box[int] `raw tag no colon` }

type T9 complex64

func (r T9) Get() int {
	return 109 + 0
}

func (r T9) Name() string {
	return "T9.Name#" + strconv.Itoa(0)
}

func (r T9) Self() T9 {
	return r
}

func (r *T9) Sum(xs ...int) int {
	if r == nil {
		return -1
	}
	s := len(xs) * 1000
	for _, x := range xs {
		s += x
	}
	return s + 0
}

func (r T9) Two() (int, string) {
	return 113 + 0, "T9"
}

type T10 complex128

func (r T10) GoString() string {
	return "p0.MkT10(" + strconv.Itoa(0) + ")"
}

func (r T10) String() string {
	return "T10.String#" + strconv.Itoa(0)
}

func (r T10) Sum(xs ...int) int {
	s := len(xs) * 1000
	for _, x := range xs {
		s += x
	}
	return s + 0
}

type T11 struct { F0 T4 `k:"\u00e9\"q"`; F1 T1; F2 chan<- map[uint]T1 }

type T12 int16

func (r *T12) Format(f fmt.State, c rune) {
	if r == nil {
		fmt.Fprint(f, "nilT12")
		return
	}
	w_, wok := f.Width()
	p_, pok := f.Precision()
	fmt.Fprintf(f, "T12{%c w=%d/%t p=%d/%t +%t -%t #%t sp%t 0%t n=%d}", c, w_, wok, p_, pok, f.Flag('+'), f.Flag('-'), f.Flag('#'), f.Flag(' '), f.Flag('0'), int((*r)))
}

func (r *T12) Name() string {
	if r == nil {
		return "nilT12"
	}
	return "T12.Name#" + strconv.Itoa(int((*r)))
}

func (r *T12) Self() *T12 {
	return r
}

func (r *T12) String() string {
	if r == nil {
		return "nilT12"
	}
	return "T12.String#" + strconv.Itoa(int((*r)))
}

type T13 float64

func (r *T13) Cplx(c complex128) complex64 {
	if r == nil {
		return 0
	}
	return complex64(c) + complex(float32(int((*r))), 1)
}

func (r *T13) Format(f fmt.State, c rune) {
	if r == nil {
		fmt.Fprint(f, "nilT13")
		return
	}
	w_, wok := f.Width()
	p_, pok := f.Precision()
	fmt.Fprintf(f, "T13{%c w=%d/%t p=%d/%t +%t -%t #%t sp%t 0%t n=%d}", c, w_, wok, p_, pok, f.Flag('+'), f.Flag('-'), f.Flag('#'), f.Flag(' '), f.Flag('0'), int((*r)))
}

func (r *T13) GoString() string {
	if r == nil {
		return "(*p0.T13)(nil)"
	}
	return "p0.MkT13(" + strconv.Itoa(int((*r))) + ")"
}

func (r *T13) Self() *T13 {
	return r
}

func (r *T13) String() string {
	if r == nil {
		return "nilT13"
	}
	return "T13.String#" + strconv.Itoa(int((*r)))
}

func (r *T13) hid(x int) int {
	if r == nil {
		return -1
	}
	return x + 118
}

type T14 struct { T1; F1 []T14; F2 T2 }

func (r *T14) Error() string {
	if r == nil {
		return "nilT14"
	}
	return "T14.Error#" + strconv.Itoa(0)
}

func (r *T14) String() string {
	if r == nil {
		return "nilT14"
	}
	return "T14.String#" + strconv.Itoa(0)
}

type T15 []uint32

func (r *T15) Error() string {
	if r == nil {
		return "nilT15"
	}
	return "T15.Error#" + strconv.Itoa(len((*r)))
}

func (r *T15) GoString() string {
	if r == nil {
		return "(*p0.T15)(nil)"
	}
	return "p0.MkT15(" + strconv.Itoa(len((*r))) + ")"
}

func (r *T15) Set(x int) {
	if r == nil {
		return
	}
	_ = x
}

func (r *T15) String() string {
	if r == nil {
		return "nilT15"
	}
	return "T15.String#" + strconv.Itoa(len((*r)))
}

func (r T15) Sum(xs ...int) int {
	s := len(xs) * 1000
	for _, x := range xs {
		s += x
	}
	return s + len(r)
}

type T16 struct { f0 T14 `json:"a"`; *T8; T10 }

type T17 complex64

type T18 struct { T2; F1 map[string]T18; F2 map[bool]T10; T1 }

func (r T18) Self() T18 {
	return r
}

func (r T18) String() string {
	return "T18.String#" + strconv.Itoa(0)
}

func (r T18) With(s string, n ...int8) string {
	t := 0
	for _, x := range n {
		t += int(x)
	}
	return s + ":" + strconv.Itoa(t+len(n)*100+0)
}

type T19 struct { g.Box[T3]; T8; F2 uint64 `k:"x y"` }

func (r T19) Format(f fmt.State, c rune) {
	w_, wok := f.Width()
	p_, pok := f.Precision()
	fmt.Fprintf(f, "T19{%c w=%d/%t p=%d/%t +%t -%t #%t sp%t 0%t n=%d}", c, w_, wok, p_, pok, f.Flag('+'), f.Flag('-'), f.Flag('#'), f.Flag(' '), f.Flag('0'), int(r.F2))
}

func (r *T19) Name() string {
	if r == nil {
		return "nilT19"
	}
	return "T19.Name#" + strconv.Itoa(int(r.F2))
}

func (r T19) Sum(xs ...int) int {
	s := len(xs) * 1000
	for _, x := range xs {
		s += x
	}
	return s + int(r.F2)
}

type T20 struct { *T9 `k:"\u00e9\"q"`; T3 `k:""`; f2 string `raw tag no colon` }

func (r T20) Format(f fmt.State, c rune) {
	w_, wok := f.Width()
	p_, pok := f.Precision()
	fmt.Fprintf(f, "T20{%c w=%d/%t p=%d/%t +%t -%t #%t sp%t 0%t n=%d}", c, w_, wok, p_, pok, f.Flag('+'), f.Flag('-'), f.Flag('#'), f.Flag(' '), f.Flag('0'), 0)
}

func (r *T20) Name() string {
	if r == nil {
		return "nilT20"
	}
	return "T20.Name#" + strconv.Itoa(0)
}

func (r T20) String() string {
	return "T20.String#" + strconv.Itoa(0)
}

func (r T20) Sum(xs ...int) int {
	s := len(xs) * 1000
	for _, x := range xs {
		s += x
	}
	return s + 0
}

type T21 []T8

func (r T21) Add(a int, b int) int {
	return a*2 + b + len(r)
}

func (r T21) Error() string {
	return "T21.Error#" + strconv.Itoa(len(r))
}

func (r *T21) Set(x int) {
	if r == nil {
		return
	}
	_ = x
}

func (r *T21) Sum(xs ...int) int {
	if r == nil {
		return -1
	}
	s := len(xs) * 1000
	for _, x := range xs {
		s += x
	}
	return s + len((*r))
}

func (r T21) Wide(a int8, b float64, c string, d uint16, e bool) (float64, bool) {
	return float64(a) + b*2 + float64(len(c)) + float64(d) + float64(len(r)), !e
}

func (r T21) With(s string, n ...int8) string {
	t := 0
	for _, x := range n {
		t += int(x)
	}
	return s + ":" + strconv.Itoa(t+len(n)*100+len(r))
}

type T22 interface { Add(int, int) int; Wide(int8, float64, string, uint16, bool) (float64, bool); With(string, ...int8) string }

type T23 struct { F0 map[string]T23; F1 T7 }

func (r *T23) Cplx(c complex128) complex64 {
	if r == nil {
		return 0
	}
	return complex64(c) + complex(float32(0), 1)
}

func (r *T23) Format(f fmt.State, c rune) {
	if r == nil {
		fmt.Fprint(f, "nilT23")
		return
	}
	w_, wok := f.Width()
	p_, pok := f.Precision()
	fmt.Fprintf(f, "T23{%c w=%d/%t p=%d/%t +%t -%t #%t sp%t 0%t n=%d}", c, w_, wok, p_, pok, f.Flag('+'), f.Flag('-'), f.Flag('#'), f.Flag(' '), f.Flag('0'), 0)
}

func (r *T23) String() string {
	if r == nil {
		return "nilT23"
	}
	return "T23.String#" + strconv.Itoa(0)
}

func (r *T23) Two() (int, string) {
	if r == nil {
		return -1, "nil"
	}
	return 126 + 0, "T23"
}

type T24 map[bool]struct { _ int16; F1 float64; f2 T17; F3 int64 }

func MkT1(k int) T1 {
	switch k {
	case 1:
		return T1{F0: struct{}{}, F1: map[int32][0]complex128{int32(1): [0]complex128{}, int32(2): [0]complex128{}, int32(3): [0]complex128{}}}
	case 2:
		return T1{F0: struct{}{}, F1: map[int32][0]complex128{}}
	case 3:
		return T1{F0: struct{}{}, F1: map[int32][0]complex128{int32(1): [0]complex128{}}}
	case 4:
		return T1{F0: struct{}{}, F1: map[int32][0]complex128{int32(1): [0]complex128{}}}
	}
	return T1{F0: struct{}{}, F1: map[int32][0]complex128{int32(1): [0]complex128{}, int32(2): [0]complex128{}, int32(3): [0]complex128{}}}
}

func MkT2(k int) T2 {
	switch k {
	case 1:
		return T2(MkT1(0))
	case 2:
		return T2(MkT1(0))
	case 3:
		return T2(MkT1(3))
	case 4:
		return T2(MkT1(3))
	}
	return T2(MkT1(0))
}

func MkT3(k int) T3 {
	switch k {
	case 1:
		return T3(MkT1(0))
	case 2:
		return T3(MkT1(0))
	case 3:
		return T3(MkT1(3))
	case 4:
		return T3(MkT1(3))
	}
	return T3(MkT1(0))
}

func MkT4(k int) T4 {
	switch k {
	case 1:
		return T4(g.MkWrap[T3](MkT3(0), 128512, "hi~"))
	case 2:
		return T4(g.MkWrap[T3](MkT3(0), 1048576, "x y"))
	case 3:
		return T4(g.MkWrap[T3](MkT3(3), 1048576, ""))
	case 4:
		return T4(g.MkWrap[T3](MkT3(3), 1048576, "~"))
	}
	return T4(g.MkWrap[T3](MkT3(0), 128512, "hi"))
}

func MkT5(k int) T5 {
	switch k {
	case 1:
		return T5{*new(T5)}
	case 2:
		return T5{*new(T5), *new(T5)}
	case 3:
		return T5{*new(T5), *new(T5)}
	case 4:
		return T5{*new(T5), *new(T5)}
	}
	return T5{*new(T5)}
}

func MkT6(k int) T6 {
	switch k {
	case 1:
		return T6{f0: (*[2]T3)(nil), f1: (*T6)(nil)}
	case 2:
		return T6{f0: (*[2]T3)(nil), f1: (*T6)(nil)}
	case 3:
		return T6{f0: w.Ptr([2]T3{MkT3(3), MkT3(3)}), f1: w.Ptr(*new(T6))}
	case 4:
		return T6{f0: w.Ptr([2]T3{MkT3(3), MkT3(3)}), f1: w.Ptr(*new(T6))}
	}
	return T6{f0: (*[2]T3)(nil), f1: (*T6)(nil)}
}

func MkT7(k int) T7 {
	switch k {
	case 1:
		return T7("q\"uote~")
	case 2:
		return T7("\x7f")
	case 3:
		return T7("日本")
	case 4:
		return T7("日本~")
	}
	return T7("q\"uote")
}

func MkT8(k int) T8 {
	switch k {
	case 1:
		return T8{F0: MkT5(0), F1: [2]int{int(2147483646), int(-99)}, Box: (*g.Box[int])(nil)}
	case 2:
		return T8{F0: MkT5(0), F1: [2]int{int(128512), int(0)}, Box: (*g.Box[int])(nil)}
	case 3:
		return T8{F0: MkT5(3), F1: [2]int{int(120), int(0)}, Box: w.Ptr(g.MkBox[int](int(1000), 65))}
	case 4:
		return T8{F0: MkT5(3), F1: [2]int{int(120), int(0)}, Box: w.Ptr(g.MkBox[int](int(1000), 66))}
	}
	return T8{F0: MkT5(0), F1: [2]int{int(2147483646), int(-100)}, Box: (*g.Box[int])(nil)}
}

func MkT9(k int) T9 {
	switch k {
	case 1:
		return T9(complex(0.5, 4.25))
	case 2:
		return T9(complex(1.0, 3.25))
	case 3:
		return T9(complex(0.5, -0.5))
	case 4:
		return T9(complex(0.5, 0.5))
	}
	return T9(complex(0.5, 3.25))
}

func MkT10(k int) T10 {
	switch k {
	case 1:
		return T10(complex(1.0, 4.25))
	case 2:
		return T10(complex(0.5, -0.5))
	case 3:
		return T10(complex(0.5, 3.25))
	case 4:
		return T10(complex(0.5, 4.25))
	}
	return T10(complex(1.0, 3.25))
}

func MkT11(k int) T11 {
	switch k {
	case 1:
		return T11{F0: MkT4(1), F1: MkT1(2), F2: (chan<- map[uint]T1)(nil)}
	case 2:
		return T11{F0: MkT4(0), F1: MkT1(0), F2: (chan<- map[uint]T1)(nil)}
	case 3:
		return T11{F0: MkT4(3), F1: MkT1(3), F2: (chan<- map[uint]T1)(make(chan map[uint]T1, 1))}
	case 4:
		return T11{F0: MkT4(4), F1: MkT1(3), F2: (chan<- map[uint]T1)(make(chan map[uint]T1, 1))}
	}
	return T11{F0: MkT4(0), F1: MkT1(2), F2: (chan<- map[uint]T1)(nil)}
}

func MkT12(k int) T12 {
	switch k {
	case 1:
		return T12(-29999)
	case 2:
		return T12(1000)
	case 3:
		return T12(-1)
	case 4:
		return T12(0)
	}
	return T12(-30000)
}

func MkT13(k int) T13 {
	switch k {
	case 1:
		return T13(123457.25)
	case 2:
		return T13(-1.5)
	case 3:
		return T13(1.0)
	case 4:
		return T13(1.5)
	}
	return T13(123456.75)
}

func MkT14(k int) T14 {
	switch k {
	case 1:
		return T14{T1: MkT1(0), F1: []T14(nil), F2: MkT2(2)}
	case 2:
		return T14{T1: MkT1(2), F1: []T14{*new(T14), *new(T14)}, F2: MkT2(0)}
	case 3:
		return T14{T1: MkT1(3), F1: []T14{*new(T14), *new(T14)}, F2: MkT2(3)}
	case 4:
		return T14{T1: MkT1(3), F1: []T14{*new(T14), *new(T14)}, F2: MkT2(3)}
	}
	return T14{T1: MkT1(0), F1: []T14(nil), F2: MkT2(2)}
}

func MkT15(k int) T15 {
	switch k {
	case 1:
		return T15(nil)
	case 2:
		return T15{}
	case 3:
		return T15{uint32(65534), uint32(42)}
	case 4:
		return T15{uint32(65534), uint32(43)}
	}
	return T15(nil)
}

func MkT16(k int) T16 {
	switch k {
	case 1:
		return T16{f0: MkT14(0), T8: (*T8)(nil), T10: MkT10(1)}
	case 2:
		return T16{f0: MkT14(0), T8: (*T8)(nil), T10: MkT10(0)}
	case 3:
		return T16{f0: MkT14(3), T8: w.Ptr(MkT8(3)), T10: MkT10(3)}
	case 4:
		return T16{f0: MkT14(3), T8: w.Ptr(MkT8(3)), T10: MkT10(4)}
	}
	return T16{f0: MkT14(0), T8: (*T8)(nil), T10: MkT10(0)}
}

func MkT17(k int) T17 {
	switch k {
	case 1:
		return T17(complex(0.5, 4.25))
	case 2:
		return T17(complex(-2.5, 1.0))
	case 3:
		return T17(complex(0.0, 0.0))
	case 4:
		return T17(complex(0.0, 1.0))
	}
	return T17(complex(0.5, 3.25))
}

func MkT18(k int) T18 {
	switch k {
	case 1:
		return T18{T2: MkT2(0), F1: map[string]T18{string("k1"): *new(T18), string("k2"): *new(T18)}, F2: map[bool]T10{}, T1: MkT1(2)}
	case 2:
		return T18{T2: MkT2(2), F1: map[string]T18{string("k1"): *new(T18)}, F2: map[bool]T10{bool(false): MkT10(2)}, T1: MkT1(0)}
	case 3:
		return T18{T2: MkT2(3), F1: map[string]T18{}, F2: map[bool]T10(nil), T1: MkT1(3)}
	case 4:
		return T18{T2: MkT2(3), F1: map[string]T18{}, F2: map[bool]T10(nil), T1: MkT1(3)}
	}
	return T18{T2: MkT2(0), F1: map[string]T18{string("k1"): *new(T18), string("k2"): *new(T18)}, F2: map[bool]T10{}, T1: MkT1(2)}
}

func MkT19(k int) T19 {
	switch k {
	case 1:
		return T19{Box: g.MkBox[T3](MkT3(2), 1), T8: MkT8(0), F2: uint64(201)}
	case 2:
		return T19{Box: g.MkBox[T3](MkT3(0), 0), T8: MkT8(2), F2: uint64(7)}
	case 3:
		return T19{Box: g.MkBox[T3](MkT3(3), 65), T8: MkT8(3), F2: uint64(65534)}
	case 4:
		return T19{Box: g.MkBox[T3](MkT3(3), 66), T8: MkT8(3), F2: uint64(65534)}
	}
	return T19{Box: g.MkBox[T3](MkT3(2), 1), T8: MkT8(0), F2: uint64(200)}
}

func MkT20(k int) T20 {
	switch k {
	case 1:
		return T20{T9: (*T9)(nil), T3: MkT3(0), f2: string("~")}
	case 2:
		return T20{T9: (*T9)(nil), T3: MkT3(0), f2: string("日本")}
	case 3:
		return T20{T9: w.Ptr(MkT9(3)), T3: MkT3(3), f2: string("x y")}
	case 4:
		return T20{T9: w.Ptr(MkT9(4)), T3: MkT3(3), f2: string("x y")}
	}
	return T20{T9: (*T9)(nil), T3: MkT3(0), f2: string("")}
}

func MkT21(k int) T21 {
	switch k {
	case 1:
		return T21{MkT8(0), MkT8(1)}
	case 2:
		return T21{MkT8(0), MkT8(0), MkT8(0)}
	case 3:
		return T21(nil)
	case 4:
		return T21(nil)
	}
	return T21{MkT8(0), MkT8(0)}
}

func MkT22(k int) T22 {
	switch k {
	case 1:
		return T22(MkT21(1))
	case 2:
		return T22(MkT21(2))
	case 3:
		return T22(MkT21(3))
	case 4:
		return T22(MkT21(3))
	}
	return T22(MkT21(0))
}

func MkT23(k int) T23 {
	switch k {
	case 1:
		return T23{F0: map[string]T23(nil), F1: MkT7(1)}
	case 2:
		return T23{F0: map[string]T23{string("k1"): *new(T23)}, F1: MkT7(0)}
	case 3:
		return T23{F0: map[string]T23{string("k1"): *new(T23), string("k2"): *new(T23), string("k3"): *new(T23)}, F1: MkT7(3)}
	case 4:
		return T23{F0: map[string]T23{string("k1"): *new(T23), string("k2"): *new(T23), string("k3"): *new(T23)}, F1: MkT7(4)}
	}
	return T23{F0: map[string]T23(nil), F1: MkT7(0)}
}

func MkT24(k int) T24 {
	switch k {
	case 1:
		return T24{bool(false): struct { _ int16; F1 float64; f2 T17; F3 int64 }{F1: float64(100.5), f2: MkT17(0), F3: int64(8)}}
	case 2:
		return T24{bool(false): struct { _ int16; F1 float64; f2 T17; F3 int64 }{F1: float64(0.0), f2: MkT17(2), F3: int64(1099511627776)}, bool(true): struct { _ int16; F1 float64; f2 T17; F3 int64 }{F1: float64(-1.5), f2: MkT17(0), F3: int64(1000)}}
	case 3:
		return T24{bool(false): struct { _ int16; F1 float64; f2 T17; F3 int64 }{F1: float64(0.0025), f2: MkT17(3), F3: int64(-30000)}}
	case 4:
		return T24{bool(false): struct { _ int16; F1 float64; f2 T17; F3 int64 }{F1: float64(0.0025), f2: MkT17(3), F3: int64(-29999)}}
	}
	return T24{bool(false): struct { _ int16; F1 float64; f2 T17; F3 int64 }{F1: float64(100.5), f2: MkT17(0), F3: int64(7)}}
}

func U0() {
	w.Header("0", "N/ppvvvu(struct{struct{};map[int32][0]complex128})")
	rt := reflect.TypeOf((*T1)(nil)).Elem()
	w.Try("type", func() { w.Type(rt) })
	partners := []reflect.Type{}
	w.Try("matrix", func() { w.Matrix(rt, partners) })
	w.Try("same", func() {
		w.Same("ptr", reflect.TypeOf((**T1)(nil)).Elem(), reflect.PointerTo(rt))
		w.Same("slice", reflect.TypeOf((*[]T1)(nil)).Elem(), reflect.SliceOf(rt))
		w.Same("array", reflect.TypeOf((*[3]T1)(nil)).Elem(), reflect.ArrayOf(3, rt))
		w.Same("chan", reflect.TypeOf((*<-chan T1)(nil)).Elem(), reflect.ChanOf(reflect.RecvDir, rt))
		w.Same("map", reflect.TypeOf((*map[string]T1)(nil)).Elem(), reflect.MapOf(reflect.TypeOf(""), rt))
		w.Same("func", reflect.TypeOf((*func(T1, ...T1) *T1)(nil)).Elem(), reflect.FuncOf([]reflect.Type{rt, reflect.SliceOf(rt)}, []reflect.Type{reflect.PointerTo(rt)}, true))
	})
	var x T1 = MkT1(0)
	var y T1 = MkT1(0)
	var z T1 = MkT1(2)
	var d T1 = MkT1(3)
	var e T1 = MkT1(3)
	w.Value("x", &x)
	w.Value("d", &d)
	w.Deep("xy", &x, &y)
	w.Deep("xz", &x, &z)
	w.Deep("de", &d, &e)
	w.Try("conv", func() { w.Conv("x", &x, partners) })
	w.Fmt("x", &x)
	w.Fmt("z", &z)
	w.ZeroFmt("t", rt)
	w.TypeCalls("d", &d)
	w.Calls("d", &d)
	_, _, _ = y, z, e
}

func U1() {
	w.Header("1", "N(interface{3u})")
	rt := reflect.TypeOf((*T2)(nil)).Elem()
	w.Try("type", func() { w.Type(rt) })
	partners := []reflect.Type{reflect.TypeOf((*T1)(nil)).Elem(), reflect.TypeOf((*T1)(nil)).Elem(), reflect.TypeOf((*T1)(nil)).Elem()}
	w.Try("matrix", func() { w.Matrix(rt, partners) })
	w.Try("same", func() {
		w.Same("ptr", reflect.TypeOf((**T2)(nil)).Elem(), reflect.PointerTo(rt))
		w.Same("slice", reflect.TypeOf((*[]T2)(nil)).Elem(), reflect.SliceOf(rt))
		w.Same("array", reflect.TypeOf((*[3]T2)(nil)).Elem(), reflect.ArrayOf(3, rt))
		w.Same("chan", reflect.TypeOf((*<-chan T2)(nil)).Elem(), reflect.ChanOf(reflect.RecvDir, rt))
		w.Same("map", reflect.TypeOf((*map[string]T2)(nil)).Elem(), reflect.MapOf(reflect.TypeOf(""), rt))
		w.Same("func", reflect.TypeOf((*func(T2, ...T2) *T2)(nil)).Elem(), reflect.FuncOf([]reflect.Type{rt, reflect.SliceOf(rt)}, []reflect.Type{reflect.PointerTo(rt)}, true))
	})
	var x T2 = MkT2(2)
	var y T2 = MkT2(2)
	var z T2 = MkT2(0)
	var d T2 = MkT2(3)
	var e T2 = MkT2(3)
	w.Value("x", &x)
	w.Value("d", &d)
	w.Deep("xy", &x, &y)
	w.Deep("xz", &x, &z)
	w.Deep("de", &d, &e)
	w.Try("conv", func() { w.Conv("x", &x, partners) })
	w.Fmt("x", &x)
	w.Fmt("z", &z)
	w.ZeroFmt("t", rt)
	w.TypeCalls("d", &d)
	w.Calls("d", &d)
	_, _, _ = y, z, e
}

func U2() {
	w.Header("2", "N(interface{2u})")
	rt := reflect.TypeOf((*T3)(nil)).Elem()
	w.Try("type", func() { w.Type(rt) })
	partners := []reflect.Type{reflect.TypeOf((*T1)(nil)).Elem(), reflect.TypeOf((*T1)(nil)).Elem(), reflect.TypeOf((*T2)(nil)).Elem()}
	w.Try("matrix", func() { w.Matrix(rt, partners) })
	w.Try("same", func() {
		w.Same("ptr", reflect.TypeOf((**T3)(nil)).Elem(), reflect.PointerTo(rt))
		w.Same("slice", reflect.TypeOf((*[]T3)(nil)).Elem(), reflect.SliceOf(rt))
		w.Same("array", reflect.TypeOf((*[3]T3)(nil)).Elem(), reflect.ArrayOf(3, rt))
		w.Same("chan", reflect.TypeOf((*<-chan T3)(nil)).Elem(), reflect.ChanOf(reflect.RecvDir, rt))
		w.Same("map", reflect.TypeOf((*map[string]T3)(nil)).Elem(), reflect.MapOf(reflect.TypeOf(""), rt))
		w.Same("func", reflect.TypeOf((*func(T3, ...T3) *T3)(nil)).Elem(), reflect.FuncOf([]reflect.Type{rt, reflect.SliceOf(rt)}, []reflect.Type{reflect.PointerTo(rt)}, true))
	})
	var x T3 = MkT3(0)
	var y T3 = MkT3(0)
	var z T3 = MkT3(2)
	var d T3 = MkT3(3)
	var e T3 = MkT3(3)
	w.Value("x", &x)
	w.Value("d", &d)
	w.Deep("xy", &x, &y)
	w.Deep("xz", &x, &z)
	w.Deep("de", &d, &e)
	w.Try("conv", func() { w.Conv("x", &x, partners) })
	w.Fmt("x", &x)
	w.Fmt("z", &z)
	w.ZeroFmt("t", rt)
	w.TypeCalls("d", &d)
	w.Calls("d", &d)
	_, _, _ = y, z, e
}

func U3() {
	w.Header("3", "N/pvvvu(g.Wrap[N(interface{2u})])")
	rt := reflect.TypeOf((*T4)(nil)).Elem()
	w.Try("type", func() { w.Type(rt) })
	partners := []reflect.Type{reflect.TypeOf((*T3)(nil)).Elem(), reflect.TypeOf((*T2)(nil)).Elem(), reflect.TypeOf((*T2)(nil)).Elem()}
	w.Try("matrix", func() { w.Matrix(rt, partners) })
	w.Try("same", func() {
		w.Same("ptr", reflect.TypeOf((**T4)(nil)).Elem(), reflect.PointerTo(rt))
		w.Same("slice", reflect.TypeOf((*[]T4)(nil)).Elem(), reflect.SliceOf(rt))
		w.Same("array", reflect.TypeOf((*[3]T4)(nil)).Elem(), reflect.ArrayOf(3, rt))
		w.Same("chan", reflect.TypeOf((*<-chan T4)(nil)).Elem(), reflect.ChanOf(reflect.RecvDir, rt))
		w.Same("map", reflect.TypeOf((*map[string]T4)(nil)).Elem(), reflect.MapOf(reflect.TypeOf(""), rt))
		w.Same("func", reflect.TypeOf((*func(T4, ...T4) *T4)(nil)).Elem(), reflect.FuncOf([]reflect.Type{rt, reflect.SliceOf(rt)}, []reflect.Type{reflect.PointerTo(rt)}, true))
	})
	var x T4 = MkT4(2)
	var y T4 = MkT4(0)
	var z T4 = MkT4(0)
	var d T4 = MkT4(3)
	var e T4 = MkT4(4)
	w.Value("x", &x)
	w.Value("d", &d)
	w.Deep("xy", &x, &y)
	w.Deep("xz", &x, &z)
	w.Deep("de", &d, &e)
	w.Try("conv", func() { w.Conv("x", &x, partners) })
	w.Fmt("x", &x)
	w.Fmt("z", &z)
	w.ZeroFmt("t", rt)
	w.TypeCalls("d", &d)
	w.Calls("d", &d)
	_, _, _ = y, z, e
}

func U4() {
	w.Header("4", "N/pvvv([]N/pvvv([]N))")
	rt := reflect.TypeOf((*T5)(nil)).Elem()
	w.Try("type", func() { w.Type(rt) })
	partners := []reflect.Type{reflect.TypeOf((*T4)(nil)).Elem(), reflect.TypeOf((*T3)(nil)).Elem(), reflect.TypeOf((*T1)(nil)).Elem()}
	w.Try("matrix", func() { w.Matrix(rt, partners) })
	w.Try("same", func() {
		w.Same("ptr", reflect.TypeOf((**T5)(nil)).Elem(), reflect.PointerTo(rt))
		w.Same("slice", reflect.TypeOf((*[]T5)(nil)).Elem(), reflect.SliceOf(rt))
		w.Same("array", reflect.TypeOf((*[3]T5)(nil)).Elem(), reflect.ArrayOf(3, rt))
		w.Same("chan", reflect.TypeOf((*<-chan T5)(nil)).Elem(), reflect.ChanOf(reflect.RecvDir, rt))
		w.Same("map", reflect.TypeOf((*map[string]T5)(nil)).Elem(), reflect.MapOf(reflect.TypeOf(""), rt))
		w.Same("func", reflect.TypeOf((*func(T5, ...T5) *T5)(nil)).Elem(), reflect.FuncOf([]reflect.Type{rt, reflect.SliceOf(rt)}, []reflect.Type{reflect.PointerTo(rt)}, true))
	})
	var x T5 = MkT5(0)
	var y T5 = MkT5(0)
	var z T5 = MkT5(0)
	var d T5 = MkT5(3)
	var e T5 = MkT5(3)
	w.Value("x", &x)
	w.Value("d", &d)
	w.Deep("xy", &x, &y)
	w.Deep("xz", &x, &z)
	w.Deep("de", &d, &e)
	w.Try("conv", func() { w.Conv("x", &x, partners) })
	w.Fmt("x", &x)
	w.Fmt("z", &z)
	w.ZeroFmt("t", rt)
	w.TypeCalls("d", &d)
	w.Calls("d", &d)
	_, _, _ = y, z, e
}

func U5() {
	w.Header("5", "N/puvv(struct{u:*[n]N;u:*N`})")
	rt := reflect.TypeOf((*T6)(nil)).Elem()
	w.Try("type", func() { w.Type(rt) })
	partners := []reflect.Type{reflect.TypeOf((*T3)(nil)).Elem(), reflect.TypeOf((*T2)(nil)).Elem(), reflect.TypeOf((*T1)(nil)).Elem()}
	w.Try("matrix", func() { w.Matrix(rt, partners) })
	w.Try("same", func() {
		w.Same("ptr", reflect.TypeOf((**T6)(nil)).Elem(), reflect.PointerTo(rt))
		w.Same("slice", reflect.TypeOf((*[]T6)(nil)).Elem(), reflect.SliceOf(rt))
		w.Same("array", reflect.TypeOf((*[3]T6)(nil)).Elem(), reflect.ArrayOf(3, rt))
		w.Same("chan", reflect.TypeOf((*<-chan T6)(nil)).Elem(), reflect.ChanOf(reflect.RecvDir, rt))
		w.Same("map", reflect.TypeOf((*map[string]T6)(nil)).Elem(), reflect.MapOf(reflect.TypeOf(""), rt))
		w.Same("func", reflect.TypeOf((*func(T6, ...T6) *T6)(nil)).Elem(), reflect.FuncOf([]reflect.Type{rt, reflect.SliceOf(rt)}, []reflect.Type{reflect.PointerTo(rt)}, true))
	})
	var x T6 = MkT6(0)
	var y T6 = MkT6(0)
	var z T6 = MkT6(2)
	var d T6 = MkT6(3)
	var e T6 = MkT6(3)
	w.Value("x", &x)
	w.Value("d", &d)
	w.Deep("xy", &x, &y)
	w.Deep("xz", &x, &z)
	w.Deep("de", &d, &e)
	w.Try("conv", func() { w.Conv("x", &x, partners) })
	w.Fmt("x", &x)
	w.Fmt("z", &z)
	w.ZeroFmt("t", rt)
	w.TypeCalls("d", &d)
	w.Calls("d", &d)
	_, _, _ = y, z, e
}

func U6() {
	w.Header("6", "N/pvvv(string)")
	rt := reflect.TypeOf((*T7)(nil)).Elem()
	w.Try("type", func() { w.Type(rt) })
	partners := []reflect.Type{reflect.TypeOf((*T6)(nil)).Elem(), reflect.TypeOf((*T1)(nil)).Elem(), reflect.TypeOf((*T4)(nil)).Elem()}
	w.Try("matrix", func() { w.Matrix(rt, partners) })
	w.Try("same", func() {
		w.Same("ptr", reflect.TypeOf((**T7)(nil)).Elem(), reflect.PointerTo(rt))
		w.Same("slice", reflect.TypeOf((*[]T7)(nil)).Elem(), reflect.SliceOf(rt))
		w.Same("array", reflect.TypeOf((*[3]T7)(nil)).Elem(), reflect.ArrayOf(3, rt))
		w.Same("chan", reflect.TypeOf((*<-chan T7)(nil)).Elem(), reflect.ChanOf(reflect.RecvDir, rt))
		w.Same("map", reflect.TypeOf((*map[string]T7)(nil)).Elem(), reflect.MapOf(reflect.TypeOf(""), rt))
		w.Same("func", reflect.TypeOf((*func(T7, ...T7) *T7)(nil)).Elem(), reflect.FuncOf([]reflect.Type{rt, reflect.SliceOf(rt)}, []reflect.Type{reflect.PointerTo(rt)}, true))
	})
	var x T7 = MkT7(2)
	var y T7 = MkT7(0)
	var z T7 = MkT7(0)
	var d T7 = MkT7(3)
	var e T7 = MkT7(4)
	w.Value("x", &x)
	w.Value("d", &d)
	w.Deep("xy", &x, &y)
	w.Deep("xz", &x, &z)
	w.Deep("de", &d, &e)
	w.Try("conv", func() { w.Conv("x", &x, partners) })
	w.Fmt("x", &x)
	w.Fmt("z", &z)
	w.ZeroFmt("t", rt)
	w.TypeCalls("d", &d)
	w.Calls("d", &d)
	_, _, _ = y, z, e
}

func U7() {
	w.Header("7", "N(struct{N/pvvv([]N)`;[n]int`;E:*g.Box[int]`})")
	rt := reflect.TypeOf((*T8)(nil)).Elem()
	w.Try("type", func() { w.Type(rt) })
	partners := []reflect.Type{reflect.TypeOf((*T4)(nil)).Elem(), reflect.TypeOf((*T4)(nil)).Elem(), reflect.TypeOf((*T6)(nil)).Elem()}
	w.Try("matrix", func() { w.Matrix(rt, partners) })
	w.Try("same", func() {
		w.Same("ptr", reflect.TypeOf((**T8)(nil)).Elem(), reflect.PointerTo(rt))
		w.Same("slice", reflect.TypeOf((*[]T8)(nil)).Elem(), reflect.SliceOf(rt))
		w.Same("array", reflect.TypeOf((*[3]T8)(nil)).Elem(), reflect.ArrayOf(3, rt))
		w.Same("chan", reflect.TypeOf((*<-chan T8)(nil)).Elem(), reflect.ChanOf(reflect.RecvDir, rt))
		w.Same("map", reflect.TypeOf((*map[string]T8)(nil)).Elem(), reflect.MapOf(reflect.TypeOf(""), rt))
		w.Same("func", reflect.TypeOf((*func(T8, ...T8) *T8)(nil)).Elem(), reflect.FuncOf([]reflect.Type{rt, reflect.SliceOf(rt)}, []reflect.Type{reflect.PointerTo(rt)}, true))
	})
	var x T8 = MkT8(0)
	var y T8 = MkT8(1)
	var z T8 = MkT8(0)
	var d T8 = MkT8(3)
	var e T8 = MkT8(4)
	w.Value("x", &x)
	w.Value("d", &d)
	w.Deep("xy", &x, &y)
	w.Deep("xz", &x, &z)
	w.Deep("de", &d, &e)
	w.Try("conv", func() { w.Conv("x", &x, partners) })
	w.Fmt("x", &x)
	w.Fmt("z", &z)
	w.ZeroFmt("t", rt)
	w.TypeCalls("d", &d)
	w.Calls("d", &d)
	_, _, _ = y, z, e
}

func U8() {
	w.Header("8", "N/pvvvv(complex64)")
	rt := reflect.TypeOf((*T9)(nil)).Elem()
	w.Try("type", func() { w.Type(rt) })
	partners := []reflect.Type{reflect.TypeOf((*T2)(nil)).Elem(), reflect.TypeOf((*T8)(nil)).Elem(), reflect.TypeOf((*T1)(nil)).Elem()}
	w.Try("matrix", func() { w.Matrix(rt, partners) })
	w.Try("same", func() {
		w.Same("ptr", reflect.TypeOf((**T9)(nil)).Elem(), reflect.PointerTo(rt))
		w.Same("slice", reflect.TypeOf((*[]T9)(nil)).Elem(), reflect.SliceOf(rt))
		w.Same("array", reflect.TypeOf((*[3]T9)(nil)).Elem(), reflect.ArrayOf(3, rt))
		w.Same("chan", reflect.TypeOf((*<-chan T9)(nil)).Elem(), reflect.ChanOf(reflect.RecvDir, rt))
		w.Same("map", reflect.TypeOf((*map[string]T9)(nil)).Elem(), reflect.MapOf(reflect.TypeOf(""), rt))
		w.Same("func", reflect.TypeOf((*func(T9, ...T9) *T9)(nil)).Elem(), reflect.FuncOf([]reflect.Type{rt, reflect.SliceOf(rt)}, []reflect.Type{reflect.PointerTo(rt)}, true))
	})
	var x T9 = MkT9(0)
	var y T9 = MkT9(1)
	var z T9 = MkT9(0)
	var d T9 = MkT9(3)
	var e T9 = MkT9(4)
	w.Value("x", &x)
	w.Value("d", &d)
	w.Deep("xy", &x, &y)
	w.Deep("xz", &x, &z)
	w.Deep("de", &d, &e)
	w.Try("conv", func() { w.Conv("x", &x, partners) })
	w.Fmt("x", &x)
	w.Fmt("z", &z)
	w.ZeroFmt("t", rt)
	w.TypeCalls("d", &d)
	w.Calls("d", &d)
	_, _, _ = y, z, e
}

func U9() {
	w.Header("9", "N/vvv(complex128)")
	rt := reflect.TypeOf((*T10)(nil)).Elem()
	w.Try("type", func() { w.Type(rt) })
	partners := []reflect.Type{reflect.TypeOf((*T6)(nil)).Elem(), reflect.TypeOf((*T2)(nil)).Elem(), reflect.TypeOf((*T5)(nil)).Elem()}
	w.Try("matrix", func() { w.Matrix(rt, partners) })
	w.Try("same", func() {
		w.Same("ptr", reflect.TypeOf((**T10)(nil)).Elem(), reflect.PointerTo(rt))
		w.Same("slice", reflect.TypeOf((*[]T10)(nil)).Elem(), reflect.SliceOf(rt))
		w.Same("array", reflect.TypeOf((*[3]T10)(nil)).Elem(), reflect.ArrayOf(3, rt))
		w.Same("chan", reflect.TypeOf((*<-chan T10)(nil)).Elem(), reflect.ChanOf(reflect.RecvDir, rt))
		w.Same("map", reflect.TypeOf((*map[string]T10)(nil)).Elem(), reflect.MapOf(reflect.TypeOf(""), rt))
		w.Same("func", reflect.TypeOf((*func(T10, ...T10) *T10)(nil)).Elem(), reflect.FuncOf([]reflect.Type{rt, reflect.SliceOf(rt)}, []reflect.Type{reflect.PointerTo(rt)}, true))
	})
	var x T10 = MkT10(0)
	var y T10 = MkT10(1)
	var z T10 = MkT10(0)
	var d T10 = MkT10(3)
	var e T10 = MkT10(4)
	w.Value("x", &x)
	w.Value("d", &d)
	w.Deep("xy", &x, &y)
	w.Deep("xz", &x, &z)
	w.Deep("de", &d, &e)
	w.Try("conv", func() { w.Conv("x", &x, partners) })
	w.Fmt("x", &x)
	w.Fmt("z", &z)
	w.ZeroFmt("t", rt)
	w.TypeCalls("d", &d)
	w.Calls("d", &d)
	_, _, _ = y, z, e
}

func U10() {
	w.Header("10", "N(struct{N/pvvvu(g.Wrap[N])`;N/ppvvvu(struct{struct;map[int32][0]complex128});chan<-map[uint]N})")
	rt := reflect.TypeOf((*T11)(nil)).Elem()
	w.Try("type", func() { w.Type(rt) })
	partners := []reflect.Type{reflect.TypeOf((*T1)(nil)).Elem(), reflect.TypeOf((*T4)(nil)).Elem(), reflect.TypeOf((*T4)(nil)).Elem()}
	w.Try("matrix", func() { w.Matrix(rt, partners) })
	w.Try("same", func() {
		w.Same("ptr", reflect.TypeOf((**T11)(nil)).Elem(), reflect.PointerTo(rt))
		w.Same("slice", reflect.TypeOf((*[]T11)(nil)).Elem(), reflect.SliceOf(rt))
		w.Same("array", reflect.TypeOf((*[3]T11)(nil)).Elem(), reflect.ArrayOf(3, rt))
		w.Same("chan", reflect.TypeOf((*<-chan T11)(nil)).Elem(), reflect.ChanOf(reflect.RecvDir, rt))
		w.Same("map", reflect.TypeOf((*map[string]T11)(nil)).Elem(), reflect.MapOf(reflect.TypeOf(""), rt))
		w.Same("func", reflect.TypeOf((*func(T11, ...T11) *T11)(nil)).Elem(), reflect.FuncOf([]reflect.Type{rt, reflect.SliceOf(rt)}, []reflect.Type{reflect.PointerTo(rt)}, true))
	})
	var x T11 = MkT11(0)
	var y T11 = MkT11(1)
	var z T11 = MkT11(0)
	var d T11 = MkT11(3)
	var e T11 = MkT11(4)
	w.Value("x", &x)
	w.Value("d", &d)
	w.Deep("xy", &x, &y)
	w.Deep("xz", &x, &z)
	w.Deep("de", &d, &e)
	w.Try("conv", func() { w.Conv("x", &x, partners) })
	w.Fmt("x", &x)
	w.Fmt("z", &z)
	w.ZeroFmt("t", rt)
	w.TypeCalls("d", &d)
	w.Calls("d", &d)
	_, _, _ = y, z, e
}

func U11() {
	w.Header("11", "N/pppp(int16)")
	rt := reflect.TypeOf((*T12)(nil)).Elem()
	w.Try("type", func() { w.Type(rt) })
	partners := []reflect.Type{reflect.TypeOf((*T2)(nil)).Elem(), reflect.TypeOf((*T4)(nil)).Elem(), reflect.TypeOf((*T6)(nil)).Elem()}
	w.Try("matrix", func() { w.Matrix(rt, partners) })
	w.Try("same", func() {
		w.Same("ptr", reflect.TypeOf((**T12)(nil)).Elem(), reflect.PointerTo(rt))
		w.Same("slice", reflect.TypeOf((*[]T12)(nil)).Elem(), reflect.SliceOf(rt))
		w.Same("array", reflect.TypeOf((*[3]T12)(nil)).Elem(), reflect.ArrayOf(3, rt))
		w.Same("chan", reflect.TypeOf((*<-chan T12)(nil)).Elem(), reflect.ChanOf(reflect.RecvDir, rt))
		w.Same("map", reflect.TypeOf((*map[string]T12)(nil)).Elem(), reflect.MapOf(reflect.TypeOf(""), rt))
		w.Same("func", reflect.TypeOf((*func(T12, ...T12) *T12)(nil)).Elem(), reflect.FuncOf([]reflect.Type{rt, reflect.SliceOf(rt)}, []reflect.Type{reflect.PointerTo(rt)}, true))
	})
	var x T12 = MkT12(0)
	var y T12 = MkT12(1)
	var z T12 = MkT12(0)
	var d T12 = MkT12(3)
	var e T12 = MkT12(4)
	w.Value("x", &x)
	w.Value("d", &d)
	w.Deep("xy", &x, &y)
	w.Deep("xz", &x, &z)
	w.Deep("de", &d, &e)
	w.Try("conv", func() { w.Conv("x", &x, partners) })
	w.Fmt("x", &x)
	w.Fmt("z", &z)
	w.ZeroFmt("t", rt)
	w.TypeCalls("d", &d)
	w.Calls("d", &d)
	_, _, _ = y, z, e
}

func U12() {
	w.Header("12", "N/ppppppu(float64)")
	rt := reflect.TypeOf((*T13)(nil)).Elem()
	w.Try("type", func() { w.Type(rt) })
	partners := []reflect.Type{reflect.TypeOf((*T3)(nil)).Elem(), reflect.TypeOf((*T5)(nil)).Elem(), reflect.TypeOf((*T2)(nil)).Elem()}
	w.Try("matrix", func() { w.Matrix(rt, partners) })
	w.Try("same", func() {
		w.Same("ptr", reflect.TypeOf((**T13)(nil)).Elem(), reflect.PointerTo(rt))
		w.Same("slice", reflect.TypeOf((*[]T13)(nil)).Elem(), reflect.SliceOf(rt))
		w.Same("array", reflect.TypeOf((*[3]T13)(nil)).Elem(), reflect.ArrayOf(3, rt))
		w.Same("chan", reflect.TypeOf((*<-chan T13)(nil)).Elem(), reflect.ChanOf(reflect.RecvDir, rt))
		w.Same("map", reflect.TypeOf((*map[string]T13)(nil)).Elem(), reflect.MapOf(reflect.TypeOf(""), rt))
		w.Same("func", reflect.TypeOf((*func(T13, ...T13) *T13)(nil)).Elem(), reflect.FuncOf([]reflect.Type{rt, reflect.SliceOf(rt)}, []reflect.Type{reflect.PointerTo(rt)}, true))
	})
	var x T13 = MkT13(0)
	var y T13 = MkT13(1)
	var z T13 = MkT13(0)
	var d T13 = MkT13(3)
	var e T13 = MkT13(4)
	w.Value("x", &x)
	w.Value("d", &d)
	w.Deep("xy", &x, &y)
	w.Deep("xz", &x, &z)
	w.Deep("de", &d, &e)
	w.Try("conv", func() { w.Conv("x", &x, partners) })
	w.Fmt("x", &x)
	w.Fmt("z", &z)
	w.ZeroFmt("t", rt)
	w.TypeCalls("d", &d)
	w.Calls("d", &d)
	_, _, _ = y, z, e
}

func U13() {
	w.Header("13", "N/pp(struct{E:N/ppvvvu(struct{struct;map[int32][0]complex128});[]N;N(interface{3u})})")
	rt := reflect.TypeOf((*T14)(nil)).Elem()
	w.Try("type", func() { w.Type(rt) })
	partners := []reflect.Type{reflect.TypeOf((*T3)(nil)).Elem(), reflect.TypeOf((*T3)(nil)).Elem(), reflect.TypeOf((*T4)(nil)).Elem()}
	w.Try("matrix", func() { w.Matrix(rt, partners) })
	w.Try("same", func() {
		w.Same("ptr", reflect.TypeOf((**T14)(nil)).Elem(), reflect.PointerTo(rt))
		w.Same("slice", reflect.TypeOf((*[]T14)(nil)).Elem(), reflect.SliceOf(rt))
		w.Same("array", reflect.TypeOf((*[3]T14)(nil)).Elem(), reflect.ArrayOf(3, rt))
		w.Same("chan", reflect.TypeOf((*<-chan T14)(nil)).Elem(), reflect.ChanOf(reflect.RecvDir, rt))
		w.Same("map", reflect.TypeOf((*map[string]T14)(nil)).Elem(), reflect.MapOf(reflect.TypeOf(""), rt))
		w.Same("func", reflect.TypeOf((*func(T14, ...T14) *T14)(nil)).Elem(), reflect.FuncOf([]reflect.Type{rt, reflect.SliceOf(rt)}, []reflect.Type{reflect.PointerTo(rt)}, true))
	})
	var x T14 = MkT14(0)
	var y T14 = MkT14(0)
	var z T14 = MkT14(2)
	var d T14 = MkT14(3)
	var e T14 = MkT14(3)
	w.Value("x", &x)
	w.Value("d", &d)
	w.Deep("xy", &x, &y)
	w.Deep("xz", &x, &z)
	w.Deep("de", &d, &e)
	w.Try("conv", func() { w.Conv("x", &x, partners) })
	w.Fmt("x", &x)
	w.Fmt("z", &z)
	w.ZeroFmt("t", rt)
	w.TypeCalls("d", &d)
	w.Calls("d", &d)
	_, _, _ = y, z, e
}

func U14() {
	w.Header("14", "N/ppppv([]uint32)")
	rt := reflect.TypeOf((*T15)(nil)).Elem()
	w.Try("type", func() { w.Type(rt) })
	partners := []reflect.Type{reflect.TypeOf((*T8)(nil)).Elem(), reflect.TypeOf((*T5)(nil)).Elem(), reflect.TypeOf((*T9)(nil)).Elem()}
	w.Try("matrix", func() { w.Matrix(rt, partners) })
	w.Try("same", func() {
		w.Same("ptr", reflect.TypeOf((**T15)(nil)).Elem(), reflect.PointerTo(rt))
		w.Same("slice", reflect.TypeOf((*[]T15)(nil)).Elem(), reflect.SliceOf(rt))
		w.Same("array", reflect.TypeOf((*[3]T15)(nil)).Elem(), reflect.ArrayOf(3, rt))
		w.Same("chan", reflect.TypeOf((*<-chan T15)(nil)).Elem(), reflect.ChanOf(reflect.RecvDir, rt))
		w.Same("map", reflect.TypeOf((*map[string]T15)(nil)).Elem(), reflect.MapOf(reflect.TypeOf(""), rt))
		w.Same("func", reflect.TypeOf((*func(T15, ...T15) *T15)(nil)).Elem(), reflect.FuncOf([]reflect.Type{rt, reflect.SliceOf(rt)}, []reflect.Type{reflect.PointerTo(rt)}, true))
	})
	var x T15 = MkT15(2)
	var y T15 = MkT15(2)
	var z T15 = MkT15(0)
	var d T15 = MkT15(3)
	var e T15 = MkT15(4)
	w.Value("x", &x)
	w.Value("d", &d)
	w.Deep("xy", &x, &y)
	w.Deep("xz", &x, &z)
	w.Deep("de", &d, &e)
	w.Try("conv", func() { w.Conv("x", &x, partners) })
	w.Fmt("x", &x)
	w.Fmt("z", &z)
	w.ZeroFmt("t", rt)
	w.TypeCalls("d", &d)
	w.Calls("d", &d)
	_, _, _ = y, z, e
}

func U15() {
	w.Header("15", "N(struct{u:N/pp(struct{E:N;[]N;N})`;E:*N;E:N/vvv(complex128)})")
	rt := reflect.TypeOf((*T16)(nil)).Elem()
	w.Try("type", func() { w.Type(rt) })
	partners := []reflect.Type{reflect.TypeOf((*T10)(nil)).Elem(), reflect.TypeOf((*T6)(nil)).Elem(), reflect.TypeOf((*T1)(nil)).Elem()}
	w.Try("matrix", func() { w.Matrix(rt, partners) })
	w.Try("same", func() {
		w.Same("ptr", reflect.TypeOf((**T16)(nil)).Elem(), reflect.PointerTo(rt))
		w.Same("slice", reflect.TypeOf((*[]T16)(nil)).Elem(), reflect.SliceOf(rt))
		w.Same("array", reflect.TypeOf((*[3]T16)(nil)).Elem(), reflect.ArrayOf(3, rt))
		w.Same("chan", reflect.TypeOf((*<-chan T16)(nil)).Elem(), reflect.ChanOf(reflect.RecvDir, rt))
		w.Same("map", reflect.TypeOf((*map[string]T16)(nil)).Elem(), reflect.MapOf(reflect.TypeOf(""), rt))
		w.Same("func", reflect.TypeOf((*func(T16, ...T16) *T16)(nil)).Elem(), reflect.FuncOf([]reflect.Type{rt, reflect.SliceOf(rt)}, []reflect.Type{reflect.PointerTo(rt)}, true))
	})
	var x T16 = MkT16(0)
	var y T16 = MkT16(1)
	var z T16 = MkT16(0)
	var d T16 = MkT16(3)
	var e T16 = MkT16(4)
	w.Value("x", &x)
	w.Value("d", &d)
	w.Deep("xy", &x, &y)
	w.Deep("xz", &x, &z)
	w.Deep("de", &d, &e)
	w.Try("conv", func() { w.Conv("x", &x, partners) })
	w.Fmt("x", &x)
	w.Fmt("z", &z)
	w.ZeroFmt("t", rt)
	w.TypeCalls("d", &d)
	w.Calls("d", &d)
	_, _, _ = y, z, e
}

func U16() {
	w.Header("16", "N(complex64)")
	rt := reflect.TypeOf((*T17)(nil)).Elem()
	w.Try("type", func() { w.Type(rt) })
	partners := []reflect.Type{reflect.TypeOf((*T1)(nil)).Elem(), reflect.TypeOf((*T6)(nil)).Elem(), reflect.TypeOf((*T10)(nil)).Elem()}
	w.Try("matrix", func() { w.Matrix(rt, partners) })
	w.Try("same", func() {
		w.Same("ptr", reflect.TypeOf((**T17)(nil)).Elem(), reflect.PointerTo(rt))
		w.Same("slice", reflect.TypeOf((*[]T17)(nil)).Elem(), reflect.SliceOf(rt))
		w.Same("array", reflect.TypeOf((*[3]T17)(nil)).Elem(), reflect.ArrayOf(3, rt))
		w.Same("chan", reflect.TypeOf((*<-chan T17)(nil)).Elem(), reflect.ChanOf(reflect.RecvDir, rt))
		w.Same("map", reflect.TypeOf((*map[string]T17)(nil)).Elem(), reflect.MapOf(reflect.TypeOf(""), rt))
		w.Same("func", reflect.TypeOf((*func(T17, ...T17) *T17)(nil)).Elem(), reflect.FuncOf([]reflect.Type{rt, reflect.SliceOf(rt)}, []reflect.Type{reflect.PointerTo(rt)}, true))
	})
	var x T17 = MkT17(0)
	var y T17 = MkT17(1)
	var z T17 = MkT17(0)
	var d T17 = MkT17(3)
	var e T17 = MkT17(4)
	w.Value("x", &x)
	w.Value("d", &d)
	w.Deep("xy", &x, &y)
	w.Deep("xz", &x, &z)
	w.Deep("de", &d, &e)
	w.Try("conv", func() { w.Conv("x", &x, partners) })
	w.Fmt("x", &x)
	w.Fmt("z", &z)
	w.ZeroFmt("t", rt)
	w.TypeCalls("d", &d)
	w.Calls("d", &d)
	_, _, _ = y, z, e
}

func U17() {
	w.Header("17", "N/vvv(struct{E:N(interface{3u});map[string]N;map[bool]N;E:N/ppvvvu(struct{struct;map[int32][0]complex128})})")
	rt := reflect.TypeOf((*T18)(nil)).Elem()
	w.Try("type", func() { w.Type(rt) })
	partners := []reflect.Type{reflect.TypeOf((*T2)(nil)).Elem(), reflect.TypeOf((*T6)(nil)).Elem(), reflect.TypeOf((*T1)(nil)).Elem()}
	w.Try("matrix", func() { w.Matrix(rt, partners) })
	w.Try("same", func() {
		w.Same("ptr", reflect.TypeOf((**T18)(nil)).Elem(), reflect.PointerTo(rt))
		w.Same("slice", reflect.TypeOf((*[]T18)(nil)).Elem(), reflect.SliceOf(rt))
		w.Same("array", reflect.TypeOf((*[3]T18)(nil)).Elem(), reflect.ArrayOf(3, rt))
		w.Same("chan", reflect.TypeOf((*<-chan T18)(nil)).Elem(), reflect.ChanOf(reflect.RecvDir, rt))
		w.Same("map", reflect.TypeOf((*map[string]T18)(nil)).Elem(), reflect.MapOf(reflect.TypeOf(""), rt))
		w.Same("func", reflect.TypeOf((*func(T18, ...T18) *T18)(nil)).Elem(), reflect.FuncOf([]reflect.Type{rt, reflect.SliceOf(rt)}, []reflect.Type{reflect.PointerTo(rt)}, true))
	})
	var x T18 = MkT18(0)
	var y T18 = MkT18(0)
	var z T18 = MkT18(0)
	var d T18 = MkT18(3)
	var e T18 = MkT18(3)
	w.Value("x", &x)
	w.Value("d", &d)
	w.Deep("xy", &x, &y)
	w.Deep("xz", &x, &z)
	w.Deep("de", &d, &e)
	w.Try("conv", func() { w.Conv("x", &x, partners) })
	w.Fmt("x", &x)
	w.Fmt("z", &z)
	w.ZeroFmt("t", rt)
	w.TypeCalls("d", &d)
	w.Calls("d", &d)
	_, _, _ = y, z, e
}

func U18() {
	w.Header("18", "N/pvv(struct{E:g.Box[N];E:N(struct{N`;[n]int`;E:*G`});uint64`})")
	rt := reflect.TypeOf((*T19)(nil)).Elem()
	w.Try("type", func() { w.Type(rt) })
	partners := []reflect.Type{reflect.TypeOf((*T1)(nil)).Elem(), reflect.TypeOf((*T17)(nil)).Elem(), reflect.TypeOf((*T16)(nil)).Elem()}
	w.Try("matrix", func() { w.Matrix(rt, partners) })
	w.Try("same", func() {
		w.Same("ptr", reflect.TypeOf((**T19)(nil)).Elem(), reflect.PointerTo(rt))
		w.Same("slice", reflect.TypeOf((*[]T19)(nil)).Elem(), reflect.SliceOf(rt))
		w.Same("array", reflect.TypeOf((*[3]T19)(nil)).Elem(), reflect.ArrayOf(3, rt))
		w.Same("chan", reflect.TypeOf((*<-chan T19)(nil)).Elem(), reflect.ChanOf(reflect.RecvDir, rt))
		w.Same("map", reflect.TypeOf((*map[string]T19)(nil)).Elem(), reflect.MapOf(reflect.TypeOf(""), rt))
		w.Same("func", reflect.TypeOf((*func(T19, ...T19) *T19)(nil)).Elem(), reflect.FuncOf([]reflect.Type{rt, reflect.SliceOf(rt)}, []reflect.Type{reflect.PointerTo(rt)}, true))
	})
	var x T19 = MkT19(0)
	var y T19 = MkT19(1)
	var z T19 = MkT19(2)
	var d T19 = MkT19(3)
	var e T19 = MkT19(4)
	w.Value("x", &x)
	w.Value("d", &d)
	w.Deep("xy", &x, &y)
	w.Deep("xz", &x, &z)
	w.Deep("de", &d, &e)
	w.Try("conv", func() { w.Conv("x", &x, partners) })
	w.Fmt("x", &x)
	w.Fmt("z", &z)
	w.ZeroFmt("t", rt)
	w.TypeCalls("d", &d)
	w.Calls("d", &d)
	_, _, _ = y, z, e
}

func U19() {
	w.Header("19", "N/pvvv(struct{E:*N`;E:N(interface{2u})`;u:string`})")
	rt := reflect.TypeOf((*T20)(nil)).Elem()
	w.Try("type", func() { w.Type(rt) })
	partners := []reflect.Type{reflect.TypeOf((*T8)(nil)).Elem(), reflect.TypeOf((*T5)(nil)).Elem(), reflect.TypeOf((*T4)(nil)).Elem()}
	w.Try("matrix", func() { w.Matrix(rt, partners) })
	w.Try("same", func() {
		w.Same("ptr", reflect.TypeOf((**T20)(nil)).Elem(), reflect.PointerTo(rt))
		w.Same("slice", reflect.TypeOf((*[]T20)(nil)).Elem(), reflect.SliceOf(rt))
		w.Same("array", reflect.TypeOf((*[3]T20)(nil)).Elem(), reflect.ArrayOf(3, rt))
		w.Same("chan", reflect.TypeOf((*<-chan T20)(nil)).Elem(), reflect.ChanOf(reflect.RecvDir, rt))
		w.Same("map", reflect.TypeOf((*map[string]T20)(nil)).Elem(), reflect.MapOf(reflect.TypeOf(""), rt))
		w.Same("func", reflect.TypeOf((*func(T20, ...T20) *T20)(nil)).Elem(), reflect.FuncOf([]reflect.Type{rt, reflect.SliceOf(rt)}, []reflect.Type{reflect.PointerTo(rt)}, true))
	})
	var x T20 = MkT20(2)
	var y T20 = MkT20(0)
	var z T20 = MkT20(2)
	var d T20 = MkT20(3)
	var e T20 = MkT20(4)
	w.Value("x", &x)
	w.Value("d", &d)
	w.Deep("xy", &x, &y)
	w.Deep("xz", &x, &z)
	w.Deep("de", &d, &e)
	w.Try("conv", func() { w.Conv("x", &x, partners) })
	w.Fmt("x", &x)
	w.Fmt("z", &z)
	w.ZeroFmt("t", rt)
	w.TypeCalls("d", &d)
	w.Calls("d", &d)
	_, _, _ = y, z, e
}

func U20() {
	w.Header("20", "N/ppvvvv([]N(struct{N`;[n]int`;E:*G`}))")
	rt := reflect.TypeOf((*T21)(nil)).Elem()
	w.Try("type", func() { w.Type(rt) })
	partners := []reflect.Type{reflect.TypeOf((*T17)(nil)).Elem(), reflect.TypeOf((*T10)(nil)).Elem(), reflect.TypeOf((*T5)(nil)).Elem()}
	w.Try("matrix", func() { w.Matrix(rt, partners) })
	w.Try("same", func() {
		w.Same("ptr", reflect.TypeOf((**T21)(nil)).Elem(), reflect.PointerTo(rt))
		w.Same("slice", reflect.TypeOf((*[]T21)(nil)).Elem(), reflect.SliceOf(rt))
		w.Same("array", reflect.TypeOf((*[3]T21)(nil)).Elem(), reflect.ArrayOf(3, rt))
		w.Same("chan", reflect.TypeOf((*<-chan T21)(nil)).Elem(), reflect.ChanOf(reflect.RecvDir, rt))
		w.Same("map", reflect.TypeOf((*map[string]T21)(nil)).Elem(), reflect.MapOf(reflect.TypeOf(""), rt))
		w.Same("func", reflect.TypeOf((*func(T21, ...T21) *T21)(nil)).Elem(), reflect.FuncOf([]reflect.Type{rt, reflect.SliceOf(rt)}, []reflect.Type{reflect.PointerTo(rt)}, true))
	})
	var x T21 = MkT21(2)
	var y T21 = MkT21(0)
	var z T21 = MkT21(2)
	var d T21 = MkT21(3)
	var e T21 = MkT21(3)
	w.Value("x", &x)
	w.Value("d", &d)
	w.Deep("xy", &x, &y)
	w.Deep("xz", &x, &z)
	w.Deep("de", &d, &e)
	w.Try("conv", func() { w.Conv("x", &x, partners) })
	w.Fmt("x", &x)
	w.Fmt("z", &z)
	w.ZeroFmt("t", rt)
	w.TypeCalls("d", &d)
	w.Calls("d", &d)
	_, _, _ = y, z, e
}

func U21() {
	w.Header("21", "N(interface{3})")
	rt := reflect.TypeOf((*T22)(nil)).Elem()
	w.Try("type", func() { w.Type(rt) })
	partners := []reflect.Type{reflect.TypeOf((*T19)(nil)).Elem(), reflect.TypeOf((*T12)(nil)).Elem(), reflect.TypeOf((*T2)(nil)).Elem()}
	w.Try("matrix", func() { w.Matrix(rt, partners) })
	w.Try("same", func() {
		w.Same("ptr", reflect.TypeOf((**T22)(nil)).Elem(), reflect.PointerTo(rt))
		w.Same("slice", reflect.TypeOf((*[]T22)(nil)).Elem(), reflect.SliceOf(rt))
		w.Same("array", reflect.TypeOf((*[3]T22)(nil)).Elem(), reflect.ArrayOf(3, rt))
		w.Same("chan", reflect.TypeOf((*<-chan T22)(nil)).Elem(), reflect.ChanOf(reflect.RecvDir, rt))
		w.Same("map", reflect.TypeOf((*map[string]T22)(nil)).Elem(), reflect.MapOf(reflect.TypeOf(""), rt))
		w.Same("func", reflect.TypeOf((*func(T22, ...T22) *T22)(nil)).Elem(), reflect.FuncOf([]reflect.Type{rt, reflect.SliceOf(rt)}, []reflect.Type{reflect.PointerTo(rt)}, true))
	})
	var x T22 = MkT22(2)
	var y T22 = MkT22(0)
	var z T22 = MkT22(0)
	var d T22 = MkT22(3)
	var e T22 = MkT22(3)
	w.Value("x", &x)
	w.Value("d", &d)
	w.Deep("xy", &x, &y)
	w.Deep("xz", &x, &z)
	w.Deep("de", &d, &e)
	w.Try("conv", func() { w.Conv("x", &x, partners) })
	w.Fmt("x", &x)
	w.Fmt("z", &z)
	w.ZeroFmt("t", rt)
	w.TypeCalls("d", &d)
	w.Calls("d", &d)
	_, _, _ = y, z, e
}

func U22() {
	w.Header("22", "N/pppp(struct{map[string]N;N/pvvv(string)})")
	rt := reflect.TypeOf((*T23)(nil)).Elem()
	w.Try("type", func() { w.Type(rt) })
	partners := []reflect.Type{reflect.TypeOf((*T22)(nil)).Elem(), reflect.TypeOf((*T8)(nil)).Elem(), reflect.TypeOf((*T12)(nil)).Elem()}
	w.Try("matrix", func() { w.Matrix(rt, partners) })
	w.Try("same", func() {
		w.Same("ptr", reflect.TypeOf((**T23)(nil)).Elem(), reflect.PointerTo(rt))
		w.Same("slice", reflect.TypeOf((*[]T23)(nil)).Elem(), reflect.SliceOf(rt))
		w.Same("array", reflect.TypeOf((*[3]T23)(nil)).Elem(), reflect.ArrayOf(3, rt))
		w.Same("chan", reflect.TypeOf((*<-chan T23)(nil)).Elem(), reflect.ChanOf(reflect.RecvDir, rt))
		w.Same("map", reflect.TypeOf((*map[string]T23)(nil)).Elem(), reflect.MapOf(reflect.TypeOf(""), rt))
		w.Same("func", reflect.TypeOf((*func(T23, ...T23) *T23)(nil)).Elem(), reflect.FuncOf([]reflect.Type{rt, reflect.SliceOf(rt)}, []reflect.Type{reflect.PointerTo(rt)}, true))
	})
	var x T23 = MkT23(0)
	var y T23 = MkT23(1)
	var z T23 = MkT23(2)
	var d T23 = MkT23(3)
	var e T23 = MkT23(4)
	w.Value("x", &x)
	w.Value("d", &d)
	w.Deep("xy", &x, &y)
	w.Deep("xz", &x, &z)
	w.Deep("de", &d, &e)
	w.Try("conv", func() { w.Conv("x", &x, partners) })
	w.Fmt("x", &x)
	w.Fmt("z", &z)
	w.ZeroFmt("t", rt)
	w.TypeCalls("d", &d)
	w.Calls("d", &d)
	_, _, _ = y, z, e
}

func U23() {
	w.Header("23", "N(map[bool]struct{u:int16;float64;u:N;int64})")
	rt := reflect.TypeOf((*T24)(nil)).Elem()
	w.Try("type", func() { w.Type(rt) })
	partners := []reflect.Type{reflect.TypeOf((*T16)(nil)).Elem(), reflect.TypeOf((*T19)(nil)).Elem(), reflect.TypeOf((*T15)(nil)).Elem()}
	w.Try("matrix", func() { w.Matrix(rt, partners) })
	w.Try("same", func() {
		w.Same("ptr", reflect.TypeOf((**T24)(nil)).Elem(), reflect.PointerTo(rt))
		w.Same("slice", reflect.TypeOf((*[]T24)(nil)).Elem(), reflect.SliceOf(rt))
		w.Same("array", reflect.TypeOf((*[3]T24)(nil)).Elem(), reflect.ArrayOf(3, rt))
		w.Same("chan", reflect.TypeOf((*<-chan T24)(nil)).Elem(), reflect.ChanOf(reflect.RecvDir, rt))
		w.Same("map", reflect.TypeOf((*map[string]T24)(nil)).Elem(), reflect.MapOf(reflect.TypeOf(""), rt))
		w.Same("func", reflect.TypeOf((*func(T24, ...T24) *T24)(nil)).Elem(), reflect.FuncOf([]reflect.Type{rt, reflect.SliceOf(rt)}, []reflect.Type{reflect.PointerTo(rt)}, true))
	})
	var x T24 = MkT24(2)
	var y T24 = MkT24(0)
	var z T24 = MkT24(0)
	var d T24 = MkT24(3)
	var e T24 = MkT24(4)
	w.Value("x", &x)
	w.Value("d", &d)
	w.Deep("xy", &x, &y)
	w.Deep("xz", &x, &z)
	w.Deep("de", &d, &e)
	w.Try("conv", func() { w.Conv("x", &x, partners) })
	w.Fmt("x", &x)
	w.Fmt("z", &z)
	w.ZeroFmt("t", rt)
	w.TypeCalls("d", &d)
	w.Calls("d", &d)
	_, _, _ = y, z, e
}

func U77() {
	w.Header("77", "fmt.Stringer")
	rt := reflect.TypeOf((*fmt.Stringer)(nil)).Elem()
	w.Try("type", func() { w.Type(rt) })
	partners := []reflect.Type{reflect.TypeOf((*T1)(nil)).Elem(), reflect.TypeOf((*T17)(nil)).Elem(), reflect.TypeOf((*T16)(nil)).Elem()}
	w.Try("matrix", func() { w.Matrix(rt, partners) })
	w.Try("same", func() {
		w.Same("ptr", reflect.TypeOf((**fmt.Stringer)(nil)).Elem(), reflect.PointerTo(rt))
		w.Same("slice", reflect.TypeOf((*[]fmt.Stringer)(nil)).Elem(), reflect.SliceOf(rt))
		w.Same("array", reflect.TypeOf((*[3]fmt.Stringer)(nil)).Elem(), reflect.ArrayOf(3, rt))
		w.Same("chan", reflect.TypeOf((*<-chan fmt.Stringer)(nil)).Elem(), reflect.ChanOf(reflect.RecvDir, rt))
		w.Same("map", reflect.TypeOf((*map[string]fmt.Stringer)(nil)).Elem(), reflect.MapOf(reflect.TypeOf(""), rt))
		w.Same("func", reflect.TypeOf((*func(fmt.Stringer, ...fmt.Stringer) *fmt.Stringer)(nil)).Elem(), reflect.FuncOf([]reflect.Type{rt, reflect.SliceOf(rt)}, []reflect.Type{reflect.PointerTo(rt)}, true))
	})
	var x fmt.Stringer = fmt.Stringer(w.Str{42})
	var y fmt.Stringer = fmt.Stringer(w.Str{43})
	var z fmt.Stringer = fmt.Stringer(w.Str{65})
	var d fmt.Stringer = fmt.Stringer(w.Str{7})
	var e fmt.Stringer = fmt.Stringer(w.Str{8})
	w.Value("x", &x)
	w.Value("d", &d)
	w.Deep("xy", &x, &y)
	w.Deep("xz", &x, &z)
	w.Deep("de", &d, &e)
	w.Try("conv", func() { w.Conv("x", &x, partners) })
	w.Fmt("x", &x)
	w.Fmt("z", &z)
	w.ZeroFmt("t", rt)
	w.TypeCalls("d", &d)
	w.Calls("d", &d)
	_, _, _ = y, z, e
}

func U80() {
	w.Header("80", "[0]N(struct{N`;[n]int`;E:*G`})")
	rt := reflect.TypeOf((*[0]T8)(nil)).Elem()
	w.Try("type", func() { w.Type(rt) })
	partners := []reflect.Type{reflect.TypeOf((*T21)(nil)).Elem(), reflect.TypeOf((*T17)(nil)).Elem(), reflect.TypeOf((*T4)(nil)).Elem()}
	w.Try("matrix", func() { w.Matrix(rt, partners) })
	w.Try("same", func() {
		w.Same("ptr", reflect.TypeOf((**[0]T8)(nil)).Elem(), reflect.PointerTo(rt))
		w.Same("slice", reflect.TypeOf((*[][0]T8)(nil)).Elem(), reflect.SliceOf(rt))
		w.Same("array", reflect.TypeOf((*[3][0]T8)(nil)).Elem(), reflect.ArrayOf(3, rt))
		w.Same("chan", reflect.TypeOf((*<-chan [0]T8)(nil)).Elem(), reflect.ChanOf(reflect.RecvDir, rt))
		w.Same("map", reflect.TypeOf((*map[string][0]T8)(nil)).Elem(), reflect.MapOf(reflect.TypeOf(""), rt))
		w.Same("func", reflect.TypeOf((*func([0]T8, ...[0]T8) *[0]T8)(nil)).Elem(), reflect.FuncOf([]reflect.Type{rt, reflect.SliceOf(rt)}, []reflect.Type{reflect.PointerTo(rt)}, true))
	})
	var x [0]T8 = [0]T8{}
	var y [0]T8 = [0]T8{}
	var z [0]T8 = [0]T8{}
	var d [0]T8 = [0]T8{}
	var e [0]T8 = [0]T8{}
	w.Value("x", &x)
	w.Value("d", &d)
	w.Deep("xy", &x, &y)
	w.Deep("xz", &x, &z)
	w.Deep("de", &d, &e)
	w.Try("conv", func() { w.Conv("x", &x, partners) })
	w.Fmt("x", &x)
	w.Fmt("z", &z)
	w.ZeroFmt("t", rt)
	w.TypeCalls("d", &d)
	w.Calls("d", &d)
	_, _, _ = y, z, e
}

func U83() {
	w.Header("83", "struct{*N/pvvvu(g.Wrap[N]);complex128;N/pppp(int16)}")
	rt := reflect.TypeOf((*struct { F0 *T4; F1 complex128; F2 T12 })(nil)).Elem()
	w.Try("type", func() { w.Type(rt) })
	partners := []reflect.Type{reflect.TypeOf((*T2)(nil)).Elem(), reflect.TypeOf((*T12)(nil)).Elem(), reflect.TypeOf((*T8)(nil)).Elem()}
	w.Try("matrix", func() { w.Matrix(rt, partners) })
	w.Try("same", func() {
		w.Same("ptr", reflect.TypeOf((**struct { F0 *T4; F1 complex128; F2 T12 })(nil)).Elem(), reflect.PointerTo(rt))
		w.Same("slice", reflect.TypeOf((*[]struct { F0 *T4; F1 complex128; F2 T12 })(nil)).Elem(), reflect.SliceOf(rt))
		w.Same("array", reflect.TypeOf((*[3]struct { F0 *T4; F1 complex128; F2 T12 })(nil)).Elem(), reflect.ArrayOf(3, rt))
		w.Same("chan", reflect.TypeOf((*<-chan struct { F0 *T4; F1 complex128; F2 T12 })(nil)).Elem(), reflect.ChanOf(reflect.RecvDir, rt))
		w.Same("map", reflect.TypeOf((*map[string]struct { F0 *T4; F1 complex128; F2 T12 })(nil)).Elem(), reflect.MapOf(reflect.TypeOf(""), rt))
		w.Same("func", reflect.TypeOf((*func(struct { F0 *T4; F1 complex128; F2 T12 }, ...struct { F0 *T4; F1 complex128; F2 T12 }) *struct { F0 *T4; F1 complex128; F2 T12 })(nil)).Elem(), reflect.FuncOf([]reflect.Type{rt, reflect.SliceOf(rt)}, []reflect.Type{reflect.PointerTo(rt)}, true))
	})
	var x struct { F0 *T4; F1 complex128; F2 T12 } = struct { F0 *T4; F1 complex128; F2 T12 }{F0: (*T4)(nil), F1: complex128(complex(0.5, 3.25)), F2: MkT12(2)}
	var y struct { F0 *T4; F1 complex128; F2 T12 } = struct { F0 *T4; F1 complex128; F2 T12 }{F0: (*T4)(nil), F1: complex128(complex(0.5, 3.25)), F2: MkT12(0)}
	var z struct { F0 *T4; F1 complex128; F2 T12 } = struct { F0 *T4; F1 complex128; F2 T12 }{F0: (*T4)(nil), F1: complex128(complex(-2.5, -0.5)), F2: MkT12(0)}
	var d struct { F0 *T4; F1 complex128; F2 T12 } = struct { F0 *T4; F1 complex128; F2 T12 }{F0: w.Ptr(MkT4(3)), F1: complex128(complex(-2.5, 0.0)), F2: MkT12(3)}
	var e struct { F0 *T4; F1 complex128; F2 T12 } = struct { F0 *T4; F1 complex128; F2 T12 }{F0: w.Ptr(MkT4(3)), F1: complex128(complex(-2.5, 0.0)), F2: MkT12(4)}
	w.Value("x", &x)
	w.Value("d", &d)
	w.Deep("xy", &x, &y)
	w.Deep("xz", &x, &z)
	w.Deep("de", &d, &e)
	w.Try("conv", func() { w.Conv("x", &x, partners) })
	w.Fmt("x", &x)
	w.Fmt("z", &z)
	w.ZeroFmt("t", rt)
	w.TypeCalls("d", &d)
	w.Calls("d", &d)
	_, _, _ = y, z, e
}

func U84() {
	w.Header("84", "func([n]uint8)(N(interface{3}))")
	rt := reflect.TypeOf((*func([1]uint8) T22)(nil)).Elem()
	w.Try("type", func() { w.Type(rt) })
	partners := []reflect.Type{reflect.TypeOf((*T7)(nil)).Elem(), reflect.TypeOf((*T4)(nil)).Elem(), reflect.TypeOf((*fmt.Stringer)(nil)).Elem()}
	w.Try("matrix", func() { w.Matrix(rt, partners) })
	w.Try("same", func() {
		w.Same("slice", reflect.TypeOf((*[]func([1]uint8) T22)(nil)).Elem(), reflect.SliceOf(rt))
		w.Same("array", reflect.TypeOf((*[3]func([1]uint8) T22)(nil)).Elem(), reflect.ArrayOf(3, rt))
		w.Same("chan", reflect.TypeOf((*<-chan func([1]uint8) T22)(nil)).Elem(), reflect.ChanOf(reflect.RecvDir, rt))
		w.Same("map", reflect.TypeOf((*map[string]func([1]uint8) T22)(nil)).Elem(), reflect.MapOf(reflect.TypeOf(""), rt))
	})
	var x func([1]uint8) T22 = (func([1]uint8) T22)(nil)
	var y func([1]uint8) T22 = (func([1]uint8) T22)(nil)
	var z func([1]uint8) T22 = (func([1]uint8) T22)(nil)
	var d func([1]uint8) T22 = (func([1]uint8) T22)(func(a0 [1]uint8) T22 { return MkT22(0) })
	var e func([1]uint8) T22 = (func([1]uint8) T22)(func(a0 [1]uint8) T22 { return MkT22(0) })
	w.Value("x", &x)
	w.Value("d", &d)
	w.Deep("xy", &x, &y)
	w.Deep("xz", &x, &z)
	w.Deep("de", &d, &e)
	w.Try("conv", func() { w.Conv("x", &x, partners) })
	w.Fmt("x", &x)
	w.Fmt("z", &z)
	w.ZeroFmt("t", rt)
	w.TypeCalls("d", &d)
	w.Calls("d", &d)
	_, _, _ = y, z, e
}

func U85() {
	w.Header("85", "*float32")
	rt := reflect.TypeOf((**float32)(nil)).Elem()
	w.Try("type", func() { w.Type(rt) })
	partners := []reflect.Type{reflect.TypeOf((*T15)(nil)).Elem(), reflect.TypeOf((*T24)(nil)).Elem(), reflect.TypeOf((*T16)(nil)).Elem()}
	w.Try("matrix", func() { w.Matrix(rt, partners) })
	w.Try("same", func() {
		w.Same("slice", reflect.TypeOf((*[]*float32)(nil)).Elem(), reflect.SliceOf(rt))
		w.Same("array", reflect.TypeOf((*[3]*float32)(nil)).Elem(), reflect.ArrayOf(3, rt))
		w.Same("chan", reflect.TypeOf((*<-chan *float32)(nil)).Elem(), reflect.ChanOf(reflect.RecvDir, rt))
		w.Same("map", reflect.TypeOf((*map[string]*float32)(nil)).Elem(), reflect.MapOf(reflect.TypeOf(""), rt))
	})
	var x *float32 = (*float32)(nil)
	var y *float32 = (*float32)(nil)
	var z *float32 = (*float32)(nil)
	var d *float32 = w.Ptr(float32(0.0025))
	var e *float32 = w.Ptr(float32(0.5025))
	w.Value("x", &x)
	w.Value("d", &d)
	w.Deep("xy", &x, &y)
	w.Deep("xz", &x, &z)
	w.Deep("de", &d, &e)
	w.Try("conv", func() { w.Conv("x", &x, partners) })
	w.Fmt("x", &x)
	w.Fmt("z", &z)
	w.ZeroFmt("t", rt)
	w.TypeCalls("d", &d)
	w.Calls("d", &d)
	_, _, _ = y, z, e
}

func U86() {
	w.Header("86", "[]g.Wrap[N(map[bool]struct)]")
	rt := reflect.TypeOf((*[]g.Wrap[T24])(nil)).Elem()
	w.Try("type", func() { w.Type(rt) })
	partners := []reflect.Type{reflect.TypeOf((*T11)(nil)).Elem(), reflect.TypeOf((*T5)(nil)).Elem(), reflect.TypeOf((*T13)(nil)).Elem()}
	w.Try("matrix", func() { w.Matrix(rt, partners) })
	w.Try("same", func() {
		w.Same("ptr", reflect.TypeOf((**[]g.Wrap[T24])(nil)).Elem(), reflect.PointerTo(rt))
		w.Same("slice", reflect.TypeOf((*[][]g.Wrap[T24])(nil)).Elem(), reflect.SliceOf(rt))
		w.Same("array", reflect.TypeOf((*[3][]g.Wrap[T24])(nil)).Elem(), reflect.ArrayOf(3, rt))
		w.Same("chan", reflect.TypeOf((*<-chan []g.Wrap[T24])(nil)).Elem(), reflect.ChanOf(reflect.RecvDir, rt))
		w.Same("map", reflect.TypeOf((*map[string][]g.Wrap[T24])(nil)).Elem(), reflect.MapOf(reflect.TypeOf(""), rt))
		w.Same("func", reflect.TypeOf((*func([]g.Wrap[T24], ...[]g.Wrap[T24]) *[]g.Wrap[T24])(nil)).Elem(), reflect.FuncOf([]reflect.Type{rt, reflect.SliceOf(rt)}, []reflect.Type{reflect.PointerTo(rt)}, true))
	})
	var x []g.Wrap[T24] = []g.Wrap[T24]{}
	var y []g.Wrap[T24] = []g.Wrap[T24]{}
	var z []g.Wrap[T24] = []g.Wrap[T24]{g.MkWrap[T24](MkT24(0), -100, "Z"), g.MkWrap[T24](MkT24(0), 1000, "x y")}
	var d []g.Wrap[T24] = []g.Wrap[T24]{g.MkWrap[T24](MkT24(3), 1000, "Z")}
	var e []g.Wrap[T24] = []g.Wrap[T24]{g.MkWrap[T24](MkT24(4), 1000, "Z")}
	w.Value("x", &x)
	w.Value("d", &d)
	w.Deep("xy", &x, &y)
	w.Deep("xz", &x, &z)
	w.Deep("de", &d, &e)
	w.Try("conv", func() { w.Conv("x", &x, partners) })
	w.Fmt("x", &x)
	w.Fmt("z", &z)
	w.ZeroFmt("t", rt)
	w.TypeCalls("d", &d)
	w.Calls("d", &d)
	_, _, _ = y, z, e
}

func U90() {
	w.Header("90", "g.M[int8,N/vvv(struct{E:N;map[string]N;map[bool]N;E:N})]")
	rt := reflect.TypeOf((*g.M[int8, T18])(nil)).Elem()
	w.Try("type", func() { w.Type(rt) })
	partners := []reflect.Type{reflect.TypeOf((*T21)(nil)).Elem(), reflect.TypeOf((*T9)(nil)).Elem(), reflect.TypeOf((*T11)(nil)).Elem()}
	w.Try("matrix", func() { w.Matrix(rt, partners) })
	w.Try("same", func() {
		w.Same("ptr", reflect.TypeOf((**g.M[int8, T18])(nil)).Elem(), reflect.PointerTo(rt))
		w.Same("slice", reflect.TypeOf((*[]g.M[int8, T18])(nil)).Elem(), reflect.SliceOf(rt))
		w.Same("array", reflect.TypeOf((*[3]g.M[int8, T18])(nil)).Elem(), reflect.ArrayOf(3, rt))
		w.Same("chan", reflect.TypeOf((*<-chan g.M[int8, T18])(nil)).Elem(), reflect.ChanOf(reflect.RecvDir, rt))
		w.Same("map", reflect.TypeOf((*map[string]g.M[int8, T18])(nil)).Elem(), reflect.MapOf(reflect.TypeOf(""), rt))
		w.Same("func", reflect.TypeOf((*func(g.M[int8, T18], ...g.M[int8, T18]) *g.M[int8, T18])(nil)).Elem(), reflect.FuncOf([]reflect.Type{rt, reflect.SliceOf(rt)}, []reflect.Type{reflect.PointerTo(rt)}, true))
	})
	var x g.M[int8, T18] = g.M[int8, T18]{int8(1): MkT18(0), int8(2): MkT18(2), int8(3): MkT18(0)}
	var y g.M[int8, T18] = g.M[int8, T18]{int8(1): MkT18(0), int8(2): MkT18(2), int8(3): MkT18(0)}
	var z g.M[int8, T18] = g.M[int8, T18](nil)
	var d g.M[int8, T18] = g.M[int8, T18]{int8(1): MkT18(3), int8(2): MkT18(3), int8(3): MkT18(3)}
	var e g.M[int8, T18] = g.M[int8, T18]{int8(1): MkT18(3), int8(2): MkT18(3), int8(3): MkT18(3)}
	w.Value("x", &x)
	w.Value("d", &d)
	w.Deep("xy", &x, &y)
	w.Deep("xz", &x, &z)
	w.Deep("de", &d, &e)
	w.Try("conv", func() { w.Conv("x", &x, partners) })
	w.Fmt("x", &x)
	w.Fmt("z", &z)
	w.ZeroFmt("t", rt)
	w.TypeCalls("d", &d)
	w.Calls("d", &d)
	_, _, _ = y, z, e
}

func U93() {
	w.Header("93", "struct{interface{0};g.Num[N/ppppppu(float64)];*N/pvvv(struct{E:*N`;E:N`;u:string`});uint64;[n]N(struct{u:N`;E:*N;E:N})}")
	rt := reflect.TypeOf((*struct { F0 interface{}; F1 g.Num[T13]; F2 *T20; F3 uint64; F4 [2]T16 })(nil)).Elem()
	w.Try("type", func() { w.Type(rt) })
	partners := []reflect.Type{reflect.TypeOf((*T3)(nil)).Elem(), reflect.TypeOf((*T24)(nil)).Elem(), reflect.TypeOf((*T1)(nil)).Elem()}
	w.Try("matrix", func() { w.Matrix(rt, partners) })
	w.Try("same", func() {
		w.Same("ptr", reflect.TypeOf((**struct { F0 interface{}; F1 g.Num[T13]; F2 *T20; F3 uint64; F4 [2]T16 })(nil)).Elem(), reflect.PointerTo(rt))
		w.Same("slice", reflect.TypeOf((*[]struct { F0 interface{}; F1 g.Num[T13]; F2 *T20; F3 uint64; F4 [2]T16 })(nil)).Elem(), reflect.SliceOf(rt))
		w.Same("array", reflect.TypeOf((*[3]struct { F0 interface{}; F1 g.Num[T13]; F2 *T20; F3 uint64; F4 [2]T16 })(nil)).Elem(), reflect.ArrayOf(3, rt))
		w.Same("chan", reflect.TypeOf((*<-chan struct { F0 interface{}; F1 g.Num[T13]; F2 *T20; F3 uint64; F4 [2]T16 })(nil)).Elem(), reflect.ChanOf(reflect.RecvDir, rt))
		w.Same("map", reflect.TypeOf((*map[string]struct { F0 interface{}; F1 g.Num[T13]; F2 *T20; F3 uint64; F4 [2]T16 })(nil)).Elem(), reflect.MapOf(reflect.TypeOf(""), rt))
		w.Same("func", reflect.TypeOf((*func(struct { F0 interface{}; F1 g.Num[T13]; F2 *T20; F3 uint64; F4 [2]T16 }, ...struct { F0 interface{}; F1 g.Num[T13]; F2 *T20; F3 uint64; F4 [2]T16 }) *struct { F0 interface{}; F1 g.Num[T13]; F2 *T20; F3 uint64; F4 [2]T16 })(nil)).Elem(), reflect.FuncOf([]reflect.Type{rt, reflect.SliceOf(rt)}, []reflect.Type{reflect.PointerTo(rt)}, true))
	})
	var x struct { F0 interface{}; F1 g.Num[T13]; F2 *T20; F3 uint64; F4 [2]T16 } = struct { F0 interface{}; F1 g.Num[T13]; F2 *T20; F3 uint64; F4 [2]T16 }{F0: interface{}(nil), F1: g.Num[T13]{X: MkT13(2)}, F2: (*T20)(nil), F3: uint64(9223372036854775813), F4: [2]T16{MkT16(0), MkT16(2)}}
	var y struct { F0 interface{}; F1 g.Num[T13]; F2 *T20; F3 uint64; F4 [2]T16 } = struct { F0 interface{}; F1 g.Num[T13]; F2 *T20; F3 uint64; F4 [2]T16 }{F0: interface{}(nil), F1: g.Num[T13]{X: MkT13(2)}, F2: (*T20)(nil), F3: uint64(9223372036854775813), F4: [2]T16{MkT16(0), MkT16(0)}}
	var z struct { F0 interface{}; F1 g.Num[T13]; F2 *T20; F3 uint64; F4 [2]T16 } = struct { F0 interface{}; F1 g.Num[T13]; F2 *T20; F3 uint64; F4 [2]T16 }{F0: interface{}(nil), F1: g.Num[T13]{X: MkT13(0)}, F2: (*T20)(nil), F3: uint64(1000), F4: [2]T16{MkT16(0), MkT16(2)}}
	var d struct { F0 interface{}; F1 g.Num[T13]; F2 *T20; F3 uint64; F4 [2]T16 } = struct { F0 interface{}; F1 g.Num[T13]; F2 *T20; F3 uint64; F4 [2]T16 }{F0: interface{}(nil), F1: g.Num[T13]{X: MkT13(3)}, F2: w.Ptr(MkT20(3)), F3: uint64(0), F4: [2]T16{MkT16(3), MkT16(3)}}
	var e struct { F0 interface{}; F1 g.Num[T13]; F2 *T20; F3 uint64; F4 [2]T16 } = struct { F0 interface{}; F1 g.Num[T13]; F2 *T20; F3 uint64; F4 [2]T16 }{F0: interface{}(nil), F1: g.Num[T13]{X: MkT13(3)}, F2: w.Ptr(MkT20(4)), F3: uint64(0), F4: [2]T16{MkT16(3), MkT16(3)}}
	w.Value("x", &x)
	w.Value("d", &d)
	w.Deep("xy", &x, &y)
	w.Deep("xz", &x, &z)
	w.Deep("de", &d, &e)
	w.Try("conv", func() { w.Conv("x", &x, partners) })
	w.P("F skipped: nil pointers or interfaces on the path of a promoted fmt method")
	w.TypeCalls("d", &d)
	w.Calls("d", &d)
	_, _, _ = y, z, e
}

func U94() {
	w.Header("94", "[n]g.List[N/vvv(struct{E:N;map[string]N;map[bool]N;E:N})]")
	rt := reflect.TypeOf((*[2]g.List[T18])(nil)).Elem()
	w.Try("type", func() { w.Type(rt) })
	partners := []reflect.Type{reflect.TypeOf((*[0]T8)(nil)).Elem(), reflect.TypeOf((*T5)(nil)).Elem(), reflect.TypeOf((*T20)(nil)).Elem()}
	w.Try("matrix", func() { w.Matrix(rt, partners) })
	w.Try("same", func() {
		w.Same("ptr", reflect.TypeOf((**[2]g.List[T18])(nil)).Elem(), reflect.PointerTo(rt))
		w.Same("slice", reflect.TypeOf((*[][2]g.List[T18])(nil)).Elem(), reflect.SliceOf(rt))
		w.Same("array", reflect.TypeOf((*[3][2]g.List[T18])(nil)).Elem(), reflect.ArrayOf(3, rt))
		w.Same("chan", reflect.TypeOf((*<-chan [2]g.List[T18])(nil)).Elem(), reflect.ChanOf(reflect.RecvDir, rt))
		w.Same("map", reflect.TypeOf((*map[string][2]g.List[T18])(nil)).Elem(), reflect.MapOf(reflect.TypeOf(""), rt))
		w.Same("func", reflect.TypeOf((*func([2]g.List[T18], ...[2]g.List[T18]) *[2]g.List[T18])(nil)).Elem(), reflect.FuncOf([]reflect.Type{rt, reflect.SliceOf(rt)}, []reflect.Type{reflect.PointerTo(rt)}, true))
	})
	var x [2]g.List[T18] = [2]g.List[T18]{g.List[T18](nil), g.List[T18]{MkT18(0), MkT18(0), MkT18(0)}}
	var y [2]g.List[T18] = [2]g.List[T18]{g.List[T18](nil), g.List[T18]{MkT18(0), MkT18(0), MkT18(0)}}
	var z [2]g.List[T18] = [2]g.List[T18]{g.List[T18]{}, g.List[T18]{}}
	var d [2]g.List[T18] = [2]g.List[T18]{g.List[T18]{}, g.List[T18]{MkT18(3), MkT18(3)}}
	var e [2]g.List[T18] = [2]g.List[T18]{g.List[T18]{}, g.List[T18]{MkT18(3), MkT18(3)}}
	w.Value("x", &x)
	w.Value("d", &d)
	w.Deep("xy", &x, &y)
	w.Deep("xz", &x, &z)
	w.Deep("de", &d, &e)
	w.Try("conv", func() { w.Conv("x", &x, partners) })
	w.Fmt("x", &x)
	w.Fmt("z", &z)
	w.ZeroFmt("t", rt)
	w.TypeCalls("d", &d)
	w.Calls("d", &d)
	_, _, _ = y, z, e
}

func U97() {
	w.Header("97", "map[N/ppppppu(float64)]bool")
	rt := reflect.TypeOf((*map[T13]bool)(nil)).Elem()
	w.Try("type", func() { w.Type(rt) })
	partners := []reflect.Type{reflect.TypeOf((*func([1]uint8) T22)(nil)).Elem(), reflect.TypeOf((*T15)(nil)).Elem(), reflect.TypeOf((*T22)(nil)).Elem()}
	w.Try("matrix", func() { w.Matrix(rt, partners) })
	w.Try("same", func() {
		w.Same("ptr", reflect.TypeOf((**map[T13]bool)(nil)).Elem(), reflect.PointerTo(rt))
		w.Same("slice", reflect.TypeOf((*[]map[T13]bool)(nil)).Elem(), reflect.SliceOf(rt))
		w.Same("array", reflect.TypeOf((*[3]map[T13]bool)(nil)).Elem(), reflect.ArrayOf(3, rt))
		w.Same("chan", reflect.TypeOf((*<-chan map[T13]bool)(nil)).Elem(), reflect.ChanOf(reflect.RecvDir, rt))
		w.Same("map", reflect.TypeOf((*map[string]map[T13]bool)(nil)).Elem(), reflect.MapOf(reflect.TypeOf(""), rt))
		w.Same("func", reflect.TypeOf((*func(map[T13]bool, ...map[T13]bool) *map[T13]bool)(nil)).Elem(), reflect.FuncOf([]reflect.Type{rt, reflect.SliceOf(rt)}, []reflect.Type{reflect.PointerTo(rt)}, true))
	})
	var x map[T13]bool = map[T13]bool(nil)
	var y map[T13]bool = map[T13]bool(nil)
	var z map[T13]bool = map[T13]bool{T13(float64(1.5)): bool(true)}
	var d map[T13]bool = map[T13]bool{}
	var e map[T13]bool = map[T13]bool{}
	w.Value("x", &x)
	w.Value("d", &d)
	w.Deep("xy", &x, &y)
	w.Deep("xz", &x, &z)
	w.Deep("de", &d, &e)
	w.Try("conv", func() { w.Conv("x", &x, partners) })
	w.Fmt("x", &x)
	w.Fmt("z", &z)
	w.ZeroFmt("t", rt)
	w.TypeCalls("d", &d)
	w.Calls("d", &d)
	_, _, _ = y, z, e
}

func U103() {
	w.Header("103", "map[N/pppp(int16)]uint8")
	rt := reflect.TypeOf((*map[T12]uint8)(nil)).Elem()
	w.Try("type", func() { w.Type(rt) })
	partners := []reflect.Type{reflect.TypeOf((*T13)(nil)).Elem(), reflect.TypeOf((*g.M[int8, T18])(nil)).Elem(), reflect.TypeOf((*T24)(nil)).Elem()}
	w.Try("matrix", func() { w.Matrix(rt, partners) })
	w.Try("same", func() {
		w.Same("ptr", reflect.TypeOf((**map[T12]uint8)(nil)).Elem(), reflect.PointerTo(rt))
		w.Same("slice", reflect.TypeOf((*[]map[T12]uint8)(nil)).Elem(), reflect.SliceOf(rt))
		w.Same("array", reflect.TypeOf((*[3]map[T12]uint8)(nil)).Elem(), reflect.ArrayOf(3, rt))
		w.Same("chan", reflect.TypeOf((*<-chan map[T12]uint8)(nil)).Elem(), reflect.ChanOf(reflect.RecvDir, rt))
		w.Same("map", reflect.TypeOf((*map[string]map[T12]uint8)(nil)).Elem(), reflect.MapOf(reflect.TypeOf(""), rt))
		w.Same("func", reflect.TypeOf((*func(map[T12]uint8, ...map[T12]uint8) *map[T12]uint8)(nil)).Elem(), reflect.FuncOf([]reflect.Type{rt, reflect.SliceOf(rt)}, []reflect.Type{reflect.PointerTo(rt)}, true))
	})
	var x map[T12]uint8 = map[T12]uint8{}
	var y map[T12]uint8 = map[T12]uint8{}
	var z map[T12]uint8 = map[T12]uint8{T12(int16(1)): uint8(200), T12(int16(2)): uint8(0)}
	var d map[T12]uint8 = map[T12]uint8(nil)
	var e map[T12]uint8 = map[T12]uint8(nil)
	w.Value("x", &x)
	w.Value("d", &d)
	w.Deep("xy", &x, &y)
	w.Deep("xz", &x, &z)
	w.Deep("de", &d, &e)
	w.Try("conv", func() { w.Conv("x", &x, partners) })
	w.Fmt("x", &x)
	w.Fmt("z", &z)
	w.ZeroFmt("t", rt)
	w.TypeCalls("d", &d)
	w.Calls("d", &d)
	_, _, _ = y, z, e
}

func U105() {
	w.Header("105", "struct{[]uintptr;int8;u:uintptr;u:fmt.Stringer;N/pppp(struct{map[string]N;N})}")
	rt := reflect.TypeOf((*struct { F0 []uintptr; F1 int8; f2 uintptr; f3 fmt.Stringer; F4 T23 })(nil)).Elem()
	w.Try("type", func() { w.Type(rt) })
	partners := []reflect.Type{reflect.TypeOf((*g.M[int8, T18])(nil)).Elem(), reflect.TypeOf((*T20)(nil)).Elem(), reflect.TypeOf((*T19)(nil)).Elem()}
	w.Try("matrix", func() { w.Matrix(rt, partners) })
	w.Try("same", func() {
		w.Same("ptr", reflect.TypeOf((**struct { F0 []uintptr; F1 int8; f2 uintptr; f3 fmt.Stringer; F4 T23 })(nil)).Elem(), reflect.PointerTo(rt))
		w.Same("slice", reflect.TypeOf((*[]struct { F0 []uintptr; F1 int8; f2 uintptr; f3 fmt.Stringer; F4 T23 })(nil)).Elem(), reflect.SliceOf(rt))
		w.Same("array", reflect.TypeOf((*[3]struct { F0 []uintptr; F1 int8; f2 uintptr; f3 fmt.Stringer; F4 T23 })(nil)).Elem(), reflect.ArrayOf(3, rt))
		w.Same("chan", reflect.TypeOf((*<-chan struct { F0 []uintptr; F1 int8; f2 uintptr; f3 fmt.Stringer; F4 T23 })(nil)).Elem(), reflect.ChanOf(reflect.RecvDir, rt))
		w.Same("map", reflect.TypeOf((*map[string]struct { F0 []uintptr; F1 int8; f2 uintptr; f3 fmt.Stringer; F4 T23 })(nil)).Elem(), reflect.MapOf(reflect.TypeOf(""), rt))
		w.Same("func", reflect.TypeOf((*func(struct { F0 []uintptr; F1 int8; f2 uintptr; f3 fmt.Stringer; F4 T23 }, ...struct { F0 []uintptr; F1 int8; f2 uintptr; f3 fmt.Stringer; F4 T23 }) *struct { F0 []uintptr; F1 int8; f2 uintptr; f3 fmt.Stringer; F4 T23 })(nil)).Elem(), reflect.FuncOf([]reflect.Type{rt, reflect.SliceOf(rt)}, []reflect.Type{reflect.PointerTo(rt)}, true))
	})
	var x struct { F0 []uintptr; F1 int8; f2 uintptr; f3 fmt.Stringer; F4 T23 } = struct { F0 []uintptr; F1 int8; f2 uintptr; f3 fmt.Stringer; F4 T23 }{F0: []uintptr(nil), F1: int8(120), f2: uintptr(65534), f3: fmt.Stringer(w.Str{1000}), F4: MkT23(0)}
	var y struct { F0 []uintptr; F1 int8; f2 uintptr; f3 fmt.Stringer; F4 T23 } = struct { F0 []uintptr; F1 int8; f2 uintptr; f3 fmt.Stringer; F4 T23 }{F0: []uintptr(nil), F1: int8(120), f2: uintptr(65534), f3: fmt.Stringer(w.Str{1000}), F4: MkT23(1)}
	var z struct { F0 []uintptr; F1 int8; f2 uintptr; f3 fmt.Stringer; F4 T23 } = struct { F0 []uintptr; F1 int8; f2 uintptr; f3 fmt.Stringer; F4 T23 }{F0: []uintptr{uintptr(0)}, F1: int8(-100), f2: uintptr(65534), f3: fmt.Stringer(nil), F4: MkT23(2)}
	var d struct { F0 []uintptr; F1 int8; f2 uintptr; f3 fmt.Stringer; F4 T23 } = struct { F0 []uintptr; F1 int8; f2 uintptr; f3 fmt.Stringer; F4 T23 }{F0: []uintptr{uintptr(254), uintptr(65)}, F1: int8(99), f2: uintptr(0), f3: fmt.Stringer(w.Str{1000}), F4: MkT23(3)}
	var e struct { F0 []uintptr; F1 int8; f2 uintptr; f3 fmt.Stringer; F4 T23 } = struct { F0 []uintptr; F1 int8; f2 uintptr; f3 fmt.Stringer; F4 T23 }{F0: []uintptr{uintptr(254), uintptr(65)}, F1: int8(99), f2: uintptr(0), f3: fmt.Stringer(w.Str{1000}), F4: MkT23(4)}
	w.Value("x", &x)
	w.Value("d", &d)
	w.Deep("xy", &x, &y)
	w.Deep("xz", &x, &z)
	w.Deep("de", &d, &e)
	w.Try("conv", func() { w.Conv("x", &x, partners) })
	w.Fmt("x", &x)
	w.Fmt("z", &z)
	w.ZeroFmt("t", rt)
	w.TypeCalls("d", &d)
	w.Calls("d", &d)
	_, _, _ = y, z, e
}

func U108() {
	w.Header("108", "struct{interface{0}}")
	rt := reflect.TypeOf((*struct { F0 interface{} })(nil)).Elem()
	w.Try("type", func() { w.Type(rt) })
	partners := []reflect.Type{reflect.TypeOf((*[2]g.List[T18])(nil)).Elem(), reflect.TypeOf((*map[T13]bool)(nil)).Elem(), reflect.TypeOf((*T16)(nil)).Elem()}
	w.Try("matrix", func() { w.Matrix(rt, partners) })
	w.Try("same", func() {
		w.Same("ptr", reflect.TypeOf((**struct { F0 interface{} })(nil)).Elem(), reflect.PointerTo(rt))
		w.Same("slice", reflect.TypeOf((*[]struct { F0 interface{} })(nil)).Elem(), reflect.SliceOf(rt))
		w.Same("array", reflect.TypeOf((*[3]struct { F0 interface{} })(nil)).Elem(), reflect.ArrayOf(3, rt))
		w.Same("chan", reflect.TypeOf((*<-chan struct { F0 interface{} })(nil)).Elem(), reflect.ChanOf(reflect.RecvDir, rt))
		w.Same("map", reflect.TypeOf((*map[string]struct { F0 interface{} })(nil)).Elem(), reflect.MapOf(reflect.TypeOf(""), rt))
		w.Same("func", reflect.TypeOf((*func(struct { F0 interface{} }, ...struct { F0 interface{} }) *struct { F0 interface{} })(nil)).Elem(), reflect.FuncOf([]reflect.Type{rt, reflect.SliceOf(rt)}, []reflect.Type{reflect.PointerTo(rt)}, true))
	})
	var x struct { F0 interface{} } = struct { F0 interface{} }{F0: interface{}(uint8(0))}
	var y struct { F0 interface{} } = struct { F0 interface{} }{F0: interface{}(uint8(1))}
	var z struct { F0 interface{} } = struct { F0 interface{} }{F0: interface{}(MkT15(0))}
	var d struct { F0 interface{} } = struct { F0 interface{} }{F0: interface{}(MkT4(3))}
	var e struct { F0 interface{} } = struct { F0 interface{} }{F0: interface{}(MkT4(4))}
	w.Value("x", &x)
	w.Value("d", &d)
	w.Deep("xy", &x, &y)
	w.Deep("xz", &x, &z)
	w.Deep("de", &d, &e)
	w.Try("conv", func() { w.Conv("x", &x, partners) })
	w.Fmt("x", &x)
	w.Fmt("z", &z)
	w.ZeroFmt("t", rt)
	w.TypeCalls("d", &d)
	w.Calls("d", &d)
	_, _, _ = y, z, e
}

func U110() {
	w.Header("110", "[n]map[int32]N(interface{3})")
	rt := reflect.TypeOf((*[1]map[int32]T22)(nil)).Elem()
	w.Try("type", func() { w.Type(rt) })
	partners := []reflect.Type{reflect.TypeOf((*[0]T8)(nil)).Elem(), reflect.TypeOf((*T6)(nil)).Elem(), reflect.TypeOf((*struct { F0 []uintptr; F1 int8; f2 uintptr; f3 fmt.Stringer; F4 T23 })(nil)).Elem()}
	w.Try("matrix", func() { w.Matrix(rt, partners) })
	w.Try("same", func() {
		w.Same("ptr", reflect.TypeOf((**[1]map[int32]T22)(nil)).Elem(), reflect.PointerTo(rt))
		w.Same("slice", reflect.TypeOf((*[][1]map[int32]T22)(nil)).Elem(), reflect.SliceOf(rt))
		w.Same("array", reflect.TypeOf((*[3][1]map[int32]T22)(nil)).Elem(), reflect.ArrayOf(3, rt))
		w.Same("chan", reflect.TypeOf((*<-chan [1]map[int32]T22)(nil)).Elem(), reflect.ChanOf(reflect.RecvDir, rt))
		w.Same("map", reflect.TypeOf((*map[string][1]map[int32]T22)(nil)).Elem(), reflect.MapOf(reflect.TypeOf(""), rt))
		w.Same("func", reflect.TypeOf((*func([1]map[int32]T22, ...[1]map[int32]T22) *[1]map[int32]T22)(nil)).Elem(), reflect.FuncOf([]reflect.Type{rt, reflect.SliceOf(rt)}, []reflect.Type{reflect.PointerTo(rt)}, true))
	})
	var x [1]map[int32]T22 = [1]map[int32]T22{map[int32]T22{}}
	var y [1]map[int32]T22 = [1]map[int32]T22{map[int32]T22{}}
	var z [1]map[int32]T22 = [1]map[int32]T22{map[int32]T22{}}
	var d [1]map[int32]T22 = [1]map[int32]T22{map[int32]T22{int32(1): MkT22(3)}}
	var e [1]map[int32]T22 = [1]map[int32]T22{map[int32]T22{int32(1): MkT22(3)}}
	w.Value("x", &x)
	w.Value("d", &d)
	w.Deep("xy", &x, &y)
	w.Deep("xz", &x, &z)
	w.Deep("de", &d, &e)
	w.Try("conv", func() { w.Conv("x", &x, partners) })
	w.Fmt("x", &x)
	w.Fmt("z", &z)
	w.ZeroFmt("t", rt)
	w.TypeCalls("d", &d)
	w.Calls("d", &d)
	_, _, _ = y, z, e
}

func U112() {
	w.Header("112", "[][]N/pppp(struct{map[string]N;N})")
	rt := reflect.TypeOf((*[][]T23)(nil)).Elem()
	w.Try("type", func() { w.Type(rt) })
	partners := []reflect.Type{reflect.TypeOf((*[1]map[int32]T22)(nil)).Elem(), reflect.TypeOf((**float32)(nil)).Elem(), reflect.TypeOf((*T22)(nil)).Elem()}
	w.Try("matrix", func() { w.Matrix(rt, partners) })
	w.Try("same", func() {
		w.Same("ptr", reflect.TypeOf((**[][]T23)(nil)).Elem(), reflect.PointerTo(rt))
		w.Same("slice", reflect.TypeOf((*[][][]T23)(nil)).Elem(), reflect.SliceOf(rt))
		w.Same("array", reflect.TypeOf((*[3][][]T23)(nil)).Elem(), reflect.ArrayOf(3, rt))
		w.Same("chan", reflect.TypeOf((*<-chan [][]T23)(nil)).Elem(), reflect.ChanOf(reflect.RecvDir, rt))
		w.Same("map", reflect.TypeOf((*map[string][][]T23)(nil)).Elem(), reflect.MapOf(reflect.TypeOf(""), rt))
		w.Same("func", reflect.TypeOf((*func([][]T23, ...[][]T23) *[][]T23)(nil)).Elem(), reflect.FuncOf([]reflect.Type{rt, reflect.SliceOf(rt)}, []reflect.Type{reflect.PointerTo(rt)}, true))
	})
	var x [][]T23 = [][]T23{[]T23{MkT23(0)}}
	var y [][]T23 = [][]T23{[]T23{MkT23(1)}}
	var z [][]T23 = [][]T23{[]T23(nil), []T23{MkT23(2), MkT23(0)}}
	var d [][]T23 = [][]T23{}
	var e [][]T23 = [][]T23{}
	w.Value("x", &x)
	w.Value("d", &d)
	w.Deep("xy", &x, &y)
	w.Deep("xz", &x, &z)
	w.Deep("de", &d, &e)
	w.Try("conv", func() { w.Conv("x", &x, partners) })
	w.Fmt("x", &x)
	w.Fmt("z", &z)
	w.ZeroFmt("t", rt)
	w.TypeCalls("d", &d)
	w.Calls("d", &d)
	_, _, _ = y, z, e
}
